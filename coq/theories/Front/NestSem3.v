(** Constraints in the Nest group theorem (continues Front/NestSem2.v): inner constraints Exclude and Pin
    split per group; outer constraints Exclude / ExactlyK / AtMostKInARow on crossed outer factors are read
    on the group representatives, on uncrossed outer factors on the whole sequence.
    Guards [nestable_c_b] (constraints, outer ones on crossed factors) and [nestable_f_b] (outer ones on
    any outer factor), theorems [nest_groups_c], [nest_groups_f]. *)
From Coq Require Import List Bool Arith Lia ZArith ZifyBool.
From SP Require Import Design.Sem Front.NestSem Front.NestSem2.
Import ListNotations.

(** * Definitions *)

Definition pin_pos (i : Z) (su : nat) (w : nat * nat) : Z :=
  (if (0 <=? i)%Z then Z.of_nat (fst w) + i * Z.of_nat su else Z.of_nat (snd w) + i * Z.of_nat su)%Z.

Definition pin_in (i : Z) (su : nat) (w : nat * nat) : bool :=
  in_range (pin_pos i su w) (Z.of_nat (fst w)) (Z.of_nat (snd w)).

(** every window of an inner Pin lies in the inner block and the pinned trial group ends inside it *)
Definition pin_fits_b (Ti : nat) (i : Z) (su : nat) (ws : list (nat * nat)) : bool :=
  forallb (fun w => (snd w <=? Ti) && (if pin_in i su w then Z.to_nat (pin_pos i su w) + su <=? Ti else true)) ws.

(** an inner constraint: a run-length / count kind with windows inside the inner block, Exclude, or Pin
    (the outer block then has at least one trial: a Pin demands a trial to pin) *)
Definition inner_constraint2_b (So Si : sem) (c : dconstraint) : bool :=
  (k_factor c <? length (s_factors Si)) &&
  match k_kind c with
  | KAtMost _ | KAtLeast _ | KExactlyInARow _ | KExactlyK _ => forallb (fun w => snd w <=? s_trials Si) (k_windows c)
  | KExclude => true
  | KPin i su => (0 <? s_trials So) && pin_fits_b (s_trials Si) i su (k_windows c)
  | _ => false
  end.

(** an outer constraint: Exclude, ExactlyK or AtMostKInARow on an outer factor, its windows non-empty and
    inside the outer block *)
Definition outer_kind_b (k : ckind) : bool :=
  match k with KExclude | KExactlyK _ | KAtMost _ => true | _ => false end.

Definition outer_constraint_b (So : sem) (c : dconstraint) : bool :=
  outer_kind_b (k_kind c) && (k_factor c <? length (s_factors So)) &&
  forallb (fun w => (fst w <? snd w) && (snd w <=? s_trials So)) (k_windows c).

Definition nestable_f_b (So Si : sem) : bool :=
  factors_b So Si &&
  forallb (outer_constraint_b So) (s_constraints So) && forallb (inner_constraint2_b So Si) (s_constraints Si) &&
  crossings_b So Si.

Definition nestable_c_b (So Si : sem) : bool :=
  nestable_f_b So Si && forallb (fun c => crossed_in So (k_factor c)) (s_constraints So).

(** * Inner Exclude *)

Lemma count_zero_iff : forall l cells,
  count_level l cells = 0 <-> forall t, t < length cells -> cell_eqb (nth t cells None) (Some l) = false.
Proof.
  intros l cells. unfold count_level. induction cells as [|c rest IH].
  - split; [intros _ t Ht; cbn in Ht; lia | reflexivity].
  - cbn [filter]. destruct (cell_eqb c (Some l)) eqn:E.
    + split; [intro H; cbn in H; discriminate|]. intro H. specialize (H 0 ltac:(cbn; lia)). cbn in H. congruence.
    + rewrite IH. split.
      * intros H t Ht. destruct t as [|t]; [exact E|]. cbn [nth]. apply H. cbn in Ht. lia.
      * intros H t Ht. apply (H (Datatypes.S t)). cbn. lia.
Qed.

Lemma grp_row_nth : forall no ni Ti g s f t,
  length s = no + ni -> t < Ti -> nth t (nth f (grp no Ti g s) []) None = nth (g * Ti + t) (nth (no + f) s []) None.
Proof. intros. apply (get_cell_grp no ni); assumption. Qed.

Lemma grp_row_length : forall no ni Ti g s f,
  length s = no + ni -> f < ni -> length (nth f (grp no Ti g s) []) = Ti.
Proof. intros no ni Ti g s f Hs Hf. rewrite (grp_row no ni) by assumption. rewrite map_length, seq_length. reflexivity. Qed.

Lemma constraint_ok_exclude_repeated : forall (S1 S2 : sem) (s : tseq) (k : dconstraint) (no ni To Ti : nat),
  length s = no + ni -> k_factor k < ni -> length (nth (no + k_factor k) s []) = To * Ti -> 0 < Ti ->
  k_kind k = KExclude ->
  (constraint_ok S1 s (repeat_constraint no To Ti k) = true <->
   forall g, g < To -> constraint_ok S2 (grp no Ti g s) k = true).
Proof.
  intros S1 S2 s k no ni To Ti Hs Hf Hlen HTi Hk. unfold constraint_ok.
  cbn [repeat_constraint k_kind k_factor k_level]. rewrite Hk.
  rewrite Nat.eqb_eq, count_zero_iff, Hlen. split.
  - intros H g Hg. rewrite Nat.eqb_eq, count_zero_iff, (grp_row_length no ni) by assumption.
    intros t Ht. rewrite (grp_row_nth no ni) by assumption. apply H. nia.
  - intros H t Ht. destruct (divmod_decompose t Ti HTi) as [Et Hm].
    assert (Hg : t / Ti < To) by (apply Nat.div_lt_upper_bound; lia).
    specialize (H (t / Ti) Hg). rewrite Nat.eqb_eq, count_zero_iff, (grp_row_length no ni) in H by assumption.
    specialize (H (t mod Ti) Hm). rewrite (grp_row_nth no ni) in H by assumption. rewrite <- Et in H. exact H.
Qed.

(** * Inner Pin *)

Lemma constraint_ok_pin : forall S s c i su,
  k_kind c = KPin i su ->
  constraint_ok S s c =
  existsb (pin_in i su) (k_windows c) &&
  forallb (fun w => if pin_in i su w
                    then forallb (fun j => cell_eqb (nth (Z.to_nat (pin_pos i su w) + j) (nth (k_factor c) s []) None) (Some (k_level c)))
                                 (seq 0 su)
                    else true) (k_windows c).
Proof. intros S s c i su H. unfold constraint_ok. rewrite H. reflexivity. Qed.

Definition shiftw (g Ti : nat) (w : nat * nat) : nat * nat := (g * Ti + fst w, g * Ti + snd w).

Lemma pin_pos_shift : forall i su g Ti w, pin_pos i su (shiftw g Ti w) = (Z.of_nat (g * Ti) + pin_pos i su w)%Z.
Proof.
  intros i su g Ti w. unfold pin_pos, shiftw. cbn [fst snd]. destruct (0 <=? i)%Z; rewrite Nat2Z.inj_add; lia.
Qed.

Lemma pin_in_shift : forall i su g Ti w, pin_in i su (shiftw g Ti w) = pin_in i su w.
Proof.
  intros i su g Ti w. unfold pin_in. rewrite pin_pos_shift. unfold shiftw, in_range. cbn [fst snd].
  rewrite !Nat2Z.inj_add. lia.
Qed.

Lemma pin_in_nonneg : forall i su w, pin_in i su w = true -> (0 <= pin_pos i su w)%Z.
Proof. intros i su w H. unfold pin_in, in_range in H. lia. Qed.

Lemma constraint_ok_pin_repeated : forall (S1 S2 : sem) (s : tseq) (k : dconstraint) (no ni To Ti : nat) i su,
  length s = no + ni -> k_factor k < ni -> 0 < To ->
  k_kind k = KPin i su -> pin_fits_b Ti i su (k_windows k) = true ->
  (constraint_ok S1 s (repeat_constraint no To Ti k) = true <->
   forall g, g < To -> constraint_ok S2 (grp no Ti g s) k = true).
Proof.
  intros S1 S2 s k no ni To Ti i su Hs Hf HTo Hk Hfit.
  rewrite (constraint_ok_pin S1 s _ i su) by exact Hk.
  cbn [repeat_constraint k_kind k_factor k_level k_windows].
  change (fun w : nat * nat => (?g * Ti + fst w, ?g * Ti + snd w)) with (shiftw g Ti).
  set (W := k_windows k) in *. set (row := nth (no + k_factor k) s []).
  unfold pin_fits_b in Hfit. rewrite forallb_forall in Hfit.
  (* the pinned cells of a window, in the whole row and in the group *)
  assert (Hcells : forall g w, g < To -> In w W -> pin_in i su w = true ->
            forallb (fun j => cell_eqb (nth (Z.to_nat (pin_pos i su (shiftw g Ti w)) + j) row None) (Some (k_level k))) (seq 0 su)
            = forallb (fun j => cell_eqb (nth (Z.to_nat (pin_pos i su w) + j) (nth (k_factor k) (grp no Ti g s) []) None) (Some (k_level k)))
                      (seq 0 su)).
  { intros g w Hg Hw Hin. apply forallb_ext_in. intros j Hj. apply in_seq in Hj.
    specialize (Hfit w Hw). rewrite andb_true_iff, Hin in Hfit. destruct Hfit as [_ Hfit]. apply Nat.leb_le in Hfit.
    rewrite (grp_row_nth no ni) by (assumption || lia). unfold row. f_equal. f_equal.
    rewrite pin_pos_shift. pose proof (pin_in_nonneg i su w Hin). lia. }
  rewrite andb_true_iff, existsb_exists, forallb_forall. split.
  - intros [[w' [Hw' Hp']] Hall] g Hg. rewrite (constraint_ok_pin S2 _ k i su) by exact Hk. fold W.
    apply in_flat_map in Hw'. destruct Hw' as [g0 [Hg0 Hw']]. apply in_map_iff in Hw'. destruct Hw' as [w0 [<- Hw0]].
    rewrite pin_in_shift in Hp'.
    rewrite andb_true_iff, existsb_exists, forallb_forall. split; [exists w0; auto|].
    intros w Hw. destruct (pin_in i su w) eqn:Hin; [|reflexivity].
    rewrite <- Hcells by assumption.
    specialize (Hall (shiftw g Ti w)). rewrite pin_in_shift, Hin in Hall. apply Hall.
    apply in_flat_map. exists g. split; [apply in_seq; lia|]. apply in_map. exact Hw.
  - intro H. split.
    + specialize (H 0 HTo). rewrite (constraint_ok_pin S2 _ k i su) in H by exact Hk. fold W in H.
      rewrite andb_true_iff, existsb_exists in H. destruct H as [[w [Hw Hp]] _].
      exists (shiftw 0 Ti w). split; [|rewrite pin_in_shift; exact Hp].
      apply in_flat_map. exists 0. split; [apply in_seq; lia|]. apply in_map. exact Hw.
    + intros w' Hw'. apply in_flat_map in Hw'. destruct Hw' as [g [Hg Hw']]. apply in_seq in Hg.
      apply in_map_iff in Hw'. destruct Hw' as [w [<- Hw]]. rewrite pin_in_shift.
      destruct (pin_in i su w) eqn:Hin; [|reflexivity].
      rewrite Hcells by (assumption || lia).
      specialize (H g ltac:(lia)). rewrite (constraint_ok_pin S2 _ k i su) in H by exact Hk. fold W in H.
      rewrite andb_true_iff, forallb_forall in H. destruct H as [_ H]. specialize (H w Hw). rewrite Hin in H. exact H.
Qed.

(** * Stretched rows *)

Definition stretch {A} (L : nat) (l : list A) : list A := flat_map (fun x => repeat x L) l.

Lemma stretch_length : forall {A} L (l : list A), length (stretch L l) = L * length l.
Proof.
  intros A L l. induction l as [|x l IH]; [cbn; lia|].
  unfold stretch in *. cbn [flat_map]. rewrite app_length, repeat_length, IH. cbn [length]. lia.
Qed.

Lemma nth_stretch : forall {A} L (l : list A) t d, t < L * length l -> nth t (stretch L l) d = nth (t / L) l d.
Proof.
  intros A L l. induction l as [|x l IH]; intros t d Ht; [cbn in Ht; lia|].
  unfold stretch in *. cbn [flat_map]. destruct (Nat.lt_ge_cases t L) as [Hlt|Hge].
  - rewrite app_nth1 by (rewrite repeat_length; exact Hlt). rewrite Nat.div_small by exact Hlt.
    cbn [nth]. rewrite (nth_indep _ d x) by (rewrite repeat_length; exact Hlt). apply nth_repeat.
  - rewrite app_nth2 by (rewrite repeat_length; exact Hge). rewrite repeat_length.
    assert (HL : 0 < L) by (destruct L; [cbn in Ht; lia | lia]).
    rewrite IH by (cbn [length] in Ht; nia).
    replace t with (1 * L + (t - L)) at 2 by lia. rewrite Nat.div_add_l by lia. reflexivity.
Qed.

Lemma row_stretch : forall (row : list cell) To Ti,
  0 < Ti -> length row = To * Ti ->
  (forall t, t < To * Ti -> nth t row None = nth (t / Ti * Ti) row None) ->
  row = stretch Ti (map (fun g => nth (g * Ti) row None) (seq 0 To)).
Proof.
  intros row To Ti HTi Hlen Hc. apply (nth_ext _ _ None None).
  - rewrite stretch_length, map_length, seq_length. transitivity (To * Ti); [exact Hlen | apply Nat.mul_comm].
  - intros t Ht. assert (Ht' : t < To * Ti) by (rewrite <- Hlen; exact Ht). clear Ht. rename Ht' into Ht.
    rewrite nth_stretch by (rewrite map_length, seq_length; lia).
    rewrite nth_map_seq by (apply Nat.div_lt_upper_bound; lia). apply Hc. exact Ht.
Qed.

Lemma skipn_stretch : forall {A} L a (l : list A), skipn (a * L) (stretch L l) = stretch L (skipn a l).
Proof.
  intros A L a. induction a as [|a IH]; intro l; [reflexivity|].
  destruct l as [|x l]; [cbn; apply skipn_nil|].
  unfold stretch in *. cbn [flat_map skipn]. rewrite skipn_app, repeat_length.
  rewrite skipn_all2 by (rewrite repeat_length; lia). cbn [app].
  replace (Datatypes.S a * L - L) with (a * L) by lia. apply IH.
Qed.

Lemma firstn_stretch : forall {A} L n (l : list A), firstn (n * L) (stretch L l) = stretch L (firstn n l).
Proof.
  intros A L n. induction n as [|n IH]; intro l; [reflexivity|].
  destruct l as [|x l]; [cbn; apply firstn_nil|].
  unfold stretch in *. cbn [flat_map firstn]. rewrite firstn_app, repeat_length.
  rewrite firstn_all2 by (rewrite repeat_length; lia). f_equal.
  replace (Datatypes.S n * L - L) with (n * L) by lia. apply IH.
Qed.

Lemma slice_stretch : forall {A} L (l : list A) a b, slice (stretch L l) (a * L) (b * L) = stretch L (slice l a b).
Proof.
  intros A L l a b. unfold slice. rewrite skipn_stretch. rewrite <- Nat.mul_sub_distr_r. apply firstn_stretch.
Qed.

Lemma count_level_app : forall l a b, count_level l (a ++ b) = count_level l a + count_level l b.
Proof. intros. unfold count_level. rewrite filter_app, app_length. reflexivity. Qed.

Lemma count_level_repeat : forall l c L, count_level l (repeat c L) = if cell_eqb c (Some l) then L else 0.
Proof.
  intros l c L. unfold count_level. induction L as [|L IH]; [destruct (cell_eqb c (Some l)); reflexivity|].
  cbn [repeat filter]. destruct (cell_eqb c (Some l)); cbn [length]; rewrite IH; reflexivity.
Qed.

Lemma count_level_cons : forall l c rest,
  count_level l (c :: rest) = (if cell_eqb c (Some l) then 1 else 0) + count_level l rest.
Proof. intros l c rest. unfold count_level. cbn [filter]. destruct (cell_eqb c (Some l)); reflexivity. Qed.

Lemma count_level_stretch : forall l L cells, count_level l (stretch L cells) = L * count_level l cells.
Proof.
  intros l L cells. induction cells as [|c rest IH]; [cbn; lia|].
  unfold stretch in *. cbn [flat_map]. rewrite count_level_app, count_level_repeat, IH, count_level_cons.
  destruct (cell_eqb c (Some l)); lia.
Qed.

Lemma runs_aux_repeat_hit : forall l c L rest cur,
  cell_eqb c (Some l) = true -> runs_aux l (repeat c L ++ rest) cur = runs_aux l rest (cur + L).
Proof.
  intros l c L rest. induction L as [|L IH]; intros cur H; [rewrite Nat.add_0_r; reflexivity|].
  cbn [repeat app runs_aux]. rewrite H, IH by exact H. f_equal. lia.
Qed.

Lemma runs_aux_repeat_miss0 : forall l c L rest,
  cell_eqb c (Some l) = false -> runs_aux l (repeat c L ++ rest) 0 = runs_aux l rest 0.
Proof.
  intros l c L rest H. induction L as [|L IH]; [reflexivity|].
  cbn [repeat app runs_aux]. rewrite H. cbn [Nat.eqb]. exact IH.
Qed.

Lemma runs_aux_repeat_miss : forall l c L rest cur,
  0 < L -> cell_eqb c (Some l) = false ->
  runs_aux l (repeat c L ++ rest) cur = if cur =? 0 then runs_aux l rest 0 else cur :: runs_aux l rest 0.
Proof.
  intros l c L rest cur HL H. destruct L as [|L]; [lia|]. cbn [repeat app runs_aux]. rewrite H.
  rewrite runs_aux_repeat_miss0 by exact H. reflexivity.
Qed.

Lemma runs_aux_stretch : forall l L cells cur,
  0 < L -> runs_aux l (stretch L cells) (cur * L) = map (fun n => n * L) (runs_aux l cells cur).
Proof.
  intros l L cells. induction cells as [|c rest IH]; intros cur HL.
  - cbn [stretch flat_map runs_aux]. destruct cur as [|cur]; [reflexivity|].
    cbn [Nat.eqb map]. destruct (Datatypes.S cur * L =? 0) eqn:E; [apply Nat.eqb_eq in E; nia | reflexivity].
  - unfold stretch in *. cbn [flat_map runs_aux]. destruct (cell_eqb c (Some l)) eqn:E.
    + rewrite runs_aux_repeat_hit by exact E. replace (cur * L + L) with (Datatypes.S cur * L) by lia. apply IH. exact HL.
    + rewrite runs_aux_repeat_miss by assumption. specialize (IH 0 HL). cbn [Nat.mul] in IH.
      destruct cur as [|cur]; cbn [Nat.eqb Nat.mul].
      * exact IH.
      * cbn [map]. destruct (L + cur * L =? 0) eqn:E2; [apply Nat.eqb_eq in E2; nia|].
        rewrite IH. reflexivity.
Qed.

Lemma runs_stretch : forall l L cells, 0 < L -> runs l (stretch L cells) = map (fun n => n * L) (runs l cells).
Proof. intros l L cells HL. unfold runs. apply (runs_aux_stretch l L cells 0 HL). Qed.

(** * Outer constraints on a crossed factor *)

Lemma reps_row : forall no To Ti s f,
  f < no -> no <= length s -> nth f (reps no To Ti s) [] = map (fun g => nth (g * Ti) (nth f s []) None) (seq 0 To).
Proof.
  intros no To Ti s f Hf Hs. unfold reps. rewrite (nth_map_in _ _ f [] []) by (rewrite firstn_length; lia).
  rewrite nth_firstn_lt by exact Hf. reflexivity.
Qed.

Lemma outer_windows_scaled : forall So Ti ws,
  0 < Ti -> forallb (fun w => (fst w <? snd w) && (snd w <=? s_trials So)) ws = true ->
  flat_map (fun w => if fst w * Ti <? Nat.min (snd w * Ti) (s_trials So * Ti)
                     then [(fst w * Ti, Nat.min (snd w * Ti) (s_trials So * Ti))] else []) ws
  = map (fun w => (fst w * Ti, snd w * Ti)) ws.
Proof.
  intros So Ti ws HTi H. induction ws as [|w ws IH]; [reflexivity|].
  cbn [forallb] in H. rewrite !andb_true_iff in H. destruct H as [[H1 H2] H3].
  apply Nat.ltb_lt in H1. apply Nat.leb_le in H2. cbn [flat_map map]. rewrite IH by exact H3.
  rewrite Nat.min_l by nia. assert (E : (fst w * Ti <? snd w * Ti) = true) by (apply Nat.ltb_lt; nia).
  rewrite E. reflexivity.
Qed.

Lemma le_div_iff : forall x n L, 0 < L -> (x * L <=? n) = (x <=? n / L).
Proof.
  intros x n L HL. destruct (x <=? n / L) eqn:E.
  - apply Nat.leb_le in E. apply Nat.leb_le. pose proof (Nat.mul_div_le n L ltac:(lia)). nia.
  - apply Nat.leb_gt in E. apply Nat.leb_gt.
    pose proof (Nat.div_mod n L ltac:(lia)). pose proof (Nat.mod_upper_bound n L ltac:(lia)). nia.
Qed.

Lemma outer_constraint_crossed : forall (S1 : sem) (So : sem) (s : tseq) (c : dconstraint) (no To Ti : nat),
  s_trials So = To -> 0 < Ti -> k_factor c < no -> no <= length s ->
  length (nth (k_factor c) s []) = To * Ti ->
  (forall t, t < To * Ti -> get_cell s (k_factor c) t = get_cell s (k_factor c) (t / Ti * Ti)) ->
  outer_kind_b (k_kind c) = true ->
  forallb (fun w => (fst w <? snd w) && (snd w <=? s_trials So)) (k_windows c) = true ->
  constraint_ok S1 s (scale_outer_constraint So Ti c) = constraint_ok So (reps no To Ti s) (reps_constraint Ti c).
Proof.
  intros S1 So s c no To Ti HSo HTi Hf Hs Hlen Hconst Hkind Hw.
  set (row := nth (k_factor c) s []) in *.
  set (rrow := map (fun g => nth (g * Ti) row None) (seq 0 To)).
  assert (Hrow : row = stretch Ti rrow) by (apply row_stretch; assumption).
  unfold constraint_ok. cbn [scale_outer_constraint reps_constraint k_kind k_factor k_level k_windows].
  rewrite (reps_row no To Ti s) by assumption. fold row. fold rrow.
  cbv zeta. rewrite outer_windows_scaled by assumption.
  destruct (k_kind c) as [n|n|n|n| | | |]; try discriminate Hkind; cbn [scale_kind reps_kind].
  - (* AtMostKInARow *)
    rewrite forallb_map'. apply forallb_ext_in. intros w _. cbn [fst snd].
    rewrite Hrow, slice_stretch, runs_stretch by exact HTi. rewrite forallb_map'.
    apply forallb_ext_in. intros x _. apply le_div_iff. exact HTi.
  - (* ExactlyK *)
    rewrite forallb_map'. apply forallb_ext_in. intros w _. cbn [fst snd].
    rewrite Hrow, slice_stretch, count_level_stretch.
    destruct (count_level (k_level c) (slice rrow (fst w) (snd w)) =? n) eqn:E.
    + apply Nat.eqb_eq in E. apply Nat.eqb_eq. nia.
    + apply Nat.eqb_neq in E. apply Nat.eqb_neq. nia.
  - (* Exclude *)
    rewrite Hrow at 1. rewrite count_level_stretch.
    destruct (count_level (k_level c) rrow =? 0) eqn:E.
    + apply Nat.eqb_eq in E. apply Nat.eqb_eq. nia.
    + apply Nat.eqb_neq in E. apply Nat.eqb_neq. nia.
Qed.

Lemma outer_constraint_free : forall (S1 S2 : sem) (s : tseq) (c : dconstraint),
  outer_kind_b (k_kind c) = true -> constraint_ok S1 s c = constraint_ok S2 s c.
Proof. intros S1 S2 s c H. unfold constraint_ok. destruct (k_kind c); try discriminate H; reflexivity. Qed.

(** * The theorems *)

Lemma inner_constraints2 : forall So Si s,
  forallb (inner_constraint2_b So Si) (s_constraints Si) = true -> 0 < s_trials Si ->
  length s = length (s_factors So) + length (s_factors Si) ->
  (forall f, f < length (s_factors So) + length (s_factors Si) -> length (nth f s []) = s_trials So * s_trials Si) ->
  forall k, In k (s_constraints Si) ->
    (constraint_ok (nest_sem2 So Si) s (repeat_constraint (length (s_factors So)) (s_trials So) (s_trials Si) k) = true <->
     forall g, g < s_trials So -> constraint_ok Si (grp (length (s_factors So)) (s_trials Si) g s) k = true).
Proof.
  intros So Si s H HTi Hl Hrow k Hk. rewrite forallb_forall in H. specialize (H k Hk).
  unfold inner_constraint2_b in H. rewrite andb_true_iff in H. destruct H as [Hf H]. apply Nat.ltb_lt in Hf.
  assert (Hlen := Hrow (length (s_factors So) + k_factor k) ltac:(lia)).
  assert (Hwin : forall K, window_kind_b K = true -> k_kind k = K ->
            forallb (fun w => snd w <=? s_trials Si) (k_windows k) = true ->
            (constraint_ok (nest_sem2 So Si) s (repeat_constraint (length (s_factors So)) (s_trials So) (s_trials Si) k) = true <->
             forall g, g < s_trials So -> constraint_ok Si (grp (length (s_factors So)) (s_trials Si) g s) k = true)).
  { intros K HK EK Hc. rewrite forallb_forall in Hc.
    apply (constraint_ok_repeated _ Si s k _ (length (s_factors Si))); try assumption.
    - rewrite EK. exact HK.
    - intros w Hw. apply Nat.leb_le. apply Hc. exact Hw. }
  destruct (k_kind k) as [n|n|n|n| |i su| |] eqn:EK; try discriminate H.
  - apply (Hwin (KAtMost n) eq_refl eq_refl H).
  - apply (Hwin (KAtLeast n) eq_refl eq_refl H).
  - apply (Hwin (KExactlyInARow n) eq_refl eq_refl H).
  - apply (Hwin (KExactlyK n) eq_refl eq_refl H).
  - apply (constraint_ok_exclude_repeated _ Si s k _ (length (s_factors Si))); assumption.
  - rewrite andb_true_iff in H. destruct H as [HTo Hfit]. apply Nat.ltb_lt in HTo.
    apply (constraint_ok_pin_repeated _ Si s k _ (length (s_factors Si)) _ _ i su); assumption.
Qed.

Lemma outer_constraints2 : forall So Si s,
  forallb (outer_constraint_b So) (s_constraints So) = true -> 0 < s_trials Si ->
  length s = length (s_factors So) + length (s_factors Si) ->
  (forall f, f < length (s_factors So) + length (s_factors Si) -> length (nth f s []) = s_trials So * s_trials Si) ->
  (forall f t, f < length (s_factors So) -> crossed_in So f = true -> t < s_trials So * s_trials Si ->
               get_cell s f t = get_cell s f (t / s_trials Si * s_trials Si)) ->
  forall c, In c (s_constraints So) ->
    (constraint_ok (nest_sem2 So Si) s (scale_outer_constraint So (s_trials Si) c) = true <->
     if crossed_in So (k_factor c)
     then constraint_ok So (reps (length (s_factors So)) (s_trials So) (s_trials Si) s) (reps_constraint (s_trials Si) c) = true
     else constraint_ok So s (scale_outer_constraint So (s_trials Si) c) = true).
Proof.
  intros So Si s H HTi Hl Hrow Hconst c Hc. rewrite forallb_forall in H. specialize (H c Hc).
  unfold outer_constraint_b in H. rewrite !andb_true_iff in H. destruct H as [[Hk Hf] Hw]. apply Nat.ltb_lt in Hf.
  destruct (crossed_in So (k_factor c)) eqn:Ecr.
  - rewrite (outer_constraint_crossed (nest_sem2 So Si) So s c (length (s_factors So)) (s_trials So) (s_trials Si));
      try assumption; try reflexivity; try lia.
    + apply Hrow. lia.
    + intros t Ht. apply Hconst; assumption.
  - rewrite (outer_constraint_free (nest_sem2 So Si) So); [reflexivity|].
    cbn [scale_outer_constraint k_kind]. destruct (k_kind c); try discriminate Hk; reflexivity.
Qed.

Theorem nest_groups_f : forall So Si s,
  nestable_f_b So Si = true ->
  (valid_b (nest_sem2 So Si) s = true <-> groups_spec2 So Si s).
Proof.
  intros So Si s Hg. unfold nestable_f_b in Hg. rewrite !andb_true_iff in Hg.
  destruct Hg as [[[HF HCo] HCi] HX].
  destruct (crossings_b_spec So Si HX) as [_ [_ HTi]].
  apply nest_groups_gen; try assumption.
  - intro Hl. apply plain_outer_split; assumption.
  - intro Hl. apply plain_inner_split; assumption.
  - intros Hl Hrow. apply inner_constraints2; assumption.
  - intros Hl Hrow Hconst. apply outer_constraints2; assumption.
Qed.

Theorem nest_groups_c : forall So Si s,
  nestable_c_b So Si = true ->
  (valid_b (nest_sem2 So Si) s = true <-> groups_spec2 So Si s).
Proof.
  intros So Si s Hg. unfold nestable_c_b in Hg. rewrite andb_true_iff in Hg. apply nest_groups_f. apply Hg.
Qed.

Theorem nestable_c_includes : forall So Si, nestable_d_b So Si = true -> nestable_c_b So Si = true.
Proof.
  intros So Si H. unfold nestable_d_b in H. rewrite !andb_true_iff in H. destruct H as [[[HF HCo] HCi] HX].
  unfold nestable_c_b, nestable_f_b. rewrite HF, HX.
  destruct (s_constraints So); [|discriminate]. cbn [forallb andb].
  rewrite !andb_true_r. apply (forallb_impl (inner_constraint_b Si)); [|exact HCi].
  intros c Hc. unfold inner_constraint_b in Hc. rewrite !andb_true_iff in Hc. destruct Hc as [[Hk Hf] Hw].
  unfold inner_constraint2_b. rewrite Hf. cbn [andb]. destruct (k_kind c); try discriminate Hk; exact Hw.
Qed.

Theorem nestable_f_includes : forall So Si, nestable_c_b So Si = true -> nestable_f_b So Si = true.
Proof. intros So Si H. unfold nestable_c_b in H. rewrite andb_true_iff in H. apply H. Qed.

Corollary nest_groups_f_b : forall So Si s,
  nestable_f_b So Si = true -> valid_b (nest_sem2 So Si) s = groups2_b So Si s.
Proof.
  intros So Si s Hg. pose proof (nest_groups_f So Si s Hg) as H. rewrite <- groups2_b_spec in H.
  destruct (valid_b (nest_sem2 So Si) s), (groups2_b So Si s); try reflexivity; intuition discriminate.
Qed.

(** * Examples *)

Definition ex_two_levels_c (T : nat) (ks : list dconstraint) : sem :=
  {| s_trials := T; s_factors := s_factors (ex_two_levels T); s_crossings := s_crossings (ex_two_levels T);
     s_constraints := ks |}.

(** outer: 4 trials of A (2 levels, each twice) with AtMostKInARow(2, a0) and ExactlyK(2, a0);
    inner: 2 trials of B with Pin(-1, b1) *)
Definition ex_outer_c : sem :=
  {| s_trials := 4; s_factors := [ex_two];
     s_crossings := [{| c_factors := [0]; c_first := 0; c_chunk := 4; c_mult := [([0], 2); ([1], 2)] |}];
     s_constraints := [{| k_kind := KAtMost 2; k_factor := 0; k_level := 0; k_windows := [(0, 4)] |};
                       {| k_kind := KExactlyK 2; k_factor := 0; k_level := 0; k_windows := [(0, 4)] |}] |}.

Definition ex_inner_c : sem :=
  ex_two_levels_c 2 [{| k_kind := KPin (-1) 1; k_factor := 0; k_level := 1; k_windows := [(0, 2)] |}].

(** the run-length bound 2 of the outer AtMostKInARow is NOT rescaled: a run of one group already has 2
    trials, so a0 may not be held for two groups in a row - 3 of the 6 outer orders (0101, 1010, 0110) remain,
    each with the one inner order 01 in every group *)
Lemma ex_nestable_c2 :
  nestable_d_b ex_outer_c ex_inner_c = false /\ nestable_c_b ex_outer_c ex_inner_c = true /\
  s_constraints (nest_sem2 ex_outer_c ex_inner_c)
  = [{| k_kind := KAtMost 2; k_factor := 0; k_level := 0; k_windows := [(0, 8)] |};
     {| k_kind := KExactlyK 4; k_factor := 0; k_level := 0; k_windows := [(0, 8)] |};
     {| k_kind := KPin (-1) 1; k_factor := 1; k_level := 1; k_windows := [(0, 2); (2, 4); (4, 6); (6, 8)] |}] /\
  map (reps_constraint 2) (s_constraints ex_outer_c)
  = [{| k_kind := KAtMost 1; k_factor := 0; k_level := 0; k_windows := [(0, 4)] |};
     {| k_kind := KExactlyK 2; k_factor := 0; k_level := 0; k_windows := [(0, 4)] |}] /\
  length (all_valid ex_outer_c) = 6 /\ length (all_valid ex_inner_c) = 1 /\
  length (all_valid (nest_sem2 ex_outer_c ex_inner_c)) = 3.
Proof. repeat split; vm_compute; reflexivity. Qed.
