(** Sustained factors in the Nest group theorem (continues Front/NestSem2.v, NestSem3.v): an argument block
    that is itself a Nest has crossed factors of sustain count > 1.  Guard [nestable_s_b]: as [nestable_f_b],
    but a crossed outer factor may have any positive sustain count, an inner factor any positive sustain
    count dividing the inner trial count.  Theorem [nest_groups_s]. *)
From Coq Require Import List Bool Arith Lia ZArith.
From SP Require Import Design.Sem Front.NestSem Front.NestSem2 Front.NestSem3.
Import ListNotations.

(** * Definitions *)

Definition within_deps_b (n : nat) (fd : dfactor) : bool :=
  match f_derived fd with
  | None => true
  | Some w => (w_width w =? 1) && (w_stride w =? 1) && (w_start w =? 0) && forallb (fun d => d <? n) (w_deps w)
  end.

Definition sust_outer_b (So : sem) (f : nat) (fd : dfactor) : bool :=
  (0 <? f_sustain fd) && (crossed_in So f || (f_sustain fd =? 1)) && within_deps_b (length (s_factors So)) fd.

Definition sust_inner_b (Si : sem) (fd : dfactor) : bool :=
  (0 <? f_sustain fd) && (s_trials Si mod f_sustain fd =? 0) && within_deps_b (length (s_factors Si)) fd.

Definition factors_s_b (So Si : sem) : bool :=
  forallb (fun p => sust_outer_b So (fst p) (snd p)) (index_list (s_factors So)) &&
  forallb (sust_inner_b Si) (s_factors Si).

Definition nestable_s_b (So Si : sem) : bool :=
  factors_s_b So Si &&
  forallb (outer_constraint_b So) (s_constraints So) && forallb (inner_constraint2_b So Si) (s_constraints Si) &&
  crossings_b So Si.

(** * Proofs *)

Lemma within_deps_spec : forall n fd,
  within_deps_b n fd = true -> within_b fd = true /\ forall d, In d (fdeps fd) -> d < n.
Proof.
  intros n fd H. unfold within_deps_b in H. unfold within_b, fdeps. destruct (f_derived fd) as [w|].
  - rewrite !andb_true_iff in H. destruct H as [[[A B] C] D]. rewrite A, B, C. split; [reflexivity|].
    intros d Hd. rewrite forallb_forall in D. apply Nat.ltb_lt. apply D. exact Hd.
  - split; [reflexivity|]. intros d [].
Qed.

Lemma plain_of_within_deps : forall n fd, within_deps_b n fd = true -> f_sustain fd = 1 -> plain_factor_b n fd = true.
Proof.
  intros n fd H Hs. unfold plain_factor_b. rewrite Hs. cbn [Nat.eqb andb]. exact H.
Qed.

Lemma group_floor : forall t su Ti, 0 < su -> 0 < Ti -> t / (su * Ti) * (su * Ti) = t / Ti / su * su * Ti.
Proof.
  intros t su Ti Hsu HTi. rewrite (Nat.mul_comm su Ti). rewrite <- Nat.div_div by lia. lia.
Qed.

Lemma floor_le : forall x su, x / su * su <= x.
Proof. intros x su. destruct su as [|su]; [lia|]. pose proof (Nat.mul_div_le x (Datatypes.S su) ltac:(lia)). lia. Qed.

Lemma floor_idem : forall x su, 0 < su -> x / su * su / su = x / su.
Proof. intros x su H. apply Nat.div_mul. lia. Qed.

Lemma outer_factor_crossed_s : forall (N So : sem) s f fd no To Ti,
  s_trials N = To * Ti -> s_trials So = To -> 0 < Ti -> f < no -> no <= length s ->
  0 < f_sustain fd -> within_deps_b no fd = true -> length (nth f s []) = To * Ti ->
  (factor_ok N s f (scale_factor Ti true fd) = true <->
   (forall t, t < To * Ti -> get_cell s f t = get_cell s f (t / Ti * Ti)) /\
   factor_ok So (reps_at no To Ti 0 s) f fd = true).
Proof.
  intros N So s f fd no To Ti HN HSo HTi Hf Hs Hsu Hwd Hlen.
  destruct (within_deps_spec no fd Hwd) as [Hw Hd].
  rewrite factor_ok_local by (rewrite within_scale; exact Hw). rewrite HN, fdeps_scale.
  change (f_sustain (scale_factor Ti true fd)) with (f_sustain fd * Ti).
  rewrite (factor_ok_local So) by exact Hw. rewrite HSo.
  set (su := f_sustain fd) in *.
  assert (HG : forall t, t < To * Ti -> t / Ti / su * su < To).
  { intros t Ht. assert (t / Ti < To) by (apply Nat.div_lt_upper_bound; lia). pose proof (floor_le (t / Ti) su). lia. }
  assert (Hcell : forall g, g < To -> get_cell (reps_at no To Ti 0 s) f g = get_cell s f (g * Ti)).
  { intros g Hg. rewrite get_cell_reps_at by assumption. rewrite Nat.add_0_r. reflexivity. }
  assert (Hargs : forall g, g < To -> args_at (reps_at no To Ti 0 s) (fdeps fd) g = args_at s (fdeps fd) (g * Ti)).
  { intros g Hg. rewrite args_at_reps_at by assumption. rewrite Nat.add_0_r. reflexivity. }
  split.
  - intros [_ H].
    assert (Hc0 : forall t, t < To * Ti -> get_cell s f t = get_cell s f (t / Ti / su * su * Ti)).
    { intros t Ht. rewrite <- group_floor by assumption. apply (H t Ht). }
    split; [|split].
    + intros t Ht. rewrite (Hc0 t Ht).
      assert (Ht' : t / Ti * Ti < To * Ti).
      { assert (t / Ti < To) by (apply Nat.div_lt_upper_bound; lia). nia. }
      rewrite (Hc0 _ Ht'). rewrite Nat.div_mul by lia. reflexivity.
    + apply reps_at_row_length; assumption.
    + intros g Hg.
      assert (HgT : g * Ti < To * Ti) by nia.
      assert (Hg0 : g / su * su < To) by (pose proof (floor_le g su); lia).
      rewrite !Hcell, Hargs by assumption.
      destruct (H (g * Ti) HgT) as [A B]. rewrite group_floor in A, B by assumption.
      rewrite Nat.div_mul in A, B by lia. split; [exact A|]. apply (proj1 (loc_scale Ti true fd _ _)) in B. exact B.
  - intros [Hc [_ H]]. split; [exact Hlen|]. intros t Ht. rewrite group_floor by assumption.
    assert (Hg : t / Ti < To) by (apply Nat.div_lt_upper_bound; lia).
    assert (Hg0 : t / Ti / su * su < To) by (apply HG; exact Ht).
    destruct (H (t / Ti) Hg) as [A B]. rewrite !Hcell, Hargs in * by assumption.
    rewrite (Hc t Ht). split; [exact A|]. apply (proj2 (loc_scale Ti true fd _ _)). exact B.
Qed.

Lemma group_offset_floor : forall g Ti su t, 0 < su -> Ti mod su = 0 -> (g * Ti + t) / su * su = g * Ti + t / su * su.
Proof.
  intros g Ti su t Hsu Hmod.
  pose proof (Nat.div_mod Ti su ltac:(lia)) as E. rewrite Hmod in E.
  set (q := Ti / su) in *. replace (g * Ti) with (g * q * su) by nia.
  rewrite Nat.div_add_l by lia. lia.
Qed.

Lemma inner_factor_s : forall (N Si : sem) s f fd no ni To Ti,
  s_trials N = To * Ti -> s_trials Si = Ti -> 0 < Ti -> f < ni -> length s = no + ni ->
  0 < f_sustain fd -> Ti mod f_sustain fd = 0 -> within_deps_b ni fd = true ->
  length (nth (no + f) s []) = To * Ti ->
  (factor_ok N s (no + f) (shift_factor no fd) = true <->
   forall g, g < To -> factor_ok Si (grp no Ti g s) f fd = true).
Proof.
  intros N Si s f fd no ni To Ti HN HSi HTi Hf Hs Hsu Hmod Hwd Hlen.
  destruct (within_deps_spec ni fd Hwd) as [Hw Hd].
  rewrite factor_ok_local by (rewrite within_shift; exact Hw). rewrite HN, fdeps_shift.
  change (f_sustain (shift_factor no fd)) with (f_sustain fd).
  set (su := f_sustain fd) in *.
  split.
  - intros [_ H] g Hg. rewrite factor_ok_local by exact Hw. rewrite HSi. fold su. split.
    + apply (grp_row_length no ni); assumption.
    + intros t Ht.
      assert (Ht0 : t / su * su < Ti) by (pose proof (floor_le t su); lia).
      rewrite !(get_cell_grp no ni) by assumption. rewrite (args_at_grp no ni) by assumption.
      destruct (H (g * Ti + t) ltac:(nia)) as [A B]. rewrite group_offset_floor in A, B by assumption.
      split; [exact A|]. apply (proj1 (loc_shift no fd _ _)) in B. exact B.
  - intro H. split; [exact Hlen|]. intros t Ht.
    destruct (divmod_decompose t Ti HTi) as [Et Hm].
    assert (Hg : t / Ti < To) by (apply Nat.div_lt_upper_bound; lia).
    specialize (H (t / Ti) Hg). rewrite factor_ok_local in H by exact Hw. rewrite HSi in H. fold su in H.
    destruct H as [_ H]. destruct (H (t mod Ti) Hm) as [A B].
    assert (Ht0 : t mod Ti / su * su < Ti) by (pose proof (floor_le (t mod Ti) su); lia).
    rewrite (get_cell_grp no ni Ti (t / Ti) s f (t mod Ti) Hs Hm) in A, B.
    rewrite (get_cell_grp no ni Ti (t / Ti) s f _ Hs Ht0) in A.
    rewrite (args_at_grp no ni Ti (t / Ti) s _ _ Hs Ht0) in B.
    rewrite <- group_offset_floor in A, B by assumption. rewrite <- Et in A, B.
    split; [exact A|]. apply (proj2 (loc_shift no fd _ _)). exact B.
Qed.

Theorem nest_groups_s : forall So Si s,
  nestable_s_b So Si = true ->
  (valid_b (nest_sem2 So Si) s = true <-> groups_spec2 So Si s).
Proof.
  intros So Si s Hg. unfold nestable_s_b in Hg. rewrite !andb_true_iff in Hg.
  destruct Hg as [[[HF HCo] HCi] HX].
  destruct (crossings_b_spec So Si HX) as [_ [_ HTi]].
  unfold factors_s_b in HF. rewrite andb_true_iff in HF. destruct HF as [HFo HFi].
  rewrite (forallb_index_list (fun f fd => sust_outer_b So f fd)) in HFo. rewrite forallb_forall in HFi.
  apply nest_groups_gen; try assumption.
  - intros Hl f fd Hfd Hlen. specialize (HFo f fd Hfd). unfold sust_outer_b in HFo.
    rewrite !andb_true_iff in HFo. destruct HFo as [[Hsu Hcr] Hwd]. apply Nat.ltb_lt in Hsu.
    assert (Hfn : f < length (s_factors So)) by (apply nth_error_Some; congruence).
    destruct (crossed_in So f) eqn:Ecr.
    + rewrite (outer_factor_crossed_s (nest_sem2 So Si) So s f fd (length (s_factors So)) (s_trials So) (s_trials Si));
        try assumption; try reflexivity; try lia.
      split.
      * intros [A B]. split; [intros _; exact A|]. intros j Hj Hj0. rewrite (Hj0 eq_refl). exact B.
      * intros [A B]. split; [apply A; reflexivity|]. apply B; [exact HTi|reflexivity].
    + cbn [orb] in Hcr. apply Nat.eqb_eq in Hcr. cbn [scale_factor].
      rewrite (outer_factor_free (nest_sem2 So Si) So s f fd (length (s_factors So)) (s_trials So) (s_trials Si));
        try assumption; try reflexivity; try lia; [|apply plain_of_within_deps; assumption].
      split.
      * intro A. split; [discriminate|]. intros j Hj _. apply A. exact Hj.
      * intros [_ B] j Hj. apply B; [exact Hj|discriminate].
  - intros Hl f fd Hfd Hlen. specialize (HFi fd (nth_error_In _ _ Hfd)). unfold sust_inner_b in HFi.
    rewrite !andb_true_iff in HFi. destruct HFi as [[Hsu Hmod] Hwd]. apply Nat.ltb_lt in Hsu. apply Nat.eqb_eq in Hmod.
    assert (Hfn : f < length (s_factors Si)) by (apply nth_error_Some; congruence).
    apply (inner_factor_s (nest_sem2 So Si) Si s f fd _ (length (s_factors Si)) (s_trials So) (s_trials Si));
      try assumption; reflexivity.
  - intros Hl Hrow. apply inner_constraints2; assumption.
  - intros Hl Hrow Hconst. apply outer_constraints2; assumption.
Qed.

Lemma plain_within_deps : forall n fd, plain_factor_b n fd = true -> f_sustain fd = 1 /\ within_deps_b n fd = true.
Proof.
  intros n fd H. unfold plain_factor_b in H. rewrite andb_true_iff, Nat.eqb_eq in H. exact H.
Qed.

Theorem nestable_s_includes : forall So Si, nestable_f_b So Si = true -> nestable_s_b So Si = true.
Proof.
  intros So Si H. unfold nestable_f_b in H. rewrite !andb_true_iff in H. destruct H as [[[HF HCo] HCi] HX].
  unfold nestable_s_b. rewrite HCo, HCi, HX, !andb_true_r.
  destruct (factors_b_spec So Si HF) as [HFo HFi].
  unfold factors_s_b. rewrite andb_true_iff. split.
  - apply (forallb_index_list (fun f fd => sust_outer_b So f fd)). intros f fd Hfd.
    destruct (plain_within_deps _ fd (HFo fd (nth_error_In _ _ Hfd))) as [Hs Hw].
    unfold sust_outer_b. rewrite Hs, Hw. cbn [Nat.ltb Nat.leb Nat.eqb]. rewrite orb_true_r. reflexivity.
  - apply forallb_forall. intros fd Hfd. destruct (plain_within_deps _ fd (HFi fd Hfd)) as [Hs Hw].
    unfold sust_inner_b. rewrite Hs, Hw, Nat.mod_1_r. reflexivity.
Qed.

Corollary nest_groups_s_b : forall So Si s,
  nestable_s_b So Si = true -> valid_b (nest_sem2 So Si) s = groups2_b So Si s.
Proof.
  intros So Si s Hg. pose proof (nest_groups_s So Si s Hg) as H. rewrite <- groups2_b_spec in H.
  destruct (valid_b (nest_sem2 So Si) s), (groups2_b So Si s); try reflexivity; intuition discriminate.
Qed.

(** * Example: Nest(A, Nest(B, C)) - the inner block is itself a Nest, B has sustain count 2 in it *)
Definition ex_inner_nest : sem := nest_sem2 (ex_two_levels 2) (ex_two_levels 2).

Lemma ex_nestable_s :
  map f_sustain (s_factors ex_inner_nest) = [2; 1] /\
  nestable_f_b (ex_two_levels 2) ex_inner_nest = false /\ nestable_s_b (ex_two_levels 2) ex_inner_nest = true /\
  map f_sustain (s_factors (nest_sem2 (ex_two_levels 2) ex_inner_nest)) = [4; 2; 1] /\
  valid_b (nest_sem2 (ex_two_levels 2) ex_inner_nest)
          [[Some 0; Some 0; Some 0; Some 0; Some 1; Some 1; Some 1; Some 1];
           [Some 0; Some 0; Some 1; Some 1; Some 1; Some 1; Some 0; Some 0];
           [Some 0; Some 1; Some 1; Some 0; Some 0; Some 1; Some 1; Some 0]] = true /\
  (* B changes inside its run of C *)
  valid_b (nest_sem2 (ex_two_levels 2) ex_inner_nest)
          [[Some 0; Some 0; Some 0; Some 0; Some 1; Some 1; Some 1; Some 1];
           [Some 0; Some 1; Some 1; Some 0; Some 1; Some 1; Some 0; Some 0];
           [Some 0; Some 1; Some 1; Some 0; Some 0; Some 1; Some 1; Some 0]] = false.
Proof. repeat split; vm_compute; reflexivity. Qed.

(** * Constraints of the Nest itself *)

(** Nest(outer, inner, ks): the Nest's own constraints [ks] (already in normal form, over the factor
    numbering of the Nest) apply to the whole sequence *)
Definition nest_sem2_own (So Si : sem) (ks : list dconstraint) : sem :=
  {| s_trials := s_trials (nest_sem2 So Si); s_factors := s_factors (nest_sem2 So Si);
     s_crossings := s_crossings (nest_sem2 So Si); s_constraints := s_constraints (nest_sem2 So Si) ++ ks |}.

Lemma factor_ok_shape : forall S1 S2 s f fd, s_trials S1 = s_trials S2 -> factor_ok S1 s f fd = factor_ok S2 s f fd.
Proof. intros S1 S2 s f fd H. unfold factor_ok. rewrite H. reflexivity. Qed.

Lemma chunks_ok_shape : forall S1 S2 s c fuel a, s_trials S1 = s_trials S2 -> chunks_ok fuel S1 s c a = chunks_ok fuel S2 s c a.
Proof.
  intros S1 S2 s c fuel. induction fuel as [|fuel IH]; intros a H; [reflexivity|].
  cbn [chunks_ok]. rewrite H, (IH _ H). reflexivity.
Qed.

Lemma crossing_ok_shape : forall S1 S2 s c, s_trials S1 = s_trials S2 -> crossing_ok S1 s c = crossing_ok S2 s c.
Proof. intros S1 S2 s c H. unfold crossing_ok. rewrite H, (chunks_ok_shape S1 S2 s c _ _ H). reflexivity. Qed.

Lemma constraint_ok_shape : forall S1 S2 s c,
  s_trials S1 = s_trials S2 -> s_factors S1 = s_factors S2 -> constraint_ok S1 s c = constraint_ok S2 s c.
Proof. intros S1 S2 s c H1 H2. unfold constraint_ok, latin_ok. rewrite H1, H2. reflexivity. Qed.

Lemma valid_b_own : forall So Si ks s,
  valid_b (nest_sem2_own So Si ks) s
  = valid_b (nest_sem2 So Si) s && forallb (constraint_ok (nest_sem2 So Si) s) ks.
Proof.
  intros So Si ks s. unfold valid_b.
  change (s_factors (nest_sem2_own So Si ks)) with (s_factors (nest_sem2 So Si)).
  change (s_crossings (nest_sem2_own So Si ks)) with (s_crossings (nest_sem2 So Si)).
  change (s_constraints (nest_sem2_own So Si ks)) with (s_constraints (nest_sem2 So Si) ++ ks).
  rewrite forallb_app, andb_assoc.
  rewrite (forallb_ext_in (fun p => factor_ok (nest_sem2_own So Si ks) s (fst p) (snd p))
                          (fun p => factor_ok (nest_sem2 So Si) s (fst p) (snd p)))
    by (intros p _; apply factor_ok_shape; reflexivity).
  rewrite (forallb_ext_in (crossing_ok (nest_sem2_own So Si ks) s) (crossing_ok (nest_sem2 So Si) s))
    by (intros c _; apply crossing_ok_shape; reflexivity).
  rewrite (forallb_ext_in (constraint_ok (nest_sem2_own So Si ks) s) (constraint_ok (nest_sem2 So Si) s) (s_constraints (nest_sem2 So Si)))
    by (intros c _; apply constraint_ok_shape; reflexivity).
  rewrite (forallb_ext_in (constraint_ok (nest_sem2_own So Si ks) s) (constraint_ok (nest_sem2 So Si) s) ks)
    by (intros c _; apply constraint_ok_shape; reflexivity).
  reflexivity.
Qed.

Theorem nest_groups_own : forall So Si ks s,
  nestable_s_b So Si = true ->
  (valid_b (nest_sem2_own So Si ks) s = true <->
   groups_spec2 So Si s /\ forall k, In k ks -> constraint_ok (nest_sem2 So Si) s k = true).
Proof.
  intros So Si ks s Hg. rewrite valid_b_own, andb_true_iff, forallb_forall.
  rewrite (nest_groups_s So Si s Hg). reflexivity.
Qed.

Definition groups2_own_b (So Si : sem) (ks : list dconstraint) (s : tseq) : bool :=
  groups2_b So Si s && forallb (constraint_ok (nest_sem2 So Si) s) ks.

Corollary nest_groups_own_b : forall So Si ks s,
  nestable_s_b So Si = true -> valid_b (nest_sem2_own So Si ks) s = groups2_own_b So Si ks s.
Proof.
  intros So Si ks s Hg. rewrite valid_b_own. unfold groups2_own_b. rewrite (nest_groups_s_b So Si s Hg). reflexivity.
Qed.
