(** T2(c), the function "flatten" on the simplest fragment: from a program that is a single
    CrossBlock of plain (non-derived) factors with constraints among MinimumTrials,
    AtMostKInARow / AtLeastKInARow / ExactlyKInARow / ExactlyK (on a level or a whole factor),
    Exclude and Pin, to the [create_input] that the constructor hands to [_create]
    (Front/CreateFlat.v), including the exclusion count of the crossing
    ([__count_exclusions]: for plain factors, the weights of the combinations that contain an
    excluded level of a crossed factor - each combination once).

    [t2_flat p = create_flat (plain_input p)] is then the flat record of the real block
    (compared with harness/flat.py on every generated plain program), and
    [t2_code_sem p = code_sem (t2_flat p)] the code's reading of the program.
    Model-style file: executable definitions only. *)
From Coq Require Import ZArith List Bool Arith String.
From SP Require Import Design.Flat Design.Sem Design.DocSem Front.Trials Front.CreateFlat Encode.CodeSem.
Import ListNotations.
Local Open Scope nat_scope.
Local Open Scope list_scope.

Section PlainInput.
Variable p : program.

Definition opt_of_res {A} (r : res A) : option A := match r with Ok a => Some a | _ => None end.

Fixpoint all_opt {A} (l : list (option A)) : option (list A) :=
  match l with
  | [] => Some []
  | Some x :: r => option_map (cons x) (all_opt r)
  | None :: _ => None
  end.

Definition plain_factor (fd : pfactor) : option ffactor :=
  match pf_kind fd with
  | FSimple levels =>
    Some {| ff_name := pf_name fd; ff_hidden := false;
            ff_levels := map (fun nw => {| lv_name := fst nw; lv_weight := snd nw; lv_accepts := [] |}) levels;
            ff_window := None; ff_complex := false |}
  | _ => None
  end.

(** position of a factor id in the design, index of a level name in its factor *)
Definition fpos (design : list nat) (f : nat) : option nat := index_of Nat.eqb f design.
Definition lpos (f : nat) (n : name) : option nat := opt_of_res (level_index p f n).

Definition krow_of (kd : DocSem.krow) : CreateFlat.krow :=
  match kd with
  | DocSem.RAtMost => CreateFlat.RAtMost
  | DocSem.RAtLeast => CreateFlat.RAtLeast
  | DocSem.RExactlyRow => CreateFlat.RExactlyKInARow
  | DocSem.RExactlyK => CreateFlat.RExactlyK
  end.

Definition plain_constraint (design : list nat) (c : pcons) : option iconstraint :=
  match c with
  | PKRow kd k (TLevel f n) =>
    match fpos design f, lpos f n with
    | Some pf, Some l => Some (ICon (mk_krow (krow_of kd) k pf l None))
    | _, _ => None
    end
  | PKRow kd k (TFactor f) =>
    match fpos design f with Some pf => Some (IKRowFactor (krow_of kd) k pf None) | None => None end
  | PExclude f n =>
    match fpos design f, lpos f n with
    | Some pf, Some l => Some (ICon (FExclude pf l))
    | _, _ => None
    end
  | PPin i f n =>
    match fpos design f, lpos f n with
    | Some pf, Some l => Some (ICon (FPin i pf l None))
    | _, _ => None
    end
  | PMinimumTrials n => Some (ICon (FMinimumTrials (Z.of_nat n)))
  | _ => None
  end.

(** [__count_exclusions] for plain factors *)
Definition excluded_levels (ics : list iconstraint) : list (nat * nat) :=
  flat_map (fun c => match c with ICon (FExclude f l) => [(f, l)] | _ => [] end) ics.

Definition level_weights_of (fds : list ffactor) (f : nat) : list (nat * nat) :=
  match nth_error fds f with
  | Some fd => combine (seq 0 (List.length (ff_levels fd))) (map lv_weight (ff_levels fd))
  | None => []
  end.

Definition plain_exclusions (fds : list ffactor) (cr : list nat) (excl : list (nat * nat)) : nat :=
  fold_left (fun acc combo =>
               if existsb (fun flw => existsb (fun e => (fst e =? fst flw) && (snd e =? fst (snd flw))) excl)
                          (combine cr combo)
               then acc + fold_left (fun w lw => w * snd lw) combo 1
               else acc)
            (product (map (level_weights_of fds) cr)) 0.

Definition plain_input_of (design crossing : list nat) (cs : list pcons) (rcc : bool) : option create_input :=
  match all_opt (map (fun f => match fm p f with Ok fd => plain_factor fd | _ => None end) design),
        all_opt (map (fpos design) crossing),
        all_opt (map (plain_constraint design) cs) with
  | Some fds, Some cr, Some ics =>
    let ex := match cr with [] => [] | _ => [plain_exclusions fds cr (excluded_levels ics)] end in
    Some {| ci_design := fds; ci_crossings := [cr]; ci_sustains := [1]; ci_weights := [1];
            ci_constraints := ics; ci_rcc := rcc; ci_mode := MWeight; ci_alignment := EqualPreamble;
            ci_exclusions := ex; ci_derivations := []; ci_excluded_derived := [];
            ci_errors_fail := rcc && existsb (fun n => 0 <? n) ex |}
  | _, _, _ => None
  end.

Definition plain_input : option create_input :=
  match p_main p with
  | PCross design crossing cs rcc => plain_input_of design crossing cs rcc
  | _ => None
  end.

Definition t2_flat : option fres := option_map create_flat plain_input.

Definition t2_code_sem : option sem :=
  match t2_flat with Some (FOk fb) => Some (code_sem fb) | _ => None end.

End PlainInput.
