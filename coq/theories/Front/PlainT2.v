(** T2(c) on the simplest fragment, part 1: what [plain_input] produces, and the index set of
    level tuples over which both sides of the tie range.

    For a program [PCross design crossing cs rcc] of plain factors:
    [fds = map mkff design], [cr = map pos crossing]; the level tuples of the crossing
    [IP = DocSem.product (seq 0 n_f | f in crossing)] index the code's [crossing_combos], the
    documented combinations (by level names) and the weight tuples alike. *)
From Coq Require Import ZArith List Bool Arith Lia String Permutation.
From SP Require Import Design.Flat Design.Layout Design.Sem Design.DocSem Design.DocSemProofs Design.DocSemPlain
     Design.ListSums Front.Trials Front.CreateFlat Front.PlainInput Encode.Compile.
Import ListNotations.
Local Open Scope nat_scope.
Local Open Scope list_scope.

Lemma all_opt_some : forall {A B} (g : A -> option B) l ys,
  all_opt (map g l) = Some ys -> Forall2 (fun x y => g x = Some y) l ys.
Proof.
  intros A B g l. induction l as [|x l IH]; intros ys H; cbn in H.
  - inversion H. constructor.
  - destruct (g x) as [y|] eqn:E; [|discriminate]. destruct (all_opt (map g l)) as [r|] eqn:Er; [|discriminate].
    inversion H; subst. constructor; [exact E|]. apply IH. reflexivity.
Qed.

Lemma Forall2_map_eq : forall {A B} (g : A -> B) l ys, Forall2 (fun x y => g x = y) l ys -> ys = map g l.
Proof. intros A B g l ys H. induction H; cbn; congruence. Qed.

Lemma Forall2_impl' : forall {A B} (P Q : A -> B -> Prop) l m, (forall x y, P x y -> Q x y) -> Forall2 P l m -> Forall2 Q l m.
Proof. intros A B P Q l m H F. induction F; constructor; auto. Qed.

Lemma cproduct_eq : forall {A} (l : list (list A)), Compile.product l = DocSem.product l.
Proof. intros A l. induction l as [|d l IH]; [reflexivity|]. cbn. rewrite IH. reflexivity. Qed.

Section Ctx.
Variable p : program.

(** levels (name, weight) of a simple factor *)
Definition plevels (f : nat) : list (name * nat) :=
  match pf_kind (fd_of p f) with FSimple l => l | _ => [] end.
Definition nlv (f : nat) : nat := List.length (plevels f).
Definition nm (f l : nat) : name := nth l (map fst (plevels f)) EmptyString.
Definition wt (f l : nat) : nat := nth l (map snd (plevels f)) 1.

Definition mkff (f : nat) : ffactor :=
  {| ff_name := pf_name (fd_of p f); ff_hidden := false;
     ff_levels := map (fun nw => {| lv_name := fst nw; lv_weight := snd nw; lv_accepts := [] |}) (plevels f);
     ff_window := None; ff_complex := false |}.

Definition pos (design : list nat) (f : nat) : nat :=
  match index_of Nat.eqb f design with Some i => i | None => 0 end.

Lemma simple_plevels : forall f, simple_id p f -> pf_kind (fd_of p f) = FSimple (plevels f).
Proof.
  intros f H. destruct (simple_fm p f H) as [_ Hs]. unfold plevels, is_simple in *.
  destruct (pf_kind (fd_of p f)); try discriminate. reflexivity.
Qed.

Lemma names_of_plevels : forall f, simple_id p f -> names_of p f = map fst (plevels f).
Proof. intros f H. unfold names_of. rewrite (simple_plevels f H). reflexivity. Qed.

Lemma plain_fds : forall design fds,
  all_opt (map (fun f => match fm p f with Ok fd => plain_factor fd | _ => None end) design) = Some fds ->
  Forall (simple_id p) design /\ fds = map mkff design.
Proof.
  intros design fds H. apply all_opt_some in H. split.
  - apply Forall_forall. intros f Hf. clear -H Hf. induction H as [|x y l ys Hxy _ IH]; [contradiction|].
    destruct Hf as [->|Hf]; [|apply IH; exact Hf]. destruct (fm p f) as [fd| |] eqn:E; try discriminate.
    exists fd. split; [exact E|]. unfold plain_factor in Hxy. unfold is_simple. destruct (pf_kind fd); try discriminate. reflexivity.
  - apply Forall2_map_eq. eapply Forall2_impl'; [|exact H]. intros f y Hy. cbn in Hy.
    destruct (fm p f) as [fd| |] eqn:E; try discriminate. unfold plain_factor in Hy. unfold mkff, plevels, fd_of. rewrite E.
    destruct (pf_kind fd); try discriminate. inversion Hy. reflexivity.
Qed.

Lemma index_of_nth : forall f design i, index_of Nat.eqb f design = Some i -> nth_error design i = Some f.
Proof.
  intros f design. induction design as [|x design IH]; intros i H; cbn in H; [discriminate|].
  destruct (Nat.eqb_spec f x) as [->|Hne]; [inversion H; reflexivity|].
  destruct (index_of Nat.eqb f design) as [j|]; [|discriminate]. inversion H; subst. cbn. apply IH. reflexivity.
Qed.

Lemma plain_cr : forall design crossing cr,
  all_opt (map (fpos design) crossing) = Some cr ->
  cr = map (pos design) crossing /\ forall f, In f crossing -> nth_error design (pos design f) = Some f.
Proof.
  intros design crossing cr H. apply all_opt_some in H. split.
  - apply Forall2_map_eq. eapply Forall2_impl'; [|exact H]. intros f y Hy. unfold fpos in Hy. unfold pos. rewrite Hy. reflexivity.
  - intros f Hf. clear -H Hf. induction H as [|x y l ys Hxy _ IH]; [contradiction|].
    destruct Hf as [->|Hf]; [|apply IH; exact Hf]. unfold fpos in Hxy. unfold pos. rewrite Hxy. apply index_of_nth. exact Hxy.
Qed.

(** ** the flat-level view of the factors *)
Lemma nth_error_mkff : forall design c f, nth_error design c = Some f -> nth_error (map mkff design) c = Some (mkff f).
Proof. intros design c f H. rewrite nth_error_map, H. reflexivity. Qed.

Lemma map_nth_seq : forall {A} (l : list A) d, l = map (fun i => nth i l d) (seq 0 (List.length l)).
Proof.
  intros A l d. induction l as [|x l IH]; [reflexivity|]. cbn [List.length seq map nth]. f_equal.
  rewrite <- seq_shift, map_map. exact IH.
Qed.

(** ** the level tuples of the crossing *)
Section Crossing.
Variables design crossing : list nat.
Hypothesis Hsimple : Forall (simple_id p) design.
Hypothesis Hpos : forall f, In f crossing -> nth_error design (pos design f) = Some f.
Variable fb : flat.
Hypothesis Hdesign : fl_design fb = map mkff design.

Definition IP : list (list nat) := DocSem.product (map (fun f => seq 0 (nlv f)) crossing).

Lemma crossing_in_design : forall f, In f crossing -> In f design.
Proof. intros f Hf. eapply nth_error_In. apply Hpos. exact Hf. Qed.

Lemma crossing_simple : forall f, In f crossing -> simple_id p f.
Proof. intros f Hf. rewrite Forall_forall in Hsimple. apply Hsimple. apply crossing_in_design. exact Hf. Qed.

Lemma factor_at_pos : forall f, In f crossing -> Layout.factor_at fb (pos design f) = Some (mkff f).
Proof. intros f Hf. unfold Layout.factor_at. rewrite Hdesign. apply nth_error_mkff. apply Hpos. exact Hf. Qed.

Lemma nlevels_pos : forall f, In f crossing -> Layout.nlevels fb (pos design f) = nlv f.
Proof. intros f Hf. unfold Layout.nlevels. rewrite (factor_at_pos f Hf). unfold mkff, nlv. cbn. apply map_length. Qed.

Lemma level_weight_pos : forall f l, In f crossing -> l < nlv f -> level_weight fb (pos design f) l = wt f l.
Proof.
  intros f l Hf Hl. unfold level_weight. rewrite (factor_at_pos f Hf). unfold mkff. cbn [ff_levels].
  rewrite nth_error_map. unfold nlv in Hl.
  pose proof (nth_error_nth' (plevels f) ((EmptyString, 1) : name * nat) Hl) as E. unfold name in *. rewrite E. cbn.
  unfold wt. symmetry. exact (map_nth snd (plevels f) (EmptyString, 1) l).
Qed.

Lemma crossing_combos_IP :
  crossing_combos fb (map (pos design) crossing) = map (zipw (fun f l => (pos design f, l)) crossing) IP.
Proof.
  unfold crossing_combos, IP. rewrite cproduct_eq. rewrite map_map. rewrite <- product_map2. apply (f_equal (@DocSem.product _)). apply map_ext_in.
  intros f Hf. rewrite (nlevels_pos f Hf). reflexivity.
Qed.

Lemma names_product_IP : DocSem.product (map (names_of p) crossing) = map (zipw nm crossing) IP.
Proof.
  unfold IP. rewrite <- product_map2. apply (f_equal (@DocSem.product _)). apply map_ext_in. intros f Hf.
  rewrite (names_of_plevels f (crossing_simple f Hf)). unfold nm, nlv.
  rewrite <- (map_length fst (plevels f)). apply map_nth_seq.
Qed.

Lemma combine_seq_map_gen : forall {A} (l : list A) d s,
  combine (seq s (List.length l)) l = map (fun i => (i, nth (i - s) l d)) (seq s (List.length l)).
Proof.
  intros A l d. induction l as [|x l IH]; intro s; [reflexivity|]. cbn [List.length seq combine map]. rewrite Nat.sub_diag. cbn [nth].
  f_equal. rewrite IH. apply map_ext_in. intros i Hi. apply in_seq in Hi. replace (i - s) with (S (i - S s)) by lia. reflexivity.
Qed.

Lemma combine_seq_map : forall {A} (l : list A) d, combine (seq 0 (List.length l)) l = map (fun i => (i, nth i l d)) (seq 0 (List.length l)).
Proof. intros A l d. rewrite (combine_seq_map_gen l d 0). apply map_ext. intro i. rewrite Nat.sub_0_r. reflexivity. Qed.

Lemma weights_product_IP :
  DocSem.product (map (level_weights_of (map mkff design)) (map (pos design) crossing))
  = map (zipw (fun f l => (l, wt f l)) crossing) IP.
Proof.
  unfold IP. rewrite map_map. rewrite <- product_map2. apply (f_equal (@DocSem.product _)). apply map_ext_in. intros f Hf.
  unfold level_weights_of. rewrite (nth_error_mkff _ _ _ (Hpos f Hf)). unfold mkff. cbn [ff_levels].
  rewrite map_length, map_map. cbn [lv_weight].
  pose proof (combine_seq_map (map snd (plevels f)) 1) as E. rewrite map_length in E. exact E.
Qed.


(** ** weights, exclusion and the crossing size *)
Definition W (ls : list nat) : nat := prod_list (zipw wt crossing ls).

Definition memP (excl : list (nat * nat)) (cl : nat * nat) : bool :=
  existsb (fun e => (fst e =? fst cl) && (snd e =? snd cl)) excl.

Definition exI (excl : list (nat * nat)) (ls : list nat) : bool :=
  existsb (memP excl) (combine (map (pos design) crossing) ls).

Lemma zipw_pos_combine : forall (fs : list nat) (ls : list nat), zipw (fun f l => (pos design f, l)) fs ls = combine (map (pos design) fs) ls.
Proof. induction fs as [|f fs IH]; intros [|l ls]; try reflexivity. unfold zipw in *. cbn. f_equal. apply IH. Qed.

Lemma in_IP_length : forall ls, In ls IP -> List.length ls = List.length crossing.
Proof. intros ls H. apply in_product_length in H. rewrite map_length in H. exact H. Qed.

Lemma in_IP_lt : forall ls, In ls IP -> Forall2 (fun l f => l < nlv f) ls crossing.
Proof.
  intros ls H. apply in_product_iff in H. revert H. generalize crossing. intro fs. revert ls.
  induction fs as [|f fs IH]; intros ls H; cbn [map] in H; inversion H as [|l d ls' ds Hl Hr]; subst; constructor.
  - apply in_seq in Hl. lia.
  - apply IH. assumption.
Qed.

(** [crossing_size_without_exclusions] = the sum of the weights of all level tuples *)
Lemma level_weight_sum_pos : forall f, In f crossing ->
  level_weight_sum fb (pos design f) = list_sum (map (wt f) (seq 0 (nlv f))).
Proof.
  intros f Hf. unfold level_weight_sum. rewrite (factor_at_pos f Hf). unfold mkff. cbn [ff_levels].
  rewrite (fold_add_sum lv_weight). cbn [Nat.add]. rewrite map_map. cbn [lv_weight].
  unfold wt, nlv. rewrite <- (map_length snd (plevels f)) at 1.
  rewrite <- (map_nth_seq (map snd (plevels f)) 1). reflexivity.
Qed.

Lemma size_no_excl_sum : crossing_size_no_excl fb (map (pos design) crossing) = list_sum (map W IP).
Proof.
  unfold crossing_size_no_excl. rewrite (fold_mul_map (level_weight_sum fb)). rewrite map_map.
  rewrite (map_ext_in _ (fun f => list_sum (map (wt f) (seq 0 (nlv f))))) by (intros f Hf; apply level_weight_sum_pos; exact Hf).
  change (fold_left Nat.mul ?l 1) with (prod_list l).
  rewrite <- (map_map (fun f => map (wt f) (seq 0 (nlv f))) (fun d => list_sum d)).
  rewrite <- sum_product. rewrite product_map2. rewrite map_map. reflexivity.
Qed.

Lemma filter_map_comm : forall {A B} (P : B -> bool) (g : A -> B) l, filter P (map g l) = map g (filter (fun x => P (g x)) l).
Proof. intros. induction l as [|x l IH]; [reflexivity|]. cbn. destruct (P (g x)); cbn; rewrite IH; reflexivity. Qed.

Lemma combine_zipw_fst : forall {C} (h : nat -> nat -> C) (fs : list nat) ls,
  map (fun x : nat * (nat * C) => (fst x, fst (snd x))) (combine (map (pos design) fs) (zipw (fun f l => (l, h f l)) fs ls))
  = combine (map (pos design) fs) ls.
Proof. intros C h. induction fs as [|f fs IH]; intros [|l ls]; try reflexivity. unfold zipw in *. cbn. f_equal. apply IH. Qed.

Lemma existsb_map : forall {A B} (P : B -> bool) (g : A -> B) l, existsb P (map g l) = existsb (fun x => P (g x)) l.
Proof. intros. induction l as [|x l IH]; [reflexivity|]. cbn. rewrite IH. reflexivity. Qed.

(** [__count_exclusions] = the sum of the weights of the excluded level tuples *)
Lemma plain_exclusions_sum : forall excl,
  plain_exclusions (map mkff design) (map (pos design) crossing) excl = list_sum (map W (filter (exI excl) IP)).
Proof.
  intro excl. unfold plain_exclusions.
  rewrite (fold_cond_sum (fun combo => existsb (fun flw => existsb (fun e => (fst e =? fst flw) && (snd e =? fst (snd flw))) excl)
                                               (combine (map (pos design) crossing) combo))
                         (fun combo => fold_left (fun w lw => w * snd lw) combo 1)).
  cbn [Nat.add]. rewrite weights_product_IP. rewrite filter_map_comm, map_map.
  rewrite (filter_ext _ (exI excl)).
  - apply (f_equal (@list_sum)). apply map_ext. intro ls. rewrite (fold_mul_map snd). unfold W, prod_list, zipw.
    rewrite map_map. reflexivity.
  - intro ls. unfold exI. rewrite <- (combine_zipw_fst (fun f l => wt f l) crossing ls). rewrite existsb_map. reflexivity.
Qed.

End Crossing.

End Ctx.
