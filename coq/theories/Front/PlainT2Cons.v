(** T2(c) on the simplest fragment, part 5: the constraints of the program and of the input record:
    excluded levels (names and indices), the MinimumTrials fold. *)
From Coq Require Import ZArith List Bool Arith Lia String Permutation.
From SP Require Import Design.Flat Design.Layout Design.Sem Design.DocSem Design.DocSemProofs Design.DocSemPlain
     Design.ListSums Front.Trials Front.TrialsProofs Front.CreateFlat Front.PlainInput Front.PlainT2 Front.PlainT2Doc Front.PlainT2Keys.
Import ListNotations.
Local Open Scope nat_scope.
Local Open Scope list_scope.

Section Cons.
Variable p : program.
Variable design : list nat.
Hypothesis Hsimple : Forall (simple_id p) design.
Hypothesis Hnames : forall d, In d design -> NoDup (map fst (plevels p d)).

Definition lidx (f : nat) (n : name) : nat := match level_index p f n with Ok i => i | _ => 0 end.

Lemma fpos_pos : forall f c, fpos design f = Some c -> c = pos design f /\ nth_error design c = Some f /\ In f design.
Proof.
  intros f c H. unfold fpos in H. pose proof (index_of_nth _ _ _ H) as Hn. unfold pos. rewrite H.
  split; [reflexivity|split; [exact Hn|eapply nth_error_In; eauto]].
Qed.

Lemma design_simple : forall f, In f design -> simple_id p f.
Proof. intros f Hf. rewrite Forall_forall in Hsimple. apply Hsimple. exact Hf. Qed.

Lemma lpos_level : forall f n l, In f design -> lpos p f n = Some l ->
  level_index p f n = Ok l /\ l < nlv p f /\ nm p f l = n /\ lidx f n = l.
Proof.
  intros f n l Hf H. unfold lpos, opt_of_res in H. destruct (level_index p f n) as [i| |] eqn:E; try discriminate. inversion H; subst i.
  split; [reflexivity|]. unfold lidx. rewrite E. unfold level_index in E.
  destruct (simple_fm p f (design_simple f Hf)) as [Efm _]. rewrite Efm in E. cbn [bind] in E.
  rewrite (level_names_fd p f (design_simple f Hf)) in E. cbn [bind] in E. unfold of_option in E.
  destruct (index_of String.eqb n (map fst (plevels p f))) as [i|] eqn:Ei; [|discriminate]. inversion E; subst i.
  pose proof (index_of_lt _ _ _ _ Ei) as Hlt. rewrite map_length in Hlt. split; [exact Hlt|]. split; [|reflexivity].
  unfold nm. clear -Ei. revert l Ei. induction (map fst (plevels p f)) as [|x xs IH]; intros l Ei; cbn in Ei; [discriminate|].
  destruct (String.eqb_spec n x) as [->|Hne]; [inversion Ei; reflexivity|].
  destruct (index_of String.eqb n xs) as [j|]; [|discriminate]. inversion Ei; subst. cbn. apply IH. reflexivity.
Qed.

Lemma level_index_nm : forall f l, In f design -> l < nlv p f -> level_index p f (nm p f l) = Ok l.
Proof.
  intros f l Hf Hl. unfold level_index. destruct (simple_fm p f (design_simple f Hf)) as [-> _]. cbn [bind].
  rewrite (level_names_fd p f (design_simple f Hf)). cbn [bind]. unfold nm.
  assert (Ei : index_of String.eqb (nth l (map fst (plevels p f)) EmptyString) (map fst (plevels p f)) = Some l).
  { apply index_of_nth_nodup; [apply Hnames; exact Hf|rewrite map_length; exact Hl]. }
  rewrite Ei. reflexivity.
Qed.

Ltac inv_plain H :=
  unfold plain_constraint in H;
  match type of H with
  | match ?c with _ => _ end = _ => destruct c as [kd k [f n|f]|f n|ix f n|f|fs|t| |kind]; try discriminate
  end.

(** the excluded levels of the input record are those of the program *)
Lemma excluded_levels_cs : forall cs ics, Forall2 (fun c ic => plain_constraint p design c = Some ic) cs ics ->
  excluded_levels ics = map (fun fn => (pos design (fst fn), lidx (fst fn) (snd fn))) (excludes_of cs) /\
  forall f n, In (f, n) (excludes_of cs) -> In f design /\ lidx f n < nlv p f /\ nm p f (lidx f n) = n.
Proof.
  intros cs ics Hics. induction Hics as [|c ic cs' ics' Hc _ IH]; [split; [reflexivity|intros f n []]|].
  destruct IH as [IH1 IH2]. unfold excluded_levels, excludes_of in *. cbn [flat_map]. rewrite IH1.
  inv_plain Hc.
  - destruct (fpos design f); [|discriminate]. destruct (lpos p f n); [|discriminate]. inversion Hc; subst.
    destruct kd; cbn; split; auto.
  - destruct (fpos design f); [|discriminate]. inversion Hc; subst. cbn. split; auto.
  - destruct (fpos design f) as [pf|] eqn:Ef; [|discriminate]. destruct (lpos p f n) as [l|] eqn:El; [|discriminate]. inversion Hc; subst.
    destruct (fpos_pos _ _ Ef) as [-> [_ Hfd]]. destruct (lpos_level _ _ _ Hfd El) as [_ [Hl [Hn Hli]]].
    cbn [app map fst snd]. rewrite Hli. split; [reflexivity|]. intros g m [E|Hin]; [|apply IH2; exact Hin].
    inversion E; subst. rewrite Hli. auto.
  - destruct (fpos design f); [|discriminate]. destruct (lpos p f n); [|discriminate]. inversion Hc; subst. cbn. split; auto.
  - inversion Hc; subst. cbn. split; auto.
Qed.

(** the MinimumTrials fold of [Block.__init__] over the desugared constraints *)
Lemma fold_min_krow : forall kind k f wb ls m,
  fold_left min_step (map (fun l => mk_krow kind k f l wb) ls) m = m.
Proof. intros kind k f wb ls. induction ls as [|l ls IH]; intro m; [reflexivity|]. cbn [map fold_left]. destruct kind; cbn; apply IH. Qed.

Lemma min_fold_cs : forall fds cs ics, Forall2 (fun c ic => plain_constraint p design c = Some ic) cs ics ->
  forall m, (0 <= m)%Z ->
  fold_left min_step (flat_map (desugar_constraint fds) ics) m = Z.max m (Z.of_nat (list_max (min_trials_of cs))).
Proof.
  intros fds cs ics Hics. induction Hics as [|c ic cs' ics' Hc _ IH]; intros m Hm; [cbn; lia|].
  cbn [flat_map]. rewrite fold_left_app. unfold min_trials_of in *. cbn [flat_map].
  inv_plain Hc.
  - destruct (fpos design f); [|discriminate]. destruct (lpos p f n); [|discriminate]. inversion Hc; subst.
    cbn [desugar_constraint fold_left app]. replace (min_step m (mk_krow (krow_of kd) k n0 n1 None)) with m by (destruct kd; reflexivity).
    apply IH. exact Hm.
  - destruct (fpos design f); [|discriminate]. inversion Hc; subst. cbn [desugar_constraint app]. rewrite fold_min_krow. apply IH. exact Hm.
  - destruct (fpos design f); [|discriminate]. destruct (lpos p f n); [|discriminate]. inversion Hc; subst.
    cbn [desugar_constraint fold_left app min_step]. apply IH. exact Hm.
  - destruct (fpos design f); [|discriminate]. destruct (lpos p f n); [|discriminate]. inversion Hc; subst.
    cbn [desugar_constraint fold_left app min_step]. apply IH. exact Hm.
  - inversion Hc; subst. cbn [desugar_constraint fold_left app min_step]. rewrite list_max_cons.
    destruct (m =? 0)%Z eqn:Z0.
    + apply Z.eqb_eq in Z0. subst m. rewrite IH by lia. lia.
    + rewrite IH by lia. lia.
Qed.

End Cons.

(** * exclusion of a level tuple: by indices (the code) and by names (the documentation) *)
Lemma in_combine_map_l : forall {A B C} (g : A -> C) (fs : list A) (ls : list B) c l,
  In (c, l) (combine (map g fs) ls) <-> exists f, In (f, l) (combine fs ls) /\ c = g f.
Proof.
  intros A B C g fs. induction fs as [|f fs IH]; intros [|x ls] c l; cbn [combine map In]; try solve [split; [intros []|intros [f' [[] _]]]].
  rewrite IH. split.
  - intros [E|[f' [H1 H2]]]; [inversion E; subst; exists f; split; [left; reflexivity|reflexivity]|exists f'; split; [right; exact H1|exact H2]].
  - intros [f' [[E|H1] H2]]; [inversion E; subst; left; reflexivity|right; exists f'; split; assumption].
Qed.

Lemma in_combine_zipw : forall {A B C} (h : A -> B -> C) (fs : list A) (ls : list B) f n,
  In (f, n) (combine fs (zipw h fs ls)) <-> exists l, In (f, l) (combine fs ls) /\ n = h f l.
Proof.
  intros A B C h fs. unfold zipw. induction fs as [|f0 fs IH]; intros [|x ls] f n; cbn [combine map In fst snd]; try solve [split; [intros []|intros [l [[] _]]]].
  rewrite IH. split.
  - intros [E|[l [H1 H2]]]; [inversion E; subst; exists x; split; [left; reflexivity|reflexivity]|exists l; split; [right; exact H1|exact H2]].
  - intros [l [[E|H1] H2]]; [inversion E; subst; left; reflexivity|right; exists l; split; assumption].
Qed.

Lemma Forall2_combine_in : forall {A B} (R : B -> A -> Prop) ls fs f l, Forall2 R ls fs -> In (f, l) (combine fs ls) -> R l f /\ In f fs.
Proof.
  intros A B R ls fs f l H. induction H as [|x y ls fs Hxy _ IH]; cbn; [intros []|].
  intros [E|Hin]; [inversion E; subst; split; [exact Hxy|left; reflexivity]|destruct (IH Hin); split; [assumption|right; assumption]].
Qed.

Lemma existsb_eq_iff : forall {A B} (P : A -> bool) (Q : B -> bool) l m,
  (existsb P l = true <-> existsb Q m = true) -> existsb P l = existsb Q m.
Proof. intros A B P Q l m H. destruct (existsb P l), (existsb Q m); try reflexivity; [symmetry; apply H; reflexivity|apply H; reflexivity]. Qed.

Section Excl.
Variable p : program.
Variables design crossing : list nat.
Hypothesis Hsimple : Forall (simple_id p) design.
Hypothesis Hnames : forall d, In d design -> NoDup (map fst (plevels p d)).
Hypothesis Hpos : forall f, In f crossing -> nth_error design (pos design f) = Some f.

Lemma ex_agree : forall cs ics, Forall2 (fun c ic => plain_constraint p design c = Some ic) cs ics ->
  forall ls, In ls (IP p crossing) ->
  exI design crossing (excluded_levels ics) ls = exN p crossing (plain_excl crossing (excludes_of cs)) ls.
Proof.
  intros cs ics Hics ls Hls. destruct (excluded_levels_cs p design Hsimple cs ics Hics) as [Eidx Hexc]. rewrite Eidx.
  pose proof (in_IP_lt p crossing ls Hls) as Hlt.
  unfold exI, exN. apply existsb_eq_iff. rewrite !existsb_exists. split.
  - intros [[c l] [Hin Hm]]. apply in_combine_map_l in Hin. destruct Hin as [f [Hfl ->]].
    destruct (Forall2_combine_in _ _ _ _ _ Hlt Hfl) as [Hl Hf].
    unfold memP in Hm. apply existsb_exists in Hm. destruct Hm as [e [He Hm]]. apply in_map_iff in He.
    destruct He as [[g m] [<- Hgm]]. cbn [fst snd] in Hm. apply andb_true_iff in Hm. destruct Hm as [H1 H2].
    apply Nat.eqb_eq in H1, H2. destruct (Hexc g m Hgm) as [Hgd [_ Hnm]].
    assert (g = f).
    { pose proof (pos_nth_error design g Hgd) as E1. pose proof (Hpos f Hf) as E2. rewrite H1 in E1. congruence. }
    subst g. exists (f, nm p f l). split; [apply in_combine_zipw; exists l; split; [exact Hfl|reflexivity]|].
    unfold memb. apply existsb_exists. exists (f, m). split.
    + unfold plain_excl. apply filter_In. split; [exact Hgm|]. cbn. unfold DocSem.mem. apply existsb_exists. exists f. split; [exact Hf|apply Nat.eqb_refl].
    + apply level_eqb_eq. rewrite <- Hnm, H2. reflexivity.
  - intros [[f n] [Hin Hm]]. apply in_combine_zipw in Hin. destruct Hin as [l [Hfl ->]].
    destruct (Forall2_combine_in _ _ _ _ _ Hlt Hfl) as [Hl Hf].
    unfold memb in Hm. apply existsb_exists in Hm. destruct Hm as [e [He Hm]]. apply level_eqb_eq in Hm. subst e.
    unfold plain_excl in He. apply filter_In in He. destruct He as [He _].
    exists (pos design f, l). split; [apply in_combine_map_l; exists f; split; [exact Hfl|reflexivity]|].
    unfold memP. apply existsb_exists. exists (pos design f, lidx p f (nm p f l)). split.
    + apply in_map_iff. exists (f, nm p f l). split; [reflexivity|exact He].
    + cbn [fst snd]. rewrite Nat.eqb_refl. cbn. apply Nat.eqb_eq. unfold lidx.
      rewrite (level_index_nm p design Hsimple Hnames f l); [reflexivity| |exact Hl]. eapply nth_error_In. apply Hpos. exact Hf.
Qed.

End Excl.
