(** T2(c) on the simplest fragment, part 3: the documented side over the same level tuples:
    the weight of a combination of level names, and the sum of a combination dictionary. *)
From Coq Require Import ZArith List Bool Arith Lia String Permutation.
From SP Require Import Design.Flat Design.Sem Design.DocSem Design.DocSemProofs Design.DocSemPlain
     Design.ListSums Front.PlainInput Front.PlainT2.
Import ListNotations.
Local Open Scope nat_scope.
Local Open Scope list_scope.

(** * lists *)
Lemma list_sum_perm : forall l l', Permutation l l' -> list_sum l = list_sum l'.
Proof. intros l l' H. induction H; rewrite ?list_sum_cons; lia. Qed.

Lemma NoDup_app_intro : forall {A} (l l' : list A), NoDup l -> NoDup l' -> (forall x, In x l -> In x l' -> False) -> NoDup (l ++ l').
Proof.
  intros A l l' H H' D. induction H as [|x l Hx _ IH]; [exact H'|]. cbn. constructor.
  - intro Hin. apply in_app_or in Hin. destruct Hin as [Hin|Hin]; [contradiction|]. apply (D x); [left; reflexivity|exact Hin].
  - apply IH. intros y Hy Hy'. apply (D y); [right; exact Hy|exact Hy'].
Qed.

Lemma NoDup_product : forall {A} (Ds : list (list A)), Forall (@NoDup A) Ds -> NoDup (DocSem.product Ds).
Proof.
  intros A Ds H. induction H as [|d Ds Hd _ IH]; [constructor; [intros []|constructor]|]. cbn [DocSem.product].
  induction Hd as [|x d Hx _ IHd]; [constructor|]. cbn [flat_map]. apply NoDup_app_intro.
  - apply FinFun.Injective_map_NoDup; [intros a b E; congruence|exact IH].
  - exact IHd.
  - intros t H1 H2. apply in_map_iff in H1. destruct H1 as [r [<- _]]. apply in_flat_map in H2.
    destruct H2 as [y [Hy H2]]. apply in_map_iff in H2. destruct H2 as [r' [E _]]. inversion E; subst. contradiction.
Qed.

Lemma index_of_nth_nodup : forall (l : list string) i d, NoDup l -> i < List.length l -> index_of String.eqb (nth i l d) l = Some i.
Proof.
  induction l as [|x l IH]; intros i d Hnd Hi; cbn in Hi; [lia|]. inversion Hnd; subst. destruct i as [|i]; cbn.
  - rewrite String.eqb_refl. reflexivity.
  - destruct (String.eqb_spec (nth i l d) x) as [E|_].
    + exfalso. apply H1. rewrite <- E. apply nth_In. lia.
    + rewrite IH by (try assumption; lia). reflexivity.
Qed.

Section DocSide.
Variable p : program.
Variables design crossing : list nat.
Hypothesis Hsimple : Forall (simple_id p) design.
Hypothesis Hpos : forall f, In f crossing -> nth_error design (pos design f) = Some f.
Hypothesis Hnames : forall f, In f crossing -> NoDup (map fst (plevels p f)).

Lemma csimple : forall f, In f crossing -> simple_id p f.
Proof. intros f Hf. eapply crossing_simple; eauto. Qed.

Lemma level_names_fd : forall f, simple_id p f -> level_names (fd_of p f) = Ok (map fst (plevels p f)).
Proof. intros f H. rewrite (simple_names p f H), (names_of_plevels p f H). reflexivity. Qed.

Lemma level_weights_fd : forall f, simple_id p f -> level_weights (fd_of p f) = Ok (map snd (plevels p f)).
Proof. intros f H. unfold level_weights. rewrite (simple_plevels p f H). reflexivity. Qed.

(** the weight of the combination of level names of a level tuple *)
Lemma combo_weight_step : forall (fs : list nat) ls a,
  (forall f, In f fs -> In f crossing) -> Forall2 (fun l f => l < nlv p f) ls fs ->
  fold_left (fun acc fn =>
               w <- acc ;; fd <- fm p (fst fn) ;; ws <- level_weights fd ;; ns <- level_names fd ;;
               i <- of_option "ValueError: index" (index_of String.eqb (snd fn) ns) ;;
               x <- of_option "IndexError: weights" (nth_error ws i) ;; Ok (w * x))
            (combine fs (zipw (nm p) fs ls)) (Ok a)
  = Ok (fold_left Nat.mul (zipw (wt p) fs ls) a).
Proof.
  intros fs ls a Hin H. revert a. induction H as [|l f ls fs Hl _ IH]; intro a; [reflexivity|].
  unfold zipw in *. cbn [combine map fst snd fold_left]. cbn [bind].
  assert (Hf : In f crossing) by (apply Hin; left; reflexivity). pose proof (csimple f Hf) as Hs.
  destruct (simple_fm p f Hs) as [E _]. rewrite E. cbn [bind]. rewrite (level_weights_fd f Hs), (level_names_fd f Hs). cbn [bind].
  unfold nlv in Hl.
  assert (Ei : index_of String.eqb (nm p f l) (map fst (plevels p f)) = Some l).
  { unfold nm. apply index_of_nth_nodup; [apply Hnames; exact Hf|rewrite map_length; exact Hl]. }
  rewrite Ei. cbn [of_option bind].
  assert (Ew : nth_error (map snd (plevels p f)) l = Some (wt p f l)).
  { unfold wt. apply nth_error_nth'. rewrite map_length. exact Hl. }
  rewrite Ew. cbn [of_option bind]. apply IH. intros g Hg. apply Hin. right. exact Hg.
Qed.

Lemma combo_weight_names : forall ls, In ls (IP p crossing) ->
  combo_weight p crossing (zipw (nm p) crossing ls) = Ok (W p crossing ls).
Proof.
  intros ls H. unfold combo_weight, W, prod_list. apply combo_weight_step; [auto|]. apply in_IP_lt. exact H.
Qed.

Lemma NoDup_IP : NoDup (IP p crossing).
Proof.
  unfold IP. apply NoDup_product. apply Forall_forall. intros d Hd. apply in_map_iff in Hd.
  destruct Hd as [f [<- _]]. apply seq_NoDup.
Qed.

Lemma names_inj_gen : forall (fs : list nat) ls ls',
  (forall f, In f fs -> In f crossing) ->
  Forall2 (fun l f => l < nlv p f) ls fs -> Forall2 (fun l f => l < nlv p f) ls' fs ->
  zipw (nm p) fs ls = zipw (nm p) fs ls' -> ls = ls'.
Proof.
  intros fs ls ls' Hin H. revert ls'. induction H as [|l f ls fs Hl _ IH]; intros ls' H' E; inversion H' as [|l' f' ls2 fs2 Hl' Hr]; subst; [reflexivity|].
  unfold zipw in E. cbn [combine map fst snd] in E. injection E as E1 E2.
  assert (Hf : In f crossing) by (apply Hin; left; reflexivity).
  f_equal.
  - unfold nm in E1. pose proof (proj1 (NoDup_nth (map fst (plevels p f)) EmptyString) (Hnames f Hf)) as Hn.
    unfold nlv in Hl, Hl'. apply Hn; [rewrite map_length; exact Hl|rewrite map_length; exact Hl'|exact E1].
  - apply IH; [intros g Hg; apply Hin; right; exact Hg|exact Hr|exact E2].
Qed.

Lemma names_inj : forall ls ls', In ls (IP p crossing) -> In ls' (IP p crossing) ->
  zipw (nm p) crossing ls = zipw (nm p) crossing ls' -> ls = ls'.
Proof. intros ls ls' H H' E. eapply names_inj_gen; eauto using in_IP_lt. Qed.

Lemma NoDup_map_inj_in : forall {A B} (f : A -> B) l, NoDup l -> (forall x y, In x l -> In y l -> f x = f y -> x = y) -> NoDup (map f l).
Proof.
  intros A B f l H Hinj. induction H as [|x l Hx _ IH]; [constructor|]. cbn. constructor.
  - intro Hin. apply in_map_iff in Hin. destruct Hin as [y [E Hy]]. apply Hx.
    rewrite (Hinj x y (or_introl eq_refl) (or_intror Hy) (eq_sym E)). exact Hy.
  - apply IH. intros a b Ha Hb. apply Hinj; right; assumption.
Qed.

(** the sum of a dictionary of combinations whose keys are the names of the level tuples selected by [P] *)
Lemma dict_sum : forall (d : combos) (P : list nat -> bool),
  NoDup (map fst d) ->
  (forall k v, In (k, v) d -> combo_weight p crossing k = Ok v) ->
  (forall combo, In combo (map fst d) <-> exists ls, In ls (IP p crossing) /\ P ls = true /\ zipw (nm p) crossing ls = combo) ->
  sum_values d = list_sum (map (W p crossing) (filter P (IP p crossing))).
Proof.
  intros d P Hnd Hv Hk. unfold sum_values. rewrite (fold_add_sum snd). cbn [Nat.add].
  set (g := fun k : list name => match combo_weight p crossing k with Ok v => v | _ => 0 end).
  assert (E1 : map snd d = map g (map fst d)).
  { rewrite map_map. apply map_ext_in. intros [k v] Hin. cbn. unfold g. rewrite (Hv k v Hin). reflexivity. }
  rewrite E1.
  assert (HP : Permutation (map fst d) (map (zipw (nm p) crossing) (filter P (IP p crossing)))).
  { apply NoDup_Permutation; [exact Hnd| |].
    - apply NoDup_map_inj_in; [apply NoDup_filter; apply NoDup_IP|].
      intros x y Hx Hy. apply filter_In in Hx, Hy. apply names_inj; tauto.
    - intro combo. rewrite Hk, in_map_iff. split.
      + intros [ls [H1 [H2 H3]]]. exists ls. split; [exact H3|]. apply filter_In. split; assumption.
      + intros [ls [H3 H12]]. apply filter_In in H12. exists ls. tauto. }
  rewrite (list_sum_perm _ _ (Permutation_map g HP)). rewrite map_map. apply (f_equal (@list_sum)).
  apply map_ext_in. intros ls Hls. apply filter_In in Hls. unfold g. rewrite (combo_weight_names ls (proj1 Hls)). reflexivity.
Qed.

End DocSide.
