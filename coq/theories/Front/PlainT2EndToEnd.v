(** T2 end to end on the plain CrossBlock fragment: the CNF that the compile model builds for the
    flat record of a program, against the DOCUMENTED semantics of the program.
    Composition of T2(c) (Front/PlainT2Final.v: [code_sem fb] and [doc_sem p] have the same valid
    sequences) with the compile theorems (Encode/PropertyLemmas.v: [c01_sound], [c02_complete],
    [c02_once], relating the models of [full_cnf (compile fb)] to [valid_b (code_sem fb)]). *)
From Coq Require Import ZArith List Bool Arith Lia String.
From SP Require Import Base.Sat Design.Flat Design.Layout Design.Sem Design.SemEqv Design.DocSem
     Front.Trials Front.CreateFlat Front.PlainInput Front.PlainT2Final
     Encode.Compile Encode.CodeSem Encode.F1Sem Encode.PropertyLemmas.
Import ListNotations.
Local Open Scope nat_scope.

Section EndToEnd.
Variable p : program.
Variable ci : create_input.
Variable fb : flat.
Variable ds : docsem.
Hypothesis Hin : plain_input p = Some ci.
Hypothesis Hguard : t2_guard p = true.
Hypothesis Hfb : create_flat ci = FOk fb.
Hypothesis Hds : doc_sem p = Ok ds.
Hypothesis Hf1 : in_f1 fb = true.
Hypothesis HT : 0 < T fb.
Variable b : backend.
Variables (ok : bool) (n' : Z) (final : cnf).
Hypothesis Hcomp : compile fb = COk b.
Hypothesis Hfull : full_cnf b = (ok, n', final).

(** (i) every model of the formula is the one-hot image of a sequence that is valid for the
    documented semantics of the program *)
Theorem plain_e2e_sound : forall t, sat t final = true ->
  exists q, onehot fb t q /\ valid_b (ds_sem ds) q = true.
Proof.
  intros t Hsat. destruct (c01_sound fb b ok n' final t Hf1 HT Hcomp Hfull Hsat) as [q [Ho Hv]].
  exists q. split; [exact Ho|]. rewrite <- (plain_t2_valid p ci fb ds Hin Hguard Hfb Hds q). exact Hv.
Qed.

(** (ii) every sequence valid for the documented semantics is the decoding of a model, and of
    exactly one: two such models agree on every variable of the formula *)
Theorem plain_e2e_complete_unique : forall q, valid_b (ds_sem ds) q = true ->
  (exists t, sat t final = true /\ onehot fb t q) /\
  (forall t1 t2, sat t1 final = true -> sat t2 final = true -> onehot fb t1 q -> onehot fb t2 q ->
                 agree_upto n' t1 t2).
Proof.
  intros q Hv. rewrite <- (plain_t2_valid p ci fb ds Hin Hguard Hfb Hds q) in Hv. split.
  - exact (c02_complete fb b ok n' final q Hf1 HT Hcomp Hfull Hv).
  - intros t1 t2 H1 H2 O1 O2. exact (c02_once fb b ok n' final q t1 t2 Hf1 HT Hcomp Hfull H1 H2 O1 O2).
Qed.

End EndToEnd.

(** ... with [in_f1 fb] and [0 < T fb] derived from the plain fragment ([t2e_guard]: [t2_guard] and
    k > 0 on AtLeastKInARow / ExactlyKInARow) *)
Theorem plain_e2e_sound_guard : forall p ci fb ds,
  plain_input p = Some ci -> t2e_guard p = true -> create_flat ci = FOk fb -> doc_sem p = Ok ds ->
  forall b ok n' final, compile fb = COk b -> full_cnf b = (ok, n', final) ->
  forall t, sat t final = true -> exists q, onehot fb t q /\ valid_b (ds_sem ds) q = true.
Proof.
  intros p ci fb ds Hin Hg Hfb Hds b ok n' final Hc Hfull. destruct (plain_t2_in_f1 p ci fb Hin Hg Hfb) as [Hf1 HT].
  unfold t2e_guard in Hg. apply andb_true_iff in Hg. destruct Hg as [Hg _].
  exact (plain_e2e_sound p ci fb ds Hin Hg Hfb Hds Hf1 HT b ok n' final Hc Hfull).
Qed.

Theorem plain_e2e_complete_unique_guard : forall p ci fb ds,
  plain_input p = Some ci -> t2e_guard p = true -> create_flat ci = FOk fb -> doc_sem p = Ok ds ->
  forall b ok n' final, compile fb = COk b -> full_cnf b = (ok, n', final) ->
  forall q, valid_b (ds_sem ds) q = true ->
    (exists t, sat t final = true /\ onehot fb t q) /\
    (forall t1 t2, sat t1 final = true -> sat t2 final = true -> onehot fb t1 q -> onehot fb t2 q ->
                   agree_upto n' t1 t2).
Proof.
  intros p ci fb ds Hin Hg Hfb Hds b ok n' final Hc Hfull. destruct (plain_t2_in_f1 p ci fb Hin Hg Hfb) as [Hf1 HT].
  unfold t2e_guard in Hg. apply andb_true_iff in Hg. destruct Hg as [Hg _].
  exact (plain_e2e_complete_unique p ci fb ds Hin Hg Hfb Hds Hf1 HT b ok n' final Hc Hfull).
Qed.
