(** T2(c) on the simplest fragment, the statement on programs:
    [plain_input p = Some ci -> t2_guard p = true -> create_flat ci = FOk fb -> doc_sem p = Ok ds ->
     sem_eqv (code_sem fb) (ds_sem ds)], hence equal [valid_b]. *)
From Coq Require Import ZArith List Bool Arith Lia String.
From SP Require Import Design.Flat Design.Sem Design.SemEqv Design.DocSem Design.DocSemProofs Design.DocSemPlain
     Front.Trials Front.CreateFlat Front.PlainInput Front.PlainT2 Front.PlainT2Flat Front.PlainT2Main Encode.Compile Encode.CodeSem.
Import ListNotations.
Local Open Scope nat_scope.
Local Open Scope list_scope.

(** * the guard *)
Fixpoint nodup_nat_b (l : list nat) : bool :=
  match l with [] => true | x :: r => negb (DocSem.mem x r) && nodup_nat_b r end.

Fixpoint nodup_names_b (l : list name) : bool :=
  match l with [] => true | x :: r => negb (existsb (String.eqb x) r) && nodup_names_b r end.

(** the design and the crossing list every factor once; the crossing is not empty; every design
    factor is simple, has a level, and distinct level names; not (complete crossing required and a
    level of a crossed factor excluded) *)
Definition t2_guard (p : program) : bool :=
  match p_main p with
  | PCross design crossing cs rcc =>
    nodup_nat_b design && nodup_nat_b crossing && nonempty crossing &&
    forallb (fun f => match fm p f with
                      | Ok fd => match pf_kind fd with
                                 | FSimple levels => nonempty levels && nodup_names_b (map fst levels)
                                 | _ => false
                                 end
                      | _ => false
                      end) design &&
    (negb rcc || negb (existsb (fun fn : nat * name => DocSem.mem (fst fn) crossing) (excludes_of cs)))
  | _ => false
  end.

Lemma nodup_nat_b_sound : forall l, nodup_nat_b l = true -> NoDup l.
Proof.
  induction l as [|x l IH]; intro H; [constructor|]. cbn in H. apply andb_true_iff in H. destruct H as [H1 H2].
  constructor; [|apply IH; exact H2]. intro Hin. apply negb_true_iff in H1. unfold DocSem.mem in H1.
  assert (existsb (Nat.eqb x) l = true) by (apply existsb_exists; exists x; split; [exact Hin|apply Nat.eqb_refl]). congruence.
Qed.

Lemma nodup_names_b_sound : forall l, nodup_names_b l = true -> NoDup l.
Proof.
  induction l as [|x l IH]; intro H; [constructor|]. cbn in H. apply andb_true_iff in H. destruct H as [H1 H2].
  constructor; [|apply IH; exact H2]. intro Hin. apply negb_true_iff in H1.
  assert (existsb (String.eqb x) l = true) by (apply existsb_exists; exists x; split; [exact Hin|apply String.eqb_refl]). congruence.
Qed.

Theorem plain_t2 : forall p ci fb ds,
  plain_input p = Some ci -> t2_guard p = true -> create_flat ci = FOk fb -> doc_sem p = Ok ds ->
  sem_eqv (code_sem fb) (ds_sem ds).
Proof.
  intros p ci fb ds Hin Hg Hfb Hds. unfold plain_input in Hin. unfold t2_guard in Hg.
  destruct (p_main p) as [design crossing cs rcc| | | |] eqn:Hmain; try discriminate.
  unfold plain_input_of in Hin.
  destruct (all_opt (map (fun f => match fm p f with Ok fd => plain_factor fd | _ => None end) design)) as [fds|] eqn:Hfds; [|discriminate].
  destruct (all_opt (map (fpos design) crossing)) as [cr|] eqn:Hcr; [|discriminate].
  destruct (all_opt (map (plain_constraint p design) cs)) as [ics|] eqn:Hics; [|discriminate].
  destruct (plain_fds p design fds Hfds) as [Hsimple ->]. destruct (plain_cr design crossing cr Hcr) as [-> Hpos].
  apply all_opt_some in Hics.
  rewrite !andb_true_iff in Hg. destruct Hg as [[[[G1 G2] G3] G4] G5].
  assert (Hne : crossing <> []) by (destruct crossing; [discriminate|discriminate]).
  set (ef := rcc && existsb (fun n => 0 <? n)
                      match map (pos design) crossing with [] => [] | _ => [plain_exclusions (map (mkff p) design) (map (pos design) crossing) (excluded_levels ics)] end) in *.
  assert (Eci : ci = the_ci p design crossing ics rcc ef).
  { inversion Hin. unfold the_ci. destruct crossing; [congruence|]. reflexivity. }
  subst ci. rewrite forallb_forall in G4.
  assert (Hfd : forall d, In d design -> exists levels, plevels p d = levels /\ nonempty levels = true /\ nodup_names_b (map fst levels) = true).
  { intros d Hd. specialize (G4 d Hd). unfold plevels, fd_of. destruct (fm p d) as [fd| |]; try discriminate.
    destruct (pf_kind fd) as [levels| |]; try discriminate. apply andb_true_iff in G4. exists levels. tauto. }
  eapply (plain_sem_eqv p design crossing cs rcc ics ef Hsimple Hpos); eauto.
  - intros d Hd. destruct (Hfd d Hd) as [levels [-> [_ H]]]. apply nodup_names_b_sound. exact H.
  - apply nodup_nat_b_sound. exact G1.
  - apply nodup_nat_b_sound. exact G2.
  - intros d Hd. destruct (Hfd d Hd) as [levels [E [H _]]]. unfold nlv. rewrite E. destruct levels; [discriminate|cbn; lia].
  - intros Hr f n Hfn Hf. rewrite Hr in G5. cbn in G5. apply negb_true_iff in G5.
    assert (existsb (fun fn : nat * name => DocSem.mem (fst fn) crossing) (excludes_of cs) = true).
    { apply existsb_exists. exists (f, n). split; [exact Hfn|]. cbn. unfold DocSem.mem. apply existsb_exists. exists f. split; [exact Hf|apply Nat.eqb_refl]. }
    congruence.
Qed.

Corollary plain_t2_valid : forall p ci fb ds,
  plain_input p = Some ci -> t2_guard p = true -> create_flat ci = FOk fb -> doc_sem p = Ok ds ->
  forall s, valid_b (code_sem fb) s = valid_b (ds_sem ds) s.
Proof. intros p ci fb ds H1 H2 H3 H4. apply sem_eqv_valid. eapply plain_t2; eauto. Qed.

(** * the fragment F1 of the compilation theorem
    [in_f1] asks for k > 0 on AtLeastKInARow / ExactlyKInARow *)
Definition kpos_b (c : pcons) : bool :=
  match c with PKRow DocSem.RAtLeast k _ | PKRow DocSem.RExactlyRow k _ => 0 <? k | _ => true end.

Definition t2e_guard (p : program) : bool :=
  t2_guard p && match p_main p with PCross _ _ cs _ => forallb kpos_b cs | _ => false end.

Theorem plain_t2_in_f1 : forall p ci fb,
  plain_input p = Some ci -> t2e_guard p = true -> create_flat ci = FOk fb ->
  in_f1 fb = true /\ 0 < Compile.T fb.
Proof.
  intros p ci fb Hin Hg Hfb. unfold t2e_guard in Hg. apply andb_true_iff in Hg. destruct Hg as [Hg Hkb].
  unfold plain_input in Hin. unfold t2_guard in Hg.
  destruct (p_main p) as [design crossing cs rcc| | | |] eqn:Hmain; try discriminate.
  unfold plain_input_of in Hin.
  destruct (all_opt (map (fun f => match fm p f with Ok fd => plain_factor fd | _ => None end) design)) as [fds|] eqn:Hfds; [|discriminate].
  destruct (all_opt (map (fpos design) crossing)) as [cr|] eqn:Hcr; [|discriminate].
  destruct (all_opt (map (plain_constraint p design) cs)) as [ics|] eqn:Hics; [|discriminate].
  destruct (plain_fds p design fds Hfds) as [Hsimple ->]. destruct (plain_cr design crossing cr Hcr) as [-> Hpos].
  apply all_opt_some in Hics.
  rewrite !andb_true_iff in Hg. destruct Hg as [[[[G1 G2] G3] G4] G5].
  assert (Hne : crossing <> []) by (destruct crossing; [discriminate|discriminate]).
  set (ef := rcc && existsb (fun n => 0 <? n)
                      match map (pos design) crossing with [] => [] | _ => [plain_exclusions (map (mkff p) design) (map (pos design) crossing) (excluded_levels ics)] end) in *.
  assert (Eci : ci = the_ci p design crossing ics rcc ef).
  { inversion Hin. unfold the_ci. destruct crossing; [congruence|]. reflexivity. }
  subst ci. rewrite forallb_forall in G4.
  assert (Hfd : forall d, In d design -> exists levels, plevels p d = levels /\ nonempty levels = true /\ nodup_names_b (map fst levels) = true).
  { intros d Hd. specialize (G4 d Hd). unfold plevels, fd_of. destruct (fm p d) as [fd| |]; try discriminate.
    destruct (pf_kind fd) as [levels| |]; try discriminate. apply andb_true_iff in G4. exists levels. tauto. }
  assert (Hnames : forall d, In d design -> NoDup (map fst (plevels p d))).
  { intros d Hd. destruct (Hfd d Hd) as [levels [-> [_ H]]]. apply nodup_names_b_sound. exact H. }
  assert (HndD : NoDup design) by (apply nodup_nat_b_sound; exact G1).
  assert (HndC : NoDup crossing) by (apply nodup_nat_b_sound; exact G2).
  assert (Hlev : forall d, In d design -> 0 < nlv p d).
  { intros d Hd. destruct (Hfd d Hd) as [levels [E [H _]]]. unfold nlv. rewrite E. destruct levels; [discriminate|cbn; lia]. }
  assert (Hk : Forall kpos cs).
  { apply Forall_forall. intros c Hc. rewrite forallb_forall in Hkb. specialize (Hkb c Hc). unfold kpos_b in Hkb. unfold kpos.
    destruct c as [[] k tg| | | | | | |]; try exact I; apply Nat.ltb_lt; exact Hkb. }
  eapply (plain_flat_in_f1 p design crossing cs rcc ics ef); eassumption.
Qed.
