(** T2(c) on the simplest fragment, part 2: the flat record [create_flat] builds from a plain input
    (one non-empty crossing of simple factors, WEIGHT mode, EQUAL_PREAMBLE), in closed form:
    size = sum of the weights of the non-excluded level tuples, preamble 0,
    T = max(min_trials, max(1, size)), crossing weight = ceil(T / size). *)
From Coq Require Import ZArith List Bool Arith Lia String.
From SP Require Import Design.Flat Design.Layout Design.Sem Design.DocSem Design.DocSemProofs Design.DocSemPlain
     Design.ListSums Front.Trials Front.TrialsWf Front.TrialsProofs Front.CreateFlat Front.CreateFlatProofs
     Front.PlainInput Front.PlainT2.
Import ListNotations.
Local Open Scope nat_scope.
Local Open Scope list_scope.

Section FlatOfPlain.
Variable p : program.
Variables design crossing : list nat.
Hypothesis Hsimple : Forall (simple_id p) design.
Hypothesis Hpos : forall f, In f crossing -> nth_error design (pos design f) = Some f.
Hypothesis Hne : crossing <> [].

Let fds := map (mkff p) design.
Let cr := map (pos design) crossing.

(** any flat record with this design, one crossing and sustain count 1 *)
Section AnyFlat.
Variable fb : flat.
Hypothesis Hd : fl_design fb = fds.
Hypothesis Hc : fl_crossings fb = [cr].
Hypothesis Hs : fl_sustains fb = [1].

Lemma sustain_one : forall f, sustain_of fb f = 1.
Proof. intro f. unfold sustain_of. rewrite Hc, Hs. cbn. destruct (existsb _ _); reflexivity. Qed.

Lemma all_not_derived : forall c, not_derived fb c.
Proof.
  intro c. unfold not_derived, Layout.factor_at. rewrite Hd. unfold fds. rewrite nth_error_map.
  destruct (nth_error design c) as [f|]; [right; exists (mkff p f); split; reflexivity|left; reflexivity].
Qed.

Lemma trials_required_plain : forall c size, trials_required fb c size = Some size.
Proof. intros c size. apply trials_required_simple; [apply all_not_derived|]. unfold sustain. rewrite sustain_one. lia. Qed.

Lemma max_list_const : forall {A} (l : list A) n, l <> [] -> max_list (map (fun _ => n) l) = n.
Proof.
  intros A l n H. destruct l as [|x l]; [congruence|]. unfold max_list. cbn [map fold_left]. rewrite Nat.max_0_l. clear H.
  induction l as [|y l IH]; cbn; [reflexivity|]. rewrite Nat.max_id. exact IH.
Qed.

Lemma trials_one_crossing_plain : forall size, trials_for_one_crossing fb cr size = Some size.
Proof.
  intro size. unfold trials_for_one_crossing.
  rewrite (all_some_map_some (fun _ => size)) by (intros c _; apply trials_required_plain).
  cbn [option_map]. f_equal. apply max_list_const. unfold cr. destruct crossing; [congruence|discriminate].
Qed.

End AnyFlat.

(** ** the input record and the stages of [create_flat] *)
Variable ics : list iconstraint.
Variables rcc ef : bool.

Let excl := excluded_levels ics.

Definition the_ci : create_input :=
  {| ci_design := fds; ci_crossings := [cr]; ci_sustains := [1]; ci_weights := [1];
     ci_constraints := ics; ci_rcc := rcc; ci_mode := MWeight; ci_alignment := EqualPreamble;
     ci_exclusions := [plain_exclusions fds cr excl]; ci_derivations := []; ci_excluded_derived := [];
     ci_errors_fail := ef |}.

(** the crossing size: the weights of the level tuples that contain no excluded level *)
Definition psize : nat :=
  list_sum (map (W p crossing) (filter (fun ls => negb (exI design crossing excl ls)) (IP p crossing))).

Lemma cr_nonempty : cr <> [].
Proof. unfold cr. destruct crossing; [congruence|discriminate]. Qed.

Lemma st_crossings_ci : st_crossings the_ci = [cr].
Proof. unfold st_crossings. cbn [the_ci ci_crossings filter]. pose proof cr_nonempty. destruct cr; [congruence|reflexivity]. Qed.

Lemma st_sizes_ci : st_sizes the_ci = [psize].
Proof.
  unfold st_sizes. rewrite st_crossings_ci. cbn [the_ci ci_exclusions combine map fst snd]. f_equal.
  set (fb1 := st_flat the_ci [] []).
  assert (Hd : fl_design fb1 = fds) by reflexivity.
  assert (Hc : fl_crossings fb1 = [cr]) by (unfold fb1, st_flat, mkflat; cbn [fl_crossings]; apply st_crossings_ci).
  assert (Hs : fl_sustains fb1 = [1]) by reflexivity.
  pose proof (sustain_one fb1 Hc Hs) as Hone.
  assert (Hsu : match cr with f :: _ => sustain_of fb1 f | [] => 1 end = 1) by (destruct cr; [reflexivity|apply Hone]).
  rewrite Hsu, Nat.mul_1_r. unfold cr, fds.
  rewrite (size_no_excl_sum p design crossing Hpos fb1 Hd), (plain_exclusions_sum p design crossing Hpos excl).
  unfold psize. rewrite (list_sum_filter_split (exI design crossing excl) (W p crossing) (IP p crossing)). lia.
Qed.

Lemma model_preambles_ci : forall size, model_preambles (st_flat the_ci [size] []) = Some [0].
Proof.
  intro size. unfold model_preambles. set (fb2 := st_flat the_ci [size] []).
  assert (Hc : fl_crossings fb2 = [cr]) by (unfold fb2, st_flat, mkflat; cbn [fl_crossings]; apply st_crossings_ci).
  rewrite Hc. change (fl_sizes fb2) with [size]. cbn [combine map fst snd].
  rewrite (trials_one_crossing_plain fb2 eq_refl Hc eq_refl). cbn. rewrite Nat.sub_diag. reflexivity.
Qed.

Lemma trials_for_crossings_ci : forall size pres, trials_for_crossings (st_flat the_ci [size] pres) = Some (Nat.max 1 size).
Proof.
  intros size pres. unfold trials_for_crossings. set (fb3 := st_flat the_ci [size] pres).
  assert (Hc : fl_crossings fb3 = [cr]) by (unfold fb3, st_flat, mkflat; cbn [fl_crossings]; apply st_crossings_ci).
  change (fl_alignment fb3) with EqualPreamble. cbv iota. rewrite Hc. change (fl_sizes fb3) with [size]. cbn [combine map fst snd].
  rewrite (trials_one_crossing_plain fb3 eq_refl Hc eq_refl). cbn [all_some option_map]. unfold max_list. cbn [fold_left].
  rewrite Nat.max_0_l. reflexivity.
Qed.

Lemma model_min_trials_ci : forall sizes pres,
  model_min_trials (st_flat the_ci sizes pres) = Some (min_trials_raw (st_flat the_ci sizes pres)).
Proof. intros. unfold model_min_trials, round_min_trials. cbn [st_flat mkflat fl_sustains the_ci ci_sustains fold_left]. apply round_to_1. Qed.

(** the closed form: [create_flat] succeeds iff the size is positive, and then builds this record *)
Definition praw : Z := min_trials_raw (st_flat the_ci [psize] [0]).
Definition pT : Z := Z.max praw (Z.of_nat (Nat.max 1 psize)).
Definition pw : Z := ((pT / 1 - 0 + Z.of_nat psize - 1) / Z.of_nat psize)%Z.

Theorem create_flat_ci : forall fb, create_flat the_ci = FOk fb ->
  0 < psize /\
  fb = mkflat fds (st_act the_ci) [cr] [1] [Z.to_nat pw] [psize] [0] EqualPreamble (st_alpre the_ci)
              (Z.to_nat praw) (Z.to_nat pT) rcc (st_exclude (st_cons the_ci)) []
              (map (init_wb (st_geometry the_ci [0] pT)) (st_cons the_ci) ++ []) ef.
Proof.
  intros fb H. unfold create_flat in H. destruct (needs_desugar _ _); [discriminate|].
  rewrite st_sizes_ci in H. cbv zeta in H. rewrite model_preambles_ci in H.
  change (ci_alignment the_ci) with EqualPreamble in H. cbn [all_eq negb] in H.
  unfold model_trials in H. rewrite trials_for_crossings_ci, model_min_trials_ci in H. fold praw in H. fold pT in H.
  change (ci_mode the_ci) with MWeight in H. unfold model_weights in H.
  change (fl_crossings (st_flat the_ci [psize] [0])) with (st_crossings the_ci) in H. rewrite st_crossings_ci in H.
  cbn [List.length st_flat mkflat fl_sustains fl_preambles fl_sizes the_ci ci_sustains ci_weights zs_of map weights_loop] in H.
  destruct (psize =? 0) eqn:Z0; cbn [Nat.eqb orb] in H; [discriminate|]. apply Nat.eqb_neq in Z0.
  split; [lia|]. change (Z.of_nat 1) with 1%Z in H. change (Z.of_nat 0) with 0%Z in H. fold pw in H.
  destruct (pw =? 1)%Z eqn:W1.
  - apply Z.eqb_eq in W1. inversion H; subst fb. rewrite W1. reflexivity.
  - inversion H; subst fb. reflexivity.
Qed.

End FlatOfPlain.
