(** T2(c) on the simplest fragment, part 4: which combinations the documented semantics admits,
    in terms of the level tuples of the crossing: the keys of [all_combos] are the names of all
    tuples, the keys of [feasible_combos] those of the tuples without an excluded level. *)
From Coq Require Import ZArith List Bool Arith Lia String Permutation.
From SP Require Import Design.Flat Design.Sem Design.DocSem Design.DocSemProofs Design.DocSemPlain
     Design.ListSums Front.PlainInput Front.PlainT2 Front.PlainT2Doc.
Import ListNotations.
Local Open Scope nat_scope.
Local Open Scope list_scope.

(** * dictionaries keyed by name tuples keep their keys distinct *)
Lemma dict_set_names_nodup : forall {V} k (v : V) d, NoDup (map fst d) -> NoDup (map fst (dict_set names_eqb k v d)).
Proof.
  intros V k v d. induction d as [|[k0 v0] d IH]; intro H; cbn.
  - constructor; [intros []|constructor].
  - destruct (names_eqb k k0) eqn:E; [exact H|]. cbn. inversion H; subst. constructor; [|apply IH; assumption].
    intro Hin. apply dict_set_names_key_in in Hin. destruct Hin as [Hin|Hin]; [contradiction|].
    subst k0. rewrite names_eqb_refl in E. discriminate.
Qed.

Lemma plain_fold_nodup : forall p design cr excl l d0 d,
  fold_left (plain_step p design cr excl) l (Ok d0) = Ok d -> NoDup (map fst d0) -> NoDup (map fst d).
Proof.
  intros p design cr excl l. induction l as [|x l IH]; intros d0 d H H0; cbn [fold_left] in H.
  - inversion H; subst. exact H0.
  - unfold plain_step at 2 in H. cbn [bind] in H. cbv zeta in H. destruct (skip design excl (assign_of design x)).
    + eapply IH; eauto.
    + destruct (combo_weight p cr (map (aval (assign_of design x)) cr)) as [w|e|s]; cbn [bind] in H.
      * eapply IH; [exact H|]. apply dict_set_names_nodup. exact H0.
      * exfalso. eapply plain_fold_err; [|exact H]. intros d'; discriminate.
      * exfalso. eapply plain_fold_err; [|exact H]. intros d'; discriminate.
Qed.

Lemma combos_fold_keys : forall p cr l d0 d,
  fold_left (fun acc combo => d <- acc ;; w <- combo_weight p cr combo ;; Ok (dict_set names_eqb combo w d)) l (Ok d0) = Ok d ->
  NoDup (map fst d0) ->
  NoDup (map fst d) /\ forall combo, In combo (map fst d) <-> In combo (map fst d0) \/ In combo l.
Proof.
  intros p cr l. induction l as [|x l IH]; intros d0 d H H0; cbn [fold_left] in H.
  - inversion H; subst. split; [exact H0|]. intro combo. cbn. tauto.
  - cbn [bind] in H. destruct (combo_weight p cr x) as [w|e|s]; cbn [bind] in H.
    + destruct (IH _ _ H (dict_set_names_nodup x w d0 H0)) as [H1 H2]. split; [exact H1|]. intro combo.
      rewrite H2, dict_set_names_key_in. cbn. intuition.
    + exfalso. eapply fold_combos_err; [|exact H]. intros d'; discriminate.
    + exfalso. eapply fold_combos_err; [|exact H]. intros d'; discriminate.
Qed.

Section Keys.
Variable p : program.
Variables design crossing : list nat.
Hypothesis Hsimple : Forall (simple_id p) design.
Hypothesis Hpos : forall f, In f crossing -> nth_error design (pos design f) = Some f.
Hypothesis Hnames : forall f, In f crossing -> NoDup (map fst (plevels p f)).
Hypothesis HndD : NoDup design.
Hypothesis HndC : NoDup crossing.
Hypothesis Hlev : forall d, In d design -> 0 < nlv p d.

Lemma all_combos_keys : forall d, all_combos p crossing = Ok d ->
  NoDup (map fst d) /\
  forall combo, In combo (map fst d) <-> exists ls, In ls (IP p crossing) /\ zipw (nm p) crossing ls = combo.
Proof.
  intros d H. unfold all_combos in H.
  rewrite (mapM_all_ok _ (names_of p)) in H.
  2:{ intros f Hf. pose proof (crossing_simple p design crossing Hsimple Hpos f Hf) as Hs.
      destruct (simple_fm p f Hs) as [-> _]. cbn [bind]. apply simple_names. exact Hs. }
  cbn [bind] in H. destruct (combos_fold_keys _ _ _ _ _ H (NoDup_nil _)) as [H1 H2]. split; [exact H1|].
  intro combo. rewrite H2. rewrite (names_product_IP p design crossing Hsimple Hpos). cbn [map In]. rewrite in_map_iff. split.
  - intros [[]|[ls [E Hls]]]. exists ls. split; assumption.
  - intros [ls [Hls E]]. right. exists ls. split; assumption.
Qed.

(** ** assignments of a NoDup design *)
Lemma assign_combine : forall vals, List.length vals = List.length design -> assign_of design vals = combine design vals.
Proof.
  intros vals Hlen. unfold assign_of. change (dict_of Nat.eqb (combine design vals)) with (dict_update Nat.eqb [] (combine design vals)).
  rewrite dict_update_fresh; [reflexivity|]. cbn. rewrite map_fst_combine by (symmetry; exact Hlen). exact HndD.
Qed.

Lemma in_combine_nth : forall {A B} (l : list A) (m : list B) i x d, nth_error l i = Some x -> i < List.length m -> In (x, nth i m d) (combine l m).
Proof.
  intros A B l. induction l as [|a l IH]; intros m i x d H Hi; [destruct i; discriminate|].
  destruct m as [|b m]; [cbn in Hi; lia|]. destruct i as [|i]; cbn in *.
  - inversion H. left. reflexivity.
  - right. apply IH; [exact H|lia].
Qed.

Lemma aval_nth : forall vals f i, List.length vals = List.length design -> nth_error design i = Some f ->
  aval (assign_of design vals) f = nth i vals EmptyString.
Proof.
  intros vals f i Hlen Hi. unfold aval. rewrite (assign_combine vals Hlen).
  assert (Hlt : i < List.length vals) by (rewrite Hlen; apply nth_error_Some; congruence).
  rewrite (dict_get_in (combine design vals) f (nth i vals EmptyString)); [reflexivity| |apply in_combine_nth; assumption].
  rewrite map_fst_combine by (symmetry; exact Hlen). exact HndD.
Qed.

Lemma Forall2_nth : forall {A B} (R : A -> B -> Prop) l m i dA dB, Forall2 R l m -> i < List.length l -> R (nth i l dA) (nth i m dB).
Proof.
  intros A B R l m i dA dB H. revert i. induction H as [|x y l m Hxy _ IH]; intros i Hi; cbn in Hi; [lia|].
  destruct i as [|i]; cbn; [exact Hxy|]. apply IH. lia.
Qed.

Lemma index_of_in : forall (l : list string) v d, In v l -> exists i, index_of String.eqb v l = Some i /\ i < List.length l /\ nth i l d = v.
Proof.
  induction l as [|x l IH]; intros v d H; [contradiction|]. cbn. destruct (String.eqb_spec v x) as [->|Hne].
  - exists 0. cbn. split; [reflexivity|split; [lia|reflexivity]].
  - destruct H as [E|H]; [congruence|]. destruct (IH v d H) as [i [E1 [E2 E3]]]. exists (S i). rewrite E1. cbn. split; [reflexivity|split; [lia|exact E3]].
Qed.

Definition idx (f : nat) (v : name) : nat :=
  match index_of String.eqb v (map fst (plevels p f)) with Some i => i | None => 0 end.

Lemma zipw_map_r : forall {A B C} (g : A -> B -> C) (h : A -> B) fs, zipw g fs (map h fs) = map (fun f => g f (h f)) fs.
Proof. intros. induction fs as [|f fs IH]; [reflexivity|]. unfold zipw in *. cbn. f_equal. exact IH. Qed.

Lemma Forall2_map_both : forall {A B C} (R : B -> C -> Prop) (h : A -> B) (k : A -> C) fs,
  (forall f, In f fs -> R (h f) (k f)) -> Forall2 R (map h fs) (map k fs).
Proof. intros. induction fs as [|f fs IH]; cbn; constructor; [apply H; left; reflexivity|apply IH; intros; apply H; right; assumption]. Qed.

(** exclusion of a level tuple by (factor id, level name) pairs *)
Definition exN (excl : list (nat * name)) (ls : list nat) : bool :=
  existsb (fun fn => memb level_eqb fn excl) (combine crossing (zipw (nm p) crossing ls)).

Lemma incl_crossing : incl crossing design.
Proof. intros f Hf. eapply nth_error_In. apply Hpos. exact Hf. Qed.

Lemma nth_map_error : forall {A B} (g : A -> B) l i x d, nth_error l i = Some x -> nth i (map g l) d = g x.
Proof. intros A B g l i x d H. apply nth_error_nth. rewrite nth_error_map, H. reflexivity. Qed.

Lemma index_of_some_in : forall (l : list nat) f, In f l -> exists i, index_of Nat.eqb f l = Some i.
Proof.
  induction l as [|x l IH]; intros f H; [contradiction|]. cbn. destruct (Nat.eqb_spec f x) as [->|Hne]; [exists 0; reflexivity|].
  destruct H as [E|H]; [congruence|]. destruct (IH f H) as [i E]. rewrite E. exists (S i). reflexivity.
Qed.

Lemma pos_nth_error : forall (l : list nat) f, In f l -> nth_error l (pos l f) = Some f.
Proof. intros l f H. destruct (index_of_some_in l f H) as [i E]. unfold pos. rewrite E. apply index_of_nth. exact E. Qed.

Lemma zipw_nodup : forall {B C} (g : nat -> B -> C) (fs : list nat) (ls : list B) d, NoDup fs -> List.length ls = List.length fs ->
  zipw g fs ls = map (fun f => g f (nth (pos fs f) ls d)) fs.
Proof.
  intros B C g fs. induction fs as [|x fs IH]; intros ls d Hnd Hlen; [reflexivity|]. destruct ls as [|l ls]; [discriminate|].
  inversion Hnd; subst. unfold zipw in *. cbn [combine map fst snd]. f_equal.
  - unfold pos. cbn. rewrite Nat.eqb_refl. reflexivity.
  - rewrite (IH ls d) by (try assumption; cbn in Hlen; lia). apply map_ext_in. intros f Hf. f_equal.
    unfold pos. cbn. destruct (Nat.eqb_spec f x) as [->|Hne]; [contradiction|].
    destruct (index_of_some_in fs f Hf) as [i E]. rewrite E. reflexivity.
Qed.

Theorem feasible_keys : forall excludes fe,
  Forall (fun fn => simple_id p (fst fn)) excludes ->
  feasible_combos p design crossing excludes = Ok fe ->
  NoDup (map fst fe) /\
  forall combo, In combo (map fst fe) <->
                exists ls, In ls (IP p crossing) /\ exN (plain_excl crossing excludes) ls = false /\ zipw (nm p) crossing ls = combo.
Proof.
  intros excludes fe Hex H. rewrite (feasible_plain p design crossing excludes Hsimple incl_crossing Hex) in H.
  unfold plain_feasible in H. split; [eapply plain_fold_nodup; [exact H|constructor]|].
  set (excl := plain_excl crossing excludes) in *.
  intro combo. rewrite (plain_fold_keys _ _ _ _ _ _ _ H combo). cbn [map In]. split.
  - intros [[]|[vals [Hin [Hskip Hproj]]]].
    assert (Hlen : List.length vals = List.length design) by (rewrite (in_product_length _ _ Hin), map_length; reflexivity).
    apply in_product_iff in Hin.
    assert (Hv : forall f, In f crossing -> In (aval (assign_of design vals) f) (map fst (plevels p f))).
    { intros f Hf. rewrite (aval_nth vals f (pos design f) Hlen (Hpos f Hf)).
      assert (Hlt : pos design f < List.length vals) by (rewrite Hlen; apply nth_error_Some; rewrite (Hpos f Hf); discriminate).
      pose proof (Forall2_nth _ _ _ (pos design f) EmptyString [] Hin Hlt) as Hn. cbn beta in Hn.
      rewrite (nth_map_error (names_of p) design _ f [] (Hpos f Hf)) in Hn.
      rewrite (names_of_plevels p f (crossing_simple p design crossing Hsimple Hpos f Hf)) in Hn. exact Hn. }
    set (a := assign_of design vals) in *.
    exists (map (fun f => idx f (aval a f)) crossing).
    assert (Enames : zipw (nm p) crossing (map (fun f => idx f (aval a f)) crossing) = map (aval a) crossing).
    { rewrite zipw_map_r. apply map_ext_in. intros f Hf. destruct (index_of_in _ _ EmptyString (Hv f Hf)) as [i [E1 [_ E3]]].
      unfold idx, nm. rewrite E1. exact E3. }
    split; [|split].
    + unfold IP. apply in_product_iff. apply Forall2_map_both. intros f Hf. apply in_seq.
      destruct (index_of_in _ _ EmptyString (Hv f Hf)) as [i [E1 [E2 _]]]. unfold idx. rewrite E1. rewrite map_length in E2.
      unfold nlv. lia.
    + unfold exN. rewrite Enames. destruct (existsb _ _) eqn:Ee; [|reflexivity]. exfalso.
      apply existsb_exists in Ee. destruct Ee as [[f n] [Hfn Hm]]. apply in_combine_map in Hfn. destruct Hfn as [Hf ->].
      unfold skip in Hskip. apply not_true_iff_false in Hskip. apply Hskip. apply existsb_exists.
      exists (f, aval a f). split.
      * apply (assign_in_aval design vals f (aval a f) Hlen (incl_crossing f Hf)). reflexivity.
      * cbn [fst]. assert (M : DocSem.mem f design = true).
        { unfold DocSem.mem. apply existsb_exists. exists f. split; [apply incl_crossing; exact Hf|apply Nat.eqb_refl]. }
        rewrite M. exact Hm.
    + rewrite Enames. exact Hproj.
  - intros [ls [Hls [Hex' Hnames']]]. right.
    pose proof (in_IP_lt p crossing ls Hls) as Hlt. pose proof (in_IP_length p crossing ls Hls) as Hlenls.
    set (g := fun d => match index_of Nat.eqb d crossing with Some j => nm p d (nth j ls 0) | None => nm p d 0 end).
    exists (map g design).
    assert (Hlen : List.length (map g design) = List.length design) by apply map_length.
    assert (Hg : forall f, In f crossing -> g f = nm p f (nth (pos crossing f) ls 0)).
    { intros f Hf. unfold g, pos. destruct (index_of_some_in crossing f Hf) as [i E]. rewrite E. reflexivity. }
    assert (Hav : forall f, In f crossing -> aval (assign_of design (map g design)) f = nm p f (nth (pos crossing f) ls 0)).
    { intros f Hf. rewrite (aval_nth (map g design) f (pos design f) Hlen (Hpos f Hf)).
      rewrite (nth_map_error g design _ f EmptyString (Hpos f Hf)). apply Hg. exact Hf. }
    assert (Eproj : map (aval (assign_of design (map g design))) crossing = zipw (nm p) crossing ls).
    { rewrite (zipw_nodup (nm p) crossing ls 0 HndC Hlenls). apply map_ext_in. exact Hav. }
    split; [|split].
    + apply in_product_iff. apply Forall2_map_both. intros d Hd.
      assert (Hsd : simple_id p d) by (rewrite Forall_forall in Hsimple; apply Hsimple; exact Hd).
      rewrite (names_of_plevels p d Hsd). unfold g. destruct (index_of Nat.eqb d crossing) as [j|] eqn:E.
      * apply index_of_nth in E. unfold nm. apply nth_In. rewrite map_length.
        assert (Hj : j < List.length ls) by (rewrite Hlenls; apply nth_error_Some; congruence).
        pose proof (Forall2_nth _ _ _ j 0 0 Hlt Hj) as Hn. cbn beta in Hn. rewrite (nth_error_nth _ _ 0 E) in Hn. exact Hn.
      * unfold nm. apply nth_In. rewrite map_length. apply Hlev. exact Hd.
    + unfold skip. destruct (existsb _ _) eqn:Ee; [|reflexivity]. exfalso.
      apply existsb_exists in Ee. destruct Ee as [[b v] [Hbv Hm]]. cbn [fst] in Hm. apply andb_true_iff in Hm. destruct Hm as [Hbd Hm].
      assert (Hbc : In b crossing).
      { unfold memb in Hm. apply existsb_exists in Hm. destruct Hm as [e [He Hm]]. apply level_eqb_eq in Hm. subst e.
        unfold excl, plain_excl in He. apply filter_In in He. destruct He as [_ He]. cbn in He. unfold DocSem.mem in He.
        apply existsb_exists in He. destruct He as [x [Hx Hbx]]. apply Nat.eqb_eq in Hbx. subst. exact Hx. }
      apply (assign_in_aval design (map g design) b v Hlen (incl_crossing b Hbc)) in Hbv.
      unfold exN in Hex'. apply not_true_iff_false in Hex'. apply Hex'. apply existsb_exists. exists (b, v). split; [|exact Hm].
      rewrite <- Eproj. apply in_combine_map. split; [exact Hbc|symmetry; exact Hbv].
    + rewrite Eproj. exact Hnames'.
Qed.

End Keys.
