(** T2(c) on the simplest fragment: [code_sem (create_flat (plain_input p))] and [doc_sem p] are
    [sem_eqv], hence have the same valid sequences. *)
From Coq Require Import ZArith List Bool Arith Lia String Permutation.
From SP Require Import Design.Flat Design.Layout Design.Sem Design.SemEqv Design.DocSem Design.DocSemProofs Design.DocSemPlain
     Design.ListSums Front.Trials Front.TrialsProofs Front.CreateFlat Front.CreateFlatProofs Front.PlainInput
     Front.PlainT2 Front.PlainT2Flat Front.PlainT2Doc Front.PlainT2Keys Front.PlainT2Cons Front.PlainT2Sem
     Encode.Compile Encode.CodeSem.
Import ListNotations.
Local Open Scope nat_scope.
Local Open Scope list_scope.

Lemma existsb_false : forall {A} (P : A -> bool) l, (forall x, In x l -> P x = false) -> existsb P l = false.
Proof. intros A P l H. induction l as [|x l IH]; [reflexivity|]. cbn. rewrite (H x (or_introl eq_refl)). apply IH. intros y Hy. apply H. right. exact Hy. Qed.

Lemma filter_none : forall {A} (P : A -> bool) l, (forall x, In x l -> P x = false) -> filter P l = [].
Proof. intros A P l H. induction l as [|x l IH]; [reflexivity|]. cbn. rewrite (H x (or_introl eq_refl)). apply IH. intros y Hy. apply H. right. exact Hy. Qed.

Lemma lookup_level_in : forall di c l, NoDup (map fst di) -> In (c, l) di -> lookup_level di c = Some l.
Proof.
  intros di c l. unfold lookup_level. induction di as [|[c0 l0] di IH]; intros Hnd Hin; [contradiction|]. cbn.
  inversion Hnd; subst. destruct Hin as [E|Hin].
  - inversion E; subst. rewrite Nat.eqb_refl. reflexivity.
  - destruct (Nat.eqb_spec c0 c) as [->|Hne].
    + exfalso. apply H1. apply in_map_iff. exists (c, l). split; [reflexivity|exact Hin].
    + apply IH; assumption.
Qed.

Lemma lookup_level_some : forall di c l, lookup_level di c = Some l -> In (c, l) di.
Proof.
  intros di c l. unfold lookup_level. induction di as [|[c0 l0] di IH]; cbn; intro H; [discriminate|].
  destruct (Nat.eqb_spec c0 c) as [->|Hne]; cbn in H; [inversion H; left; reflexivity|right; apply IH; exact H].
Qed.

Lemma Forall2_in_r : forall {A B} (R : A -> B -> Prop) l m y, Forall2 R l m -> In y m -> exists x, R x y.
Proof. intros A B R l m y H Hy. induction H as [|a b l m Hab _ IH]; [contradiction|]. destruct Hy as [->|Hy]; [exists a; exact Hab|apply IH; exact Hy]. Qed.

Lemma nonempty_map_match : forall (l : list nat) (g : nat -> nat), l <> [] -> match map g l with [] => false | _ => true end = true.
Proof. intros l g H. destruct l; [congruence|reflexivity]. Qed.

Lemma in_insert_by_conv : forall {A} (leb : A -> A -> bool) x y l, y = x \/ In y l -> In y (insert_by leb x l).
Proof.
  intros A leb x y l. induction l as [|z l IH]; cbn; intro H.
  - destruct H as [->|[]]. left. reflexivity.
  - destruct (leb z x); cbn.
    + destruct H as [->|[->|H]]; [right; apply IH; left; reflexivity|left; reflexivity|right; apply IH; right; exact H].
    + destruct H as [->|H]; [left; reflexivity|right; exact H].
Qed.

Lemma in_sort_by_conv : forall {A} (leb : A -> A -> bool) l y, In y l -> In y (sort_by leb l).
Proof.
  intros A leb l y. unfold sort_by.
  assert (G : forall acc, In y acc \/ In y l -> In y (fold_left (fun acc x => insert_by leb x acc) l acc)).
  { induction l as [|x l IH]; intros acc H; cbn [fold_left]; [destruct H as [H|[]]; exact H|].
    apply IH. destruct H as [H|[->|H]]; [left; apply in_insert_by_conv; right; exact H|left; apply in_insert_by_conv; left; reflexivity|right; exact H]. }
  intro H. apply G. right. exact H.
Qed.

Lemma mapM_in_l : forall {A B} (f : A -> res B) l ys x, mapM f l = Ok ys -> In x l -> exists y, In y ys /\ f x = Ok y.
Proof.
  intros A B f l ys x H Hx. apply mapM_ok in H. induction H as [|a b l ys Hab _ IH]; [contradiction|].
  destruct Hx as [->|Hx]; [exists b; split; [left; reflexivity|exact Hab]|]. destruct (IH Hx) as [y [Hy E]]. exists y. split; [right; exact Hy|exact E].
Qed.

Section Main.
Variable p : program.
Variables design crossing : list nat.
Variable cs : list pcons.
Variable rcc : bool.
Variable ics : list iconstraint.
Variable ef : bool.
Hypothesis Hsimple : Forall (simple_id p) design.
Hypothesis Hpos : forall f, In f crossing -> nth_error design (pos design f) = Some f.
Hypothesis Hnames : forall d, In d design -> NoDup (map fst (plevels p d)).
Hypothesis HndD : NoDup design.
Hypothesis HndC : NoDup crossing.
Hypothesis Hlev : forall d, In d design -> 0 < nlv p d.
Hypothesis Hne : crossing <> [].
Hypothesis Hics : Forall2 (fun c ic => plain_constraint p design c = Some ic) cs ics.
Hypothesis Hguard : rcc = true -> forall f n, In (f, n) (excludes_of cs) -> ~ In f crossing.

Let fds := map (mkff p) design.
Let cr := map (pos design) crossing.
Let excl := excluded_levels ics.
Let Sz := psize p design crossing ics.

Lemma HnamesC : forall f, In f crossing -> NoDup (map fst (plevels p f)).
Proof. intros f Hf. apply Hnames. eapply nth_error_In. apply Hpos. exact Hf. Qed.

Lemma excludes_simple : Forall (fun fn : nat * name => simple_id p (fst fn)) (excludes_of cs).
Proof.
  apply Forall_forall. intros [f n] Hin. destruct (excluded_levels_cs p design Hsimple cs ics Hics) as [_ H].
  destruct (H f n Hin) as [Hf _]. cbn. rewrite Forall_forall in Hsimple. apply Hsimple. exact Hf.
Qed.

Lemma exI_false_rcc : rcc = true -> forall ls, In ls (IP p crossing) -> exI design crossing excl ls = false.
Proof.
  intros Hr ls Hls. unfold excl. rewrite (ex_agree p design crossing Hsimple Hnames Hpos cs ics Hics ls Hls).
  assert (E : plain_excl crossing (excludes_of cs) = []).
  { unfold plain_excl. apply filter_none. intros [f n] Hin. cbn. destruct (DocSem.mem f crossing) eqn:M; [|reflexivity].
    exfalso. unfold DocSem.mem in M. apply existsb_exists in M. destruct M as [x [Hx E]]. apply Nat.eqb_eq in E. subst x.
    exact (Hguard Hr f n Hin Hx). }
  rewrite E. unfold exN. apply existsb_false. intros x _. reflexivity.
Qed.

(** (1) the documented crossing size is the code's *)
Lemma doc_size : forall allc feas,
  all_combos p crossing = Ok allc -> feasible_combos p design crossing (excludes_of cs) = Ok feas ->
  sum_values (if rcc then allc else feas) = Sz.
Proof.
  intros allc feas Ha Hf. unfold Sz, psize. fold excl. destruct (Bool.bool_dec rcc true) as [Hr|Hr].
  - rewrite Hr. destruct (all_combos_keys p design crossing Hsimple Hpos allc Ha) as [Hnd Hk].
    rewrite (dict_sum p design crossing Hsimple Hpos HnamesC allc (fun _ => true) Hnd).
    + apply (f_equal (@list_sum)). apply (f_equal (map (W p crossing))). apply filter_ext_in. intros ls Hls.
      rewrite (exI_false_rcc Hr ls Hls). reflexivity.
    + intros k v Hin. eapply all_combos_weight; eauto.
    + intro combo. rewrite Hk. split; [intros [ls [H1 H2]]; exists ls; auto|intros [ls [H1 [_ H2]]]; exists ls; auto].
  - apply not_true_is_false in Hr. rewrite Hr.
    destruct (feasible_keys p design crossing Hsimple Hpos HndD HndC Hlev (excludes_of cs) feas excludes_simple Hf) as [Hnd Hk].
    rewrite (dict_sum p design crossing Hsimple Hpos HnamesC feas
                      (fun ls => negb (exN p crossing (plain_excl crossing (excludes_of cs)) ls)) Hnd).
    + apply (f_equal (@list_sum)). apply (f_equal (map (W p crossing))). apply filter_ext_in. intros ls Hls.
      unfold excl. rewrite (ex_agree p design crossing Hsimple Hnames Hpos cs ics Hics ls Hls). reflexivity.
    + intros k v Hin. eapply feasible_plain_weight; eauto using excludes_simple. intros f Hf'. eapply nth_error_In. apply Hpos. exact Hf'.
    + intro combo. rewrite Hk. split; intros [ls [H1 [H2 H3]]]; exists ls; (split; [exact H1|split; [|exact H3]]).
      * rewrite H2. reflexivity.
      * apply negb_true_iff in H2. exact H2.
Qed.

(** (2) the trial counts *)
Let M := list_max (min_trials_of cs).

Lemma praw_eq : praw p design crossing ics rcc ef = Z.of_nat M.
Proof.
  unfold praw. rewrite min_trials_raw_eq.
  change (fl_constraints (st_flat (the_ci p design crossing ics rcc ef) [psize p design crossing ics] [0]))
    with (st_cons (the_ci p design crossing ics rcc ef)).
  unfold st_cons. cbn [the_ci ci_design ci_constraints ci_sustains existsb Nat.eqb negb orb app fold_left min_step].
  rewrite app_nil_r. rewrite (min_fold_cs p design (map (mkff p) design) cs ics Hics 0%Z) by lia. fold M. lia.
Qed.

Lemma pT_eq : pT p design crossing ics rcc ef = Z.of_nat (Nat.max (Nat.max Sz 1) M).
Proof. unfold pT. rewrite praw_eq. fold Sz. lia. Qed.

Lemma pw_eq : 0 < Sz -> pw p design crossing ics rcc ef = Z.of_nat (ceil_div (Nat.max (Nat.max Sz 1) M) Sz).
Proof.
  intro HS. unfold pw. rewrite pT_eq. fold Sz. set (T := Nat.max (Nat.max Sz 1) M). unfold ceil_div.
  rewrite Nat2Z.inj_div. rewrite Z.div_1_r. f_equal. lia.
Qed.

(** (3) the code's combinations, over the level tuples *)
Lemma NoDup_cr : NoDup cr.
Proof.
  unfold cr. apply NoDup_map_inj_in; [exact HndC|]. intros f g Hf Hg E.
  pose proof (Hpos f Hf) as E1. pose proof (Hpos g Hg) as E2. rewrite E in E1. congruence.
Qed.

Section CodeCombos.
Variable fb : flat.
Hypothesis Hd : fl_design fb = fds.
Hypothesis Hex : fl_exclude fb = excl.
Hypothesis Hexd : fl_excluded_derived fb = [].

Lemma code_excluded : forall ls, In ls (IP p crossing) ->
  is_excluded_or_inconsistent fb (combine cr ls) = exI design crossing excl ls.
Proof.
  intros ls Hls. unfold is_excluded_or_inconsistent.
  rewrite (existsb_false (fun pr : nat * nat => match Layout.factor_at fb (fst pr) with
                                                 | Some fd => match ff_window fd with Some w => _ | None => false end
                                                 | None => false end)).
  2:{ intros [c l] _. cbn [fst]. unfold Layout.factor_at. rewrite Hd. unfold fds. rewrite nth_error_map.
      destruct (nth_error design c); reflexivity. }
  rewrite orb_false_r. unfold is_excluded_combination. rewrite Hexd, Hex. cbn [existsb]. rewrite orb_false_r.
  assert (Hlen : List.length cr = List.length ls) by (unfold cr; rewrite map_length; symmetry; apply (in_IP_length p); exact Hls).
  assert (Hnd : NoDup (map fst (combine cr ls))) by (rewrite map_fst_combine by exact Hlen; apply NoDup_cr).
  unfold exI. fold cr. apply existsb_eq_iff. rewrite !existsb_exists. split.
  - intros [e [He Hl]]. unfold level_is in Hl. destruct (lookup_level (combine cr ls) (fst e)) as [l|] eqn:E; [|discriminate].
    apply Nat.eqb_eq in Hl. apply lookup_level_some in E. exists (fst e, l). split; [exact E|].
    unfold memP. apply existsb_exists. exists e. split; [exact He|]. cbn [fst snd]. rewrite Nat.eqb_refl. cbn. apply Nat.eqb_eq. symmetry. exact Hl.
  - intros [[c l] [Hin Hm]]. unfold memP in Hm. apply existsb_exists in Hm. destruct Hm as [e [He Hm]]. cbn [fst snd] in Hm.
    apply andb_true_iff in Hm. destruct Hm as [H1 H2]. apply Nat.eqb_eq in H1, H2. exists e. split; [exact He|].
    unfold level_is. rewrite H1. rewrite (lookup_level_in _ _ _ Hnd Hin). apply Nat.eqb_eq. symmetry. exact H2.
Qed.

Lemma code_combinations :
  trial_combinations_of fb cr = map (fun ls => combine cr ls) (filter (fun ls => negb (exI design crossing excl ls)) (IP p crossing)).
Proof.
  unfold trial_combinations_of. unfold cr. rewrite (crossing_combos_IP p design crossing Hpos fb Hd).
  rewrite filter_map_comm. rewrite (map_ext _ _ (zipw_pos_combine design crossing)). f_equal.
  apply filter_ext_in. intros ls Hls. rewrite (zipw_pos_combine design crossing ls).
  pose proof (code_excluded ls Hls) as E. unfold cr in E. rewrite E. reflexivity.
Qed.

Lemma code_weight_gen : forall (fs ls : list nat) a,
  (forall f, In f fs -> In f crossing) -> Forall2 (fun l f => l < nlv p f) ls fs ->
  fold_left (fun n pr => n * level_weight fb (fst pr) (snd pr)) (combine (map (pos design) fs) ls) a
  = fold_left Nat.mul (map (fun xy => wt p (fst xy) (snd xy)) (combine fs ls)) a.
Proof.
  intros fs ls a Hin H. revert a. induction H as [|l f ls fs Hl _ IH]; intro a; [reflexivity|].
  cbn [map combine fold_left fst snd].
  rewrite (level_weight_pos p design crossing Hpos fb Hd f l (Hin f (or_introl eq_refl)) Hl).
  apply IH. intros g Hg. apply Hin. right. exact Hg.
Qed.

Lemma code_weight : forall ls, In ls (IP p crossing) -> combination_weight fb (combine cr ls) = W p crossing ls.
Proof.
  intros ls Hls. unfold combination_weight, W, prod_list, zipw, cr. apply code_weight_gen; [auto|]. apply in_IP_lt. exact Hls.
Qed.

End CodeCombos.

(** (4) the documented multiplicities, over the level tuples *)
Lemma idx_names_gen : forall (fs ls : list nat), (forall f, In f fs -> In f crossing) -> Forall2 (fun l f => l < nlv p f) ls fs ->
  mapM (fun fn : nat * name => level_index p (fst fn) (snd fn)) (combine fs (zipw (nm p) fs ls)) = Ok ls.
Proof.
  intros fs ls Hin H. induction H as [|l f ls fs Hl _ IH]; [reflexivity|]. unfold zipw in *. cbn [combine map fst snd mapM].
  assert (Hfd : In f design) by (eapply nth_error_In; apply Hpos; apply Hin; left; reflexivity).
  rewrite (level_index_nm p design Hsimple Hnames f l Hfd Hl). cbn [bind]. rewrite IH by (intros g Hg; apply Hin; right; exact Hg). reflexivity.
Qed.

Lemma doc_mult_char : forall (cmb : combos) (P : list nat -> bool) w mult,
  (forall k v, In (k, v) cmb -> combo_weight p crossing k = Ok v) ->
  (forall combo, In combo (map fst cmb) <-> exists ls, In ls (IP p crossing) /\ P ls = true /\ zipw (nm p) crossing ls = combo) ->
  mapM (fun cw : list name * nat =>
          idx <- mapM (fun fn => level_index p (fst fn) (snd fn)) (combine crossing (fst cw)) ;; Ok (idx, snd cw * w * 1))
       (sort_by (fun a b => names_leb (fst a) (fst b)) cmb) = Ok mult ->
  forall x, In x mult <-> exists ls, In ls (IP p crossing) /\ P ls = true /\ x = (ls, W p crossing ls * w * 1).
Proof.
  intros cmb P w mult Hv Hk Hm x. split.
  - intro Hx. destruct (mapM_in _ _ _ _ Hm Hx) as [[combo v] [Hin Hf]]. apply in_sort_by in Hin. cbn [fst snd] in Hf.
    assert (Hkey : In combo (map fst cmb)) by (apply in_map_iff; exists (combo, v); split; [reflexivity|exact Hin]).
    apply Hk in Hkey. destruct Hkey as [ls [Hls [HP <-]]]. exists ls. split; [exact Hls|]. split; [exact HP|].
    rewrite (idx_names_gen crossing ls (fun f Hf' => Hf') (in_IP_lt p crossing ls Hls)) in Hf. cbn [bind] in Hf.
    pose proof (Hv _ _ Hin) as E. rewrite (combo_weight_names p design crossing Hsimple Hpos HnamesC ls Hls) in E.
    inversion E; subst v. inversion Hf. reflexivity.
  - intros [ls [Hls [HP ->]]].
    assert (Hkey : In (zipw (nm p) crossing ls) (map fst cmb)) by (apply Hk; exists ls; auto).
    apply in_map_iff in Hkey. destruct Hkey as [[combo v] [E Hin]]. cbn [fst] in E. subst combo.
    destruct (mapM_in_l _ _ _ _ Hm (in_sort_by_conv _ _ _ Hin)) as [y [Hy Hf]]. cbn [fst snd] in Hf.
    rewrite (idx_names_gen crossing ls (fun f Hf' => Hf') (in_IP_lt p crossing ls Hls)) in Hf. cbn [bind] in Hf.
    pose proof (Hv _ _ Hin) as E. rewrite (combo_weight_names p design crossing Hsimple Hpos HnamesC ls Hls) in E.
    inversion E; subst v. inversion Hf; subst y. exact Hy.
Qed.

(** (5) the constraints *)
Section Constraints.
Variable T : nat.
Hypothesis HT : 0 < T.
Variable fb : flat.
Hypothesis Hd : fl_design fb = fds.
Hypothesis Hc : fl_crossings fb = [cr].
Hypothesis Hs : fl_sustains fb = [1].
Hypothesis Htr : fl_trials fb = T.
Hypothesis Hal : fl_alignment fb = EqualPreamble.
Variable g : geometry.
Hypothesis Hgt : g_trials g = T.
Hypothesis Hgp : g_preamble g = 0.
Hypothesis Hgs : forall kv, In kv (g_sustain g) -> snd kv = 1.
Variable x : dcross.

Lemma windows_g : windows_of fb (Some g) = [(0, T)].
Proof.
  unfold windows_of, map_block_trial_ranges. rewrite Hgt, Hgp, Hal.
  replace (T <=? 0) with false by (symmetry; apply Nat.leb_gt; exact HT). cbn [andb].
  unfold trials. rewrite Htr, Nat.sub_0_r. destruct T as [|T']; [lia|]. cbn [ranges_loop].
  replace (0 <? Datatypes.S T') with true by (symmetry; apply Nat.ltb_lt; lia). unfold trials. rewrite Htr, Nat.min_id.
  rewrite Nat.add_0_l, Nat.ltb_irrefl. destruct T'; reflexivity.
Qed.

Lemma geometry_sustain_g : forall f, geometry_sustain fb (Some g) f = 1.
Proof.
  intro f. unfold geometry_sustain. destruct (find _ (g_sustain g)) as [kv|] eqn:E; [|reflexivity].
  apply find_some in E. apply Hgs. apply E.
Qed.

Definition code_of (ic : iconstraint) : list dconstraint :=
  flat_map (code_constraint fb) (map (init_wb g) (desugar_constraint fds ic)).

Definition doc_of (c : pcons) : res (list dconstraint) :=
  cs0 <- expand_constraint p c ;;
  ks <- mapM (fun c0 => sem_constraint p (the_bd design cs rcc x T) design 0 T c0 ScNone) cs0 ;; Ok (List.concat ks).

Lemma strided_simple : forall f, simple_id p f -> strided (fd_of p f) = false.
Proof. intros f H. unfold strided. rewrite (simple_plevels p f H). reflexivity. Qed.

Lemma doc_level : forall kd k f n pf l, fpos design f = Some pf -> lpos p f n = Some l ->
  sem_constraint p (the_bd design cs rcc x T) design 0 T (PKRow kd k (TLevel f n)) ScNone
  = Ok [{| k_kind := krow_kind kd k 1; k_factor := pf; k_level := l; k_windows := [(0, T)] |}].
Proof.
  intros kd k f n pf l Hf Hl. destruct (fpos_pos design f pf Hf) as [-> [_ Hfd]].
  destruct (lpos_level p design Hsimple f n l Hfd Hl) as [Eli _].
  unfold sem_constraint. cbn [scope_windows bind]. rewrite (pos_of_design design f HndD Hfd). cbn [bind]. rewrite Eli. reflexivity.
Qed.

Lemma cons_agree_one : forall c ic, plain_constraint p design c = Some ic ->
  (is_min_trials c = true -> code_of ic = []) /\
  (is_min_trials c = false -> doc_of c = Ok (code_of ic)).
Proof.
  intros c ic H. unfold plain_constraint in H.
  destruct c as [kd k [f n|f]|f n|ix f n|f|fs|t| |kind]; try discriminate.
  - (* run-length / count constraint on a level *)
    destruct (fpos design f) as [pf|] eqn:Ef; [|discriminate]. destruct (lpos p f n) as [l|] eqn:El; [|discriminate]. inversion H; subst ic.
    split; [discriminate|]. intros _. unfold doc_of, expand_constraint.
    destruct (fpos_pos design f pf Ef) as [_ [_ Hfd]]. pose proof (design_simple p design Hsimple f Hfd) as Hsf.
    assert (Echk : (if is_run_kind kd then fd <- fm p (target_factor (TLevel f n)) ;; (if strided fd then Unsup UStrided else Ok tt) else Ok tt) = Ok tt).
    { destruct (is_run_kind kd); [|reflexivity]. cbn [target_factor]. destruct (simple_fm p f Hsf) as [-> _]. cbn [bind].
      rewrite (strided_simple f Hsf). reflexivity. }
    rewrite Echk. cbn [bind mapM]. rewrite (doc_level kd k f n pf l Ef El). cbn [bind List.concat app].
    unfold code_of. cbn [desugar_constraint map flat_map app].
    destruct kd; cbn [krow_of mk_krow init_wb code_constraint krow_kind app]; unfold mk_c; rewrite windows_g, ?Nat.mul_1_r; reflexivity.
  - (* ... on a whole factor *)
    destruct (fpos design f) as [pf|] eqn:Ef; [|discriminate]. inversion H; subst ic.
    split; [discriminate|]. intros _. unfold doc_of, expand_constraint.
    destruct (fpos_pos design f pf Ef) as [Epf [Hnth Hfd]]. pose proof (design_simple p design Hsimple f Hfd) as Hsf.
    assert (Echk : (if is_run_kind kd then fd <- fm p (target_factor (TFactor f)) ;; (if strided fd then Unsup UStrided else Ok tt) else Ok tt) = Ok tt).
    { destruct (is_run_kind kd); [|reflexivity]. cbn [target_factor]. destruct (simple_fm p f Hsf) as [-> _]. cbn [bind].
      rewrite (strided_simple f Hsf). reflexivity. }
    rewrite Echk. cbn [bind]. destruct (simple_fm p f Hsf) as [-> _]. cbn [bind]. rewrite (level_names_fd p f Hsf). cbn [bind].
    rewrite (map_nth_seq (map fst (plevels p f)) EmptyString). rewrite map_length. fold (nlv p f). rewrite map_map.
    assert (Enl : nlevels_of fds pf = nlv p f).
    { unfold nlevels_of, fds. rewrite (nth_error_mkff p design pf f Hnth). unfold mkff, nlv. cbn. apply map_length. }
    unfold code_of. cbn [desugar_constraint option_map]. rewrite Enl. rewrite !map_map. rewrite mapM_map.
    rewrite (mapM_all_ok _ (fun l => [{| k_kind := krow_kind kd k 1; k_factor := pf; k_level := l; k_windows := [(0, T)] |}])).
    2:{ intros l Hl. apply in_seq in Hl. apply doc_level; [exact Ef|]. unfold lpos.
        change (nth l (map fst (plevels p f)) EmptyString) with (nm p f l).
        rewrite (level_index_nm p design Hsimple Hnames f l Hfd); [reflexivity|lia]. }
    cbn [bind]. f_equal. generalize (seq 0 (nlv p f)). intro ls. induction ls as [|l ls IH]; [reflexivity|].
    cbn [map List.concat flat_map app]. rewrite IH.
    destruct kd; cbn [krow_of mk_krow init_wb code_constraint krow_kind app]; unfold mk_c; rewrite windows_g, ?Nat.mul_1_r; reflexivity.
  - (* Exclude *)
    destruct (fpos design f) as [pf|] eqn:Ef; [|discriminate]. destruct (lpos p f n) as [l|] eqn:El; [|discriminate]. inversion H; subst ic.
    split; [discriminate|]. intros _. unfold doc_of. cbn [expand_constraint bind mapM].
    destruct (fpos_pos design f pf Ef) as [Epf [_ Hfd]]. destruct (lpos_level p design Hsimple f n l Hfd El) as [Eli _].
    unfold sem_constraint. cbn [scope_windows bind]. rewrite (pos_of_design design f HndD Hfd). cbn [bind]. rewrite Eli. cbn [bind List.concat app].
    rewrite <- Epf. reflexivity.
  - (* Pin *)
    destruct (fpos design f) as [pf|] eqn:Ef; [|discriminate]. destruct (lpos p f n) as [l|] eqn:El; [|discriminate]. inversion H; subst ic.
    split; [discriminate|]. intros _. unfold doc_of. cbn [expand_constraint bind mapM].
    destruct (fpos_pos design f pf Ef) as [Epf [_ Hfd]]. destruct (lpos_level p design Hsimple f n l Hfd El) as [Eli _].
    unfold sem_constraint. cbn [scope_windows bind]. rewrite (pos_of_design design f HndD Hfd). cbn [bind]. rewrite Eli. cbn [bind List.concat app].
    unfold code_of. cbn [desugar_constraint map flat_map init_wb code_constraint app]. unfold mk_c. rewrite windows_g, geometry_sustain_g, <- Epf.
    reflexivity.
  - (* MinimumTrials *)
    inversion H; subst ic. split; [reflexivity|discriminate].
Qed.

Lemma cons_agree : forall cs' ics' ks,
  Forall2 (fun c ic => plain_constraint p design c = Some ic) cs' ics' ->
  mapM (fun csc : pcons * scope =>
          cs0 <- expand_constraint p (fst csc) ;;
          ks <- mapM (fun c => sem_constraint p (the_bd design cs rcc x T) design 0 T c (snd csc)) cs0 ;; Ok (List.concat ks))
       (own_constraints cs') = Ok ks ->
  List.concat ks = flat_map code_of ics'.
Proof.
  intros cs' ics' ks H. revert ks. induction H as [|c ic cs' ics' Hcic _ IH]; intros ks Hm.
  - cbn in Hm. inversion Hm. reflexivity.
  - destruct (cons_agree_one c ic Hcic) as [H1 H2]. unfold own_constraints in *. cbn [filter] in Hm.
    destruct (is_min_trials c) eqn:Em; cbn [negb map] in Hm.
    + cbn [flat_map]. rewrite (H1 eq_refl). cbn [app]. apply IH. exact Hm.
    + cbn [mapM fst snd] in Hm. fold (doc_of c) in Hm. rewrite (H2 eq_refl) in Hm. cbn [bind] in Hm.
      inv_bind Hm as ks' Hks Hm. inversion Hm; subst ks. cbn [List.concat flat_map]. f_equal. apply IH. exact Hks.
Qed.

End Constraints.

(** (6) remaining pieces of the code's normal form *)
Lemma code_factors_gen : forall (fb : flat) (l : list nat) s,
  (forall i, sustain_of fb i = 1) ->
  map (fun pr => code_factor fb (fst pr) (snd pr)) (combine (seq s (List.length (map (mkff p) l))) (map (mkff p) l))
  = map (fun f => {| f_nlevels := nlv p f; f_sustain := 1; f_derived := None |}) l.
Proof.
  intros fb l s Hsu. revert s. induction l as [|f l IH]; intro s; [reflexivity|]. cbn [map List.length seq combine fst snd]. f_equal; [|apply IH].
  unfold code_factor. rewrite Hsu. unfold mkff at 1 2. cbn [ff_levels ff_window]. rewrite map_length. reflexivity.
Qed.

Lemma flat_map_flat_map : forall {A B C} (f : B -> list C) (g : A -> list B) l, flat_map f (flat_map g l) = flat_map (fun x => flat_map f (g x)) l.
Proof. intros. induction l as [|x l IH]; [reflexivity|]. cbn. rewrite flat_map_app, IH. reflexivity. Qed.

Lemma st_cons_ci : st_cons (the_ci p design crossing ics rcc ef) = FCross :: FConsistency :: flat_map (desugar_constraint fds) ics.
Proof. unfold st_cons. cbn [the_ci ci_design ci_constraints ci_sustains existsb Nat.eqb negb orb app]. rewrite app_nil_r. reflexivity. Qed.

Lemma st_exclude_desugar : forall l, st_exclude (flat_map (desugar_constraint fds) l) = excluded_levels l.
Proof.
  induction l as [|ic l IH]; [reflexivity|]. unfold st_exclude, excluded_levels in *. cbn [flat_map]. rewrite flat_map_app, IH. f_equal.
  destruct ic as [c|kind k f wb]; cbn [desugar_constraint flat_map].
  - destruct c; reflexivity.
  - generalize (seq 0 (nlevels_of fds f)). intro ls. induction ls as [|x ls IHl]; [reflexivity|]. cbn [map flat_map]. rewrite IHl. destruct kind; reflexivity.
Qed.

Lemma same_keys_true : forall (a b : combos), (forall k, In k (map fst a) <-> In k (map fst b)) -> same_keys a b = true.
Proof.
  intros a b H. unfold same_keys. apply andb_true_iff. split; apply forallb_forall; intros [k v] Hin; cbn [fst]; unfold memb;
    apply existsb_exists; exists k; (split; [|apply names_eqb_refl]).
  - apply H. apply in_map_iff. exists (k, v). split; [reflexivity|exact Hin].
  - apply H. apply in_map_iff. exists (k, v). split; [reflexivity|exact Hin].
Qed.

Lemma list_nat_eqb_refl : forall l, list_nat_eqb l l = true.
Proof. induction l as [|x l IH]; [reflexivity|]. cbn. rewrite Nat.eqb_refl. exact IH. Qed.

(** * the tie *)
Theorem plain_sem_eqv : forall fb ds,
  p_main p = PCross design crossing cs rcc ->
  create_flat (the_ci p design crossing ics rcc ef) = FOk fb -> doc_sem p = Ok ds ->
  sem_eqv (code_sem fb) (ds_sem ds).
Proof.
  intros fb ds Hmain Hfb Hds.
  destruct (create_flat_ci p design crossing Hpos Hne ics rcc ef fb Hfb) as [HS Efb]. fold Sz in HS.
  (* the documented side *)
  unfold doc_sem, doc_sem_block in Hds. rewrite Hmain in Hds. inv_bind Hds as bd Hbd Hsem.
  destruct (doc_block_plain p design crossing cs rcc Hmain Hsimple Hpos Hne bd Hbd) as [allc [feas [Ha [Hfe Ebd]]]].
  cbv zeta in Ebd. rewrite (doc_size allc feas Ha Hfe) in Ebd. fold M in Ebd.
  set (T := Nat.max (Nat.max Sz 1) M) in *.
  replace (Sz =? 0) with false in Ebd by (symmetry; apply Nat.eqb_neq; lia).
  set (w := ceil_div T Sz) in *.
  set (x0 := {| x_factors := crossing; x_S := Sz; x_P := 0; x_su := 1; x_cw := 1; x_combos := if rcc then allc else feas;
                x_complete := same_keys feas allc; x_rcc := rcc |}) in *.
  subst bd.
  destruct (sem_of_plain p design crossing cs rcc Hmain Hsimple Hpos HndD Hne (set_cw x0 w) T ds eq_refl eq_refl eq_refl Hsem)
    as [ET [EF [Hchunk [[mult [EX Hmult]] [ks [Hks EK]]]]]].
  cbn [set_cw x_S x_cw x_combos x_complete x_rcc x0] in Hchunk, EX, Hmult, EK.
  assert (HT : 0 < T) by (unfold T; lia).
  (* the code side *)
  set (ci := the_ci p design crossing ics rcc ef) in *.
  set (g := st_geometry ci [0] (pT p design crossing ics rcc ef)) in *.
  assert (EpT : Z.to_nat (pT p design crossing ics rcc ef) = T) by (rewrite pT_eq; apply Nat2Z.id).
  assert (Epw : Z.to_nat (pw p design crossing ics rcc ef) = w) by (rewrite (pw_eq HS); apply Nat2Z.id).
  rewrite EpT, Epw in Efb.
  assert (Hd : fl_design fb = fds) by (rewrite Efb; reflexivity).
  assert (Hc : fl_crossings fb = [cr]) by (rewrite Efb; reflexivity).
  assert (Hs : fl_sustains fb = [1]) by (rewrite Efb; reflexivity).
  assert (Htr : fl_trials fb = T) by (rewrite Efb; reflexivity).
  assert (Hal : fl_alignment fb = EqualPreamble) by (rewrite Efb; reflexivity).
  assert (Hex : fl_exclude fb = excl).
  { rewrite Efb. cbn [mkflat fl_exclude]. unfold ci. rewrite st_cons_ci. unfold st_exclude at 1. cbn [flat_map app].
    apply st_exclude_desugar. }
  assert (Hexd : fl_excluded_derived fb = []) by (rewrite Efb; reflexivity).
  assert (Hgt : g_trials g = T) by (unfold g, st_geometry; cbn [g_trials]; exact EpT).
  assert (Hgp : g_preamble g = 0).
  { unfold g, st_geometry. cbn [g_preamble]. unfold ci. rewrite (st_crossings_ci p design crossing Hpos Hne ics rcc ef).
    reflexivity. }
  assert (Hgs : forall kv, In kv (g_sustain g) -> snd kv = 1).
  { intros kv Hin. unfold g, st_geometry in Hin. cbn [g_sustain] in Hin. apply in_map_iff in Hin. destruct Hin as [f [<- _]]. reflexivity. }
  assert (Hsu : forall i, sustain_of fb i = 1) by (intro i; apply (sustain_one design crossing fb Hc Hs)).
  (* the four components *)
  unfold sem_eqv. split; [|split; [|split]].
  - unfold code_sem. cbn [s_trials]. rewrite Htr, ET. reflexivity.
  - unfold code_sem. cbn [s_factors]. rewrite EF, Hd. unfold fds. apply code_factors_gen. exact Hsu.
  - (* constraints *)
    unfold code_sem. cbn [s_constraints]. rewrite EK.
    assert (Ecomplete : (negb (same_keys feas allc) && rcc || false) && nonempty design = false).
    { destruct (Bool.bool_dec rcc true) as [Hr|Hr]; [|apply not_true_is_false in Hr; rewrite Hr; rewrite andb_false_r; reflexivity].
      rewrite same_keys_true; [reflexivity|]. intro k.
      destruct (all_combos_keys p design crossing Hsimple Hpos allc Ha) as [_ Hka].
      destruct (feasible_keys p design crossing Hsimple Hpos HndD HndC Hlev (excludes_of cs) feas excludes_simple Hfe) as [_ Hkf].
      rewrite Hka, Hkf. split.
      - intros [ls [H1 [_ H3]]]. exists ls. auto.
      - intros [ls [H1 H3]]. exists ls. split; [exact H1|]. split; [|exact H3].
        pose proof (exI_false_rcc Hr ls H1) as E. unfold excl in E.
        rewrite (ex_agree p design crossing Hsimple Hnames Hpos cs ics Hics ls H1) in E. exact E. }
    rewrite Ecomplete, app_nil_r.
    rewrite (cons_agree T HT fb Htr Hal g Hgt Hgp Hgs (set_cw x0 w) cs ics ks Hics Hks).
    assert (Hcons : fl_constraints fb = map (init_wb g) (st_cons ci)) by (rewrite Efb; cbn [mkflat fl_constraints]; apply app_nil_r).
    rewrite Hcons. unfold ci. rewrite st_cons_ci. cbn [map flat_map init_wb code_constraint app].
    unfold code_of. generalize ics. intro l. induction l as [|ic l IH]; [reflexivity|].
    cbn [flat_map]. rewrite map_app, flat_map_app, IH. reflexivity.
  - (* the crossing *)
    unfold code_sem. cbn [s_crossings]. rewrite Hc, EX. cbn [code_crossings]. constructor; [|constructor].
    unfold crossing_eqv, code_crossing. cbn [c_factors c_first c_chunk c_mult]. split; [reflexivity|]. split; [|split].
    + unfold preamble_size. rewrite Hal. rewrite Efb. reflexivity.
    + unfold crossing_weight. rewrite Hc. cbn [crossing_ind]. rewrite list_nat_eqb_refl. rewrite Efb. cbn [mkflat fl_sizes fl_weights nth]. reflexivity.
    + (* the multiplicities, as sets *)
      intro xm. rewrite (code_combinations fb Hd Hex Hexd). rewrite map_map.
      assert (Ecw : crossing_weight fb cr = w).
      { unfold crossing_weight. rewrite Hc. cbn [crossing_ind]. rewrite list_nat_eqb_refl. rewrite Efb. reflexivity. }
      rewrite Ecw. rewrite in_map_iff.
      assert (Hcode : (exists ls, (map snd (combine cr ls), combination_weight fb (combine cr ls) * sustain_of fb (hd 0 cr) * w) = xm /\
                                  In ls (filter (fun ls => negb (exI design crossing excl ls)) (IP p crossing)))
                      <-> exists ls, In ls (IP p crossing) /\ negb (exI design crossing excl ls) = true /\ xm = (ls, W p crossing ls * w * 1)).
      { split; intros [ls H].
        - destruct H as [E Hin]. apply filter_In in Hin. destruct Hin as [Hls Hp]. exists ls. split; [exact Hls|]. split; [exact Hp|].
          rewrite <- E. rewrite (code_weight fb Hd ls Hls), Hsu.
          assert (El : map snd (combine cr ls) = ls).
          { pose proof (in_IP_length p crossing ls Hls) as Hlen. unfold cr. clear -Hlen. revert ls Hlen. induction crossing as [|f fs IH]; intros [|l ls] Hlen; try discriminate; [reflexivity|].
            cbn. f_equal. apply IH. cbn in Hlen. lia. }
          rewrite El. f_equal. ring.
        - destruct H as [Hls [Hp ->]]. exists ls. split; [|apply filter_In; split; assumption].
          rewrite (code_weight fb Hd ls Hls), Hsu.
          assert (El : map snd (combine cr ls) = ls).
          { pose proof (in_IP_length p crossing ls Hls) as Hlen. unfold cr. clear -Hlen. revert ls Hlen. induction crossing as [|f fs IH]; intros [|l ls] Hlen; try discriminate; [reflexivity|].
            cbn. f_equal. apply IH. cbn in Hlen. lia. }
          rewrite El. f_equal. ring. }
      rewrite Hcode. clear Hcode.
      destruct (Bool.bool_dec rcc true) as [Hr|Hr].
      * rewrite Hr in Hmult. destruct (all_combos_keys p design crossing Hsimple Hpos allc Ha) as [_ Hka].
        rewrite (doc_mult_char allc (fun _ => true) w mult (fun k v Hin => all_combos_weight p crossing allc k v Ha Hin)
                   (fun combo => conj (fun H => match proj1 (Hka combo) H with ex_intro _ ls (conj H1 H2) => ex_intro _ ls (conj H1 (conj eq_refl H2)) end)
                                      (fun H => match H with ex_intro _ ls (conj H1 (conj _ H2)) => proj2 (Hka combo) (ex_intro _ ls (conj H1 H2)) end))
                   Hmult xm).
        split; intros [ls [H1 [H2 H3]]]; exists ls; (split; [exact H1|split; [|exact H3]]).
        -- reflexivity.
        -- rewrite (exI_false_rcc Hr ls H1). reflexivity.
      * apply not_true_is_false in Hr. rewrite Hr in Hmult.
        destruct (feasible_keys p design crossing Hsimple Hpos HndD HndC Hlev (excludes_of cs) feas excludes_simple Hfe) as [_ Hkf].
        assert (Hkf' : forall combo, In combo (map fst feas) <->
                        exists ls, In ls (IP p crossing) /\ negb (exI design crossing excl ls) = true /\ zipw (nm p) crossing ls = combo).
        { intro combo. rewrite Hkf. split; intros [ls [H1 [H2 H3]]]; exists ls; (split; [exact H1|split; [|exact H3]]).
          - unfold excl. rewrite (ex_agree p design crossing Hsimple Hnames Hpos cs ics Hics ls H1), H2. reflexivity.
          - unfold excl in H2. rewrite (ex_agree p design crossing Hsimple Hnames Hpos cs ics Hics ls H1) in H2. apply negb_true_iff in H2. exact H2. }
        assert (Hv : forall k v, In (k, v) feas -> combo_weight p crossing k = Ok v).
        { intros k v Hin. eapply feasible_plain_weight; eauto using excludes_simple. intros f Hf'. eapply nth_error_In. apply Hpos. exact Hf'. }
        rewrite (doc_mult_char feas (fun ls => negb (exI design crossing excl ls)) w mult Hv Hkf' Hmult xm). reflexivity.
Qed.

(** * the created flat record lies in the fragment F1 of the compilation theorem *)
Lemma filter_all : forall {A} (P : A -> bool) l, (forall x, In x l -> P x = true) -> filter P l = l.
Proof. intros A P l H. induction l as [|x l IH]; [reflexivity|]. cbn. rewrite (H x (or_introl eq_refl)). f_equal. apply IH. intros y Hy. apply H. right. exact Hy. Qed.

Lemma list_nat_nodup_of : forall l, NoDup l -> list_nat_nodup l = true.
Proof.
  induction l as [|x l IH]; intro H; [reflexivity|]. inversion H; subst. cbn. rewrite IH by assumption. rewrite andb_true_r.
  apply negb_true_iff. apply existsb_false. intros y Hy. apply Nat.eqb_neq. intro E. subst. contradiction.
Qed.

Lemma st_act_ci : st_act (the_ci p design crossing ics rcc ef) = seq 0 (List.length design).
Proof.
  unfold st_act. cbn [the_ci ci_design]. unfold fds. rewrite map_length. apply filter_all. intros i _.
  unfold implied. rewrite nth_error_map. destruct (nth_error design i); reflexivity.
Qed.

(** positive k on AtLeastKInARow / ExactlyKInARow (the fragment F1 asks for it) *)
Definition kpos (c : pcons) : Prop :=
  match c with PKRow DocSem.RAtLeast k _ | PKRow DocSem.RExactlyRow k _ => 0 < k | _ => True end.

Section InF1.
Variable T : nat.
Hypothesis HT : 0 < T.
Variable fb : flat.
Hypothesis Hd : fl_design fb = fds.
Hypothesis Hact : fl_act fb = seq 0 (List.length design).
Hypothesis Hc : fl_crossings fb = [cr].
Hypothesis Hs : fl_sustains fb = [1].
Hypothesis Htr : fl_trials fb = T.
Hypothesis Hal : fl_alignment fb = EqualPreamble.
Variable g : geometry.
Hypothesis Hgt : g_trials g = T.
Hypothesis Hgp : g_preamble g = 0.
Hypothesis Hgs : forall kv, In kv (g_sustain g) -> snd kv = 1.

Lemma isact_lt : forall i, i < List.length design -> isact fb i = true.
Proof. intros i Hi. unfold isact. rewrite Hact. apply existsb_exists. exists i. split; [apply in_seq; lia|apply Nat.eqb_refl]. Qed.

Lemma factor_at_design : forall i f, nth_error design i = Some f -> Layout.factor_at fb i = Some (mkff p f).
Proof. intros i f H. unfold Layout.factor_at. rewrite Hd. apply nth_error_mkff. exact H. Qed.

Lemma nlevels_design : forall i f, nth_error design i = Some f -> Layout.nlevels fb i = nlv p f.
Proof. intros i f H. unfold Layout.nlevels. rewrite (factor_at_design i f H). unfold mkff, nlv. cbn. apply map_length. Qed.

Lemma stride1_all : forall i, stride1 fb i = true.
Proof.
  intro i. unfold stride1, Layout.factor_at. rewrite Hd. unfold fds. rewrite nth_error_map. destruct (nth_error design i); reflexivity.
Qed.

Lemma not_complex_all : forall i, Layout.is_complex fb i = false.
Proof.
  intro i. unfold Layout.is_complex, Layout.factor_at. rewrite Hd. unfold fds. rewrite nth_error_map. destruct (nth_error design i); reflexivity.
Qed.

Lemma geom_ok_g : geom_ok fb (Some g) = true.
Proof.
  unfold geom_ok, map_block_trial_ranges. rewrite Hgt, Hgp, Hal.
  replace (T <=? 0) with false by (symmetry; apply Nat.leb_gt; exact HT). reflexivity.
Qed.

Lemma windows_g' : windows_of fb (Some g) = [(0, T)].
Proof. exact (windows_g T HT fb Htr Hal g Hgt Hgp). Qed.

Lemma trials_of_nonempty : forall f, match trials_of fb f 0 T with [] => false | _ => true end = true.
Proof.
  intro f. unfold trials_of. rewrite Nat.sub_0_r. rewrite filter_all.
  - destruct T; [lia|reflexivity].
  - intros t _. apply applies_at_simple. apply (all_not_derived p design fb Hd).
Qed.

Lemma ranges_g : map_block_trial_ranges fb (Some g) = Some [(0, T)].
Proof.
  unfold map_block_trial_ranges. rewrite Hgt, Hgp, Hal.
  replace (T <=? 0) with false by (symmetry; apply Nat.leb_gt; exact HT). cbn [andb].
  unfold trials. rewrite Htr, Nat.sub_0_r. destruct T as [|T']; [lia|]. cbn [ranges_loop].
  replace (0 <? Datatypes.S T') with true by (symmetry; apply Nat.ltb_lt; lia). unfold trials. rewrite Htr, Nat.min_id.
  rewrite Nat.add_0_l, Nat.ltb_irrefl. destruct T'; reflexivity.
Qed.

Lemma list_sum_ge_in : forall x l, In x l -> x <= list_sum l.
Proof. intros x l H. induction l as [|y l IH]; [contradiction|]. rewrite list_sum_cons. destruct H as [->|H]; [lia|specialize (IH H); lia]. Qed.

Lemma vps_pos : forall pf f, nth_error design pf = Some f -> 0 < variables_per_sample fb.
Proof.
  intros pf f Hnth. unfold variables_per_sample. rewrite Hact. rewrite (fold_add_sum (fun f0 => variables_for_factor fb f0 0 0)). cbn [Nat.add].
  assert (Hpf : pf < List.length design) by (apply nth_error_Some; congruence).
  assert (Hv : 0 < variables_for_factor fb pf 0 0).
  { unfold variables_for_factor. cbn [Nat.eqb]. unfold trials. rewrite Htr, Nat.sub_0_r.
    rewrite (fold_cond_sum (fun t => applies_at fb pf t) (fun _ => Layout.nlevels fb pf)). cbn [Nat.add].
    rewrite filter_all by (intros t _; apply applies_at_simple; apply (all_not_derived p design fb Hd)).
    rewrite (nlevels_design pf f Hnth). destruct T as [|T']; [lia|]. cbn [seq map]. rewrite list_sum_cons.
    assert (0 < nlv p f) by (apply Hlev; eapply nth_error_In; eauto). lia. }
  assert (Hin : In (variables_for_factor fb pf 0 0) (map (fun f0 => variables_for_factor fb f0 0 0) (seq 0 (List.length design)))).
  { apply in_map_iff. exists pf. split; [reflexivity|apply in_seq; lia]. }
  pose proof (list_sum_ge_in _ _ Hin). lia.
Qed.

Lemma pin_trials_ok : forall pf ix,
  match get_trial_numbers fb pf ix (Some g) with Some ps => forallb (fun p0 => p0 <? fl_trials fb) ps | None => false end = true.
Proof.
  intros pf ix. unfold get_trial_numbers. rewrite ranges_g. cbn [option_map flat_map fst snd]. rewrite (geometry_sustain_g fb g Hgs).
  rewrite app_nil_r. destruct (_ && _)%Z eqn:E; [|reflexivity]. cbn [seq map forallb]. rewrite andb_true_r, Htr.
  apply andb_true_iff in E. destruct E as [E1 E2]. apply Z.leb_le in E1. apply Z.ltb_lt in E2. apply Nat.ltb_lt. destruct (ix <? 0)%Z; lia.
Qed.

Lemma constraint_f1_one : forall c ic, plain_constraint p design c = Some ic -> kpos c ->
  forallb (constraint_f1 fb) (map (init_wb g) (desugar_constraint fds ic)) = true.
Proof.
  intros c ic H Hk. unfold plain_constraint in H.
  destruct c as [kd k [f n|f]|f n|ix f n|f|fs|t| |kind]; try discriminate.
  - destruct (fpos design f) as [pf|] eqn:Ef; [|discriminate]. destruct (lpos p f n) as [l|] eqn:El; [|discriminate]. inversion H; subst ic.
    destruct (fpos_pos design f pf Ef) as [_ [Hnth Hfd]]. destruct (lpos_level p design Hsimple f n l Hfd El) as [_ [Hl _]].
    assert (Hpf : pf < List.length design) by (apply nth_error_Some; congruence).
    assert (Hll : (l <? Layout.nlevels fb pf) = true) by (rewrite (nlevels_design pf f Hnth); apply Nat.ltb_lt; exact Hl).
    cbn [desugar_constraint map forallb]. rewrite andb_true_r.
    destruct kd; cbn [krow_of mk_krow init_wb constraint_f1 kpos] in *;
      rewrite ?(isact_lt pf Hpf), ?Hll, ?geom_ok_g, ?stride1_all, ?windows_g'; cbn [andb forallb fst snd];
      rewrite ?trials_of_nonempty; try reflexivity; (replace (0 <? k) with true by (symmetry; apply Nat.ltb_lt; exact Hk)); reflexivity.
  - destruct (fpos design f) as [pf|] eqn:Ef; [|discriminate]. inversion H; subst ic.
    destruct (fpos_pos design f pf Ef) as [_ [Hnth Hfd]].
    assert (Hpf : pf < List.length design) by (apply nth_error_Some; congruence).
    assert (Enl : nlevels_of fds pf = nlv p f).
    { unfold nlevels_of, fds. rewrite (nth_error_mkff p design pf f Hnth). unfold mkff, nlv. cbn. apply map_length. }
    cbn [desugar_constraint option_map]. rewrite Enl, map_map. apply forallb_forall. intros x Hx. apply in_map_iff in Hx.
    destruct Hx as [l [<- Hl]]. apply in_seq in Hl.
    assert (Hll : (l <? Layout.nlevels fb pf) = true) by (rewrite (nlevels_design pf f Hnth); apply Nat.ltb_lt; lia).
    destruct kd; cbn [krow_of mk_krow init_wb constraint_f1 kpos] in *;
      rewrite ?(isact_lt pf Hpf), ?Hll, ?geom_ok_g, ?stride1_all, ?windows_g'; cbn [andb forallb fst snd];
      rewrite ?trials_of_nonempty; try reflexivity; (replace (0 <? k) with true by (symmetry; apply Nat.ltb_lt; exact Hk)); reflexivity.
  - destruct (fpos design f) as [pf|] eqn:Ef; [|discriminate]. destruct (lpos p f n) as [l|] eqn:El; [|discriminate]. inversion H; subst ic.
    destruct (fpos_pos design f pf Ef) as [_ [Hnth Hfd]]. destruct (lpos_level p design Hsimple f n l Hfd El) as [_ [Hl _]].
    assert (Hpf : pf < List.length design) by (apply nth_error_Some; congruence).
    cbn [desugar_constraint map forallb init_wb constraint_f1]. rewrite (isact_lt pf Hpf), (nlevels_design pf f Hnth), stride1_all.
    replace (l <? nlv p f) with true by (symmetry; apply Nat.ltb_lt; exact Hl). reflexivity.
  - destruct (fpos design f) as [pf|] eqn:Ef; [|discriminate]. destruct (lpos p f n) as [l|] eqn:El; [|discriminate]. inversion H; subst ic.
    destruct (fpos_pos design f pf Ef) as [_ [Hnth Hfd]]. destruct (lpos_level p design Hsimple f n l Hfd El) as [_ [Hl _]].
    assert (Hpf : pf < List.length design) by (apply nth_error_Some; congruence).
    cbn [desugar_constraint map forallb init_wb constraint_f1].
    rewrite (isact_lt pf Hpf), (nlevels_design pf f Hnth), geom_ok_g, (geometry_sustain_g fb g Hgs), pin_trials_ok.
    replace (l <? nlv p f) with true by (symmetry; apply Nat.ltb_lt; exact Hl).
    replace (0 <? variables_per_sample fb) with true by (symmetry; apply Nat.ltb_lt; apply (vps_pos pf f Hnth)). reflexivity.
  - inversion H; subst ic. reflexivity.
Qed.

Lemma constraint_f1_all : forall cs' ics', Forall2 (fun c ic => plain_constraint p design c = Some ic) cs' ics' -> Forall kpos cs' ->
  forallb (constraint_f1 fb) (map (init_wb g) (flat_map (desugar_constraint fds) ics')) = true.
Proof.
  intros cs' ics' H Hk. induction H as [|c ic cs' ics' Hcic _ IH]; [reflexivity|]. inversion Hk as [|c0 cs0 Hk1 Hk2].
  cbn [flat_map]. rewrite map_app, forallb_app. rewrite (constraint_f1_one c ic Hcic Hk1). apply IH. exact Hk2.
Qed.

Definition not_deriv (c : fconstraint) : bool := match c with FDerivation _ _ _ => false | _ => true end.

Lemma not_deriv_one : forall c ic, plain_constraint p design c = Some ic ->
  forallb (fun c0 => not_deriv (init_wb g c0)) (desugar_constraint fds ic) = true.
Proof.
  intros c ic H. unfold plain_constraint in H.
  destruct c as [kd k [f n|f]|f n|ix f n|f|fs|t| |kind]; try discriminate.
  - destruct (fpos design f); [|discriminate]. destruct (lpos p f n); [|discriminate]. inversion H; subst. destruct kd; reflexivity.
  - destruct (fpos design f); [|discriminate]. inversion H; subst. cbn [desugar_constraint option_map]. apply forallb_forall.
    intros c0 Hc0. apply in_map_iff in Hc0. destruct Hc0 as [l [<- _]]. destruct kd; reflexivity.
  - destruct (fpos design f); [|discriminate]. destruct (lpos p f n); [|discriminate]. inversion H; subst. reflexivity.
  - destruct (fpos design f); [|discriminate]. destruct (lpos p f n); [|discriminate]. inversion H; subst. reflexivity.
  - inversion H; subst. reflexivity.
Qed.

Lemma in_combine_seq : forall {A} (l : list A) s i x, In (i, x) (combine (seq s (List.length l)) l) -> s <= i /\ nth_error l (i - s) = Some x.
Proof.
  intros A l. induction l as [|y l IH]; intros s i x H; [contradiction|]. cbn [List.length seq combine] in H. destruct H as [E|H].
  - inversion E; subst. split; [lia|]. rewrite Nat.sub_diag. reflexivity.
  - destruct (IH (Datatypes.S s) i x H) as [H1 H2]. split; [lia|]. replace (i - s) with (Datatypes.S (i - Datatypes.S s)) by lia. exact H2.
Qed.

Lemma design_entry : forall i fd, In (i, fd) (combine (seq 0 (List.length (fl_design fb))) (fl_design fb)) ->
  exists f, nth_error design i = Some f /\ fd = mkff p f /\ i < List.length design.
Proof.
  intros i fd H. apply in_combine_seq in H. destruct H as [_ H]. rewrite Nat.sub_0_r, Hd in H. unfold fds in H. rewrite nth_error_map in H.
  destruct (nth_error design i) as [f|] eqn:E; [|discriminate]. inversion H. exists f. split; [reflexivity|]. split; [reflexivity|].
  apply nth_error_Some. congruence.
Qed.

Lemma plain_in_f1 : forall w,
  fl_sizes fb = [Sz] -> fl_weights fb = [w] -> 0 < Sz * w -> fl_preambles fb = [0] ->
  fl_constraints fb = map (init_wb g) (FCross :: FConsistency :: flat_map (desugar_constraint fds) ics) ->
  fl_exclude fb = excl -> fl_excluded_derived fb = [] -> Forall kpos cs ->
  in_f1 fb = true.
Proof.
  intros w Hsz Hw Hwpos Hpre Hcons Hex Hexd Hk. unfold in_f1. rewrite !andb_true_iff. repeat split.
  - apply forallb_forall. intros [i fd] Hin. destruct (design_entry i fd Hin) as [f [Hn [-> Hi]]]. cbn [fst snd].
    rewrite (isact_lt i Hi). cbn [negb orb]. unfold factor_f1, mkff. cbn [ff_levels ff_window ff_complex].
    assert (Hl : 0 < nlv p f) by (apply Hlev; eapply nth_error_In; eauto). unfold nlv in Hl.
    destruct (plevels p f); [cbn in Hl; lia|reflexivity].
  - apply forallb_forall. intros [i fd] Hin. destruct (design_entry i fd Hin) as [f [Hn [-> Hi]]]. cbn [fst snd].
    unfold tables_ok, tables_unambiguous, mkff. cbn [ff_window]. rewrite orb_true_r. reflexivity.
  - unfold act_sorted. rewrite Hact, Hd. unfold fds. rewrite map_length.
    rewrite filter_all by (intros i Hi; apply in_seq in Hi; apply isact_lt; lia). apply list_nat_eqb_refl.
  - apply forallb_forall. intros [i fd] Hin. destruct (design_entry i fd Hin) as [f [Hn [-> Hi]]]. cbn [fst snd].
    unfold implied_ok. rewrite (isact_lt i Hi). reflexivity.
  - unfold sustains_ok. rewrite Hs. cbn [forallb Nat.ltb Nat.leb Nat.eqb andb orb]. rewrite andb_true_r.
    apply forallb_forall. intros [i fd] Hin. destruct (design_entry i fd Hin) as [f [Hn [-> Hi]]]. cbn [fst snd].
    unfold grid_factor. rewrite (isact_lt i Hi), not_complex_all. reflexivity.
  - rewrite Hs, Hc. reflexivity.
  - rewrite Hc. cbn [crossings_f1]. rewrite andb_true_r. unfold crossing_f1. rewrite !andb_true_iff. repeat split.
    + apply forallb_forall. intros c Hcin. unfold cr in Hcin. apply in_map_iff in Hcin. destruct Hcin as [f [<- Hf]].
      assert (Hi : pos design f < List.length design) by (apply nth_error_Some; rewrite (Hpos f Hf); discriminate).
      rewrite (isact_lt _ Hi), stride1_all. cbn [andb]. unfold start_of. rewrite (factor_at_design _ f (Hpos f Hf)). reflexivity.
    + rewrite Hsz. cbn [nth]. unfold crossing_weight. rewrite Hc. cbn [crossing_ind]. rewrite list_nat_eqb_refl, Hw. cbn [nth].
      apply Nat.ltb_lt. exact Hwpos.
    + unfold preamble_size. rewrite Hal, Hpre, Htr. cbn [nth]. apply Nat.ltb_lt. exact HT.
    + apply nonempty_map_match. exact Hne.
  - rewrite Hc. cbn [forallb]. rewrite andb_true_r. apply list_nat_nodup_of. apply NoDup_cr.
  - rewrite Hcons. cbn [map forallb init_wb constraint_f1 andb].
    apply (constraint_f1_all cs ics Hics Hk).
  - rewrite Hcons. reflexivity.
  - rewrite Hcons. reflexivity.
  - unfold derivations_match. apply andb_true_iff. split.
    + apply forallb_forall. intros [i fd] Hin. destruct (design_entry i fd Hin) as [f [Hn [-> Hi]]]. reflexivity.
    + rewrite Hcons. cbn [map forallb init_wb andb]. apply forallb_forall. intros c Hcin. apply in_map_iff in Hcin.
      destruct Hcin as [c0 [<- Hc0]]. apply in_flat_map in Hc0. destruct Hc0 as [ic [Hic Hc0]].
      assert (Hex' : exists c', plain_constraint p design c' = Some ic).
      { apply (Forall2_in_r _ cs ics ic Hics Hic). }
      destruct Hex' as [c' Hc'].
      pose proof (not_deriv_one c' ic Hc') as Hnd. rewrite forallb_forall in Hnd. specialize (Hnd c0 Hc0).
      destruct (init_wb g c0); try reflexivity; discriminate.
  - unfold exclude_backed. rewrite Hex, Hcons. apply forallb_forall. intros [f l] Hin. unfold excl, excluded_levels in Hin.
    apply in_flat_map in Hin. destruct Hin as [ic [Hic Hin]]. destruct ic as [c1|]; [|contradiction]. destruct c1; try contradiction.
    destruct Hin as [E|[]]. inversion E; subst. apply existsb_exists. exists (FExclude f l). split.
    + cbn [map]. right. right. apply in_map_iff. exists (FExclude f l). split; [reflexivity|]. apply in_flat_map.
      exists (ICon (FExclude f l)). split; [exact Hic|left; reflexivity].
    + cbn. rewrite !Nat.eqb_refl. reflexivity.
  - unfold no_excluded_derived. rewrite Hexd. reflexivity.
Qed.

End InF1.

Theorem plain_flat_in_f1 : forall fb,
  create_flat (the_ci p design crossing ics rcc ef) = FOk fb -> Forall kpos cs ->
  in_f1 fb = true /\ 0 < Compile.T fb.
Proof.
  intros fb Hfb Hk.
  destruct (create_flat_ci p design crossing Hpos Hne ics rcc ef fb Hfb) as [HS Efb]. fold Sz in HS.
  set (T := Nat.max (Nat.max Sz 1) M) in *. set (w := ceil_div T Sz).
  set (ci := the_ci p design crossing ics rcc ef) in *.
  set (g := st_geometry ci [0] (pT p design crossing ics rcc ef)) in *.
  assert (EpT : Z.to_nat (pT p design crossing ics rcc ef) = T) by (rewrite pT_eq; apply Nat2Z.id).
  assert (Epw : Z.to_nat (pw p design crossing ics rcc ef) = w) by (rewrite (pw_eq HS); apply Nat2Z.id).
  rewrite EpT, Epw in Efb.
  assert (HT : 0 < T) by (unfold T; lia).
  assert (Htr : fl_trials fb = T) by (rewrite Efb; reflexivity).
  split; [|unfold Compile.T; rewrite Htr; exact HT].
  assert (Hd : fl_design fb = fds) by (rewrite Efb; reflexivity).
  assert (Hact : fl_act fb = seq 0 (List.length design)) by (rewrite Efb; cbn [mkflat fl_act]; apply st_act_ci).
  assert (Hc : fl_crossings fb = [cr]) by (rewrite Efb; reflexivity).
  assert (Hs : fl_sustains fb = [1]) by (rewrite Efb; reflexivity).
  assert (Hal : fl_alignment fb = EqualPreamble) by (rewrite Efb; reflexivity).
  assert (Hgt : g_trials g = T) by (unfold g, st_geometry; cbn [g_trials]; exact EpT).
  assert (Hgp : g_preamble g = 0).
  { unfold g, st_geometry. cbn [g_preamble]. unfold ci. rewrite (st_crossings_ci p design crossing Hpos Hne ics rcc ef). reflexivity. }
  assert (Hgs : forall kv, In kv (g_sustain g) -> snd kv = 1).
  { intros kv Hin. unfold g, st_geometry in Hin. cbn [g_sustain] in Hin. apply in_map_iff in Hin. destruct Hin as [f [<- _]]. reflexivity. }
  assert (Hsz : fl_sizes fb = [Sz]) by (rewrite Efb; reflexivity).
  assert (Hw : fl_weights fb = [w]) by (rewrite Efb; reflexivity).
  assert (Hwpos : 0 < Sz * w).
  { assert (0 < w) by (unfold w, ceil_div; apply Nat.div_str_pos; lia). nia. }
  assert (Hpre : fl_preambles fb = [0]) by (rewrite Efb; reflexivity).
  assert (Hcons : fl_constraints fb = map (init_wb g) (FCross :: FConsistency :: flat_map (desugar_constraint fds) ics)).
  { rewrite Efb. cbn [mkflat fl_constraints]. rewrite app_nil_r. unfold ci. rewrite st_cons_ci. reflexivity. }
  assert (Hex : fl_exclude fb = excl).
  { rewrite Efb. cbn [mkflat fl_exclude]. unfold ci. rewrite st_cons_ci. unfold st_exclude at 1. cbn [flat_map app]. apply st_exclude_desugar. }
  assert (Hexd : fl_excluded_derived fb = []) by (rewrite Efb; reflexivity).
  eapply (plain_in_f1 T HT fb) with (g := g) (w := w); eassumption.
Qed.

End Main.
