(** T2(c) on the simplest fragment: [code_sem (create_flat (plain_input p))] and [doc_sem p] are
    [sem_eqv], hence have the same valid sequences. *)
From Coq Require Import ZArith List Bool Arith Lia String Permutation.
From SP Require Import Design.Flat Design.Layout Design.Sem Design.SemEqv Design.DocSem Design.DocSemProofs Design.DocSemPlain
     Design.ListSums Front.Trials Front.TrialsProofs Front.CreateFlat Front.CreateFlatProofs Front.PlainInput
     Front.PlainT2 Front.PlainT2Flat Front.PlainT2Doc Front.PlainT2Keys Front.PlainT2Cons Front.PlainT2Sem
     Encode.Compile Encode.CodeSem.
Import ListNotations.
Local Open Scope nat_scope.
Local Open Scope list_scope.

Lemma existsb_false : forall {A} (P : A -> bool) l, (forall x, In x l -> P x = false) -> existsb P l = false.
Proof. intros A P l H. induction l as [|x l IH]; [reflexivity|]. cbn. rewrite (H x (or_introl eq_refl)). apply IH. intros y Hy. apply H. right. exact Hy. Qed.

Lemma filter_none : forall {A} (P : A -> bool) l, (forall x, In x l -> P x = false) -> filter P l = [].
Proof. intros A P l H. induction l as [|x l IH]; [reflexivity|]. cbn. rewrite (H x (or_introl eq_refl)). apply IH. intros y Hy. apply H. right. exact Hy. Qed.

Lemma lookup_level_in : forall di c l, NoDup (map fst di) -> In (c, l) di -> lookup_level di c = Some l.
Proof.
  intros di c l. unfold lookup_level. induction di as [|[c0 l0] di IH]; intros Hnd Hin; [contradiction|]. cbn.
  inversion Hnd; subst. destruct Hin as [E|Hin].
  - inversion E; subst. rewrite Nat.eqb_refl. reflexivity.
  - destruct (Nat.eqb_spec c0 c) as [->|Hne].
    + exfalso. apply H1. apply in_map_iff. exists (c, l). split; [reflexivity|exact Hin].
    + apply IH; assumption.
Qed.

Lemma lookup_level_some : forall di c l, lookup_level di c = Some l -> In (c, l) di.
Proof.
  intros di c l. unfold lookup_level. induction di as [|[c0 l0] di IH]; cbn; intro H; [discriminate|].
  destruct (Nat.eqb_spec c0 c) as [->|Hne]; cbn in H; [inversion H; left; reflexivity|right; apply IH; exact H].
Qed.

Section Main.
Variable p : program.
Variables design crossing : list nat.
Variable cs : list pcons.
Variable rcc : bool.
Variable ics : list iconstraint.
Variable ef : bool.
Hypothesis Hsimple : Forall (simple_id p) design.
Hypothesis Hpos : forall f, In f crossing -> nth_error design (pos design f) = Some f.
Hypothesis Hnames : forall d, In d design -> NoDup (map fst (plevels p d)).
Hypothesis HndD : NoDup design.
Hypothesis HndC : NoDup crossing.
Hypothesis Hlev : forall d, In d design -> 0 < nlv p d.
Hypothesis Hne : crossing <> [].
Hypothesis Hics : Forall2 (fun c ic => plain_constraint p design c = Some ic) cs ics.
Hypothesis Hguard : rcc = true -> forall f n, In (f, n) (excludes_of cs) -> ~ In f crossing.

Let fds := map (mkff p) design.
Let cr := map (pos design) crossing.
Let excl := excluded_levels ics.
Let S := psize p design crossing ics.

Lemma HnamesC : forall f, In f crossing -> NoDup (map fst (plevels p f)).
Proof. intros f Hf. apply Hnames. eapply nth_error_In. apply Hpos. exact Hf. Qed.

Lemma excludes_simple : Forall (fun fn : nat * name => simple_id p (fst fn)) (excludes_of cs).
Proof.
  apply Forall_forall. intros [f n] Hin. destruct (excluded_levels_cs p design Hsimple cs ics Hics) as [_ H].
  destruct (H f n Hin) as [Hf _]. cbn. rewrite Forall_forall in Hsimple. apply Hsimple. exact Hf.
Qed.

Lemma exI_false_rcc : rcc = true -> forall ls, In ls (IP p crossing) -> exI design crossing excl ls = false.
Proof.
  intros Hr ls Hls. unfold excl. rewrite (ex_agree p design crossing Hsimple Hnames Hpos cs ics Hics ls Hls).
  assert (E : plain_excl crossing (excludes_of cs) = []).
  { unfold plain_excl. apply filter_none. intros [f n] Hin. cbn. destruct (DocSem.mem f crossing) eqn:M; [|reflexivity].
    exfalso. unfold DocSem.mem in M. apply existsb_exists in M. destruct M as [x [Hx E]]. apply Nat.eqb_eq in E. subst x.
    exact (Hguard Hr f n Hin Hx). }
  rewrite E. unfold exN. apply existsb_false. intros x _. reflexivity.
Qed.

(** (1) the documented crossing size is the code's *)
Lemma doc_size : forall allc feas,
  all_combos p crossing = Ok allc -> feasible_combos p design crossing (excludes_of cs) = Ok feas ->
  sum_values (if rcc then allc else feas) = S.
Proof.
  intros allc feas Ha Hf. unfold S, psize. fold excl. destruct (Bool.bool_dec rcc true) as [Hr|Hr].
  - rewrite Hr. destruct (all_combos_keys p design crossing Hsimple Hpos allc Ha) as [Hnd Hk].
    rewrite (dict_sum p design crossing Hsimple Hpos HnamesC allc (fun _ => true) Hnd).
    + apply (f_equal (@list_sum)). apply (f_equal (map (W p crossing))). apply filter_ext_in. intros ls Hls.
      rewrite (exI_false_rcc Hr ls Hls). reflexivity.
    + intros k v Hin. eapply all_combos_weight; eauto.
    + intro combo. rewrite Hk. split; [intros [ls [H1 H2]]; exists ls; auto|intros [ls [H1 [_ H2]]]; exists ls; auto].
  - apply not_true_is_false in Hr. rewrite Hr.
    destruct (feasible_keys p design crossing Hsimple Hpos HndD HndC Hlev (excludes_of cs) feas excludes_simple Hf) as [Hnd Hk].
    rewrite (dict_sum p design crossing Hsimple Hpos HnamesC feas
                      (fun ls => negb (exN p crossing (plain_excl crossing (excludes_of cs)) ls)) Hnd).
    + apply (f_equal (@list_sum)). apply (f_equal (map (W p crossing))). apply filter_ext_in. intros ls Hls.
      unfold excl. rewrite (ex_agree p design crossing Hsimple Hnames Hpos cs ics Hics ls Hls). reflexivity.
    + intros k v Hin. eapply feasible_plain_weight; eauto using excludes_simple. intros f Hf'. eapply nth_error_In. apply Hpos. exact Hf'.
    + intro combo. rewrite Hk. split; intros [ls [H1 [H2 H3]]]; exists ls; (split; [exact H1|split; [|exact H3]]).
      * rewrite H2. reflexivity.
      * apply negb_true_iff in H2. exact H2.
Qed.

End Main.
