(** T2(c) on the simplest fragment, part 6: the semantic normal forms of both sides. *)
From Coq Require Import ZArith List Bool Arith Lia String Permutation.
From SP Require Import Design.Flat Design.Layout Design.Sem Design.SemEqv Design.DocSem Design.DocSemProofs Design.DocSemPlain
     Design.ListSums Front.Trials Front.TrialsProofs Front.CreateFlat Front.CreateFlatProofs Front.PlainInput
     Front.PlainT2 Front.PlainT2Flat Front.PlainT2Doc Front.PlainT2Keys Front.PlainT2Cons Encode.Compile Encode.CodeSem.
Import ListNotations.
Local Open Scope nat_scope.
Local Open Scope list_scope.

(** * documented side: auxiliary closed forms *)
Section DocAux.
Variable p : program.

Lemma crossing_preamble_plain : forall crossing, (forall f, In f crossing -> simple_id p f) -> crossing_preamble p crossing = Ok 0.
Proof.
  intros crossing H. unfold crossing_preamble.
  assert (G : forall l m, (forall f, In f l -> simple_id p f) ->
              fold_left (fun acc f => m <- acc ;; fd <- fm p f ;;
                                      if is_derived fd then q <- window_params p fd ;; Ok (Nat.max m (wp_start q)) else Ok m) l (Ok m) = Ok m).
  { induction l as [|f l IH]; intros m Hl; [reflexivity|]. cbn [fold_left bind].
    destruct (simple_fm p f (Hl f (or_introl eq_refl))) as [-> Hs]. cbn [bind]. rewrite (simple_not_derived _ Hs).
    apply IH. intros g Hg. apply Hl. right. exact Hg. }
  apply G. exact H.
Qed.

Lemma depth_simple : forall f, simple_id p f -> depth p (fuel0 p) f = Ok 0.
Proof.
  intros f H. unfold fuel0. cbn [depth]. destruct (simple_fm p f H) as [-> Hs]. cbn [bind].
  unfold is_simple in Hs. destruct (pf_kind (fd_of p f)); try discriminate. reflexivity.
Qed.

Lemma insert_by_last : forall {A} (leb : A -> A -> bool) x l, (forall y, In y l -> leb y x = true) -> insert_by leb x l = l ++ [x].
Proof.
  intros A leb x l. induction l as [|y l IH]; intro H; [reflexivity|]. cbn. rewrite (H y (or_introl eq_refl)). f_equal.
  apply IH. intros z Hz. apply H. right. exact Hz.
Qed.

Lemma sort_by_const : forall {A} (leb : A -> A -> bool) l, (forall a b, In a l -> In b l -> leb a b = true) -> sort_by leb l = l.
Proof.
  intros A leb l H. unfold sort_by.
  assert (G : forall l' acc, (forall a b, In a (acc ++ l') -> In b (acc ++ l') -> leb a b = true) ->
                             fold_left (fun acc x => insert_by leb x acc) l' acc = acc ++ l').
  { induction l' as [|x l' IH]; intros acc Hl; cbn [fold_left]; [rewrite app_nil_r; reflexivity|].
    rewrite insert_by_last by (intros y Hy; apply Hl; apply in_or_app; [left; exact Hy|right; left; reflexivity]).
    rewrite IH; [rewrite <- app_assoc; reflexivity|]. rewrite <- app_assoc. exact Hl. }
  apply (G l []). exact H.
Qed.

Lemma pos_of_some : forall l f, In f l -> exists i, pos_of l f = Ok i.
Proof.
  intros l f H. unfold pos_of.
  assert (G : forall s acc, (In f l \/ acc <> None) ->
              fold_left (fun acc ix => if snd ix =? f then Some (fst ix) else acc) (combine (seq s (List.length l)) l) acc <> None).
  { clear H. induction l as [|x l IH]; intros s acc H; cbn.
    - destruct H as [[]|H]; exact H.
    - apply IH. destruct (Nat.eqb_spec x f) as [->|Hne]; [right; discriminate|]. destruct H as [[E|H]|H]; [congruence|left; exact H|right; exact H]. }
  specialize (G 0 None (or_introl H)). destruct (fold_left _ _ None) as [i|]; [exists i; reflexivity|congruence].
Qed.

Lemma pos_of_design : forall l f, NoDup l -> In f l -> pos_of l f = Ok (pos l f).
Proof.
  intros l f Hnd Hf. destruct (pos_of_some l f Hf) as [i E]. rewrite E. f_equal.
  destruct (pos_of_nth _ _ _ E) as [Hi Hn]. pose proof (pos_nth_error l f Hf) as Hp.
  assert (Hpl : pos l f < List.length l) by (apply nth_error_Some; congruence).
  apply (proj1 (NoDup_nth l 0) Hnd); try assumption. rewrite Hn. symmetry. apply nth_error_nth. exact Hp.
Qed.

Lemma sem_factor_simple : forall bd forder f, simple_id p f ->
  sem_factor p bd forder f = Ok {| f_nlevels := nlv p f; f_sustain := sustain_get bd f; f_derived := None |}.
Proof.
  intros bd forder f H. unfold sem_factor. destruct (simple_fm p f H) as [-> Hs]. cbn [bind].
  unfold DocSem.nlevels. rewrite (simple_plevels p f H). cbn [bind]. rewrite Hs. reflexivity.
Qed.

Lemma design_not_continuous : forall design, Forall (simple_id p) design ->
  map fst (filter (fun x : nat * pfactor => negb (is_continuous (snd x))) (map (fun f => (f, fd_of p f)) design)) = design.
Proof.
  intros design H. induction H as [|f l Hf _ IH]; [reflexivity|]. cbn [map filter snd]. destruct (simple_fm p f Hf) as [_ Hs].
  unfold is_simple in Hs. unfold is_continuous at 1. destruct (pf_kind (fd_of p f)); try discriminate. cbn [negb map fst]. f_equal. exact IH.
Qed.

End DocAux.

(** * the documented normal form of a plain CrossBlock *)
Section DocForm.
Variable p : program.
Variables design crossing : list nat.
Variable cs : list pcons.
Variable rcc : bool.
Hypothesis Hmain : p_main p = PCross design crossing cs rcc.
Hypothesis Hsimple : Forall (simple_id p) design.
Hypothesis Hpos : forall f, In f crossing -> nth_error design (pos design f) = Some f.
Hypothesis HndD : NoDup design.
Hypothesis Hne : crossing <> [].

Definition the_bd (x : dcross) (T : nat) : blockdoc :=
  {| b_design := design; b_crossings := [x]; b_T := T; b_P := 0; b_constraints := own_constraints cs;
     b_min_trials := list_max (min_trials_of cs); b_alignment := EqualPreamble; b_sustain := []; b_rcc := rcc |}.

Lemma doc_block_plain : forall bd, doc_block p (PCross design crossing cs rcc) = Ok bd ->
  exists allc feas,
    all_combos p crossing = Ok allc /\ feasible_combos p design crossing (excludes_of cs) = Ok feas /\
    let cmb := if rcc then allc else feas in
    let S := sum_values cmb in
    let T := Nat.max (Nat.max S 1) (list_max (min_trials_of cs)) in
    let x := {| x_factors := crossing; x_S := S; x_P := 0; x_su := 1; x_cw := 1; x_combos := cmb;
                x_complete := same_keys feas allc; x_rcc := rcc |} in
    bd = the_bd (if S =? 0 then x else set_cw x (ceil_div T S)) T.
Proof.
  intros bd H. cbn [doc_block] in H. unfold doc_cross in H.
  rewrite (mapM_all_ok _ (fun f => (f, fd_of p f))) in H
    by (intros f Hf; rewrite Forall_forall in Hsimple; destruct (simple_fm p f (Hsimple f Hf)) as [-> _]; reflexivity).
  cbn [bind] in H. rewrite (design_not_continuous p design Hsimple) in H.
  assert (Hf : filter nonempty [crossing] = [crossing]) by (destruct crossing; [congruence|reflexivity]).
  rewrite Hf in H. cbn [mapM] in H. inv_bind H as xs Hxs H. inv_bind Hxs as x Hx Hxs. cbn [bind] in Hxs. inversion Hxs; subst xs. clear Hxs.
  unfold doc_crossing in Hx. inv_bind Hx as allc Ha Hx. inv_bind Hx as feas Hfe Hx. inv_bind Hx as P HP Hx.
  rewrite crossing_preamble_plain in HP by (intros f Hf'; eapply crossing_simple; eauto). inversion HP; subst P. clear HP.
  exists allc, feas. split; [exact Ha|]. split; [exact Hfe|]. cbv zeta.
  inv_bind H as bd0 Hfin H. inversion H; subst bd. clear H. inversion Hx; subst x. clear Hx.
  unfold finish in Hfin. cbv zeta in Hfin.
  cbn [b_alignment b_crossings b_min_trials b_design b_constraints b_sustain b_rcc alignment_eqb andb forallb x_P negb] in Hfin.
  rewrite Nat.eqb_refl in Hfin. cbn [andb negb mapM] in Hfin.
  set (S := sum_values (if rcc then allc else feas)) in *.
  assert (ET : finish_T EqualPreamble [{| x_factors := crossing; x_S := S; x_P := 0; x_su := 1; x_cw := 1;
                                          x_combos := if rcc then allc else feas; x_complete := same_keys feas allc; x_rcc := rcc |}]
                        (list_max (min_trials_of cs)) = Nat.max (Nat.max S 1) (list_max (min_trials_of cs))).
  { unfold finish_T. cbn [map list_max fold_right fold_left x_P x_S x_su]. rewrite Nat.mod_1_r. cbn [Nat.eqb].
    rewrite Nat.mul_1_r, Nat.add_0_l, Nat.max_0_r. reflexivity. }
  rewrite ET in Hfin. set (T := Nat.max (Nat.max S 1) (list_max (min_trials_of cs))) in *.
  unfold finish_cw in Hfin. cbn [x_S x_su x_P x_cw] in Hfin. rewrite Nat.div_1_r, Nat.sub_0_r in Hfin.
  unfold the_bd. destruct (S =? 0) eqn:ES.
  - cbn [bind] in Hfin. inversion Hfin; subst bd0. cbn. reflexivity.
  - destruct (ceil_div T S =? 1) eqn:EW.
    + cbn [bind] in Hfin. inversion Hfin; subst bd0. cbn. apply Nat.eqb_eq in EW. rewrite EW. reflexivity.
    + cbn [bind] in Hfin. inversion Hfin; subst bd0. cbn. reflexivity.
Qed.

Lemma sem_of_plain : forall x T ds,
  x_factors x = crossing -> x_P x = 0 -> x_su x = 1 ->
  sem_of_block p (the_bd x T) = Ok ds ->
  s_trials (ds_sem ds) = T /\
  s_factors (ds_sem ds) = map (fun f => {| f_nlevels := nlv p f; f_sustain := 1; f_derived := None |}) design /\
  x_S x * x_cw x <> 0 /\
  (exists mult,
     s_crossings (ds_sem ds) = [{| c_factors := map (pos design) crossing; c_first := 0; c_chunk := x_S x * x_cw x; c_mult := mult |}] /\
     mapM (fun cw : list name * nat =>
             idx <- mapM (fun fn => level_index p (fst fn) (snd fn)) (combine crossing (fst cw)) ;;
             Ok (idx, snd cw * x_cw x * 1))
          (sort_by (fun a b => names_leb (fst a) (fst b)) (x_combos x)) = Ok mult) /\
  (exists ks,
     mapM (fun csc : pcons * scope =>
             cs0 <- expand_constraint p (fst csc) ;;
             ks <- mapM (fun c => sem_constraint p (the_bd x T) design 0 T c (snd csc)) cs0 ;; Ok (List.concat ks))
          (own_constraints cs) = Ok ks /\
     s_constraints (ds_sem ds) = List.concat ks ++
       (if (negb (x_complete x) && x_rcc x || false) && nonempty design
        then [{| k_kind := KExactlyK (T + 1); k_factor := 0; k_level := 0; k_windows := [(0, T)] |}] else [])).
Proof.
  intros x T ds Hxf HxP Hxsu H. unfold sem_of_block in H. cbn [the_bd b_design b_T b_crossings b_constraints] in H.
  rewrite (mapM_all_ok _ (fun f => (f, fd_of p f))) in H
    by (intros f Hf; rewrite Forall_forall in Hsimple; destruct (simple_fm p f (Hsimple f Hf)) as [-> _]; reflexivity).
  cbn [bind] in H.
  assert (Hdeps : forallb (fun x0 : nat * pfactor => forallb (fun d => DocSem.mem d design) (fdeps (snd x0))) (map (fun f => (f, fd_of p f)) design) = true).
  { apply forallb_forall. intros [f fd] Hin. apply in_map_iff in Hin. destruct Hin as [f' [E Hf']]. inversion E; subst. cbn [snd].
    rewrite Forall_forall in Hsimple. unfold fdeps. rewrite (simple_plevels p f (Hsimple f Hf')). reflexivity. }
  rewrite Hdeps in H. cbn [negb] in H.
  rewrite (mapM_all_ok _ (fun f => (f, 0))) in H
    by (intros f Hf; rewrite Forall_forall in Hsimple; rewrite (depth_simple p f (Hsimple f Hf)); reflexivity).
  cbn [bind] in H.
  rewrite sort_by_const in H.
  2:{ intros a b Ha Hb. apply in_map_iff in Ha, Hb. destruct Ha as [fa [<- _]]. destruct Hb as [fb [<- _]]. reflexivity. }
  rewrite map_map in H. cbn [fst] in H. rewrite map_id in H.
  rewrite (mapM_all_ok _ (fun f => {| f_nlevels := nlv p f; f_sustain := 1; f_derived := None |})) in H
    by (intros f Hf; rewrite Forall_forall in Hsimple; apply (sem_factor_simple p (the_bd x T) design f (Hsimple f Hf))).
  cbn [bind mapM map list_max fold_right] in H. rewrite HxP in H. cbn [Nat.mul Nat.max] in H.
  inv_bind H as crossings Hx H. inv_bind Hx as dc Hdc Hx. cbn [bind] in Hx. inversion Hx; subst crossings. clear Hx.
  inv_bind H as constraints Hc H. inversion H; subst ds. clear H. cbn [ds_sem s_trials s_factors s_crossings s_constraints].
  unfold sem_crossing in Hdc. rewrite Hxsu, Nat.mul_1_r in Hdc.
  destruct (x_S x * x_cw x =? 0) eqn:E0; [discriminate|]. apply Nat.eqb_neq in E0.
  inv_bind Hdc as mult Hm Hdc. inv_bind Hdc as fs Hfs Hdc. inversion Hdc; subst dc. clear Hdc.
  rewrite Hxf in Hfs, Hm. rewrite (mapM_all_ok _ (pos design)) in Hfs.
  2:{ intros f Hf. apply pos_of_design; [exact HndD|]. eapply nth_error_In. apply Hpos. exact Hf. }
  inversion Hfs; subst fs. clear Hfs.
  split; [reflexivity|]. split; [reflexivity|]. split; [exact E0|]. split.
  - exists mult. split.
    + unfold crossing_first. cbn [the_bd b_alignment]. rewrite HxP. reflexivity.
    + exact Hm.
  - exists constraints. split; [exact Hc|]. reflexivity.
Qed.

End DocForm.
