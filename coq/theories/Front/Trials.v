(** Executable model of the trial-count arithmetic of
    [sweetpea/_internal/cross_block.py] ([_create], [__trials_required_for_crossing],
    [_trials_per_sample_for_crossing], [_trials_per_sample_for_one_crossing],
    [trials_per_sample], [preamble_size], [common_preamble_size], the crossing-weight
    loop of [_create], [get_geometry]) and of [block.py] ([Block.__init__]: the
    [MinimumTrials] fold of [__validate] and the rounding of [min_trials] to
    multiples of every crossing sustain count), on the flat record.

    Crossing sizes ([crossing_size(c)], already multiplied by the crossing's
    sustain count) are read from [fl_sizes]; [crossing_size_no_excl] models
    [crossing_size_without_exclusions].  Where the Python code raises the model
    returns [None] / an error constructor.  No proofs here (Front/TrialsProofs.v). *)
From Coq Require Import ZArith List Bool Arith.
From SP Require Import Design.Flat Design.Layout.
Import ListNotations.

Inductive rmode := MWeight | MRepeat | MEqual.

Definition max_list (l : list nat) : nat := fold_left Nat.max l 0.

Section Trials.
Variable fb : flat.

Definition fstart (f : nat) : nat :=
  match factor_at fb f with
  | Some fd => match ff_window fd with Some w => win_start w | None => 0 end
  | None => 0
  end.
Definition fstride (f : nat) : nat :=
  match factor_at fb f with
  | Some fd => match ff_window fd with Some w => win_stride w | None => 1 end
  | None => 1
  end.

(** [__trials_required_for_crossing(f, crossing_size)]:
      trial = 0; counter = 0
      while counter != crossing_size:
          trial += 1
          if f.applies_to_trial((trial-1)//sustain_count + 1): counter += 1
      return trial
    [applies_at fb f t] of Design/Layout.v is exactly the loop's test. *)
Fixpoint tr_loop (fuel f size trial counter : nat) : option nat :=
  match fuel with
  | O => None
  | S fuel' =>
    if counter =? size then Some trial
    else tr_loop fuel' f size (S trial) (if applies_at fb f (S trial) then S counter else counter)
  end.

Definition tr_fuel (f size : nat) : nat := S (sustain fb f * (fstart f + fstride f * size)).

(** [None]: the sustain count is 0 (ZeroDivisionError) or the loop did not
    finish within the fuel (it always does for stride >= 1). *)
Definition trials_required (f size : nat) : option nat :=
  if sustain fb f =? 0 then None else tr_loop (tr_fuel f size) f size 0 0.

(** [max([0] + list(map(lambda f: trials_required(f, size), c)))] *)
Definition trials_for_one_crossing (c : list nat) (size : nat) : option nat :=
  option_map max_list (all_some (map (fun f => trials_required f size) c)).

(** [_trials_per_sample_for_crossing]: under POST_PREAMBLE every crossing is
    measured with the largest crossing size ([max] of an empty sequence raises
    ValueError: [None]); otherwise each with its own size. *)
Definition trials_for_crossings : option nat :=
  match fl_alignment fb with
  | PostPreamble =>
    match fl_crossings fb with
    | [] => None
    | _ =>
      let m := max_list (fl_sizes fb) in
      option_map (fun l => Nat.max 1 (max_list l))
                 (all_some (map (fun c => trials_for_one_crossing c m) (fl_crossings fb)))
    end
  | _ =>
    option_map (fun l => Nat.max 1 (max_list l))
               (all_some (map (fun cs => trials_for_one_crossing (fst cs) (snd cs))
                              (combine (fl_crossings fb) (fl_sizes fb))))
  end.

(** [preamble_sizes]: [_trials_per_sample_for_one_crossing(c) - crossing_size(c)] per crossing. *)
Definition model_preambles : option (list nat) :=
  all_some (map (fun cs => option_map (fun t => t - snd cs) (trials_for_one_crossing (fst cs) (snd cs)))
                (combine (fl_crossings fb) (fl_sizes fb))).

(** [MinimumTrials.apply] folded over the constraints in order
    ([if block.min_trials: max(...) else: self.trials]). *)
Definition min_trials_raw : Z :=
  fold_left (fun m c => match c with
                        | FMinimumTrials n => if (m =? 0)%Z then n else Z.max m n
                        | _ => m
                        end) (fl_constraints fb) 0%Z.

(** the rounding loop at the end of [Block.__init__]; [None] = ZeroDivisionError *)
Definition round_to (m : option Z) (count : nat) : option Z :=
  match m with
  | None => None
  | Some m =>
    let c := Z.of_nat count in
    if (c =? 0)%Z then None
    else if ((m / c) * c =? m)%Z then Some m else Some ((m / c + 1) * c)%Z
  end.
Definition round_min_trials (m : Z) : option Z := fold_left round_to (fl_sustains fb) (Some m).
Definition model_min_trials : option Z := round_min_trials min_trials_raw.

(** [trials_per_sample()] = [max([self.min_trials, self._trials_per_sample_for_crossing()])].
    ([Pin.validate] and the [AtLeastKInARow] loop of [Block.__validate] call it before
    [min_trials] is rounded, but [Block.__init__] resets the cached value when the
    rounding changes [min_trials] - /repo commit f8f66a6.) *)
Definition model_trials : option Z :=
  match trials_for_crossings, model_min_trials with
  | Some t, Some m => Some (Z.max m (Z.of_nat t))
  | _, _ => None
  end.

(** The crossing-weight loop of [_create] (not run in REPEAT mode):
      w = ((num_trials // sustain[i]) - preamble[i] + size[i] - 1) // size[i]
    over [range(len(crossings))], indexing the sustain counts passed to [_create]. *)
Inductive wres := WOk (ws : list Z) | WErrEqual | WErrDiv | WErrIndex.

Fixpoint weights_loop (eq : bool) (T : Z) (n : nat) (sus pres sizes : list nat) (ws : list Z) : wres :=
  match n with
  | O => WOk ws
  | S n' =>
    match sus, pres, sizes, ws with
    | su :: sus', p :: pres', s :: sizes', w0 :: ws' =>
      if (su =? 0) || (s =? 0) then WErrDiv
      else
        let w := ((T / Z.of_nat su - Z.of_nat p + Z.of_nat s - 1) / Z.of_nat s)%Z in
        if (w =? w0)%Z then
          match weights_loop eq T n' sus' pres' sizes' ws' with WOk r => WOk (w0 :: r) | e => e end
        else if eq then WErrEqual
        else match weights_loop eq T n' sus' pres' sizes' ws' with WOk r => WOk (w :: r) | e => e end
    | _, _, _, _ => WErrIndex
    end
  end.

Definition model_weights (mode : rmode) (T : Z) (ws0 : list Z) : wres :=
  match mode with
  | MRepeat => WOk ws0
  | MWeight => weights_loop false T (length (fl_crossings fb)) (fl_sustains fb) (fl_preambles fb) (fl_sizes fb) ws0
  | MEqual => weights_loop true T (length (fl_crossings fb)) (fl_sustains fb) (fl_preambles fb) (fl_sizes fb) ws0
  end.

(** [crossing_size_without_exclusions(c)]: product of the level-weight sums. *)
Definition level_weight_sum (f : nat) : nat :=
  match factor_at fb f with
  | Some fd => fold_left (fun a l => a + lv_weight l) (ff_levels fd) 0
  | None => 0
  end.
Definition crossing_size_no_excl (c : list nat) : nat := fold_left (fun a f => a * level_weight_sum f) c 1.

(** [preamble_size(c)] for the i-th crossing and [common_preamble_size()] *)
Definition preamble_size_at (i : nat) : option nat :=
  match fl_alignment fb with
  | PostPreamble => Some (post_preamble_size fb)
  | _ => nth_error (fl_preambles fb) i
  end.
Definition common_preamble : option nat :=
  match fl_crossings fb with [] => Some 0 | _ => preamble_size_at 0 end.

(** [get_geometry(sustain_count)] as (num_trials, preamble_size); the sustain map
    is [factor_to_sustain_count] scaled the same way. *)
Definition model_geometry (sc : nat) : option (nat * nat) :=
  option_map (fun p => (fl_trials fb * Nat.max 1 sc, p * Nat.max 1 sc)) common_preamble.

End Trials.
