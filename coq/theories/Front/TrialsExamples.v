(** Concrete flat records used by the [Example]s of Properties/C16.v and C25.v. *)
From Coq Require Import ZArith List Bool Arith Lia String.
From SP Require Import Design.Flat Design.Layout Front.Trials Front.TrialsProofs.
Import ListNotations.
Open Scope string_scope.

Definition lv (n : string) : flevel := {| lv_name := n; lv_weight := 1; lv_accepts := [] |}.
Definition simple2 (n a b : string) : ffactor :=
  {| ff_name := n; ff_hidden := false; ff_levels := [lv a; lv b]; ff_window := None; ff_complex := false |}.
Definition trans_on (n : string) (dep : nat) : ffactor :=
  {| ff_name := n; ff_hidden := false; ff_levels := [lv "same"; lv "diff"];
     ff_window := Some {| win_deps := [dep]; win_width := 2; win_stride := 1; win_start := 1; win_start_delta := 0%Z |};
     ff_complex := true |}.

(** The trial arithmetic of
    Nest(MultiCrossBlock([o, t], [[o, t]], [], alignment=PARALLEL_START), CrossBlock([i], [i], []), [MinimumTrials(11)])
    with o, i two-level factors and t a transition factor on o: the outer crossing
    (4 combinations, sustained over the 2 inner trials, one preamble group) needs
    1*2 + 8 = 10 trials, the inner crossing 2; MinimumTrials(11) is rounded to 12. *)
Definition ex_nest : flat :=
  {| fl_design := [simple2 "o" "a" "b"; simple2 "i" "x" "y"; trans_on "t" 0];
     fl_act := [0; 1; 2];
     fl_crossings := [[0; 2]; [1]];
     fl_sustains := [2; 1];
     fl_weights := [1; 1];
     fl_sizes := [8; 2];
     fl_preambles := [2; 0];
     fl_alignment := ParallelStart;
     fl_alignment_preamble := 1;
     fl_min_trials := 12;
     fl_trials := 12;
     fl_rcc := true;
     fl_exclude := [];
     fl_excluded_derived := [];
     fl_constraints := [FCross; FConsistency; FMinimumTrials 11; FSustain];
     fl_errors_fail := false |}.

Lemma ex_nest_wf : wf_trials ex_nest.
Proof.
  split; [reflexivity|split].
  - repeat constructor.
  - constructor; [|constructor; [|constructor]].
    + split; [discriminate | split; [vm_compute; lia | intros f [<-|[<-|[]]]; split; reflexivity]].
    + split; [discriminate | split; [vm_compute; lia | intros f [<-|[]]; split; reflexivity]].
Qed.

(** the same block under POST_PREAMBLE *)
Definition ex_nest_post : flat :=
  {| fl_design := fl_design ex_nest; fl_act := fl_act ex_nest; fl_crossings := fl_crossings ex_nest;
     fl_sustains := fl_sustains ex_nest; fl_weights := fl_weights ex_nest; fl_sizes := fl_sizes ex_nest;
     fl_preambles := fl_preambles ex_nest; fl_alignment := PostPreamble; fl_alignment_preamble := 1;
     fl_min_trials := 12; fl_trials := 12; fl_rcc := true; fl_exclude := []; fl_excluded_derived := [];
     fl_constraints := fl_constraints ex_nest; fl_errors_fail := false |}.

Lemma ex_nest_post_wf : wf_trials ex_nest_post.
Proof.
  split; [reflexivity|split].
  - repeat constructor.
  - constructor; [|constructor; [|constructor]].
    + split; [discriminate | split; [vm_compute; lia | intros f [<-|[<-|[]]]; split; reflexivity]].
    + split; [discriminate | split; [vm_compute; lia | intros f [<-|[]]; split; reflexivity]].
Qed.
