(** Proofs about Front/Trials.v (the model is not changed here). *)
From Coq Require Import ZArith List Bool Arith Lia.
From SP Require Import Design.Flat Design.Layout Front.Trials Front.TrialsWf.
Import ListNotations.

(** * [trials_required]: closed form *)

Section Loop.
Variable fb : flat.
Variable f : nat.
Variable s : nat.                       (* trials before the factor first applies *)
Hypothesis applies_spec : forall t, applies_at fb f (S t) = (s <? S t).

Lemma tr_loop_closed : forall size fuel trial counter,
  0 < size -> counter = trial - s -> trial <= s + size -> s + size - trial < fuel ->
  tr_loop fb fuel f size trial counter = Some (s + size).
Proof.
  intros size fuel. induction fuel as [|fuel IH]; intros trial counter Hsz Hc Hle Hfuel.
  - lia.
  - cbn [tr_loop]. destruct (counter =? size) eqn:E.
    + apply Nat.eqb_eq in E. f_equal. lia.
    + apply Nat.eqb_neq in E. apply IH; try lia.
      rewrite applies_spec. destruct (s <? S trial) eqn:E2.
      * apply Nat.ltb_lt in E2. lia.
      * apply Nat.ltb_ge in E2. lia.
Qed.
End Loop.

Lemma applies_at_derived : forall fb f fd w t,
  factor_at fb f = Some fd -> ff_window fd = Some w -> win_stride w = 1 -> 0 < sustain fb f ->
  applies_at fb f (S t) = (win_start w * sustain fb f <? S t).
Proof.
  intros fb f fd w t Hf Hw Hst Hsu. unfold applies_at, applies_to_trial. rewrite Hf, Hw, Hst.
  rewrite Nat.mod_1_r. cbn [Nat.eqb]. rewrite andb_true_r.
  set (su := sustain fb f) in *. set (st := win_start w).
  replace (S t - 1) with t by lia.
  destruct (st * su <? S t) eqn:E.
  - apply Nat.ltb_lt in E. apply Nat.leb_le.
    assert (st <= t / su). { apply Nat.div_le_lower_bound; lia. } lia.
  - apply Nat.ltb_ge in E. apply Nat.leb_gt.
    assert (t / su < st). { apply Nat.div_lt_upper_bound; lia. }
    lia.
Qed.

Definition not_derived (fb : flat) (f : nat) : Prop :=
  factor_at fb f = None \/ exists fd, factor_at fb f = Some fd /\ ff_window fd = None.

Lemma applies_at_simple : forall fb f t, not_derived fb f -> applies_at fb f t = true.
Proof.
  intros fb f t H. unfold applies_at, applies_to_trial.
  destruct H as [H | [fd [H1 H2]]]; [rewrite H | rewrite H1, H2]; reflexivity.
Qed.

(** A derived factor with stride 1, window start [s] and sustain count [su]:
    the loop returns [s*su + size] for every positive crossing size. *)
Theorem trials_required_derived : forall fb f fd w size,
  factor_at fb f = Some fd -> ff_window fd = Some w -> win_stride w = 1 ->
  0 < sustain fb f -> 0 < size ->
  trials_required fb f size = Some (win_start w * sustain fb f + size).
Proof.
  intros fb f fd w size Hf Hw Hst Hsu Hsz. unfold trials_required.
  destruct (sustain fb f =? 0) eqn:E. { apply Nat.eqb_eq in E. lia. }
  apply tr_loop_closed; try lia.
  - intro t. eapply applies_at_derived; eauto.
  - unfold tr_fuel, fstart, fstride. rewrite Hf, Hw, Hst.
    set (su := sustain fb f) in *. nia.
Qed.

(** A non-derived factor: the crossing size itself (also for size 0). *)
Theorem trials_required_simple : forall fb f size,
  not_derived fb f -> 0 < sustain fb f -> trials_required fb f size = Some size.
Proof.
  intros fb f size H Hsu. unfold trials_required.
  destruct (sustain fb f =? 0) eqn:E. { apply Nat.eqb_eq in E. lia. }
  destruct size as [|size]. { reflexivity. }
  apply (tr_loop_closed fb f 0) with (size := S size); try lia.
  - intro t. rewrite applies_at_simple by assumption. reflexivity.
  - unfold tr_fuel, fstart, fstride.
    destruct H as [H | [fd [H1 H2]]]; [rewrite H | rewrite H1, H2]; set (su := sustain fb f) in *; nia.
Qed.

(** Both cases in one statement: [fstart] is the window start (0 for a non-derived factor). *)

Theorem trials_required_closed : forall fb f size,
  stride1 fb f -> 0 < sustain fb f -> 0 < size ->
  trials_required fb f size = Some (fstart fb f * sustain fb f + size).
Proof.
  intros fb f size Hst Hsu Hsz. unfold stride1, fstride in Hst. unfold fstart.
  destruct (factor_at fb f) as [fd|] eqn:Hf.
  - destruct (ff_window fd) as [w|] eqn:Hw.
    + eapply trials_required_derived; eauto.
    + rewrite trials_required_simple; [f_equal; lia | right; eauto | assumption].
  - rewrite trials_required_simple; [f_equal; lia | left; auto | assumption].
Qed.

(** * Lists: [max_list], [all_some] *)

Lemma fold_max_ge_acc : forall l a, a <= fold_left Nat.max l a.
Proof. induction l as [|x l IH]; intro a; cbn; [lia|]. specialize (IH (Nat.max a x)). lia. Qed.

Lemma fold_max_acc : forall l a, fold_left Nat.max l a = Nat.max a (fold_left Nat.max l 0).
Proof.
  induction l as [|x l IH]; intro a; cbn; [lia|].
  rewrite (IH (Nat.max a x)), (IH x). lia.
Qed.

Lemma max_list_cons : forall x l, max_list (x :: l) = Nat.max x (max_list l).
Proof. intros. unfold max_list. cbn. apply fold_max_acc. Qed.

Lemma max_list_ge : forall l x, In x l -> x <= max_list l.
Proof.
  induction l as [|y l IH]; intros x H; [destruct H|].
  rewrite max_list_cons. destruct H as [->|H]; [lia|]. specialize (IH _ H). lia.
Qed.

Lemma max_list_map_add : forall (l : list nat) k, l <> [] -> max_list (map (fun x => x + k) l) = max_list l + k.
Proof.
  induction l as [|x l IH]; intros k Hne; [congruence|].
  destruct l as [|y l].
  - unfold max_list. cbn. lia.
  - change (map (fun x0 => x0 + k) (x :: y :: l)) with ((x + k) :: map (fun x0 => x0 + k) (y :: l)).
    rewrite !max_list_cons with (x := x + k), max_list_cons with (x := x). rewrite IH by discriminate. lia.
Qed.

Lemma max_list_map_mul : forall (l : list nat) k, max_list (map (fun x => x * k) l) = max_list l * k.
Proof.
  induction l as [|x l IH]; intro k; [reflexivity|].
  cbn [map]. rewrite !max_list_cons, IH. nia.
Qed.

Lemma all_some_map_some : forall {A B} (g : A -> B) (h : A -> option B) (l : list A),
  (forall x, In x l -> h x = Some (g x)) -> all_some (map h l) = Some (map g l).
Proof.
  intros A B g h l. induction l as [|x l IH]; intro H; [reflexivity|].
  cbn [map all_some]. rewrite (H x (or_introl eq_refl)). rewrite IH by (intros; apply H; right; assumption).
  reflexivity.
Qed.

(** * One crossing *)

(** every factor of the crossing has stride 1 and the crossing's (positive) sustain count *)
Definition wf_crossing (fb : flat) (c : list nat) : Prop :=
  c <> [] /\ 0 < csustain fb c /\ forall f, In f c -> stride1 fb f /\ sustain fb f = csustain fb c.

Lemma trials_for_one_crossing_closed : forall fb c S,
  wf_crossing fb c -> 0 < S -> trials_for_one_crossing fb c S = Some (crossing_need fb c S).
Proof.
  intros fb c S [Hne [Hsu Hall]] HS. unfold trials_for_one_crossing.
  rewrite (all_some_map_some (fun f => fstart fb f * csustain fb c + S)).
  - cbn [option_map]. f_equal. unfold crossing_need, cstart.
    rewrite <- (map_map (fun f => fstart fb f * csustain fb c) (fun x => x + S)).
    rewrite max_list_map_add by (destruct c; [congruence|discriminate]).
    rewrite <- (map_map (fstart fb) (fun x => x * csustain fb c)).
    rewrite max_list_map_mul. reflexivity.
  - intros f Hin. destruct (Hall f Hin) as [H1 H2].
    rewrite trials_required_closed by (try assumption; lia). rewrite H2. reflexivity.
Qed.

(** * The whole block *)

(** well-formedness of the crossing data of a flat record: one positive size per
    crossing, every crossing well-formed *)
Definition wf_trials (fb : flat) : Prop :=
  length (fl_sizes fb) = length (fl_crossings fb) /\
  Forall (fun S => 0 < S) (fl_sizes fb) /\
  Forall (wf_crossing fb) (fl_crossings fb).

(** the executable well-formedness check of Front/TrialsWf.v implies [wf_trials] *)
Lemma wf_trials_b_sound : forall fb, wf_trials_b fb = true -> wf_trials fb.
Proof.
  intros fb H. unfold wf_trials_b in H. apply andb_prop in H. destruct H as [H H3].
  apply andb_prop in H. destruct H as [H1 H2].
  split; [|split].
  - apply Nat.eqb_eq in H1. exact H1.
  - apply Forall_forall. intros S HS. rewrite forallb_forall in H2. apply Nat.ltb_lt. apply H2. exact HS.
  - apply Forall_forall. intros c Hc. rewrite forallb_forall in H3. specialize (H3 c Hc).
    unfold wf_crossing_b in H3. apply andb_prop in H3. destruct H3 as [H3 H6].
    apply andb_prop in H3. destruct H3 as [H4 H5].
    split; [|split].
    + destruct c; [discriminate|discriminate].
    + apply Nat.ltb_lt. exact H5.
    + intros f Hf. rewrite forallb_forall in H6. specialize (H6 f Hf).
      apply andb_prop in H6. destruct H6 as [H7 H8]. split.
      * apply Nat.eqb_eq. exact H7.
      * apply Nat.eqb_eq. exact H8.
Qed.

Lemma Forall_combine : forall {A B} (P : A -> Prop) (Q : B -> Prop) (l : list A) (m : list B),
  Forall P l -> Forall Q m -> forall x, In x (combine l m) -> P (fst x) /\ Q (snd x).
Proof.
  intros A B P Q l. induction l as [|a l IH]; intros m Hl Hm x Hin; [destruct Hin|].
  destruct m as [|b m]; [destruct Hin|]. inversion Hl; inversion Hm; subst.
  destruct Hin as [<-|Hin]; [split; assumption|]. eapply IH; eauto.
Qed.

Theorem trials_for_crossings_own : forall fb,
  wf_trials fb -> fl_alignment fb <> PostPreamble ->
  trials_for_crossings fb = Some (doc_need_own fb).
Proof.
  intros fb [Hlen [Hs Hc]] Hal. unfold trials_for_crossings, doc_need_own.
  rewrite (all_some_map_some (fun cs => crossing_need fb (fst cs) (snd cs))).
  - destruct (fl_alignment fb); [congruence|reflexivity|reflexivity].
  - intros x Hin. destruct (Forall_combine _ _ _ _ Hc Hs x Hin) as [H1 H2].
    apply trials_for_one_crossing_closed; assumption.
Qed.

Theorem trials_for_crossings_post : forall fb,
  wf_trials fb -> fl_alignment fb = PostPreamble -> fl_crossings fb <> [] ->
  trials_for_crossings fb = Some (doc_need_post fb).
Proof.
  intros fb [Hlen [Hs Hc]] Hal Hne. unfold trials_for_crossings, doc_need_post. rewrite Hal.
  destruct (fl_crossings fb) as [|c0 cs] eqn:E; [congruence|].
  rewrite (all_some_map_some (fun c => crossing_need fb c (max_list (fl_sizes fb)))).
  - reflexivity.
  - intros c Hin. apply trials_for_one_crossing_closed.
    + rewrite Forall_forall in Hc. apply Hc. assumption.
    + destruct (fl_sizes fb) as [|S0 Ss]; [cbn in Hlen; discriminate|].
      inversion Hs; subst. rewrite max_list_cons. lia.
Qed.

Theorem model_trials_own : forall fb m,
  wf_trials fb -> fl_alignment fb <> PostPreamble -> model_min_trials fb = Some m ->
  model_trials fb = Some (Z.max m (Z.of_nat (doc_need_own fb))).
Proof.
  intros fb m Hwf Hal Hm. unfold model_trials. rewrite trials_for_crossings_own, Hm by assumption. reflexivity.
Qed.

Theorem model_trials_post : forall fb m,
  wf_trials fb -> fl_alignment fb = PostPreamble -> fl_crossings fb <> [] -> model_min_trials fb = Some m ->
  model_trials fb = Some (Z.max m (Z.of_nat (doc_need_post fb))).
Proof.
  intros fb m Hwf Hal Hne Hm. unfold model_trials. rewrite trials_for_crossings_post, Hm by assumption. reflexivity.
Qed.

(** preamble sizes: [cstart * sustain] trials per crossing *)
Theorem model_preambles_closed : forall fb,
  wf_trials fb ->
  model_preambles fb = Some (map (fun c => cstart fb c * csustain fb c) (map fst (combine (fl_crossings fb) (fl_sizes fb)))).
Proof.
  intros fb [Hlen [Hs Hc]]. unfold model_preambles. rewrite map_map.
  apply all_some_map_some. intros x Hin.
  destruct (Forall_combine _ _ _ _ Hc Hs x Hin) as [H1 H2].
  rewrite trials_for_one_crossing_closed by assumption. cbn [option_map]. unfold crossing_need. f_equal. lia.
Qed.

(** * [MinimumTrials] *)

Open Scope Z_scope.

Lemma round_to_ge : forall m c r, round_to (Some m) c = Some r -> m <= r.
Proof.
  intros m c r. unfold round_to. destruct (Z.of_nat c =? 0) eqn:E; [discriminate|].
  apply Z.eqb_neq in E. assert (Hc : 0 < Z.of_nat c) by lia.
  destruct (m / Z.of_nat c * Z.of_nat c =? m) eqn:E2; intro H; inversion H; subst; [lia|].
  pose proof (Z.mul_succ_div_gt m (Z.of_nat c) Hc). nia.
Qed.

Lemma round_to_none : forall l, fold_left round_to l None = None.
Proof. induction l; cbn; auto. Qed.

Lemma round_fold_ge : forall l m r, fold_left round_to l (Some m) = Some r -> m <= r.
Proof.
  induction l as [|c l IH]; intros m r H; cbn [fold_left] in H.
  - inversion H. lia.
  - destruct (round_to (Some m) c) as [m'|] eqn:E.
    + apply round_to_ge in E. apply IH in H. lia.
    + rewrite round_to_none in H. discriminate.
Qed.

(** the rounded minimum is a multiple of the last sustain count *)
Lemma round_to_multiple : forall m c r, round_to (Some m) c = Some r -> (Z.of_nat c | r).
Proof.
  intros m c r. unfold round_to. destruct (Z.of_nat c =? 0) eqn:E; [discriminate|].
  destruct (m / Z.of_nat c * Z.of_nat c =? m) eqn:E2; intro H; inversion H; subst.
  - apply Z.eqb_eq in E2. exists (r / Z.of_nat c). lia.
  - exists (m / Z.of_nat c + 1). reflexivity.
Qed.

Definition min_step (m : Z) (c : fconstraint) : Z :=
  match c with FMinimumTrials n => if m =? 0 then n else Z.max m n | _ => m end.

Lemma min_fold_mono : forall cs m, 0 < m -> m <= fold_left min_step cs m.
Proof.
  induction cs as [|c cs IH]; intros m Hm; cbn; [lia|].
  assert (H : m <= min_step m c /\ 0 < min_step m c).
  { unfold min_step. destruct c; try lia. destruct (m =? 0) eqn:E; [apply Z.eqb_eq in E; lia|lia]. }
  destruct H as [H1 H2]. specialize (IH _ H2). lia.
Qed.

Lemma min_fold_ge : forall cs m n, In (FMinimumTrials n) cs -> 0 < n -> n <= fold_left min_step cs m.
Proof.
  induction cs as [|c cs IH]; intros m n Hin Hn; [destruct Hin|].
  cbn. destruct Hin as [->|Hin].
  - assert (H : n <= min_step m (FMinimumTrials n) /\ 0 < min_step m (FMinimumTrials n)).
    { cbn. destruct (m =? 0); lia. }
    destruct H as [H1 H2]. pose proof (min_fold_mono cs _ H2). lia.
  - apply IH; assumption.
Qed.

Lemma min_trials_raw_ge : forall fb n, In (FMinimumTrials n) (fl_constraints fb) -> 0 < n -> n <= min_trials_raw fb.
Proof. intros fb n. unfold min_trials_raw. apply (min_fold_ge (fl_constraints fb) 0 n). Qed.

Close Scope Z_scope.
Lemma trials_for_crossings_ge1 : forall fb t, trials_for_crossings fb = Some t -> 1 <= t.
Proof.
  intros fb t Et. unfold trials_for_crossings in Et.
  destruct (fl_alignment fb); [destruct (fl_crossings fb); [discriminate|]| |];
    match type of Et with option_map _ ?x = _ => destruct x; [|discriminate] end;
    cbn [option_map] in Et;
    match type of Et with Some (Nat.max 1 ?x) = Some _ =>
      pose proof (Nat.le_max_l 1 x) as Hx; assert (Heq : Nat.max 1 x = t) by congruence; rewrite <- Heq; exact Hx end.
Qed.
Open Scope Z_scope.

(** the reported trial count is at least every (positive) MinimumTrials, at
    least the rounded minimum, and at least what the crossings need *)
Theorem model_trials_ge_min : forall fb T,
  model_trials fb = Some T ->
  (forall n, In (FMinimumTrials n) (fl_constraints fb) -> 0 < n -> n <= T) /\
  (exists m, model_min_trials fb = Some m /\ min_trials_raw fb <= m /\ m <= T) /\
  (exists t, trials_for_crossings fb = Some t /\ Z.of_nat t <= T /\ 1 <= T).
Proof.
  intros fb T H. unfold model_trials in H.
  destruct (trials_for_crossings fb) as [t|] eqn:Et; [|discriminate].
  destruct (model_min_trials fb) as [m|] eqn:Em; [|discriminate].
  inversion H; subst. clear H.
  assert (Hr : min_trials_raw fb <= m) by (apply (round_fold_ge (fl_sustains fb)); exact Em).
  assert (Ht : (1 <= t)%nat) by (eapply trials_for_crossings_ge1; eauto).
  split; [|split].
  - intros n Hin Hn. pose proof (min_trials_raw_ge fb n Hin Hn). lia.
  - exists m. repeat split; try assumption; lia.
  - exists t. repeat split; lia.
Qed.

Close Scope Z_scope.

(** * Crossing weights *)

(** in REPEAT mode the weights handed to [_create] are kept *)
Lemma model_weights_repeat : forall fb T ws, model_weights fb MRepeat T ws = WOk ws.
Proof. reflexivity. Qed.

(** A block with one crossing and no [MinimumTrials] (what [CrossBlock(design, c, [], rcc)]
    builds) keeps weight 1 in WEIGHT mode: T = preamble + size. *)
Lemma single_crossing_weight_one : forall fb c S su p T,
  fl_crossings fb = [c] -> fl_sizes fb = [S] -> fl_sustains fb = [su] -> fl_preambles fb = [p] ->
  0 < S -> su = 1 -> T = Z.of_nat (p + S) ->
  model_weights fb MWeight T [1%Z] = WOk [1%Z].
Proof.
  intros fb c S su p T Hc Hs Hsu Hp HS Hsu1 HT. unfold model_weights. rewrite Hc, Hs, Hsu, Hp. subst su.
  cbn [length weights_loop]. destruct (S =? 0) eqn:E; [apply Nat.eqb_eq in E; lia|]. cbn [Nat.eqb orb].
  replace ((T / Z.of_nat 1 - Z.of_nat p + Z.of_nat S - 1) / Z.of_nat S)%Z with 1%Z.
  - reflexivity.
  - subst T. rewrite Z.div_1_r. apply Z.div_unique with (r := (Z.of_nat S - 1)%Z); lia.
Qed.
