(** Specification-side definitions for the trial-count theorems
    (Front/TrialsProofs.v, Properties/C16.v) and an executable well-formedness
    check of the crossing data of a flat record, run by the harness on the flat
    record of every accepted design. *)
From Coq Require Import ZArith List Bool Arith.
From SP Require Import Design.Flat Design.Layout Front.Trials.
Import ListNotations.

Definition stride1 (fb : flat) (f : nat) : Prop := fstride fb f = 1.

(** [crossing_sustain_count(c)]: the sustain count of the crossing's first factor. *)
Definition csustain (fb : flat) (c : list nat) : nat :=
  match c with f :: _ => sustain fb f | [] => 1 end.

(** preamble of a crossing in sustain groups: the latest window start among its factors *)
Definition cstart (fb : flat) (c : list nat) : nat := max_list (map (fstart fb) c).

(** trials a crossing of size [S] needs: its preamble groups times the sustain count, plus [S] *)
Definition crossing_need (fb : flat) (c : list nat) (S : nat) : nat := cstart fb c * csustain fb c + S.


(** the documented trial count before [MinimumTrials]:
    each crossing measured with its own size ... *)
Definition doc_need_own (fb : flat) : nat :=
  Nat.max 1 (max_list (map (fun cs => crossing_need fb (fst cs) (snd cs)) (combine (fl_crossings fb) (fl_sizes fb)))).
(** ... or, under POST_PREAMBLE, with the largest crossing size *)
Definition doc_need_post (fb : flat) : nat :=
  Nat.max 1 (max_list (map (fun c => crossing_need fb c (max_list (fl_sizes fb))) (fl_crossings fb))).


Definition nonempty_b (c : list nat) : bool := match c with [] => false | _ => true end.

Definition wf_crossing_b (fb : flat) (c : list nat) : bool :=
  nonempty_b c && (0 <? csustain fb c)
  && forallb (fun f => (fstride fb f =? 1) && (sustain fb f =? csustain fb c)) c.

Definition wf_trials_b (fb : flat) : bool :=
  (length (fl_sizes fb) =? length (fl_crossings fb))
  && forallb (fun S => 0 <? S) (fl_sizes fb)
  && forallb (wf_crossing_b fb) (fl_crossings fb).
