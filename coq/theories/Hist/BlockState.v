(** Abstract state of a constructed block and the effect of the seven public
    library calls on it (property C19).  Executable definitions only; proofs
    are in Hist/BlockStateProofs.v.

    Anchors (sweetpea/_internal): main.py [synthesize_trials], [print_experiments],
    [tabulate_experiments], [save_experiments_csv], [experiments_to_tuples],
    [experiments_to_dicts], [sample_mismatch_experiment]; block.py
    [restore_continuous], [sample_continuous], [_get_previous_trials_variable_count],
    [decode_variable], [show_errors]; cross_block.py [trials_per_sample],
    [variables_per_trial], [__count_exclusions]; sampling_strategy/*.

    The state holds exactly the attributes of the block object those calls can
    reach: the design lists and the caches.  What a call does is written as reads
    and writes of these fields, so that a call that wrote [st_design] (as
    [print_experiments] did before /repo commit c13bbfb through
    [restore_continuous]) would change the columns of every later synthesis.

    Which of the idempotent caches a strategy happens to touch, how many
    experiments the solver returned and which (factor, trial) variable numbers
    were requested are facts of the run, not of the block: they are parameters of
    the operation (the correspondence harness observes them on the real run, the
    theorems quantify over all of them).

    The trial count and the messages of [__count_exclusions] are functions of the
    design that are modelled elsewhere (Design/Layout.v, Design/Flat.v); here they
    are the section parameters [tps_fn] and [excl_fn]. *)
From Coq Require Import ZArith List Bool String Ascii.
Import ListNotations.
Open Scope Z_scope.

(** One discrete factor of [block.design] (after weight desugaring). *)
Record fdesc := {
  fd_name : string;       (* str(name); hidden names are prefixed by the harness *)
  fd_hidden : bool;       (* isinstance(name, HiddenName) *)
  fd_nlevels : Z;
  fd_complex : bool;      (* has_complex_window *)
  fd_start : Z;           (* window.start of a derived factor, 0 otherwise *)
  fd_stride : Z;          (* window.stride of a derived factor, 1 otherwise *)
  fd_sustain : Z;         (* block.sustain_count(f) *)
  fd_active : bool        (* f in block.act_design *)
}.

Definition prev_cache := list ((string * Z) * Z).

Record bstate := {
  st_design : list fdesc;             (* block.design *)
  st_orig_design : list (string * bool);  (* block.orig_design: (name, hidden) incl. continuous factors *)
  st_cont : list string;              (* block.continuous_factors *)
  st_crossings : list (list string);  (* block.crossings *)
  st_constraints : list Z;            (* block.constraints, by object identity *)
  st_min_trials : Z;                  (* block.min_trials *)
  st_tps : option Z;                  (* block._trials_per_sample *)
  st_vpt : option Z;                  (* block._variables_per_trial *)
  st_simple : option (list (string * Z));   (* block._simple_tuples: (factor, level index) *)
  st_prev : prev_cache;               (* block._cached_previous_count *)
  st_cfs : list (Z * list string);    (* block.continuous_factor_samples: experiment number -> sampled factors *)
  st_errors : list string;            (* block.errors (a set) *)
  st_dist_used : list string          (* continuous factors whose distribution object was sampled
                                         (CustomDistribution.sum is reset, then accumulated) *)
}.

(** The attribute writes this model declares, as (class family, attribute);
    compared with the write-set computed from the source by harness/writeset.py. *)
Definition declared_writes : list (string * string) :=
  [("Block", "_trials_per_sample"); ("Block", "_variables_per_trial"); ("Block", "_simple_tuples");
   ("Block", "_cached_previous_count"); ("Block", "continuous_factor_samples"); ("Block", "errors");
   ("Distribution", "sum")]%string.

Inductive strategy := SSat | SRandom | SSM.

Inductive op :=
| Synth (st : strategy) (raises : bool) (returned : nat) (touch_vpt touch_simple : bool)
        (reqs : list (string * Z))
| Print | Tabulate | SaveCsv | ToTuples | ToDicts
| Mismatch (raises : bool) (touch_vpt : bool) (reqs : list (string * Z)).

Inductive out :=
| OUnit
| ORaise
| ORefused                              (* show_errors(): the strategy returns no experiments *)
| OCols (n : nat) (cols : list string)  (* n experiments with these columns *)
| OKeys (keys : list string).           (* the columns a conversion writes *)

(* ------------------------------------------------------------------ pure functions the caches memoise *)

(** [Factor.applies_to_trial] (1-based trial number). *)
Definition applies (fd : fdesc) (n : Z) : bool :=
  (fd_start fd + 1 <=? n) && ((n - (fd_start fd + 1)) mod fd_stride fd =? 0).

(** number of trials 1..n to which the factor applies, sustain taken into account *)
Fixpoint prev_count (fd : fdesc) (n : nat) : Z :=
  match n with
  | O => 0
  | S k => prev_count fd k + (if applies fd ((Z.of_nat k) / fd_sustain fd + 1) then 1 else 0)
  end.

(** what [_get_previous_trials_variable_count(f, t)] returns *)
Definition prev_pure (fd : fdesc) (t : Z) : Z := prev_count fd (Z.to_nat (t - 1)).

Definition grid_factor (fd : fdesc) : bool := fd_active fd && negb (fd_complex fd).

(** [variables_per_trial] *)
Definition vpt_pure (d : list fdesc) : Z :=
  fold_right (fun fd acc => if grid_factor fd then fd_nlevels fd + acc else acc) 0 d.

Fixpoint zrange (n : nat) : list Z :=
  match n with O => [] | S k => zrange k ++ [Z.of_nat k] end.

(** [get_all_levels] of the non-complex active factors ([decode_variable]) *)
Definition simple_pure (d : list fdesc) : list (string * Z) :=
  flat_map (fun fd => if grid_factor fd then map (fun l => (fd_name fd, l)) (zrange (Z.to_nat (fd_nlevels fd))) else []) d.

(** names a synthesis returns: visible design factors, then the continuous factors *)
Definition visible_names (d : list fdesc) : list string :=
  map fd_name (filter (fun fd => negb (fd_hidden fd)) d).

Definition conv_keys (od : list (string * bool)) : list string :=
  map fst (filter (fun p => negb (snd p)) od).

(* ------------------------------------------------------------------ helpers mirroring Python *)

Definition truthy (c : option Z) : bool := match c with Some v => negb (v =? 0) | None => false end.

(** [if self._x: return self._x; self._x = pure; return self._x] *)
Definition memo (c : option Z) (pure : Z) : option Z := if truthy c then c else Some pure.

Definition memo_list {A} (c : option (list A)) (pure : list A) : option (list A) :=
  match c with Some (_ :: _) => c | _ => Some pure end.

Fixpoint lookup (c : prev_cache) (f : string) (t : Z) : option Z :=
  match c with
  | [] => None
  | ((g, u), n) :: r => if String.eqb f g && (t =? u) then Some n else lookup r f t
  end.

Fixpoint store (c : prev_cache) (f : string) (t n : Z) : prev_cache :=
  match c with
  | [] => [((f, t), n)]
  | ((g, u), m) :: r => if String.eqb f g && (t =? u) then ((g, u), n) :: r else ((g, u), m) :: store r f t n
  end.

Fixpoint find_factor (d : list fdesc) (f : string) : option fdesc :=
  match d with
  | [] => None
  | fd :: r => if String.eqb f (fd_name fd) then Some fd else find_factor r f
  end.

(** the walk back to trial 1 or to a cached trial; fuel exhaustion (trial < 1) is the Python endless loop *)
Fixpoint walk (c : prev_cache) (f : string) (fuel : nat) (t : Z) : option (Z * Z) :=
  if t =? 1 then Some (1, 0)
  else match lookup c f t with
       | Some n => Some (t, n)
       | None => match fuel with O => None | S k => walk c f k (t - 1) end
       end.

Fixpoint fill (c : prev_cache) (fd : fdesc) (fuel : nat) (t trial count : Z) : prev_cache * Z :=
  match fuel with
  | O => (c, count)
  | S k =>
    if t <? trial then
      let count' := if applies fd ((t - 1) / fd_sustain fd + 1) then count + 1 else count in
      fill (store c (fd_name fd) (t + 1) count') fd k (t + 1) trial count'
    else (c, count)
  end.

(** [_get_previous_trials_variable_count]: new cache and result; [None] = unknown factor or endless loop *)
Definition prev_request (d : list fdesc) (c : prev_cache) (f : string) (trial : Z) : option (prev_cache * Z) :=
  match find_factor d f with
  | None => None
  | Some fd =>
    match walk c f (Z.to_nat trial) trial with
    | None => None
    | Some (t, n) => Some (fill c fd (Z.to_nat trial) t trial n)
    end
  end.

Fixpoint prev_requests (d : list fdesc) (c : prev_cache) (reqs : list (string * Z)) : prev_cache :=
  match reqs with
  | [] => c
  | (f, t) :: r => match prev_request d c f t with
                   | Some (c', _) => prev_requests d c' r
                   | None => prev_requests d c r
                   end
  end.

Fixpoint has_prefix (p s : string) : bool :=
  match p, s with
  | EmptyString, _ => true
  | String a p', String b s' => Ascii.eqb a b && has_prefix p' s'
  | _, EmptyString => false
  end.

Fixpoint contains (p s : string) : bool :=
  has_prefix p s || match s with EmptyString => false | String _ s' => contains p s' end.

(** [show_errors]: fails iff some message is not a warning *)
Definition fatal (errs : list string) : bool := existsb (fun e => negb (contains "WARNING" e)) errs.

Definition add_err (e : string) (l : list string) : list string :=
  if existsb (String.eqb e) l then l else l ++ [e].

Definition add_errs (es l : list string) : list string := fold_left (fun acc e => add_err e acc) es l.

Fixpoint set_cfs (c : list (Z * list string)) (i : Z) (v : list string) : list (Z * list string) :=
  match c with
  | [] => [(i, v)]
  | (j, w) :: r => if i =? j then (j, v) :: r else (j, w) :: set_cfs r i v
  end.

Definition record_cfs (c : list (Z * list string)) (n : nat) (names : list string) : list (Z * list string) :=
  fold_left (fun acc i => set_cfs acc i names) (zrange n) c.

Definition union_names (a b : list string) : list string :=
  fold_left (fun acc e => add_err e acc) b a.

Section Model.
  (** trial count as a function of design, crossings and minimum trial count
      ([max([min_trials, _trials_per_sample_for_crossing()])]) *)
  Variable tps_fn : list fdesc -> list (list string) -> Z -> Z.
  (** the messages [__count_exclusions] adds, for all crossings of the block *)
  Variable excl_fn : list fdesc -> list (list string) -> list Z -> list string.

  Definition tps_pure (s : bstate) : Z := tps_fn (st_design s) (st_crossings s) (st_min_trials s).

  Definition set_tps (s : bstate) (v : option Z) : bstate :=
    {| st_design := st_design s; st_orig_design := st_orig_design s; st_cont := st_cont s;
       st_crossings := st_crossings s; st_constraints := st_constraints s; st_min_trials := st_min_trials s;
       st_tps := v; st_vpt := st_vpt s; st_simple := st_simple s; st_prev := st_prev s; st_cfs := st_cfs s;
       st_errors := st_errors s; st_dist_used := st_dist_used s |}.
  Definition set_vpt (s : bstate) (v : option Z) : bstate :=
    {| st_design := st_design s; st_orig_design := st_orig_design s; st_cont := st_cont s;
       st_crossings := st_crossings s; st_constraints := st_constraints s; st_min_trials := st_min_trials s;
       st_tps := st_tps s; st_vpt := v; st_simple := st_simple s; st_prev := st_prev s; st_cfs := st_cfs s;
       st_errors := st_errors s; st_dist_used := st_dist_used s |}.
  Definition set_simple (s : bstate) (v : option (list (string * Z))) : bstate :=
    {| st_design := st_design s; st_orig_design := st_orig_design s; st_cont := st_cont s;
       st_crossings := st_crossings s; st_constraints := st_constraints s; st_min_trials := st_min_trials s;
       st_tps := st_tps s; st_vpt := st_vpt s; st_simple := v; st_prev := st_prev s; st_cfs := st_cfs s;
       st_errors := st_errors s; st_dist_used := st_dist_used s |}.
  Definition set_prev (s : bstate) (v : prev_cache) : bstate :=
    {| st_design := st_design s; st_orig_design := st_orig_design s; st_cont := st_cont s;
       st_crossings := st_crossings s; st_constraints := st_constraints s; st_min_trials := st_min_trials s;
       st_tps := st_tps s; st_vpt := st_vpt s; st_simple := st_simple s; st_prev := v; st_cfs := st_cfs s;
       st_errors := st_errors s; st_dist_used := st_dist_used s |}.
  Definition set_cont_samples (s : bstate) (v : list (Z * list string)) (u : list string) : bstate :=
    {| st_design := st_design s; st_orig_design := st_orig_design s; st_cont := st_cont s;
       st_crossings := st_crossings s; st_constraints := st_constraints s; st_min_trials := st_min_trials s;
       st_tps := st_tps s; st_vpt := st_vpt s; st_simple := st_simple s; st_prev := st_prev s; st_cfs := v;
       st_errors := st_errors s; st_dist_used := u |}.
  Definition set_errors (s : bstate) (v : list string) : bstate :=
    {| st_design := st_design s; st_orig_design := st_orig_design s; st_cont := st_cont s;
       st_crossings := st_crossings s; st_constraints := st_constraints s; st_min_trials := st_min_trials s;
       st_tps := st_tps s; st_vpt := st_vpt s; st_simple := st_simple s; st_prev := st_prev s; st_cfs := st_cfs s;
       st_errors := v; st_dist_used := st_dist_used s |}.

  (** [block.trials_per_sample()] *)
  Definition touch_tps (s : bstate) : bstate := set_tps s (memo (st_tps s) (tps_pure s)).
  (** [block.variables_per_trial()] *)
  Definition touch_vpt (s : bstate) : bstate := set_vpt s (memo (st_vpt s) (vpt_pure (st_design s))).
  (** [block.decode_variable(v)] for a grid variable *)
  Definition touch_simple (s : bstate) : bstate := set_simple s (memo_list (st_simple s) (simple_pure (st_design s))).
  (** [block.crossing_size(c)] for every crossing: [__count_exclusions] re-adds its messages *)
  Definition count_exclusions (s : bstate) : bstate :=
    match st_crossings s with
    | [] => s
    | _ => set_errors s (add_errs (excl_fn (st_design s) (st_crossings s) (st_constraints s)) (st_errors s))
    end.
  Definition do_reqs (s : bstate) (reqs : list (string * Z)) : bstate :=
    set_prev s (prev_requests (st_design s) (st_prev s) reqs).
  Definition opt (b : bool) (f : bstate -> bstate) (s : bstate) : bstate := if b then f s else s.

  (** the tail of [synthesize_trials]: continuous factors are sampled per returned experiment *)
  Definition sample_continuous (s : bstate) (n : nat) : bstate :=
    match st_cont s, n with
    | [], _ => s
    | _, O => s
    | names, _ => set_cont_samples s (record_cfs (st_cfs s) n names) (union_names (st_dist_used s) names)
    end.

  Definition columns (s : bstate) : list string := visible_names (st_design s) ++ st_cont s.

  Definition synth (s : bstate) (st : strategy) (raises : bool) (returned : nat)
             (tv ts : bool) (reqs : list (string * Z)) : bstate * out :=
    (* every strategy asks for the trial count first *)
    let s1 := touch_tps s in
    (* formula-based strategies build the backend request before looking at the errors;
       RandomGen looks at the errors first; SMGen never looks *)
    let refused := match st with SSM => false | _ => fatal (st_errors s1) end in
    let s2 := match st with
              | SSat => do_reqs (opt tv touch_vpt (count_exclusions s1)) reqs
              | SRandom => if refused then s1 else do_reqs (opt tv touch_vpt (count_exclusions s1)) reqs
              | SSM => s1
              end in
    let refused2 := match st with SSat => fatal (st_errors s2) | SRandom => refused | SSM => false end in
    if raises then (s2, ORaise)
    else if refused2 then (s2, ORefused)
    else
      let s3 := opt ts touch_simple s2 in
      let s4 := sample_continuous s3 returned in
      (s4, OCols returned (columns s4)).

  Definition step (s : bstate) (o : op) : bstate * out :=
    match o with
    | Synth st raises returned tv ts reqs => synth s st raises returned tv ts reqs
    | Print => (s, OKeys (conv_keys (st_orig_design s)))
    | SaveCsv => (s, OKeys (conv_keys (st_orig_design s)))
    | ToTuples => (s, OKeys (conv_keys (st_orig_design s)))
    | ToDicts => (s, OKeys (conv_keys (st_orig_design s)))
    | Tabulate => match st_crossings s with
                  | [c] => (s, OKeys c)
                  | _ => (s, ORaise)
                  end
    | Mismatch raises tv reqs =>
      (do_reqs (opt tv touch_vpt (touch_tps s)) reqs, if raises then ORaise else OUnit)
    end.

  Definition run (ops : list op) (s : bstate) : bstate := fold_left (fun s o => fst (step s o)) ops s.

  Fixpoint trace (ops : list op) (s : bstate) : list (bstate * out) :=
    match ops with
    | [] => []
    | o :: r => let so := step s o in so :: trace r (fst so)
    end.
End Model.
