(** Proofs about Hist/BlockState.v (property C19): every public call preserves
    the design of the block and keeps every cache equal to the pure function it
    memoises; hence every later synthesis sees the same design, the same errors
    and returns the same columns. *)
From Coq Require Import ZArith List Bool String Lia.
From SP Require Import Hist.BlockState.
Import ListNotations.
Open Scope Z_scope.

(* ------------------------------------------------------------------ the caches *)

Definition cache_ok (c : option Z) (pure : Z) : Prop := c = None \/ c = Some pure.

Lemma memo_ok : forall c pure, cache_ok c pure -> cache_ok (memo c pure) pure.
Proof.
  intros c pure [H | H]; subst; unfold memo; cbn.
  - right; reflexivity.
  - destruct (negb (pure =? 0)); right; reflexivity.
Qed.

Definition list_cache_ok {A} (c : option (list A)) (pure : list A) : Prop := c = None \/ c = Some pure.

Lemma memo_list_ok : forall A (c : option (list A)) pure, list_cache_ok c pure -> list_cache_ok (memo_list c pure) pure.
Proof.
  intros A c pure [H | H]; subst; cbn.
  - right; reflexivity.
  - destruct pure; right; reflexivity.
Qed.

(** an entry of [_cached_previous_count] is right *)
Definition entry_ok (d : list fdesc) (e : (string * Z) * Z) : Prop :=
  exists fd, find_factor d (fst (fst e)) = Some fd /\ snd e = prev_pure fd (snd (fst e)) /\ 2 <= snd (fst e).

Definition prev_ok (d : list fdesc) (c : prev_cache) : Prop := Forall (entry_ok d) c.

Lemma lookup_ok : forall d c f t n, prev_ok d c -> lookup c f t = Some n ->
  exists fd, find_factor d f = Some fd /\ n = prev_pure fd t /\ 2 <= t.
Proof.
  intros d c f t n H; induction H as [| [[g u] m] r He Hr IH]; cbn; intro L.
  - discriminate.
  - destruct (String.eqb f g && (t =? u)) eqn:E.
    + apply andb_true_iff in E; destruct E as [E1 E2].
      apply String.eqb_eq in E1; apply Z.eqb_eq in E2; subst.
      inversion L; subst. destruct He as [fd [H1 [H2 H3]]]; cbn in *. exists fd; auto.
    + auto.
Qed.

Lemma store_ok : forall d c f t n, prev_ok d c -> entry_ok d ((f, t), n) -> prev_ok d (store c f t n).
Proof.
  intros d c f t n H He; induction H as [| [[g u] m] r Hx Hr IH]; cbn.
  - constructor; [exact He | constructor].
  - destruct (String.eqb f g && (t =? u)) eqn:E.
    + apply andb_true_iff in E; destruct E as [E1 E2].
      apply String.eqb_eq in E1; apply Z.eqb_eq in E2; subst.
      constructor; [exact He | exact Hr].
    + constructor; [exact Hx | exact IH].
Qed.

Lemma prev_pure_one : forall fd, prev_pure fd 1 = 0.
Proof. reflexivity. Qed.

Lemma prev_pure_succ : forall fd t, 1 <= t ->
  prev_pure fd (t + 1) = prev_pure fd t + (if applies fd ((t - 1) / fd_sustain fd + 1) then 1 else 0).
Proof.
  intros fd t Ht; unfold prev_pure.
  replace (t + 1 - 1) with t by lia.
  replace (Z.to_nat t) with (S (Z.to_nat (t - 1))) by lia.
  cbn [prev_count]. rewrite Z2Nat.id by lia. reflexivity.
Qed.

Lemma walk_ok : forall d c f fd fuel t t' n, prev_ok d c -> find_factor d f = Some fd ->
  walk c f fuel t = Some (t', n) -> n = prev_pure fd t' /\ 1 <= t'.
Proof.
  intros d c f fd fuel; induction fuel as [| k IH]; intros t t' n Hc Hf W; cbn in W.
  - destruct (t =? 1) eqn:E.
    + inversion W; subst; split; [reflexivity | lia].
    + destruct (lookup c f t) eqn:L; [| discriminate].
      inversion W; subst. destruct (lookup_ok _ _ _ _ _ Hc L) as [fd' [H1 [H2 H3]]].
      rewrite Hf in H1; inversion H1; subst; split; [reflexivity | lia].
  - destruct (t =? 1) eqn:E.
    + inversion W; subst; split; [reflexivity | lia].
    + destruct (lookup c f t) eqn:L.
      * inversion W; subst. destruct (lookup_ok _ _ _ _ _ Hc L) as [fd' [H1 [H2 H3]]].
        rewrite Hf in H1; inversion H1; subst; split; [reflexivity | lia].
      * eapply IH; eauto.
Qed.

Lemma fill_ok : forall d fd fuel c t trial count, prev_ok d c -> find_factor d (fd_name fd) = Some fd ->
  count = prev_pure fd t -> 1 <= t -> prev_ok d (fst (fill c fd fuel t trial count)).
Proof.
  intros d fd fuel; induction fuel as [| k IH]; intros c t trial count Hc Hf Hn Ht; cbn.
  - exact Hc.
  - destruct (t <? trial); [| exact Hc].
    apply IH; auto; [| | lia].
    + apply store_ok; [exact Hc |].
      exists fd; cbn; repeat split; [exact Hf | | lia].
      rewrite prev_pure_succ by lia. subst count.
      destruct (applies fd ((t - 1) / fd_sustain fd + 1)); lia.
    + rewrite prev_pure_succ by lia. subst count.
      destruct (applies fd ((t - 1) / fd_sustain fd + 1)); lia.
Qed.

Lemma find_factor_name : forall d f fd, find_factor d f = Some fd -> fd_name fd = f.
Proof.
  induction d as [| x r IH]; cbn; intros f fd H; [discriminate |].
  destruct (String.eqb f (fd_name x)) eqn:E.
  - inversion H; subst. apply String.eqb_eq in E; auto.
  - auto.
Qed.

Lemma prev_request_ok : forall d c f t c' n, prev_ok d c -> prev_request d c f t = Some (c', n) -> prev_ok d c'.
Proof.
  intros d c f t c' n Hc; unfold prev_request.
  destruct (find_factor d f) as [fd |] eqn:Hf; [| discriminate].
  destruct (walk c f (Z.to_nat t) t) as [[t0 n0] |] eqn:W; [| discriminate].
  intro Heq; injection Heq as Heq.
  destruct (walk_ok _ _ _ _ _ _ _ _ Hc Hf W) as [W1 W2].
  replace c' with (fst (fill c fd (Z.to_nat t) t0 t n0)) by (rewrite Heq; reflexivity).
  apply fill_ok; auto. rewrite (find_factor_name _ _ _ Hf); exact Hf.
Qed.

(** the value the real method returns is the pure count, whatever the cache held *)
Lemma fill_value : forall fd fuel c t trial count, count = prev_pure fd t -> 1 <= t -> t <= trial ->
  (Z.to_nat (trial - t) <= fuel)%nat -> snd (fill c fd fuel t trial count) = prev_pure fd trial.
Proof.
  intros fd fuel; induction fuel as [| k IH]; intros c t trial count Hn Ht Hle Hf; cbn.
  - assert (t = trial) by lia. subst; reflexivity.
  - destruct (t <? trial) eqn:E.
    + apply Z.ltb_lt in E. apply IH; try lia.
      rewrite prev_pure_succ by lia. subst count.
      destruct (applies fd ((t - 1) / fd_sustain fd + 1)); lia.
    + apply Z.ltb_ge in E. assert (t = trial) by lia. subst; reflexivity.
Qed.

Lemma walk_le : forall c f fuel t t' n, walk c f fuel t = Some (t', n) -> 1 <= t -> t' <= t /\ (Z.to_nat (t - t') <= fuel)%nat.
Proof.
  intros c f fuel; induction fuel as [| k IH]; intros t t' n W Ht; cbn in W.
  - destruct (t =? 1) eqn:E.
    + apply Z.eqb_eq in E; inversion W; subst; lia.
    + destruct (lookup c f t); [inversion W; subst; lia | discriminate].
  - destruct (t =? 1) eqn:E.
    + apply Z.eqb_eq in E; inversion W; subst; lia.
    + destruct (lookup c f t).
      * inversion W; subst; lia.
      * apply Z.eqb_neq in E. destruct (IH _ _ _ W) as [H1 H2]; lia.
Qed.

Lemma prev_request_value : forall d c f t c' n fd, prev_ok d c -> find_factor d f = Some fd -> 1 <= t ->
  prev_request d c f t = Some (c', n) -> n = prev_pure fd t.
Proof.
  intros d c f t c' n fd Hc Hf Ht; unfold prev_request; rewrite Hf.
  destruct (walk c f (Z.to_nat t) t) as [[t0 n0] |] eqn:W; [| discriminate].
  intro Heq; injection Heq as Heq.
  destruct (walk_ok _ _ _ _ _ _ _ _ Hc Hf W) as [W1 W2].
  destruct (walk_le _ _ _ _ _ _ W Ht) as [W3 W4].
  replace n with (snd (fill c fd (Z.to_nat t) t0 t n0)) by (rewrite Heq; reflexivity).
  apply fill_value; auto; lia.
Qed.

Lemma prev_requests_ok : forall d reqs c, prev_ok d c -> prev_ok d (prev_requests d c reqs).
Proof.
  intros d reqs; induction reqs as [| [f t] r IH]; intros c Hc; cbn; [exact Hc |].
  destruct (prev_request d c f t) as [[c' n] |] eqn:E.
  - apply IH. eapply prev_request_ok; eauto.
  - apply IH; exact Hc.
Qed.

(* ------------------------------------------------------------------ errors *)

Lemma add_err_in : forall e l, In e l -> add_err e l = l.
Proof.
  intros e l H; unfold add_err.
  replace (existsb (String.eqb e) l) with true; [reflexivity |].
  symmetry; apply existsb_exists; exists e; split; [exact H | apply String.eqb_refl].
Qed.

Lemma add_errs_incl : forall es l, incl es l -> add_errs es l = l.
Proof.
  unfold add_errs; induction es as [| e r IH]; intros l H; cbn; [reflexivity |].
  rewrite add_err_in by (apply H; left; reflexivity).
  apply IH. intros x Hx; apply H; right; exact Hx.
Qed.

(* ------------------------------------------------------------------ continuous samples *)

Lemma set_cfs_ok : forall names c i, Forall (fun e => snd e = names) c -> Forall (fun e : Z * list string => snd e = names) (set_cfs c i names).
Proof.
  intros names c i H; induction H as [| [j w] r Hx Hr IH]; cbn.
  - constructor; [reflexivity | constructor].
  - destruct (i =? j); constructor; auto.
Qed.

Lemma record_cfs_ok : forall names n c, Forall (fun e => snd e = names) c ->
  Forall (fun e : Z * list string => snd e = names) (record_cfs c n names).
Proof.
  intros names n c H; unfold record_cfs.
  generalize dependent c. induction (zrange n) as [| i r IH]; intros c H; cbn; [exact H |].
  apply IH. apply set_cfs_ok; exact H.
Qed.

Section Proofs.
  Variable tps_fn : list fdesc -> list (list string) -> Z -> Z.
  Variable excl_fn : list fdesc -> list (list string) -> list Z -> list string.

  Notation step := (step tps_fn excl_fn).
  Notation run := (run tps_fn excl_fn).
  Notation synth := (synth tps_fn excl_fn).

  (** design, crossings, constraint list (and the error set) are those of [s0] *)
  Definition same_design (s0 s : bstate) : Prop :=
    st_design s = st_design s0 /\ st_orig_design s = st_orig_design s0 /\ st_cont s = st_cont s0 /\
    st_crossings s = st_crossings s0 /\ st_constraints s = st_constraints s0 /\
    st_min_trials s = st_min_trials s0 /\ st_errors s = st_errors s0.

  (** every cache is empty or equals the pure function it memoises *)
  Definition caches_ok (s : bstate) : Prop :=
    cache_ok (st_tps s) (tps_pure tps_fn s) /\
    cache_ok (st_vpt s) (vpt_pure (st_design s)) /\
    list_cache_ok (st_simple s) (simple_pure (st_design s)) /\
    prev_ok (st_design s) (st_prev s) /\
    Forall (fun e => snd e = st_cont s) (st_cfs s).

  (** the block was constructed: the messages of [__count_exclusions] are already in [errors] *)
  Definition errors_closed (s : bstate) : Prop :=
    incl (excl_fn (st_design s) (st_crossings s) (st_constraints s)) (st_errors s).

  Definition Inv (s0 s : bstate) : Prop := same_design s0 s /\ caches_ok s /\ errors_closed s.

  Ltac inv_intro H := destruct H as [[D1 [D2 [D3 [D4 [D5 [D6 D7]]]]]] [[C1 [C2 [C3 [C4 C5]]]] E]].

  Lemma touch_tps_inv : forall s0 s, Inv s0 s -> Inv s0 (touch_tps tps_fn s).
  Proof.
    intros s0 s H; inv_intro H.
    split; [| split]; [repeat split; assumption | | exact E].
    repeat split; try assumption. cbn. apply memo_ok; exact C1.
  Qed.

  Lemma touch_vpt_inv : forall s0 s, Inv s0 s -> Inv s0 (touch_vpt s).
  Proof.
    intros s0 s H; inv_intro H.
    split; [| split]; [repeat split; assumption | | exact E].
    repeat split; try assumption. cbn. apply memo_ok; exact C2.
  Qed.

  Lemma touch_simple_inv : forall s0 s, Inv s0 s -> Inv s0 (touch_simple s).
  Proof.
    intros s0 s H; inv_intro H.
    split; [| split]; [repeat split; assumption | | exact E].
    repeat split; try assumption. cbn. apply memo_list_ok; exact C3.
  Qed.

  Lemma count_exclusions_id : forall s, errors_closed s -> count_exclusions excl_fn s = s.
  Proof.
    intros s E; unfold count_exclusions.
    destruct (st_crossings s) eqn:Cr; [reflexivity |].
    rewrite add_errs_incl.
    - destruct s; reflexivity.
    - unfold errors_closed in E. rewrite Cr in E. exact E.
  Qed.

  Lemma count_exclusions_inv : forall s0 s, Inv s0 s -> Inv s0 (count_exclusions excl_fn s).
  Proof. intros s0 s H. rewrite count_exclusions_id; [exact H | apply H]. Qed.

  Lemma do_reqs_inv : forall s0 s reqs, Inv s0 s -> Inv s0 (do_reqs s reqs).
  Proof.
    intros s0 s reqs H; inv_intro H.
    split; [| split]; [repeat split; assumption | | exact E].
    repeat split; try assumption. cbn. apply prev_requests_ok; exact C4.
  Qed.

  Lemma opt_inv : forall s0 s b f, (forall s, Inv s0 s -> Inv s0 (f s)) -> Inv s0 s -> Inv s0 (opt b f s).
  Proof. intros s0 s [|] f Hf H; cbn; auto. Qed.

  Lemma sample_continuous_inv : forall s0 s n, Inv s0 s -> Inv s0 (sample_continuous s n).
  Proof.
    intros s0 s n H. unfold sample_continuous.
    destruct (st_cont s) eqn:Ct; [exact H |].
    destruct n; [exact H |].
    inv_intro H.
    split; [| split]; [repeat split; cbn; try assumption | | exact E].
    repeat split; try assumption. unfold set_cont_samples; cbn [st_cfs st_cont]. rewrite Ct.
    apply record_cfs_ok. rewrite <- Ct. exact C5.
  Qed.

  Lemma synth_inv : forall s0 s st raises k tv ts reqs, Inv s0 s -> Inv s0 (fst (synth s st raises k tv ts reqs)).
  Proof.
    intros s0 s st raises k tv ts reqs H. unfold BlockState.synth.
    assert (H1 : Inv s0 (touch_tps tps_fn s)) by (apply touch_tps_inv; exact H).
    set (s1 := touch_tps tps_fn s) in *.
    assert (Hm : Inv s0 (do_reqs (opt tv touch_vpt (count_exclusions excl_fn s1)) reqs)).
    { apply do_reqs_inv. apply opt_inv; [intros; apply touch_vpt_inv; assumption |].
      apply count_exclusions_inv; exact H1. }
    set (s2 := match st with
               | SSat => do_reqs (opt tv touch_vpt (count_exclusions excl_fn s1)) reqs
               | SRandom => if fatal (st_errors s1) then s1
                            else do_reqs (opt tv touch_vpt (count_exclusions excl_fn s1)) reqs
               | SSM => s1
               end).
    assert (H2 : Inv s0 s2).
    { unfold s2; destruct st; auto. destruct (fatal (st_errors s1)); auto. }
    assert (Hs2 : s2 = match st with
               | SSat => do_reqs (opt tv touch_vpt (count_exclusions excl_fn s1)) reqs
               | SRandom => if match st with SSM => false | _ => fatal (st_errors s1) end then s1
                            else do_reqs (opt tv touch_vpt (count_exclusions excl_fn s1)) reqs
               | SSM => s1
               end) by (unfold s2; destruct st; reflexivity).
    rewrite <- Hs2.
    destruct raises; [exact H2 |].
    match goal with |- context [if ?b then _ else _] => destruct b end; [exact H2 |].
    cbn [fst]. apply sample_continuous_inv. apply opt_inv; [intros; apply touch_simple_inv; assumption | exact H2].
  Qed.

  Lemma step_inv : forall s0 s o, Inv s0 s -> Inv s0 (fst (step s o)).
  Proof.
    intros s0 s o H; destruct o; cbn [BlockState.step fst]; try exact H.
    - apply synth_inv; exact H.
    - destruct (st_crossings s) as [| c [| c' r]]; exact H.
    - apply do_reqs_inv. apply opt_inv; [intros; apply touch_vpt_inv; assumption |].
      apply touch_tps_inv; exact H.
  Qed.

  Lemma run_inv : forall ops s0 s, Inv s0 s -> Inv s0 (run ops s).
  Proof.
    induction ops as [| o r IH]; intros s0 s H; cbn; [exact H |].
    apply IH. apply step_inv; exact H.
  Qed.

  (** C19: any sequence of library calls on a constructed block leaves design, crossings and
      constraint list as they were and every cache equal to the pure function it memoises. *)
  Theorem ops_preserve_meaning : forall s0 ops, Inv s0 s0 -> Inv s0 (run ops s0).
  Proof. intros; apply run_inv; assumption. Qed.

  (* -------------------------------------------------------------- consequences for later calls *)

  Lemma inv_errors_fixed : forall s0 s reqs tv, Inv s0 s ->
    st_errors (do_reqs (opt tv touch_vpt (count_exclusions excl_fn (touch_tps tps_fn s))) reqs) = st_errors s0.
  Proof.
    intros s0 s reqs tv H.
    assert (H' : Inv s0 (do_reqs (opt tv touch_vpt (count_exclusions excl_fn (touch_tps tps_fn s))) reqs)).
    { apply do_reqs_inv. apply opt_inv; [intros; apply touch_vpt_inv; assumption |].
      apply count_exclusions_inv. apply touch_tps_inv; exact H. }
    apply H'.
  Qed.

  Lemma columns_fixed : forall s0 s, Inv s0 s -> columns s = columns s0.
  Proof. intros s0 s H; inv_intro H. unfold columns. rewrite D1, D3. reflexivity. Qed.

  (** what a synthesis call returns (refusal by [show_errors], or the number of experiments the
      sampler produced together with the set of columns) does not depend on the calls made before *)
  Theorem later_synthesis_same_output : forall s0 s st k tv ts reqs tv' ts' reqs',
    Inv s0 s0 -> Inv s0 s ->
    snd (synth s st false k tv ts reqs) = snd (synth s0 st false k tv' ts' reqs').
  Proof.
    intros s0 s st k tv ts reqs tv' ts' reqs' H0 H.
    assert (G : forall s tv ts reqs, Inv s0 s ->
              snd (synth s st false k tv ts reqs) =
              if match st with SSM => false | _ => fatal (st_errors s0) end then ORefused else OCols k (columns s0)).
    { clear. intros s tv ts reqs H. unfold BlockState.synth.
      assert (H1 : Inv s0 (touch_tps tps_fn s)) by (apply touch_tps_inv; exact H).
      assert (E1 : st_errors (touch_tps tps_fn s) = st_errors s0) by apply H1.
      pose proof (inv_errors_fixed s0 s reqs tv H) as E2.
      assert (Hm : Inv s0 (do_reqs (opt tv touch_vpt (count_exclusions excl_fn (touch_tps tps_fn s))) reqs)).
      { apply do_reqs_inv. apply opt_inv; [intros; apply touch_vpt_inv; assumption |].
        apply count_exclusions_inv; exact H1. }
      destruct st; cbn [snd].
      - rewrite E2. destruct (fatal (st_errors s0)); [reflexivity |]. cbn [snd].
        f_equal. eapply columns_fixed. apply sample_continuous_inv.
        apply opt_inv; [intros; apply touch_simple_inv; assumption | exact Hm].
      - rewrite E1. destruct (fatal (st_errors s0)); [reflexivity |]. cbn [snd].
        f_equal. eapply columns_fixed. apply sample_continuous_inv.
        apply opt_inv; [intros; apply touch_simple_inv; assumption | exact Hm].
      - cbn [snd]. f_equal. eapply columns_fixed. apply sample_continuous_inv.
        apply opt_inv; [intros; apply touch_simple_inv; assumption | exact H1]. }
    rewrite (G s tv ts reqs H), (G s0 tv' ts' reqs' H0). reflexivity.
  Qed.

  Corollary later_synthesis_same_columns : forall s0 ops st k tv ts reqs n cols,
    Inv s0 s0 ->
    snd (synth (run ops s0) st false k tv ts reqs) = OCols n cols -> n = k /\ cols = columns s0.
  Proof.
    intros s0 ops st k tv ts reqs n cols H0 H.
    rewrite (later_synthesis_same_output s0 (run ops s0) st k tv ts reqs tv ts reqs H0 (run_inv ops s0 s0 H0)) in H.
    unfold BlockState.synth in H.
    assert (H1 : Inv s0 (touch_tps tps_fn s0)) by (apply touch_tps_inv; exact H0).
    assert (Hm : Inv s0 (do_reqs (opt tv touch_vpt (count_exclusions excl_fn (touch_tps tps_fn s0))) reqs)).
    { apply do_reqs_inv. apply opt_inv; [intros; apply touch_vpt_inv; assumption |].
      apply count_exclusions_inv; exact H1. }
    destruct st; cbn [snd] in H.
    - destruct (fatal _) in H; [discriminate |]. cbn [snd] in H. inversion H; subst; split; [reflexivity |].
      eapply columns_fixed. apply sample_continuous_inv.
      apply opt_inv; [intros; apply touch_simple_inv; assumption | exact Hm].
    - destruct (fatal _) in H; [discriminate |]. cbn [snd] in H. inversion H; subst; split; [reflexivity |].
      eapply columns_fixed. apply sample_continuous_inv.
      apply opt_inv; [intros; apply touch_simple_inv; assumption | exact Hm].
    - cbn [snd] in H. inversion H; subst; split; [reflexivity |].
      eapply columns_fixed. apply sample_continuous_inv.
      apply opt_inv; [intros; apply touch_simple_inv; assumption | exact H1].
  Qed.

  (** the conversions write the same columns after any history *)
  Theorem later_conversion_same_keys : forall s0 ops o, Inv s0 s0 ->
    (o = Print \/ o = SaveCsv \/ o = ToTuples \/ o = ToDicts \/ o = Tabulate) ->
    snd (step (run ops s0) o) = snd (step s0 o).
  Proof.
    intros s0 ops o H0 Ho.
    pose proof (run_inv ops s0 s0 H0) as H. inv_intro H.
    destruct Ho as [-> | [-> | [-> | [-> | ->]]]]; cbn [BlockState.step snd]; try (rewrite D2; reflexivity).
    rewrite D4. destruct (st_crossings s0) as [| c [| c' r]]; reflexivity.
  Qed.

  (** the variable numbering every later encoding relies on: a request answers the pure count
      whatever earlier calls left in the cache *)
  Theorem later_previous_count_exact : forall s0 ops f t fd c' n, Inv s0 s0 -> 1 <= t ->
    find_factor (st_design s0) f = Some fd ->
    prev_request (st_design (run ops s0)) (st_prev (run ops s0)) f t = Some (c', n) -> n = prev_pure fd t.
  Proof.
    intros s0 ops f t fd c' n H0 Ht Hf R.
    pose proof (run_inv ops s0 s0 H0) as H. inv_intro H.
    rewrite D1 in *. eapply prev_request_value; eauto.
  Qed.
End Proofs.

(* ------------------------------------------------------------------ a reachable non-trivial state *)

Definition ex_design : list fdesc :=
  [ {| fd_name := "f"; fd_hidden := false; fd_nlevels := 2; fd_complex := false; fd_start := 0; fd_stride := 1;
       fd_sustain := 1; fd_active := true |};
    {| fd_name := "g"; fd_hidden := false; fd_nlevels := 2; fd_complex := false; fd_start := 0; fd_stride := 1;
       fd_sustain := 1; fd_active := true |};
    {| fd_name := "t"; fd_hidden := false; fd_nlevels := 2; fd_complex := true; fd_start := 1; fd_stride := 1;
       fd_sustain := 1; fd_active := true |} ]%string.

Definition ex_state : bstate :=
  {| st_design := ex_design; st_orig_design := [("f", false); ("g", false); ("t", false); ("rt", false)]%string;
     st_cont := ["rt"%string]; st_crossings := [["f"; "g"]]%string; st_constraints := [0; 1; 2; 3];
     st_min_trials := 0; st_tps := Some 4; st_vpt := None; st_simple := None; st_prev := []; st_cfs := [];
     st_errors := ["WARNING: crossing incomplete"%string]; st_dist_used := [] |}.

Definition ex_tps (_ : list fdesc) (_ : list (list string)) (_ : Z) : Z := 4.
Definition ex_excl (_ : list fdesc) (_ : list (list string)) (_ : list Z) : list string :=
  ["WARNING: crossing incomplete"%string].

Definition ex_ops : list op :=
  [ Synth SSat false 2 true true [("f", 2); ("g", 2); ("f", 4); ("t", 4)]%string; Print;
    Synth SRandom false 1 false false [("g", 4); ("t", 3)]%string; Mismatch false false []; Tabulate ].

Lemma ex_inv : Inv ex_tps ex_excl ex_state ex_state.
Proof.
  split; [repeat split |]. split.
  - repeat split.
    + right; reflexivity.
    + left; reflexivity.
    + left; reflexivity.
    + constructor.
    + constructor.
  - intros x Hx. exact Hx.
Qed.

Lemma ex_reached :
  Inv ex_tps ex_excl ex_state ex_state /\
  st_prev (run ex_tps ex_excl ex_ops ex_state) =
    [(("f", 2), 1); (("g", 2), 1); (("f", 3), 2); (("f", 4), 3); (("t", 2), 0); (("t", 3), 1); (("t", 4), 2);
     (("g", 3), 2); (("g", 4), 3)]%string /\
  st_vpt (run ex_tps ex_excl ex_ops ex_state) = Some 4 /\
  st_cfs (run ex_tps ex_excl ex_ops ex_state) = [(0, ["rt"%string]); (1, ["rt"%string])] /\
  snd (step ex_tps ex_excl (run ex_tps ex_excl ex_ops ex_state) (Synth SSat false 3 false false [])) =
    OCols 3 ["f"; "g"; "t"; "rt"]%string.
Proof. split; [exact ex_inv |]. vm_compute. repeat split. Qed.
