(** What constructing blocks does to shared constraint objects (property C18).
    Executable definitions only; proofs are in Hist/ReuseProofs.v.

    Anchors (sweetpea/_internal, after /repo commit 88b3d0f): cross_block.py [_create]
    ([constraints = [copy.copy(ct) for ct in constraints]]: every block works on private
    shallow copies of the constraint objects it is given; [self.orig_constraints] are the
    copies; [ct.init_within_block(within_block)] for [self.constraints] and for
    [self.orig_constraints] touches the copies only), [Repeat.__init__] / [Merge.__init__]
    (hand the inner blocks' [orig_constraints], i.e. their initialised copies, to [_create],
    which copies them again), [Nest.__init__] ([copy.copy(ct)] + [sustain_within_block(inner_len)]
    for the outer block's [orig_constraints]); constraint.py [_KInARow.init_within_block] and
    [Pin.init_within_block] (set-if-None), [sustain_within_block] of [_KInARow] / [ExactlyK]
    (multiplies [k]) / [Pin] / [MinimumTrials] (multiplies [trials]), [desugar]; block.py
    [__validate] ([c.max_trials_required = trials_per_sample() * c.k]) and [BlockGeometry.sustain].

    A store maps object identities to the mutable fields the code has.  A build takes the
    geometry [get_geometry(0)] of the block under construction as data (it is a function of
    the design, modelled in Design/Layout.v), creates the copies as new store entries, writes
    only those, and says which geometry, [k] and [trials] every constraint of the new block
    ends up using.  (Before commit 88b3d0f [_create] did not copy: the set-if-None write went
    into the user's objects, which kept the geometry of the first block they met.) *)
From Coq Require Import ZArith List Bool Arith String.
Import ListNotations.
Open Scope Z_scope.

(** [BlockGeometry] *)
Record geom := { g_trials : Z; g_preamble : Z; g_sustain : list (Z * Z) }.

(** [BlockGeometry.sustain] *)
Definition gsustain (g : geom) (n : Z) : geom :=
  {| g_trials := g_trials g * n; g_preamble := g_preamble g * n;
     g_sustain := map (fun p => (fst p, snd p * n)) (g_sustain g) |}.

Inductive ckind :=
| KAtMost | KAtLeast | KExactlyK | KExactlyKInARow   (* _KInARow: have [within_block] *)
| KPin                                              (* has [within_block] *)
| KMinTrials                                        (* has [trials] *)
| KNoGeom.                                          (* Exclude, Sequential, LatinSquare, ContinuousConstraint *)

Definition has_within (k : ckind) : bool :=
  match k with KAtMost | KAtLeast | KExactlyK | KExactlyKInARow | KPin => true | _ => false end.

(** the mutable fields of a constraint object *)
Record cobj := {
  c_kind : ckind;
  c_within : option geom;     (* within_block *)
  c_k : Z;                    (* k (index for Pin) *)
  c_trials : Z;               (* MinimumTrials.trials *)
  c_mtr : option Z            (* AtLeastKInARow.max_trials_required *)
}.

Definition set_within (o : cobj) (w : option geom) : cobj :=
  {| c_kind := c_kind o; c_within := w; c_k := c_k o; c_trials := c_trials o; c_mtr := c_mtr o |}.
Definition set_k (o : cobj) (k : Z) : cobj :=
  {| c_kind := c_kind o; c_within := c_within o; c_k := k; c_trials := c_trials o; c_mtr := c_mtr o |}.
Definition set_trials (o : cobj) (t : Z) : cobj :=
  {| c_kind := c_kind o; c_within := c_within o; c_k := c_k o; c_trials := t; c_mtr := c_mtr o |}.
Definition set_mtr (o : cobj) (m : option Z) : cobj :=
  {| c_kind := c_kind o; c_within := c_within o; c_k := c_k o; c_trials := c_trials o; c_mtr := m |}.

(** The attribute writes on objects reachable from the constructors' arguments this model
    declares (class family, attribute); compared with the write-set computed from the source by
    harness/writeset.py.  All four are written only on objects the construction itself creates
    (the private copies of [_create] and the copies [Nest] sustains): new store entries; the
    static analyser cannot tell a copy from its original, the theorems and the dynamic
    comparison of the user's objects after every construction do. *)
Definition declared_writes : list (string * string) :=
  [("Constraint", "within_block"); ("Constraint", "max_trials_required");
   ("Constraint", "k"); ("Constraint", "trials")]%string.

(** [init_within_block]: set-if-None (base class: no-op) *)
Definition init_within_block (o : cobj) (g : geom) : cobj :=
  if has_within (c_kind o) then match c_within o with None => set_within o (Some g) | Some _ => o end else o.

(** [sustain_within_block]; [None] = AttributeError ('NoneType' has no attribute 'sustain') *)
Definition sustain_within_block (o : cobj) (n : Z) : option cobj :=
  match c_kind o with
  | KAtMost | KAtLeast | KExactlyKInARow =>
    match c_within o with Some g => Some (set_within o (Some (gsustain g n))) | None => None end
  | KExactlyK =>
    match c_within o with Some g => Some (set_k (set_within o (Some (gsustain g n))) (c_k o * n)) | None => None end
  | KPin =>
    match c_within o with Some g => Some (set_within o (Some (gsustain g n))) | None => Some o end
  | KMinTrials => Some (set_trials o (c_trials o * n))
  | KNoGeom => Some o
  end.

(** object store: identity -> fields; [next] is the first unused identity;
    [env] holds, per block built so far, its [orig_constraints] ([None]: construction failed or skipped) *)
Record state := { objs : nat -> cobj; next : nat; env : list (option (list nat)) }.

Definition upd (f : nat -> cobj) (i : nat) (o : cobj) : nat -> cobj :=
  fun j => if Nat.eqb j i then o else f j.

(** what the block being built uses of a constraint: kind, geometry, k, trials *)
Definition view (o : cobj) : ckind * option geom * Z * Z := (c_kind o, c_within o, c_k o, c_trials o).
Definition summary := list (ckind * option geom * Z * Z).

Inductive dkind :=
| DLeaf                                   (* CrossBlock / MultiCrossBlock *)
| DRepeat (inner : nat)
| DMerge (inners : list nat)
| DNest (outer inner : nat) (inner_len : Z)
| DSkip.                                  (* placeholder: nothing is built *)

Record desc := {
  d_kind : dkind;
  d_geom : geom;              (* get_geometry(0) of the block under construction *)
  d_cs : list nat;            (* the constraint objects passed by the user *)
  d_copied : list bool        (* per entry of the combined constraint list: does desugaring replace the object by copies? *)
}.

Definition deps (d : desc) : list nat :=
  match d_kind d with
  | DLeaf | DSkip => []
  | DRepeat i => [i]
  | DMerge l => l
  | DNest o i _ => [o; i]
  end.

Definition orig_of (e : list (option (list nat))) (b : nat) : option (list nat) :=
  match nth_error e b with Some (Some l) => Some l | _ => None end.

Fixpoint origs_of (e : list (option (list nat))) (bs : list nat) : option (list nat) :=
  match bs with
  | [] => Some []
  | b :: r => match orig_of e b, origs_of e r with
              | Some l, Some m => Some (l ++ m)
              | _, _ => None
              end
  end.

(** [copy.copy(ct)] + [ct.sustain_within_block(inner_len)] for every constraint of the outer block *)
Fixpoint copy_sustain (f : nat -> cobj) (nx : nat) (ids : list nat) (n : Z) : option ((nat -> cobj) * nat * list nat) :=
  match ids with
  | [] => Some (f, nx, [])
  | i :: r =>
    match sustain_within_block (f i) n with
    | None => None
    | Some o =>
      match copy_sustain (upd f nx o) (S nx) r n with
      | None => None
      | Some (f', nx', l) => Some (f', nx', nx :: l)
      end
    end
  end.

(** [Block.__validate]: [max_trials_required] of the AtLeastKInARow objects that are in [self.constraints] *)
Fixpoint write_mtr (f : nat -> cobj) (all : list nat) (copied : list bool) (t : Z) : nat -> cobj :=
  match all with
  | [] => f
  | i :: r =>
    let c := match copied with b :: _ => b | [] => false end in
    let f' := match c_kind (f i), c with
              | KAtLeast, false => upd f i (set_mtr (f i) (Some (t * c_k (f i))))
              | _, _ => f
              end in
    write_mtr f' r (tl copied) t
  end.

(** [constraints = [copy.copy(ct) for ct in constraints]] at the top of [_create]: new objects *)
Fixpoint copy_all (f : nat -> cobj) (nx : nat) (ids : list nat) : (nat -> cobj) * nat * list nat :=
  match ids with
  | [] => (f, nx, [])
  | i :: r => match copy_all (upd f nx (f i)) (S nx) r with (f', nx', l) => (f', nx', nx :: l) end
  end.

(** the two [init_within_block] loops of [_create] *)
Definition init_all (f : nat -> cobj) (all : list nat) (g : geom) : nat -> cobj :=
  fold_left (fun f i => upd f i (init_within_block (f i) g)) all f.

(** the combined constraint list handed to [_create] *)
Definition gather (s : state) (d : desc) : option ((nat -> cobj) * nat * list nat) :=
  match d_kind d with
  | DLeaf => Some (objs s, next s, d_cs d)
  | DRepeat i => match orig_of (env s) i with Some l => Some (objs s, next s, l ++ d_cs d) | None => None end
  | DMerge bs => match origs_of (env s) bs with Some l => Some (objs s, next s, d_cs d ++ l) | None => None end
  | DNest o i n =>
    match orig_of (env s) o, orig_of (env s) i with
    | Some lo, Some li =>
      match copy_sustain (objs s) (next s) lo n with
      | Some (f, nx, copies) => Some (f, nx, copies ++ li ++ d_cs d)
      | None => None
      end
    | _, _ => None
    end
  | DSkip => None
  end.

(** one construction: the new state and, if it succeeds, what each constraint of the new block uses *)
Definition build (s : state) (d : desc) : state * option summary :=
  match gather s d with
  | None => ({| objs := objs s; next := next s; env := env s ++ [None] |}, None)
  | Some (f, nx, given) =>
    match copy_all f nx given with
    | (f0, nx0, all) =>      (* [all]: the private copies = [orig_constraints] of the new block *)
      let f1 := write_mtr f0 all (d_copied d) (g_trials (d_geom d)) in
      let f2 := init_all f1 all (d_geom d) in
      ({| objs := f2; next := nx0; env := env s ++ [Some all] |}, Some (map (fun i => view (f2 i)) all))
    end
  end.

Fixpoint run (s : state) (ds : list desc) : state * list (option summary) :=
  match ds with
  | [] => (s, [])
  | d :: r => let (s1, o) := build s d in let (s2, os) := run s1 r in (s2, o :: os)
  end.

(** the full fields of the new block's [orig_constraints] (for the correspondence run) *)
Definition last_entries (s : state) : list cobj :=
  match last (env s) None with Some l => map (objs s) l | None => [] end.

(** fresh user objects: nothing written yet *)
Definition fresh (o : cobj) : cobj :=
  {| c_kind := c_kind o; c_within := None; c_k := c_k o; c_trials := c_trials o; c_mtr := None |}.

Definition default_obj : cobj := {| c_kind := KNoGeom; c_within := None; c_k := 0; c_trials := 0; c_mtr := None |}.

Definition init_state (user : list cobj) : state :=
  {| objs := fun i => fresh (nth i user default_obj); next := List.length user; env := [] |}.

Definition skip_of (d : desc) : desc :=
  {| d_kind := DSkip; d_geom := d_geom d; d_cs := []; d_copied := [] |}.

(** the twin program: only the blocks of [keep] are built *)
Fixpoint mask_from (keep : nat -> bool) (j : nat) (ds : list desc) : list desc :=
  match ds with
  | [] => []
  | d :: r => (if keep j then d else skip_of d) :: mask_from keep (S j) r
  end.
Definition mask (keep : nat -> bool) (ds : list desc) : list desc := mask_from keep 0 ds.

(** [keep] contains the dependencies of its members *)
Fixpoint closed_from (keep : nat -> bool) (j : nat) (ds : list desc) : bool :=
  match ds with
  | [] => true
  | d :: r => (if keep j then forallb keep (deps d) else true) && closed_from keep (S j) r
  end.
Definition closed (keep : nat -> bool) (ds : list desc) : bool := closed_from keep 0 ds.

(** every block refers to earlier blocks and to user objects only *)
Fixpoint wf_from (nuser : nat) (j : nat) (ds : list desc) : bool :=
  match ds with
  | [] => true
  | d :: r => forallb (fun b => Nat.ltb b j) (deps d) && forallb (fun c => Nat.ltb c nuser) (d_cs d) && wf_from nuser (S j) r
  end.
Definition wf (nuser : nat) (ds : list desc) : bool := wf_from nuser 0 ds.

(** dependency closure of one block, for the harness and the witness: [fuel] rounds *)
Fixpoint closure (ds : list desc) (fuel : nat) (set : list nat) : list nat :=
  match fuel with
  | O => set
  | S k => closure ds k (set ++ flat_map (fun b => match nth_error ds b with Some d => deps d | None => [] end) set)
  end.
Definition keep_of (ds : list desc) (i : nat) : nat -> bool :=
  let s := closure ds (List.length ds) [i] in fun j => existsb (Nat.eqb j) s.

(** summary of block [i] when the whole program is built with shared objects / when only its twin is built *)
Definition shared_summary (user : list cobj) (ds : list desc) (i : nat) : option summary :=
  match nth_error (snd (run (init_state user) ds)) i with Some o => o | None => None end.
Definition fresh_summary (user : list cobj) (ds : list desc) (i : nat) : option summary :=
  match nth_error (snd (run (init_state user) (mask (keep_of ds i) ds))) i with Some o => o | None => None end.

Definition store_list (s : state) : list cobj := map (objs s) (seq 0 (next s)).
