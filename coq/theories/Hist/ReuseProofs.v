(** Proofs about Hist/Reuse.v (property C18).

    [reuse_refuted]: the summary of a block built after another block that shares a
    constraint object differs from the summary of its twin built from fresh objects
    (the set-if-None write of [init_within_block] keeps the first geometry).

    [history_independent_guarded]: if every constraint object that has a
    [within_block] is handed (directly) only to constructions of one and the same
    geometry, then for every build sequence and every dependency-closed set [keep]
    of blocks, each kept block gets the same summary whether the whole sequence is
    built on the shared store or only the kept blocks are built (fresh twin). *)
From Coq Require Import ZArith List Bool Arith Lia.
From SP Require Import Hist.Reuse.
Import ListNotations.
Open Scope Z_scope.

(* ------------------------------------------------------------------ the refutation *)

Definition wit_g2 : geom := {| g_trials := 2; g_preamble := 0; g_sustain := [(0, 1)] |}.
Definition wit_g4 : geom := {| g_trials := 4; g_preamble := 0; g_sustain := [(0, 1); (1, 1)] |}.
Definition wit_user : list cobj :=
  [ {| c_kind := KAtMost; c_within := None; c_k := 1; c_trials := 0; c_mtr := None |} ].
(** c = AtMostKInARow(1, (f, "a"));  CrossBlock([f],[f],[c]) (2 trials);  CrossBlock([f,g],[f,g],[c]) (4 trials) *)
Definition wit_prog : list desc :=
  [ {| d_kind := DLeaf; d_geom := wit_g2; d_cs := [0%nat]; d_copied := [false] |};
    {| d_kind := DLeaf; d_geom := wit_g4; d_cs := [0%nat]; d_copied := [false] |} ].

Lemma reuse_refuted :
  exists (user : list cobj) (ds : list desc) (i : nat),
    wf (List.length user) ds = true /\ closed (keep_of ds i) ds = true /\
    shared_summary user ds i = Some [(KAtMost, Some wit_g2, 1, 0)] /\
    fresh_summary user ds i = Some [(KAtMost, Some wit_g4, 1, 0)] /\
    shared_summary user ds i <> fresh_summary user ds i.
Proof.
  exists wit_user, wit_prog, 1%nat. vm_compute. repeat split; try reflexivity. discriminate.
Qed.

Lemma Forall2_impl_in : forall {A B} (P Q : A -> B -> Prop) (l : list A) (l' : list B),
  (forall a b, In a l -> In b l' -> P a b -> Q a b) -> Forall2 P l l' -> Forall2 Q l l'.
Proof.
  intros A B P Q l l' H F; induction F as [| a b ra rb Hab Hr IH]; constructor.
  - apply H; [left | left |]; auto.
  - apply IH. intros; apply H; [right | right |]; assumption.
Qed.

Lemma Forall2_map_eq : forall {A B C} (f : A -> C) (g : B -> C) l l',
  Forall2 (fun a b => f a = g b) l l' -> map f l = map g l'.
Proof. intros A B C f g l l' H; induction H; cbn; [reflexivity | f_equal; assumption]. Qed.

(* ------------------------------------------------------------------ function updates *)

Lemma upd_same : forall f i o, upd f i o i = o.
Proof. intros; unfold upd; rewrite Nat.eqb_refl; reflexivity. Qed.

Lemma upd_other : forall f i o j, j <> i -> upd f i o j = f j.
Proof. intros f i o j H; unfold upd. destruct (Nat.eqb j i) eqn:E; [apply Nat.eqb_eq in E; contradiction | reflexivity]. Qed.

Lemma view_set_mtr : forall o m, view (set_mtr o m) = view o.
Proof. reflexivity. Qed.

Lemma write_mtr_view : forall all f cp t id, view (write_mtr f all cp t id) = view (f id).
Proof.
  induction all as [| i r IH]; intros f cp t id; cbn; [reflexivity |].
  rewrite IH. destruct (c_kind (f i)); try reflexivity.
  destruct (match cp with [] => false | b :: _ => b end); [reflexivity |].
  unfold upd. destruct (Nat.eqb id i) eqn:E; [| reflexivity].
  apply Nat.eqb_eq in E; subst. reflexivity.
Qed.

Definition init1 (f : nat -> cobj) (i : nat) (g : geom) : nat -> cobj := upd f i (init_within_block (f i) g).

Lemma init_all_cons : forall f i r g, init_all f (i :: r) g = init_all (init1 f i g) r g.
Proof. reflexivity. Qed.

Lemma init_within_fields : forall o g,
  c_kind (init_within_block o g) = c_kind o /\ c_k (init_within_block o g) = c_k o /\
  c_trials (init_within_block o g) = c_trials o.
Proof. intros o g; unfold init_within_block. destruct (has_within (c_kind o)); [destruct (c_within o) |]; auto. Qed.

Lemma init1_fields : forall f i g id,
  c_kind (init1 f i g id) = c_kind (f id) /\ c_k (init1 f i g id) = c_k (f id) /\ c_trials (init1 f i g id) = c_trials (f id).
Proof.
  intros f i g id; unfold init1, upd. destruct (Nat.eqb id i) eqn:E; [| auto].
  apply Nat.eqb_eq in E; subst. apply init_within_fields.
Qed.

Lemma init_all_fields : forall all f g id,
  c_kind (init_all f all g id) = c_kind (f id) /\ c_k (init_all f all g id) = c_k (f id) /\
  c_trials (init_all f all g id) = c_trials (f id).
Proof.
  induction all as [| i r IH]; intros f g id; [cbn; auto |].
  rewrite init_all_cons. destruct (IH (init1 f i g) g id) as [A [B C]].
  destruct (init1_fields f i g id) as [A' [B' C']]. rewrite A, B, C; auto.
Qed.

(** an object whose geometry is set (or that has none) is not touched by [init_within_block] *)
Definition settled_obj (o : cobj) : Prop := has_within (c_kind o) = true -> c_within o <> None.

Lemma init_within_settled_id : forall o g, settled_obj o -> init_within_block o g = o.
Proof.
  intros o g H; unfold init_within_block. destruct (has_within (c_kind o)) eqn:E; [| reflexivity].
  destruct (c_within o) eqn:W; [reflexivity |]. exfalso; apply (H E); exact W.
Qed.

Lemma init_within_settles : forall o g, settled_obj (init_within_block o g).
Proof.
  intros o g; unfold init_within_block, settled_obj.
  destruct (has_within (c_kind o)) eqn:E.
  - destruct (c_within o) eqn:W; cbn; intros _; [rewrite W |]; discriminate.
  - intro H; rewrite E in H; discriminate.
Qed.

Lemma init_all_within_settled : forall all f g id, settled_obj (f id) -> c_within (init_all f all g id) = c_within (f id).
Proof.
  induction all as [| i r IH]; intros f g id H; [reflexivity |].
  rewrite init_all_cons.
  assert (E : init1 f i g id = f id).
  { unfold init1, upd. destruct (Nat.eqb id i) eqn:E; [| reflexivity].
    apply Nat.eqb_eq in E; subst. apply init_within_settled_id; exact H. }
  rewrite IH; rewrite E; auto.
Qed.

Lemma init_all_notin : forall all f g id, ~ In id all -> init_all f all g id = f id.
Proof.
  induction all as [| i r IH]; intros f g id H; [reflexivity |].
  rewrite init_all_cons, IH by (intro; apply H; right; assumption).
  unfold init1. apply upd_other. intro; subst; apply H; left; reflexivity.
Qed.

Lemma init_all_in_settles : forall all f g id, In id all -> settled_obj (init_all f all g id).
Proof.
  induction all as [| i r IH]; intros f g id H; [destruct H |].
  rewrite init_all_cons. destruct (in_dec Nat.eq_dec id r) as [Hr | Hr].
  - apply IH; exact Hr.
  - rewrite init_all_notin by exact Hr. destruct H as [-> | H]; [| contradiction].
    unfold init1. rewrite upd_same. apply init_within_settles.
Qed.

(** an unsettled object of the list gets exactly the geometry of the block *)
Lemma init_all_in_unsettled : forall all f g id, In id all -> has_within (c_kind (f id)) = true -> c_within (f id) = None ->
  c_within (init_all f all g id) = Some g.
Proof.
  induction all as [| i r IH]; intros f g id H K W; [destruct H |].
  rewrite init_all_cons.
  destruct (Nat.eq_dec id i) as [-> | Hne].
  - assert (S1 : c_within (init1 f i g i) = Some g).
    { unfold init1. rewrite upd_same. unfold init_within_block. rewrite K, W. reflexivity. }
    rewrite init_all_within_settled; [exact S1 |].
    intros _. rewrite S1; discriminate.
  - destruct H as [H | H]; [congruence |].
    apply IH; [exact H | |]; unfold init1; rewrite upd_other by exact Hne; assumption.
Qed.

Lemma view_eq_fields : forall a b, c_kind a = c_kind b -> c_within a = c_within b -> c_k a = c_k b -> c_trials a = c_trials b ->
  view a = view b.
Proof. intros a b H1 H2 H3 H4; unfold view; rewrite H1, H2, H3, H4; reflexivity. Qed.

Lemma view_inv : forall a b, view a = view b ->
  c_kind a = c_kind b /\ c_within a = c_within b /\ c_k a = c_k b /\ c_trials a = c_trials b.
Proof. intros a b H; unfold view in H; inversion H; auto. Qed.

Lemma settled_view : forall a b, view a = view b -> settled_obj a -> settled_obj b.
Proof. intros a b H S; destruct (view_inv _ _ H) as [K [W _]]; unfold settled_obj in *; rewrite <- K, <- W; exact S. Qed.

(** [init_all] leaves the view of a settled object alone *)
Lemma init_all_view_settled : forall all f g id, settled_obj (f id) -> view (init_all f all g id) = view (f id).
Proof.
  intros all f g id H. destruct (init_all_fields all f g id) as [A [B C]].
  apply view_eq_fields; auto. apply init_all_within_settled; exact H.
Qed.

(* ------------------------------------------------------------------ copies *)

Lemma sustain_view : forall a b n, view a = view b ->
  match sustain_within_block a n, sustain_within_block b n with
  | Some a', Some b' => view a' = view b'
  | None, None => True
  | _, _ => False
  end.
Proof.
  intros a b n H; destruct (view_inv _ _ H) as [K [W [Kk T]]].
  unfold sustain_within_block. rewrite <- K, <- W.
  destruct (c_kind a) eqn:Ka; try (destruct (c_within a) eqn:Wa); cbn; auto;
    apply view_eq_fields; cbn; congruence.
Qed.

Lemma sustain_settled : forall a n a', settled_obj a -> sustain_within_block a n = Some a' -> settled_obj a'.
Proof.
  intros a n a' S H; unfold sustain_within_block in H. unfold settled_obj in *.
  destruct (c_kind a) eqn:K; cbn in S;
    try (destruct (c_within a) eqn:W; [| try discriminate H]);
    injection H as <-; intro Hw; cbn in Hw |- *; rewrite ?K in Hw; cbn in Hw;
    try discriminate Hw; try discriminate; try (rewrite W; discriminate);
    try (apply S; reflexivity).
  exfalso. apply (S eq_refl). reflexivity.
Qed.

Lemma sustain_some_of_settled : forall a n, settled_obj a -> sustain_within_block a n <> None.
Proof.
  intros a n S; unfold sustain_within_block, settled_obj in *.
  destruct (c_kind a) eqn:K; cbn in S; destruct (c_within a) eqn:W; try discriminate;
    exfalso; apply (S eq_refl); reflexivity.
Qed.

(** what [copy_sustain] does: new objects at [nx, nx + length ids), old ones untouched *)
Lemma copy_sustain_spec : forall ids f nx n f' nx' l,
  Forall (fun i => (i < nx)%nat) ids ->
  copy_sustain f nx ids n = Some (f', nx', l) ->
  nx' = (nx + List.length ids)%nat /\ l = seq nx (List.length ids) /\
  (forall id, (id < nx)%nat -> f' id = f id) /\
  Forall2 (fun i c => sustain_within_block (f i) n = Some (f' c)) ids l.
Proof.
  induction ids as [| i r IH]; intros f nx n f' nx' l Hlt H; cbn in H.
  - inversion H; subst. repeat split; auto; try (cbn; lia); try constructor.
  - destruct (sustain_within_block (f i) n) as [o |] eqn:Sus; [| discriminate].
    destruct (copy_sustain (upd f nx o) (S nx) r n) as [[[f2 nx2] l2] |] eqn:C; [| discriminate].
    inversion H; subst; clear H. inversion Hlt as [| ? ? Hi Hr]; subst.
    destruct (IH (upd f nx o) (S nx) n f' nx' l2) as [A [B [Cc D]]]; auto.
    { eapply Forall_impl; [| exact Hr]. cbn; intros; lia. }
    repeat split.
    + cbn; lia.
    + cbn. rewrite B. reflexivity.
    + intros id Hid. rewrite Cc by lia. apply upd_other; lia.
    + constructor.
      * rewrite Cc by lia. rewrite upd_same. exact Sus.
      * eapply Forall2_impl_in; [| exact D]. intros a b Ha Hb Hs. cbn in Hs.
        rewrite upd_other in Hs; [exact Hs |].
        assert ((a < nx)%nat) by (rewrite Forall_forall in Hr; apply Hr; exact Ha). lia.
Qed.

(* ------------------------------------------------------------------ invariants of one run *)

Section Guarded.
  Variable user : list cobj.
  Variable gc : nat -> geom.           (* the one geometry a user object with [within_block] is handed to *)
  Let n := List.length user.

  Definition uobj (c : nat) : cobj := nth c user default_obj.

  (** the fields of the user objects other than [within_block] / [max_trials_required] never change;
      [within_block] is unset or the object's one geometry *)
  Definition user_ok (s : state) : Prop :=
    forall c, (c < n)%nat ->
      c_kind (objs s c) = c_kind (uobj c) /\ c_k (objs s c) = c_k (uobj c) /\ c_trials (objs s c) = c_trials (uobj c) /\
      (c_within (objs s c) = None \/ (has_within (c_kind (uobj c)) = true /\ c_within (objs s c) = Some (gc c))).

  Definition settled (s : state) (id : nat) : Prop := settled_obj (objs s id).

  (** every [orig_constraints] list holds existing, settled objects *)
  Definition env_ok (s : state) : Prop :=
    forall b l, orig_of (env s) b = Some l -> Forall (settled s) l /\ Forall (fun id => (id < next s)%nat) l.

  Definition good (s : state) : Prop := (n <= next s)%nat /\ user_ok s /\ env_ok s.

  (** the guard for one construction *)
  Definition desc_ok (d : desc) : Prop :=
    Forall (fun c => (c < n)%nat) (d_cs d) /\
    Forall (fun c => has_within (c_kind (uobj c)) = true -> d_geom d = gc c) (d_cs d).

  Lemma good_init : good (init_state user).
  Proof.
    split; [cbn; unfold n; lia |]. split.
    - intros c Hc; cbn. repeat split; auto.
    - intros b l H. unfold orig_of in H; cbn in H. destruct b; discriminate.
  Qed.

  Lemma orig_of_app_old : forall e x b, (b < List.length e)%nat -> orig_of (e ++ [x]) b = orig_of e b.
  Proof. intros e x b H; unfold orig_of. rewrite nth_error_app1 by exact H. reflexivity. Qed.

  Lemma orig_of_app_new : forall e x, orig_of (e ++ [x]) (List.length e) = x.
  Proof.
    intros e x; unfold orig_of. rewrite nth_error_app2 by lia. rewrite Nat.sub_diag. cbn. destruct x; reflexivity.
  Qed.

  Lemma orig_of_lt : forall e b l, orig_of e b = Some l -> (b < List.length e)%nat.
  Proof.
    intros e b l H; unfold orig_of in H. destruct (nth_error e b) eqn:E; [| discriminate].
    apply nth_error_Some. rewrite E; discriminate.
  Qed.

  Lemma orig_of_app_cases : forall e x b l, orig_of (e ++ [x]) b = Some l ->
    ((b < List.length e)%nat /\ orig_of e b = Some l) \/ (b = List.length e /\ x = Some l).
  Proof.
    intros e x b l H. destruct (lt_dec b (List.length e)) as [Hl | Hl].
    - left; split; [exact Hl |]. rewrite orig_of_app_old in H by exact Hl. exact H.
    - right. pose proof (orig_of_lt _ _ _ H) as Hb. rewrite app_length in Hb; cbn in Hb.
      assert (b = List.length e) by lia. subst. rewrite orig_of_app_new in H. auto.
  Qed.

  Lemma origs_of_ok : forall s bs l, env_ok s -> origs_of (env s) bs = Some l ->
    Forall (settled s) l /\ Forall (fun id => (id < next s)%nat) l.
  Proof.
    intros s bs; induction bs as [| b r IH]; intros l He H; cbn in H.
    - inversion H; subst; split; constructor.
    - destruct (orig_of (env s) b) as [lb |] eqn:E1; [| discriminate].
      destruct (origs_of (env s) r) as [lr |] eqn:E2; [| discriminate].
      inversion H; subst. destruct (He _ _ E1) as [A B]. destruct (IH _ He eq_refl) as [C D].
      split; apply Forall_app; auto.
  Qed.

  (** the combined list of a construction: the new store agrees with the old one below [next],
      the inherited entries and the copies are settled, the rest are the user's [d_cs] *)
  Lemma gather_spec : forall s d f nx all, good s -> desc_ok d -> gather s d = Some (f, nx, all) ->
    (next s <= nx)%nat /\ (forall id, (id < next s)%nat -> f id = objs s id) /\
    Forall (fun id => (id < nx)%nat) all /\
    exists inh, (all = inh ++ d_cs d \/ all = d_cs d ++ inh) /\ Forall (fun id => settled_obj (f id)) inh.
  Proof.
    intros s d f nx all [Hn [Hu He]] [Hcs _] H. unfold gather in H.
    assert (Hcs' : Forall (fun id => (id < next s)%nat) (d_cs d)).
    { eapply Forall_impl; [| exact Hcs]. cbn; intros; lia. }
    destruct (d_kind d) as [| i | bs | o i k |].
    - inversion H; subst. repeat split; auto. exists []. split; [left; reflexivity | constructor].
    - destruct (orig_of (env s) i) as [l |] eqn:E; [| discriminate]. inversion H; subst.
      destruct (He _ _ E) as [A B]. repeat split; auto; [apply Forall_app; auto |].
      exists l; split; [left; reflexivity | exact A].
    - destruct (origs_of (env s) bs) as [l |] eqn:E; [| discriminate]. inversion H; subst.
      destruct (origs_of_ok _ _ _ He E) as [A B]. repeat split; auto; [apply Forall_app; auto |].
      exists l; split; [right; reflexivity | exact A].
    - destruct (orig_of (env s) o) as [lo |] eqn:Eo; [| discriminate].
      destruct (orig_of (env s) i) as [li |] eqn:Ei; [| discriminate].
      destruct (copy_sustain (objs s) (next s) lo k) as [[[f1 nx1] copies] |] eqn:C; [| discriminate].
      inversion H; subst; clear H.
      destruct (He _ _ Eo) as [Ao Bo]. destruct (He _ _ Ei) as [Ai Bi].
      destruct (copy_sustain_spec _ _ _ _ _ _ _ Bo C) as [N1 [L1 [F1 S1]]].
      repeat split.
      + lia.
      + exact F1.
      + apply Forall_app; split; [| apply Forall_app; split].
        * subst copies. apply Forall_forall. intros x Hx. apply in_seq in Hx. lia.
        * eapply Forall_impl; [| exact Bi]. cbn; intros; lia.
        * eapply Forall_impl; [| exact Hcs']. cbn; intros; lia.
      + exists (copies ++ li). split; [left; rewrite app_assoc; reflexivity |].
        apply Forall_app; split.
        * clear - Ao S1. induction S1 as [| a c ra rc Hs Hr IH]; [constructor |].
          inversion Ao; subst. constructor; [| apply IH; assumption].
          eapply sustain_settled; [| exact Hs]. assumption.
        * rewrite Forall_forall in *. intros x Hx. rewrite F1 by (apply Bi; exact Hx). apply Ai; exact Hx.
    - discriminate.
  Qed.

  Lemma build_good : forall s d, good s -> desc_ok d -> good (fst (build s d)).
  Proof.
    intros s d G D. unfold build.
    destruct (gather s d) as [[[f nx] all] |] eqn:Ga.
    - destruct (gather_spec _ _ _ _ _ G D Ga) as [Hnx [Hf [Hall [inh [Hsplit Hinh]]]]].
      destruct G as [Hn [Hu He]]. destruct D as [Hcs Hgc]. cbn [fst].
      set (f1 := write_mtr f all (d_copied d) (g_trials (d_geom d))).
      set (f2 := init_all f1 all (d_geom d)).
      assert (V1 : forall id, view (f1 id) = view (f id)) by (intro; apply write_mtr_view).
      assert (Fld : forall id, c_kind (f2 id) = c_kind (f id) /\ c_k (f2 id) = c_k (f id) /\ c_trials (f2 id) = c_trials (f id)).
      { intro id. destruct (init_all_fields all f1 (d_geom d) id) as [A [B C]].
        destruct (view_inv _ _ (V1 id)) as [A' [_ [B' C']]]. unfold f2. rewrite A, B, C; auto. }
      assert (Inall : forall id, In id all -> In id inh \/ In id (d_cs d)).
      { intros id Hi. destruct Hsplit as [-> | ->]; apply in_app_or in Hi; tauto. }
      split; [cbn; lia |]. split.
      + (* user objects *)
        intros c Hc. cbn [objs]. destruct (Fld c) as [A [B C]]. rewrite A, B, C.
        rewrite Hf by lia. destruct (Hu c Hc) as [K [Kk [T W]]]. repeat split; auto.
        destruct W as [W | W].
        * (* unset so far *)
          destruct (in_dec Nat.eq_dec c all) as [Hi | Hi].
          -- destruct (has_within (c_kind (uobj c))) eqn:Hw.
             ++ right; split; [reflexivity |].
                assert (Hu1 : c_within (f1 c) = None).
                { destruct (view_inv _ _ (V1 c)) as [_ [W1 _]]. rewrite W1, Hf by lia. exact W. }
                assert (Hk1 : has_within (c_kind (f1 c)) = true).
                { destruct (view_inv _ _ (V1 c)) as [K1 _]. rewrite K1, Hf by lia. rewrite K; exact Hw. }
                unfold f2. rewrite (init_all_in_unsettled all f1 (d_geom d) c Hi Hk1 Hu1).
                f_equal. destruct (Inall c Hi) as [Hin | Hin].
                ** (* an inherited entry is settled: contradiction with unset *)
                   exfalso. rewrite Forall_forall in Hinh. specialize (Hinh c Hin).
                   unfold settled_obj in Hinh. rewrite Hf in Hinh by lia. rewrite K in Hinh. apply (Hinh Hw). exact W.
                ** rewrite Forall_forall in Hgc. apply Hgc; assumption.
             ++ left. unfold f2. rewrite init_all_within_settled.
                ** destruct (view_inv _ _ (V1 c)) as [_ [W1 _]]. rewrite W1, Hf by lia. exact W.
                ** intro Hk. destruct (view_inv _ _ (V1 c)) as [K1 _]. rewrite K1, Hf in Hk by lia. rewrite K in Hk. congruence.
          -- left. unfold f2. rewrite init_all_notin by exact Hi.
             destruct (view_inv _ _ (V1 c)) as [_ [W1 _]]. rewrite W1, Hf by lia. exact W.
        * right. destruct W as [Hw W]. split; [exact Hw |]. unfold f2. rewrite init_all_within_settled.
          -- destruct (view_inv _ _ (V1 c)) as [_ [W1 _]]. rewrite W1, Hf by lia. exact W.
          -- intros _. destruct (view_inv _ _ (V1 c)) as [_ [W1 _]]. rewrite W1, Hf by lia. rewrite W; discriminate.
      + (* env *)
        intros b l Hb. cbn [env objs next] in *.
        destruct (orig_of_app_cases _ _ _ _ Hb) as [[Hlt Ho] | [-> Hx]].
        * destruct (He _ _ Ho) as [A B]. split.
          -- rewrite Forall_forall in *. intros x Hx. unfold settled; cbn [objs].
             assert (Sx : settled_obj (f1 x)).
             { eapply settled_view; [symmetry; apply V1 |]. rewrite Hf by (apply B; exact Hx). apply A; exact Hx. }
             eapply settled_view; [symmetry; apply init_all_view_settled; exact Sx | exact Sx].
          -- eapply Forall_impl; [| exact B]. cbn; intros; lia.
        * inversion Hx; subst l. split; [| exact Hall].
          rewrite Forall_forall. intros x Hx'. unfold settled; cbn [objs]. apply init_all_in_settles; exact Hx'.
    - cbn [fst]. destruct G as [Hn [Hu He]]. split; [exact Hn |]. split; [exact Hu |].
      intros b l Hb. cbn [env] in Hb.
      destruct (orig_of_app_cases _ _ _ _ Hb) as [[Hlt Ho] | [_ Hx]]; [| discriminate].
      apply He in Ho. exact Ho.
  Qed.

  (** objects that existed and were settled keep their view through a construction *)
  Lemma build_frame : forall s d id, good s -> desc_ok d -> (id < next s)%nat -> settled s id ->
    view (objs (fst (build s d)) id) = view (objs s id).
  Proof.
    intros s d id G D Hid S. unfold build.
    destruct (gather s d) as [[[f nx] all] |] eqn:Ga; [| reflexivity].
    destruct (gather_spec _ _ _ _ _ G D Ga) as [Hnx [Hf _]]. cbn [fst objs].
    assert (S1 : settled_obj (write_mtr f all (d_copied d) (g_trials (d_geom d)) id)).
    { eapply settled_view; [symmetry; apply write_mtr_view |]. rewrite Hf by exact Hid. exact S. }
    rewrite init_all_view_settled by exact S1. rewrite write_mtr_view. rewrite Hf by exact Hid. reflexivity.
  Qed.

  (* ---------------------------------------------------------------- simulation of the twin *)

  Variable keep : nat -> bool.

  Definition vrel (F M : state) (lF lM : list nat) : Prop :=
    Forall2 (fun a b => view (objs F a) = view (objs M b)) lF lM.

  (** the kept blocks built so far have the same constraint views in both runs *)
  Definition kept_rel (F M : state) : Prop :=
    forall b, keep b = true -> (b < List.length (env F))%nat ->
      (orig_of (env F) b = None /\ orig_of (env M) b = None) \/
      (exists lF lM, orig_of (env F) b = Some lF /\ orig_of (env M) b = Some lM /\ vrel F M lF lM).

  Definition sim (F M : state) : Prop :=
    good F /\ good M /\ List.length (env F) = List.length (env M) /\ kept_rel F M.

  Lemma vrel_summary : forall F M lF lM, vrel F M lF lM ->
    map (fun i => view (objs F i)) lF = map (fun i => view (objs M i)) lM.
  Proof. intros F M lF lM H; induction H; cbn; [reflexivity | f_equal; assumption]. Qed.

  Lemma vrel_frame : forall F M F' M' lF lM,
    (forall a, In a lF -> view (objs F' a) = view (objs F a)) ->
    (forall b, In b lM -> view (objs M' b) = view (objs M b)) ->
    vrel F M lF lM -> vrel F' M' lF lM.
  Proof.
    intros F M F' M' lF lM HF HM H; induction H as [| a b ra rb Hab Hr IH]; [constructor |].
    constructor.
    - rewrite HF, HM by (left; reflexivity). exact Hab.
    - apply IH; intros; [apply HF | apply HM]; right; assumption.
  Qed.

  Lemma origs_of_rel : forall F M bs, kept_rel F M -> List.length (env F) = List.length (env M) ->
    Forall (fun b => keep b = true /\ (b < List.length (env F))%nat) bs ->
    (origs_of (env F) bs = None /\ origs_of (env M) bs = None) \/
    (exists lF lM, origs_of (env F) bs = Some lF /\ origs_of (env M) bs = Some lM /\ vrel F M lF lM).
  Proof.
    intros F M bs K L H; induction H as [| b r [Hk Hb] Hr IH]; cbn.
    - right; exists [], []; repeat split; constructor.
    - destruct (K b Hk Hb) as [[A B] | [lF [lM [A [B V]]]]].
      + left; rewrite A, B; auto.
      + rewrite A, B. destruct IH as [[C D] | [rF [rM [C [D V2]]]]].
        * left; rewrite C, D; auto.
        * right; rewrite C, D. exists (lF ++ rF), (lM ++ rM); repeat split. apply Forall2_app; assumption.
  Qed.

  (** copies of related lists are related *)
  Lemma copy_rel : forall lF lM fF fM nF nM k, Forall2 (fun a b => view (fF a) = view (fM b)) lF lM ->
    Forall (fun i => (i < nF)%nat) lF -> Forall (fun i => (i < nM)%nat) lM ->
    Forall (fun i => settled_obj (fF i)) lF ->
    exists fF' nF' cF fM' nM' cM,
      copy_sustain fF nF lF k = Some (fF', nF', cF) /\ copy_sustain fM nM lM k = Some (fM', nM', cM) /\
      Forall2 (fun a b => view (fF' a) = view (fM' b)) cF cM.
  Proof.
    intros lF lM fF fM nF nM k H; revert lM fF fM nF nM H.
    induction lF as [| a ra IH]; intros lM fF fM nF nM H HF HM HS; inversion H; subst.
    - exists fF, nF, [], fM, nM, []. repeat split; constructor.
    - rename l' into rb. rename y into b.
      inversion HF; subst. inversion HM; subst. inversion HS; subst.
      pose proof (sustain_view _ _ k H2) as Sv.
      destruct (sustain_within_block (fF a) k) as [oa |] eqn:Sa;
        [| exfalso; eapply sustain_some_of_settled; eauto].
      destruct (sustain_within_block (fM b) k) as [ob |] eqn:Sb; [| contradiction].
      destruct (IH rb (upd fF nF oa) (upd fM nM ob) (S nF) (S nM)) as [fF' [nF' [cF [fM' [nM' [cM [CF [CM R]]]]]]]].
      + eapply Forall2_impl_in; [| exact H4]. intros x y Hx Hy Hv. cbn in Hv.
        rewrite Forall_forall in H5, H7.
        rewrite !upd_other; [exact Hv | |]; [specialize (H7 y Hy) | specialize (H5 x Hx)]; lia.
      + eapply Forall_impl; [| exact H5]; cbn; intros; lia.
      + eapply Forall_impl; [| exact H7]; cbn; intros; lia.
      + rewrite Forall_forall in *. intros x Hx. rewrite upd_other; [apply H9; exact Hx |].
        specialize (H5 x Hx); lia.
      + exists fF', nF', (nF :: cF), fM', nM', (nM :: cM). cbn. rewrite Sa, Sb, CF, CM. repeat split.
        constructor; [| exact R].
        destruct (copy_sustain_spec _ _ _ _ _ _ _ (Forall_impl _ (fun x (h : (x < nF)%nat) => Nat.lt_lt_succ_r _ _ h) H5) CF)
          as [_ [_ [FF _]]].
        destruct (copy_sustain_spec _ _ _ _ _ _ _ (Forall_impl _ (fun x (h : (x < nM)%nat) => Nat.lt_lt_succ_r _ _ h) H7) CM)
          as [_ [_ [FM _]]].
        rewrite FF, FM by lia. rewrite !upd_same. exact Sv.
  Qed.

  (** two good states agree on the view of a settled user object *)
  Lemma user_view_eq : forall F M c, user_ok F -> user_ok M -> (c < n)%nat -> settled F c -> settled M c ->
    view (objs F c) = view (objs M c).
  Proof.
    intros F M c HF HM Hc SF SM.
    destruct (HF c Hc) as [K1 [Kk1 [T1 W1]]]. destruct (HM c Hc) as [K2 [Kk2 [T2 W2]]].
    apply view_eq_fields; try congruence.
    unfold settled, settled_obj in SF, SM. rewrite K1 in SF. rewrite K2 in SM.
    destruct W1 as [W1 | [Hw W1]]; destruct W2 as [W2 | [Hw2 W2]]; try congruence.
    - exfalso. apply (SF Hw2). exact W1.
    - exfalso. apply (SM Hw). exact W2.
  Qed.

  (** the combined lists of a kept construction are related *)
  Lemma gather_rel : forall F M d, sim F M -> desc_ok d ->
    Forall (fun b => keep b = true /\ (b < List.length (env F))%nat) (deps d) ->
    (gather F d = None /\ gather M d = None) \/
    (exists fF nF allF fM nM allM inhF inhM,
       gather F d = Some (fF, nF, allF) /\ gather M d = Some (fM, nM, allM) /\
       ((allF = inhF ++ d_cs d /\ allM = inhM ++ d_cs d) \/ (allF = d_cs d ++ inhF /\ allM = d_cs d ++ inhM)) /\
       Forall2 (fun a b => view (fF a) = view (fM b)) inhF inhM /\
       Forall (fun a => settled_obj (fF a)) inhF /\ Forall (fun b => settled_obj (fM b)) inhM).
  Proof.
    intros F M d [GF [GM [L K]]] D Hd. unfold gather, deps in *.
    destruct GF as [HnF [HuF HeF]]. destruct GM as [HnM [HuM HeM]].
    destruct (d_kind d) as [| i | bs | o i k |].
    - right. exists (objs F), (next F), (d_cs d), (objs M), (next M), (d_cs d), [], [].
      repeat split; auto; constructor.
    - inversion Hd as [| ? ? [Hk Hb] _]; subst.
      destruct (K i Hk Hb) as [[A B] | [lF [lM [A [B V]]]]].
      + left; rewrite A, B; auto.
      + right. rewrite A, B. exists (objs F), (next F), (lF ++ d_cs d), (objs M), (next M), (lM ++ d_cs d), lF, lM.
        repeat split; auto. * apply (HeF _ _ A). * apply (HeM _ _ B).
    - destruct (origs_of_rel F M bs K L Hd) as [[A B] | [lF [lM [A [B V]]]]].
      + left; rewrite A, B; auto.
      + right. rewrite A, B. exists (objs F), (next F), (d_cs d ++ lF), (objs M), (next M), (d_cs d ++ lM), lF, lM.
        repeat split; auto.
        * apply (origs_of_ok F bs lF HeF A).
        * apply (origs_of_ok M bs lM HeM B).
    - inversion Hd as [| ? ? [Hko Hbo] Hd']; subst. inversion Hd' as [| ? ? [Hki Hbi] _]; subst.
      destruct (K o Hko Hbo) as [[A B] | [loF [loM [A [B Vo]]]]].
      + left; rewrite A, B; auto.
      + rewrite A, B.
        destruct (K i Hki Hbi) as [[A2 B2] | [liF [liM [A2 [B2 Vi]]]]].
        * left; rewrite A2, B2; auto.
        * rewrite A2, B2.
          destruct (HeF _ _ A) as [SoF BoF]. destruct (HeM _ _ B) as [SoM BoM].
          destruct (HeF _ _ A2) as [SiF BiF]. destruct (HeM _ _ B2) as [SiM BiM].
          destruct (copy_rel loF loM (objs F) (objs M) (next F) (next M) k Vo BoF BoM SoF)
            as [fF' [nF' [cF [fM' [nM' [cM [CF [CM R]]]]]]]].
          rewrite CF, CM. right.
          destruct (copy_sustain_spec _ _ _ _ _ _ _ BoF CF) as [_ [_ [FF SF]]].
          destruct (copy_sustain_spec _ _ _ _ _ _ _ BoM CM) as [_ [_ [FM SM]]].
          exists fF', nF', (cF ++ liF ++ d_cs d), fM', nM', (cM ++ liM ++ d_cs d), (cF ++ liF), (cM ++ liM).
          repeat split; auto.
          -- left; rewrite !app_assoc; auto.
          -- apply Forall2_app; [exact R |].
             eapply Forall2_impl_in; [| exact Vi]. intros a b Ha Hb Hv. cbn in Hv.
             rewrite Forall_forall in BiF, BiM. rewrite FF, FM by auto. exact Hv.
          -- apply Forall_app; split.
             ++ clear - SoF SF. induction SF as [| a c ra rc Hs Hr IH]; [constructor |].
                inversion SoF; subst. constructor; [| apply IH; assumption].
                eapply sustain_settled; [| exact Hs]. assumption.
             ++ rewrite Forall_forall in *. intros x Hx. rewrite FF by auto. apply SiF; exact Hx.
          -- apply Forall_app; split.
             ++ clear - SoM SM. induction SM as [| a c ra rc Hs Hr IH]; [constructor |].
                inversion SoM; subst. constructor; [| apply IH; assumption].
                eapply sustain_settled; [| exact Hs]. assumption.
             ++ rewrite Forall_forall in *. intros x Hx. rewrite FM by auto. apply SiM; exact Hx.
    - left; auto.
  Qed.

  Lemma kept_rel_frame : forall F M F' M' x y,
    good F -> good M -> List.length (env F) = List.length (env M) -> kept_rel F M ->
    env F' = env F ++ [x] -> env M' = env M ++ [y] ->
    (forall id, (id < next F)%nat -> settled F id -> view (objs F' id) = view (objs F id)) ->
    (forall id, (id < next M)%nat -> settled M id -> view (objs M' id) = view (objs M id)) ->
    (keep (List.length (env F)) = true ->
       (x = None /\ y = None) \/ (exists lF lM, x = Some lF /\ y = Some lM /\ vrel F' M' lF lM)) ->
    kept_rel F' M'.
  Proof.
    intros F M F' M' x y GF GM L K EF EM FrF FrM New b Hk Hb.
    rewrite EF, EM. rewrite EF, app_length in Hb; cbn in Hb.
    destruct (lt_dec b (List.length (env F))) as [Hlt | Hge].
    - rewrite !orig_of_app_old by lia.
      destruct (K b Hk Hlt) as [[A B] | [lF [lM [A [B V]]]]]; [left; auto | right].
      exists lF, lM; repeat split; auto.
      destruct GF as [_ [_ HeF]]. destruct GM as [_ [_ HeM]].
      destruct (HeF _ _ A) as [SF BF]. destruct (HeM _ _ B) as [SM BM].
      rewrite Forall_forall in *.
      eapply vrel_frame; [| | exact V]; intros; [apply FrF | apply FrM]; auto.
    - assert (b = List.length (env F)) by lia. subst b.
      assert (E2 : orig_of (env M ++ [y]) (List.length (env F)) = y) by (rewrite L; apply orig_of_app_new).
      rewrite orig_of_app_new, E2.
      destruct (New Hk) as [[-> ->] | [lF [lM [-> [-> V]]]]]; [left; auto | right; exists lF, lM; auto].
  Qed.

  (** a kept construction: same outcome in both runs *)
  Lemma build_sim_keep : forall F M d, sim F M -> desc_ok d ->
    Forall (fun b => keep b = true /\ (b < List.length (env F))%nat) (deps d) ->
    sim (fst (build F d)) (fst (build M d)) /\ snd (build F d) = snd (build M d).
  Proof.
    intros F M d S D Hd.
    pose proof S as [GF [GM [L K]]].
    pose proof (build_good F d GF D) as GF'. pose proof (build_good M d GM D) as GM'.
    destruct (gather_rel F M d S D Hd) as [[A B] | [fF [nF [allF [fM [nM [allM [inhF [inhM [A [B [Sp [V [SF SM]]]]]]]]]]]]]].
    - (* both constructions fail *)
      assert (EF : build F d = ({| objs := objs F; next := next F; env := env F ++ [None] |}, None)) by (unfold build; rewrite A; reflexivity).
      assert (EM : build M d = ({| objs := objs M; next := next M; env := env M ++ [None] |}, None)) by (unfold build; rewrite B; reflexivity).
      rewrite EF, EM in *. cbn [fst snd] in *. split; [| reflexivity].
      split; [exact GF' |]. split; [exact GM' |]. split; [cbn; rewrite !app_length; cbn; lia |].
      apply (kept_rel_frame F M _ _ None None GF GM L K);
        [reflexivity | reflexivity | intros; reflexivity | intros; reflexivity | intros _; left; auto].
    - set (g := d_geom d) in *.
      set (f2F := init_all (write_mtr fF allF (d_copied d) (g_trials g)) allF g).
      set (f2M := init_all (write_mtr fM allM (d_copied d) (g_trials g)) allM g).
      assert (EF : build F d = ({| objs := f2F; next := nF; env := env F ++ [Some allF] |},
                                Some (map (fun i => view (f2F i)) allF))) by (unfold build; rewrite A; reflexivity).
      assert (EM : build M d = ({| objs := f2M; next := nM; env := env M ++ [Some allM] |},
                                Some (map (fun i => view (f2M i)) allM))) by (unfold build; rewrite B; reflexivity).
      (* the views of the two new lists agree entry by entry *)
      assert (Vinh : Forall2 (fun a b => view (f2F a) = view (f2M b)) inhF inhM).
      { eapply Forall2_impl_in; [| exact V]. intros a b Ha Hb Hv. cbn in Hv.
        rewrite Forall_forall in SF, SM.
        unfold f2F, f2M.
        rewrite !init_all_view_settled, !write_mtr_view; auto;
          (eapply settled_view; [symmetry; apply write_mtr_view |]); auto. }
      assert (Vcs : Forall2 (fun a b => view (f2F a) = view (f2M b)) (d_cs d) (d_cs d)).
      { destruct D as [Hcs _]. rewrite EF in GF'. rewrite EM in GM'. cbn [fst] in GF', GM'.
        destruct GF' as [_ [HuF' _]]. destruct GM' as [_ [HuM' _]].
        assert (Hin : forall c, In c (d_cs d) -> view (f2F c) = view (f2M c)).
        { intros c Hc. rewrite Forall_forall in Hcs.
          apply (user_view_eq {| objs := f2F; next := nF; env := env F ++ [Some allF] |}
                              {| objs := f2M; next := nM; env := env M ++ [Some allM] |} c HuF' HuM' (Hcs c Hc));
            unfold settled; cbn [objs]; apply init_all_in_settles;
            destruct Sp as [[-> ->] | [-> ->]]; apply in_or_app; auto. }
        clear - Hin. induction (d_cs d) as [| c r IH]; constructor; [apply Hin; left; auto | apply IH; intros; apply Hin; right; auto]. }
      assert (Vall : Forall2 (fun a b => view (f2F a) = view (f2M b)) allF allM).
      { destruct Sp as [[-> ->] | [-> ->]]; apply Forall2_app; assumption. }
      rewrite EF, EM in *. cbn [fst snd] in *. split.
      + split; [exact GF' |]. split; [exact GM' |]. split; [cbn; rewrite !app_length; cbn; lia |].
        apply (kept_rel_frame F M _ _ (Some allF) (Some allM) GF GM L K); [reflexivity | reflexivity | | |].
        * intros id Hid Sid. cbn [objs]. pose proof (build_frame F d id GF D Hid Sid) as Fr.
          rewrite EF in Fr. exact Fr.
        * intros id Hid Sid. cbn [objs]. pose proof (build_frame M d id GM D Hid Sid) as Fr.
          rewrite EM in Fr. exact Fr.
        * intros _. right. exists allF, allM. repeat split. exact Vall.
      + f_equal. apply (Forall2_map_eq (fun i => view (f2F i)) (fun i => view (f2M i))). exact Vall.
  Qed.

  (** a construction that the twin skips *)
  Lemma build_sim_skip : forall F M d, sim F M -> desc_ok d -> keep (List.length (env F)) = false ->
    sim (fst (build F d)) (fst (build M (skip_of d))).
  Proof.
    intros F M d S D Hk. pose proof S as [GF [GM [L K]]].
    pose proof (build_good F d GF D) as GF'.
    assert (EM : build M (skip_of d) = ({| objs := objs M; next := next M; env := env M ++ [None] |}, None)) by reflexivity.
    rewrite EM. cbn [fst].
    assert (GM' : good {| objs := objs M; next := next M; env := env M ++ [None] |}).
    { destruct GM as [HnM [HuM HeM]]. split; [exact HnM |]. split; [exact HuM |].
      intros b l Hb. cbn [env] in Hb.
      destruct (orig_of_app_cases _ _ _ _ Hb) as [[_ Ho] | [_ Hx]]; [apply HeM in Ho; exact Ho | discriminate]. }
    split; [exact GF' |]. split; [exact GM' |].
    assert (EnvF : exists x, env (fst (build F d)) = env F ++ [x]).
    { unfold build. destruct (gather F d) as [[[f nx] all] |]; cbn; eauto. }
    destruct EnvF as [x Ex]. split; [rewrite Ex; cbn; rewrite !app_length; cbn; lia |].
    apply (kept_rel_frame F M _ _ x None GF GM L K); [exact Ex | reflexivity | | |].
    - intros id Hid Sid. apply build_frame; auto.
    - intros; reflexivity.
    - intros Hk'. congruence.
  Qed.

  Lemma run_cons : forall s d r, run s (d :: r) =
    (fst (run (fst (build s d)) r), snd (build s d) :: snd (run (fst (build s d)) r)).
  Proof. intros s d r; cbn. destruct (build s d) as [s1 o]. cbn [fst snd]. destruct (run s1 r) as [s2 os]. reflexivity. Qed.

  Lemma run_sim : forall ds j F M, sim F M -> List.length (env F) = j ->
    (forall d, In d ds -> desc_ok d) -> wf_from n j ds = true -> closed_from keep j ds = true ->
    forall i, keep (j + i) = true ->
      nth_error (snd (run F ds)) i = nth_error (snd (run M (mask_from keep j ds))) i.
  Proof.
    induction ds as [| d r IH]; intros j F M Sm Hj Hok Hwf Hcl i Hi; [destruct i; reflexivity |].
    cbn [mask_from]. cbn in Hwf, Hcl.
    apply andb_true_iff in Hwf; destruct Hwf as [Hwf1 Hwf]. apply andb_true_iff in Hwf1; destruct Hwf1 as [Hdeps _].
    apply andb_true_iff in Hcl; destruct Hcl as [Hcl1 Hcl].
    assert (D : desc_ok d) by (apply Hok; left; reflexivity).
    rewrite !run_cons. cbn [snd].
    assert (Lenv : forall s x, exists y, env (fst (build s x)) = env s ++ [y]).
    { intros s x; unfold build. destruct (gather s x) as [[[f nx] all] |]; cbn; eauto. }
    destruct (keep j) eqn:Kj.
    - assert (Hd : Forall (fun b => keep b = true /\ (b < List.length (env F))%nat) (deps d)).
      { rewrite Forall_forall. intros b Hb. rewrite forallb_forall in Hcl1, Hdeps. split; [apply Hcl1; exact Hb |].
        specialize (Hdeps b Hb). apply Nat.ltb_lt in Hdeps. lia. }
      destruct (build_sim_keep F M d Sm D Hd) as [Sm' E].
      destruct i as [| i]; [cbn; rewrite E; reflexivity |]. cbn [nth_error].
      apply IH with (j := S j); auto.
      + destruct (Lenv F d) as [y Ey]. rewrite Ey, app_length; cbn; lia.
      + intros; apply Hok; right; assumption.
      + replace (S j + i)%nat with (j + S i)%nat by lia. exact Hi.
    - destruct i as [| i]; [replace (j + 0)%nat with j in Hi by lia; congruence |]. cbn [nth_error].
      apply IH with (j := S j); auto.
      + apply build_sim_skip; auto. rewrite Hj; exact Kj.
      + destruct (Lenv F d) as [y Ey]. rewrite Ey, app_length; cbn; lia.
      + intros; apply Hok; right; assumption.
      + replace (S j + i)%nat with (j + S i)%nat by lia. exact Hi.
  Qed.

  Lemma sim_init : sim (init_state user) (init_state user).
  Proof.
    split; [apply good_init |]. split; [apply good_init |]. split; [reflexivity |].
    intros b _ Hb. cbn in Hb. lia.
  Qed.
End Guarded.

(** the guard: a constraint object that has a [within_block] is handed only to constructions of one geometry *)
Definition consistent (user : list cobj) (gc : nat -> geom) (ds : list desc) : Prop :=
  forall d, In d ds -> forall c, In c (d_cs d) -> has_within (c_kind (nth c user default_obj)) = true -> d_geom d = gc c.

Lemma wf_from_cs : forall nuser ds j d, wf_from nuser j ds = true -> In d ds -> Forall (fun c => (c < nuser)%nat) (d_cs d).
Proof.
  intros nuser ds; induction ds as [| x r IH]; intros j d H Hin; [destruct Hin |].
  cbn in H. apply andb_true_iff in H; destruct H as [H1 H2]. apply andb_true_iff in H1; destruct H1 as [_ H1].
  destruct Hin as [-> | Hin]; [| eapply IH; eauto].
  rewrite Forall_forall. intros c Hc. rewrite forallb_forall in H1. apply Nat.ltb_lt. apply H1; exact Hc.
Qed.

Theorem history_independent_guarded : forall (user : list cobj) (gc : nat -> geom) (ds : list desc) (keep : nat -> bool) (i : nat),
  wf (List.length user) ds = true -> consistent user gc ds -> closed keep ds = true -> keep i = true ->
  nth_error (snd (run (init_state user) ds)) i = nth_error (snd (run (init_state user) (mask keep ds))) i.
Proof.
  intros user gc ds keep i Hwf Hc Hcl Hk. unfold mask.
  apply (run_sim user gc keep ds 0%nat (init_state user) (init_state user)); auto.
  - apply sim_init.
  - intros d Hd. split.
    + eapply wf_from_cs; eauto.
    + rewrite Forall_forall. intros c Hcin Hw. eapply Hc; eauto.
Qed.

Lemma closure_keeps : forall ds fuel set x, In x set -> In x (closure ds fuel set).
Proof.
  intros ds fuel; induction fuel as [| k IH]; intros set x H; cbn; [exact H |].
  apply IH. apply in_or_app; left; exact H.
Qed.

Lemma keep_of_self : forall ds i, keep_of ds i i = true.
Proof.
  intros ds i; unfold keep_of. apply existsb_exists. exists i. split; [| apply Nat.eqb_refl].
  apply closure_keeps. left; reflexivity.
Qed.

(** the form used by the check: the summary of a block built in the shared program equals that of its fresh twin *)
Corollary shared_eq_fresh_guarded : forall user gc ds i,
  wf (List.length user) ds = true -> consistent user gc ds -> closed (keep_of ds i) ds = true ->
  shared_summary user ds i = fresh_summary user ds i.
Proof.
  intros user gc ds i Hwf Hc Hcl. unfold shared_summary, fresh_summary.
  rewrite (history_independent_guarded user gc ds (keep_of ds i) i Hwf Hc Hcl (keep_of_self ds i)). reflexivity.
Qed.

(** constraints without [within_block] can be shared freely: with no such object the guard is empty *)
Corollary shared_eq_fresh_no_within : forall user ds i,
  wf (List.length user) ds = true -> Forall (fun o => has_within (c_kind o) = false) user ->
  closed (keep_of ds i) ds = true ->
  shared_summary user ds i = fresh_summary user ds i.
Proof.
  intros user ds i Hwf Hn Hcl.
  apply (shared_eq_fresh_guarded user (fun _ => wit_g2) ds i Hwf); [| exact Hcl].
  intros d Hd c Hc Hw. exfalso.
  destruct (lt_dec c (List.length user)) as [Hlt | Hge].
  - rewrite Forall_forall in Hn. rewrite (Hn (nth c user default_obj)) in Hw; [discriminate | apply nth_In; exact Hlt].
  - rewrite nth_overflow in Hw by lia. discriminate.
Qed.

(** a guarded example with shared objects: the same AtMostKInARow object in two blocks of one geometry,
    one of them repeated, and an ExactlyK object on the outer block of a Nest *)
Definition ex_user : list cobj :=
  [ {| c_kind := KAtMost; c_within := None; c_k := 1; c_trials := 0; c_mtr := None |};
    {| c_kind := KExactlyK; c_within := None; c_k := 1; c_trials := 0; c_mtr := None |};
    {| c_kind := KMinTrials; c_within := None; c_k := 0; c_trials := 4; c_mtr := None |} ].
Definition ex_prog : list desc :=
  [ {| d_kind := DLeaf; d_geom := wit_g2; d_cs := [0%nat; 1%nat]; d_copied := [] |};
    {| d_kind := DLeaf; d_geom := wit_g2; d_cs := [0%nat]; d_copied := [] |};
    {| d_kind := DRepeat 0; d_geom := wit_g4; d_cs := [2%nat]; d_copied := [] |};
    {| d_kind := DNest 0 1 2; d_geom := wit_g4; d_cs := []; d_copied := [] |} ].

Lemma ex_guarded :
  wf (List.length ex_user) ex_prog = true /\ consistent ex_user (fun _ => wit_g2) ex_prog /\
  closed (keep_of ex_prog 3) ex_prog = true /\
  shared_summary ex_user ex_prog 3 =
    Some [(KAtMost, Some (gsustain wit_g2 2), 1, 0); (KExactlyK, Some (gsustain wit_g2 2), 2, 0); (KAtMost, Some wit_g2, 1, 0)].
Proof.
  split; [reflexivity |]. split; [| split; reflexivity].
  intros d Hd c Hc Hw. cbn in Hd.
  destruct Hd as [<- | [<- | [<- | [<- | []]]]]; cbn in Hc |- *; try reflexivity.
  - destruct Hc as [<- | []]. cbn in Hw. discriminate.
  - destruct Hc.
Qed.
