(** Proofs about Hist/Reuse.v (property C18), for the code after /repo commit 88b3d0f
    ([_create] works on private copies of the constraint objects it is given).

    [build_never_writes]: a construction never writes an object that existed before it
    (the store only grows); in particular the user's objects stay as they were created.

    [history_independent]: for every build sequence and every dependency-closed set [keep]
    of blocks, each kept block gets the same summary whether the whole sequence is built on
    the shared store or only the kept blocks are built (fresh twin) - without any condition
    on how constraint objects are shared.

    [old_witness_independent]: the program that refuted this statement for the code before
    the repair (one AtMostKInARow object in a 2-trial and a 4-trial CrossBlock). *)
From Coq Require Import ZArith List Bool Arith Lia.
From SP Require Import Hist.Reuse.
Import ListNotations.
Open Scope Z_scope.

Definition wit_g2 : geom := {| g_trials := 2; g_preamble := 0; g_sustain := [(0, 1)] |}.
Definition wit_g4 : geom := {| g_trials := 4; g_preamble := 0; g_sustain := [(0, 1); (1, 1)] |}.
Definition wit_user : list cobj :=
  [ {| c_kind := KAtMost; c_within := None; c_k := 1; c_trials := 0; c_mtr := None |} ].
(** c = AtMostKInARow(1, (f, "a"));  CrossBlock([f],[f],[c]) (2 trials);  CrossBlock([f,g],[f,g],[c]) (4 trials) *)
Definition wit_prog : list desc :=
  [ {| d_kind := DLeaf; d_geom := wit_g2; d_cs := [0%nat]; d_copied := [false] |};
    {| d_kind := DLeaf; d_geom := wit_g4; d_cs := [0%nat]; d_copied := [false] |} ].

Lemma old_witness_independent :
  wf (List.length wit_user) wit_prog = true /\ closed (keep_of wit_prog 1) wit_prog = true /\
  shared_summary wit_user wit_prog 0 = Some [(KAtMost, Some wit_g2, 1, 0)] /\
  shared_summary wit_user wit_prog 1 = Some [(KAtMost, Some wit_g4, 1, 0)] /\
  fresh_summary wit_user wit_prog 1 = Some [(KAtMost, Some wit_g4, 1, 0)] /\
  store_list (fst (run (init_state wit_user) wit_prog)) =
    [ {| c_kind := KAtMost; c_within := None; c_k := 1; c_trials := 0; c_mtr := None |};
      {| c_kind := KAtMost; c_within := Some wit_g2; c_k := 1; c_trials := 0; c_mtr := None |};
      {| c_kind := KAtMost; c_within := Some wit_g4; c_k := 1; c_trials := 0; c_mtr := None |} ].
Proof. vm_compute. repeat split; reflexivity. Qed.

Lemma Forall2_impl_in : forall {A B} (P Q : A -> B -> Prop) (l : list A) (l' : list B),
  (forall a b, In a l -> In b l' -> P a b -> Q a b) -> Forall2 P l l' -> Forall2 Q l l'.
Proof.
  intros A B P Q l l' H F; induction F as [| a b ra rb Hab Hr IH]; constructor.
  - apply H; [left | left |]; auto.
  - apply IH. intros; apply H; [right | right |]; assumption.
Qed.

Lemma Forall2_map_eq : forall {A B C} (f : A -> C) (g : B -> C) l l',
  Forall2 (fun a b => f a = g b) l l' -> map f l = map g l'.
Proof. intros A B C f g l l' H; induction H; cbn; [reflexivity | f_equal; assumption]. Qed.

(* ------------------------------------------------------------------ function updates *)

Lemma upd_same : forall f i o, upd f i o i = o.
Proof. intros; unfold upd; rewrite Nat.eqb_refl; reflexivity. Qed.

Lemma upd_other : forall f i o j, j <> i -> upd f i o j = f j.
Proof. intros f i o j H; unfold upd. destruct (Nat.eqb j i) eqn:E; [apply Nat.eqb_eq in E; contradiction | reflexivity]. Qed.

Lemma view_set_mtr : forall o m, view (set_mtr o m) = view o.
Proof. reflexivity. Qed.

Lemma write_mtr_view : forall all f cp t id, view (write_mtr f all cp t id) = view (f id).
Proof.
  induction all as [| i r IH]; intros f cp t id; cbn; [reflexivity |].
  rewrite IH. destruct (c_kind (f i)); try reflexivity.
  destruct (match cp with [] => false | b :: _ => b end); [reflexivity |].
  unfold upd. destruct (Nat.eqb id i) eqn:E; [| reflexivity].
  apply Nat.eqb_eq in E; subst. reflexivity.
Qed.

Definition init1 (f : nat -> cobj) (i : nat) (g : geom) : nat -> cobj := upd f i (init_within_block (f i) g).

Lemma init_all_cons : forall f i r g, init_all f (i :: r) g = init_all (init1 f i g) r g.
Proof. reflexivity. Qed.

Lemma init_within_fields : forall o g,
  c_kind (init_within_block o g) = c_kind o /\ c_k (init_within_block o g) = c_k o /\
  c_trials (init_within_block o g) = c_trials o.
Proof. intros o g; unfold init_within_block. destruct (has_within (c_kind o)); [destruct (c_within o) |]; auto. Qed.

Lemma init1_fields : forall f i g id,
  c_kind (init1 f i g id) = c_kind (f id) /\ c_k (init1 f i g id) = c_k (f id) /\ c_trials (init1 f i g id) = c_trials (f id).
Proof.
  intros f i g id; unfold init1, upd. destruct (Nat.eqb id i) eqn:E; [| auto].
  apply Nat.eqb_eq in E; subst. apply init_within_fields.
Qed.

Lemma init_all_fields : forall all f g id,
  c_kind (init_all f all g id) = c_kind (f id) /\ c_k (init_all f all g id) = c_k (f id) /\
  c_trials (init_all f all g id) = c_trials (f id).
Proof.
  induction all as [| i r IH]; intros f g id; [cbn; auto |].
  rewrite init_all_cons. destruct (IH (init1 f i g) g id) as [A [B C]].
  destruct (init1_fields f i g id) as [A' [B' C']]. rewrite A, B, C; auto.
Qed.


Lemma init_within_idem : forall o g, init_within_block (init_within_block o g) g = init_within_block o g.
Proof.
  intros o g; unfold init_within_block.
  destruct (has_within (c_kind o)) eqn:E; [| rewrite E; reflexivity].
  destruct (c_within o) eqn:W; cbn; rewrite E; [rewrite W |]; reflexivity.
Qed.

Lemma init_all_notin : forall all f g id, ~ In id all -> init_all f all g id = f id.
Proof.
  induction all as [| i r IH]; intros f g id H; [reflexivity |].
  rewrite init_all_cons, IH by (intro; apply H; right; assumption).
  unfold init1. apply upd_other. intro; subst; apply H; left; reflexivity.
Qed.


Lemma init_all_in : forall all f g id, In id all -> init_all f all g id = init_within_block (f id) g.
Proof.
  induction all as [| i r IH]; intros f g id H; [destruct H |].
  rewrite init_all_cons. destruct (in_dec Nat.eq_dec id r) as [Hr | Hr].
  - rewrite IH by exact Hr. unfold init1, upd. destruct (Nat.eqb id i) eqn:E; [| reflexivity].
    apply Nat.eqb_eq in E; subst. apply init_within_idem.
  - rewrite init_all_notin by exact Hr. destruct H as [-> | H]; [| contradiction].
    unfold init1. apply upd_same.
Qed.

Lemma write_mtr_notin : forall all f cp t id, ~ In id all -> write_mtr f all cp t id = f id.
Proof.
  induction all as [| i r IH]; intros f cp t id H; cbn; [reflexivity |].
  rewrite IH by (intro; apply H; right; assumption).
  destruct (c_kind (f i)); try reflexivity.
  destruct (match cp with [] => false | b :: _ => b end); [reflexivity |].
  apply upd_other. intro; subst; apply H; left; reflexivity.
Qed.

Lemma view_eq_fields : forall a b, c_kind a = c_kind b -> c_within a = c_within b -> c_k a = c_k b -> c_trials a = c_trials b ->
  view a = view b.
Proof. intros a b H1 H2 H3 H4; unfold view; rewrite H1, H2, H3, H4; reflexivity. Qed.

Lemma view_inv : forall a b, view a = view b ->
  c_kind a = c_kind b /\ c_within a = c_within b /\ c_k a = c_k b /\ c_trials a = c_trials b.
Proof. intros a b H; unfold view in H; inversion H; auto. Qed.


Lemma init_within_view : forall a b g, view a = view b -> view (init_within_block a g) = view (init_within_block b g).
Proof.
  intros a b g H; destruct (view_inv _ _ H) as [K [W [Kk T]]].
  unfold init_within_block. rewrite <- K, <- W.
  destruct (has_within (c_kind a)); [destruct (c_within a) |]; try exact H;
    apply view_eq_fields; cbn; congruence.
Qed.

Lemma sustain_view : forall a b n, view a = view b ->
  match sustain_within_block a n, sustain_within_block b n with
  | Some a', Some b' => view a' = view b'
  | None, None => True
  | _, _ => False
  end.
Proof.
  intros a b n H; destruct (view_inv _ _ H) as [K [W [Kk T]]].
  unfold sustain_within_block. rewrite <- K, <- W.
  destruct (c_kind a) eqn:Ka; try (destruct (c_within a) eqn:Wa); cbn; auto;
    apply view_eq_fields; cbn; congruence.
Qed.

Lemma copy_sustain_spec : forall ids f nx n f' nx' l,
  Forall (fun i => (i < nx)%nat) ids ->
  copy_sustain f nx ids n = Some (f', nx', l) ->
  nx' = (nx + List.length ids)%nat /\ l = seq nx (List.length ids) /\
  (forall id, (id < nx)%nat -> f' id = f id) /\
  Forall2 (fun i c => sustain_within_block (f i) n = Some (f' c)) ids l.
Proof.
  induction ids as [| i r IH]; intros f nx n f' nx' l Hlt H; cbn in H.
  - inversion H; subst. repeat split; auto; try (cbn; lia); try constructor.
  - destruct (sustain_within_block (f i) n) as [o |] eqn:Sus; [| discriminate].
    destruct (copy_sustain (upd f nx o) (S nx) r n) as [[[f2 nx2] l2] |] eqn:C; [| discriminate].
    inversion H; subst; clear H. inversion Hlt as [| ? ? Hi Hr]; subst.
    destruct (IH (upd f nx o) (S nx) n f' nx' l2) as [A [B [Cc D]]]; auto.
    { eapply Forall_impl; [| exact Hr]. cbn; intros; lia. }
    repeat split.
    + cbn; lia.
    + cbn. rewrite B. reflexivity.
    + intros id Hid. rewrite Cc by lia. apply upd_other; lia.
    + constructor.
      * rewrite Cc by lia. rewrite upd_same. exact Sus.
      * eapply Forall2_impl_in; [| exact D]. intros a b Ha Hb Hs. cbn in Hs.
        rewrite upd_other in Hs; [exact Hs |].
        assert ((a < nx)%nat) by (rewrite Forall_forall in Hr; apply Hr; exact Ha). lia.
Qed.


(** what [copy_all] does: new objects at [nx, nx + length ids) equal to the originals, old ones untouched *)
Lemma copy_all_spec : forall ids f nx f' nx' l,
  Forall (fun i => (i < nx)%nat) ids ->
  copy_all f nx ids = (f', nx', l) ->
  nx' = (nx + List.length ids)%nat /\ l = seq nx (List.length ids) /\
  (forall id, (id < nx)%nat -> f' id = f id) /\
  Forall2 (fun i c => f' c = f i) ids l.
Proof.
  induction ids as [| i r IH]; intros f nx f' nx' l Hlt H; cbn in H.
  - inversion H; subst. repeat split; auto; try (cbn; lia); try constructor.
  - destruct (copy_all (upd f nx (f i)) (S nx) r) as [[f2 nx2] l2] eqn:C.
    inversion H; subst; clear H. inversion Hlt as [| ? ? Hi Hr]; subst.
    destruct (IH (upd f nx (f i)) (S nx) f' nx' l2) as [A [B [Cc D]]]; auto.
    { eapply Forall_impl; [| exact Hr]. cbn; intros; lia. }
    repeat split.
    + cbn; lia.
    + cbn. rewrite B. reflexivity.
    + intros id Hid. rewrite Cc by lia. apply upd_other; lia.
    + constructor.
      * rewrite Cc by lia. apply upd_same.
      * eapply Forall2_impl_in; [| exact D]. intros a b Ha Hb Hs. cbn in Hs.
        rewrite upd_other in Hs; [exact Hs |].
        assert ((a < nx)%nat) by (rewrite Forall_forall in Hr; apply Hr; exact Ha). lia.
Qed.

(** transport of a pointwise relation along two other pointwise relations *)
Lemma Forall2_transport : forall {A B C D} (P : A -> B -> Prop) (R1 : A -> C -> Prop) (R2 : B -> D -> Prop)
  (Q : C -> D -> Prop) la lb lc ld,
  (forall a b c d, P a b -> R1 a c -> R2 b d -> Q c d) ->
  Forall2 P la lb -> Forall2 R1 la lc -> Forall2 R2 lb ld -> Forall2 Q lc ld.
Proof.
  intros A B C D P R1 R2 Q la lb lc ld H HP; revert lc ld.
  induction HP as [| a b ra rb Hab Hr IH]; intros lc ld H1 H2; inversion H1; subst; inversion H2; subst; constructor.
  - eapply H; eauto.
  - apply IH; assumption.
Qed.

(* ------------------------------------------------------------------ invariants of one run *)

Section Independent.
  Variable user : list cobj.
  Let n := List.length user.

  Definition uobj (c : nat) : cobj := nth c user default_obj.

  (** the user's objects are as they were created *)
  Definition user_ok (s : state) : Prop := forall c, (c < n)%nat -> objs s c = fresh (uobj c).

  (** every [orig_constraints] list holds existing objects *)
  Definition env_ok (s : state) : Prop :=
    forall b l, orig_of (env s) b = Some l -> Forall (fun id => (id < next s)%nat) l.

  Definition good (s : state) : Prop := (n <= next s)%nat /\ user_ok s /\ env_ok s.

  Definition desc_ok (d : desc) : Prop := Forall (fun c => (c < n)%nat) (d_cs d).

  Lemma good_init : good (init_state user).
  Proof.
    split; [cbn; unfold n; lia |]. split.
    - intros c Hc; reflexivity.
    - intros b l H. unfold orig_of in H; cbn in H. destruct b; discriminate.
  Qed.

  Lemma orig_of_app_old : forall e x b, (b < List.length e)%nat -> orig_of (e ++ [x]) b = orig_of e b.
  Proof. intros e x b H; unfold orig_of. rewrite nth_error_app1 by exact H. reflexivity. Qed.

  Lemma orig_of_app_new : forall e x, orig_of (e ++ [x]) (List.length e) = x.
  Proof.
    intros e x; unfold orig_of. rewrite nth_error_app2 by lia. rewrite Nat.sub_diag. cbn. destruct x; reflexivity.
  Qed.

  Lemma orig_of_lt : forall e b l, orig_of e b = Some l -> (b < List.length e)%nat.
  Proof.
    intros e b l H; unfold orig_of in H. destruct (nth_error e b) eqn:E; [| discriminate].
    apply nth_error_Some. rewrite E; discriminate.
  Qed.

  Lemma orig_of_app_cases : forall e x b l, orig_of (e ++ [x]) b = Some l ->
    ((b < List.length e)%nat /\ orig_of e b = Some l) \/ (b = List.length e /\ x = Some l).
  Proof.
    intros e x b l H. destruct (lt_dec b (List.length e)) as [Hl | Hl].
    - left; split; [exact Hl |]. rewrite orig_of_app_old in H by exact Hl. exact H.
    - right. pose proof (orig_of_lt _ _ _ H) as Hb. rewrite app_length in Hb; cbn in Hb.
      assert (b = List.length e) by lia. subst. rewrite orig_of_app_new in H. auto.
  Qed.


  Lemma origs_of_ok : forall s bs l, env_ok s -> origs_of (env s) bs = Some l ->
    Forall (fun id => (id < next s)%nat) l.
  Proof.
    intros s bs; induction bs as [| b r IH]; intros l He H; cbn in H.
    - inversion H; subst; constructor.
    - destruct (orig_of (env s) b) as [lb |] eqn:E1; [| discriminate].
      destruct (origs_of (env s) r) as [lr |] eqn:E2; [| discriminate].
      inversion H; subst. apply Forall_app; split; [apply (He _ _ E1) | apply IH; auto].
  Qed.

  (** the list handed to [_create]: existing objects, the store unchanged below [next] *)
  Lemma gather_spec : forall s d f nx given, good s -> desc_ok d -> gather s d = Some (f, nx, given) ->
    (next s <= nx)%nat /\ (forall id, (id < next s)%nat -> f id = objs s id) /\
    Forall (fun id => (id < nx)%nat) given.
  Proof.
    intros s d f nx given [Hn [Hu He]] Hcs H. unfold gather in H.
    assert (Hcs' : Forall (fun id => (id < next s)%nat) (d_cs d)).
    { eapply Forall_impl; [| exact Hcs]. cbn; intros; lia. }
    destruct (d_kind d) as [| i | bs | o i k |].
    - inversion H; subst. repeat split; auto.
    - destruct (orig_of (env s) i) as [l |] eqn:E; [| discriminate]. inversion H; subst.
      repeat split; auto. apply Forall_app; split; [apply (He _ _ E) | exact Hcs'].
    - destruct (origs_of (env s) bs) as [l |] eqn:E; [| discriminate]. inversion H; subst.
      repeat split; auto. apply Forall_app; split; [exact Hcs' | apply (origs_of_ok _ _ _ He E)].
    - destruct (orig_of (env s) o) as [lo |] eqn:Eo; [| discriminate].
      destruct (orig_of (env s) i) as [li |] eqn:Ei; [| discriminate].
      destruct (copy_sustain (objs s) (next s) lo k) as [[[f1 nx1] copies] |] eqn:C; [| discriminate].
      inversion H; subst; clear H.
      destruct (copy_sustain_spec _ _ _ _ _ _ _ (He _ _ Eo) C) as [N1 [L1 [F1 S1]]].
      repeat split.
      + lia.
      + exact F1.
      + apply Forall_app; split; [| apply Forall_app; split].
        * subst copies. apply Forall_forall. intros x Hx. apply in_seq in Hx. lia.
        * eapply Forall_impl; [| exact (He _ _ Ei)]. cbn; intros; lia.
        * eapply Forall_impl; [| exact Hcs']. cbn; intros; lia.
    - discriminate.
  Qed.

  (** the shape of a successful construction *)
  Lemma build_some : forall s d f nx given f0 nx0 all, gather s d = Some (f, nx, given) -> copy_all f nx given = (f0, nx0, all) ->
    build s d = ({| objs := init_all (write_mtr f0 all (d_copied d) (g_trials (d_geom d))) all (d_geom d);
                    next := nx0; env := env s ++ [Some all] |},
                 Some (map (fun i => view (init_all (write_mtr f0 all (d_copied d) (g_trials (d_geom d))) all (d_geom d) i)) all)).
  Proof. intros s d f nx given f0 nx0 all G C. unfold build. rewrite G, C. reflexivity. Qed.

  Lemma build_none : forall s d, gather s d = None ->
    build s d = ({| objs := objs s; next := next s; env := env s ++ [None] |}, None).
  Proof. intros s d G. unfold build. rewrite G. reflexivity. Qed.

  (** a construction never writes an object that existed before: the store only grows *)
  Lemma build_never_writes : forall s d id, good s -> desc_ok d -> (id < next s)%nat ->
    objs (fst (build s d)) id = objs s id.
  Proof.
    intros s d id G D Hid.
    destruct (gather s d) as [[[f nx] given] |] eqn:Ga; [| rewrite (build_none _ _ Ga); reflexivity].
    destruct (gather_spec _ _ _ _ _ G D Ga) as [Hnx [Hf Hgiven]].
    destruct (copy_all f nx given) as [[f0 nx0] all] eqn:C.
    destruct (copy_all_spec _ _ _ _ _ _ Hgiven C) as [N0 [L0 [F0 _]]].
    rewrite (build_some _ _ _ _ _ _ _ _ Ga C). cbn [fst objs].
    assert (Hni : ~ In id all). { subst all. intro Hx. apply in_seq in Hx. lia. }
    rewrite init_all_notin, write_mtr_notin by exact Hni. rewrite F0 by lia. apply Hf; exact Hid.
  Qed.

  Lemma build_next : forall s d, good s -> desc_ok d -> (next s <= next (fst (build s d)))%nat.
  Proof.
    intros s d G D.
    destruct (gather s d) as [[[f nx] given] |] eqn:Ga; [| rewrite (build_none _ _ Ga); cbn; lia].
    destruct (gather_spec _ _ _ _ _ G D Ga) as [Hnx [Hf Hgiven]].
    destruct (copy_all f nx given) as [[f0 nx0] all] eqn:C.
    destruct (copy_all_spec _ _ _ _ _ _ Hgiven C) as [N0 _].
    rewrite (build_some _ _ _ _ _ _ _ _ Ga C). cbn. lia.
  Qed.

  Lemma build_env : forall s d, exists x, env (fst (build s d)) = env s ++ [x].
  Proof.
    intros s d. unfold build. destruct (gather s d) as [[[f nx] given] |]; [| cbn; eauto].
    destruct (copy_all f nx given) as [[f0 nx0] all]. cbn; eauto.
  Qed.

  Lemma build_good : forall s d, good s -> desc_ok d -> good (fst (build s d)).
  Proof.
    intros s d G D. pose proof (build_next s d G D) as Hnext.
    pose proof G as [Hn [Hu He]].
    split; [lia |]. split.
    - intros c Hc. rewrite build_never_writes by (auto; lia). apply Hu; exact Hc.
    - intros b l Hb.
      destruct (gather s d) as [[[f nx] given] |] eqn:Ga.
      + destruct (gather_spec _ _ _ _ _ G D Ga) as [Hnx [Hf Hgiven]].
        destruct (copy_all f nx given) as [[f0 nx0] all] eqn:C.
        destruct (copy_all_spec _ _ _ _ _ _ Hgiven C) as [N0 [L0 _]].
        rewrite (build_some _ _ _ _ _ _ _ _ Ga C) in *. cbn [fst env next] in *.
        destruct (orig_of_app_cases _ _ _ _ Hb) as [[Hlt Ho] | [_ Hx]].
        * eapply Forall_impl; [| exact (He _ _ Ho)]. cbn; intros; lia.
        * inversion Hx; subst l. subst all. apply Forall_forall. intros x Hx'. apply in_seq in Hx'. lia.
      + rewrite (build_none _ _ Ga) in *. cbn [fst env next] in *.
        destruct (orig_of_app_cases _ _ _ _ Hb) as [[Hlt Ho] | [_ Hx]]; [exact (He _ _ Ho) | discriminate].
  Qed.

  (* ---------------------------------------------------------------- simulation of the twin *)

  Variable keep : nat -> bool.

  Definition vrel (F M : state) (lF lM : list nat) : Prop :=
    Forall2 (fun a b => view (objs F a) = view (objs M b)) lF lM.

  (** the kept blocks built so far have the same constraint views in both runs *)
  Definition kept_rel (F M : state) : Prop :=
    forall b, keep b = true -> (b < List.length (env F))%nat ->
      (orig_of (env F) b = None /\ orig_of (env M) b = None) \/
      (exists lF lM, orig_of (env F) b = Some lF /\ orig_of (env M) b = Some lM /\ vrel F M lF lM).

  Definition sim (F M : state) : Prop :=
    good F /\ good M /\ List.length (env F) = List.length (env M) /\ kept_rel F M.

  Lemma origs_of_rel : forall F M bs, kept_rel F M ->
    Forall (fun b => keep b = true /\ (b < List.length (env F))%nat) bs ->
    (origs_of (env F) bs = None /\ origs_of (env M) bs = None) \/
    (exists lF lM, origs_of (env F) bs = Some lF /\ origs_of (env M) bs = Some lM /\ vrel F M lF lM).
  Proof.
    intros F M bs K H; induction H as [| b r [Hk Hb] Hr IH]; cbn.
    - right; exists [], []; repeat split; constructor.
    - destruct (K b Hk Hb) as [[A B] | [lF [lM [A [B V]]]]].
      + left; rewrite A, B; auto.
      + rewrite A, B. destruct IH as [[C D] | [rF [rM [C [D V2]]]]].
        * left; rewrite C, D; auto.
        * right; rewrite C, D. exists (lF ++ rF), (lM ++ rM); repeat split. apply Forall2_app; assumption.
  Qed.

  (** sustained copies of related lists: both fail, or both succeed with related copies *)
  Lemma copy_rel : forall lF lM fF fM nF nM k, Forall2 (fun a b => view (fF a) = view (fM b)) lF lM ->
    Forall (fun i => (i < nF)%nat) lF -> Forall (fun i => (i < nM)%nat) lM ->
    (copy_sustain fF nF lF k = None /\ copy_sustain fM nM lM k = None) \/
    (exists fF' nF' cF fM' nM' cM,
      copy_sustain fF nF lF k = Some (fF', nF', cF) /\ copy_sustain fM nM lM k = Some (fM', nM', cM) /\
      Forall2 (fun a b => view (fF' a) = view (fM' b)) cF cM).
  Proof.
    intros lF lM fF fM nF nM k H; revert lM fF fM nF nM H.
    induction lF as [| a ra IH]; intros lM fF fM nF nM H HF HM; inversion H; subst.
    - right. exists fF, nF, [], fM, nM, []. repeat split; constructor.
    - rename l' into rb. rename y into b.
      inversion HF; subst. inversion HM; subst.
      pose proof (sustain_view _ _ k H2) as Sv. cbn [copy_sustain].
      destruct (sustain_within_block (fF a) k) as [oa |] eqn:Sa;
        destruct (sustain_within_block (fM b) k) as [ob |] eqn:Sb; try contradiction; [| left; auto].
      destruct (IH rb (upd fF nF oa) (upd fM nM ob) (S nF) (S nM)) as [[CF CM] | [fF' [nF' [cF [fM' [nM' [cM [CF [CM R]]]]]]]]].
      + eapply Forall2_impl_in; [| exact H4]. intros x y Hx Hy Hv. cbn in Hv.
        rewrite Forall_forall in H5, H7.
        rewrite !upd_other; [exact Hv | |]; [specialize (H7 y Hy) | specialize (H5 x Hx)]; lia.
      + eapply Forall_impl; [| exact H5]; cbn; intros; lia.
      + eapply Forall_impl; [| exact H7]; cbn; intros; lia.
      + left. rewrite CF, CM; auto.
      + right. exists fF', nF', (nF :: cF), fM', nM', (nM :: cM). rewrite CF, CM. repeat split.
        constructor; [| exact R].
        destruct (copy_sustain_spec _ _ _ _ _ _ _ (Forall_impl _ (fun x (h : (x < nF)%nat) => Nat.lt_lt_succ_r _ _ h) H5) CF)
          as [_ [_ [FF _]]].
        destruct (copy_sustain_spec _ _ _ _ _ _ _ (Forall_impl _ (fun x (h : (x < nM)%nat) => Nat.lt_lt_succ_r _ _ h) H7) CM)
          as [_ [_ [FM _]]].
        rewrite FF, FM by lia. rewrite !upd_same. exact Sv.
  Qed.

  (** the lists handed to [_create] by a kept construction are related *)
  Lemma gather_rel : forall F M d, sim F M -> desc_ok d ->
    Forall (fun b => keep b = true /\ (b < List.length (env F))%nat) (deps d) ->
    (gather F d = None /\ gather M d = None) \/
    (exists fF nF gF fM nM gM,
       gather F d = Some (fF, nF, gF) /\ gather M d = Some (fM, nM, gM) /\
       Forall2 (fun a b => view (fF a) = view (fM b)) gF gM).
  Proof.
    intros F M d [GF [GM [L K]]] D Hd. unfold gather, deps in *.
    destruct GF as [HnF [HuF HeF]]. destruct GM as [HnM [HuM HeM]].
    assert (Vcs : forall (fF fM : nat -> cobj), (forall id, (id < next F)%nat -> fF id = objs F id) ->
              (forall id, (id < next M)%nat -> fM id = objs M id) ->
              Forall2 (fun a b => view (fF a) = view (fM b)) (d_cs d) (d_cs d)).
    { intros fF fM EF EM. unfold desc_ok in D. clear - D HuF HuM HnF HnM EF EM.
      induction D as [| c r Hc Hr IH]; constructor; [| exact IH].
      rewrite EF, EM by lia. rewrite HuF, HuM by exact Hc. reflexivity. }
    destruct (d_kind d) as [| i | bs | o i k |].
    - right. exists (objs F), (next F), (d_cs d), (objs M), (next M), (d_cs d). repeat split. apply Vcs; auto.
    - inversion Hd as [| ? ? [Hk Hb] _]; subst.
      destruct (K i Hk Hb) as [[A B] | [lF [lM [A [B V]]]]].
      + left; rewrite A, B; auto.
      + right. rewrite A, B. exists (objs F), (next F), (lF ++ d_cs d), (objs M), (next M), (lM ++ d_cs d).
        repeat split. apply Forall2_app; [exact V | apply Vcs; auto].
    - destruct (origs_of_rel F M bs K Hd) as [[A B] | [lF [lM [A [B V]]]]].
      + left; rewrite A, B; auto.
      + right. rewrite A, B. exists (objs F), (next F), (d_cs d ++ lF), (objs M), (next M), (d_cs d ++ lM).
        repeat split. apply Forall2_app; [apply Vcs; auto | exact V].
    - inversion Hd as [| ? ? [Hko Hbo] Hd']; subst. inversion Hd' as [| ? ? [Hki Hbi] _]; subst.
      destruct (K o Hko Hbo) as [[A B] | [loF [loM [A [B Vo]]]]].
      + left; rewrite A, B; auto.
      + rewrite A, B.
        destruct (K i Hki Hbi) as [[A2 B2] | [liF [liM [A2 [B2 Vi]]]]].
        * left; rewrite A2, B2; auto.
        * rewrite A2, B2.
          pose proof (HeF _ _ A) as BoF. pose proof (HeM _ _ B) as BoM.
          pose proof (HeF _ _ A2) as BiF. pose proof (HeM _ _ B2) as BiM.
          destruct (copy_rel loF loM (objs F) (objs M) (next F) (next M) k Vo BoF BoM)
            as [[CF CM] | [fF' [nF' [cF [fM' [nM' [cM [CF [CM R]]]]]]]]].
          -- left. rewrite CF, CM; auto.
          -- rewrite CF, CM. right.
             destruct (copy_sustain_spec _ _ _ _ _ _ _ BoF CF) as [_ [_ [FF _]]].
             destruct (copy_sustain_spec _ _ _ _ _ _ _ BoM CM) as [_ [_ [FM _]]].
             exists fF', nF', (cF ++ liF ++ d_cs d), fM', nM', (cM ++ liM ++ d_cs d).
             repeat split. apply Forall2_app; [exact R | apply Forall2_app].
             ++ eapply Forall2_impl_in; [| exact Vi]. intros a b Ha Hb Hv. cbn in Hv.
                rewrite Forall_forall in BiF, BiM. rewrite FF, FM by auto. exact Hv.
             ++ apply Vcs; auto.
    - left; auto.
  Qed.

  Lemma vrel_frame : forall F M F' M' lF lM,
    (forall a, In a lF -> objs F' a = objs F a) -> (forall b, In b lM -> objs M' b = objs M b) ->
    vrel F M lF lM -> vrel F' M' lF lM.
  Proof.
    intros F M F' M' lF lM HF HM H; induction H as [| a b ra rb Hab Hr IH]; [constructor |].
    constructor.
    - rewrite HF, HM by (left; reflexivity). exact Hab.
    - apply IH; intros; [apply HF | apply HM]; right; assumption.
  Qed.

  Lemma kept_rel_frame : forall F M F' M' x y,
    good F -> good M -> List.length (env F) = List.length (env M) -> kept_rel F M ->
    env F' = env F ++ [x] -> env M' = env M ++ [y] ->
    (forall id, (id < next F)%nat -> objs F' id = objs F id) ->
    (forall id, (id < next M)%nat -> objs M' id = objs M id) ->
    (keep (List.length (env F)) = true ->
       (x = None /\ y = None) \/ (exists lF lM, x = Some lF /\ y = Some lM /\ vrel F' M' lF lM)) ->
    kept_rel F' M'.
  Proof.
    intros F M F' M' x y GF GM L K EF EM FrF FrM New b Hk Hb.
    rewrite EF, EM. rewrite EF, app_length in Hb; cbn in Hb.
    destruct (lt_dec b (List.length (env F))) as [Hlt | Hge].
    - rewrite !orig_of_app_old by lia.
      destruct (K b Hk Hlt) as [[A B] | [lF [lM [A [B V]]]]]; [left; auto | right].
      exists lF, lM; repeat split; auto.
      destruct GF as [_ [_ HeF]]. destruct GM as [_ [_ HeM]].
      pose proof (HeF _ _ A) as BF. pose proof (HeM _ _ B) as BM.
      rewrite Forall_forall in *.
      eapply vrel_frame; [| | exact V]; intros; [apply FrF | apply FrM]; auto.
    - assert (b = List.length (env F)) by lia. subst b.
      assert (E2 : orig_of (env M ++ [y]) (List.length (env F)) = y) by (rewrite L; apply orig_of_app_new).
      rewrite orig_of_app_new, E2.
      destruct (New Hk) as [[-> ->] | [lF [lM [-> [-> V]]]]]; [left; auto | right; exists lF, lM; auto].
  Qed.

  (** a kept construction: same outcome in both runs *)
  Lemma build_sim_keep : forall F M d, sim F M -> desc_ok d ->
    Forall (fun b => keep b = true /\ (b < List.length (env F))%nat) (deps d) ->
    sim (fst (build F d)) (fst (build M d)) /\ snd (build F d) = snd (build M d).
  Proof.
    intros F M d Sm D Hd.
    pose proof Sm as [GF [GM [L K]]].
    pose proof (build_good F d GF D) as GF'. pose proof (build_good M d GM D) as GM'.
    assert (FrF : forall id, (id < next F)%nat -> objs (fst (build F d)) id = objs F id)
      by (intros; apply build_never_writes; auto).
    assert (FrM : forall id, (id < next M)%nat -> objs (fst (build M d)) id = objs M id)
      by (intros; apply build_never_writes; auto).
    destruct (gather_rel F M d Sm D Hd) as [[A B] | [fF [nF [gF [fM [nM [gM [A [B V]]]]]]]]].
    - rewrite (build_none _ _ A), (build_none _ _ B) in *. cbn [fst snd] in *. split; [| reflexivity].
      split; [exact GF' |]. split; [exact GM' |]. split; [cbn; rewrite !app_length; cbn; lia |].
      apply (kept_rel_frame F M _ _ None None GF GM L K);
        [reflexivity | reflexivity | exact FrF | exact FrM | intros _; left; auto].
    - destruct (gather_spec _ _ _ _ _ GF D A) as [_ [_ HgF]].
      destruct (gather_spec _ _ _ _ _ GM D B) as [_ [_ HgM]].
      destruct (copy_all fF nF gF) as [[f0F n0F] allF] eqn:CF.
      destruct (copy_all fM nM gM) as [[f0M n0M] allM] eqn:CM.
      destruct (copy_all_spec _ _ _ _ _ _ HgF CF) as [_ [_ [_ EF]]].
      destruct (copy_all_spec _ _ _ _ _ _ HgM CM) as [_ [_ [_ EM]]].
      rewrite (build_some _ _ _ _ _ _ _ _ A CF), (build_some _ _ _ _ _ _ _ _ B CM) in *.
      set (g := d_geom d) in *.
      set (f2F := init_all (write_mtr f0F allF (d_copied d) (g_trials g)) allF g) in *.
      set (f2M := init_all (write_mtr f0M allM (d_copied d) (g_trials g)) allM g) in *.
      cbn [fst snd] in *.
      (* the copies are related before initialisation ... *)
      assert (V0 : Forall2 (fun a b => view (f0F a) = view (f0M b)) allF allM).
      { eapply (Forall2_transport _ _ _ _ gF gM allF allM); [| exact V | exact EF | exact EM].
        intros a b c e Hv H1 H2. cbn in *. rewrite H1, H2. exact Hv. }
      (* ... and after it *)
      assert (Vall : Forall2 (fun a b => view (f2F a) = view (f2M b)) allF allM).
      { eapply Forall2_impl_in; [| exact V0]. intros a b Ha Hb Hv. cbn in Hv. unfold f2F, f2M.
        rewrite !init_all_in by assumption. apply init_within_view. rewrite !write_mtr_view. exact Hv. }
      split.
      + split; [exact GF' |]. split; [exact GM' |]. split; [cbn; rewrite !app_length; cbn; lia |].
        apply (kept_rel_frame F M _ _ (Some allF) (Some allM) GF GM L K);
          [reflexivity | reflexivity | exact FrF | exact FrM |].
        intros _. right. exists allF, allM. repeat split. exact Vall.
      + f_equal. apply (Forall2_map_eq (fun i => view (f2F i)) (fun i => view (f2M i))). exact Vall.
  Qed.

  (** a construction that the twin skips *)
  Lemma build_sim_skip : forall F M d, sim F M -> desc_ok d -> keep (List.length (env F)) = false ->
    sim (fst (build F d)) (fst (build M (skip_of d))).
  Proof.
    intros F M d Sm D Hk. pose proof Sm as [GF [GM [L K]]].
    pose proof (build_good F d GF D) as GF'.
    assert (EM : build M (skip_of d) = ({| objs := objs M; next := next M; env := env M ++ [None] |}, None)) by reflexivity.
    rewrite EM. cbn [fst].
    assert (GM' : good {| objs := objs M; next := next M; env := env M ++ [None] |}).
    { destruct GM as [HnM [HuM HeM]]. split; [exact HnM |]. split; [exact HuM |].
      intros b l Hb. cbn [env] in Hb.
      destruct (orig_of_app_cases _ _ _ _ Hb) as [[_ Ho] | [_ Hx]]; [exact (HeM _ _ Ho) | discriminate]. }
    split; [exact GF' |]. split; [exact GM' |].
    destruct (build_env F d) as [x Ex]. split; [rewrite Ex; cbn; rewrite !app_length; cbn; lia |].
    apply (kept_rel_frame F M _ _ x None GF GM L K); [exact Ex | reflexivity | | |].
    - intros id Hid. apply build_never_writes; auto.
    - intros; reflexivity.
    - intros Hk'. congruence.
  Qed.

  Lemma run_cons : forall s d r, run s (d :: r) =
    (fst (run (fst (build s d)) r), snd (build s d) :: snd (run (fst (build s d)) r)).
  Proof. intros s d r; cbn. destruct (build s d) as [s1 o]. cbn [fst snd]. destruct (run s1 r) as [s2 os]. reflexivity. Qed.


  Lemma run_sim : forall ds j F M, sim F M -> List.length (env F) = j ->
    (forall d, In d ds -> desc_ok d) -> wf_from n j ds = true -> closed_from keep j ds = true ->
    forall i, keep (j + i) = true ->
      nth_error (snd (run F ds)) i = nth_error (snd (run M (mask_from keep j ds))) i.
  Proof.
    induction ds as [| d r IH]; intros j F M Sm Hj Hok Hwf Hcl i Hi; [destruct i; reflexivity |].
    cbn [mask_from]. cbn in Hwf, Hcl.
    apply andb_true_iff in Hwf; destruct Hwf as [Hwf1 Hwf]. apply andb_true_iff in Hwf1; destruct Hwf1 as [Hdeps _].
    apply andb_true_iff in Hcl; destruct Hcl as [Hcl1 Hcl].
    assert (D : desc_ok d) by (apply Hok; left; reflexivity).
    rewrite !run_cons. cbn [snd].
    destruct (keep j) eqn:Kj.
    - assert (Hd : Forall (fun b => keep b = true /\ (b < List.length (env F))%nat) (deps d)).
      { rewrite Forall_forall. intros b Hb. rewrite forallb_forall in Hcl1, Hdeps. split; [apply Hcl1; exact Hb |].
        specialize (Hdeps b Hb). apply Nat.ltb_lt in Hdeps. lia. }
      destruct (build_sim_keep F M d Sm D Hd) as [Sm' E].
      destruct i as [| i]; [cbn; rewrite E; reflexivity |]. cbn [nth_error].
      apply IH with (j := S j); auto.
      + destruct (build_env F d) as [y Ey]. rewrite Ey, app_length; cbn; lia.
      + intros; apply Hok; right; assumption.
      + replace (S j + i)%nat with (j + S i)%nat by lia. exact Hi.
    - destruct i as [| i]; [replace (j + 0)%nat with j in Hi by lia; congruence |]. cbn [nth_error].
      apply IH with (j := S j); auto.
      + apply build_sim_skip; auto. rewrite Hj; exact Kj.
      + destruct (build_env F d) as [y Ey]. rewrite Ey, app_length; cbn; lia.
      + intros; apply Hok; right; assumption.
      + replace (S j + i)%nat with (j + S i)%nat by lia. exact Hi.
  Qed.

  Lemma sim_init : sim (init_state user) (init_state user).
  Proof.
    split; [apply good_init |]. split; [apply good_init |]. split; [reflexivity |].
    intros b _ Hb. cbn in Hb. lia.
  Qed.

  (** whatever is built, the user's objects are never written *)
  Lemma run_good : forall ds j s, good s -> (forall d, In d ds -> desc_ok d) -> wf_from n j ds = true ->
    good (fst (run s ds)).
  Proof.
    induction ds as [| d r IH]; intros j s G Hok Hwf; [exact G |].
    rewrite run_cons. cbn [fst]. cbn in Hwf. apply andb_true_iff in Hwf; destruct Hwf as [_ Hwf].
    apply (IH (S j)); auto.
    - apply build_good; auto. apply Hok; left; reflexivity.
    - intros; apply Hok; right; assumption.
  Qed.
End Independent.

Lemma wf_from_cs : forall nuser ds j d, wf_from nuser j ds = true -> In d ds -> Forall (fun c => (c < nuser)%nat) (d_cs d).
Proof.
  intros nuser ds; induction ds as [| x r IH]; intros j d H Hin; [destruct Hin |].
  cbn in H. apply andb_true_iff in H; destruct H as [H1 H2]. apply andb_true_iff in H1; destruct H1 as [_ H1].
  destruct Hin as [-> | Hin]; [| eapply IH; eauto].
  rewrite Forall_forall. intros c Hc. rewrite forallb_forall in H1. apply Nat.ltb_lt. apply H1; exact Hc.
Qed.


(** C18, unguarded: every kept block gets the summary it gets when only the kept blocks are built *)
Theorem history_independent : forall (user : list cobj) (ds : list desc) (keep : nat -> bool) (i : nat),
  wf (List.length user) ds = true -> closed keep ds = true -> keep i = true ->
  nth_error (snd (run (init_state user) ds)) i = nth_error (snd (run (init_state user) (mask keep ds))) i.
Proof.
  intros user ds keep i Hwf Hcl Hk. unfold mask.
  apply (run_sim user keep ds 0%nat (init_state user) (init_state user)); auto.
  - apply sim_init.
  - intros d Hd. eapply wf_from_cs; eauto.
Qed.

Lemma closure_keeps : forall ds fuel set x, In x set -> In x (closure ds fuel set).
Proof.
  intros ds fuel; induction fuel as [| k IH]; intros set x H; cbn; [exact H |].
  apply IH. apply in_or_app; left; exact H.
Qed.

Lemma keep_of_self : forall ds i, keep_of ds i i = true.
Proof.
  intros ds i; unfold keep_of. apply existsb_exists. exists i. split; [| apply Nat.eqb_refl].
  apply closure_keeps. left; reflexivity.
Qed.


(** the form used by the check: the summary of a block built in the shared program equals that of its fresh twin *)
Corollary shared_eq_fresh : forall user ds i,
  wf (List.length user) ds = true -> closed (keep_of ds i) ds = true ->
  shared_summary user ds i = fresh_summary user ds i.
Proof.
  intros user ds i Hwf Hcl. unfold shared_summary, fresh_summary.
  rewrite (history_independent user ds (keep_of ds i) i Hwf Hcl (keep_of_self ds i)). reflexivity.
Qed.

(** the user's objects after any build sequence are the objects the user created *)
Theorem user_objects_never_written : forall (user : list cobj) (ds : list desc) (c : nat),
  wf (List.length user) ds = true -> (c < List.length user)%nat ->
  objs (fst (run (init_state user) ds)) c = fresh (nth c user default_obj).
Proof.
  intros user ds c Hwf Hc.
  assert (G : good user (fst (run (init_state user) ds))).
  { apply (run_good user ds 0%nat); auto; [apply good_init |]. intros d Hd. eapply wf_from_cs; eauto. }
  destruct G as [_ [Hu _]]. apply Hu; exact Hc.
Qed.

(** the statement that was the most one could prove before the repair (geometry guard) is a special case *)
Definition consistent (user : list cobj) (gc : nat -> geom) (ds : list desc) : Prop :=
  forall d, In d ds -> forall c, In c (d_cs d) -> has_within (c_kind (nth c user default_obj)) = true -> d_geom d = gc c.

Corollary history_independent_guarded : forall (user : list cobj) (gc : nat -> geom) (ds : list desc) (keep : nat -> bool) (i : nat),
  wf (List.length user) ds = true -> consistent user gc ds -> closed keep ds = true -> keep i = true ->
  nth_error (snd (run (init_state user) ds)) i = nth_error (snd (run (init_state user) (mask keep ds))) i.
Proof. intros user gc ds keep i Hwf _ Hcl Hk. apply history_independent; assumption. Qed.

(** an example with heavy sharing: one AtMostKInARow object in a 2-trial block, in a 4-trial block, and in the
    Repeat of the first; an ExactlyK object on the outer block of a Nest (copied and sustained: geometry and [k]
    doubled) and directly in the 4-trial block; a MinimumTrials object *)
Definition ex_user : list cobj :=
  [ {| c_kind := KAtMost; c_within := None; c_k := 1; c_trials := 0; c_mtr := None |};
    {| c_kind := KExactlyK; c_within := None; c_k := 1; c_trials := 0; c_mtr := None |};
    {| c_kind := KMinTrials; c_within := None; c_k := 0; c_trials := 4; c_mtr := None |} ].
Definition ex_prog : list desc :=
  [ {| d_kind := DLeaf; d_geom := wit_g2; d_cs := [0%nat; 1%nat]; d_copied := [] |};
    {| d_kind := DLeaf; d_geom := wit_g4; d_cs := [0%nat; 1%nat]; d_copied := [] |};
    {| d_kind := DRepeat 0; d_geom := wit_g4; d_cs := [2%nat; 0%nat]; d_copied := [] |};
    {| d_kind := DNest 0 1 2; d_geom := wit_g4; d_cs := []; d_copied := [] |} ].

Lemma ex_shared :
  wf (List.length ex_user) ex_prog = true /\ closed (keep_of ex_prog 3) ex_prog = true /\
  closed (keep_of ex_prog 2) ex_prog = true /\
  shared_summary ex_user ex_prog 1 = Some [(KAtMost, Some wit_g4, 1, 0); (KExactlyK, Some wit_g4, 1, 0)] /\
  shared_summary ex_user ex_prog 2 =
    Some [(KAtMost, Some wit_g2, 1, 0); (KExactlyK, Some wit_g2, 1, 0); (KMinTrials, None, 0, 4); (KAtMost, Some wit_g4, 1, 0)] /\
  shared_summary ex_user ex_prog 3 =
    Some [(KAtMost, Some (gsustain wit_g2 2), 1, 0); (KExactlyK, Some (gsustain wit_g2 2), 2, 0);
          (KAtMost, Some wit_g4, 1, 0); (KExactlyK, Some wit_g4, 1, 0)] /\
  fresh_summary ex_user ex_prog 3 = shared_summary ex_user ex_prog 3.
Proof. vm_compute. repeat split; reflexivity. Qed.
