(** Model of the formula classes of [sweetpea/_internal/logic.py] and of
    [cnf_to_json].  Model file: executable definitions only (proofs live in
    Logic/*Proofs.v).

    Python side: [And], [Or], [If], [Iff], [Not] are namedtuples, leaves are
    Python ints read as DIMACS literals (a negative leaf is the negated
    variable; [cnf_to_json] passes leaves through unchanged).

    - [fm]  = the Python type [FormulaWithIff] (input of the converters);
    - [nf]  = the Python type [Formula] (no [If]/[Iff]): what
      [__eliminate_iff] returns, what the later passes consume and what all
      three converters return. *)
From Coq Require Import ZArith List Bool.
From SP Require Import Base.Sat.
Import ListNotations.
Open Scope Z_scope.

Inductive fm :=
| FVar (z : Z) | FNot (f : fm) | FAnd (l : list fm) | FOr (l : list fm)
| FIf (p q : fm) | FIff (p q : fm).

Inductive nf :=
| NVar (z : Z) | NNot (f : nf) | NAnd (l : list nf) | NOr (l : list nf).

(** Python exceptions that the modelled code can raise, plus two model-only
    outcomes: [EFuel] (fuel exhausted) and [EUnsupported] (input outside the
    modelled domain). *)
Inductive err :=
| ETypeError | EValueError | EIndexError | EAssertionError | EAttributeError
| EFuel | EUnsupported.

Inductive res (A : Type) := Ok (a : A) | Err (e : err).
Arguments Ok {A} a.
Arguments Err {A} e.

Definition rbind {A B} (m : res A) (f : A -> res B) : res B :=
  match m with Ok a => f a | Err e => Err e end.
Notation "x <- m ;; f" := (rbind m (fun x => f)) (at level 61, m at next level, right associativity).
Notation "' p <- m ;; f" := (rbind m (fun x => let p := x in f))
  (at level 61, p pattern, m at next level, right associativity).

Fixpoint mapM {A B} (f : A -> res B) (l : list A) : res (list B) :=
  match l with
  | [] => Ok []
  | x :: l' => y <- f x ;; ys <- mapM f l' ;; Ok (y :: ys)
  end.

(** * Reference semantics (truth-table meaning of a formula) *)
Fixpoint eval (s : asg) (f : fm) : bool :=
  match f with
  | FVar z => lit_true s z
  | FNot g => negb (eval s g)
  | FAnd l => forallb (eval s) l
  | FOr l => existsb (eval s) l
  | FIf p q => implb (eval s p) (eval s q)
  | FIff p q => Bool.eqb (eval s p) (eval s q)
  end.

Fixpoint neval (s : asg) (f : nf) : bool :=
  match f with
  | NVar z => lit_true s z
  | NNot g => negb (neval s g)
  | NAnd l => forallb (neval s) l
  | NOr l => existsb (neval s) l
  end.

Fixpoint leaves (f : fm) : list Z :=
  match f with
  | FVar z => [z]
  | FNot g => leaves g
  | FAnd l => flat_map leaves l
  | FOr l => flat_map leaves l
  | FIf p q => leaves p ++ leaves q
  | FIff p q => leaves p ++ leaves q
  end.

Fixpoint nleaves (f : nf) : list Z :=
  match f with
  | NVar z => [z]
  | NNot g => nleaves g
  | NAnd l => flat_map nleaves l
  | NOr l => flat_map nleaves l
  end.

Fixpoint nsize (f : nf) : nat :=
  match f with
  | NVar _ => 1
  | NNot g => S (nsize g)
  | NAnd l => S (fold_right (fun x a => (nsize x + a)%nat) O l)
  | NOr l => S (fold_right (fun x a => (nsize x + a)%nat) O l)
  end.

(** * cnf_to_json

<<
def cnf_to_json(formula: List[And]) -> List[List[int]]:
    or_list = []
    for a in formula:
        for o in a.input_list:
            if isinstance(o, Or):
                l = []
                for n in o.input_list:
                    if isinstance(n, int):   l.append(n)
                    elif isinstance(n, Not): l.append(-n.c)
                    else: raise ValueError(...)
                or_list.append(l)
            elif isinstance(o, int): or_list.append([o])
            else: raise ValueError(...)
    return or_list
>>
    [a.input_list] exists for [And] and [Or] alike and raises AttributeError
    otherwise; [-n.c] raises TypeError when [n.c] is not an int. *)
Definition json_lit (n : nf) : res Z :=
  match n with
  | NVar z => Ok z
  | NNot (NVar z) => Ok (- z)
  | NNot _ => Err ETypeError
  | _ => Err EValueError
  end.

Definition json_clause (o : nf) : res (list Z) :=
  match o with
  | NOr l => mapM json_lit l
  | NVar z => Ok [z]
  | _ => Err EValueError
  end.

Definition json_and (a : nf) : res (list (list Z)) :=
  match a with
  | NAnd l | NOr l => mapM json_clause l
  | _ => Err EAttributeError
  end.

Fixpoint cnf_to_json (formula : list nf) : res (list (list Z)) :=
  match formula with
  | [] => Ok []
  | a :: rest => x <- json_and a ;; y <- cnf_to_json rest ;; Ok (x ++ y)
  end.
