(** Model of [to_cnf_naive] of [sweetpea/_internal/logic.py]:
    [__eliminate_iff], [__apply_demorgan], [__distribute_ors_naive],
    [__flatten_clause_list] (with Python's [list.sort(key=__order_clauses)]),
    [__build_or], [__build_and], [__get_list_for_crossing].
    Model file: executable definitions only.

    [__order_clauses] (after commit 94d9e8e of the repository) returns [0] for
    And/Or, [c.c if isinstance(c.c, int) else 0] for [Not(c)] and [c] for an
    int: the key is always an int ([key_of] returns an [NVar]).  In
    [__apply_demorgan] the list [map Not input_list] is sorted *before* the
    negations are pushed down, so [Not] over a compound formula does reach the
    key function; it sorts like a compound formula (key 0).  (Before the repair
    the key of such a member was the compound formula itself, a namedtuple, and
    [list.sort] raised TypeError comparing it with an int.)
    [py_eq]/[py_lt] model Python's [==]/[<] on ints / namedtuples / lists
    ([py_lt] is the comparison the sort performs on the keys; on two ints it
    never raises), [pysort] models CPython 3.12's [list.sort]: one [count_run]
    followed by binary insertion for lists shorter than 64 and, since all keys
    are ints, the same list for any length (every stable sort returns the same
    list). *)
From Coq Require Import ZArith List Bool Arith.
From SP Require Import Base.Sat Logic.Formula.
Import ListNotations.
Open Scope Z_scope.

(** * __eliminate_iff
    [If p q -> __eliminate_iff(Or([Not(p), q]))] and
    [Iff p q -> __eliminate_iff(And([Or([p, Not(q)]), Or([Not(p), q])]))]
    unfold (through the Or/And/Not branches) to the structural equations below. *)
Fixpoint elim (f : fm) : nf :=
  match f with
  | FVar z => NVar z
  | FNot g => NNot (elim g)
  | FAnd l => NAnd (map elim l)
  | FOr l => NOr (map elim l)
  | FIf p q => NOr [NNot (elim p); elim q]
  | FIff p q => NAnd [NOr [elim p; NNot (elim q)]; NOr [NNot (elim p); elim q]]
  end.

(** * Python comparison of sort keys *)
Definition key_of (c : nf) : nf :=
  match c with
  | NAnd _ | NOr _ => NVar 0
  | NNot (NVar z) => NVar z   (* c.c if isinstance(c.c, int) *)
  | NNot _ => NVar 0          (* else 0 *)
  | NVar z => NVar z
  end.

(** Python [a == b] on ints / 1-tuples ([Not(c)] is [(c,)], [And(l)] and
    [Or(l)] are both [(l,)]) / lists. *)
Fixpoint py_eq (a b : nf) {struct a} : bool :=
  match a with
  | NVar x => match b with NVar y => x =? y | _ => false end
  | NNot a' => match b with NNot b' => py_eq a' b' | _ => false end
  | NAnd l | NOr l =>
      match b with
      | NAnd m | NOr m =>
          (fix leq (l m : list nf) : bool :=
             match l, m with
             | [], [] => true
             | x :: l', y :: m' => py_eq x y && leq l' m'
             | _, _ => false
             end) l m
      | _ => false
      end
  end.

(** Python [a < b]. *)
Fixpoint py_lt (a b : nf) {struct a} : res bool :=
  match a with
  | NVar x => match b with NVar y => Ok (x <? y) | _ => Err ETypeError end
  | NNot a' =>
      match b with
      | NNot b' => if py_eq a' b' then Ok false else py_lt a' b'
      | _ => Err ETypeError
      end
  | NAnd l | NOr l =>
      match b with
      | NAnd m | NOr m =>
          (fix llt (l m : list nf) : res bool :=
             match l, m with
             | [], [] => Ok false
             | [], _ :: _ => Ok true
             | _ :: _, [] => Ok false
             | x :: l', y :: m' => if py_eq x y then llt l' m' else py_lt x y
             end) l m
      | _ => Err ETypeError
      end
  end.

(** * list.sort(key=...) (CPython 3.12 listsort, n < 64: minrun = n) *)
Definition kv := (nf * nf)%type.

Fixpoint run_desc (prev : nf) (l : list kv) : res nat :=
  match l with
  | [] => Ok O
  | (k, _) :: l' => b <- py_lt k prev ;; if b then n <- run_desc k l' ;; Ok (S n) else Ok O
  end.

Fixpoint run_asc (prev : nf) (l : list kv) : res nat :=
  match l with
  | [] => Ok O
  | (k, _) :: l' => b <- py_lt k prev ;; if b then Ok O else n <- run_asc k l' ;; Ok (S n)
  end.

(** length of the initial run and whether it is (strictly) descending *)
Definition count_run (l : list kv) : res (nat * bool) :=
  match l with
  | [] => Ok (O, false)
  | [_] => Ok (1%nat, false)
  | (k0, _) :: ((k1, _) :: l') =>
      b <- py_lt k1 k0 ;;
      if b then n <- run_desc k1 l' ;; Ok (S (S n), true)
      else n <- run_asc k1 l' ;; Ok (S (S n), false)
  end.

(** [do { p = l + ((r-l) >> 1); if pivot < *p then r = p else l = p+1 } while (l < r)] *)
Fixpoint bsearch (fuel : nat) (pre : list kv) (pivot : nf) (l r : nat) : res nat :=
  match fuel with
  | O => Err EFuel
  | S fuel' =>
      let p := (l + Nat.div2 (r - l))%nat in
      match nth_error pre p with
      | None => Err EFuel
      | Some (kp, _) =>
          b <- py_lt pivot kp ;;
          let l' := if b then l else S p in
          let r' := if b then p else r in
          if (l' <? r')%nat then bsearch fuel' pre pivot l' r' else Ok l'
      end
  end.

Definition insert_at (n : nat) (x : kv) (pre : list kv) : list kv :=
  firstn n pre ++ x :: skipn n pre.

Fixpoint binsort (pre rest : list kv) : res (list kv) :=
  match rest with
  | [] => Ok pre
  | x :: rest' =>
      pos <- bsearch (S (length pre)) pre (fst x) O (length pre) ;;
      binsort (insert_at pos x pre) rest'
  end.

Definition pysort_kv (l : list kv) : res (list kv) :=
  match l with
  | [] | [_] => Ok l
  | _ =>
      ' (n, desc) <- count_run l ;;
      let run := firstn n l in
      binsort (if (desc : bool) then rev run else run) (skipn n l)
  end.

Definition is_var (c : nf) : bool := match c with NVar _ => true | _ => false end.

Definition pysort (l : list nf) : res (list nf) :=
  let kl := map (fun c => (key_of c, c)) l in
  if (length l <? 64)%nat || forallb (fun p => is_var (fst p)) kl then
    r <- pysort_kv kl ;; Ok (map snd r)
  else Err EUnsupported.

(** * __flatten_clause_list, __build_or, __build_and *)
Definition is_and (c : nf) : bool := match c with NAnd _ => true | _ => false end.
Definition is_or (c : nf) : bool := match c with NOr _ => true | _ => false end.
Definition input_list (c : nf) : list nf := match c with NAnd l | NOr l => l | _ => [] end.

(** [cls = true]: flatten [And] members, [cls = false]: flatten [Or] members *)
Definition flatten_clause_list (l : list nf) (cls : bool) : res (list nf) :=
  pysort (flat_map (fun c => if (if cls then is_and c else is_or c) then input_list c else [c]) l).

Definition build_or (l : list nf) : res nf := l' <- flatten_clause_list l false ;; Ok (NOr l').
Definition build_and (l : list nf) : res nf := l' <- flatten_clause_list l true ;; Ok (NAnd l').

(** * __apply_demorgan (recursion on rebuilt formulas: fuel) *)
Fixpoint demorgan (fuel : nat) (f : nf) : res nf :=
  match fuel with
  | O => Err EFuel
  | S n =>
      match f with
      | NAnd l => l' <- mapM (demorgan n) l ;; build_and l'
      | NOr l => l' <- mapM (demorgan n) l ;; build_or l'
      | NNot c =>
          match c with
          | NAnd l => t <- build_or (map NNot l) ;; demorgan n t
          | NOr l => t <- build_and (map NNot l) ;; demorgan n t
          | NNot c' => demorgan n c'
          | NVar _ => Ok f
          end
      | NVar _ => Ok f
      end
  end.

Definition demorgan_fuel (f : nf) : nat := (2 * nsize f + 2)%nat.

(** * __distribute_ors_naive *)
Definition get_list_for_crossing (c : nf) : list nf :=
  match c with
  | NVar _ | NNot _ => [c]
  | NAnd l | NOr l => l
  end.

(** [itertools.product] of the lists [ls] in its order (first list varies slowest) *)
Fixpoint cprod {A} (ls : list (list A)) : list (list A) :=
  match ls with
  | [] => [[]]
  | l :: ls' => flat_map (fun x => map (cons x) (cprod ls')) l
  end.

Fixpoint dist_naive (f : nf) : res nf :=
  match f with
  | NAnd l =>
      l' <- (fix go (l : list nf) : res (list nf) :=
               match l with
               | [] => Ok []
               | x :: t => y <- dist_naive x ;; ys <- go t ;; Ok (y :: ys)
               end) l ;;
      build_and l'
  | NOr l =>
      cl <- (fix go (l : list nf) : res (list nf) :=
               match l with
               | [] => Ok []
               | x :: t => y <- dist_naive x ;; ys <- go t ;; Ok (y :: ys)
               end) l ;;
      ors <- mapM build_or (cprod (map get_list_for_crossing cl)) ;;
      build_and ors
  | _ => Ok f
  end.

(** * to_cnf_naive *)
Definition wrap_and (f : nf) : nf := match f with NAnd _ => f | _ => NAnd [f] end.

Definition to_cnf_naive (f : fm) (nv : Z) : res (nf * Z) :=
  let g := elim f in
  g1 <- demorgan (demorgan_fuel g) g ;;
  g2 <- dist_naive g1 ;;
  Ok (wrap_and g2, nv).
