(** Proofs about Logic/Naive.v: whenever [to_cnf_naive] returns, its result is
    equivalent to the input, mentions no new variable and has CNF shape.  The
    Python sort is only known to return a permutation of its input (that is all
    the meaning depends on). *)
From Coq Require Import ZArith List Bool Lia ZifyBool Permutation Arith.
From SP Require Import Base.Sat Logic.Formula Logic.Naive Logic.TseitinProofs.
Import ListNotations.
Open Scope Z_scope.

(** * Induction principle for [nf] *)
Section NfInd.
  Variable P : nf -> Prop.
  Hypothesis HVar : forall z, P (NVar z).
  Hypothesis HNot : forall f, P f -> P (NNot f).
  Hypothesis HAnd : forall l, Forall P l -> P (NAnd l).
  Hypothesis HOr : forall l, Forall P l -> P (NOr l).
  Fixpoint nf_ind' (f : nf) : P f :=
    match f with
    | NVar z => HVar z
    | NNot g => HNot g (nf_ind' g)
    | NAnd l => HAnd l ((fix go (l : list nf) : Forall P l :=
                           match l with [] => Forall_nil P | x :: t => Forall_cons x (nf_ind' x) (go t) end) l)
    | NOr l => HOr l ((fix go (l : list nf) : Forall P l :=
                         match l with [] => Forall_nil P | x :: t => Forall_cons x (nf_ind' x) (go t) end) l)
    end.
End NfInd.

(** * Monad plumbing *)
Lemma rbind_ok {A B} (m : res A) (f : A -> res B) b :
  rbind m f = Ok b -> exists a, m = Ok a /\ f a = Ok b.
Proof. destruct m as [a|e]; cbn; [eauto|discriminate]. Qed.

Lemma mapM_ok {A B} (f : A -> res B) l l' :
  mapM f l = Ok l' -> Forall2 (fun x y => f x = Ok y) l l'.
Proof.
  revert l'. induction l as [|x l IH]; intros l' H; cbn [mapM] in H.
  - inversion H. constructor.
  - apply rbind_ok in H. destruct H as [y [Hy H]]. apply rbind_ok in H. destruct H as [ys [Hys H]].
    inversion H. constructor; [assumption|now apply IH].
Qed.

(** * Boolean list facts *)
Lemma forallb_perm {A} (p : A -> bool) l l' : Permutation l l' -> forallb p l = forallb p l'.
Proof.
  induction 1; cbn; try congruence.
  - destruct (p x), (p y); reflexivity.
Qed.

Lemma existsb_perm {A} (p : A -> bool) l l' : Permutation l l' -> existsb p l = existsb p l'.
Proof.
  induction 1; cbn; try congruence.
  - destruct (p x), (p y); reflexivity.
Qed.

Lemma forallb_flat_map {A B} (p : B -> bool) (f : A -> list B) l :
  forallb p (flat_map f l) = forallb (fun x => forallb p (f x)) l.
Proof. induction l; cbn; [reflexivity|]. now rewrite forallb_app, IHl. Qed.

Lemma existsb_flat_map {A B} (p : B -> bool) (f : A -> list B) l :
  existsb p (flat_map f l) = existsb (fun x => existsb p (f x)) l.
Proof. induction l; cbn; [reflexivity|]. now rewrite existsb_app, IHl. Qed.

Lemma existsb_ext' {A} (p q : A -> bool) l : (forall x, p x = q x) -> existsb p l = existsb q l.
Proof. intros H. induction l; cbn; [reflexivity|]. now rewrite H, IHl. Qed.

Lemma existsb_map' {A B} (f : A -> B) (p : B -> bool) l : existsb p (map f l) = existsb (fun x => p (f x)) l.
Proof. induction l; cbn; [reflexivity|]. now rewrite IHl. Qed.

Lemma negb_forallb {A} (p : A -> bool) l : negb (forallb p l) = existsb (fun x => negb (p x)) l.
Proof. induction l; cbn; [reflexivity|]. now rewrite negb_andb, IHl. Qed.

Lemma negb_existsb {A} (p : A -> bool) l : negb (existsb p l) = forallb (fun x => negb (p x)) l.
Proof. induction l; cbn; [reflexivity|]. now rewrite negb_orb, IHl. Qed.

(** * The sort returns a permutation *)
Lemma insert_at_perm n x pre : Permutation (x :: pre) (insert_at n x pre).
Proof.
  unfold insert_at. rewrite <- (firstn_skipn n pre) at 1. apply Permutation_middle.
Qed.

Lemma binsort_perm rest : forall pre r, binsort pre rest = Ok r -> Permutation (pre ++ rest) r.
Proof.
  induction rest as [|x rest IH]; intros pre r H; cbn [binsort] in H.
  - inversion H. now rewrite app_nil_r.
  - apply rbind_ok in H. destruct H as [pos [_ H]]. apply IH in H.
    rewrite <- H. rewrite <- insert_at_perm. apply Permutation_sym, Permutation_middle.
Qed.

Lemma pysort_kv_perm l r : pysort_kv l = Ok r -> Permutation l r.
Proof.
  unfold pysort_kv. destruct l as [|a [|b l]].
  - intros H. inversion H. constructor.
  - intros H. inversion H. apply Permutation_refl.
  - intros H. apply rbind_ok in H. destruct H as [[n desc] [_ H]]. apply binsort_perm in H.
    rewrite <- H. rewrite <- (firstn_skipn n (a :: b :: l)) at 1.
    apply Permutation_app_tail. destruct desc; [apply Permutation_rev|apply Permutation_refl].
Qed.

Lemma pysort_perm l r : pysort l = Ok r -> Permutation l r.
Proof.
  unfold pysort. destruct (_ || _); [|discriminate]. intros H.
  apply rbind_ok in H. destruct H as [kr [H1 H2]]. inversion H2. subst r. apply pysort_kv_perm in H1.
  apply (Permutation_map snd) in H1. rewrite map_map in H1. cbn [snd] in H1. now rewrite map_id in H1.
Qed.

(** * Flattening, build_or, build_and *)
Definition flat1 (cls : bool) (c : nf) : list nf :=
  if (if cls then is_and c else is_or c) then input_list c else [c].

Lemma flatten_perm l cls r : flatten_clause_list l cls = Ok r -> Permutation (flat_map (flat1 cls) l) r.
Proof. unfold flatten_clause_list. apply pysort_perm. Qed.

Lemma flat1_or_sem s c : existsb (neval s) (flat1 false c) = neval s c.
Proof. unfold flat1. destruct c; cbn; try now rewrite orb_false_r. reflexivity. Qed.

Lemma flat1_and_sem s c : forallb (neval s) (flat1 true c) = neval s c.
Proof. unfold flat1. destruct c; cbn; try now rewrite andb_true_r. reflexivity. Qed.

Lemma build_or_sem s l g : build_or l = Ok g -> neval s g = existsb (neval s) l.
Proof.
  unfold build_or. intros H. apply rbind_ok in H. destruct H as [l' [H1 H2]]. inversion H2. subst g.
  apply flatten_perm in H1. cbn [neval]. rewrite <- (existsb_perm _ _ _ H1), existsb_flat_map.
  apply existsb_ext'. intros c. apply flat1_or_sem.
Qed.

Lemma build_and_sem s l g : build_and l = Ok g -> neval s g = forallb (neval s) l.
Proof.
  unfold build_and. intros H. apply rbind_ok in H. destruct H as [l' [H1 H2]]. inversion H2. subst g.
  apply flatten_perm in H1. cbn [neval]. rewrite <- (forallb_perm _ _ _ H1), forallb_flat_map.
  apply forallb_ext'. intros c. apply flat1_and_sem.
Qed.

(** leaves *)
Definition lvs (l : list nf) : list Z := flat_map nleaves l.

Lemma lvs_perm l l' : Permutation l l' -> Permutation (lvs l) (lvs l').
Proof. unfold lvs. induction 1; cbn.
  - constructor.
  - now apply Permutation_app_head.
  - rewrite !app_assoc. apply Permutation_app_tail, Permutation_app_comm.
  - eapply Permutation_trans; eassumption.
Qed.

Lemma lvs_flat1 cls l : lvs (flat_map (flat1 cls) l) = lvs l.
Proof.
  unfold lvs. induction l as [|c l IH]; [reflexivity|]. cbn [flat_map]. rewrite flat_map_app, IH. f_equal.
  unfold flat1. destruct cls, c; cbn; now rewrite ?app_nil_r.
Qed.

Lemma build_or_lvs l g : build_or l = Ok g -> Permutation (lvs l) (nleaves g).
Proof.
  unfold build_or. intros H. apply rbind_ok in H. destruct H as [l' [H1 H2]]. inversion H2. subst g.
  apply flatten_perm in H1. apply lvs_perm in H1. rewrite lvs_flat1 in H1. exact H1.
Qed.

Lemma build_and_lvs l g : build_and l = Ok g -> Permutation (lvs l) (nleaves g).
Proof.
  unfold build_and. intros H. apply rbind_ok in H. destruct H as [l' [H1 H2]]. inversion H2. subst g.
  apply flatten_perm in H1. apply lvs_perm in H1. rewrite lvs_flat1 in H1. exact H1.
Qed.
