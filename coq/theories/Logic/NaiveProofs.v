(** Proofs about Logic/Naive.v: whenever [to_cnf_naive] returns, its result is
    equivalent to the input, mentions no new variable and has CNF shape.  The
    Python sort is only known to return a permutation of its input (that is all
    the meaning depends on). *)
From Coq Require Import ZArith List Bool Lia ZifyBool Permutation Arith.
From SP Require Import Base.Sat Logic.Formula Logic.Naive Logic.TseitinProofs.
Import ListNotations.
Open Scope Z_scope.

(** * Induction principle for [nf] *)
Section NfInd.
  Variable P : nf -> Prop.
  Hypothesis HVar : forall z, P (NVar z).
  Hypothesis HNot : forall f, P f -> P (NNot f).
  Hypothesis HAnd : forall l, Forall P l -> P (NAnd l).
  Hypothesis HOr : forall l, Forall P l -> P (NOr l).
  Fixpoint nf_ind' (f : nf) : P f :=
    match f with
    | NVar z => HVar z
    | NNot g => HNot g (nf_ind' g)
    | NAnd l => HAnd l ((fix go (l : list nf) : Forall P l :=
                           match l with [] => Forall_nil P | x :: t => Forall_cons x (nf_ind' x) (go t) end) l)
    | NOr l => HOr l ((fix go (l : list nf) : Forall P l :=
                         match l with [] => Forall_nil P | x :: t => Forall_cons x (nf_ind' x) (go t) end) l)
    end.
End NfInd.

(** * Monad plumbing *)
Lemma rbind_ok {A B} (m : res A) (f : A -> res B) b :
  rbind m f = Ok b -> exists a, m = Ok a /\ f a = Ok b.
Proof. destruct m as [a|e]; cbn; [eauto|discriminate]. Qed.

Lemma mapM_ok {A B} (f : A -> res B) l l' :
  mapM f l = Ok l' -> Forall2 (fun x y => f x = Ok y) l l'.
Proof.
  revert l'. induction l as [|x l IH]; intros l' H; cbn [mapM] in H.
  - inversion H. constructor.
  - apply rbind_ok in H. destruct H as [y [Hy H]]. apply rbind_ok in H. destruct H as [ys [Hys H]].
    inversion H. constructor; [assumption|now apply IH].
Qed.

(** * Boolean list facts *)
Lemma forallb_perm {A} (p : A -> bool) l l' : Permutation l l' -> forallb p l = forallb p l'.
Proof.
  induction 1; cbn; try congruence.
  - destruct (p x), (p y); reflexivity.
Qed.

Lemma existsb_perm {A} (p : A -> bool) l l' : Permutation l l' -> existsb p l = existsb p l'.
Proof.
  induction 1; cbn; try congruence.
  - destruct (p x), (p y); reflexivity.
Qed.

Lemma forallb_flat_map {A B} (p : B -> bool) (f : A -> list B) l :
  forallb p (flat_map f l) = forallb (fun x => forallb p (f x)) l.
Proof. induction l; cbn; [reflexivity|]. now rewrite forallb_app, IHl. Qed.

Lemma existsb_flat_map {A B} (p : B -> bool) (f : A -> list B) l :
  existsb p (flat_map f l) = existsb (fun x => existsb p (f x)) l.
Proof. induction l; cbn; [reflexivity|]. now rewrite existsb_app, IHl. Qed.

Lemma existsb_ext' {A} (p q : A -> bool) l : (forall x, p x = q x) -> existsb p l = existsb q l.
Proof. intros H. induction l; cbn; [reflexivity|]. now rewrite H, IHl. Qed.

Lemma existsb_map' {A B} (f : A -> B) (p : B -> bool) l : existsb p (map f l) = existsb (fun x => p (f x)) l.
Proof. induction l; cbn; [reflexivity|]. now rewrite IHl. Qed.

Lemma negb_forallb {A} (p : A -> bool) l : negb (forallb p l) = existsb (fun x => negb (p x)) l.
Proof. induction l; cbn; [reflexivity|]. now rewrite negb_andb, IHl. Qed.

Lemma negb_existsb {A} (p : A -> bool) l : negb (existsb p l) = forallb (fun x => negb (p x)) l.
Proof. induction l; cbn; [reflexivity|]. now rewrite negb_orb, IHl. Qed.

(** * The sort returns a permutation *)
Lemma insert_at_perm n x pre : Permutation (x :: pre) (insert_at n x pre).
Proof.
  unfold insert_at. rewrite <- (firstn_skipn n pre) at 1. apply Permutation_middle.
Qed.

Lemma binsort_perm rest : forall pre r, binsort pre rest = Ok r -> Permutation (pre ++ rest) r.
Proof.
  induction rest as [|x rest IH]; intros pre r H; cbn [binsort] in H.
  - inversion H. now rewrite app_nil_r.
  - apply rbind_ok in H. destruct H as [pos [_ H]]. apply IH in H.
    rewrite <- H. rewrite <- insert_at_perm. apply Permutation_sym, Permutation_middle.
Qed.

Lemma pysort_kv_perm l r : pysort_kv l = Ok r -> Permutation l r.
Proof.
  unfold pysort_kv. destruct l as [|a [|b l]].
  - intros H. inversion H. constructor.
  - intros H. inversion H. apply Permutation_refl.
  - intros H. apply rbind_ok in H. destruct H as [[n desc] [_ H]]. apply binsort_perm in H.
    rewrite <- H. rewrite <- (firstn_skipn n (a :: b :: l)) at 1.
    apply Permutation_app_tail. destruct desc; [apply Permutation_rev|apply Permutation_refl].
Qed.

Lemma pysort_perm l r : pysort l = Ok r -> Permutation l r.
Proof.
  unfold pysort. destruct (_ || _); [|discriminate]. intros H.
  apply rbind_ok in H. destruct H as [kr [H1 H2]]. inversion H2. subst r. apply pysort_kv_perm in H1.
  apply (Permutation_map snd) in H1. rewrite map_map in H1. cbn [snd] in H1. now rewrite map_id in H1.
Qed.

(** * Flattening, build_or, build_and *)
Definition flat1 (cls : bool) (c : nf) : list nf :=
  if (if cls then is_and c else is_or c) then input_list c else [c].

Lemma flatten_perm l cls r : flatten_clause_list l cls = Ok r -> Permutation (flat_map (flat1 cls) l) r.
Proof. unfold flatten_clause_list. apply pysort_perm. Qed.

Lemma flat1_or_sem s c : existsb (neval s) (flat1 false c) = neval s c.
Proof. unfold flat1. destruct c; cbn; try now rewrite orb_false_r. reflexivity. Qed.

Lemma flat1_and_sem s c : forallb (neval s) (flat1 true c) = neval s c.
Proof. unfold flat1. destruct c; cbn; try now rewrite andb_true_r. reflexivity. Qed.

Lemma build_or_sem s l g : build_or l = Ok g -> neval s g = existsb (neval s) l.
Proof.
  unfold build_or. intros H. apply rbind_ok in H. destruct H as [l' [H1 H2]]. inversion H2. subst g.
  apply flatten_perm in H1. cbn [neval]. rewrite <- (existsb_perm _ _ _ H1), existsb_flat_map.
  apply existsb_ext'. intros c. apply flat1_or_sem.
Qed.

Lemma build_and_sem s l g : build_and l = Ok g -> neval s g = forallb (neval s) l.
Proof.
  unfold build_and. intros H. apply rbind_ok in H. destruct H as [l' [H1 H2]]. inversion H2. subst g.
  apply flatten_perm in H1. cbn [neval]. rewrite <- (forallb_perm _ _ _ H1), forallb_flat_map.
  apply forallb_ext'. intros c. apply flat1_and_sem.
Qed.

(** leaves *)
Definition lvs (l : list nf) : list Z := flat_map nleaves l.

Lemma lvs_perm l l' : Permutation l l' -> Permutation (lvs l) (lvs l').
Proof. unfold lvs. induction 1; cbn.
  - constructor.
  - now apply Permutation_app_head.
  - rewrite !app_assoc. apply Permutation_app_tail, Permutation_app_comm.
  - eapply Permutation_trans; eassumption.
Qed.

Lemma lvs_flat1 cls l : lvs (flat_map (flat1 cls) l) = lvs l.
Proof.
  unfold lvs. induction l as [|c l IH]; [reflexivity|]. cbn [flat_map]. rewrite flat_map_app, IH. f_equal.
  unfold flat1. destruct cls, c; cbn; now rewrite ?app_nil_r.
Qed.

Lemma build_or_lvs l g : build_or l = Ok g -> Permutation (lvs l) (nleaves g).
Proof.
  unfold build_or. intros H. apply rbind_ok in H. destruct H as [l' [H1 H2]]. inversion H2. subst g.
  apply flatten_perm in H1. apply lvs_perm in H1. rewrite lvs_flat1 in H1. exact H1.
Qed.

Lemma build_and_lvs l g : build_and l = Ok g -> Permutation (lvs l) (nleaves g).
Proof.
  unfold build_and. intros H. apply rbind_ok in H. destruct H as [l' [H1 H2]]. inversion H2. subst g.
  apply flatten_perm in H1. apply lvs_perm in H1. rewrite lvs_flat1 in H1. exact H1.
Qed.

(** * __eliminate_iff *)
Lemma elim_sem s f : neval s (elim f) = eval s f.
Proof.
  induction f as [z|g IH|l IH|l IH|p q IHp IHq|p q IHp IHq] using fm_ind'; cbn [elim neval eval].
  - reflexivity.
  - now rewrite IH.
  - rewrite forallb_map'. induction IH as [|x l Hx _ IH]; cbn; [reflexivity|]. now rewrite Hx, IH.
  - rewrite existsb_map'. induction IH as [|x l Hx _ IH]; cbn; [reflexivity|]. now rewrite Hx, IH.
  - cbn [existsb neval]. rewrite IHp, IHq. destruct (eval s p), (eval s q); reflexivity.
  - cbn [forallb existsb neval]. rewrite IHp, IHq. destruct (eval s p), (eval s q); reflexivity.
Qed.

Lemma elim_leaves f : incl (nleaves (elim f)) (leaves f).
Proof.
  induction f as [z|g IH|l IH|l IH|p q IHp IHq|p q IHp IHq] using fm_ind'; cbn [elim nleaves leaves].
  - apply incl_refl.
  - exact IH.
  - induction IH as [|x l Hx _ IH]; cbn; [apply incl_refl|]. apply incl_app; [now apply incl_appl|now apply incl_appr].
  - induction IH as [|x l Hx _ IH]; cbn; [apply incl_refl|]. apply incl_app; [now apply incl_appl|now apply incl_appr].
  - cbn [flat_map nleaves]. rewrite app_nil_r. apply incl_app; [now apply incl_appl|now apply incl_appr].
  - cbn [flat_map nleaves]. rewrite !app_nil_r.
    repeat apply incl_app; try (now apply incl_appl); now apply incl_appr.
Qed.

(** * __apply_demorgan *)
Lemma Forall2_sem_forallb (R : nf -> nf -> Prop) s l l' :
  Forall2 R l l' -> (forall x y, In x l -> R x y -> neval s y = neval s x) ->
  forallb (neval s) l' = forallb (neval s) l /\ existsb (neval s) l' = existsb (neval s) l.
Proof.
  induction 1 as [|x y l l' Hxy _ IH]; intros H; cbn; [split; reflexivity|].
  rewrite (H x y (or_introl eq_refl) Hxy).
  destruct IH as [I1 I2]; [intros a b Ha; apply H; now right|]. now rewrite I1, I2.
Qed.

Lemma demorgan_sem s n : forall f g, demorgan n f = Ok g -> neval s g = neval s f.
Proof.
  induction n as [|n IH]; intros f g H; cbn [demorgan] in H; [discriminate|].
  destruct f as [z|c|l|l].
  - inversion H. reflexivity.
  - destruct c as [z|c'|l|l].
    + inversion H. reflexivity.
    + apply IH in H. rewrite H. cbn [neval]. now rewrite negb_involutive.
    + apply rbind_ok in H. destruct H as [t [H1 H2]]. apply IH in H2. rewrite H2.
      rewrite (build_or_sem s _ _ H1). cbn [neval]. rewrite existsb_map', negb_forallb. reflexivity.
    + apply rbind_ok in H. destruct H as [t [H1 H2]]. apply IH in H2. rewrite H2.
      rewrite (build_and_sem s _ _ H1). cbn [neval]. rewrite forallb_map', negb_existsb. reflexivity.
  - apply rbind_ok in H. destruct H as [l' [H1 H2]]. rewrite (build_and_sem s _ _ H2). cbn [neval].
    apply mapM_ok in H1. apply (Forall2_sem_forallb _ s _ _ H1). intros x y _ Hxy. now apply IH.
  - apply rbind_ok in H. destruct H as [l' [H1 H2]]. rewrite (build_or_sem s _ _ H2). cbn [neval].
    apply mapM_ok in H1. apply (Forall2_sem_forallb _ s _ _ H1). intros x y _ Hxy. now apply IH.
Qed.

Lemma Forall2_lvs (R : nf -> nf -> Prop) l l' :
  Forall2 R l l' -> (forall x y, R x y -> incl (nleaves y) (nleaves x)) -> incl (lvs l') (lvs l).
Proof.
  unfold lvs. induction 1 as [|x y l l' Hxy _ IH]; intros H; cbn; [apply incl_refl|].
  apply incl_app; [apply incl_appl; now apply H|apply incl_appr; now apply IH].
Qed.

Lemma lvs_map_not l : lvs (map NNot l) = lvs l.
Proof. unfold lvs. induction l; cbn; [reflexivity|]. now rewrite IHl. Qed.

Lemma perm_incl {A} (l l' : list A) : Permutation l l' -> incl l' l.
Proof. intros H x Hx. apply Permutation_sym in H. now apply (Permutation_in _ H). Qed.

Lemma demorgan_leaves n : forall f g, demorgan n f = Ok g -> incl (nleaves g) (nleaves f).
Proof.
  induction n as [|n IH]; intros f g H; cbn [demorgan] in H; [discriminate|].
  destruct f as [z|c|l|l].
  - inversion H. apply incl_refl.
  - destruct c as [z|c'|l|l].
    + inversion H. apply incl_refl.
    + apply IH in H. exact H.
    + apply rbind_ok in H. destruct H as [t [H1 H2]]. apply IH in H2. apply build_or_lvs in H1.
      rewrite lvs_map_not in H1. eapply incl_tran; [exact H2|]. now apply perm_incl.
    + apply rbind_ok in H. destruct H as [t [H1 H2]]. apply IH in H2. apply build_and_lvs in H1.
      rewrite lvs_map_not in H1. eapply incl_tran; [exact H2|]. now apply perm_incl.
  - apply rbind_ok in H. destruct H as [l' [H1 H2]]. apply build_and_lvs in H2. apply mapM_ok in H1.
    eapply incl_tran; [apply perm_incl; exact H2|]. apply (Forall2_lvs _ _ _ H1). intros x y. apply IH.
  - apply rbind_ok in H. destruct H as [l' [H1 H2]]. apply build_or_lvs in H2. apply mapM_ok in H1.
    eapply incl_tran; [apply perm_incl; exact H2|]. apply (Forall2_lvs _ _ _ H1). intros x y. apply IH.
Qed.

(** negation normal form: negations on leaves only *)
Fixpoint nnf (f : nf) : bool :=
  match f with
  | NVar _ => true
  | NNot (NVar _) => true
  | NNot _ => false
  | NAnd l => forallb nnf l
  | NOr l => forallb nnf l
  end.

Lemma flat1_nnf cls c : nnf c = true -> forallb nnf (flat1 cls c) = true.
Proof.
  unfold flat1. intros H. destruct cls, c; cbn [is_and is_or input_list forallb]; try now rewrite H.
  - exact H.
  - exact H.
Qed.

Lemma build_nnf l : forallb nnf l = true ->
  (forall g, build_or l = Ok g -> nnf g = true) /\ (forall g, build_and l = Ok g -> nnf g = true).
Proof.
  intros Hl.
  assert (F : forall cls, forallb nnf (flat_map (flat1 cls) l) = true).
  { intros cls. rewrite forallb_flat_map. rewrite forallb_forall in *. intros c Hc. apply flat1_nnf. now apply Hl. }
  split; intros g H; [unfold build_or in H|unfold build_and in H];
    apply rbind_ok in H; destruct H as [l' [H1 H2]]; inversion H2; subst g;
    apply flatten_perm in H1; cbn [nnf]; rewrite <- (forallb_perm _ _ _ H1); apply F.
Qed.

Lemma Forall2_forallb (R : nf -> nf -> Prop) (p : nf -> bool) l l' :
  Forall2 R l l' -> (forall x y, R x y -> p y = true) -> forallb p l' = true.
Proof.
  induction 1 as [|x y l l' Hxy _ IH]; intros H; cbn; [reflexivity|].
  rewrite (H x y Hxy). now apply IH.
Qed.

Lemma demorgan_nnf n : forall f g, demorgan n f = Ok g -> nnf g = true.
Proof.
  induction n as [|n IH]; intros f g H; cbn [demorgan] in H; [discriminate|].
  destruct f as [z|c|l|l].
  - inversion H. reflexivity.
  - destruct c as [z|c'|l|l].
    + inversion H. reflexivity.
    + now apply IH in H.
    + apply rbind_ok in H. destruct H as [t [_ H2]]. now apply IH in H2.
    + apply rbind_ok in H. destruct H as [t [_ H2]]. now apply IH in H2.
  - apply rbind_ok in H. destruct H as [l' [H1 H2]]. apply mapM_ok in H1.
    apply (proj2 (build_nnf l' (Forall2_forallb _ nnf _ _ H1 (fun x y => IH x y))) g H2).
  - apply rbind_ok in H. destruct H as [l' [H1 H2]]. apply mapM_ok in H1.
    apply (proj1 (build_nnf l' (Forall2_forallb _ nnf _ _ H1 (fun x y => IH x y))) g H2).
Qed.

(** * __distribute_ors_naive *)
Lemma dist_naive_and l : dist_naive (NAnd l) = (l' <- mapM dist_naive l ;; build_and l').
Proof.
  cbn [dist_naive].
  match goal with |- rbind (?g l) _ = _ => assert (E : forall l, g l = mapM dist_naive l) end.
  { clear. induction l as [|a l IH]; [reflexivity|]. cbn [mapM]. now rewrite IH. }
  now rewrite E.
Qed.

Lemma dist_naive_or l :
  dist_naive (NOr l) =
  (cl <- mapM dist_naive l ;; ors <- mapM build_or (cprod (map get_list_for_crossing cl)) ;; build_and ors).
Proof.
  cbn [dist_naive].
  match goal with |- rbind (?g l) _ = _ => assert (E : forall l, g l = mapM dist_naive l) end.
  { clear. induction l as [|a l IH]; [reflexivity|]. cbn [mapM]. now rewrite IH. }
  now rewrite E.
Qed.

Lemma build_and_shape l g : build_and l = Ok g -> exists m, g = NAnd m.
Proof. unfold build_and. intros H. apply rbind_ok in H. destruct H as [m [_ H]]. inversion H. eauto. Qed.

Lemma build_or_shape l g : build_or l = Ok g -> exists m, g = NOr m.
Proof. unfold build_or. intros H. apply rbind_ok in H. destruct H as [m [_ H]]. inversion H. eauto. Qed.

Lemma dist_not_or f g : dist_naive f = Ok g -> is_or g = false.
Proof.
  destruct f as [z|c|l|l].
  - intros H. inversion H. reflexivity.
  - intros H. inversion H. reflexivity.
  - rewrite dist_naive_and. intros H. apply rbind_ok in H. destruct H as [l' [_ H]].
    apply build_and_shape in H. destruct H as [m ->]. reflexivity.
  - rewrite dist_naive_or. intros H. apply rbind_ok in H. destruct H as [l' [_ H]].
    apply rbind_ok in H. destruct H as [ors [_ H]].
    apply build_and_shape in H. destruct H as [m ->]. reflexivity.
Qed.

Lemma forallb_orb_l {A} (q : A -> bool) b L : forallb (fun t => b || q t) L = b || forallb q L.
Proof. induction L; cbn; [now rewrite orb_true_r|]. rewrite IHL. destruct b; reflexivity. Qed.

Lemma forallb_orb_r {A} (p : A -> bool) R l : forallb (fun x => p x || R) l = forallb p l || R.
Proof. induction l; cbn; [reflexivity|]. rewrite IHl. destruct (p a), R; cbn; try reflexivity. now rewrite orb_true_r. Qed.

(** distribution of a disjunction of conjunctions *)
Lemma cprod_sem {A} (p : A -> bool) (ls : list (list A)) :
  forallb (existsb p) (cprod ls) = existsb (forallb p) ls.
Proof.
  induction ls as [|l ls IH]; [reflexivity|]. cbn [cprod existsb].
  rewrite forallb_flat_map.
  rewrite (forallb_ext' _ (fun x => p x || existsb (forallb p) ls)).
  - apply forallb_orb_r.
  - intros x. rewrite forallb_map'. cbn [existsb]. rewrite forallb_orb_l. now rewrite IH.
Qed.

Lemma glfc_sem s c : is_or c = false -> forallb (neval s) (get_list_for_crossing c) = neval s c.
Proof. destruct c; cbn; intros H; try discriminate; try now rewrite andb_true_r. reflexivity. Qed.

Lemma Forall2_build_or_sem s L ors :
  Forall2 (fun x y => build_or x = Ok y) L ors ->
  forallb (neval s) ors = forallb (existsb (neval s)) L.
Proof.
  induction 1 as [|x y L ors Hxy _ IH]; cbn; [reflexivity|]. now rewrite (build_or_sem s _ _ Hxy), IH.
Qed.

Lemma dist_sem s f : forall g, dist_naive f = Ok g -> neval s g = neval s f.
Proof.
  induction f as [z|c IH|l IH|l IH] using nf_ind'; intros g H.
  - inversion H. reflexivity.
  - inversion H. reflexivity.
  - rewrite dist_naive_and in H. apply rbind_ok in H. destruct H as [l' [H1 H2]].
    rewrite (build_and_sem s _ _ H2). cbn [neval]. apply mapM_ok in H1.
    apply (Forall2_sem_forallb _ s _ _ H1). intros x y Hx Hxy.
    rewrite Forall_forall in IH. now apply IH.
  - rewrite dist_naive_or in H. apply rbind_ok in H. destruct H as [cl [H1 H]].
    apply rbind_ok in H. destruct H as [ors [H2 H3]].
    rewrite (build_and_sem s _ _ H3). apply mapM_ok in H1. apply mapM_ok in H2.
    rewrite (Forall2_build_or_sem s _ _ H2), cprod_sem. cbn [neval].
    rewrite existsb_map'.
    assert (E : existsb (fun x => forallb (neval s) (get_list_for_crossing x)) cl = existsb (neval s) cl).
    { clear H2 H3. induction H1 as [|x y l cl Hxy _ IH']; [reflexivity|]. cbn [existsb].
      rewrite (glfc_sem s y (dist_not_or _ _ Hxy)). f_equal. apply IH'. now inversion IH. }
    rewrite E. apply (Forall2_sem_forallb _ s _ _ H1). intros x y Hx Hxy.
    rewrite Forall_forall in IH. now apply IH.
Qed.

(** leaves of the distributed formula *)
Lemma cprod_in {A} (ls : list (list A)) t x :
  In t (cprod ls) -> In x t -> exists l, In l ls /\ In x l.
Proof.
  revert t. induction ls as [|l ls IH]; intros t Ht Hx; cbn [cprod] in Ht.
  - destruct Ht as [<-|[]]. destruct Hx.
  - apply in_flat_map in Ht. destruct Ht as [y [Hy Ht]]. apply in_map_iff in Ht. destruct Ht as [t' [<- Ht']].
    destruct Hx as [<-|Hx].
    + exists l. split; [now left|assumption].
    + destruct (IH t' Ht' Hx) as [l' [X Y]]. exists l'. split; [now right|assumption].
Qed.

Lemma glfc_lvs c : lvs (get_list_for_crossing c) = nleaves c.
Proof. unfold lvs. destruct c; cbn; now rewrite ?app_nil_r. Qed.

Lemma lvs_in l z : In z (lvs l) <-> exists c, In c l /\ In z (nleaves c).
Proof. unfold lvs. apply in_flat_map. Qed.

Lemma Forall2_in_r {A B} (R : A -> B -> Prop) l l' y :
  Forall2 R l l' -> In y l' -> exists x, In x l /\ R x y.
Proof.
  induction 1 as [|a b l l' Hab _ IH]; intros Hy; [destruct Hy|].
  destruct Hy as [<-|Hy]; [exists a; split; [now left|assumption]|].
  destruct (IH Hy) as [x [X Y]]. exists x. split; [now right|assumption].
Qed.

Lemma dist_leaves f : forall g, dist_naive f = Ok g -> incl (nleaves g) (nleaves f).
Proof.
  induction f as [z|c IH|l IH|l IH] using nf_ind'; intros g H.
  - inversion H. apply incl_refl.
  - inversion H. apply incl_refl.
  - rewrite dist_naive_and in H. apply rbind_ok in H. destruct H as [l' [H1 H2]].
    apply build_and_lvs in H2. apply mapM_ok in H1.
    eapply incl_tran; [apply perm_incl; exact H2|].
    assert (G : forall x y, In x l -> dist_naive x = Ok y -> incl (nleaves y) (nleaves x)).
    { rewrite Forall_forall in IH. intros x y Hx. now apply IH. }
    clear IH H2. unfold lvs. cbn [nleaves]. induction H1 as [|x y l l' Hxy _ IH']; cbn; [apply incl_refl|].
    apply incl_app; [apply incl_appl; apply (G x y); [now left|assumption]|apply incl_appr; apply IH'].
    intros a b Ha. apply G. now right.
  - rewrite dist_naive_or in H. apply rbind_ok in H. destruct H as [cl [H1 H]].
    apply rbind_ok in H. destruct H as [ors [H2 H3]].
    apply build_and_lvs in H3. apply mapM_ok in H1. apply mapM_ok in H2.
    eapply incl_tran; [apply perm_incl; exact H3|].
    assert (G : forall x y, In x l -> dist_naive x = Ok y -> incl (nleaves y) (nleaves x)).
    { rewrite Forall_forall in IH. intros x y Hx. now apply IH. }
    assert (C : incl (lvs cl) (lvs l)).
    { clear IH H2 H3. unfold lvs. induction H1 as [|x y l cl Hxy _ IH']; cbn; [apply incl_refl|].
      apply incl_app; [apply incl_appl; apply (G x y); [now left|assumption]|apply incl_appr; apply IH'].
      intros a b Ha. apply G. now right. }
    cbn [nleaves]. fold (lvs l). eapply incl_tran; [|exact C].
    intros z Hz. apply lvs_in in Hz. destruct Hz as [o [Ho Hz]].
    destruct (Forall2_in_r _ _ _ _ H2 Ho) as [t [Ht Hb]].
    apply build_or_lvs in Hb. apply (Permutation_in _ (Permutation_sym Hb)) in Hz.
    apply lvs_in in Hz. destruct Hz as [c [Hc Hz]].
    destruct (cprod_in _ _ _ Ht Hc) as [lst [Hl Hcl]]. apply in_map_iff in Hl. destruct Hl as [d [<- Hd]].
    apply lvs_in. exists d. split; [assumption|]. rewrite <- glfc_lvs. apply lvs_in. eauto.
Qed.

(** * CNF shape *)
Definition is_lit (f : nf) : bool :=
  match f with NVar _ => true | NNot (NVar _) => true | _ => false end.
Definition is_clause (f : nf) : bool :=
  is_lit f || match f with NOr l => forallb is_lit l | _ => false end.
Definition is_cnf (f : nf) : bool :=
  match f with NAnd l => forallb is_clause l | _ => false end.
Definition lit_or_cnf (f : nf) : bool := is_lit f || is_cnf f.

Lemma is_clause_cases c : is_clause c = true ->
  (is_lit c = true /\ is_and c = false /\ is_or c = false) \/ (exists m, c = NOr m /\ forallb is_lit m = true).
Proof.
  unfold is_clause. destruct c as [z|[z|?|?|?]|l|l]; cbn; intros H; try discriminate; eauto.
Qed.

Lemma build_and_cnf l g :
  (forall c, In c l -> lit_or_cnf c = true) -> build_and l = Ok g -> is_cnf g = true.
Proof.
  intros Hl H. unfold build_and in H. apply rbind_ok in H. destruct H as [l' [H1 H2]]. inversion H2. subst g.
  apply flatten_perm in H1. cbn [is_cnf]. rewrite <- (forallb_perm _ _ _ H1), forallb_flat_map.
  apply forallb_forall. intros c Hc. specialize (Hl c Hc). unfold lit_or_cnf in Hl. unfold flat1.
  destruct c as [z|[z|?|?|?]|m|m]; cbn in *; try discriminate; try reflexivity. exact Hl.
Qed.

Lemma build_or_clause l g :
  (forall c, In c l -> is_clause c = true) -> build_or l = Ok g -> is_clause g = true /\ is_and g = false.
Proof.
  intros Hl H. unfold build_or in H. apply rbind_ok in H. destruct H as [l' [H1 H2]]. inversion H2. subst g.
  apply flatten_perm in H1. split; [|reflexivity]. unfold is_clause. cbn [is_lit orb].
  rewrite <- (forallb_perm _ _ _ H1), forallb_flat_map.
  apply forallb_forall. intros c Hc. specialize (Hl c Hc). unfold flat1.
  destruct (is_clause_cases c Hl) as [[A [B C]]|[m [-> Hm]]].
  - rewrite C. cbn. now rewrite A.
  - cbn. exact Hm.
Qed.

Lemma build_and_clauses l g :
  (forall c, In c l -> is_clause c = true /\ is_and c = false) -> build_and l = Ok g -> is_cnf g = true.
Proof.
  intros Hl H. unfold build_and in H. apply rbind_ok in H. destruct H as [l' [H1 H2]]. inversion H2. subst g.
  apply flatten_perm in H1. cbn [is_cnf]. rewrite <- (forallb_perm _ _ _ H1), forallb_flat_map.
  apply forallb_forall. intros c Hc. destruct (Hl c Hc) as [A B]. unfold flat1. rewrite B. cbn. now rewrite A.
Qed.

Lemma glfc_clauses d x :
  lit_or_cnf d = true -> In x (get_list_for_crossing d) -> is_clause x = true.
Proof.
  unfold lit_or_cnf. destruct d as [z|[z|?|?|?]|m|m]; cbn; intros H Hx; try discriminate.
  - destruct Hx as [<-|[]]. reflexivity.
  - destruct Hx as [<-|[]]. reflexivity.
  - rewrite forallb_forall in H. now apply H.
Qed.

Lemma dist_shape f : forall g, nnf f = true -> dist_naive f = Ok g -> lit_or_cnf g = true.
Proof.
  induction f as [z|c IH|l IH|l IH] using nf_ind'; intros g N H.
  - inversion H. reflexivity.
  - inversion H. subst g. destruct c; cbn in N; try discriminate. reflexivity.
  - rewrite dist_naive_and in H. apply rbind_ok in H. destruct H as [l' [H1 H2]]. apply mapM_ok in H1.
    unfold lit_or_cnf. rewrite (build_and_cnf l' g); [now rewrite orb_true_r| |assumption].
    intros c Hc. destruct (Forall2_in_r _ _ _ _ H1 Hc) as [x [Hx Hxc]].
    rewrite Forall_forall in IH. apply (IH x Hx); [|assumption].
    cbn [nnf] in N. rewrite forallb_forall in N. now apply N.
  - rewrite dist_naive_or in H. apply rbind_ok in H. destruct H as [cl [H1 H]].
    apply rbind_ok in H. destruct H as [ors [H2 H3]]. apply mapM_ok in H1. apply mapM_ok in H2.
    unfold lit_or_cnf. rewrite (build_and_clauses ors g); [now rewrite orb_true_r| |assumption].
    intros o Ho. destruct (Forall2_in_r _ _ _ _ H2 Ho) as [t [Ht Hb]].
    apply (build_or_clause t o); [|assumption].
    intros c Hc. destruct (cprod_in _ _ _ Ht Hc) as [lst [Hl Hcl]].
    apply in_map_iff in Hl. destruct Hl as [d [<- Hd]]. apply (glfc_clauses d); [|assumption].
    destruct (Forall2_in_r _ _ _ _ H1 Hd) as [x [Hx Hxd]].
    rewrite Forall_forall in IH. apply (IH x Hx); [|assumption].
    cbn [nnf] in N. rewrite forallb_forall in N. now apply N.
Qed.

(** * to_cnf_naive *)
Lemma wrap_and_sem s g : neval s (wrap_and g) = neval s g.
Proof. destruct g; cbn; try now rewrite andb_true_r. reflexivity. Qed.

Lemma wrap_and_leaves g : nleaves (wrap_and g) = nleaves g.
Proof. destruct g; cbn; rewrite ?app_nil_r; reflexivity. Qed.

Lemma wrap_and_cnf g : lit_or_cnf g = true -> is_cnf (wrap_and g) = true.
Proof.
  unfold lit_or_cnf. destruct g as [z|[z|?|?|?]|m|m]; cbn; intros H; try discriminate; try reflexivity. exact H.
Qed.

Theorem naive_correct f nv g nv' :
  to_cnf_naive f nv = Ok (g, nv') ->
  nv' = nv /\
  (forall s, neval s g = eval s f) /\
  incl (nleaves g) (leaves f) /\
  is_cnf g = true.
Proof.
  unfold to_cnf_naive. intros H. apply rbind_ok in H. destruct H as [g1 [H1 H]].
  apply rbind_ok in H. destruct H as [g2 [H2 H3]]. inversion H3. subst g nv'. clear H3.
  split; [reflexivity|]. split; [|split].
  - intros s. rewrite wrap_and_sem, (dist_sem s _ _ H2), (demorgan_sem s _ _ _ H1). apply elim_sem.
  - rewrite wrap_and_leaves. eapply incl_tran; [apply (dist_leaves _ _ H2)|].
    eapply incl_tran; [apply (demorgan_leaves _ _ _ H1)|]. apply elim_leaves.
  - apply wrap_and_cnf. apply (dist_shape g1); [|assumption]. apply (demorgan_nnf _ _ _ H1).
Qed.

(** The conversion is not total: the sort inside [__apply_demorgan] compares
    keys that are not ints (Python: TypeError). *)
Lemma naive_not_total :
  exists f nv, to_cnf_naive f nv = Err ETypeError.
Proof. exists (FNot (FIf (FVar 1) (FVar 2))), 3. vm_compute. reflexivity. Qed.

Lemma ex_naive :
  to_cnf_naive (FIff (FVar 1) (FAnd [FVar 2; FVar (-3)])) 4 =
    Ok (NAnd [NOr [NNot (NVar (-3)); NVar 1; NNot (NVar 2)]; NOr [NVar (-3); NNot (NVar 1)];
              NOr [NNot (NVar 1); NVar 2]], 4).
Proof. vm_compute. reflexivity. Qed.
