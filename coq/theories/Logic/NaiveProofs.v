(** Proofs about Logic/Naive.v: whenever [to_cnf_naive] returns, its result is
    equivalent to the input, mentions no new variable and has CNF shape.  The
    Python sort is only known to return a permutation of its input (that is all
    the meaning depends on). *)
From Coq Require Import ZArith List Bool Lia ZifyBool Permutation Arith.
From SP Require Import Base.Sat Logic.Formula Logic.Naive Logic.TseitinProofs.
Import ListNotations.
Open Scope Z_scope.

(** * Induction principle for [nf] *)
Section NfInd.
  Variable P : nf -> Prop.
  Hypothesis HVar : forall z, P (NVar z).
  Hypothesis HNot : forall f, P f -> P (NNot f).
  Hypothesis HAnd : forall l, Forall P l -> P (NAnd l).
  Hypothesis HOr : forall l, Forall P l -> P (NOr l).
  Fixpoint nf_ind' (f : nf) : P f :=
    match f with
    | NVar z => HVar z
    | NNot g => HNot g (nf_ind' g)
    | NAnd l => HAnd l ((fix go (l : list nf) : Forall P l :=
                           match l with [] => Forall_nil P | x :: t => Forall_cons x (nf_ind' x) (go t) end) l)
    | NOr l => HOr l ((fix go (l : list nf) : Forall P l :=
                         match l with [] => Forall_nil P | x :: t => Forall_cons x (nf_ind' x) (go t) end) l)
    end.
End NfInd.

(** * Monad plumbing *)
Lemma rbind_ok {A B} (m : res A) (f : A -> res B) b :
  rbind m f = Ok b -> exists a, m = Ok a /\ f a = Ok b.
Proof. destruct m as [a|e]; cbn; [eauto|discriminate]. Qed.

Lemma mapM_ok {A B} (f : A -> res B) l l' :
  mapM f l = Ok l' -> Forall2 (fun x y => f x = Ok y) l l'.
Proof.
  revert l'. induction l as [|x l IH]; intros l' H; cbn [mapM] in H.
  - inversion H. constructor.
  - apply rbind_ok in H. destruct H as [y [Hy H]]. apply rbind_ok in H. destruct H as [ys [Hys H]].
    inversion H. constructor; [assumption|now apply IH].
Qed.

(** * Boolean list facts *)
Lemma forallb_perm {A} (p : A -> bool) l l' : Permutation l l' -> forallb p l = forallb p l'.
Proof.
  induction 1; cbn; try congruence.
  - destruct (p x), (p y); reflexivity.
Qed.

Lemma existsb_perm {A} (p : A -> bool) l l' : Permutation l l' -> existsb p l = existsb p l'.
Proof.
  induction 1; cbn; try congruence.
  - destruct (p x), (p y); reflexivity.
Qed.

Lemma forallb_flat_map {A B} (p : B -> bool) (f : A -> list B) l :
  forallb p (flat_map f l) = forallb (fun x => forallb p (f x)) l.
Proof. induction l; cbn; [reflexivity|]. now rewrite forallb_app, IHl. Qed.

Lemma existsb_flat_map {A B} (p : B -> bool) (f : A -> list B) l :
  existsb p (flat_map f l) = existsb (fun x => existsb p (f x)) l.
Proof. induction l; cbn; [reflexivity|]. now rewrite existsb_app, IHl. Qed.

Lemma existsb_ext' {A} (p q : A -> bool) l : (forall x, p x = q x) -> existsb p l = existsb q l.
Proof. intros H. induction l; cbn; [reflexivity|]. now rewrite H, IHl. Qed.

Lemma existsb_map' {A B} (f : A -> B) (p : B -> bool) l : existsb p (map f l) = existsb (fun x => p (f x)) l.
Proof. induction l; cbn; [reflexivity|]. now rewrite IHl. Qed.

Lemma negb_forallb {A} (p : A -> bool) l : negb (forallb p l) = existsb (fun x => negb (p x)) l.
Proof. induction l; cbn; [reflexivity|]. now rewrite negb_andb, IHl. Qed.

Lemma negb_existsb {A} (p : A -> bool) l : negb (existsb p l) = forallb (fun x => negb (p x)) l.
Proof. induction l; cbn; [reflexivity|]. now rewrite negb_orb, IHl. Qed.

(** * The sort returns a permutation *)
Lemma insert_at_perm n x pre : Permutation (x :: pre) (insert_at n x pre).
Proof.
  unfold insert_at. rewrite <- (firstn_skipn n pre) at 1. apply Permutation_middle.
Qed.

Lemma binsort_perm rest : forall pre r, binsort pre rest = Ok r -> Permutation (pre ++ rest) r.
Proof.
  induction rest as [|x rest IH]; intros pre r H; cbn [binsort] in H.
  - inversion H. now rewrite app_nil_r.
  - apply rbind_ok in H. destruct H as [pos [_ H]]. apply IH in H.
    rewrite <- H. rewrite <- insert_at_perm. apply Permutation_sym, Permutation_middle.
Qed.

Lemma pysort_kv_perm l r : pysort_kv l = Ok r -> Permutation l r.
Proof.
  unfold pysort_kv. destruct l as [|a [|b l]].
  - intros H. inversion H. constructor.
  - intros H. inversion H. apply Permutation_refl.
  - intros H. apply rbind_ok in H. destruct H as [[n desc] [_ H]]. apply binsort_perm in H.
    rewrite <- H. rewrite <- (firstn_skipn n (a :: b :: l)) at 1.
    apply Permutation_app_tail. destruct desc; [apply Permutation_rev|apply Permutation_refl].
Qed.

Lemma pysort_perm l r : pysort l = Ok r -> Permutation l r.
Proof.
  unfold pysort. destruct (_ || _); [|discriminate]. intros H.
  apply rbind_ok in H. destruct H as [kr [H1 H2]]. inversion H2. subst r. apply pysort_kv_perm in H1.
  apply (Permutation_map snd) in H1. rewrite map_map in H1. cbn [snd] in H1. now rewrite map_id in H1.
Qed.

(** * Flattening, build_or, build_and *)
Definition flat1 (cls : bool) (c : nf) : list nf :=
  if (if cls then is_and c else is_or c) then input_list c else [c].

Lemma flatten_perm l cls r : flatten_clause_list l cls = Ok r -> Permutation (flat_map (flat1 cls) l) r.
Proof. unfold flatten_clause_list. apply pysort_perm. Qed.

Lemma flat1_or_sem s c : existsb (neval s) (flat1 false c) = neval s c.
Proof. unfold flat1. destruct c; cbn; try now rewrite orb_false_r. reflexivity. Qed.

Lemma flat1_and_sem s c : forallb (neval s) (flat1 true c) = neval s c.
Proof. unfold flat1. destruct c; cbn; try now rewrite andb_true_r. reflexivity. Qed.

Lemma build_or_sem s l g : build_or l = Ok g -> neval s g = existsb (neval s) l.
Proof.
  unfold build_or. intros H. apply rbind_ok in H. destruct H as [l' [H1 H2]]. inversion H2. subst g.
  apply flatten_perm in H1. cbn [neval]. rewrite <- (existsb_perm _ _ _ H1), existsb_flat_map.
  apply existsb_ext'. intros c. apply flat1_or_sem.
Qed.

Lemma build_and_sem s l g : build_and l = Ok g -> neval s g = forallb (neval s) l.
Proof.
  unfold build_and. intros H. apply rbind_ok in H. destruct H as [l' [H1 H2]]. inversion H2. subst g.
  apply flatten_perm in H1. cbn [neval]. rewrite <- (forallb_perm _ _ _ H1), forallb_flat_map.
  apply forallb_ext'. intros c. apply flat1_and_sem.
Qed.

(** leaves *)
Definition lvs (l : list nf) : list Z := flat_map nleaves l.

Lemma lvs_perm l l' : Permutation l l' -> Permutation (lvs l) (lvs l').
Proof. unfold lvs. induction 1; cbn.
  - constructor.
  - now apply Permutation_app_head.
  - rewrite !app_assoc. apply Permutation_app_tail, Permutation_app_comm.
  - eapply Permutation_trans; eassumption.
Qed.

Lemma lvs_flat1 cls l : lvs (flat_map (flat1 cls) l) = lvs l.
Proof.
  unfold lvs. induction l as [|c l IH]; [reflexivity|]. cbn [flat_map]. rewrite flat_map_app, IH. f_equal.
  unfold flat1. destruct cls, c; cbn; now rewrite ?app_nil_r.
Qed.

Lemma build_or_lvs l g : build_or l = Ok g -> Permutation (lvs l) (nleaves g).
Proof.
  unfold build_or. intros H. apply rbind_ok in H. destruct H as [l' [H1 H2]]. inversion H2. subst g.
  apply flatten_perm in H1. apply lvs_perm in H1. rewrite lvs_flat1 in H1. exact H1.
Qed.

Lemma build_and_lvs l g : build_and l = Ok g -> Permutation (lvs l) (nleaves g).
Proof.
  unfold build_and. intros H. apply rbind_ok in H. destruct H as [l' [H1 H2]]. inversion H2. subst g.
  apply flatten_perm in H1. apply lvs_perm in H1. rewrite lvs_flat1 in H1. exact H1.
Qed.

(** * __eliminate_iff *)
Lemma elim_sem s f : neval s (elim f) = eval s f.
Proof.
  induction f as [z|g IH|l IH|l IH|p q IHp IHq|p q IHp IHq] using fm_ind'; cbn [elim neval eval].
  - reflexivity.
  - now rewrite IH.
  - rewrite forallb_map'. induction IH as [|x l Hx _ IH]; cbn; [reflexivity|]. now rewrite Hx, IH.
  - rewrite existsb_map'. induction IH as [|x l Hx _ IH]; cbn; [reflexivity|]. now rewrite Hx, IH.
  - cbn [existsb neval]. rewrite IHp, IHq. destruct (eval s p), (eval s q); reflexivity.
  - cbn [forallb existsb neval]. rewrite IHp, IHq. destruct (eval s p), (eval s q); reflexivity.
Qed.

Lemma elim_leaves f : incl (nleaves (elim f)) (leaves f).
Proof.
  induction f as [z|g IH|l IH|l IH|p q IHp IHq|p q IHp IHq] using fm_ind'; cbn [elim nleaves leaves].
  - apply incl_refl.
  - exact IH.
  - induction IH as [|x l Hx _ IH]; cbn; [apply incl_refl|]. apply incl_app; [now apply incl_appl|now apply incl_appr].
  - induction IH as [|x l Hx _ IH]; cbn; [apply incl_refl|]. apply incl_app; [now apply incl_appl|now apply incl_appr].
  - cbn [flat_map nleaves]. rewrite app_nil_r. apply incl_app; [now apply incl_appl|now apply incl_appr].
  - cbn [flat_map nleaves]. rewrite !app_nil_r.
    repeat apply incl_app; try (now apply incl_appl); now apply incl_appr.
Qed.

(** * __apply_demorgan *)
Lemma Forall2_sem_forallb (R : nf -> nf -> Prop) s l l' :
  Forall2 R l l' -> (forall x y, In x l -> R x y -> neval s y = neval s x) ->
  forallb (neval s) l' = forallb (neval s) l /\ existsb (neval s) l' = existsb (neval s) l.
Proof.
  induction 1 as [|x y l l' Hxy _ IH]; intros H; cbn; [split; reflexivity|].
  rewrite (H x y (or_introl eq_refl) Hxy).
  destruct IH as [I1 I2]; [intros a b Ha; apply H; now right|]. now rewrite I1, I2.
Qed.

Lemma demorgan_sem s n : forall f g, demorgan n f = Ok g -> neval s g = neval s f.
Proof.
  induction n as [|n IH]; intros f g H; cbn [demorgan] in H; [discriminate|].
  destruct f as [z|c|l|l].
  - inversion H. reflexivity.
  - destruct c as [z|c'|l|l].
    + inversion H. reflexivity.
    + apply IH in H. rewrite H. cbn [neval]. now rewrite negb_involutive.
    + apply rbind_ok in H. destruct H as [t [H1 H2]]. apply IH in H2. rewrite H2.
      rewrite (build_or_sem s _ _ H1). cbn [neval]. rewrite existsb_map', negb_forallb. reflexivity.
    + apply rbind_ok in H. destruct H as [t [H1 H2]]. apply IH in H2. rewrite H2.
      rewrite (build_and_sem s _ _ H1). cbn [neval]. rewrite forallb_map', negb_existsb. reflexivity.
  - apply rbind_ok in H. destruct H as [l' [H1 H2]]. rewrite (build_and_sem s _ _ H2). cbn [neval].
    apply mapM_ok in H1. apply (Forall2_sem_forallb _ s _ _ H1). intros x y _ Hxy. now apply IH.
  - apply rbind_ok in H. destruct H as [l' [H1 H2]]. rewrite (build_or_sem s _ _ H2). cbn [neval].
    apply mapM_ok in H1. apply (Forall2_sem_forallb _ s _ _ H1). intros x y _ Hxy. now apply IH.
Qed.

Lemma Forall2_lvs (R : nf -> nf -> Prop) l l' :
  Forall2 R l l' -> (forall x y, R x y -> incl (nleaves y) (nleaves x)) -> incl (lvs l') (lvs l).
Proof.
  unfold lvs. induction 1 as [|x y l l' Hxy _ IH]; intros H; cbn; [apply incl_refl|].
  apply incl_app; [apply incl_appl; now apply H|apply incl_appr; now apply IH].
Qed.

Lemma lvs_map_not l : lvs (map NNot l) = lvs l.
Proof. unfold lvs. induction l; cbn; [reflexivity|]. now rewrite IHl. Qed.

Lemma perm_incl {A} (l l' : list A) : Permutation l l' -> incl l' l.
Proof. intros H x Hx. apply Permutation_sym in H. now apply (Permutation_in _ H). Qed.

Lemma demorgan_leaves n : forall f g, demorgan n f = Ok g -> incl (nleaves g) (nleaves f).
Proof.
  induction n as [|n IH]; intros f g H; cbn [demorgan] in H; [discriminate|].
  destruct f as [z|c|l|l].
  - inversion H. apply incl_refl.
  - destruct c as [z|c'|l|l].
    + inversion H. apply incl_refl.
    + apply IH in H. exact H.
    + apply rbind_ok in H. destruct H as [t [H1 H2]]. apply IH in H2. apply build_or_lvs in H1.
      rewrite lvs_map_not in H1. eapply incl_tran; [exact H2|]. now apply perm_incl.
    + apply rbind_ok in H. destruct H as [t [H1 H2]]. apply IH in H2. apply build_and_lvs in H1.
      rewrite lvs_map_not in H1. eapply incl_tran; [exact H2|]. now apply perm_incl.
  - apply rbind_ok in H. destruct H as [l' [H1 H2]]. apply build_and_lvs in H2. apply mapM_ok in H1.
    eapply incl_tran; [apply perm_incl; exact H2|]. apply (Forall2_lvs _ _ _ H1). intros x y. apply IH.
  - apply rbind_ok in H. destruct H as [l' [H1 H2]]. apply build_or_lvs in H2. apply mapM_ok in H1.
    eapply incl_tran; [apply perm_incl; exact H2|]. apply (Forall2_lvs _ _ _ H1). intros x y. apply IH.
Qed.

(** negation normal form: negations on leaves only *)
Fixpoint nnf (f : nf) : bool :=
  match f with
  | NVar _ => true
  | NNot (NVar _) => true
  | NNot _ => false
  | NAnd l => forallb nnf l
  | NOr l => forallb nnf l
  end.

Lemma flat1_nnf cls c : nnf c = true -> forallb nnf (flat1 cls c) = true.
Proof.
  unfold flat1. intros H. destruct cls, c; cbn [is_and is_or input_list forallb]; try now rewrite H.
  - exact H.
  - exact H.
Qed.

Lemma build_nnf l : forallb nnf l = true ->
  (forall g, build_or l = Ok g -> nnf g = true) /\ (forall g, build_and l = Ok g -> nnf g = true).
Proof.
  intros Hl.
  assert (F : forall cls, forallb nnf (flat_map (flat1 cls) l) = true).
  { intros cls. rewrite forallb_flat_map. rewrite forallb_forall in *. intros c Hc. apply flat1_nnf. now apply Hl. }
  split; intros g H; [unfold build_or in H|unfold build_and in H];
    apply rbind_ok in H; destruct H as [l' [H1 H2]]; inversion H2; subst g;
    apply flatten_perm in H1; cbn [nnf]; rewrite <- (forallb_perm _ _ _ H1); apply F.
Qed.

Lemma Forall2_forallb (R : nf -> nf -> Prop) (p : nf -> bool) l l' :
  Forall2 R l l' -> (forall x y, R x y -> p y = true) -> forallb p l' = true.
Proof.
  induction 1 as [|x y l l' Hxy _ IH]; intros H; cbn; [reflexivity|].
  rewrite (H x y Hxy). now apply IH.
Qed.

Lemma demorgan_nnf n : forall f g, demorgan n f = Ok g -> nnf g = true.
Proof.
  induction n as [|n IH]; intros f g H; cbn [demorgan] in H; [discriminate|].
  destruct f as [z|c|l|l].
  - inversion H. reflexivity.
  - destruct c as [z|c'|l|l].
    + inversion H. reflexivity.
    + now apply IH in H.
    + apply rbind_ok in H. destruct H as [t [_ H2]]. now apply IH in H2.
    + apply rbind_ok in H. destruct H as [t [_ H2]]. now apply IH in H2.
  - apply rbind_ok in H. destruct H as [l' [H1 H2]]. apply mapM_ok in H1.
    apply (proj2 (build_nnf l' (Forall2_forallb _ nnf _ _ H1 (fun x y => IH x y))) g H2).
  - apply rbind_ok in H. destruct H as [l' [H1 H2]]. apply mapM_ok in H1.
    apply (proj1 (build_nnf l' (Forall2_forallb _ nnf _ _ H1 (fun x y => IH x y))) g H2).
Qed.

(** * __distribute_ors_naive *)
Lemma dist_naive_and l : dist_naive (NAnd l) = (l' <- mapM dist_naive l ;; build_and l').
Proof.
  cbn [dist_naive].
  match goal with |- rbind (?g l) _ = _ => assert (E : forall l, g l = mapM dist_naive l) end.
  { clear. induction l as [|a l IH]; [reflexivity|]. cbn [mapM]. now rewrite IH. }
  now rewrite E.
Qed.

Lemma dist_naive_or l :
  dist_naive (NOr l) =
  (cl <- mapM dist_naive l ;; ors <- mapM build_or (cprod (map get_list_for_crossing cl)) ;; build_and ors).
Proof.
  cbn [dist_naive].
  match goal with |- rbind (?g l) _ = _ => assert (E : forall l, g l = mapM dist_naive l) end.
  { clear. induction l as [|a l IH]; [reflexivity|]. cbn [mapM]. now rewrite IH. }
  now rewrite E.
Qed.

Lemma build_and_shape l g : build_and l = Ok g -> exists m, g = NAnd m.
Proof. unfold build_and. intros H. apply rbind_ok in H. destruct H as [m [_ H]]. inversion H. eauto. Qed.

Lemma build_or_shape l g : build_or l = Ok g -> exists m, g = NOr m.
Proof. unfold build_or. intros H. apply rbind_ok in H. destruct H as [m [_ H]]. inversion H. eauto. Qed.

Lemma dist_not_or f g : dist_naive f = Ok g -> is_or g = false.
Proof.
  destruct f as [z|c|l|l].
  - intros H. inversion H. reflexivity.
  - intros H. inversion H. reflexivity.
  - rewrite dist_naive_and. intros H. apply rbind_ok in H. destruct H as [l' [_ H]].
    apply build_and_shape in H. destruct H as [m ->]. reflexivity.
  - rewrite dist_naive_or. intros H. apply rbind_ok in H. destruct H as [l' [_ H]].
    apply rbind_ok in H. destruct H as [ors [_ H]].
    apply build_and_shape in H. destruct H as [m ->]. reflexivity.
Qed.

Lemma forallb_orb_l {A} (q : A -> bool) b L : forallb (fun t => b || q t) L = b || forallb q L.
Proof. induction L; cbn; [now rewrite orb_true_r|]. rewrite IHL. destruct b; reflexivity. Qed.

Lemma forallb_orb_r {A} (p : A -> bool) R l : forallb (fun x => p x || R) l = forallb p l || R.
Proof. induction l; cbn; [reflexivity|]. rewrite IHl. destruct (p a), R; cbn; try reflexivity. now rewrite orb_true_r. Qed.

(** distribution of a disjunction of conjunctions *)
Lemma cprod_sem {A} (p : A -> bool) (ls : list (list A)) :
  forallb (existsb p) (cprod ls) = existsb (forallb p) ls.
Proof.
  induction ls as [|l ls IH]; [reflexivity|]. cbn [cprod existsb].
  rewrite forallb_flat_map.
  rewrite (forallb_ext' _ (fun x => p x || existsb (forallb p) ls)).
  - apply forallb_orb_r.
  - intros x. rewrite forallb_map'. cbn [existsb]. rewrite forallb_orb_l. now rewrite IH.
Qed.

Lemma glfc_sem s c : is_or c = false -> forallb (neval s) (get_list_for_crossing c) = neval s c.
Proof. destruct c; cbn; intros H; try discriminate; try now rewrite andb_true_r. reflexivity. Qed.

Lemma Forall2_build_or_sem s L ors :
  Forall2 (fun x y => build_or x = Ok y) L ors ->
  forallb (neval s) ors = forallb (existsb (neval s)) L.
Proof.
  induction 1 as [|x y L ors Hxy _ IH]; cbn; [reflexivity|]. now rewrite (build_or_sem s _ _ Hxy), IH.
Qed.

Lemma dist_sem s f : forall g, dist_naive f = Ok g -> neval s g = neval s f.
Proof.
  induction f as [z|c IH|l IH|l IH] using nf_ind'; intros g H.
  - inversion H. reflexivity.
  - inversion H. reflexivity.
  - rewrite dist_naive_and in H. apply rbind_ok in H. destruct H as [l' [H1 H2]].
    rewrite (build_and_sem s _ _ H2). cbn [neval]. apply mapM_ok in H1.
    apply (Forall2_sem_forallb _ s _ _ H1). intros x y Hx Hxy.
    rewrite Forall_forall in IH. now apply IH.
  - rewrite dist_naive_or in H. apply rbind_ok in H. destruct H as [cl [H1 H]].
    apply rbind_ok in H. destruct H as [ors [H2 H3]].
    rewrite (build_and_sem s _ _ H3). apply mapM_ok in H1. apply mapM_ok in H2.
    rewrite (Forall2_build_or_sem s _ _ H2), cprod_sem. cbn [neval].
    rewrite existsb_map'.
    assert (E : existsb (fun x => forallb (neval s) (get_list_for_crossing x)) cl = existsb (neval s) cl).
    { clear H2 H3. induction H1 as [|x y l cl Hxy _ IH']; [reflexivity|]. cbn [existsb].
      rewrite (glfc_sem s y (dist_not_or _ _ Hxy)). f_equal. apply IH'. now inversion IH. }
    rewrite E. apply (Forall2_sem_forallb _ s _ _ H1). intros x y Hx Hxy.
    rewrite Forall_forall in IH. now apply IH.
Qed.

(** leaves of the distributed formula *)
Lemma cprod_in {A} (ls : list (list A)) t x :
  In t (cprod ls) -> In x t -> exists l, In l ls /\ In x l.
Proof.
  revert t. induction ls as [|l ls IH]; intros t Ht Hx; cbn [cprod] in Ht.
  - destruct Ht as [<-|[]]. destruct Hx.
  - apply in_flat_map in Ht. destruct Ht as [y [Hy Ht]]. apply in_map_iff in Ht. destruct Ht as [t' [<- Ht']].
    destruct Hx as [<-|Hx].
    + exists l. split; [now left|assumption].
    + destruct (IH t' Ht' Hx) as [l' [X Y]]. exists l'. split; [now right|assumption].
Qed.

Lemma glfc_lvs c : lvs (get_list_for_crossing c) = nleaves c.
Proof. unfold lvs. destruct c; cbn; now rewrite ?app_nil_r. Qed.

Lemma lvs_in l z : In z (lvs l) <-> exists c, In c l /\ In z (nleaves c).
Proof. unfold lvs. apply in_flat_map. Qed.

Lemma Forall2_in_r {A B} (R : A -> B -> Prop) l l' y :
  Forall2 R l l' -> In y l' -> exists x, In x l /\ R x y.
Proof.
  induction 1 as [|a b l l' Hab _ IH]; intros Hy; [destruct Hy|].
  destruct Hy as [<-|Hy]; [exists a; split; [now left|assumption]|].
  destruct (IH Hy) as [x [X Y]]. exists x. split; [now right|assumption].
Qed.

Lemma dist_leaves f : forall g, dist_naive f = Ok g -> incl (nleaves g) (nleaves f).
Proof.
  induction f as [z|c IH|l IH|l IH] using nf_ind'; intros g H.
  - inversion H. apply incl_refl.
  - inversion H. apply incl_refl.
  - rewrite dist_naive_and in H. apply rbind_ok in H. destruct H as [l' [H1 H2]].
    apply build_and_lvs in H2. apply mapM_ok in H1.
    eapply incl_tran; [apply perm_incl; exact H2|].
    assert (G : forall x y, In x l -> dist_naive x = Ok y -> incl (nleaves y) (nleaves x)).
    { rewrite Forall_forall in IH. intros x y Hx. now apply IH. }
    clear IH H2. unfold lvs. cbn [nleaves]. induction H1 as [|x y l l' Hxy _ IH']; cbn; [apply incl_refl|].
    apply incl_app; [apply incl_appl; apply (G x y); [now left|assumption]|apply incl_appr; apply IH'].
    intros a b Ha. apply G. now right.
  - rewrite dist_naive_or in H. apply rbind_ok in H. destruct H as [cl [H1 H]].
    apply rbind_ok in H. destruct H as [ors [H2 H3]].
    apply build_and_lvs in H3. apply mapM_ok in H1. apply mapM_ok in H2.
    eapply incl_tran; [apply perm_incl; exact H3|].
    assert (G : forall x y, In x l -> dist_naive x = Ok y -> incl (nleaves y) (nleaves x)).
    { rewrite Forall_forall in IH. intros x y Hx. now apply IH. }
    assert (C : incl (lvs cl) (lvs l)).
    { clear IH H2 H3. unfold lvs. induction H1 as [|x y l cl Hxy _ IH']; cbn; [apply incl_refl|].
      apply incl_app; [apply incl_appl; apply (G x y); [now left|assumption]|apply incl_appr; apply IH'].
      intros a b Ha. apply G. now right. }
    cbn [nleaves]. fold (lvs l). eapply incl_tran; [|exact C].
    intros z Hz. apply lvs_in in Hz. destruct Hz as [o [Ho Hz]].
    destruct (Forall2_in_r _ _ _ _ H2 Ho) as [t [Ht Hb]].
    apply build_or_lvs in Hb. apply (Permutation_in _ (Permutation_sym Hb)) in Hz.
    apply lvs_in in Hz. destruct Hz as [c [Hc Hz]].
    destruct (cprod_in _ _ _ Ht Hc) as [lst [Hl Hcl]]. apply in_map_iff in Hl. destruct Hl as [d [<- Hd]].
    apply lvs_in. exists d. split; [assumption|]. rewrite <- glfc_lvs. apply lvs_in. eauto.
Qed.

(** * CNF shape *)
Definition is_lit (f : nf) : bool :=
  match f with NVar _ => true | NNot (NVar _) => true | _ => false end.
Definition is_clause (f : nf) : bool :=
  is_lit f || match f with NOr l => forallb is_lit l | _ => false end.
Definition is_cnf (f : nf) : bool :=
  match f with NAnd l => forallb is_clause l | _ => false end.
Definition lit_or_cnf (f : nf) : bool := is_lit f || is_cnf f.

Lemma is_clause_cases c : is_clause c = true ->
  (is_lit c = true /\ is_and c = false /\ is_or c = false) \/ (exists m, c = NOr m /\ forallb is_lit m = true).
Proof.
  unfold is_clause. destruct c as [z|[z|?|?|?]|l|l]; cbn; intros H; try discriminate; eauto.
Qed.

Lemma build_and_cnf l g :
  (forall c, In c l -> lit_or_cnf c = true) -> build_and l = Ok g -> is_cnf g = true.
Proof.
  intros Hl H. unfold build_and in H. apply rbind_ok in H. destruct H as [l' [H1 H2]]. inversion H2. subst g.
  apply flatten_perm in H1. cbn [is_cnf]. rewrite <- (forallb_perm _ _ _ H1), forallb_flat_map.
  apply forallb_forall. intros c Hc. specialize (Hl c Hc). unfold lit_or_cnf in Hl. unfold flat1.
  destruct c as [z|[z|?|?|?]|m|m]; cbn in *; try discriminate; try reflexivity. exact Hl.
Qed.

Lemma build_or_clause l g :
  (forall c, In c l -> is_clause c = true) -> build_or l = Ok g -> is_clause g = true /\ is_and g = false.
Proof.
  intros Hl H. unfold build_or in H. apply rbind_ok in H. destruct H as [l' [H1 H2]]. inversion H2. subst g.
  apply flatten_perm in H1. split; [|reflexivity]. unfold is_clause. cbn [is_lit orb].
  rewrite <- (forallb_perm _ _ _ H1), forallb_flat_map.
  apply forallb_forall. intros c Hc. specialize (Hl c Hc). unfold flat1.
  destruct (is_clause_cases c Hl) as [[A [B C]]|[m [-> Hm]]].
  - rewrite C. cbn. now rewrite A.
  - cbn. exact Hm.
Qed.

Lemma build_and_clauses l g :
  (forall c, In c l -> is_clause c = true /\ is_and c = false) -> build_and l = Ok g -> is_cnf g = true.
Proof.
  intros Hl H. unfold build_and in H. apply rbind_ok in H. destruct H as [l' [H1 H2]]. inversion H2. subst g.
  apply flatten_perm in H1. cbn [is_cnf]. rewrite <- (forallb_perm _ _ _ H1), forallb_flat_map.
  apply forallb_forall. intros c Hc. destruct (Hl c Hc) as [A B]. unfold flat1. rewrite B. cbn. now rewrite A.
Qed.

Lemma glfc_clauses d x :
  lit_or_cnf d = true -> In x (get_list_for_crossing d) -> is_clause x = true.
Proof.
  unfold lit_or_cnf. destruct d as [z|[z|?|?|?]|m|m]; cbn; intros H Hx; try discriminate.
  - destruct Hx as [<-|[]]. reflexivity.
  - destruct Hx as [<-|[]]. reflexivity.
  - rewrite forallb_forall in H. now apply H.
Qed.

Lemma dist_shape f : forall g, nnf f = true -> dist_naive f = Ok g -> lit_or_cnf g = true.
Proof.
  induction f as [z|c IH|l IH|l IH] using nf_ind'; intros g N H.
  - inversion H. reflexivity.
  - inversion H. subst g. destruct c; cbn in N; try discriminate. reflexivity.
  - rewrite dist_naive_and in H. apply rbind_ok in H. destruct H as [l' [H1 H2]]. apply mapM_ok in H1.
    unfold lit_or_cnf. rewrite (build_and_cnf l' g); [now rewrite orb_true_r| |assumption].
    intros c Hc. destruct (Forall2_in_r _ _ _ _ H1 Hc) as [x [Hx Hxc]].
    rewrite Forall_forall in IH. apply (IH x Hx); [|assumption].
    cbn [nnf] in N. rewrite forallb_forall in N. now apply N.
  - rewrite dist_naive_or in H. apply rbind_ok in H. destruct H as [cl [H1 H]].
    apply rbind_ok in H. destruct H as [ors [H2 H3]]. apply mapM_ok in H1. apply mapM_ok in H2.
    unfold lit_or_cnf. rewrite (build_and_clauses ors g); [now rewrite orb_true_r| |assumption].
    intros o Ho. destruct (Forall2_in_r _ _ _ _ H2 Ho) as [t [Ht Hb]].
    apply (build_or_clause t o); [|assumption].
    intros c Hc. destruct (cprod_in _ _ _ Ht Hc) as [lst [Hl Hcl]].
    apply in_map_iff in Hl. destruct Hl as [d [<- Hd]]. apply (glfc_clauses d); [|assumption].
    destruct (Forall2_in_r _ _ _ _ H1 Hd) as [x [Hx Hxd]].
    rewrite Forall_forall in IH. apply (IH x Hx); [|assumption].
    cbn [nnf] in N. rewrite forallb_forall in N. now apply N.
Qed.

(** * to_cnf_naive *)
Lemma wrap_and_sem s g : neval s (wrap_and g) = neval s g.
Proof. destruct g; cbn; try now rewrite andb_true_r. reflexivity. Qed.

Lemma wrap_and_leaves g : nleaves (wrap_and g) = nleaves g.
Proof. destruct g; cbn; rewrite ?app_nil_r; reflexivity. Qed.

Lemma wrap_and_cnf g : lit_or_cnf g = true -> is_cnf (wrap_and g) = true.
Proof.
  unfold lit_or_cnf. destruct g as [z|[z|?|?|?]|m|m]; cbn; intros H; try discriminate; try reflexivity. exact H.
Qed.

Theorem naive_correct f nv g nv' :
  to_cnf_naive f nv = Ok (g, nv') ->
  nv' = nv /\
  (forall s, neval s g = eval s f) /\
  incl (nleaves g) (leaves f) /\
  is_cnf g = true.
Proof.
  unfold to_cnf_naive. intros H. apply rbind_ok in H. destruct H as [g1 [H1 H]].
  apply rbind_ok in H. destruct H as [g2 [H2 H3]]. inversion H3. subst g nv'. clear H3.
  split; [reflexivity|]. split; [|split].
  - intros s. rewrite wrap_and_sem, (dist_sem s _ _ H2), (demorgan_sem s _ _ _ H1). apply elim_sem.
  - rewrite wrap_and_leaves. eapply incl_tran; [apply (dist_leaves _ _ H2)|].
    eapply incl_tran; [apply (demorgan_leaves _ _ _ H1)|]. apply elim_leaves.
  - apply wrap_and_cnf. apply (dist_shape g1); [|assumption]. apply (demorgan_nnf _ _ _ H1).
Qed.

(** * Totality
    After the repair of [__order_clauses] every sort key is an int, the
    comparisons of the sort cannot raise, the binary search stays inside the
    sorted prefix, and [demorgan_fuel] covers the recursion of
    [__apply_demorgan]: [to_cnf_naive] returns on every formula. *)
Lemma mapM_total {A B} (f : A -> res B) l :
  (forall x, In x l -> exists y, f x = Ok y) -> exists ys, mapM f l = Ok ys.
Proof.
  induction l as [|x l IH]; intros H; cbn [mapM]; [eauto|].
  destruct (H x (or_introl eq_refl)) as [y ->]. cbn [rbind].
  destruct IH as [ys ->]; [intros a Ha; apply H; now right|]. cbn [rbind]. eauto.
Qed.

Definition allvar (l : list kv) : Prop := forall p, In p l -> is_var (fst p) = true.

Lemma key_of_var c : is_var (key_of c) = true.
Proof. destruct c as [z|[z|?|?|?]|l|l]; reflexivity. Qed.

Lemma py_lt_var a b : is_var a = true -> is_var b = true -> exists r, py_lt a b = Ok r.
Proof. destruct a, b; cbn; try discriminate; eauto. Qed.

Lemma allvar_cons p l : allvar (p :: l) -> is_var (fst p) = true /\ allvar l.
Proof. intros H. split; [apply H; now left|intros q Hq; apply H; now right]. Qed.

Lemma run_desc_total l : forall prev, is_var prev = true -> allvar l ->
  exists n, run_desc prev l = Ok n /\ (n <= length l)%nat.
Proof.
  induction l as [|[k v] l IH]; intros prev Hp Hl; cbn [run_desc].
  - exists O. split; [reflexivity|apply Nat.le_refl].
  - apply allvar_cons in Hl. destruct Hl as [Hk Hl]. cbn [fst] in Hk.
    destruct (py_lt_var k prev Hk Hp) as [b ->]. cbn [rbind]. destruct b.
    + destruct (IH k Hk Hl) as [n [-> Hn]]. cbn [rbind]. exists (S n). split; [reflexivity|cbn [length]; lia].
    + exists O. split; [reflexivity|lia].
Qed.

Lemma run_asc_total l : forall prev, is_var prev = true -> allvar l ->
  exists n, run_asc prev l = Ok n /\ (n <= length l)%nat.
Proof.
  induction l as [|[k v] l IH]; intros prev Hp Hl; cbn [run_asc].
  - exists O. split; [reflexivity|apply Nat.le_refl].
  - apply allvar_cons in Hl. destruct Hl as [Hk Hl]. cbn [fst] in Hk.
    destruct (py_lt_var k prev Hk Hp) as [b ->]. cbn [rbind]. destruct b.
    + exists O. split; [reflexivity|lia].
    + destruct (IH k Hk Hl) as [n [-> Hn]]. cbn [rbind]. exists (S n). split; [reflexivity|cbn [length]; lia].
Qed.

Lemma count_run_total a b l : allvar (a :: b :: l) ->
  exists n d, count_run (a :: b :: l) = Ok (n, d) /\ (2 <= n <= length (a :: b :: l))%nat.
Proof.
  intros H. destruct a as [k0 v0], b as [k1 v1]. cbn [count_run].
  apply allvar_cons in H. destruct H as [H0 H]. apply allvar_cons in H. destruct H as [H1 H]. cbn [fst] in *.
  destruct (py_lt_var k1 k0 H1 H0) as [c ->]. cbn [rbind]. destruct c.
  - destruct (run_desc_total l k1 H1 H) as [n [-> Hn]]. cbn [rbind]. exists (S (S n)), true.
    split; [reflexivity|cbn [length]; lia].
  - destruct (run_asc_total l k1 H1 H) as [n [-> Hn]]. cbn [rbind]. exists (S (S n)), false.
    split; [reflexivity|cbn [length]; lia].
Qed.

Lemma bsearch_total fuel : forall pre pivot l r,
  is_var pivot = true -> allvar pre -> (l < r)%nat -> (r <= length pre)%nat -> (r - l <= fuel)%nat ->
  exists pos, bsearch fuel pre pivot l r = Ok pos /\ (pos <= length pre)%nat.
Proof.
  induction fuel as [|fuel IH]; intros pre pivot l r Hp Hpre Hlr Hr Hf; [lia|].
  cbn [bsearch].
  assert (Hd : (Nat.div2 (r - l) < r - l)%nat) by (apply Nat.lt_div2; lia).
  remember (l + Nat.div2 (r - l))%nat as p eqn:Ep.
  assert (Hpb : (l <= p < r)%nat) by lia.
  assert (Hpd : (p - l < r - l)%nat) by lia. clear Ep Hd.
  destruct (nth_error pre p) as [[kp vp]|] eqn:E.
  2: { apply nth_error_None in E. lia. }
  assert (Hk : is_var kp = true) by (apply (Hpre (kp, vp)); eapply nth_error_In; eassumption).
  destruct (py_lt_var pivot kp Hp Hk) as [b ->]. cbn [rbind]. destruct b.
  - destruct (l <? p)%nat eqn:C.
    + apply Nat.ltb_lt in C. apply IH; try assumption; lia.
    + exists l. split; [reflexivity|lia].
  - destruct (S p <? r)%nat eqn:C.
    + apply Nat.ltb_lt in C. apply IH; try assumption; lia.
    + exists (S p). split; [reflexivity|lia].
Qed.

Lemma insert_at_allvar n x pre : is_var (fst x) = true -> allvar pre -> allvar (insert_at n x pre).
Proof.
  intros Hx Hpre p Hp. apply (Permutation_in _ (Permutation_sym (insert_at_perm n x pre))) in Hp.
  destruct Hp as [<-|Hp]; [assumption|now apply Hpre].
Qed.

Lemma binsort_total rest : forall pre, pre <> [] -> allvar pre -> allvar rest -> exists r, binsort pre rest = Ok r.
Proof.
  induction rest as [|x rest IH]; intros pre Hne Hpre Hrest; cbn [binsort]; [eauto|].
  apply allvar_cons in Hrest. destruct Hrest as [Hx Hrest].
  assert (Hlen : (0 < length pre)%nat) by (destruct pre; [congruence|cbn [length]; lia]).
  destruct (bsearch_total (S (length pre)) pre (fst x) O (length pre) Hx Hpre Hlen (Nat.le_refl _) ltac:(lia))
    as [pos [-> _]]. cbn [rbind].
  apply IH; [|now apply insert_at_allvar|assumption].
  intros E. pose proof (Permutation_length (insert_at_perm pos x pre)) as L. rewrite E in L. discriminate.
Qed.

Lemma pysort_kv_total l : allvar l -> exists r, pysort_kv l = Ok r.
Proof.
  intros H. destruct l as [|a [|b l]]; [cbn; eauto|cbn; eauto|].
  unfold pysort_kv. destruct (count_run_total a b l H) as [n [d [-> Hn]]]. cbn [rbind].
  set (L := a :: b :: l) in *.
  assert (Hf : allvar (firstn n L)).
  { intros p Hp. apply H. rewrite <- (firstn_skipn n L). apply in_or_app. now left. }
  assert (Hs : allvar (skipn n L)).
  { intros p Hp. apply H. rewrite <- (firstn_skipn n L). apply in_or_app. now right. }
  assert (Hl : length (firstn n L) = n) by (apply firstn_length_le; lia).
  apply binsort_total; [| |assumption].
  - intros E. assert (X : length (if d then rev (firstn n L) else firstn n L) = n)
      by (destruct d; [rewrite rev_length|]; exact Hl).
    rewrite E in X. cbn [length] in X. lia.
  - destruct d; [|assumption]. intros p Hp. apply Hf. now apply in_rev.
Qed.

Theorem pysort_total l : exists r, pysort l = Ok r.
Proof.
  unfold pysort.
  assert (A : allvar (map (fun c => (key_of c, c)) l)).
  { intros p Hp. apply in_map_iff in Hp. destruct Hp as [c [<- _]]. apply key_of_var. }
  assert (B : forallb (fun p => is_var (fst p)) (map (fun c => (key_of c, c)) l) = true)
    by (apply forallb_forall; exact A).
  rewrite B, orb_true_r. destruct (pysort_kv_total _ A) as [r ->]. cbn [rbind]. eauto.
Qed.

Lemma pysort_total_perm l : exists r, pysort l = Ok r /\ Permutation l r.
Proof. destruct (pysort_total l) as [r H]. exists r. split; [assumption|now apply pysort_perm]. Qed.

Lemma flatten_total l cls : exists r, flatten_clause_list l cls = Ok r.
Proof. unfold flatten_clause_list. apply pysort_total. Qed.

Lemma build_or_total l : exists g, build_or l = Ok g.
Proof. unfold build_or. destruct (flatten_total l false) as [r ->]. cbn [rbind]. eauto. Qed.

Lemma build_and_total l : exists g, build_and l = Ok g.
Proof. unfold build_and. destruct (flatten_total l true) as [r ->]. cbn [rbind]. eauto. Qed.

(** recursion depth of [__apply_demorgan] ([neg]: below a negation that is
    being pushed down) *)
Definition mx (g : nf -> nat) (l : list nf) : nat := fold_right (fun x a => Nat.max (g x) a) O l.

Lemma mx_le g l n : (mx g l <= n)%nat <-> forall x, In x l -> (g x <= n)%nat.
Proof.
  unfold mx. induction l as [|a l IH]; cbn [fold_right]; split.
  - intros _ x [].
  - intros _. lia.
  - intros H x [<-|Hx]; [lia|]. apply IH; [lia|assumption].
  - intros H. apply Nat.max_lub; [apply H; now left|]. apply IH. intros x Hx. apply H. now right.
Qed.

Fixpoint dneed (neg : bool) (f : nf) : nat :=
  match f with
  | NVar _ => 1
  | NNot c => if neg then S (dneed false c) else dneed true c
  | NAnd l | NOr l => ((if neg then 2 else 1) + fold_right (fun x a => Nat.max (dneed neg x) a) O l)%nat
  end.

Lemma dneed_and neg l : dneed neg (NAnd l) = ((if neg then 2 else 1) + mx (dneed neg) l)%nat.
Proof. reflexivity. Qed.
Lemma dneed_or neg l : dneed neg (NOr l) = ((if neg then 2 else 1) + mx (dneed neg) l)%nat.
Proof. reflexivity. Qed.

Definition nsum (l : list nf) : nat := fold_right (fun x a => (nsize x + a)%nat) O l.

Lemma nsum_in x l : In x l -> (nsize x <= nsum l)%nat.
Proof. unfold nsum. induction l as [|a l IH]; intros []; cbn [fold_right]; [subst; lia|specialize (IH H); lia]. Qed.

Lemma dneed_bound f : forall neg, (dneed neg f <= 2 * nsize f)%nat.
Proof.
  induction f as [z|c IH|l IH|l IH] using nf_ind'; intros neg.
  - cbn. lia.
  - cbn [dneed nsize]. destruct neg; [specialize (IH false)|specialize (IH true)]; lia.
  - rewrite dneed_and. change (nsize (NAnd l)) with (S (nsum l)).
    assert (M : (mx (dneed neg) l <= 2 * nsum l)%nat).
    { apply mx_le. intros x Hx. rewrite Forall_forall in IH. specialize (IH x Hx neg).
      pose proof (nsum_in x l Hx). lia. }
    destruct neg; lia.
  - rewrite dneed_or. change (nsize (NOr l)) with (S (nsum l)).
    assert (M : (mx (dneed neg) l <= 2 * nsum l)%nat).
    { apply mx_le. intros x Hx. rewrite Forall_forall in IH. specialize (IH x Hx neg).
      pose proof (nsum_in x l Hx). lia. }
    destruct neg; lia.
Qed.

Lemma flat1_not b c : flat1 b (NNot c) = [NNot c].
Proof. destruct b; reflexivity. Qed.

Lemma flat_map_flat1_not b l : flat_map (flat1 b) (map NNot l) = map NNot l.
Proof. induction l as [|c l IH]; [reflexivity|]. cbn [map flat_map]. now rewrite flat1_not, IH. Qed.

Lemma demorgan_total n : forall f, (dneed false f <= n)%nat -> exists g, demorgan n f = Ok g.
Proof.
  induction n as [|n IH]; intros f Hn.
  - destruct f as [z|c|l|l]; cbn in Hn; try lia.
    exfalso. revert Hn. generalize true. induction c as [z|c IHc|l _|l _] using nf_ind'; intros b Hn.
    + cbn in Hn. lia.
    + cbn [dneed] in Hn. destruct b; [lia|]. now apply (IHc true).
    + rewrite dneed_and in Hn. destruct b; lia.
    + rewrite dneed_or in Hn. destruct b; lia.
  - cbn [demorgan]. destruct f as [z|c|l|l].
    + eauto.
    + destruct c as [z|c'|l|l].
      * eauto.
      * apply IH. cbn [dneed] in Hn. lia.
      * destruct (build_or_total (map NNot l)) as [t Ht]. rewrite Ht. cbn [rbind]. apply IH.
        unfold build_or in Ht. apply rbind_ok in Ht. destruct Ht as [l' [H1 H2]]. inversion H2. subst t.
        apply flatten_perm in H1. rewrite flat_map_flat1_not in H1.
        change (dneed false (NNot (NAnd l))) with (dneed true (NAnd l)) in Hn. rewrite dneed_and in Hn.
        rewrite dneed_or. cut (mx (dneed false) l' <= mx (dneed true) l)%nat; [lia|].
        apply mx_le. intros x Hx. apply (Permutation_in _ (Permutation_sym H1)) in Hx.
        apply in_map_iff in Hx. destruct Hx as [c [<- Hc]]. cbn [dneed].
        apply (proj1 (mx_le (dneed true) l _) (Nat.le_refl _) c Hc).
      * destruct (build_and_total (map NNot l)) as [t Ht]. rewrite Ht. cbn [rbind]. apply IH.
        unfold build_and in Ht. apply rbind_ok in Ht. destruct Ht as [l' [H1 H2]]. inversion H2. subst t.
        apply flatten_perm in H1. rewrite flat_map_flat1_not in H1.
        change (dneed false (NNot (NOr l))) with (dneed true (NOr l)) in Hn. rewrite dneed_or in Hn.
        rewrite dneed_and. cut (mx (dneed false) l' <= mx (dneed true) l)%nat; [lia|].
        apply mx_le. intros x Hx. apply (Permutation_in _ (Permutation_sym H1)) in Hx.
        apply in_map_iff in Hx. destruct Hx as [c [<- Hc]]. cbn [dneed].
        apply (proj1 (mx_le (dneed true) l _) (Nat.le_refl _) c Hc).
    + rewrite dneed_and in Hn.
      destruct (mapM_total (demorgan n) l) as [l' ->].
      { intros x Hx. apply IH. pose proof (proj1 (mx_le (dneed false) l _) (Nat.le_refl _) x Hx). lia. }
      cbn [rbind]. apply build_and_total.
    + rewrite dneed_or in Hn.
      destruct (mapM_total (demorgan n) l) as [l' ->].
      { intros x Hx. apply IH. pose proof (proj1 (mx_le (dneed false) l _) (Nat.le_refl _) x Hx). lia. }
      cbn [rbind]. apply build_or_total.
Qed.

Lemma demorgan_fuel_total g : exists g1, demorgan (demorgan_fuel g) g = Ok g1.
Proof. apply demorgan_total. unfold demorgan_fuel. pose proof (dneed_bound g false). lia. Qed.

Lemma dist_naive_total f : exists g, dist_naive f = Ok g.
Proof.
  induction f as [z|c IH|l IH|l IH] using nf_ind'.
  - cbn. eauto.
  - cbn. eauto.
  - rewrite dist_naive_and. rewrite Forall_forall in IH. destruct (mapM_total dist_naive l IH) as [l' ->].
    cbn [rbind]. apply build_and_total.
  - rewrite dist_naive_or. rewrite Forall_forall in IH. destruct (mapM_total dist_naive l IH) as [cl ->].
    cbn [rbind]. destruct (mapM_total build_or (cprod (map get_list_for_crossing cl))) as [ors ->].
    { intros x _. apply build_or_total. }
    cbn [rbind]. apply build_and_total.
Qed.

(** [to_cnf_naive] returns on every formula and every counter, and what it
    returns is an equivalent CNF over the leaves of the input. *)
Theorem naive_total f nv :
  exists g, to_cnf_naive f nv = Ok (g, nv) /\
    (forall s, neval s g = eval s f) /\ incl (nleaves g) (leaves f) /\ is_cnf g = true.
Proof.
  assert (T : exists g, to_cnf_naive f nv = Ok (g, nv)).
  { unfold to_cnf_naive. destruct (demorgan_fuel_total (elim f)) as [g1 ->]. cbn [rbind].
    destruct (dist_naive_total g1) as [g2 ->]. cbn [rbind]. eauto. }
  destruct T as [g H]. exists g. split; [assumption|]. now destruct (naive_correct _ _ _ _ H) as [_ X].
Qed.

Lemma ex_naive_repaired :
  to_cnf_naive (FNot (FIf (FVar 1) (FVar 2))) 3 = Ok (NAnd [NVar 1; NNot (NVar 2)], 3) /\
  to_cnf_naive (FNot (FOr [FVar 1; FAnd [FVar 2; FVar 3]])) 4 =
    Ok (NAnd [NOr [NNot (NVar 2); NNot (NVar 3)]; NNot (NVar 1)], 4).
Proof. split; vm_compute; reflexivity. Qed.

Lemma ex_naive :
  to_cnf_naive (FIff (FVar 1) (FAnd [FVar 2; FVar (-3)])) 4 =
    Ok (NAnd [NOr [NNot (NVar (-3)); NVar 1; NNot (NVar 2)]; NOr [NVar (-3); NNot (NVar 1)];
              NOr [NNot (NVar 1); NVar 2]], 4).
Proof. vm_compute. reflexivity. Qed.
