(** Model of [to_cnf_switching] / [__distribute_ors_switching] of
    [sweetpea/_internal/logic.py] with its helpers [__apply_distribute_ors],
    [__should_not_combine], [__should_combine_naively], [__naive_combination],
    [__switching_combination].  Model file: executable definitions only.

    The Python function recurses on formulas it has just rebuilt, so the model
    recurses on fuel; fuel exhaustion is the error value [EFuel]. *)
From Coq Require Import ZArith List Bool Arith.
From SP Require Import Base.Sat Logic.Formula Logic.Naive.
Import ListNotations.
Open Scope Z_scope.

Definition should_not_combine (cl : list nf) : bool := negb (existsb is_and cl).

Definition is_lit_shape (c : nf) : bool := match c with NVar _ | NNot _ => true | _ => false end.

(** [isinstance(clauses[0], int) or isinstance(clauses[0], Not) or
     isinstance(clauses[1], int) or isinstance(clauses[1], Not)]; only called
    with [len(clauses) > 1] *)
Definition should_combine_naively (cl : list nf) : res bool :=
  match cl with
  | c0 :: c1 :: _ => Ok (is_lit_shape c0 || is_lit_shape c1)
  | _ => Err EIndexError
  end.

(** [__naive_combination] *)
Definition naive_combination (cl : list nf) : res nf :=
  match cl with
  | c0 :: c1 :: rest =>
      let lhs := get_list_for_crossing c0 in
      let rhs := get_list_for_crossing c1 in
      let crossing := flat_map (fun a => map (fun b => [a; b]) rhs) lhs in
      ors <- mapM (fun l => l' <- flatten_clause_list l false ;; Ok (NOr l')) crossing ;;
      let combination := NAnd ors in
      match rest with
      | [] => Ok combination
      | _ => build_or (combination :: rest)
      end
  | _ => Err EIndexError
  end.

(** [__switching_combination] *)
Definition switching_combination (cl : list nf) (fresh : Z) : res (nf * Z) :=
  match cl with
  | c0 :: c1 :: rest =>
      let lhs := NOr [NNot (NVar fresh); c0] in
      let rhs := NOr [NVar fresh; c1] in
      let combination := NAnd [lhs; rhs] in
      match rest with
      | [] => Ok (combination, fresh + 1)
      | _ => f <- build_or (combination :: rest) ;; Ok (f, fresh + 1)
      end
  | _ => Err EIndexError
  end.

(** [reduce(__apply_distribute_ors, input_list, ([], fresh))] for a given
    distribution function *)
Fixpoint dist_fold (d : nf -> Z -> res (nf * Z)) (l : list nf) (acc : list nf) (fresh : Z)
  : res (list nf * Z) :=
  match l with
  | [] => Ok (acc, fresh)
  | x :: l' => ' (f, fr) <- d x fresh ;; dist_fold d l' (acc ++ [f]) fr
  end.

Fixpoint dist_sw (fuel : nat) (f : nf) (fresh : Z) : res (nf * Z) :=
  match fuel with
  | O => Err EFuel
  | S n =>
      match f with
      | NAnd l =>
          ' (cl, fr) <- dist_fold (dist_sw n) l [] fresh ;;
          a <- build_and cl ;;
          Ok (a, fr)
      | NOr l =>
          ' (cl0, fr) <- dist_fold (dist_sw n) l [] fresh ;;
          cl <- pysort cl0 ;;
          if (1 <? length cl)%nat then
            if should_not_combine cl then Ok (f, fresh)
            else
              b <- should_combine_naively cl ;;
              if (b : bool) then
                c <- naive_combination cl ;; dist_sw n c fr
              else
                ' (c, fr') <- switching_combination cl fr ;; dist_sw n c fr'
          else
            match cl with
            | c0 :: _ => Ok (c0, fr)     (* elif len(clauses) == 1: return (clauses[0], new_fresh) *)
            | [] => Ok (f, fresh)        (* else: return (f, fresh) *)
            end
      | NNot c =>
          match c with
          | NVar _ => Ok (f, fresh)
          | _ => Err EAssertionError
          end
      | NVar _ => Ok (f, fresh)
      end
  end.

Definition switching_fuel (f : nf) : nat := (8 * nsize f + 32)%nat.

Definition to_cnf_switching (f : fm) (nv : Z) : res (nf * Z) :=
  let g := elim f in
  g1 <- demorgan (demorgan_fuel g) g ;;
  ' (g2, fr) <- dist_sw (switching_fuel g1) g1 nv ;;
  Ok (wrap_and g2, fr).
