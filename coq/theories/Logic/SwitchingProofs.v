(** Proofs about Logic/Switching.v.  Correctness of [to_cnf_switching]: whenever
    it returns, the result is a CNF over the original variables and the
    reported fresh range whose models, projected to the original variables, are
    exactly the models of the input.  Totality: it returns on every formula
    and every counter ([switching_fuel] covers the recursion of
    [__distribute_ors_switching] on the formulas it rebuilds, and none of the
    error branches of the model is reachable). *)
From Coq Require Import ZArith List Bool Lia ZifyBool Permutation Arith.
From SP Require Import Base.Sat Logic.Formula Logic.Naive Logic.Switching Logic.TseitinProofs Logic.NaiveProofs.
Import ListNotations.
Open Scope Z_scope.

(** * Locality of evaluation *)
Lemma lit_true_local s t z : s (Z.abs z) = t (Z.abs z) -> lit_true s z = lit_true t z.
Proof.
  unfold lit_true. destruct (0 <? z) eqn:E; intros H.
  - now replace z with (Z.abs z) by lia.
  - f_equal. now replace (- z) with (Z.abs z) by lia.
Qed.

Lemma neval_local s t f :
  (forall z, In z (nleaves f) -> s (Z.abs z) = t (Z.abs z)) -> neval s f = neval t f.
Proof.
  induction f as [z|c IH|l IH|l IH] using nf_ind'; intros H; cbn [neval nleaves] in *.
  - apply lit_true_local. apply H. now left.
  - f_equal. now apply IH.
  - induction IH as [|x l Hx _ IH]; [reflexivity|]. cbn [forallb flat_map] in *. f_equal.
    + apply Hx. intros z Hz. apply H. apply in_or_app. now left.
    + apply IH. intros z Hz. apply H. apply in_or_app. now right.
  - induction IH as [|x l Hx _ IH]; [reflexivity|]. cbn [existsb flat_map] in *. f_equal.
    + apply Hx. intros z Hz. apply H. apply in_or_app. now left.
    + apply IH. intros z Hz. apply H. apply in_or_app. now right.
Qed.

(** * Refinement steps

    [step f a c b]: [c] is obtained from [f] by introducing variables of
    [a, b) only; it implies [f], and every model of [f] can be changed on
    [a, b) into a model of [c]. *)
Definition bounded (f : nf) (a : Z) : Prop := forall z, In z (nleaves f) -> Z.abs z < a.

Definition outside (a b : Z) (s t : asg) : Prop := forall v, ~ (a <= v < b) -> t v = s v.

Record step (f : nf) (a : Z) (c : nf) (b : Z) : Prop := {
  st_le : a <= b;
  st_leaves : forall z, In z (nleaves c) -> In z (nleaves f) \/ a <= z < b;
  st_sound : forall t, neval t c = true -> neval t f = true;
  st_complete : forall s, neval s f = true -> exists t, outside a b s t /\ neval t c = true
}.

Lemma step_refl f a : step f a f a.
Proof.
  constructor; [lia|auto|auto|]. intros s H. exists s. split; [now intros v _|assumption].
Qed.

Lemma step_equiv f c a :
  (forall t, neval t c = neval t f) -> incl (nleaves c) (nleaves f) -> step f a c a.
Proof.
  intros E I. constructor; [lia| | |].
  - intros z Hz. left. now apply I.
  - intros t. now rewrite E.
  - intros s H. exists s. split; [now intros v _|now rewrite E].
Qed.

Lemma step_trans f a c b g d : step f a c b -> step c b g d -> step f a g d.
Proof.
  intros [L1 V1 S1 C1] [L2 V2 S2 C2]. constructor.
  - lia.
  - intros z Hz. destruct (V2 z Hz) as [X|X]; [|right; lia]. destruct (V1 z X) as [Y|Y]; [now left|right; lia].
  - intros t H. apply S1, S2, H.
  - intros s H. destruct (C1 s H) as [t1 [O1 H1]]. destruct (C2 t1 H1) as [t2 [O2 H2]].
    exists t2. split; [|assumption]. intros v Hv. rewrite O2 by lia. apply O1. lia.
Qed.

Lemma step_bounded f a c b : 1 <= a -> step f a c b -> bounded f a -> bounded c b.
Proof.
  intros Ha [L V _ _] B z Hz. destruct (V z Hz) as [X|X]; [apply B in X; lia|lia].
Qed.

Lemma bounded_and_cons x l a : bounded (NAnd (x :: l)) a <-> bounded x a /\ bounded (NAnd l) a.
Proof.
  unfold bounded. cbn [nleaves flat_map]. split.
  - intros H. split; intros z Hz; apply H; apply in_or_app; auto.
  - intros [H1 H2] z Hz. apply in_app_or in Hz. destruct Hz; auto.
Qed.

Lemma outside_neval a b s t f : outside a b s t -> bounded f a -> neval t f = neval s f.
Proof.
  intros O B. apply neval_local. intros z Hz. apply O. apply B in Hz. lia.
Qed.

Lemma step_cons_and x a y b l ys d :
  1 <= a -> step x a y b -> step (NAnd l) b (NAnd ys) d -> bounded x a -> bounded (NAnd l) a ->
  step (NAnd (x :: l)) a (NAnd (y :: ys)) d.
Proof.
  intros Ha [L1 V1 S1 C1] [L2 V2 S2 C2] Bx Bl. constructor.
  - lia.
  - cbn [nleaves flat_map]. intros z Hz. apply in_app_or in Hz. destruct Hz as [Hz|Hz].
    + destruct (V1 z Hz) as [X|X]; [left; apply in_or_app; now left|right; lia].
    + destruct (V2 z Hz) as [X|X]; [left; apply in_or_app; now right|right; lia].
  - intros t. cbn [neval forallb]. rewrite !andb_true_iff. intros [H1 H2]. split; [now apply S1|now apply S2].
  - intros s. cbn [neval forallb]. rewrite andb_true_iff. intros [H1 H2].
    destruct (C1 s H1) as [t1 [O1 G1]].
    assert (H2' : neval t1 (NAnd l) = true) by (rewrite (outside_neval a b s t1); assumption).
    destruct (C2 t1 H2') as [t2 [O2 G2]]. exists t2. split.
    + intros v Hv. rewrite O2 by lia. apply O1. lia.
    + cbn [neval] in G2. rewrite G2, andb_true_r. rewrite <- G1. apply neval_local.
      intros z Hz. apply O2. destruct (V1 z Hz) as [X|X]; [apply Bx in X; lia|lia].
Qed.

Lemma step_cons_or x a y b l ys d :
  1 <= a -> step x a y b -> step (NOr l) b (NOr ys) d ->
  step (NOr (x :: l)) a (NOr (y :: ys)) d.
Proof.
  intros Ha [L1 V1 S1 C1] [L2 V2 S2 C2]. constructor.
  - lia.
  - cbn [nleaves flat_map]. intros z Hz. apply in_app_or in Hz. destruct Hz as [Hz|Hz].
    + destruct (V1 z Hz) as [X|X]; [left; apply in_or_app; now left|right; lia].
    + destruct (V2 z Hz) as [X|X]; [left; apply in_or_app; now right|right; lia].
  - intros t. cbn [neval existsb]. rewrite !orb_true_iff. intros [H|H]; [left; now apply S1|right; now apply S2].
  - intros s. cbn [neval existsb]. rewrite orb_true_iff. intros [H|H].
    + destruct (C1 s H) as [t1 [O1 G1]]. exists t1. split; [intros v Hv; apply O1; lia|now rewrite G1].
    + destruct (C2 s H) as [t2 [O2 G2]]. exists t2. split; [intros v Hv; apply O2; lia|].
      cbn [neval] in G2. rewrite G2. apply orb_true_r.
Qed.

(** * Shape classes *)
(** input class: negations on leaves, no [Or] directly inside an [Or]
    (what [__apply_demorgan] produces) *)
Fixpoint G (f : nf) : bool :=
  match f with
  | NVar _ => true
  | NNot (NVar _) => true
  | NNot _ => false
  | NAnd l => forallb G l
  | NOr l => forallb (fun c => G c && negb (is_or c)) l
  end.

Definition R (g : nf) : bool := is_clause g || is_cnf g.

Lemma is_lit_G c : is_lit c = true -> G c = true /\ is_or c = false /\ is_and c = false.
Proof. destruct c as [z|[z|?|?|?]|l|l]; cbn; intros H; try discriminate; auto. Qed.

Lemma lits_G m : forallb is_lit m = true -> forallb (fun c => G c && negb (is_or c)) m = true.
Proof.
  rewrite !forallb_forall. intros H c Hc. destruct (is_lit_G c (H c Hc)) as [A [B _]]. now rewrite A, B.
Qed.

Lemma is_clause_G c : is_clause c = true -> G c = true /\ is_and c = false.
Proof.
  intros H. destruct (is_clause_cases c H) as [[A _]|[m [-> Hm]]].
  - destruct (is_lit_G c A) as [X [_ Y]]. auto.
  - split; [|reflexivity]. cbn [G]. now apply lits_G.
Qed.

Lemma is_cnf_G c : is_cnf c = true -> G c = true /\ is_or c = false.
Proof.
  destruct c as [z|?|l|l]; cbn; intros H; try discriminate. split; [|reflexivity].
  rewrite forallb_forall in *. intros x Hx. now apply is_clause_G, H.
Qed.

Lemma lit_or_cnf_G c : lit_or_cnf c = true -> G c = true /\ is_or c = false.
Proof.
  unfold lit_or_cnf. intros H. apply orb_true_iff in H. destruct H as [H|H].
  - destruct (is_lit_G c H) as [A [B _]]. auto.
  - now apply is_cnf_G.
Qed.

Lemma lit_or_cnf_R c : lit_or_cnf c = true -> R c = true.
Proof.
  unfold lit_or_cnf, R, is_clause. intros H. apply orb_true_iff in H. destruct H as [H|H]; rewrite H; cbn;
    [reflexivity|apply orb_true_r].
Qed.

(** build_or / build_and preserve [G] *)
Lemma build_G l : forallb G l = true ->
  (forall g, build_or l = Ok g -> G g = true) /\ (forall g, build_and l = Ok g -> G g = true).
Proof.
  intros Hl. rewrite forallb_forall in Hl. split; intros g H.
  - unfold build_or in H. apply rbind_ok in H. destruct H as [l' [H1 H2]]. inversion H2. subst g.
    apply flatten_perm in H1. cbn [G]. rewrite <- (forallb_perm _ _ _ H1), forallb_flat_map.
    apply forallb_forall. intros c Hc. specialize (Hl c Hc). unfold flat1.
    destruct c as [z|c'|m|m]; cbn [is_or input_list forallb]; try (rewrite Hl; reflexivity).
    cbn [G] in Hl. exact Hl.
  - unfold build_and in H. apply rbind_ok in H. destruct H as [l' [H1 H2]]. inversion H2. subst g.
    apply flatten_perm in H1. cbn [G]. rewrite <- (forallb_perm _ _ _ H1), forallb_flat_map.
    apply forallb_forall. intros c Hc. specialize (Hl c Hc). unfold flat1.
    destruct c as [z|c'|m|m]; cbn [is_and input_list forallb]; try (rewrite Hl; reflexivity).
    cbn [G] in Hl. exact Hl.
Qed.

Lemma demorgan_G n : forall f g, demorgan n f = Ok g -> G g = true.
Proof.
  induction n as [|n IH]; intros f g H; cbn [demorgan] in H; [discriminate|].
  destruct f as [z|c|l|l].
  - inversion H. reflexivity.
  - destruct c as [z|c'|l|l].
    + inversion H. reflexivity.
    + now apply IH in H.
    + apply rbind_ok in H. destruct H as [t [_ H2]]. now apply IH in H2.
    + apply rbind_ok in H. destruct H as [t [_ H2]]. now apply IH in H2.
  - apply rbind_ok in H. destruct H as [l' [H1 H2]]. apply mapM_ok in H1.
    apply (proj2 (build_G l' (Forall2_forallb _ G _ _ H1 (fun x y => IH x y))) g H2).
  - apply rbind_ok in H. destruct H as [l' [H1 H2]]. apply mapM_ok in H1.
    apply (proj1 (build_G l' (Forall2_forallb _ G _ _ H1 (fun x y => IH x y))) g H2).
Qed.

Lemma build_and_R l g : (forall c, In c l -> R c = true) -> build_and l = Ok g -> is_cnf g = true.
Proof.
  intros Hl H. unfold build_and in H. apply rbind_ok in H. destruct H as [l' [H1 H2]]. inversion H2. subst g.
  apply flatten_perm in H1. cbn [is_cnf]. rewrite <- (forallb_perm _ _ _ H1), forallb_flat_map.
  apply forallb_forall. intros c Hc. specialize (Hl c Hc). unfold R in Hl. apply orb_true_iff in Hl.
  unfold flat1. destruct Hl as [Hl|Hl].
  - destruct (is_clause_G c Hl) as [_ B]. rewrite B. cbn. now rewrite Hl.
  - destruct c as [z|?|m|m]; cbn in Hl; try discriminate. exact Hl.
Qed.

(** * The fold over the members *)
Inductive chain (d : nf -> Z -> res (nf * Z)) : list nf -> Z -> list nf -> Z -> Prop :=
| chain_nil fr : chain d [] fr [] fr
| chain_cons x l fresh y fr1 ys fr :
    d x fresh = Ok (y, fr1) -> chain d l fr1 ys fr -> chain d (x :: l) fresh (y :: ys) fr.

Lemma dist_fold_chain d l : forall acc fresh cl fr,
  dist_fold d l acc fresh = Ok (cl, fr) -> exists ys, cl = acc ++ ys /\ chain d l fresh ys fr.
Proof.
  induction l as [|x l IH]; intros acc fresh cl fr H; cbn [dist_fold] in H.
  - inversion H. exists []. split; [now rewrite app_nil_r|constructor].
  - apply rbind_ok in H. destruct H as [[y fr1] [H1 H2]]. apply IH in H2. destruct H2 as [ys [E C]].
    exists (y :: ys). split; [rewrite E, <- app_assoc; reflexivity|econstructor; eassumption].
Qed.

Definition cls_post (f g : nf) : Prop :=
  R g = true /\ (is_or f = false -> lit_or_cnf g = true) /\ (is_and f = true -> is_and g = true).

Definition post (f : nf) (a : Z) (g : nf) (b : Z) : Prop := step f a g b /\ cls_post f g.

Definition spec (d : nf -> Z -> res (nf * Z)) : Prop :=
  forall f a g b, 1 <= a -> G f = true -> bounded f a -> d f a = Ok (g, b) -> post f a g b.

Lemma bounded_or_and l a : bounded (NOr l) a <-> bounded (NAnd l) a.
Proof. reflexivity. Qed.

Lemma chain_posts d l a ys b :
  spec d -> chain d l a ys b -> 1 <= a -> forallb G l = true -> bounded (NAnd l) a ->
  step (NAnd l) a (NAnd ys) b /\ step (NOr l) a (NOr ys) b /\ Forall2 cls_post l ys.
Proof.
  intros Hd C. induction C as [fr|x l fresh y fr1 ys fr Hx C IH]; intros Ha HG HB.
  - split; [apply step_refl|split; [apply step_refl|constructor]].
  - cbn [forallb] in HG. apply andb_true_iff in HG. destruct HG as [Gx Gl].
    apply bounded_and_cons in HB. destruct HB as [Bx Bl].
    destruct (Hd x fresh y fr1 Ha Gx Bx Hx) as [Sx Px].
    pose proof (st_le _ _ _ _ Sx) as Le.
    assert (Bl' : bounded (NAnd l) fr1) by (intros z Hz; apply Bl in Hz; lia).
    destruct (IH ltac:(lia) Gl Bl') as [SA [SO F]].
    split; [|split].
    + now apply (step_cons_and x fresh y fr1).
    + now apply (step_cons_or x fresh y fr1).
    + now constructor.
Qed.

(** * The two combinations *)
Lemma crossing_cprod {A} (lhs rhs : list A) :
  flat_map (fun a => map (fun b => [a; b]) rhs) lhs = cprod [lhs; rhs].
Proof.
  assert (E : cprod [rhs] = map (fun b => [b]) rhs).
  { cbn [cprod]. induction rhs as [|b rhs IH]; cbn; [reflexivity|]. cbn in IH. now rewrite IH. }
  change (cprod [lhs; rhs]) with (flat_map (fun x => map (cons x) (cprod [rhs])) lhs). rewrite E.
  apply flat_map_ext. intros a. now rewrite map_map.
Qed.

Lemma ors_leaves L ors :
  Forall2 (fun x y => build_or x = Ok y) L ors -> incl (lvs ors) (flat_map lvs L).
Proof.
  induction 1 as [|x y L ors Hxy _ IH]; cbn; [apply incl_refl|].
  apply incl_app; [apply incl_appl; apply perm_incl; now apply build_or_lvs|now apply incl_appr].
Qed.

Lemma cprod_leaves (ls : list (list nf)) : incl (flat_map lvs (cprod ls)) (flat_map lvs ls).
Proof.
  intros z Hz. apply in_flat_map in Hz. destruct Hz as [t [Ht Hz]]. apply lvs_in in Hz.
  destruct Hz as [c [Hc Hz]]. destruct (cprod_in _ _ _ Ht Hc) as [l [Hl Hcl]].
  apply in_flat_map. exists l. split; [assumption|]. apply lvs_in. eauto.
Qed.

Lemma ors_clauses L ors :
  Forall2 (fun x y => build_or x = Ok y) L ors ->
  (forall t c, In t L -> In c t -> is_clause c = true) ->
  forall o, In o ors -> is_clause o = true /\ is_and o = false.
Proof.
  intros F H o Ho. destruct (Forall2_in_r _ _ _ _ F Ho) as [t [Ht Hb]].
  apply (build_or_clause t o); [|assumption]. intros c Hc. now apply (H t).
Qed.

Lemma naive_comb_spec c0 c1 rest c :
  lit_or_cnf c0 = true -> lit_or_cnf c1 = true -> (forall x, In x rest -> lit_or_cnf x = true) ->
  naive_combination (c0 :: c1 :: rest) = Ok c ->
  G c = true /\
  (forall t, neval t c = neval t (NOr (c0 :: c1 :: rest))) /\
  incl (nleaves c) (nleaves (NOr (c0 :: c1 :: rest))).
Proof.
  intros H0 H1 Hr H. cbn [naive_combination] in H. apply rbind_ok in H. destruct H as [ors [F H]].
  apply mapM_ok in F. rewrite crossing_cprod in F.
  change (Forall2 (fun x y => build_or x = Ok y) (cprod [get_list_for_crossing c0; get_list_for_crossing c1]) ors) in F.
  destruct (lit_or_cnf_G _ H0) as [G0 O0]. destruct (lit_or_cnf_G _ H1) as [G1 O1].
  assert (Cl : forall o, In o ors -> is_clause o = true /\ is_and o = false).
  { apply (ors_clauses _ _ F). intros t x Ht Hx. destruct (cprod_in _ _ _ Ht Hx) as [l [Hl Hxl]].
    destruct Hl as [<-|[<-|[]]]; [now apply (glfc_clauses c0)|now apply (glfc_clauses c1)]. }
  assert (Gc : G (NAnd ors) = true).
  { cbn [G]. apply forallb_forall. intros o Ho. now apply is_clause_G, Cl. }
  assert (Sc : forall t, neval t (NAnd ors) = neval t c0 || neval t c1).
  { intros t. cbn [neval]. rewrite (Forall2_build_or_sem t _ _ F), cprod_sem. cbn [existsb].
    rewrite (glfc_sem t c0 O0), (glfc_sem t c1 O1). now rewrite orb_false_r. }
  assert (Lc : incl (nleaves (NAnd ors)) (nleaves c0 ++ nleaves c1)).
  { cbn [nleaves]. fold (lvs ors). eapply incl_tran; [apply (ors_leaves _ _ F)|].
    eapply incl_tran; [apply cprod_leaves|]. cbn [flat_map]. rewrite !glfc_lvs, app_nil_r. apply incl_refl. }
  destruct rest as [|r0 rest].
  - inversion H. subst c. split; [assumption|]. split.
    + intros t. rewrite Sc. cbn [neval existsb]. now rewrite orb_false_r.
    + cbn [nleaves flat_map]. now rewrite app_nil_r.
  - split; [|split].
    + assert (FG : forallb G (NAnd ors :: r0 :: rest) = true).
      { change (G (NAnd ors) && forallb G (r0 :: rest) = true). rewrite Gc. cbn [andb].
        apply forallb_forall. intros x Hx. now apply lit_or_cnf_G, Hr. }
      apply (proj1 (build_G _ FG)). assumption.
    + intros t. rewrite (build_or_sem t _ _ H).
      change (neval t (NAnd ors) || existsb (neval t) (r0 :: rest) =
              neval t c0 || (neval t c1 || existsb (neval t) (r0 :: rest))).
      rewrite Sc. now rewrite orb_assoc.
    + eapply incl_tran; [apply perm_incl; apply (build_or_lvs _ _ H)|].
      intros z Hz. change (In z (nleaves (NAnd ors) ++ lvs (r0 :: rest))) in Hz.
      change (In z (nleaves c0 ++ nleaves c1 ++ lvs (r0 :: rest))).
      apply in_app_or in Hz. destruct Hz as [Hz|Hz].
      * apply Lc in Hz. apply in_app_or in Hz. rewrite !in_app_iff. tauto.
      * rewrite !in_app_iff. tauto.
Qed.

Lemma neval_upd f a s v b : bounded f a -> a <= v -> neval (upd s v b) f = neval s f.
Proof.
  intros B Hv. apply neval_local. intros z Hz. apply B in Hz. unfold upd.
  destruct (Z.abs z =? v) eqn:E; [lia|reflexivity].
Qed.

Lemma sw_comb_spec c0 c1 rest a c b :
  1 <= a ->
  lit_or_cnf c0 = true -> lit_or_cnf c1 = true -> (forall x, In x rest -> lit_or_cnf x = true) ->
  bounded (NOr (c0 :: c1 :: rest)) a ->
  switching_combination (c0 :: c1 :: rest) a = Ok (c, b) ->
  b = a + 1 /\ G c = true /\ step (NOr (c0 :: c1 :: rest)) a c (a + 1).
Proof.
  intros Ha H0 H1 Hr B H. cbn [switching_combination] in H.
  set (comb := NAnd [NOr [NNot (NVar a); c0]; NOr [NVar a; c1]]) in *.
  destruct (lit_or_cnf_G _ H0) as [G0 O0]. destruct (lit_or_cnf_G _ H1) as [G1 O1].
  assert (Gc : G comb = true).
  { cbn [comb G forallb is_or negb andb]. now rewrite G0, G1, O0, O1. }
  assert (B0 : bounded c0 a) by (intros z Hz; apply B; cbn [nleaves flat_map]; apply in_or_app; now left).
  assert (B1 : bounded c1 a).
  { intros z Hz. apply B. cbn [nleaves flat_map]. apply in_or_app. right. apply in_or_app. now left. }
  assert (Br : bounded (NOr rest) a).
  { intros z Hz. apply B. cbn [nleaves flat_map]. apply in_or_app. right. apply in_or_app. now right. }
  assert (S : step (NOr (c0 :: c1 :: rest)) a (NOr (comb :: rest)) (a + 1)).
  { constructor.
    - lia.
    - intros z Hz. cbn [comb nleaves flat_map] in *. repeat rewrite in_app_iff in *. cbn [In] in *.
      intuition (try (right; lia)).
    - intros t. cbn [comb neval existsb forallb]. rewrite !orb_false_r, andb_true_r.
      destruct (lit_true t a), (neval t c0), (neval t c1), (existsb (neval t) rest); cbn; congruence.
    - intros s Hs. exists (upd s a (neval s c0)). split.
      + intros v Hv. unfold upd. destruct (v =? a) eqn:E; [lia|reflexivity].
      + cbn [comb neval existsb forallb] in *. rewrite !orb_false_r, andb_true_r.
        rewrite (neval_upd c0 a), (neval_upd c1 a) by (assumption || lia).
        assert (Er : existsb (neval (upd s a (neval s c0))) rest = existsb (neval s) rest).
        { apply (neval_upd (NOr rest) a); [assumption|lia]. }
        rewrite Er. rewrite lit_true_pos by lia. unfold upd at 1 2. rewrite Z.eqb_refl.
        destruct (neval s c0), (neval s c1), (existsb (neval s) rest); cbn in *; congruence. }
  destruct rest as [|r0 rest].
  - inversion H. subst c b. split; [reflexivity|]. split; [assumption|].
    eapply step_trans; [exact S|]. apply step_equiv.
    + intros t. cbn [neval existsb]. now rewrite orb_false_r.
    + cbn [nleaves flat_map]. rewrite app_nil_r. apply incl_refl.
  - apply rbind_ok in H. destruct H as [c' [Hb H]]. inversion H. subst c' b. split; [reflexivity|]. split.
    + assert (FG : forallb G (comb :: r0 :: rest) = true).
      { change (G comb && forallb G (r0 :: rest) = true). rewrite Gc. cbn [andb].
        apply forallb_forall. intros x Hx. now apply lit_or_cnf_G, Hr. }
      apply (proj1 (build_G _ FG)). assumption.
    + eapply step_trans; [exact S|]. apply step_equiv.
      * intros t. now rewrite (build_or_sem t _ _ Hb).
      * apply perm_incl. apply (build_or_lvs _ _ Hb).
Qed.

Lemma Forall2_in_l {A B} (Rr : A -> B -> Prop) l l' x :
  Forall2 Rr l l' -> In x l -> exists y, In y l' /\ Rr x y.
Proof.
  induction 1 as [|a b l l' Hab _ IH]; intros Hx; [destruct Hx|].
  destruct Hx as [<-|Hx]; [exists b; split; [now left|assumption]|].
  destruct (IH Hx) as [y [X Y]]. exists y. split; [now right|assumption].
Qed.

Lemma G_or_members l : G (NOr l) = true -> forallb G l = true /\ forall x, In x l -> is_or x = false.
Proof.
  cbn [G]. rewrite !forallb_forall. intros H. split; intros x Hx; specialize (H x Hx);
    apply andb_true_iff in H; destruct H as [A B]; [assumption|now destruct (is_or x)].
Qed.

Lemma nonor_G_cases x : G x = true -> is_or x = false -> is_lit x = true \/ is_and x = true.
Proof. destruct x as [z|[z|?|?|?]|l|l]; cbn; intros H1 H2; try discriminate; auto. Qed.

(** * Main invariant of [__distribute_ors_switching] *)
Lemma dist_sw_spec n : spec (dist_sw n).
Proof.
  induction n as [|n IH]; intros f a g b Ha Gf Bf H; cbn [dist_sw] in H; [discriminate|].
  destruct f as [z|c|l|l].
  - inversion H. subst g b. split; [apply step_refl|]. split; [reflexivity|split; [reflexivity|discriminate]].
  - destruct c as [z|?|?|?]; try discriminate. inversion H. subst g b.
    split; [apply step_refl|]. split; [reflexivity|split; [reflexivity|discriminate]].
  - (* And *)
    apply rbind_ok in H. destruct H as [[cl fr] [H1 H]]. apply rbind_ok in H. destruct H as [a' [H2 H3]].
    inversion H3. subst g b. clear H3.
    apply dist_fold_chain in H1. destruct H1 as [ys [E C]]. cbn [app] in E. subst cl.
    destruct (chain_posts _ _ _ _ _ IH C Ha Gf Bf) as [SA [_ F]].
    assert (Cn : is_cnf a' = true).
    { apply (build_and_R ys); [|assumption]. intros y Hy.
      destruct (Forall2_in_r _ _ _ _ F Hy) as [x [_ [Ry _]]]. exact Ry. }
    split.
    + eapply step_trans; [exact SA|]. apply step_equiv.
      * intros t. now rewrite (build_and_sem t _ _ H2).
      * apply perm_incl. apply (build_and_lvs _ _ H2).
    + unfold cls_post, R, lit_or_cnf. rewrite Cn, !orb_true_r. split; [reflexivity|split; [reflexivity|]].
      intros _. apply build_and_shape in H2. destruct H2 as [m ->]. reflexivity.
  - (* Or *)
    apply rbind_ok in H. destruct H as [[cl0 fr] [H1 H]]. apply rbind_ok in H. destruct H as [cl [H2 H]].
    apply dist_fold_chain in H1. destruct H1 as [ys [E C]]. cbn [app] in E. subst cl0.
    destruct (G_or_members l Gf) as [Gl NO].
    destruct (chain_posts _ _ _ _ _ IH C Ha Gl Bf) as [_ [SO F]].
    apply pysort_perm in H2.
    assert (Lc : forall c, In c cl -> lit_or_cnf c = true).
    { intros c Hc. apply (Permutation_in _ (Permutation_sym H2)) in Hc.
      destruct (Forall2_in_r _ _ _ _ F Hc) as [x [Hx [_ [P _]]]]. apply P. now apply NO. }
    assert (S1 : step (NOr l) a (NOr cl) fr).
    { eapply step_trans; [exact SO|]. apply step_equiv.
      - intros t. cbn [neval]. symmetry. now apply existsb_perm.
      - cbn [nleaves]. apply perm_incl. now apply (lvs_perm ys cl). }
    assert (B1 : bounded (NOr cl) fr) by (apply (step_bounded _ a _ _ Ha S1); assumption).
    pose proof (st_le _ _ _ _ S1) as Le.
    assert (CR : forall g', cls_post (NOr l) g' <-> R g' = true).
    { intros g'. unfold cls_post. cbn [is_or is_and]. split; [tauto|]. intros X. split; [assumption|].
      split; discriminate. }
    destruct (1 <? length cl)%nat eqn:Len.
    + destruct (should_not_combine cl) eqn:SNC.
      * inversion H. subst g b. split; [apply step_refl|]. apply CR. unfold R, is_clause. cbn [is_lit orb].
        replace (forallb is_lit l) with true; [reflexivity|]. symmetry. apply forallb_forall. intros x Hx.
        destruct (Forall2_in_l _ _ _ _ F Hx) as [y [Hy [_ [_ PA]]]].
        assert (Gx : G x = true) by (rewrite forallb_forall in Gl; now apply Gl).
        destruct (nonor_G_cases x Gx (NO x Hx)) as [X|X]; [assumption|].
        exfalso. unfold should_not_combine in SNC. apply negb_true_iff in SNC.
        assert (existsb is_and cl = true); [|congruence].
        apply existsb_exists. exists y. split; [now apply (Permutation_in _ H2)|now apply PA].
      * destruct cl as [|c0 [|c1 rest]]; cbn [length] in Len; try discriminate.
        cbn [should_combine_naively rbind] in H.
        assert (L0 : lit_or_cnf c0 = true) by (apply Lc; now left).
        assert (L1 : lit_or_cnf c1 = true) by (apply Lc; right; now left).
        assert (Lr : forall x, In x rest -> lit_or_cnf x = true) by (intros x Hx; apply Lc; right; now right).
        destruct (is_lit_shape c0 || is_lit_shape c1).
        -- apply rbind_ok in H. destruct H as [c [Hc H]].
           destruct (naive_comb_spec c0 c1 rest c L0 L1 Lr Hc) as [Gc [Sc Vc]].
           assert (S2 : step (NOr l) a c fr).
           { eapply step_trans; [exact S1|]. now apply step_equiv. }
           destruct (IH c fr g b ltac:(lia) Gc (step_bounded _ a _ _ Ha S2 Bf) H) as [S3 [Rg _]].
           split; [now apply (step_trans _ _ _ _ _ _ S2)|now apply CR].
        -- apply rbind_ok in H. destruct H as [[c fr'] [Hc H]].
           destruct (sw_comb_spec c0 c1 rest fr c fr' ltac:(lia) L0 L1 Lr B1 Hc) as [-> [Gc Sc]].
           assert (S2 : step (NOr l) a c (fr + 1)) by (now apply (step_trans _ _ _ _ _ _ S1)).
           destruct (IH c (fr + 1) g b ltac:(lia) Gc (step_bounded _ a _ _ Ha S2 Bf) H) as [S3 [Rg _]].
           split; [now apply (step_trans _ _ _ _ _ _ S2)|now apply CR].
    + destruct cl as [|c0 [|c1 rest]]; cbn [length] in Len; try discriminate.
      * (* empty disjunction: returned unchanged *)
        inversion H. subst g b. apply Permutation_sym, Permutation_nil in H2. subst ys.
        inversion F. subst l. split; [apply step_refl|]. apply CR. reflexivity.
      * inversion H. subst g b. split.
        -- eapply step_trans; [exact S1|]. apply step_equiv.
           ++ intros t. cbn [neval existsb]. now rewrite orb_false_r.
           ++ cbn [nleaves flat_map]. rewrite app_nil_r. apply incl_refl.
        -- apply CR. apply lit_or_cnf_R. apply Lc. now left.
Qed.

Lemma wrap_and_R g : R g = true -> is_cnf (wrap_and g) = true.
Proof.
  unfold R. intros H. apply orb_true_iff in H. destruct H as [H|H].
  - destruct g as [z|c|m|m]; cbn [wrap_and is_cnf forallb]; try now rewrite H.
    unfold is_clause in H. cbn in H. discriminate.
  - destruct g as [z|c|m|m]; cbn in H; try discriminate. exact H.
Qed.

Lemma eval_local s t f :
  (forall z, In z (leaves f) -> s (Z.abs z) = t (Z.abs z)) -> eval s f = eval t f.
Proof.
  intros H. rewrite <- !elim_sem. apply neval_local. intros z Hz. apply H. now apply elim_leaves.
Qed.

(** * to_cnf_switching *)
Theorem switching_correct f nv g nv' :
  1 <= nv -> (forall z, In z (leaves f) -> Z.abs z < nv) ->
  to_cnf_switching f nv = Ok (g, nv') ->
  nv <= nv' /\
  is_cnf g = true /\
  (forall z, In z (nleaves g) -> In z (leaves f) \/ nv <= z < nv') /\
  (forall s, (exists t, (forall v, ~ (nv <= v < nv') -> t v = s v) /\ neval t g = true) <-> eval s f = true).
Proof.
  intros Hnv HL H. unfold to_cnf_switching in H.
  apply rbind_ok in H. destruct H as [g1 [H1 H]]. apply rbind_ok in H. destruct H as [[g2 fr] [H2 H3]].
  inversion H3. subst g nv'. clear H3.
  assert (B1 : bounded g1 nv).
  { intros z Hz. apply HL. apply elim_leaves. now apply (demorgan_leaves _ _ _ H1). }
  destruct (dist_sw_spec _ g1 nv g2 fr Hnv (demorgan_G _ _ _ H1) B1 H2) as [[Le V Snd Cmp] [Rg _]].
  split; [assumption|]. split; [now apply wrap_and_R|]. split.
  - intros z Hz. rewrite wrap_and_leaves in Hz. destruct (V z Hz) as [X|X]; [left|now right].
    apply elim_leaves. now apply (demorgan_leaves _ _ _ H1).
  - intros s. split.
    + intros [t [O Ht]]. rewrite wrap_and_sem in Ht. apply Snd in Ht.
      rewrite (demorgan_sem t _ _ _ H1), elim_sem in Ht. rewrite <- Ht. apply eval_local.
      intros z Hz. symmetry. apply O. apply HL in Hz. lia.
    + intros Hs. rewrite <- elim_sem, <- (demorgan_sem s _ _ _ H1) in Hs.
      destruct (Cmp s Hs) as [t [O Ht]]. exists t. split; [exact O|now rewrite wrap_and_sem].
Qed.

(** * Shape of the result, without the calling convention *)
Definition shape_spec (d : nf -> Z -> res (nf * Z)) : Prop :=
  forall f a g b, G f = true -> d f a = Ok (g, b) -> cls_post f g.

Lemma chain_shapes d l a ys b :
  shape_spec d -> chain d l a ys b -> forallb G l = true -> Forall2 cls_post l ys.
Proof.
  intros Hd C. induction C as [fr|x l fresh y fr1 ys fr Hx C IH]; intros HG; [constructor|].
  cbn [forallb] in HG. apply andb_true_iff in HG. destruct HG as [Gx Gl].
  constructor; [now apply (Hd x fresh y fr1)|now apply IH].
Qed.

Lemma sw_comb_G c0 c1 rest a c b :
  lit_or_cnf c0 = true -> lit_or_cnf c1 = true -> (forall x, In x rest -> lit_or_cnf x = true) ->
  switching_combination (c0 :: c1 :: rest) a = Ok (c, b) -> G c = true.
Proof.
  intros H0 H1 Hr H. cbn [switching_combination] in H.
  set (comb := NAnd [NOr [NNot (NVar a); c0]; NOr [NVar a; c1]]) in *.
  destruct (lit_or_cnf_G _ H0) as [G0 O0]. destruct (lit_or_cnf_G _ H1) as [G1 O1].
  assert (Gc : G comb = true).
  { cbn [comb G forallb is_or negb andb]. now rewrite G0, G1, O0, O1. }
  destruct rest as [|r0 rest].
  - inversion H. subst c. assumption.
  - apply rbind_ok in H. destruct H as [c' [Hb H]]. inversion H. subst c' b.
    assert (FG : forallb G (comb :: r0 :: rest) = true).
    { change (G comb && forallb G (r0 :: rest) = true). rewrite Gc. cbn [andb].
      apply forallb_forall. intros x Hx. now apply lit_or_cnf_G, Hr. }
    apply (proj1 (build_G _ FG)). assumption.
Qed.

Lemma dist_sw_shape n : shape_spec (dist_sw n).
Proof.
  induction n as [|n IH]; intros f a g b Gf H; cbn [dist_sw] in H; [discriminate|].
  destruct f as [z|c|l|l].
  - inversion H. subst g b. split; [reflexivity|split; [reflexivity|discriminate]].
  - destruct c as [z|?|?|?]; try discriminate. inversion H. subst g b.
    split; [reflexivity|split; [reflexivity|discriminate]].
  - apply rbind_ok in H. destruct H as [[cl fr] [H1 H]]. apply rbind_ok in H. destruct H as [a' [H2 H3]].
    inversion H3. subst g b. clear H3.
    apply dist_fold_chain in H1. destruct H1 as [ys [E C]]. cbn [app] in E. subst cl.
    pose proof (chain_shapes _ _ _ _ _ IH C Gf) as F.
    assert (Cn : is_cnf a' = true).
    { apply (build_and_R ys); [|assumption]. intros y Hy.
      destruct (Forall2_in_r _ _ _ _ F Hy) as [x [_ [Ry _]]]. exact Ry. }
    unfold cls_post, R, lit_or_cnf. rewrite Cn, !orb_true_r. split; [reflexivity|split; [reflexivity|]].
    intros _. apply build_and_shape in H2. destruct H2 as [m ->]. reflexivity.
  - apply rbind_ok in H. destruct H as [[cl0 fr] [H1 H]]. apply rbind_ok in H. destruct H as [cl [H2 H]].
    apply dist_fold_chain in H1. destruct H1 as [ys [E C]]. cbn [app] in E. subst cl0.
    destruct (G_or_members l Gf) as [Gl NO].
    pose proof (chain_shapes _ _ _ _ _ IH C Gl) as F.
    apply pysort_perm in H2.
    assert (Lc : forall c, In c cl -> lit_or_cnf c = true).
    { intros c Hc. apply (Permutation_in _ (Permutation_sym H2)) in Hc.
      destruct (Forall2_in_r _ _ _ _ F Hc) as [x [Hx [_ [P _]]]]. apply P. now apply NO. }
    assert (CR : forall g', cls_post (NOr l) g' <-> R g' = true).
    { intros g'. unfold cls_post. cbn [is_or is_and]. split; [tauto|]. intros X. split; [assumption|].
      split; discriminate. }
    destruct (1 <? length cl)%nat eqn:Len.
    + destruct (should_not_combine cl) eqn:SNC.
      * inversion H. subst g b. apply CR. unfold R, is_clause. cbn [is_lit orb].
        replace (forallb is_lit l) with true; [reflexivity|]. symmetry. apply forallb_forall. intros x Hx.
        destruct (Forall2_in_l _ _ _ _ F Hx) as [y [Hy [_ [_ PA]]]].
        assert (Gx : G x = true) by (rewrite forallb_forall in Gl; now apply Gl).
        destruct (nonor_G_cases x Gx (NO x Hx)) as [X|X]; [assumption|].
        exfalso. unfold should_not_combine in SNC. apply negb_true_iff in SNC.
        assert (existsb is_and cl = true); [|congruence].
        apply existsb_exists. exists y. split; [now apply (Permutation_in _ H2)|now apply PA].
      * destruct cl as [|c0 [|c1 rest]]; cbn [length] in Len; try discriminate.
        cbn [should_combine_naively rbind] in H.
        assert (L0 : lit_or_cnf c0 = true) by (apply Lc; now left).
        assert (L1 : lit_or_cnf c1 = true) by (apply Lc; right; now left).
        assert (Lr : forall x, In x rest -> lit_or_cnf x = true) by (intros x Hx; apply Lc; right; now right).
        destruct (is_lit_shape c0 || is_lit_shape c1).
        -- apply rbind_ok in H. destruct H as [c [Hc H]].
           destruct (naive_comb_spec c0 c1 rest c L0 L1 Lr Hc) as [Gc _].
           destruct (IH c fr g b Gc H) as [Rg _]. now apply CR.
        -- apply rbind_ok in H. destruct H as [[c fr'] [Hc H]].
           pose proof (sw_comb_G c0 c1 rest fr c fr' L0 L1 Lr Hc) as Gc.
           destruct (IH c fr' g b Gc H) as [Rg _]. now apply CR.
    + destruct cl as [|c0 [|c1 rest]]; cbn [length] in Len; try discriminate.
      * inversion H. subst g b. apply Permutation_sym, Permutation_nil in H2. subst ys.
        inversion F. subst l. apply CR. reflexivity.
      * inversion H. subst g b. apply CR. apply lit_or_cnf_R. apply Lc. now left.
Qed.

(** * Totality *)
Definition comb_tail (n : nat) (cl : list nf) (fr : Z) : res (nf * Z) :=
  b <- should_combine_naively cl ;;
  if (b : bool) then c <- naive_combination cl ;; dist_sw n c fr
  else ' (c, fr') <- switching_combination cl fr ;; dist_sw n c fr'.

Lemma dist_sw_or n l fresh :
  dist_sw (S n) (NOr l) fresh =
  (' (cl0, fr) <- dist_fold (dist_sw n) l [] fresh ;;
   cl <- pysort cl0 ;;
   if (1 <? length cl)%nat then
     if should_not_combine cl then Ok (NOr l, fresh) else comb_tail n cl fr
   else match cl with c0 :: _ => Ok (c0, fr) | [] => Ok (NOr l, fresh) end).
Proof. reflexivity. Qed.

Lemma dist_sw_and n l fresh :
  dist_sw (S n) (NAnd l) fresh =
  (' (cl, fr) <- dist_fold (dist_sw n) l [] fresh ;; a <- build_and cl ;; Ok (a, fr)).
Proof. reflexivity. Qed.

Definition total_on (d : nf -> Z -> res (nf * Z)) (x : nf) : Prop :=
  forall a, exists y b, d x a = Ok (y, b).

Lemma dist_fold_total d l : (forall x, In x l -> total_on d x) ->
  forall acc fresh, exists ys fr, dist_fold d l acc fresh = Ok (acc ++ ys, fr) /\ chain d l fresh ys fr.
Proof.
  induction l as [|x l IH]; intros H acc fresh; cbn [dist_fold].
  - exists [], fresh. rewrite app_nil_r. split; [reflexivity|constructor].
  - destruct (H x (or_introl eq_refl) fresh) as [y [b E]]. rewrite E. cbn [rbind].
    destruct (IH (fun a Ha => H a (or_intror Ha)) (acc ++ [y]) b) as [ys [fr [E2 C]]].
    exists (y :: ys), fr. rewrite E2, <- app_assoc. split; [reflexivity|econstructor; eassumption].
Qed.

Lemma lit_run n c a : is_lit c = true -> dist_sw (S n) c a = Ok (c, a).
Proof. destruct c as [z|[z|?|?|?]|?|?]; cbn; intros H; try discriminate; reflexivity. Qed.

Lemma lit_total n c : is_lit c = true -> total_on (dist_sw (S n)) c.
Proof. intros H a. rewrite (lit_run n c a H). eauto. Qed.

Lemma chain_lits n l a ys b :
  chain (dist_sw (S n)) l a ys b -> forallb is_lit l = true -> ys = l /\ b = a.
Proof.
  intros C. induction C as [fr|x l fresh y fr1 ys fr Hx C IH]; intros Hl; [auto|].
  cbn [forallb] in Hl. apply andb_true_iff in Hl. destruct Hl as [A B].
  rewrite (lit_run n x fresh A) in Hx. inversion Hx. subst y fr1. destruct (IH B) as [-> ->]. auto.
Qed.

Lemma lits_no_and m : forallb is_lit m = true -> existsb is_and m = false.
Proof.
  induction m as [|c m IH]; cbn [forallb existsb]; [reflexivity|]. intros H.
  apply andb_true_iff in H. destruct H as [A B]. destruct (is_lit_G c A) as [_ [_ ->]]. now apply IH.
Qed.

Lemma clause_total n x : is_clause x = true -> total_on (dist_sw (2 + n)) x.
Proof.
  intros H a. destruct (is_clause_cases x H) as [[A _]|[m [-> Hm]]].
  - apply (lit_total (S n) x A).
  - change (2 + n)%nat with (S (S n)). rewrite dist_sw_or.
    assert (T : forall x, In x m -> total_on (dist_sw (S n)) x).
    { intros x Hx. apply lit_total. rewrite forallb_forall in Hm. now apply Hm. }
    destruct (dist_fold_total _ m T [] a) as [ys [fr [E C]]].
    destruct (chain_lits _ _ _ _ _ C Hm) as [-> ->]. rewrite E. cbn [rbind app].
    destruct (pysort_total m) as [cl Hcl]. rewrite Hcl. cbn [rbind].
    destruct (1 <? length cl)%nat.
    + assert (S : should_not_combine cl = true).
      { unfold should_not_combine. apply negb_true_iff.
        rewrite <- (existsb_perm _ _ _ (pysort_perm _ _ Hcl)). now apply lits_no_and. }
      rewrite S. eauto.
    + destruct cl; eauto.
Qed.

(** re-running the distribution on a literal or a CNF *)
Lemma rerun_total n c : lit_or_cnf c = true -> total_on (dist_sw (3 + n)) c.
Proof.
  intros H a. unfold lit_or_cnf in H. apply orb_true_iff in H. destruct H as [H|H].
  - apply (lit_total (2 + n) c H).
  - destruct c as [z|?|cls|?]; cbn [is_cnf] in H; try discriminate.
    change (3 + n)%nat with (S (2 + n)). rewrite dist_sw_and.
    assert (T : forall x, In x cls -> total_on (dist_sw (2 + n)) x).
    { intros x Hx. apply clause_total. rewrite forallb_forall in H. now apply H. }
    destruct (dist_fold_total _ cls T [] a) as [ys [fr [E _]]]. rewrite E. cbn [rbind app].
    destruct (build_and_total ys) as [g ->]. cbn [rbind]. eauto.
Qed.

Lemma naive_comb_struct c0 c1 rest :
  lit_or_cnf c0 = true -> lit_or_cnf c1 = true ->
  exists ors, is_cnf (NAnd ors) = true /\
    naive_combination (c0 :: c1 :: rest) =
    match rest with [] => Ok (NAnd ors) | _ => build_or (NAnd ors :: rest) end.
Proof.
  intros H0 H1. cbn [naive_combination].
  match goal with |- context [mapM ?F ?L] => destruct (mapM_total F L) as [ors E] end.
  { intros x _. destruct (flatten_total x false) as [r ->]. cbn [rbind]. eauto. }
  exists ors. rewrite E. cbn [rbind]. split; [|reflexivity].
  apply mapM_ok in E. rewrite crossing_cprod in E.
  change (Forall2 (fun x y => build_or x = Ok y) (cprod [get_list_for_crossing c0; get_list_for_crossing c1]) ors) in E.
  cbn [is_cnf]. apply forallb_forall. intros o Ho. apply (ors_clauses _ _ E); [|assumption].
  intros t x Ht Hx. destruct (cprod_in _ _ _ Ht Hx) as [l [Hl Hxl]].
  destruct Hl as [<-|[<-|[]]]; [now apply (glfc_clauses c0)|now apply (glfc_clauses c1)].
Qed.

Lemma build_or_noflat l g :
  (forall x, In x l -> is_or x = false) -> build_or l = Ok g -> exists l', g = NOr l' /\ Permutation l l'.
Proof.
  intros Hl H. unfold build_or in H. apply rbind_ok in H. destruct H as [l' [H1 H2]]. inversion H2.
  exists l'. split; [reflexivity|]. apply flatten_perm in H1.
  replace (flat_map (flat1 false) l) with l in H1; [assumption|].
  clear -Hl. induction l as [|c l IH]; [reflexivity|]. cbn [flat_map]. unfold flat1 at 1.
  rewrite (Hl c (or_introl eq_refl)). cbn [app]. f_equal. apply IH. intros x Hx. apply Hl. now right.
Qed.

Lemma loc_and_cnf y : lit_or_cnf y = true -> is_and y = true -> is_cnf y = true.
Proof.
  unfold lit_or_cnf. intros H A. apply orb_true_iff in H. destruct H as [H|H]; [|assumption].
  destruct (is_lit_G y H) as [_ [_ X]]. congruence.
Qed.

Lemma loc_notshape c : lit_or_cnf c = true -> is_lit_shape c = false -> is_cnf c = true.
Proof.
  unfold lit_or_cnf. intros H A. apply orb_true_iff in H. destruct H as [H|H]; [|assumption].
  destruct c as [z|[z|?|?|?]|?|?]; cbn in *; discriminate.
Qed.

Lemma is_lit_shape_lit c : is_lit c = true -> is_lit_shape c = true.
Proof. destruct c as [z|?|?|?]; cbn; intros H; try discriminate; reflexivity. Qed.

(** a disjunction of a literal and a CNF *)
Lemma lit_cnf_pair_total n L c :
  is_lit L = true -> is_cnf c = true -> total_on (dist_sw (4 + n)) (NOr [L; c]).
Proof.
  intros HL Hc a. change (4 + n)%nat with (S (S (2 + n))). rewrite dist_sw_or. cbn [dist_fold].
  rewrite (lit_run _ L a HL). cbn [rbind].
  assert (Lc : lit_or_cnf c = true) by (unfold lit_or_cnf; now rewrite Hc, orb_true_r).
  destruct (rerun_total n c Lc a) as [y1 [b1 E1]]. change (3 + n)%nat with (S (2 + n)) in E1.
  rewrite E1. cbn [rbind app dist_fold].
  destruct (is_cnf_G c Hc) as [Gc Oc].
  destruct (dist_sw_shape _ c a y1 b1 Gc E1) as [_ [P1 P2]].
  assert (A1 : is_and y1 = true) by (apply P2; destruct c; cbn in Hc; try discriminate; reflexivity).
  assert (C1 : is_cnf y1 = true) by (apply loc_and_cnf; [now apply P1|assumption]).
  destruct (pysort_total [L; y1]) as [cl Hcl]. rewrite Hcl. cbn [rbind].
  assert (T : forall x0 x1, (x0 = L /\ x1 = y1) \/ (x0 = y1 /\ x1 = L) ->
            exists g b, (if (1 <? length [x0; x1])%nat
                         then if should_not_combine [x0; x1] then Ok (NOr [L; c], a) else comb_tail (S (2 + n)) [x0; x1] b1
                         else match [x0; x1] with c0 :: _ => Ok (c0, b1) | [] => Ok (NOr [L; c], a) end) = Ok (g, b)).
  { intros x0 x1 Hx. cbn [length Nat.ltb Nat.leb].
    assert (SN : should_not_combine [x0; x1] = false).
    { unfold should_not_combine. cbn [existsb]. destruct Hx as [[-> ->]|[-> ->]]; rewrite A1; cbn;
        now rewrite ?orb_true_r. }
    rewrite SN. unfold comb_tail. cbn [should_combine_naively rbind].
    assert (SC : is_lit_shape x0 || is_lit_shape x1 = true).
    { destruct Hx as [[-> ->]|[-> ->]]; rewrite (is_lit_shape_lit L HL); cbn; now rewrite ?orb_true_r. }
    rewrite SC.
    assert (L0 : lit_or_cnf x0 = true /\ lit_or_cnf x1 = true).
    { unfold lit_or_cnf. destruct Hx as [[-> ->]|[-> ->]]; rewrite HL, C1; cbn; now rewrite ?orb_true_r. }
    destruct L0 as [L0 L1]. destruct (naive_comb_struct x0 x1 [] L0 L1) as [ors [Co ->]]. cbn [rbind].
    apply (rerun_total n (NAnd ors)). unfold lit_or_cnf. now rewrite Co, orb_true_r. }
  apply pysort_perm in Hcl. apply Permutation_length_2_inv in Hcl. destruct Hcl as [-> | ->]; apply T; auto.
Qed.

(** the member built from the first two clauses *)
Definition good_comb (comb : nf) : Prop :=
  G comb = true /\ is_and comb = true /\ forall n, total_on (dist_sw (5 + n)) comb.

Lemma cnf_good ors : is_cnf (NAnd ors) = true -> good_comb (NAnd ors).
Proof.
  intros H. split; [now apply is_cnf_G|]. split; [reflexivity|]. intros n.
  change (5 + n)%nat with (3 + (2 + n))%nat. apply rerun_total. unfold lit_or_cnf. now rewrite H, orb_true_r.
Qed.

Lemma sw_good v c0 c1 :
  is_cnf c0 = true -> is_cnf c1 = true -> good_comb (NAnd [NOr [NNot (NVar v); c0]; NOr [NVar v; c1]]).
Proof.
  intros H0 H1. destruct (is_cnf_G _ H0) as [G0 O0]. destruct (is_cnf_G _ H1) as [G1 O1].
  split; [|split; [reflexivity|]].
  - cbn [G forallb is_or negb andb]. now rewrite G0, G1, O0, O1.
  - intros n a. change (5 + n)%nat with (S (4 + n)). rewrite dist_sw_and.
    assert (T : forall x, In x [NOr [NNot (NVar v); c0]; NOr [NVar v; c1]] -> total_on (dist_sw (4 + n)) x).
    { intros x [<-|[<-|[]]]; now apply lit_cnf_pair_total. }
    destruct (dist_fold_total _ _ T [] a) as [ys [fr [E _]]]. rewrite E. cbn [rbind app].
    destruct (build_and_total ys) as [g ->]. cbn [rbind]. eauto.
Qed.

Lemma comb_tail_struct n c0 c1 rest fr :
  lit_or_cnf c0 = true -> lit_or_cnf c1 = true ->
  exists comb fr', good_comb comb /\
    comb_tail n (c0 :: c1 :: rest) fr =
    match rest with [] => dist_sw n comb fr' | _ => c <- build_or (comb :: rest) ;; dist_sw n c fr' end.
Proof.
  intros L0 L1. unfold comb_tail. cbn [should_combine_naively rbind].
  destruct (is_lit_shape c0 || is_lit_shape c1) eqn:E.
  - destruct (naive_comb_struct c0 c1 rest L0 L1) as [ors [Co ->]].
    exists (NAnd ors), fr. split; [now apply cnf_good|]. destruct rest; reflexivity.
  - apply orb_false_iff in E. destruct E as [E0 E1].
    exists (NAnd [NOr [NNot (NVar fr); c0]; NOr [NVar fr; c1]]), (fr + 1).
    split; [apply sw_good; now apply loc_notshape|].
    cbn [switching_combination]. destruct rest as [|r0 rest]; [reflexivity|].
    destruct (build_or _) as [g|e]; reflexivity.
Qed.

Lemma Forall2_len {A B} (Rr : A -> B -> Prop) l l' : Forall2 Rr l l' -> length l = length l'.
Proof. induction 1; cbn [length]; congruence. Qed.

(** [k + 2] clauses, one of them a conjunction: [k + 5] levels suffice *)
Lemma chain_total k : forall n cl fr,
  length cl = (k + 2)%nat -> (k + 5 <= n)%nat ->
  (forall x, In x cl -> lit_or_cnf x = true) ->
  exists g b, comb_tail n cl fr = Ok (g, b).
Proof.
  induction k as [|k IH]; intros n cl fr Hlen Hn Hcl;
    (destruct cl as [|c0 [|c1 rest]]; cbn [length] in Hlen; try lia);
    destruct (comb_tail_struct n c0 c1 rest fr (Hcl c0 (or_introl eq_refl)) (Hcl c1 (or_intror (or_introl eq_refl))))
      as [comb [fr' [[Gc [Ac Tc]] ->]]].
  - destruct rest; [|cbn [length] in Hlen; lia].
    replace n with (5 + (n - 5))%nat by lia. apply Tc.
  - destruct rest as [|r0 rest']; [cbn [length] in Hlen; lia|]. set (rest := r0 :: rest') in *.
    assert (Lr : forall x, In x rest -> lit_or_cnf x = true) by (intros x Hx; apply Hcl; right; now right).
    assert (NO : forall x, In x (comb :: rest) -> is_or x = false).
    { intros x [<-|Hx]; [destruct comb; cbn in Ac; try discriminate; reflexivity|].
      now apply lit_or_cnf_G, Lr. }
    assert (GG : forall x, In x (comb :: rest) -> G x = true).
    { intros x [<-|Hx]; [assumption|]. now apply lit_or_cnf_G, Lr. }
    destruct (build_or_total (comb :: rest)) as [c Hc]. rewrite Hc. cbn [rbind].
    destruct (build_or_noflat _ _ NO Hc) as [l' [-> Pl]].
    destruct n as [|m]; [lia|]. rewrite dist_sw_or.
    assert (T : forall x, In x l' -> total_on (dist_sw m) x).
    { intros x Hx. apply (Permutation_in _ (Permutation_sym Pl)) in Hx. destruct Hx as [<-|Hx].
      - replace m with (5 + (m - 5))%nat by lia. apply Tc.
      - replace m with (3 + (m - 3))%nat by lia. apply rerun_total. now apply Lr. }
    destruct (dist_fold_total _ l' T [] fr') as [ys [fr2 [E C]]]. rewrite E. cbn [rbind app].
    destruct (pysort_total ys) as [cl' Hcl']. rewrite Hcl'. cbn [rbind]. apply pysort_perm in Hcl'.
    assert (HG : forallb G l' = true).
    { apply forallb_forall. intros x Hx. apply GG. now apply (Permutation_in _ (Permutation_sym Pl)). }
    pose proof (chain_shapes _ _ _ _ _ (dist_sw_shape m) C HG) as F.
    assert (Len : length cl' = (k + 2)%nat).
    { rewrite <- (Permutation_length Hcl'), <- (Forall2_len _ _ _ F), <- (Permutation_length Pl).
      cbn [length] in *. lia. }
    replace (1 <? length cl')%nat with true by (symmetry; apply Nat.ltb_lt; lia).
    assert (SN : should_not_combine cl' = false).
    { unfold should_not_combine. apply negb_false_iff. apply existsb_exists.
      assert (Hcomb : In comb l') by (apply (Permutation_in _ Pl); now left).
      destruct (Forall2_in_l _ _ _ _ F Hcomb) as [y [Hy [_ [_ PA]]]].
      exists y. split; [now apply (Permutation_in _ Hcl')|now apply PA]. }
    rewrite SN. apply IH; [assumption|lia|].
    intros y Hy. apply (Permutation_in _ (Permutation_sym Hcl')) in Hy.
    destruct (Forall2_in_r _ _ _ _ F Hy) as [x [Hx [_ [P _]]]]. apply P. apply NO.
    now apply (Permutation_in _ (Permutation_sym Pl)).
Qed.

(** recursion depth of [__distribute_ors_switching] on the output of [__apply_demorgan] *)
Fixpoint sneed (f : nf) : nat :=
  match f with
  | NVar _ | NNot _ => 1
  | NAnd l => S (fold_right (fun x a => Nat.max (sneed x) a) O l)
  | NOr l => S (Nat.max (fold_right (fun x a => Nat.max (sneed x) a) O l) (length l + 3))
  end.

Lemma dist_sw_total n : forall f, G f = true -> (sneed f <= n)%nat -> total_on (dist_sw n) f.
Proof.
  induction n as [|n IH]; intros f Gf Hn a.
  - destruct f; cbn in Hn; lia.
  - destruct f as [z|c|l|l].
    + cbn. eauto.
    + destruct c; cbn in Gf; try discriminate. cbn. eauto.
    + rewrite dist_sw_and. change (sneed (NAnd l)) with (S (mx sneed l)) in Hn.
      assert (T : forall x, In x l -> total_on (dist_sw n) x).
      { intros x Hx. apply IH.
        - cbn [G] in Gf. rewrite forallb_forall in Gf. now apply Gf.
        - pose proof (proj1 (mx_le sneed l _) (Nat.le_refl _) x Hx). lia. }
      destruct (dist_fold_total _ l T [] a) as [ys [fr [E _]]]. rewrite E. cbn [rbind app].
      destruct (build_and_total ys) as [g ->]. cbn [rbind]. eauto.
    + rewrite dist_sw_or. change (sneed (NOr l)) with (S (Nat.max (mx sneed l) (length l + 3))) in Hn.
      destruct (G_or_members l Gf) as [Gl NO].
      assert (T : forall x, In x l -> total_on (dist_sw n) x).
      { intros x Hx. apply IH.
        - rewrite forallb_forall in Gl. now apply Gl.
        - pose proof (proj1 (mx_le sneed l _) (Nat.le_refl _) x Hx). lia. }
      destruct (dist_fold_total _ l T [] a) as [ys [fr [E C]]]. rewrite E. cbn [rbind app].
      destruct (pysort_total ys) as [cl Hcl]. rewrite Hcl. cbn [rbind]. apply pysort_perm in Hcl.
      pose proof (chain_shapes _ _ _ _ _ (dist_sw_shape n) C Gl) as F.
      destruct (1 <? length cl)%nat eqn:Len.
      * destruct (should_not_combine cl); [eauto|]. apply Nat.ltb_lt in Len.
        assert (Ll : length cl = length l) by (rewrite <- (Permutation_length Hcl); symmetry; apply (Forall2_len _ _ _ F)).
        apply (chain_total (length cl - 2)); [lia|lia|].
        intros y Hy. apply (Permutation_in _ (Permutation_sym Hcl)) in Hy.
        destruct (Forall2_in_r _ _ _ _ F Hy) as [x [Hx [_ [P _]]]]. apply P. now apply NO.
      * destruct cl; eauto.
Qed.

Lemma nsize_pos f : (1 <= nsize f)%nat.
Proof. destruct f; cbn; lia. Qed.

Lemma nsum_len l : (length l <= nsum l)%nat.
Proof.
  unfold nsum. induction l as [|x l IH]; cbn [length fold_right]; [lia|]. pose proof (nsize_pos x). lia.
Qed.

Lemma sneed_bound f : (sneed f <= nsize f + 3)%nat.
Proof.
  induction f as [z|c IH|l IH|l IH] using nf_ind'.
  - cbn. lia.
  - cbn. lia.
  - change (sneed (NAnd l)) with (S (mx sneed l)). change (nsize (NAnd l)) with (S (nsum l)).
    assert (M : (mx sneed l <= nsum l + 3)%nat).
    { apply mx_le. intros x Hx. rewrite Forall_forall in IH. specialize (IH x Hx).
      pose proof (nsum_in x l Hx). lia. }
    lia.
  - change (sneed (NOr l)) with (S (Nat.max (mx sneed l) (length l + 3))). change (nsize (NOr l)) with (S (nsum l)).
    assert (M : (mx sneed l <= nsum l + 3)%nat).
    { apply mx_le. intros x Hx. rewrite Forall_forall in IH. specialize (IH x Hx).
      pose proof (nsum_in x l Hx). lia. }
    pose proof (nsum_len l). lia.
Qed.

(** [to_cnf_switching] returns on every formula and every counter and its
    result has CNF shape; under the calling convention the result has the same
    models, projected to the original variables, as the input. *)
Theorem switching_total f nv :
  exists g nv', to_cnf_switching f nv = Ok (g, nv') /\
    is_cnf g = true /\
    (1 <= nv -> (forall z, In z (leaves f) -> Z.abs z < nv) ->
     nv <= nv' /\
     (forall z, In z (nleaves g) -> In z (leaves f) \/ nv <= z < nv') /\
     (forall s, (exists t, (forall v, ~ (nv <= v < nv') -> t v = s v) /\ neval t g = true) <-> eval s f = true)).
Proof.
  assert (T : exists g nv', to_cnf_switching f nv = Ok (g, nv') /\ is_cnf g = true).
  { unfold to_cnf_switching. destruct (demorgan_fuel_total (elim f)) as [g1 H1]. rewrite H1. cbn [rbind].
    pose proof (demorgan_G _ _ _ H1) as G1.
    assert (Hf : (sneed g1 <= switching_fuel g1)%nat).
    { unfold switching_fuel. pose proof (sneed_bound g1). lia. }
    destruct (dist_sw_total _ g1 G1 Hf nv) as [g2 [fr E]]. rewrite E. cbn [rbind].
    exists (wrap_and g2), fr. split; [reflexivity|].
    destruct (dist_sw_shape _ g1 nv g2 fr G1 E) as [Rg _]. now apply wrap_and_R. }
  destruct T as [g [nv' [H C]]]. exists g, nv'. split; [assumption|]. split; [assumption|].
  intros Hnv HL. destruct (switching_correct f nv g nv' Hnv HL H) as [A [_ [B D]]]. auto.
Qed.

Lemma ex_switching_repaired :
  to_cnf_switching (FNot (FIf (FVar 1) (FVar 2))) 3 = Ok (NAnd [NVar 1; NNot (NVar 2)], 3) /\
  to_cnf_switching (FOr []) 1 = Ok (NAnd [NOr []], 1).
Proof. split; vm_compute; reflexivity. Qed.

Lemma ex_switching :
  (forall z, In z (leaves (FOr [FAnd [FVar 1; FVar 2]; FAnd [FVar 3; FVar (-4)]; FIf (FVar 1) (FVar 3)])) -> Z.abs z < 5) /\
  to_cnf_switching (FOr [FAnd [FVar 1; FVar 2]; FAnd [FVar 3; FVar (-4)]; FIf (FVar 1) (FVar 3)]) 5 =
    Ok (NAnd [NOr [NVar 1; NNot (NVar 1); NVar 3; NNot (NVar 5)];
              NOr [NNot (NVar 1); NVar 2; NVar 3; NNot (NVar 5)];
              NOr [NVar (-4); NNot (NVar 1); NVar 3; NVar 5];
              NOr [NNot (NVar 1); NVar 3; NVar 3; NVar 5]], 6).
Proof.
  split; [|vm_compute; reflexivity].
  intros z Hz. cbn in Hz. repeat (destruct Hz as [<-|Hz]; [reflexivity|]). destruct Hz.
Qed.
