(** Model of [to_cnf_tseitin] / [__tseitin_rep] / [_Cache] of
    [sweetpea/_internal/logic.py].  Model file: executable definitions only.

    The Python cache is a dict keyed by [str(And(new_vars))],
    [str(Or(new_vars))], [str(If(p, q))], [str(Iff(p, q))], [str(Not(v))] where
    every argument is a Python int (a leaf or an earlier representative), i.e.
    by the strings "And(input_list=[1, -2])", "Or(input_list=[])",
    "If(p=1, q=2)", "Iff(p=1, q=2)", "Not(c=3)".  The five prefixes are pairwise
    different and the decimal rendering of an int list is injective, so the
    structural [key] below is an injective image of those strings.

    Emitted clauses are kept as lists of signed representatives ([SP v] for the
    Python value [v], [SN v] for [Not(v)]); [tseitin_tree] renders them as the
    [And([Or([...]), ..., rep])] tree the code returns and [tseitin] as the
    integer clauses [cnf_to_json] makes of that tree. *)
From Coq Require Import ZArith List Bool.
From SP Require Import Base.Sat Logic.Formula.
Import ListNotations.
Open Scope Z_scope.

Inductive key :=
| KAnd (l : list Z) | KOr (l : list Z) | KIf (p q : Z) | KIff (p q : Z) | KNot (z : Z).

Fixpoint list_eqb (a b : list Z) : bool :=
  match a, b with
  | [], [] => true
  | x :: a', y :: b' => (x =? y) && list_eqb a' b'
  | _, _ => false
  end.

Definition key_eqb (a b : key) : bool :=
  match a, b with
  | KAnd l, KAnd m => list_eqb l m
  | KOr l, KOr m => list_eqb l m
  | KIf p q, KIf r s => (p =? r) && (q =? s)
  | KIff p q, KIff r s => (p =? r) && (q =? s)
  | KNot z, KNot w => z =? w
  | _, _ => false
  end.

Inductive slit := SP (z : Z) | SN (z : Z).

Record tst := { cache : list (key * Z); nextv : Z; out : list (list slit) }.

Fixpoint lookup (k : key) (c : list (key * Z)) : option Z :=
  match c with
  | [] => None
  | (k', v) :: c' => if key_eqb k k' then Some v else lookup k c'
  end.

(** [_Cache.get] *)
Definition get (k : key) (s : tst) : Z * tst :=
  match lookup k (cache s) with
  | Some v => (v, s)
  | None => (nextv s, {| cache := (k, nextv s) :: cache s; nextv := nextv s + 1; out := out s |})
  end.

Definition emit (cs : list (list slit)) (s : tst) : tst :=
  {| cache := cache s; nextv := nextv s; out := out s ++ cs |}.

(** the common tail of every branch: [old_next_var = cache.get_next_variable();
    new_rep = cache.get(str(...)); if old_next_var == new_rep: clauses...] *)
Definition alloc (k : key) (gate : Z -> list (list slit)) (s : tst) : Z * tst :=
  let old_next := nextv s in
  let '(r, s1) := get k s in
  (r, if old_next =? r then emit (gate r) s1 else s1).

Definition gate_and (vs : list Z) (r : Z) : list (list slit) :=
  (map SN vs ++ [SP r]) :: map (fun v => [SP v; SN r]) vs.
Definition gate_or (vs : list Z) (r : Z) : list (list slit) :=
  (map SP vs ++ [SN r]) :: map (fun v => [SN v; SP r]) vs.
Definition gate_if (p q r : Z) : list (list slit) :=
  [[SN p; SP q; SN r]; [SP p; SP r]; [SN q; SP r]].
Definition gate_iff (p q r : Z) : list (list slit) :=
  [[SP p; SP q; SP r]; [SN p; SN q; SP r]; [SP p; SN q; SN r]; [SN p; SP q; SN r]].
Definition gate_not (v r : Z) : list (list slit) :=
  [[SP v; SP r]; [SN v; SN r]].

Fixpoint rep (f : fm) (s : tst) {struct f} : Z * tst :=
  match f with
  | FVar z => (z, s)
  | FNot g =>
      let '(v, s1) := rep g s in
      alloc (KNot v) (gate_not v) s1
  | FAnd l =>
      let '(vs, s1) :=
        (fix go (l : list fm) (s : tst) : list Z * tst :=
           match l with
           | [] => ([], s)
           | g :: l' => let '(v, s1) := rep g s in let '(vs, s2) := go l' s1 in (v :: vs, s2)
           end) l s in
      alloc (KAnd vs) (gate_and vs) s1
  | FOr l =>
      let '(vs, s1) :=
        (fix go (l : list fm) (s : tst) : list Z * tst :=
           match l with
           | [] => ([], s)
           | g :: l' => let '(v, s1) := rep g s in let '(vs, s2) := go l' s1 in (v :: vs, s2)
           end) l s in
      alloc (KOr vs) (gate_or vs) s1
  | FIf p q =>
      let '(a, s1) := rep p s in
      let '(b, s2) := rep q s1 in
      alloc (KIf a b) (gate_if a b) s2
  | FIff p q =>
      let '(a, s1) := rep p s in
      let '(b, s2) := rep q s1 in
      alloc (KIff a b) (gate_iff a b) s2
  end.

Definition init (nv : Z) : tst := {| cache := []; nextv := nv; out := [] |}.

Definition slit_nf (l : slit) : nf := match l with SP z => NVar z | SN z => NNot (NVar z) end.
Definition slit_int (l : slit) : Z := match l with SP z => z | SN z => - z end.

(** what [to_cnf_tseitin] returns *)
Definition tseitin_tree (f : fm) (nv : Z) : nf * Z :=
  let '(r, s) := rep f (init nv) in
  (NAnd (map (fun c => NOr (map slit_nf c)) (out s) ++ [NVar r]), nextv s).

(** the integer clauses of that tree (see [TseitinProofs.tseitin_json]) *)
Definition tseitin (f : fm) (nv : Z) : list (list Z) * Z :=
  let '(r, s) := rep f (init nv) in
  (map (map slit_int) (out s) ++ [[r]], nextv s).
