(** Proofs about Logic/Tseitin.v: the clauses emitted by [rep] form a
    definitional extension (one gate per cache entry, in allocation order), the
    cache never breaks it, and the final unit clause asserts the formula. *)
From Coq Require Import ZArith List Bool Lia ZifyBool.
From SP Require Import Base.Sat Logic.Formula Logic.Tseitin.
Import ListNotations.
Open Scope Z_scope.

(** * Induction principle for the nested type [fm] *)
Section FmInd.
  Variable P : fm -> Prop.
  Hypothesis HVar : forall z, P (FVar z).
  Hypothesis HNot : forall f, P f -> P (FNot f).
  Hypothesis HAnd : forall l, Forall P l -> P (FAnd l).
  Hypothesis HOr : forall l, Forall P l -> P (FOr l).
  Hypothesis HIf : forall p q, P p -> P q -> P (FIf p q).
  Hypothesis HIff : forall p q, P p -> P q -> P (FIff p q).
  Fixpoint fm_ind' (f : fm) : P f :=
    match f with
    | FVar z => HVar z
    | FNot g => HNot g (fm_ind' g)
    | FAnd l => HAnd l ((fix go (l : list fm) : Forall P l :=
                           match l with [] => Forall_nil P | x :: t => Forall_cons x (fm_ind' x) (go t) end) l)
    | FOr l => HOr l ((fix go (l : list fm) : Forall P l :=
                         match l with [] => Forall_nil P | x :: t => Forall_cons x (fm_ind' x) (go t) end) l)
    | FIf p q => HIf p q (fm_ind' p) (fm_ind' q)
    | FIff p q => HIff p q (fm_ind' p) (fm_ind' q)
    end.
End FmInd.

(** * Unfolding [rep] on lists of subformulas *)
Fixpoint reps (l : list fm) (s : tst) : list Z * tst :=
  match l with
  | [] => ([], s)
  | g :: l' => let '(v, s1) := rep g s in let '(vs, s2) := reps l' s1 in (v :: vs, s2)
  end.

Lemma rep_and l s :
  rep (FAnd l) s = let '(vs, s1) := reps l s in alloc (KAnd vs) (gate_and vs) s1.
Proof.
  cbn [rep].
  match goal with |- (let '(_, _) := ?g l s in _) = _ => assert (E : forall l s, g l s = reps l s) end.
  { clear. induction l as [|a l IH]; intros s; [reflexivity|].
    cbn [reps]. destruct (rep a s) as [v s1]. rewrite IH. reflexivity. }
  rewrite E. reflexivity.
Qed.

Lemma rep_or l s :
  rep (FOr l) s = let '(vs, s1) := reps l s in alloc (KOr vs) (gate_or vs) s1.
Proof.
  cbn [rep].
  match goal with |- (let '(_, _) := ?g l s in _) = _ => assert (E : forall l s, g l s = reps l s) end.
  { clear. induction l as [|a l IH]; intros s; [reflexivity|].
    cbn [reps]. destruct (rep a s) as [v s1]. rewrite IH. reflexivity. }
  rewrite E. reflexivity.
Qed.

(** * Keys: arguments, meaning, gate clauses *)
Definition kargs (k : key) : list Z :=
  match k with
  | KAnd l | KOr l => l
  | KIf p q | KIff p q => [p; q]
  | KNot z => [z]
  end.

Definition keval (k : key) (t : asg) : bool :=
  match k with
  | KAnd l => forallb (lit_true t) l
  | KOr l => existsb (lit_true t) l
  | KIf p q => implb (lit_true t p) (lit_true t q)
  | KIff p q => Bool.eqb (lit_true t p) (lit_true t q)
  | KNot z => negb (lit_true t z)
  end.

Definition kgate (k : key) (r : Z) : list (list slit) :=
  match k with
  | KAnd l => gate_and l r
  | KOr l => gate_or l r
  | KIf p q => gate_if p q r
  | KIff p q => gate_iff p q r
  | KNot z => gate_not z r
  end.

Definition ints (cs : list (list slit)) : cnf := map (map slit_int) cs.
Definition igate (k : key) (r : Z) : cnf := ints (kgate k r).

Lemma list_eqb_eq a : forall b, list_eqb a b = true -> a = b.
Proof.
  induction a as [|x a IH]; intros [|y b] H; cbn in H; try discriminate; [reflexivity|].
  apply andb_true_iff in H. destruct H as [H1 H2]. f_equal; [lia|now apply IH].
Qed.

Lemma key_eqb_eq a b : key_eqb a b = true -> a = b.
Proof.
  destruct a, b; cbn; intros H; try discriminate.
  - f_equal. now apply list_eqb_eq.
  - f_equal. now apply list_eqb_eq.
  - apply andb_true_iff in H. f_equal; lia.
  - apply andb_true_iff in H. f_equal; lia.
  - f_equal. lia.
Qed.

Lemma lookup_in k c v : lookup k c = Some v -> In (k, v) c.
Proof.
  induction c as [|[k' v'] c IH]; cbn; [discriminate|].
  destruct (key_eqb k k') eqn:E.
  - intros H. inversion H. subst. apply key_eqb_eq in E. subst. now left.
  - intros H. right. now apply IH.
Qed.

(** * Gate semantics *)
Lemma forallb_map' {A B} (f : A -> B) (p : B -> bool) l : forallb p (map f l) = forallb (fun x => p (f x)) l.
Proof. induction l; cbn; [reflexivity|]. now rewrite IHl. Qed.

Lemma forallb_ext' {A} (p q : A -> bool) l : (forall x, p x = q x) -> forallb p l = forallb q l.
Proof. intros H. induction l; cbn; [reflexivity|]. now rewrite H, IHl. Qed.

Lemma lit_opp t a : a <> 0 -> lit_true t (- a) = negb (lit_true t a).
Proof. apply lit_true_opp. Qed.

Lemma gate_and_sem t vs r :
  0 < r -> (forall a, In a vs -> a <> 0) ->
  sat t ((map Z.opp vs ++ [r]) :: map (fun v => [v; - r]) vs) = Bool.eqb (t r) (forallb (lit_true t) vs).
Proof.
  intros Hr Hvs. cbn [sat forallb].
  assert (E1 : csat t (map Z.opp vs ++ [r]) = existsb (fun v => negb (lit_true t v)) vs || t r).
  { unfold csat. rewrite existsb_app. cbn [existsb]. rewrite lit_true_pos by assumption.
    rewrite orb_false_r. f_equal. clear Hr. induction vs as [|a vs IH]; [reflexivity|].
    cbn [map existsb]. rewrite lit_opp by (apply Hvs; now left). f_equal.
    apply IH. intros x Hx. apply Hvs. now right. }
  assert (E2 : forallb (csat t) (map (fun v => [v; - r]) vs) = forallb (fun v => lit_true t v || negb (t r)) vs).
  { rewrite forallb_map'. apply forallb_ext'. intros a. unfold csat. cbn [existsb].
    rewrite lit_true_neg by assumption. now rewrite orb_false_r. }
  rewrite E1, E2. clear E1 E2. generalize (t r) as b. intros b.
  induction vs as [|a vs IH]; cbn [existsb forallb].
  - destruct b; reflexivity.
  - assert (Hvs' : forall x, In x vs -> x <> 0) by (intros x Hx; apply Hvs; now right).
    specialize (IH Hvs'). destruct (lit_true t a); cbn.
    + exact IH.
    + destruct b; cbn; [reflexivity|].
      clear. induction vs as [|x vs IH]; cbn; [reflexivity|]. now rewrite orb_true_r.
Qed.

Lemma gate_or_sem t vs r :
  0 < r -> (forall a, In a vs -> a <> 0) ->
  sat t ((vs ++ [- r]) :: map (fun v => [- v; r]) vs) = Bool.eqb (t r) (existsb (lit_true t) vs).
Proof.
  intros Hr Hvs. cbn [sat forallb].
  assert (E1 : csat t (vs ++ [- r]) = existsb (lit_true t) vs || negb (t r)).
  { unfold csat. rewrite existsb_app. cbn [existsb]. rewrite lit_true_neg by assumption.
    now rewrite orb_false_r. }
  assert (E2 : forallb (csat t) (map (fun v => [- v; r]) vs) = forallb (fun v => negb (lit_true t v) || t r) vs).
  { rewrite forallb_map'. clear E1. induction vs as [|a vs IH]; [reflexivity|].
    cbn [forallb]. rewrite IH by (intros x Hx; apply Hvs; now right). f_equal.
    unfold csat. cbn [existsb]. rewrite lit_opp by (apply Hvs; now left).
    rewrite (lit_true_pos t r) by assumption. now rewrite orb_false_r. }
  rewrite E1, E2. clear E1 E2 Hvs. generalize (t r) as b. intros b.
  induction vs as [|a vs IH]; cbn [existsb forallb].
  - destruct b; reflexivity.
  - destruct (lit_true t a); cbn.
    + destruct b; cbn; [|reflexivity].
      clear. induction vs as [|x vs IH]; cbn; [reflexivity|]. now rewrite orb_true_r.
    + exact IH.
Qed.


Lemma igate_and l r : igate (KAnd l) r = (map Z.opp l ++ [r]) :: map (fun v => [v; - r]) l.
Proof.
  unfold igate, ints, kgate, gate_and. cbn [map]. rewrite map_app, !map_map. reflexivity.
Qed.

Lemma igate_or l r : igate (KOr l) r = (l ++ [- r]) :: map (fun v => [- v; r]) l.
Proof.
  unfold igate, ints, kgate, gate_or. cbn [map]. rewrite map_app, !map_map. cbn [map slit_int].
  f_equal. f_equal. now rewrite map_id.
Qed.

Definition args_nz (k : key) : Prop := forall a, In a (kargs k) -> a <> 0.

Lemma igate_sem k r t :
  0 < r -> args_nz k -> sat t (igate k r) = Bool.eqb (t r) (keval k t).
Proof.
  intros Hr Hk. destruct k as [l|l|p q|p q|z].
  - rewrite igate_and. now apply gate_and_sem.
  - rewrite igate_or. now apply gate_or_sem.
  - assert (Hp : p <> 0) by (apply Hk; cbn; auto). assert (Hq : q <> 0) by (apply Hk; cbn; auto).
    unfold igate, ints, kgate, gate_if, keval, sat, csat. cbn [map slit_int forallb existsb].
    rewrite ?(lit_opp t p), ?(lit_opp t q), ?(lit_true_neg t r), ?(lit_true_pos t r) by assumption.
    destruct (lit_true t p), (lit_true t q), (t r); reflexivity.
  - assert (Hp : p <> 0) by (apply Hk; cbn; auto). assert (Hq : q <> 0) by (apply Hk; cbn; auto).
    unfold igate, ints, kgate, gate_iff, keval, sat, csat. cbn [map slit_int forallb existsb].
    rewrite ?(lit_opp t p), ?(lit_opp t q), ?(lit_true_neg t r), ?(lit_true_pos t r) by assumption.
    destruct (lit_true t p), (lit_true t q), (t r); reflexivity.
  - assert (Hz : z <> 0) by (apply Hk; cbn; auto).
    unfold igate, ints, kgate, gate_not, keval, sat, csat. cbn [map slit_int forallb existsb].
    rewrite ?(lit_opp t z), ?(lit_true_neg t r), ?(lit_true_pos t r) by assumption.
    destruct (lit_true t z), (t r); reflexivity.
Qed.

Lemma igate_lits k r c l :
  In c (igate k r) -> In l c -> (l = r \/ l = - r) \/ (In l (kargs k) \/ In (- l) (kargs k)).
Proof.
  destruct k as [vs|vs|p q|p q|z].
  - rewrite igate_and. cbn [kargs]. intros [Hc|Hc] Hl.
    + subst c. apply in_app_or in Hl. destruct Hl as [Hl|[Hl|[]]]; [|left; left; congruence].
      apply in_map_iff in Hl. destruct Hl as [a [E Ha]]. right. right. subst l. now rewrite Z.opp_involutive.
    + apply in_map_iff in Hc. destruct Hc as [a [E Ha]]. subst c.
      destruct Hl as [Hl|[Hl|[]]]; subst; auto.
  - rewrite igate_or. cbn [kargs]. intros [Hc|Hc] Hl.
    + subst c. apply in_app_or in Hl. destruct Hl as [Hl|[Hl|[]]]; auto.
    + apply in_map_iff in Hc. destruct Hc as [a [E Ha]]. subst c.
      destruct Hl as [Hl|[Hl|[]]]; subst; auto. right. right. now rewrite Z.opp_involutive.
  - unfold igate, ints, kgate, gate_if. cbn [map slit_int kargs In].
    intros Hc Hl. repeat (destruct Hc as [Hc|Hc]; [subst c; cbn [In] in Hl|]); try contradiction;
      repeat (destruct Hl as [Hl|Hl]; [subst l; rewrite ?Z.opp_involutive; auto 6|]); contradiction.
  - unfold igate, ints, kgate, gate_iff. cbn [map slit_int kargs In].
    intros Hc Hl. repeat (destruct Hc as [Hc|Hc]; [subst c; cbn [In] in Hl|]); try contradiction;
      repeat (destruct Hl as [Hl|Hl]; [subst l; rewrite ?Z.opp_involutive; auto 6|]); contradiction.
  - unfold igate, ints, kgate, gate_not. cbn [map slit_int kargs In].
    intros Hc Hl. repeat (destruct Hc as [Hc|Hc]; [subst c; cbn [In] in Hl|]); try contradiction;
      repeat (destruct Hl as [Hl|Hl]; [subst l; rewrite ?Z.opp_involutive; auto 6|]); contradiction.
Qed.

(** [keval] reads only the arguments of the key *)
Lemma keval_agree k t t' :
  (forall a, In a (kargs k) -> lit_true t a = lit_true t' a) -> keval k t = keval k t'.
Proof.
  intros H. destruct k as [l|l|p q|p q|z]; cbn [keval kargs] in *.
  - induction l as [|a l IH]; [reflexivity|]. cbn [forallb]. rewrite (H a) by now left.
    f_equal. apply IH. intros x Hx. apply H. now right.
  - induction l as [|a l IH]; [reflexivity|]. cbn [existsb]. rewrite (H a) by now left.
    f_equal. apply IH. intros x Hx. apply H. now right.
  - rewrite (H p), (H q) by (cbn; auto). reflexivity.
  - rewrite (H p), (H q) by (cbn; auto). reflexivity.
  - rewrite (H z) by (cbn; auto). reflexivity.
Qed.

Lemma lit_true_upd t v b a : Z.abs a <> v -> lit_true (upd t v b) a = lit_true t a.
Proof.
  intros H. unfold lit_true, upd. destruct (0 <? a) eqn:E.
  - destruct (a =? v) eqn:E1; [lia|reflexivity].
  - destruct (- a =? v) eqn:E1; [lia|reflexivity].
Qed.

(** * The cache as a definitional extension *)
Definition args_ok (k : key) (v : Z) : Prop := forall a, In a (kargs k) -> a <> 0 /\ Z.abs a < v.

Fixpoint wf (nv0 n : Z) (c : list (key * Z)) : Prop :=
  match c with
  | [] => n = nv0
  | (k, v) :: c' => v = n - 1 /\ args_ok k v /\ wf nv0 (n - 1) c'
  end.

Fixpoint ext_of (c : list (key * Z)) (s : asg) : asg :=
  match c with
  | [] => s
  | (k, v) :: c' => upd (ext_of c' s) v (keval k (ext_of c' s))
  end.

Fixpoint cls_of (c : list (key * Z)) : cnf :=
  match c with
  | [] => []
  | (k, v) :: c' => cls_of c' ++ igate k v
  end.

Lemma wf_len nv0 c : forall n, wf nv0 n c -> n = nv0 + Z.of_nat (length c).
Proof.
  induction c as [|[k v] c IH]; intros n H; cbn [wf length] in *; [lia|].
  destruct H as [_ [_ H]]. apply IH in H. lia.
Qed.

Lemma wf_in nv0 c : forall n k v, wf nv0 n c -> In (k, v) c -> nv0 <= v < n /\ args_ok k v.
Proof.
  induction c as [|[k' v'] c IH]; intros n k v H Hin; [destruct Hin|].
  cbn [wf] in H. destruct H as [Hv [Ha H]]. pose proof (wf_len _ _ _ H) as L.
  destruct Hin as [E|Hin].
  - inversion E. subst. split; [lia|assumption].
  - destruct (IH _ _ _ H Hin) as [R A]. split; [lia|assumption].
Qed.

Lemma defines_pointwise lo hi new e e' :
  Defines lo hi new e -> (forall s w, e s w = e' s w) -> Defines lo hi new e'.
Proof.
  intros D H. constructor.
  - apply (def_range _ _ _ _ D).
  - apply (def_vars _ _ _ _ D).
  - intros s. rewrite (def_sat _ _ _ _ D). split; intros G v Hv; [rewrite <- H|rewrite H]; now apply G.
  - intros s v Hv. rewrite <- H. now apply (def_out _ _ _ _ D).
  - intros s t A v Hv. rewrite <- !H. now apply (def_local _ _ _ _ D).
Qed.

Lemma igate_defines k v :
  1 <= v -> args_ok k v ->
  Defines (v - 1) v (igate k v) (fun s => upd s v (keval k s)).
Proof.
  intros Hv Hk.
  assert (D : Defines (v - 1) (v - 1 + 1) (igate k v) (fun s => upd s (v - 1 + 1) (keval k s))).
  { apply defines_gate.
    - lia.
    - intros c l Hc Hl. destruct (igate_lits _ _ _ _ Hc Hl) as [[E|E]|[E|E]]; try lia.
      + apply Hk in E. lia.
      + apply Hk in E. lia.
    - intros s t A. apply keval_agree. intros a Ha. apply Hk in Ha.
      apply (lit_true_agree (v - 1)); [assumption|lia].
    - intros s. replace (v - 1 + 1) with v by lia. rewrite igate_sem; [|lia|intros a Ha; now apply Hk in Ha].
      destruct (s v), (keval k s); cbn; split; congruence. }
  replace (v - 1 + 1) with v in D by lia. exact D.
Qed.

Lemma wf_defines nv0 c : forall n,
  1 <= nv0 -> wf nv0 n c -> Defines (nv0 - 1) (n - 1) (cls_of c) (ext_of c).
Proof.
  induction c as [|[k v] c IH]; intros n Hnv H; cbn [wf cls_of ext_of] in *.
  - subst n. apply defines_nil. lia.
  - destruct H as [Hv [Ha H]]. pose proof (wf_len _ _ _ H) as L.
    specialize (IH _ Hnv H). subst v.
    apply (defines_seq (nv0 - 1) (n - 1 - 1) (n - 1) (cls_of c) (igate k (n - 1)) (ext_of c)
             (fun s => upd s (n - 1) (keval k s)) IH).
    apply igate_defines; [lia|assumption].
Qed.

Lemma ext_of_out nv0 n c s w :
  1 <= nv0 -> wf nv0 n c -> ~ (nv0 <= w < n) -> ext_of c s w = s w.
Proof.
  intros Hnv H Hw. apply (def_out _ _ _ _ (wf_defines _ _ _ Hnv H)). lia.
Qed.

Lemma wf_app_split nv0 pre c : forall m,
  wf nv0 m (pre ++ c) -> wf nv0 (m - Z.of_nat (length pre)) c.
Proof.
  induction pre as [|[k v] pre IH]; intros m H; cbn [app length wf] in *.
  - now replace (m - Z.of_nat 0) with m by lia.
  - destruct H as [_ [_ H]]. apply IH in H.
    now replace (m - Z.of_nat (S (length pre))) with (m - 1 - Z.of_nat (length pre)) by lia.
Qed.

Lemma ext_of_app nv0 pre c s w : forall m,
  wf nv0 m (pre ++ c) -> w < m - Z.of_nat (length pre) ->
  ext_of (pre ++ c) s w = ext_of c s w.
Proof.
  induction pre as [|[k v] pre IH]; intros m H Hw; cbn [app length wf ext_of] in *; [reflexivity|].
  destruct H as [Hv [_ H]]. unfold upd at 1. destruct (w =? v) eqn:E; [lia|].
  apply (IH (m - 1)); [assumption|lia].
Qed.

Lemma lit_true_ext_app nv0 pre c s a m :
  wf nv0 m (pre ++ c) -> Z.abs a < m - Z.of_nat (length pre) ->
  lit_true (ext_of (pre ++ c) s) a = lit_true (ext_of c s) a.
Proof.
  intros H Ha. unfold lit_true. destruct (0 <? a).
  - apply (ext_of_app nv0 _ _ _ _ m H). lia.
  - f_equal. apply (ext_of_app nv0 _ _ _ _ m H). lia.
Qed.

(** every cached variable carries the value of its key *)
Lemma cache_sem nv0 c : forall n k v s,
  wf nv0 n c -> In (k, v) c -> ext_of c s v = keval k (ext_of c s).
Proof.
  induction c as [|[k' v'] c IH]; intros n k v s H Hin; [destruct Hin|].
  cbn [wf ext_of] in *. destruct H as [Hv [Ha H]].
  assert (U : keval k' (upd (ext_of c s) v' (keval k' (ext_of c s))) = keval k' (ext_of c s)).
  { apply keval_agree. intros a Hk. apply lit_true_upd. apply Ha in Hk. lia. }
  destruct Hin as [E|Hin].
  - inversion E. subst. rewrite U. unfold upd. now rewrite Z.eqb_refl.
  - destruct (wf_in _ _ _ _ _ H Hin) as [R A].
    unfold upd at 1. destruct (v =? v') eqn:E; [lia|].
    rewrite (IH _ _ _ s H Hin). symmetry. apply keval_agree. intros a Hk. apply lit_true_upd.
    apply A in Hk. lia.
Qed.

(** * State invariant *)
Definition SInv (nv0 : Z) (s : tst) : Prop :=
  wf nv0 (nextv s) (cache s) /\ ints (out s) = cls_of (cache s).

Definition key_src (nv0 : Z) (L : list Z) (pre : list (key * Z)) : Prop :=
  forall k v a, In (k, v) pre -> In a (kargs k) -> In a L \/ nv0 <= a.

Lemma alloc_spec nv0 L k s r s' :
  1 <= nv0 -> SInv nv0 s -> args_ok k (nextv s) ->
  (forall a, In a (kargs k) -> In a L \/ nv0 <= a) ->
  alloc k (kgate k) s = (r, s') ->
  SInv nv0 s' /\ (exists pre, cache s' = pre ++ cache s /\ key_src nv0 L pre) /\
  nv0 <= r < nextv s' /\
  (forall t, ext_of (cache s') t r = keval k (ext_of (cache s') t)).
Proof.
  intros Hnv [W O] Ha Hsrc. unfold alloc, get.
  destruct (lookup k (cache s)) as [v|] eqn:E.
  - apply lookup_in in E. destruct (wf_in _ _ _ _ _ W E) as [R A].
    replace (nextv s =? v) with false by lia. intros Q. inversion Q. subst r s'.
    split; [now split|]. split; [exists []; split; [reflexivity|intros ? ? ? []]|].
    split; [lia|]. intros t. now apply (cache_sem nv0 _ (nextv s)).
  - rewrite Z.eqb_refl. intros Q. inversion Q. subst r s'. clear Q. unfold emit. cbn [cache nextv out cls_of].
    assert (W' : wf nv0 (nextv s + 1) ((k, nextv s) :: cache s)).
    { cbn [wf]. replace (nextv s + 1 - 1) with (nextv s) by lia. split; [reflexivity|split; assumption]. }
    split; [split|].
    + exact W'.
    + cbn [cache out cls_of]. unfold ints in *. rewrite map_app, O. reflexivity.
    + split.
      * exists [(k, nextv s)]. split; [reflexivity|].
        intros k' v' a [Q|[]] Hk. inversion Q. subst. now apply Hsrc.
      * pose proof (wf_len _ _ _ W). split; [lia|]. intros t.
        apply (cache_sem nv0 _ (nextv s + 1)); [exact W'|now left].
Qed.

Definition leaves_ok (f : fm) (nv0 : Z) : Prop := forall z, In z (leaves f) -> z <> 0 /\ Z.abs z < nv0.

Definition rep_post (nv0 : Z) (L : list Z) (s : tst) (r : Z) (s' : tst) : Prop :=
  SInv nv0 s' /\
  (exists pre, cache s' = pre ++ cache s /\ key_src nv0 L pre) /\
  r <> 0 /\ Z.abs r < nextv s' /\ (In r L \/ nv0 <= r).

Lemma pre_nextv nv0 s s' pre :
  SInv nv0 s -> SInv nv0 s' -> cache s' = pre ++ cache s ->
  nextv s = nextv s' - Z.of_nat (length pre).
Proof.
  intros [W _] [W' _] E. rewrite E in W'. apply wf_app_split in W'.
  apply wf_len in W. apply wf_len in W'. lia.
Qed.

Lemma lit_true_mono nv0 s s' pre t a :
  SInv nv0 s -> SInv nv0 s' -> cache s' = pre ++ cache s -> Z.abs a < nextv s ->
  lit_true (ext_of (cache s') t) a = lit_true (ext_of (cache s) t) a.
Proof.
  intros I I' E Ha. pose proof (pre_nextv _ _ _ _ I I' E) as N. destruct I' as [W' _].
  rewrite E in *. apply (lit_true_ext_app nv0 _ _ _ _ (nextv s') W'). lia.
Qed.

Lemma key_src_incl nv0 L L' pre : incl L L' -> key_src nv0 L pre -> key_src nv0 L' pre.
Proof. intros HL H k v a Hin Ha. destruct (H k v a Hin Ha); auto. Qed.

Lemma key_src_app nv0 L p1 p2 : key_src nv0 L p1 -> key_src nv0 L p2 -> key_src nv0 L (p1 ++ p2).
Proof. intros H1 H2 k v a Hin Ha. apply in_app_or in Hin. destruct Hin; eauto. Qed.

(** the main invariant of [rep] *)
Definition rep_spec (nv0 : Z) (f : fm) : Prop :=
  forall s r s', SInv nv0 s -> leaves_ok f nv0 -> rep f s = (r, s') ->
    rep_post nv0 (leaves f) s r s' /\
    (forall t, lit_true (ext_of (cache s') t) r = eval t f).

Definition reps_spec (nv0 : Z) (l : list fm) : Prop :=
  forall s vs s', SInv nv0 s -> (forall f, In f l -> leaves_ok f nv0) -> reps l s = (vs, s') ->
    SInv nv0 s' /\
    (exists pre, cache s' = pre ++ cache s /\ key_src nv0 (flat_map leaves l) pre) /\
    (forall a, In a vs -> a <> 0 /\ Z.abs a < nextv s' /\ (In a (flat_map leaves l) \/ nv0 <= a)) /\
    (forall t, map (lit_true (ext_of (cache s') t)) vs = map (eval t) l).

Lemma reps_spec_of nv0 l : 1 <= nv0 -> Forall (rep_spec nv0) l -> reps_spec nv0 l.
Proof.
  intros Hnv HF. induction HF as [|f l Hf HF IH]; intros s vs s' I HL; cbn [reps].
  - intros Q. inversion Q. subst. split; [assumption|]. split.
    + exists []. split; [reflexivity|intros ? ? ? []].
    + split; [intros a []|reflexivity].
  - destruct (rep f s) as [v s1] eqn:E1. destruct (reps l s1) as [vs' s2] eqn:E2.
    intros Q. inversion Q. subst vs s'. clear Q.
    destruct (Hf _ _ _ I (HL f (or_introl eq_refl)) E1) as [[I1 [[p1 [C1 K1]] [Hv0 [Hv1 Hv2]]]] S1].
    destruct (IH _ _ _ I1 (fun g Hg => HL g (or_intror Hg)) E2) as [I2 [[p2 [C2 K2]] [A2 S2]]].
    pose proof (pre_nextv _ _ _ _ I1 I2 C2) as N2.
    split; [assumption|]. split; [|split].
    + exists (p2 ++ p1). split; [rewrite C2, C1; now rewrite app_assoc|].
      cbn [flat_map]. apply key_src_app.
      * eapply key_src_incl; [|exact K2]. apply incl_appr, incl_refl.
      * eapply key_src_incl; [|exact K1]. apply incl_appl, incl_refl.
    + intros a [Ea|Ha].
      * subst a. split; [assumption|]. split; [lia|]. cbn [flat_map]. rewrite in_app_iff. tauto.
      * destruct (A2 a Ha) as [X [Y Z']]. split; [assumption|]. split; [assumption|].
        cbn [flat_map]. rewrite in_app_iff. tauto.
    + intros t. cbn [map]. rewrite S2. f_equal. rewrite <- S1.
      apply (lit_true_mono nv0 s1 s2 p2); assumption.
Qed.

Lemma forallb_map_eq {A} (q : A -> bool) (f : Z -> bool) vs l :
  map f vs = map q l -> forallb f vs = forallb q l.
Proof.
  revert l. induction vs as [|a vs IH]; intros [|x l] H; cbn in *; try discriminate; [reflexivity|].
  injection H as H1 H2. rewrite H1. f_equal. now apply IH.
Qed.

Lemma existsb_map_eq {A} (q : A -> bool) (f : Z -> bool) vs l :
  map f vs = map q l -> existsb f vs = existsb q l.
Proof.
  revert l. induction vs as [|a vs IH]; intros [|x l] H; cbn in *; try discriminate; [reflexivity|].
  injection H as H1 H2. rewrite H1. f_equal. now apply IH.
Qed.

Lemma lit_true_ext_low nv0 n c t a :
  1 <= nv0 -> wf nv0 n c -> Z.abs a < nv0 -> lit_true (ext_of c t) a = lit_true t a.
Proof.
  intros Hnv W Ha. unfold lit_true. destruct (0 <? a).
  - apply (ext_of_out nv0 n); [assumption|assumption|lia].
  - f_equal. apply (ext_of_out nv0 n); [assumption|assumption|lia].
Qed.

Lemma alloc_step nv0 L k s p1 s1 r s' :
  1 <= nv0 -> SInv nv0 s -> SInv nv0 s1 -> cache s1 = p1 ++ cache s -> key_src nv0 L p1 ->
  (forall a, In a (kargs k) -> a <> 0 /\ Z.abs a < nextv s1 /\ (In a L \/ nv0 <= a)) ->
  alloc k (kgate k) s1 = (r, s') ->
  rep_post nv0 L s r s' /\
  (forall t, lit_true (ext_of (cache s') t) r = keval k (ext_of (cache s') t)) /\
  (forall t a, Z.abs a < nextv s1 -> lit_true (ext_of (cache s') t) a = lit_true (ext_of (cache s1) t) a).
Proof.
  intros Hnv I I1 C1 K1 Hargs Q.
  destruct (alloc_spec nv0 L k s1 r s' Hnv I1) as [I' [[p [C K]] [R S]]]; try assumption.
  - intros a Ha. destruct (Hargs a Ha) as [X [Y _]]. now split.
  - intros a Ha. now destruct (Hargs a Ha) as [_ [_ Z']].
  - split; [|split].
    + split; [assumption|]. split.
      * exists (p ++ p1). split; [rewrite C, C1; now rewrite app_assoc|now apply key_src_app].
      * split; [lia|]. split; [lia|]. right. lia.
    + intros t. rewrite lit_true_pos by lia. apply S.
    + intros t a Ha. now apply (lit_true_mono nv0 s1 s' p).
Qed.

Lemma leaves_ok_sub f g nv0 : incl (leaves g) (leaves f) -> leaves_ok f nv0 -> leaves_ok g nv0.
Proof. intros H L z Hz. apply L. now apply H. Qed.

Lemma rep_post_incl nv0 L L' s r s' : incl L L' -> rep_post nv0 L s r s' -> rep_post nv0 L' s r s'.
Proof.
  intros HL [I [[p [C K]] [A [B D]]]]. split; [assumption|]. split.
  - exists p. split; [assumption|]. now apply (key_src_incl nv0 L).
  - split; [assumption|]. split; [assumption|]. destruct D; auto.
Qed.

Lemma rep_correct nv0 : 1 <= nv0 -> forall f, rep_spec nv0 f.
Proof.
  intros Hnv f. induction f as [z|g IH|l IH|l IH|p q IHp IHq|p q IHp IHq] using fm_ind'.
  - (* leaf *)
    intros s r s' I HL Q. cbn [rep] in Q. inversion Q. subst r s'. clear Q.
    destruct (HL z (or_introl eq_refl)) as [Z0 Z1]. pose proof (wf_len _ _ _ (proj1 I)) as N.
    split.
    + split; [assumption|]. split; [exists []; split; [reflexivity|intros ? ? ? []]|].
      split; [assumption|]. split; [lia|]. left. now left.
    + intros t. cbn [eval]. now apply (lit_true_ext_low nv0 (nextv s)); [|apply I|].
  - (* Not *)
    intros s r s' I HL Q. cbn [rep] in Q. destruct (rep g s) as [v s1] eqn:E1.
    destruct (IH _ _ _ I HL E1) as [[I1 [[p1 [C1 K1]] [V0 [V1 V2]]]] S1].
    change (gate_not v) with (kgate (KNot v)) in Q.
    destruct (alloc_step nv0 (leaves (FNot g)) (KNot v) s p1 s1 r s' Hnv I I1 C1 K1) as [P [S M]]; [|exact Q|].
    + intros a [<-|[]]. auto.
    + split; [exact P|]. intros t. rewrite S. cbn [keval eval]. rewrite M by assumption. now rewrite S1.
  - (* And *)
    intros s r s' I HL Q. rewrite rep_and in Q. destruct (reps l s) as [vs s1] eqn:E1.
    destruct (reps_spec_of nv0 l Hnv IH s vs s1 I) as [I1 [[p1 [C1 K1]] [A1 S1]]]; [|exact E1|].
    { intros f Hf. apply (leaves_ok_sub (FAnd l)); [|assumption]. cbn [leaves]. intros z Hz.
      apply in_flat_map. eauto. }
    change (gate_and vs) with (kgate (KAnd vs)) in Q.
    destruct (alloc_step nv0 (leaves (FAnd l)) (KAnd vs) s p1 s1 r s' Hnv I I1 C1 K1) as [P [S M]]; [|exact Q|].
    + intros a Ha. apply A1. exact Ha.
    + split; [exact P|]. intros t. rewrite S. cbn [keval eval].
      apply forallb_map_eq. rewrite <- S1. apply map_ext_in. intros a Ha. apply M. now apply A1.
  - (* Or *)
    intros s r s' I HL Q. rewrite rep_or in Q. destruct (reps l s) as [vs s1] eqn:E1.
    destruct (reps_spec_of nv0 l Hnv IH s vs s1 I) as [I1 [[p1 [C1 K1]] [A1 S1]]]; [|exact E1|].
    { intros f Hf. apply (leaves_ok_sub (FOr l)); [|assumption]. cbn [leaves]. intros z Hz.
      apply in_flat_map. eauto. }
    change (gate_or vs) with (kgate (KOr vs)) in Q.
    destruct (alloc_step nv0 (leaves (FOr l)) (KOr vs) s p1 s1 r s' Hnv I I1 C1 K1) as [P [S M]]; [|exact Q|].
    + intros a Ha. apply A1. exact Ha.
    + split; [exact P|]. intros t. rewrite S. cbn [keval eval].
      apply existsb_map_eq. rewrite <- S1. apply map_ext_in. intros a Ha. apply M. now apply A1.
  - (* If *)
    intros s r s' I HL Q. cbn [rep] in Q.
    destruct (rep p s) as [a s1] eqn:E1. destruct (rep q s1) as [b s2] eqn:E2.
    assert (Lp : leaves_ok p nv0) by (apply (leaves_ok_sub (FIf p q)); [apply incl_appl, incl_refl|assumption]).
    assert (Lq : leaves_ok q nv0) by (apply (leaves_ok_sub (FIf p q)); [apply incl_appr, incl_refl|assumption]).
    destruct (IHp _ _ _ I Lp E1) as [[I1 [[p1 [C1 K1]] [A0 [A1 A2]]]] S1].
    destruct (IHq _ _ _ I1 Lq E2) as [[I2 [[p2 [C2 K2]] [B0 [B1 B2]]]] S2].
    pose proof (pre_nextv _ _ _ _ I1 I2 C2) as N2.
    change (gate_if a b) with (kgate (KIf a b)) in Q.
    destruct (alloc_step nv0 (leaves (FIf p q)) (KIf a b) s (p2 ++ p1) s2 r s' Hnv I I2) as [P [S M]]; [| | |exact Q|].
    + rewrite C2, C1. now rewrite app_assoc.
    + apply key_src_app; [apply (key_src_incl nv0 (leaves q))|apply (key_src_incl nv0 (leaves p))];
        try assumption; [apply incl_appr|apply incl_appl]; apply incl_refl.
    + cbn [leaves]. intros x [<-|[<-|[]]]; (split; [assumption|split; [lia|rewrite in_app_iff; tauto]]).
    + split; [exact P|]. intros t. rewrite S. cbn [keval eval].
      rewrite (M t a), (M t b) by lia. rewrite S2.
      rewrite (lit_true_mono nv0 s1 s2 p2) by assumption. now rewrite S1.
  - (* Iff *)
    intros s r s' I HL Q. cbn [rep] in Q.
    destruct (rep p s) as [a s1] eqn:E1. destruct (rep q s1) as [b s2] eqn:E2.
    assert (Lp : leaves_ok p nv0) by (apply (leaves_ok_sub (FIff p q)); [apply incl_appl, incl_refl|assumption]).
    assert (Lq : leaves_ok q nv0) by (apply (leaves_ok_sub (FIff p q)); [apply incl_appr, incl_refl|assumption]).
    destruct (IHp _ _ _ I Lp E1) as [[I1 [[p1 [C1 K1]] [A0 [A1 A2]]]] S1].
    destruct (IHq _ _ _ I1 Lq E2) as [[I2 [[p2 [C2 K2]] [B0 [B1 B2]]]] S2].
    pose proof (pre_nextv _ _ _ _ I1 I2 C2) as N2.
    change (gate_iff a b) with (kgate (KIff a b)) in Q.
    destruct (alloc_step nv0 (leaves (FIff p q)) (KIff a b) s (p2 ++ p1) s2 r s' Hnv I I2) as [P [S M]]; [| | |exact Q|].
    + rewrite C2, C1. now rewrite app_assoc.
    + apply key_src_app; [apply (key_src_incl nv0 (leaves q))|apply (key_src_incl nv0 (leaves p))];
        try assumption; [apply incl_appr|apply incl_appl]; apply incl_refl.
    + cbn [leaves]. intros x [<-|[<-|[]]]; (split; [assumption|split; [lia|rewrite in_app_iff; tauto]]).
    + split; [exact P|]. intros t. rewrite S. cbn [keval eval].
      rewrite (M t a), (M t b) by lia. rewrite S2.
      rewrite (lit_true_mono nv0 s1 s2 p2) by assumption. now rewrite S1.
Qed.

Lemma cls_of_in c : forall cl, In cl (cls_of c) -> exists k v, In (k, v) c /\ In cl (igate k v).
Proof.
  induction c as [|[k v] c IH]; intros cl H; cbn [cls_of] in H; [destruct H|].
  apply in_app_or in H. destruct H as [H|H].
  - destruct (IH _ H) as [k' [v' [X Y]]]. exists k', v'. split; [now right|assumption].
  - exists k, v. split; [now left|assumption].
Qed.

Lemma SInv_init nv : SInv nv (init nv).
Proof. split; reflexivity. Qed.

(** * Main theorem *)
Theorem tseitin_correct f nv cs nv' :
  1 <= nv -> (forall z, In z (leaves f) -> z <> 0 /\ Z.abs z < nv) ->
  tseitin f nv = (cs, nv') ->
  exists defs r ext,
    cs = defs ++ [[r]] /\ nv <= nv' /\
    Defines (nv - 1) (nv' - 1) defs ext /\
    (forall s, sat (ext s) cs = eval s f) /\
    (forall c l, In c cs -> In l c ->
       (In l (leaves f) \/ In (- l) (leaves f)) \/ nv <= Z.abs l < nv').
Proof.
  intros Hnv HL. unfold tseitin. destruct (rep f (init nv)) as [r s] eqn:E. intros Q. inversion Q. subst cs nv'. clear Q.
  destruct (rep_correct nv Hnv f (init nv) r s (SInv_init nv) HL E) as [[I [[pre [C K]] [R0 [R1 R2]]]] S].
  cbn [init cache] in C. rewrite app_nil_r in C. destruct I as [W O].
  pose proof (wf_len _ _ _ W) as N. pose proof (wf_defines _ _ _ Hnv W) as D.
  exists (cls_of (cache s)), r, (ext_of (cache s)).
  split; [fold (ints (out s)); now rewrite O|]. split; [lia|]. split; [exact D|]. split.
  - intros t. fold (ints (out s)). rewrite O, sat_app, (defines_sat_ext _ _ _ _ t D).
    cbn [sat forallb csat existsb andb]. rewrite S. now rewrite orb_false_r, andb_true_r.
  - intros c l Hc Hl. fold (ints (out s)) in Hc. rewrite O in Hc. apply in_app_or in Hc. destruct Hc as [Hc|[Hc|[]]].
    + destruct (cls_of_in _ _ Hc) as [k [v [Hkv Hg]]]. destruct (wf_in _ _ _ _ _ W Hkv) as [Rv Av].
      destruct (igate_lits _ _ _ _ Hg Hl) as [[El|El]|[El|El]].
      * right. lia.
      * right. lia.
      * rewrite C in Hkv. destruct (K k v l Hkv El) as [X|X]; [left; now left|].
        apply Av in El. right. lia.
      * rewrite C in Hkv. destruct (K k v (- l) Hkv El) as [X|X]; [left; now right|].
        apply Av in El. right. lia.
    + subst c. destruct Hl as [<-|[]]. destruct R2 as [X|X]; [left; now left|right; lia].
Qed.

Lemma eval_agree n s t f :
  agree_upto n s t -> (forall z, In z (leaves f) -> 0 < Z.abs z <= n) -> eval s f = eval t f.
Proof.
  intros A. induction f as [z|g IH|l IH|l IH|p q IHp IHq|p q IHp IHq] using fm_ind'; intros HL; cbn [eval leaves] in *.
  - apply (lit_true_agree n); [assumption|]. apply HL. now left.
  - f_equal. now apply IH.
  - induction IH as [|x l Hx Hl IH]; [reflexivity|]. cbn [forallb flat_map] in *. f_equal.
    + apply Hx. intros z Hz. apply HL. apply in_or_app. now left.
    + apply IH. intros z Hz. apply HL. apply in_or_app. now right.
  - induction IH as [|x l Hx Hl IH]; [reflexivity|]. cbn [existsb flat_map] in *. f_equal.
    + apply Hx. intros z Hz. apply HL. apply in_or_app. now left.
    + apply IH. intros z Hz. apply HL. apply in_or_app. now right.
  - f_equal; [apply IHp|apply IHq]; intros z Hz; apply HL; apply in_or_app; auto.
  - f_equal; [apply IHp|apply IHq]; intros z Hz; apply HL; apply in_or_app; auto.
Qed.

(** The same in terms of models: the solutions of the clauses, restricted to
    the original variables [1..nv-1], are exactly the models of the formula,
    and each solution is determined by that restriction. *)
Theorem tseitin_models f nv cs nv' :
  1 <= nv -> (forall z, In z (leaves f) -> z <> 0 /\ Z.abs z < nv) ->
  tseitin f nv = (cs, nv') ->
  (forall s, (exists t, agree_upto (nv - 1) s t /\ sat t cs = true) <-> eval s f = true) /\
  (forall t t', agree_upto (nv - 1) t t' -> sat t cs = true -> sat t' cs = true ->
                agree_upto (nv' - 1) t t') /\
  vars_upto (nv' - 1) cs.
Proof.
  intros Hnv HL Q. destruct (tseitin_correct f nv cs nv' Hnv HL Q) as [defs [r [ext [E [Hle [D [S V]]]]]]].
  assert (VU : vars_upto (nv' - 1) cs).
  { intros c l Hc Hl. destruct (V c l Hc Hl) as [[X|X]|X].
    - apply HL in X. lia.
    - apply HL in X. lia.
    - lia. }
  assert (HL' : forall z, In z (leaves f) -> 0 < Z.abs z <= nv - 1) by (intros z Hz; apply HL in Hz; lia).
  split; [|split; [|exact VU]].
  - intros s. split.
    + intros [t [A St]]. rewrite (eval_agree (nv - 1) s t f A HL'). rewrite <- S.
      rewrite <- St. apply (sat_agree (nv' - 1)); [|exact VU].
      assert (Sd : sat t defs = true) by (rewrite E, sat_app in St; now apply andb_true_iff in St).
      intros v Hv. destruct (Z_lt_le_dec (nv - 1) v).
      * symmetry. apply (proj1 (def_sat _ _ _ _ D t) Sd). lia.
      * apply (def_out _ _ _ _ D). lia.
    + intros Ev. exists (ext s). split; [|now rewrite S].
      apply (defines_ext_agree _ _ _ _ s D). lia.
  - intros t t' A St St'. apply (defines_unique _ _ _ _ _ _ D A).
    + rewrite E, sat_app in St. now apply andb_true_iff in St.
    + rewrite E, sat_app in St'. now apply andb_true_iff in St'.
Qed.

(** * The tree returned by the code and its [cnf_to_json] image *)
Lemma mapM_app {A B} (f : A -> res B) l1 l2 r1 r2 :
  mapM f l1 = Ok r1 -> mapM f l2 = Ok r2 -> mapM f (l1 ++ l2) = Ok (r1 ++ r2).
Proof.
  revert r1. induction l1 as [|x l1 IH]; intros r1 H1 H2; cbn [mapM app] in *.
  - inversion H1. assumption.
  - destruct (f x) as [y|e]; cbn [rbind] in *; [|discriminate].
    destruct (mapM f l1) as [ys|e]; cbn [rbind] in *; [|discriminate].
    inversion H1. rewrite (IH ys eq_refl H2). reflexivity.
Qed.

Lemma json_lits c : mapM json_lit (map slit_nf c) = Ok (map slit_int c).
Proof.
  induction c as [|[z|z] c IH]; cbn [map mapM slit_nf slit_int json_lit rbind]; [reflexivity| |];
    rewrite IH; reflexivity.
Qed.

Lemma json_clauses cs :
  mapM json_clause (map (fun c => NOr (map slit_nf c)) cs) = Ok (map (map slit_int) cs).
Proof.
  induction cs as [|c cs IH]; cbn [map mapM json_clause rbind]; [reflexivity|].
  rewrite json_lits. cbn [rbind]. rewrite IH. reflexivity.
Qed.

Theorem tseitin_json f nv :
  cnf_to_json [fst (tseitin_tree f nv)] = Ok (fst (tseitin f nv)) /\
  snd (tseitin_tree f nv) = snd (tseitin f nv) /\
  exists cls r, fst (tseitin_tree f nv) = NAnd (map (fun c => NOr (map slit_nf c)) cls ++ [NVar r]).
Proof.
  unfold tseitin_tree, tseitin. destruct (rep f (init nv)) as [r s]. cbn [fst snd]. split; [|split].
  - cbn [cnf_to_json json_and].
    rewrite (mapM_app json_clause _ [NVar r] _ [[r]] (json_clauses (out s)) eq_refl).
    cbn [rbind]. now rewrite app_nil_r.
  - reflexivity.
  - now exists (out s), r.
Qed.

(** * A concrete instance (shared subformula, negative leaf, cache hit) *)
Definition ex_fm : fm :=
  FIff (FAnd [FVar 1; FVar (-2)]) (FOr [FAnd [FVar 1; FVar (-2)]; FNot (FVar 3); FAnd []]).

Lemma ex_tseitin :
  (forall z, In z (leaves ex_fm) -> z <> 0 /\ Z.abs z < 4) /\
  tseitin ex_fm 4 =
    ([[-1; 2; 4]; [1; -4]; [-2; -4]; [3; 5]; [-3; -5]; [6]; [4; 5; 6; -7]; [-4; 7]; [-5; 7]; [-6; 7];
      [4; 7; 8]; [-4; -7; 8]; [4; -7; -8]; [-4; 7; -8]; [8]], 9).
Proof.
  split; [|vm_compute; reflexivity].
  intros z Hz. cbn in Hz. repeat (destruct Hz as [<-|Hz]; [split; [discriminate|reflexivity]|]). destruct Hz.
Qed.
