(** Proofs about Logic/Tseitin.v: the clauses emitted by [rep] form a
    definitional extension (one gate per cache entry, in allocation order), the
    cache never breaks it, and the final unit clause asserts the formula. *)
From Coq Require Import ZArith List Bool Lia ZifyBool.
From SP Require Import Base.Sat Logic.Formula Logic.Tseitin.
Import ListNotations.
Open Scope Z_scope.

(** * Induction principle for the nested type [fm] *)
Section FmInd.
  Variable P : fm -> Prop.
  Hypothesis HVar : forall z, P (FVar z).
  Hypothesis HNot : forall f, P f -> P (FNot f).
  Hypothesis HAnd : forall l, Forall P l -> P (FAnd l).
  Hypothesis HOr : forall l, Forall P l -> P (FOr l).
  Hypothesis HIf : forall p q, P p -> P q -> P (FIf p q).
  Hypothesis HIff : forall p q, P p -> P q -> P (FIff p q).
  Fixpoint fm_ind' (f : fm) : P f :=
    match f with
    | FVar z => HVar z
    | FNot g => HNot g (fm_ind' g)
    | FAnd l => HAnd l ((fix go (l : list fm) : Forall P l :=
                           match l with [] => Forall_nil P | x :: t => Forall_cons x (fm_ind' x) (go t) end) l)
    | FOr l => HOr l ((fix go (l : list fm) : Forall P l :=
                         match l with [] => Forall_nil P | x :: t => Forall_cons x (fm_ind' x) (go t) end) l)
    | FIf p q => HIf p q (fm_ind' p) (fm_ind' q)
    | FIff p q => HIff p q (fm_ind' p) (fm_ind' q)
    end.
End FmInd.

(** * Unfolding [rep] on lists of subformulas *)
Fixpoint reps (l : list fm) (s : tst) : list Z * tst :=
  match l with
  | [] => ([], s)
  | g :: l' => let '(v, s1) := rep g s in let '(vs, s2) := reps l' s1 in (v :: vs, s2)
  end.

Lemma rep_and l s :
  rep (FAnd l) s = let '(vs, s1) := reps l s in alloc (KAnd vs) (gate_and vs) s1.
Proof.
  cbn [rep].
  match goal with |- (let '(_, _) := ?g l s in _) = _ => assert (E : forall l s, g l s = reps l s) end.
  { clear. induction l as [|a l IH]; intros s; [reflexivity|].
    cbn [reps]. destruct (rep a s) as [v s1]. rewrite IH. reflexivity. }
  rewrite E. reflexivity.
Qed.

Lemma rep_or l s :
  rep (FOr l) s = let '(vs, s1) := reps l s in alloc (KOr vs) (gate_or vs) s1.
Proof.
  cbn [rep].
  match goal with |- (let '(_, _) := ?g l s in _) = _ => assert (E : forall l s, g l s = reps l s) end.
  { clear. induction l as [|a l IH]; intros s; [reflexivity|].
    cbn [reps]. destruct (rep a s) as [v s1]. rewrite IH. reflexivity. }
  rewrite E. reflexivity.
Qed.

(** * Keys: arguments, meaning, gate clauses *)
Definition kargs (k : key) : list Z :=
  match k with
  | KAnd l | KOr l => l
  | KIf p q | KIff p q => [p; q]
  | KNot z => [z]
  end.

Definition keval (k : key) (t : asg) : bool :=
  match k with
  | KAnd l => forallb (lit_true t) l
  | KOr l => existsb (lit_true t) l
  | KIf p q => implb (lit_true t p) (lit_true t q)
  | KIff p q => Bool.eqb (lit_true t p) (lit_true t q)
  | KNot z => negb (lit_true t z)
  end.

Definition kgate (k : key) (r : Z) : list (list slit) :=
  match k with
  | KAnd l => gate_and l r
  | KOr l => gate_or l r
  | KIf p q => gate_if p q r
  | KIff p q => gate_iff p q r
  | KNot z => gate_not z r
  end.

Definition ints (cs : list (list slit)) : cnf := map (map slit_int) cs.
Definition igate (k : key) (r : Z) : cnf := ints (kgate k r).

Lemma list_eqb_eq a : forall b, list_eqb a b = true -> a = b.
Proof.
  induction a as [|x a IH]; intros [|y b] H; cbn in H; try discriminate; [reflexivity|].
  apply andb_true_iff in H. destruct H as [H1 H2]. f_equal; [lia|now apply IH].
Qed.

Lemma key_eqb_eq a b : key_eqb a b = true -> a = b.
Proof.
  destruct a, b; cbn; intros H; try discriminate.
  - f_equal. now apply list_eqb_eq.
  - f_equal. now apply list_eqb_eq.
  - apply andb_true_iff in H. f_equal; lia.
  - apply andb_true_iff in H. f_equal; lia.
  - f_equal. lia.
Qed.

Lemma lookup_in k c v : lookup k c = Some v -> In (k, v) c.
Proof.
  induction c as [|[k' v'] c IH]; cbn; [discriminate|].
  destruct (key_eqb k k') eqn:E.
  - intros H. inversion H. subst. apply key_eqb_eq in E. subst. now left.
  - intros H. right. now apply IH.
Qed.

(** * Gate semantics *)
Lemma forallb_map' {A B} (f : A -> B) (p : B -> bool) l : forallb p (map f l) = forallb (fun x => p (f x)) l.
Proof. induction l; cbn; [reflexivity|]. now rewrite IHl. Qed.

Lemma forallb_ext' {A} (p q : A -> bool) l : (forall x, p x = q x) -> forallb p l = forallb q l.
Proof. intros H. induction l; cbn; [reflexivity|]. now rewrite H, IHl. Qed.

Lemma lit_opp t a : a <> 0 -> lit_true t (- a) = negb (lit_true t a).
Proof. apply lit_true_opp. Qed.

Lemma gate_and_sem t vs r :
  0 < r -> (forall a, In a vs -> a <> 0) ->
  sat t ((map Z.opp vs ++ [r]) :: map (fun v => [v; - r]) vs) = Bool.eqb (t r) (forallb (lit_true t) vs).
Proof.
  intros Hr Hvs. cbn [sat forallb].
  assert (E1 : csat t (map Z.opp vs ++ [r]) = existsb (fun v => negb (lit_true t v)) vs || t r).
  { unfold csat. rewrite existsb_app. cbn [existsb]. rewrite lit_true_pos by assumption.
    rewrite orb_false_r. f_equal. clear Hr. induction vs as [|a vs IH]; [reflexivity|].
    cbn [map existsb]. rewrite lit_opp by (apply Hvs; now left). f_equal.
    apply IH. intros x Hx. apply Hvs. now right. }
  assert (E2 : forallb (csat t) (map (fun v => [v; - r]) vs) = forallb (fun v => lit_true t v || negb (t r)) vs).
  { rewrite forallb_map'. apply forallb_ext'. intros a. unfold csat. cbn [existsb].
    rewrite lit_true_neg by assumption. now rewrite orb_false_r. }
  rewrite E1, E2. clear E1 E2. generalize (t r) as b. intros b.
  induction vs as [|a vs IH]; cbn [existsb forallb].
  - destruct b; reflexivity.
  - assert (Hvs' : forall x, In x vs -> x <> 0) by (intros x Hx; apply Hvs; now right).
    specialize (IH Hvs'). destruct (lit_true t a); cbn.
    + exact IH.
    + destruct b; cbn; [reflexivity|].
      clear. induction vs as [|x vs IH]; cbn; [reflexivity|]. now rewrite orb_true_r.
Qed.

Lemma gate_or_sem t vs r :
  0 < r -> (forall a, In a vs -> a <> 0) ->
  sat t ((vs ++ [- r]) :: map (fun v => [- v; r]) vs) = Bool.eqb (t r) (existsb (lit_true t) vs).
Proof.
  intros Hr Hvs. cbn [sat forallb].
  assert (E1 : csat t (vs ++ [- r]) = existsb (lit_true t) vs || negb (t r)).
  { unfold csat. rewrite existsb_app. cbn [existsb]. rewrite lit_true_neg by assumption.
    now rewrite orb_false_r. }
  assert (E2 : forallb (csat t) (map (fun v => [- v; r]) vs) = forallb (fun v => negb (lit_true t v) || t r) vs).
  { rewrite forallb_map'. clear E1. induction vs as [|a vs IH]; [reflexivity|].
    cbn [forallb]. rewrite IH by (intros x Hx; apply Hvs; now right). f_equal.
    unfold csat. cbn [existsb]. rewrite lit_opp by (apply Hvs; now left).
    rewrite lit_true_pos by assumption. now rewrite orb_false_r. }
  rewrite E1, E2. clear E1 E2 Hvs. generalize (t r) as b. intros b.
  induction vs as [|a vs IH]; cbn [existsb forallb].
  - destruct b; reflexivity.
  - destruct (lit_true t a); cbn.
    + destruct b; cbn; [|reflexivity].
      clear. induction vs as [|x vs IH]; cbn; [reflexivity|]. now rewrite orb_true_r.
    + exact IH.
Qed.

