(** Model of the sampling of continuous factors:
    sweetpea/_internal/block.py   [__check_dependency], [_sample_continuous],
                                  [_check_constraints], [sample_continuous],
    sweetpea/_internal/primitive.py [ContinuousFactorWindow.__post_init__],
                                  [get_window_val], [_return_nan], [ContinuousFactor.generate],
    sweetpea/_internal/distribution.py [CustomDistribution.sample] / [reset] (cumulative mode),
    sweetpea/_internal/main.py    the per-experiment [sample_continuous] call of
                                  [synthesize_trials] and the merge into the returned dict.

    Executable definitions only; proofs are in Out/ContinuousProofs.v.

    Values are integers ([VNum]; the harness uses integer-valued recording
    distributions), [float('nan')] is the distinguished constructor [VNaN],
    level names of discrete factors are [VStr].  Python dicts are association
    lists in insertion order, keyed by factor *name* as in the code.

    The user's distribution functions are the parameter
      [gen name a i inputs]
    = what the function of the distribution of continuous factor [name] returns
    when it is called for trial [i] during the [a]-th call of
    [_sample_continuous] on this block (counted over the whole
    [synthesize_trials] call) with arguments [inputs].  Nothing is assumed
    about it: a random draw is a function of [(name, a, i)], a derived factor's
    function one of [inputs]. *)
From Coq Require Import ZArith List Bool String.
Import ListNotations.
Open Scope Z_scope.

Inductive val := VNum (z : Z) | VNaN | VStr (s : string).

(** One factor's window as the distribution function receives it:
    [{0: v, -1: v, ...}] in insertion order. *)
Definition wdict := list (Z * val).

(** One positional argument of a distribution function. *)
Inductive input :=
| IVal (v : val)               (* number / level name / value of a continuous factor *)
| IWin (d : wdict)             (* window over one continuous factor *)
| IWins (ds : list wdict).     (* window over zero or several: a list of dicts *)

Inductive err := KeyError | IndexError | RuntimeError | TypeError | OutOfFuel.

Inductive res (A : Type) := Ok (a : A) | Err (e : err).
Arguments Ok {A} a.
Arguments Err {A} e.

(** [[f x for x in l]] where [f] may raise: the first exception wins. *)
Fixpoint mapM {A B : Type} (f : A -> res B) (l : list A) : res (list B) :=
  match l with
  | [] => Ok []
  | x :: tl =>
    match f x with
    | Err e => Err e
    | Ok y => match mapM f tl with Err e => Err e | Ok ys => Ok (y :: ys) end
    end
  end.

(** name -> list of per-trial values *)
Definition dict := list (string * list val).

Fixpoint get (d : dict) (k : string) : option (list val) :=
  match d with
  | [] => None
  | (k', v) :: tl => if String.eqb k k' then Some v else get tl k
  end.

(** [d[k]] *)
Definition getitem (d : dict) (k : string) : res (list val) :=
  match get d k with Some v => Ok v | None => Err KeyError end.

(** [d[k] = v]: an existing key keeps its position, a new key goes last. *)
Fixpoint set (d : dict) (k : string) (v : list val) : dict :=
  match d with
  | [] => [(k, v)]
  | (k', v') :: tl => if String.eqb k k' then (k', v) :: tl else (k', v') :: set tl k v
  end.

(** [l[i]] for a Python int [i] (negative indices count from the end). *)
Definition py_index (l : list val) (i : Z) : res val :=
  let n := Z.of_nat (List.length l) in
  let j := if i <? 0 then i + n else i in
  if (j <? 0) || (n <=? j) then Err IndexError
  else match nth_error l (Z.to_nat j) with Some v => Ok v | None => Err IndexError end.

(** [range(n)] *)
Definition py_range (n : Z) : list Z := map Z.of_nat (seq 0 (Z.to_nat n)).

(** ** ContinuousFactorWindow *)

Record cwindow := {
  w_factors : list string;   (* names of the continuous factors of the window *)
  w_width : Z;
  w_stride : Z;
  w_start : Z                (* after __post_init__ *)
}.

(** [__post_init__]: [start = None] becomes [width - 1]. *)
Definition window_post_init (fs : list string) (width stride : Z) (start : option Z) : cwindow :=
  {| w_factors := fs; w_width := width; w_stride := stride;
     w_start := match start with None => width - 1 | Some s => s end |}.

(** [_return_nan] *)
Definition return_nan (w : cwindow) : wdict :=
  map (fun i => (- i, VNaN)) (py_range (w_width w)).

(** [dependent_dict[f.name][j]] *)
Definition dict_at (d : dict) (f : string) (j : Z) : res val :=
  match getitem d f with
  | Err e => Err e
  | Ok l => py_index l j
  end.

(** Body of the [for f in self.factors] loop of [get_window_val]. *)
Definition window_factor (w : cwindow) (idx : Z) (d : dict) (f : string) : res wdict :=
  if idx <? w_start w then Ok (return_nan w)
  else if (1 <? w_stride w) && negb ((idx - w_start w) mod (w_stride w) =? 0) then Ok (return_nan w)
  else if idx <? w_width w - 1 then
    mapM (fun k =>
            if idx - k <? 0 then Ok (- k, VNaN)
            else match dict_at d f (idx - k) with
                 | Err e => Err e
                 | Ok v => Ok (- k, v)
                 end)
         (py_range (w_width w))
  else
    mapM (fun k =>
            match dict_at d f (idx - k) with
            | Err e => Err e
            | Ok v => Ok (- k, v)
            end)
         (py_range (w_width w)).

(** [get_window_val(idx, dependent_dict)]: one dict for a single factor
    ([outlist[0]], an IndexError when the window has no factor), else the list. *)
Definition get_window_val (w : cwindow) (idx : Z) (d : dict) : res input :=
  match mapM (window_factor w idx d) (w_factors w) with
  | Err e => Err e
  | Ok outlist =>
    if Nat.ltb (List.length outlist) 2 then
      match outlist with
      | [] => Err IndexError
      | x :: _ => Ok (IWin x)
      end
    else Ok (IWins outlist)
  end.

(** ** Continuous factors *)

(** An element of [cFactor.get_levels()] (the distribution's dependents). *)
Inductive dependent :=
| DNum (z : Z)             (* a number (unreachable: the constructor rejects it) *)
| DDisc (name : string)    (* a discrete factor *)
| DCont (name : string)    (* a continuous factor *)
| DWin (w : cwindow).      (* a ContinuousFactorWindow *)

Record cfactor := {
  cf_name : string;
  cf_deps : list dependent;
  cf_cumulative : bool       (* CustomDistribution(..., cumulative=True) *)
}.

Fixpoint mem (k : string) (l : list string) : bool :=
  match l with
  | [] => false
  | x :: tl => String.eqb k x || mem k tl
  end.

(** [__check_dependency] (as repaired by the commits 91e3c5c and 97de4ab of the
    code): [false] = raises RuntimeError; [allfactors] is a set of names. *)

(** [needed = dependent.factors if isinstance(dependent, ContinuousFactorWindow)
    else [dependent]], restricted to the elements that pass
    [isinstance(needed_factor, ContinuousFactor)] (the factors of a window are
    ContinuousFactors by its [__post_init__]). *)
Definition needed (d : dependent) : list string :=
  match d with
  | DWin w => w_factors w
  | DCont n => [n]
  | DDisc _ => []
  | DNum _ => []
  end.

(** [for needed_factor in needed: if ... name not in allfactors: raise] *)
Fixpoint check_needed (ns : list string) (allf : list string) : bool :=
  match ns with
  | [] => true
  | n :: tl => if mem n allf then check_needed tl allf else false
  end.

(** [for dependent in cFactor.get_levels()] *)
Fixpoint check_deps_of (deps : list dependent) (allf : list string) : bool :=
  match deps with
  | [] => true
  | d :: tl => if check_needed (needed d) allf then check_deps_of tl allf else false
  end.

(** [for cFactor in self.continuous_factors: ...; allfactors.add(cFactor.name)] *)
Fixpoint check_dependency_from (fs : list cfactor) (allf : list string) : bool :=
  match fs with
  | [] => true
  | f :: tl =>
    if check_deps_of (cf_deps f) allf then check_dependency_from tl (cf_name f :: allf) else false
  end.

Definition check_dependency (fs : list cfactor) : bool := check_dependency_from fs [].

(** A logged call of a distribution function: (factor, arguments, result). *)
Definition call := (string * list input * val)%type.

(** Python [+] of the running sum (a float) and a function result. *)
Definition add_val (a b : val) : res val :=
  match a, b with
  | VNum x, VNum y => Ok (VNum (x + y))
  | VStr _, _ => Err TypeError
  | _, VStr _ => Err TypeError
  | _, _ => Ok VNaN
  end.

Section Sampling.

Variable gen : string -> nat -> nat -> list input -> val.

(** The [for j, dependent in enumerate(dependents)] body of [_sample_continuous]. *)
Definition dep_input (trial st : dict) (i : nat) (d : dependent) : res input :=
  match d with
  | DWin w => get_window_val w (Z.of_nat i) st
  | DCont n =>
    match dict_at st n (Z.of_nat i) with Err e => Err e | Ok v => Ok (IVal v) end
  | DNum z => Ok (IVal (VNum z))
  | DDisc n =>
    match get trial n with
    | None => Err RuntimeError
    | Some l => match py_index l (Z.of_nat i) with Err e => Err e | Ok v => Ok (IVal v) end
    end
  end.

(** The [for i in range(self._trials_per_sample)] loop for one factor.
    [vs] is the list object [continuous_samples] (also stored in the dict),
    [sum] the distribution's running sum (cumulative mode). *)
Fixpoint sample_trials (trial : dict) (f : cfactor) (a : nat) (is : list nat)
         (sum : val) (vs : list val) (st : dict) (log : list call)
  : res (dict * list call) :=
  match is with
  | [] => Ok (set st (cf_name f) vs, log)
  | i :: rest =>
    match mapM (dep_input trial st i) (cf_deps f) with
    | Err e => Err e
    | Ok inputs =>
      let r := gen (cf_name f) a i inputs in
      match (if cf_cumulative f then add_val sum r else Ok r) with
      | Err e => Err e
      | Ok v =>
        let vs' := vs ++ [v] in
        sample_trials trial f a rest (if cf_cumulative f then v else sum) vs'
                      (set st (cf_name f) vs') (log ++ [(cf_name f, inputs, r)])
      end
    end
  end.

(** The [for cFactor in self.continuous_factors] loop: [dist.reset()],
    [continuous_output[name] = []], the trial loop. *)
Fixpoint sample_factors (T : nat) (trial : dict) (a : nat) (fs : list cfactor)
         (st : dict) (log : list call) : res (dict * list call) :=
  match fs with
  | [] => Ok (st, log)
  | f :: tl =>
    match sample_trials trial f a (seq 0 T) (VNum 0) [] (set st (cf_name f) []) log with
    | Err e => Err e
    | Ok (st', log') => sample_factors T trial a tl st' log'
    end
  end.

(** [_sample_continuous(trial_num, trial)] as its [a]-th call. *)
Definition _sample_continuous (T : nat) (trial : dict) (fs : list cfactor) (a : nat)
           (log : list call) : res (dict * list call) :=
  sample_factors T trial a fs [] log.

End Sampling.

(** ** ContinuousConstraint *)

Record cconstraint := {
  cc_factors : list string;
  cc_pred : list val -> bool
}.

(** An element of [block.constraints]. *)
Inductive bconstraint := BOther | BCont (c : cconstraint).

Fixpoint continuous_constraints (cs : list bconstraint) : list cconstraint :=
  match cs with
  | [] => []
  | BCont c :: tl => c :: continuous_constraints tl
  | BOther :: tl => continuous_constraints tl
  end.

(** [[continuous_samples[f.name][i] for f in _factors]] *)
Definition constraint_inputs (out : dict) (names : list string) (i : nat) : res (list val) :=
  mapM (fun n => dict_at out n (Z.of_nat i)) names.

Fixpoint check_trials (out : dict) (c : cconstraint) (is : list nat) : res bool :=
  match is with
  | [] => Ok true
  | i :: rest =>
    match constraint_inputs out (cc_factors c) i with
    | Err e => Err e
    | Ok inputs => if cc_pred c inputs then check_trials out c rest else Ok false
    end
  end.

Fixpoint check_each (out : dict) (cs : list cconstraint) : res bool :=
  match cs with
  | [] => Ok true
  | c :: tl =>
    match cc_factors c with
    | [] => Err IndexError                       (* _factors[0] *)
    | n0 :: _ =>
      match getitem out n0 with
      | Err e => Err e
      | Ok l0 =>
        match check_trials out c (seq 0 (List.length l0)) with
        | Err e => Err e
        | Ok true => check_each out tl
        | Ok false => Ok false
        end
      end
    end
  end.

(** [_check_constraints(continuous_samples)] *)
Definition check_constraints (cs : list bconstraint) (out : dict) : res bool :=
  check_each out (continuous_constraints cs).

Section Resample.

Variable gen : string -> nat -> nat -> list input -> val.

(** [sample_continuous]: resample until the constraints hold.  [fuel] bounds
    the number of attempts (the Python loop is unbounded); [a] is the index of
    the next [_sample_continuous] call.  Returns the accepted samples, the
    index after the accepted call and the log. *)
Fixpoint sample_continuous (T : nat) (trial : dict) (fs : list cfactor) (cs : list bconstraint)
         (fuel : nat) (a : nat) (log : list call) : res (dict * nat * list call) :=
  match fuel with
  | O => Err OutOfFuel
  | S fuel' =>
    match _sample_continuous gen T trial fs a log with
    | Err e => Err e
    | Ok (out, log') =>
      match check_constraints cs out with
      | Err e => Err e
      | Ok true => Ok (out, S a, log')
      | Ok false => sample_continuous T trial fs cs fuel' (S a) log'
      end
    end
  end.

(** [for k in continuous_samples: trials[k] = continuous_samples[k]] *)
Definition merge (trials out : dict) : dict :=
  fold_left (fun tr kv => set tr (fst kv) (snd kv)) out trials.

(** The loop over the experiments in [synthesize_trials]; per experiment the
    merged dict and the call index after it. *)
Fixpoint synth_loop (T : nat) (fs : list cfactor) (cs : list bconstraint) (fuel : nat)
         (a : nat) (trialss : list dict) (log : list call)
  : res (list (dict * nat) * list call) :=
  match trialss with
  | [] => Ok ([], log)
  | tr :: rest =>
    match sample_continuous T tr fs cs fuel a log with
    | Err e => Err e
    | Ok (out, a', log') =>
      match synth_loop T fs cs fuel a' rest log' with
      | Err e => Err e
      | Ok (ms, log'') => Ok ((merge tr out, a') :: ms, log'')
      end
    end
  end.

(** [if block.continuous_factors: ...] *)
Definition synthesize_post (T : nat) (fs : list cfactor) (cs : list bconstraint) (fuel : nat)
           (trialss : list dict) : res (list (dict * nat) * list call) :=
  match fs with
  | [] => Ok (map (fun tr => (tr, O)) trialss, [])
  | _ => synth_loop T fs cs fuel O trialss []
  end.

End Resample.
