(** Proofs about Out/Continuous.v (property C22): what the constructor's
    [__check_dependency] accepts, exactly, and what that buys.

    The check (as repaired in the code by the commits 91e3c5c and 97de4ab, after
    the two refutation witnesses of the earlier version of this file were
    replayed on the real code) walks the continuous factors in design order
    with the set of the names seen so far; every ContinuousFactor a factor
    depends on - directly, or as a factor of a ContinuousFactorWindow
    ([needed]) - must be in that set.

    - [dependency_check_exact]: acceptance <-> every needed continuous factor is
      an earlier continuous factor of the design;
    - [dependency_check_complete]: the <- direction on its own;
    - [dependency_check_sound]: an accepted design never raises while sampling
      and yields [T] values per factor.  The remaining hypotheses are each
      necessary: distinct names (a second factor of the same name hides the
      first), no window over an EMPTY list of factors ([get_window_val] reads
      [outlist[0]]: [dependency_check_empty_window_refuted]), discrete
      dependents that are columns of the sample (not the business of this check:
      the block's design is), no string result in cumulative mode. *)
From Coq Require Import ZArith List Bool String Lia ZifyBool.
From SP Require Import Out.Continuous Out.ContinuousProofs Out.ContinuousLive.
Import ListNotations.
Open Scope Z_scope.

Lemma check_needed_spec : forall ns allf,
  check_needed ns allf = true <-> forall n, In n ns -> In n allf.
Proof.
  induction ns as [|n0 tl IH]; intros allf; cbn.
  - split; auto. intros _ n [].
  - destruct (mem n0 allf) eqn:Em.
    + apply mem_In in Em. rewrite IH. split.
      * intros H n [<-|Hn]; auto.
      * intros H n Hn. apply H. right; auto.
    + split; [discriminate|]. intros H. specialize (H n0 (or_introl eq_refl)).
      apply mem_In in H. congruence.
Qed.

Lemma check_deps_of_spec : forall deps allf,
  check_deps_of deps allf = true <-> forall d n, In d deps -> In n (needed d) -> In n allf.
Proof.
  induction deps as [|d0 tl IH]; intros allf; cbn.
  - split; auto. intros _ d n [].
  - destruct (check_needed (needed d0) allf) eqn:En.
    + rewrite IH. pose proof (proj1 (check_needed_spec _ _) En) as H0. split.
      * intros H d n [<-|Hd] Hn; eauto.
      * intros H d n Hd Hn. apply (H d n); auto.
    + split; [discriminate|]. intros H.
      assert (Ht : check_needed (needed d0) allf = true).
      { apply check_needed_spec. intros n Hn. apply (H d0 n); auto. }
      congruence.
Qed.

Lemma check_dependency_from_spec : forall fs allf,
  check_dependency_from fs allf = true <->
  forall pre f post d n, fs = pre ++ f :: post -> In d (cf_deps f) -> In n (needed d) ->
    In n allf \/ In n (map cf_name pre).
Proof.
  induction fs as [|f0 tl IH]; intros allf; cbn [check_dependency_from].
  - split; auto. intros _ pre f post d n Heq. destruct pre; discriminate.
  - destruct (check_deps_of (cf_deps f0) allf) eqn:Ed.
    + pose proof (proj1 (check_deps_of_spec _ _) Ed) as H0. rewrite IH. split.
      * intros H pre f post d n Heq Hd Hn. destruct pre as [|p pre']; cbn in Heq.
        -- injection Heq as <- _. left. eapply H0; eauto.
        -- injection Heq as <- Heq. destruct (H pre' f post d n Heq Hd Hn) as [[<-|Hi]|Hi]; cbn; auto.
      * intros H pre f post d n Heq Hd Hn.
        destruct (H (f0 :: pre) f post d n) as [Hi|[<-|Hi]]; cbn; auto. now rewrite Heq.
    + split; [discriminate|]. intros H.
      assert (Ht : check_deps_of (cf_deps f0) allf = true).
      { apply check_deps_of_spec. intros d n Hd Hn.
        destruct (H [] f0 tl d n eq_refl Hd Hn) as [Hi|[]]. exact Hi. }
      congruence.
Qed.

(** ** Exactly what [__check_dependency] accepts *)
Theorem dependency_check_exact : forall fs,
  check_dependency fs = true <->
  forall pre f post d n, fs = pre ++ f :: post -> In d (cf_deps f) -> In n (needed d) ->
    In n (map cf_name pre).
Proof.
  intros fs. unfold check_dependency. rewrite check_dependency_from_spec. split; intros H pre f post d n Heq Hd Hn.
  - destruct (H pre f post d n Heq Hd Hn) as [[]|Hi]. exact Hi.
  - right. eauto.
Qed.

(** ** Completeness: continuous dependents, direct or through windows, that are
    earlier continuous factors of the design are accepted *)
Theorem dependency_check_complete : forall fs,
  (forall pre f post n, fs = pre ++ f :: post -> In (DCont n) (cf_deps f) -> In n (map cf_name pre)) ->
  (forall pre f post w g, fs = pre ++ f :: post -> In (DWin w) (cf_deps f) -> In g (w_factors w) ->
     In g (map cf_name pre)) ->
  check_dependency fs = true.
Proof.
  intros fs Hc Hw. apply dependency_check_exact. intros pre f post d n Heq Hd Hn.
  destruct d as [z|m|m|w]; cbn in Hn; try contradiction.
  - destruct Hn as [<-|[]]. eapply Hc; eauto.
  - eapply Hw; eauto.
Qed.

(** A direct continuous dependent of an accepted design is an earlier factor
    of the design (the second alternative, the factor itself, was possible under
    the check of the pinned code; the statement is kept). *)
Lemma dependency_check_partial : forall fs pre f post n,
  check_dependency fs = true -> fs = pre ++ f :: post -> In (DCont n) (cf_deps f) ->
  In n (map cf_name pre) \/ n = cf_name f.
Proof.
  intros fs pre f post n H Heq Hn. left.
  apply (proj1 (dependency_check_exact fs) H pre f post (DCont n) n Heq Hn). left. reflexivity.
Qed.

(** ** Soundness *)
Section Sound.
Variable gen : string -> nat -> nat -> list input -> val.

Theorem dependency_check_sound : forall T trial fs a log,
  NoDup (map cf_name fs) -> check_dependency fs = true ->
  (* a window has at least one factor *)
  (forall f w, In f fs -> In (DWin w) (cf_deps f) -> w_factors w <> []) ->
  (* discrete dependents are columns of the sampled trials *)
  (forall f n, In f fs -> In (DDisc n) (cf_deps f) -> exists l, get trial n = Some l /\ (T <= List.length l)%nat) ->
  (* cumulative mode adds the result to a float *)
  (forall f, In f fs -> cf_cumulative f = true -> forall a i inp t, gen (cf_name f) a i inp <> VStr t) ->
  exists out log', _sample_continuous gen T trial fs a log = Ok (out, log') /\
    forall f, In f fs -> exists vs, get out (cf_name f) = Some vs /\ List.length vs = T.
Proof.
  intros T trial fs a log Hnd Hchk Hwin Hdisc Hgen.
  pose proof (proj1 (dependency_check_exact fs) Hchk) as Hex.
  destruct (sample_total gen T trial fs a log Hnd) as (out & log' & E); auto.
  - intros pre f post d Heq Hd.
    assert (Hf : In f fs) by (rewrite Heq; apply in_or_app; right; left; reflexivity).
    destruct d as [z|n|n|w]; cbn.
    + exact I.
    + eapply Hdisc; eauto.
    + apply (Hex pre f post (DCont n) n Heq Hd). left. reflexivity.
    + split; [eapply Hwin; eauto|]. intros g Hg. apply (Hex pre f post (DWin w) g Heq Hd). exact Hg.
  - exists out, log'. split; auto.
    apply _sample_continuous_inv in E; auto. tauto.
Qed.

(** ... hence, with well-formed constraints, no attempt of the resample loop
    raises on an accepted design. *)
Theorem accepted_attempt_total : forall T trial fs cs a,
  NoDup (map cf_name fs) -> check_dependency fs = true ->
  (forall f w, In f fs -> In (DWin w) (cf_deps f) -> w_factors w <> []) ->
  (forall f n, In f fs -> In (DDisc n) (cf_deps f) -> exists l, get trial n = Some l /\ (T <= List.length l)%nat) ->
  (forall f, In f fs -> cf_cumulative f = true -> forall a i inp t, gen (cf_name f) a i inp <> VStr t) ->
  constraints_wf fs cs ->
  forall e, attempt gen T trial fs cs a <> Raise e.
Proof.
  intros T trial fs cs a Hnd Hchk Hwin Hdisc Hgen Hcw.
  pose proof (proj1 (dependency_check_exact fs) Hchk) as Hex.
  apply attempt_total; auto.
  intros pre f post d Heq Hd.
  assert (Hf : In f fs) by (rewrite Heq; apply in_or_app; right; left; reflexivity).
  destruct d as [z|n|n|w]; cbn.
  - exact I.
  - eapply Hdisc; eauto.
  - apply (Hex pre f post (DCont n) n Heq Hd). left. reflexivity.
  - split; [eapply Hwin; eauto|]. intros g Hg. apply (Hex pre f post (DWin w) g Heq Hd). exact Hg.
Qed.

End Sound.

(** The hypothesis on windows cannot be dropped: a window over no factor is
    accepted, and sampling raises IndexError ([outlist[0]]). *)
Local Open Scope string_scope.
Definition empty_window_design : list cfactor :=
  [ {| cf_name := "c0"; cf_deps := [DWin (window_post_init [] 2 1 None)]; cf_cumulative := false |} ].

Lemma dependency_check_empty_window_refuted :
  exists fs T trial, NoDup (map cf_name fs) /\ check_dependency fs = true /\
    forall gen a, _sample_continuous gen T trial fs a [] = Err IndexError.
Proof.
  exists empty_window_design, 2%nat, []. split; [|split].
  - repeat constructor; cbn; intuition.
  - reflexivity.
  - intros gen a. reflexivity.
Qed.
Local Close Scope string_scope.

(** * The concrete design of Out/ContinuousProofs.v satisfies the hypotheses *)
Local Open Scope string_scope.

Lemma ex_gen_nostr : forall name a i inp t, ex_gen name a i inp <> VStr t.
Proof.
  intros name a i inp t. unfold ex_gen. destruct (String.eqb name "rt"); [discriminate|].
  repeat match goal with |- context[match ?x with _ => _ end] => destruct x end; discriminate.
Qed.

Ltac split_pre Heq pre :=
  destruct pre as [|? pre]; [injection Heq as <- <-|injection Heq as <- Heq; try split_pre Heq pre].

Lemma ex_well_ordered : forall tr, In tr ex_trials -> well_ordered 3 tr ex_fs.
Proof.
  intros tr Htr pre f post d Heq Hd. unfold ex_fs in Heq.
  split_pre Heq pre; try (destruct pre; discriminate);
    cbn in Hd; repeat destruct Hd as [<-|Hd]; try contradiction; cbn; auto 10.
  all: try (split; [discriminate|intros g [<-|[]]; auto]).
  all: destruct Htr as [<-|[<-|[]]]; eexists; (split; [reflexivity|cbn; lia]).
Qed.

Lemma ex_constraints_wf : constraints_wf ex_fs ex_cs.
Proof.
  intros c [<-|[]]. split; [discriminate|]. intros n [<-|[]]. cbn. auto.
Qed.

(** the first attempt on the first sampled sequence is rejected, the second accepted *)
Lemma ex_attempts :
  attempt ex_gen 3 (hd [] ex_trials) ex_fs ex_cs 0 = Reject /\
  attempt ex_gen 3 (hd [] ex_trials) ex_fs ex_cs 1
  = Accept [("rt", [VNum 4; VNum 5; VNum 6]); ("diff", [VNaN; VNum 1; VNum 1]);
            ("total", [VNum 4; VNum 9; VNum 15]); ("mix", [VNum 7; VNum 13; VNum 18])].
Proof. split; vm_compute; reflexivity. Qed.

Lemma ex_check_dependency : check_dependency ex_fs = true.
Proof. reflexivity. Qed.

Local Close Scope string_scope.
