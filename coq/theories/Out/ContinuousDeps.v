(** Proofs about Out/Continuous.v (property C22): what the constructor's
    [__check_dependency] accepts, exactly, and what that buys.

    The check keeps a set [allfactors] of names.  A factor enters the set when
    it has no dependents, or when (one of) its dependents is a ContinuousFactor
    that passed the test "its name is in the set".  Hence a factor derived only
    from discrete factors and/or windows is NEVER recorded ([recorded_f]), and
    a window is never looked into.

    - [dependency_check_exact]: acceptance <-> every direct continuous dependent
      is a RECORDED earlier factor (or the factor itself after another continuous
      dependent - not constructible in Python);
    - [dependency_check_sound]: an accepted design whose windows range over
      earlier factors and whose discrete dependents are columns of the sample
      never raises while sampling (the window condition is what the check omits:
      [dependency_check_sound_refuted] in Out/ContinuousProofs.v);
    - [dependency_check_complete]: a design all of whose direct continuous
      dependents are earlier recorded factors is accepted; the condition
      "recorded" cannot be dropped ([dependency_check_complete_refuted]), in fact
      EVERY design in which a factor derived only from discrete factors / windows
      is used as a direct dependent is rejected ([dependency_check_rejects_derived]). *)
From Coq Require Import ZArith List Bool String Lia ZifyBool.
From SP Require Import Out.Continuous Out.ContinuousProofs Out.ContinuousLive.
Import ListNotations.
Open Scope Z_scope.

Definition is_cont (d : dependent) : bool := match d with DCont _ => true | _ => false end.

(** some dependent is a ContinuousFactor *)
Definition has_cont (deps : list dependent) : bool := existsb is_cont deps.

(** The factors [__check_dependency] records: the independent ones and those
    with a direct continuous dependent. *)
Definition recorded_f (f : cfactor) : bool :=
  match cf_deps f with [] => true | ds => has_cont ds end.

Definition recorded (fs : list cfactor) : list string := map cf_name (filter recorded_f fs).

Lemma recorded_cons : forall f fs,
  recorded (f :: fs) = if recorded_f f then cf_name f :: recorded fs else recorded fs.
Proof. intros. unfold recorded. cbn. destruct (recorded_f f); reflexivity. Qed.

Lemma recorded_app : forall a b, recorded (a ++ b) = recorded a ++ recorded b.
Proof. intros. unfold recorded. now rewrite filter_app, map_app. Qed.

Lemma recorded_in : forall fs n, In n (recorded fs) <-> exists g, In g fs /\ cf_name g = n /\ recorded_f g = true.
Proof.
  intros fs n. unfold recorded. rewrite in_map_iff. split.
  - intros (g & Hn & Hg). apply filter_In in Hg. exists g. tauto.
  - intros (g & Hg & Hn & Hr). exists g. split; auto. apply filter_In. tauto.
Qed.

Lemma recorded_incl : forall fs n, In n (recorded fs) -> In n (map cf_name fs).
Proof. intros fs n H. apply recorded_in in H. destruct H as (g & Hg & <- & _). now apply in_map. Qed.

(** * One factor *)

(** every continuous dependent [n] of [deps] is in [allf], or is [name] itself
    after another continuous dependent *)
Definition deps_ok (name : string) (deps : list dependent) (allf : list string) : Prop :=
  forall d1 n d2, deps = d1 ++ DCont n :: d2 -> In n allf \/ (n = name /\ has_cont d1 = true).

Lemma deps_ok_skip : forall name d tl allf, is_cont d = false ->
  (deps_ok name (d :: tl) allf <-> deps_ok name tl allf).
Proof.
  intros name d tl allf Hd. unfold deps_ok. split; intros H d1 n d2 Heq.
  - destruct (H (d :: d1) n d2) as [Hi|(Hn & Hc)]; [cbn; now rewrite Heq|auto|].
    right. split; auto. cbn in Hc. now rewrite Hd in Hc.
  - destruct d1 as [|d0 d1]; cbn in Heq.
    + injection Heq as -> _. discriminate.
    + injection Heq as -> Heq. destruct (H d1 n d2 Heq) as [Hi|(Hn & Hc)]; auto.
      right. split; auto. cbn. now rewrite Hd.
Qed.

Lemma check_deps_of_spec : forall name deps allf,
  match check_deps_of name deps allf with
  | Some allf' => deps_ok name deps allf /\
                  forall k, In k allf' <-> In k allf \/ (has_cont deps = true /\ k = name)
  | None => ~ deps_ok name deps allf
  end.
Proof.
  intros name. induction deps as [|d tl IH]; intros allf.
  - cbn. split.
    + intros d1 n d2 Heq. destruct d1; discriminate.
    + intros k. intuition discriminate.
  - destruct d as [z|n0|n0|w];
      try (cbn [check_deps_of]; specialize (IH allf); destruct (check_deps_of name tl allf) as [allf'|];
           [destruct IH as (H1 & H2); split; [now apply deps_ok_skip|exact H2]
           |intros H; apply IH; now apply deps_ok_skip in H]).
    cbn [check_deps_of]. destruct (mem n0 allf) eqn:Em.
    + apply mem_In in Em. specialize (IH (name :: allf)).
      destruct (check_deps_of name tl (name :: allf)) as [allf'|].
      * destruct IH as (H1 & H2). split.
        -- intros d1 n d2 Heq. destruct d1 as [|d0 d1]; cbn in Heq.
           ++ injection Heq as <- _. auto.
           ++ injection Heq as <- Heq. destruct (H1 d1 n d2 Heq) as [[<-|Hi]|(Hn & Hc)]; auto.
        -- intros k. rewrite H2. cbn. intuition.
      * intros H. apply IH. intros d1 n d2 Heq.
        destruct (H (DCont n0 :: d1) n d2) as [Hi|(Hn & Hc)]; [cbn; now rewrite Heq|left; right; auto|].
        left. left. auto.
    + intros H. destruct (H [] n0 tl eq_refl) as [Hi|(_ & Hc)]; [|discriminate].
      apply mem_In in Hi. congruence.
Qed.

(** * The loop over the factors *)

Definition step (f : cfactor) (allf : list string) : option (list string) :=
  match cf_deps f with
  | [] => Some (cf_name f :: allf)
  | ds => check_deps_of (cf_name f) ds allf
  end.

Lemma check_dependency_from_step : forall f tl allf,
  check_dependency_from (f :: tl) allf =
  match step f allf with None => false | Some allf' => check_dependency_from tl allf' end.
Proof. intros. unfold step. cbn. destruct (cf_deps f); reflexivity. Qed.

Lemma step_spec : forall f allf,
  match step f allf with
  | Some allf' => deps_ok (cf_name f) (cf_deps f) allf /\
                  forall k, In k allf' <-> In k allf \/ (recorded_f f = true /\ k = cf_name f)
  | None => ~ deps_ok (cf_name f) (cf_deps f) allf
  end.
Proof.
  intros f allf. unfold step, recorded_f. destruct (cf_deps f) as [|d ds] eqn:Ed.
  - split.
    + intros d1 n d2 Heq. destruct d1; discriminate.
    + intros k. cbn. intuition.
  - apply check_deps_of_spec.
Qed.

(** all factors of [fs], processed after the names [allf] and the factors [pre0] *)
Definition all_ok (fs : list cfactor) (allf : list string) : Prop :=
  forall pre f post, fs = pre ++ f :: post ->
    deps_ok (cf_name f) (cf_deps f) (allf ++ recorded pre).

Lemma deps_ok_ext : forall name deps a b, (forall k, In k a <-> In k b) ->
  deps_ok name deps a -> deps_ok name deps b.
Proof.
  intros name deps a b Hab H d1 n d2 Heq. destruct (H d1 n d2 Heq) as [Hi|Hs]; auto. left. now apply Hab.
Qed.

Lemma check_dependency_from_spec : forall fs allf,
  check_dependency_from fs allf = true <-> all_ok fs allf.
Proof.
  induction fs as [|f tl IH]; intros allf.
  - cbn. split; auto. intros _ pre f post Heq. destruct pre; discriminate.
  - rewrite check_dependency_from_step. pose proof (step_spec f allf) as Hs.
    destruct (step f allf) as [allf'|].
    + destruct Hs as (Hok & Hmem). rewrite IH. split.
      * intros H pre g post Heq. destruct pre as [|p pre']; cbn in Heq.
        -- injection Heq as <- _. cbn. now rewrite app_nil_r.
        -- injection Heq as <- Heq. eapply deps_ok_ext; [|apply (H pre' g post Heq)].
           intros k. rewrite recorded_cons, !in_app_iff, Hmem.
           destruct (recorded_f f); cbn; intuition congruence.
      * intros H pre g post Heq. eapply deps_ok_ext; [|apply (H (f :: pre) g post); cbn; now rewrite Heq].
        intros k. rewrite recorded_cons, !in_app_iff, Hmem.
        destruct (recorded_f f); cbn; intuition congruence.
    + split; [discriminate|]. intros H. exfalso. apply Hs.
      specialize (H [] f tl eq_refl). cbn in H. now rewrite app_nil_r in H.
Qed.

(** ** Exactly what [__check_dependency] accepts *)
Theorem dependency_check_exact : forall fs,
  check_dependency fs = true <->
  forall pre f post d1 n d2, fs = pre ++ f :: post -> cf_deps f = d1 ++ DCont n :: d2 ->
    In n (recorded pre) \/ (n = cf_name f /\ has_cont d1 = true).
Proof.
  intros fs. unfold check_dependency. rewrite check_dependency_from_spec. unfold all_ok, deps_ok. cbn [app].
  split; intros H; intros; eapply H; eauto.
Qed.

(** ** Completeness, up to "recorded" *)
Theorem dependency_check_complete : forall fs,
  (forall pre f post n, fs = pre ++ f :: post -> In (DCont n) (cf_deps f) ->
     exists g, In g pre /\ cf_name g = n /\ (cf_deps g = [] \/ exists m, In (DCont m) (cf_deps g))) ->
  check_dependency fs = true.
Proof.
  intros fs H. apply dependency_check_exact. intros pre f post d1 n d2 Heq Hd. left.
  destruct (H pre f post n Heq) as (g & Hg & Hn & Hr).
  { rewrite Hd. apply in_or_app. right. left. reflexivity. }
  apply recorded_in. exists g. repeat split; auto. unfold recorded_f.
  destruct Hr as [->|(m & Hm)]; auto.
  destruct (cf_deps g) as [|d ds] eqn:Ed; auto.
  unfold has_cont. apply existsb_exists. exists (DCont m). split; auto.
Qed.

(** ... and "recorded" cannot be dropped: a factor derived only from discrete
    factors and/or windows makes every design in which a later factor depends
    on it directly be rejected. *)
Lemma NoDup_name_inj : forall (l : list cfactor) g g',
  NoDup (map cf_name l) -> In g l -> In g' l -> cf_name g = cf_name g' -> g = g'.
Proof.
  induction l as [|x tl IH]; intros g g' Hnd Hg Hg' Hn; [destruct Hg|].
  cbn in Hnd. inversion Hnd as [|? ? Hnotin Hnd']; subst.
  destruct Hg as [<-|Hg], Hg' as [<-|Hg']; auto.
  - exfalso. apply Hnotin. rewrite Hn. now apply in_map.
  - exfalso. apply Hnotin. rewrite <- Hn. now apply in_map.
Qed.

Theorem dependency_check_rejects_derived : forall pre g mid f post,
  NoDup (map cf_name (pre ++ g :: mid ++ f :: post)) ->
  cf_deps g <> [] -> (forall m, ~ In (DCont m) (cf_deps g)) ->
  In (DCont (cf_name g)) (cf_deps f) ->
  check_dependency (pre ++ g :: mid ++ f :: post) = false.
Proof.
  intros pre g mid f post Hnd Hne Hnc Hin.
  destruct (check_dependency (pre ++ g :: mid ++ f :: post)) eqn:E; auto. exfalso.
  destruct (in_split _ _ Hin) as (d1 & d2 & Hd).
  assert (Heq : pre ++ g :: mid ++ f :: post = (pre ++ g :: mid) ++ f :: post)
    by (rewrite <- app_assoc; reflexivity).
  pose proof (proj1 (dependency_check_exact _) E (pre ++ g :: mid) f post d1 (cf_name g) d2 Heq Hd) as [Hr|(Hn & _)].
  - apply recorded_in in Hr. destruct Hr as (g' & Hg' & Hn & Hr).
    assert (g' = g).
    { apply (NoDup_name_inj (pre ++ g :: mid ++ f :: post)); auto.
      - rewrite Heq. apply in_or_app. left. exact Hg'.
      - apply in_or_app. right. left. reflexivity. }
    subst g'. unfold recorded_f in Hr. destruct (cf_deps g) as [|d ds] eqn:Ed; [congruence|].
    unfold has_cont in Hr. apply existsb_exists in Hr. destruct Hr as (x & Hx & Hc).
    destruct x as [z|n|n|w]; try discriminate. apply (Hnc n). exact Hx.
  - rewrite Heq, map_app in Hnd. cbn in Hnd. apply NoDup_remove_2 in Hnd. apply Hnd.
    apply in_or_app. left. rewrite <- Hn. apply in_map. apply in_or_app. right. left. reflexivity.
Qed.

(** ** Soundness, up to what the check does not look at *)
Section Sound.
Variable gen : string -> nat -> nat -> list input -> val.

Theorem dependency_check_sound : forall T trial fs a log,
  NoDup (map cf_name fs) -> check_dependency fs = true ->
  (* not looked at by the check: windows (over earlier factors, non-empty) *)
  (forall pre f post w, fs = pre ++ f :: post -> In (DWin w) (cf_deps f) ->
     w_factors w <> [] /\ forall g, In g (w_factors w) -> In g (map cf_name pre)) ->
  (* a factor is not its own dependent (not constructible in Python) *)
  (forall f, In f fs -> ~ In (DCont (cf_name f)) (cf_deps f)) ->
  (* discrete dependents are columns of the sampled trials *)
  (forall f n, In f fs -> In (DDisc n) (cf_deps f) -> exists l, get trial n = Some l /\ (T <= List.length l)%nat) ->
  (* cumulative mode adds the result to a float *)
  (forall f, In f fs -> cf_cumulative f = true -> forall a i inp t, gen (cf_name f) a i inp <> VStr t) ->
  exists out log', _sample_continuous gen T trial fs a log = Ok (out, log') /\
    forall f, In f fs -> exists vs, get out (cf_name f) = Some vs /\ List.length vs = T.
Proof.
  intros T trial fs a log Hnd Hchk Hwin Hself Hdisc Hgen.
  destruct (sample_total gen T trial fs a log Hnd) as (out & log' & E); auto.
  - intros pre f post d Heq Hd.
    assert (Hf : In f fs) by (rewrite Heq; apply in_or_app; right; left; reflexivity).
    destruct d as [z|n|n|w]; cbn.
    + exact I.
    + eapply Hdisc; eauto.
    + destruct (dependency_check_partial fs pre f post n Hchk Heq Hd) as [Hi|Hs]; auto.
      subst n. exfalso. eapply Hself; eauto.
    + eapply Hwin; eauto.
  - exists out, log'. split; auto.
    apply _sample_continuous_inv in E; auto. tauto.
Qed.

End Sound.

(** * The concrete design of Out/ContinuousProofs.v satisfies the hypotheses *)
Local Open Scope string_scope.

Lemma ex_gen_nostr : forall name a i inp t, ex_gen name a i inp <> VStr t.
Proof.
  intros name a i inp t. unfold ex_gen. destruct (String.eqb name "rt"); [discriminate|].
  repeat match goal with |- context[match ?x with _ => _ end] => destruct x end; discriminate.
Qed.

Ltac split_pre Heq pre :=
  destruct pre as [|? pre]; [injection Heq as <- <-|injection Heq as <- Heq; try split_pre Heq pre].

Lemma ex_well_ordered : forall tr, In tr ex_trials -> well_ordered 3 tr ex_fs.
Proof.
  intros tr Htr pre f post d Heq Hd. unfold ex_fs in Heq.
  split_pre Heq pre; try (destruct pre; discriminate);
    cbn in Hd; repeat destruct Hd as [<-|Hd]; try contradiction; cbn; auto 10.
  all: try (split; [discriminate|intros g [<-|[]]; auto]).
  all: destruct Htr as [<-|[<-|[]]]; eexists; (split; [reflexivity|cbn; lia]).
Qed.

Lemma ex_constraints_wf : constraints_wf ex_fs ex_cs.
Proof.
  intros c [<-|[]]. split; [discriminate|]. intros n [<-|[]]. cbn. auto.
Qed.

(** the first attempt on the first sampled sequence is rejected, the second accepted *)
Lemma ex_attempts :
  attempt ex_gen 3 (hd [] ex_trials) ex_fs ex_cs 0 = Reject /\
  attempt ex_gen 3 (hd [] ex_trials) ex_fs ex_cs 1
  = Accept [("rt", [VNum 4; VNum 5; VNum 6]); ("diff", [VNaN; VNum 1; VNum 1]);
            ("total", [VNum 4; VNum 9; VNum 15]); ("mix", [VNum 7; VNum 13; VNum 18])].
Proof. split; vm_compute; reflexivity. Qed.

Lemma ex_check_dependency : check_dependency ex_fs = true /\ recorded ex_fs = ["rt"; "total"; "mix"].
Proof. split; reflexivity. Qed.

Local Close Scope string_scope.
