(** Proofs about Out/Continuous.v (property C22): liveness of the resample loop
    relative to the stream of draws.

    The Python loop of [Block.sample_continuous] is

        while not meet_constraints:
            if continue_counter >= max_attempts:      # 10000000
                # raise RuntimeError(...)               <- commented out in the code
                print('... exceeds max attempts ...')
            ...
            continuous_samples = self._sample_continuous(trial_num, trial)
            meet_constraints = self._check_constraints(continuous_samples)
            continue_counter += 1

    i.e. it has NO bound: past [max_attempts] it only prints a message and goes
    on; it never raises and never gives up.  It ends only when an attempt is
    accepted or when an attempt raises.  The model's [fuel] is therefore not a
    feature of the code but the bound of whoever runs it (the harness); the
    result [Err OutOfFuel] stands for "still looping after [fuel] attempts", a
    genuinely unbounded run is a runtime behaviour the model cannot exhibit.

    The draws are the parameter [gen name a i inputs], indexed by the attempt
    number [a]: the stream of attempts is [fun a => attempt ... a]. *)
From Coq Require Import ZArith List Bool String Lia ZifyBool.
From SP Require Import Out.Continuous Out.ContinuousProofs.
Import ListNotations.
Open Scope Z_scope.

(** * The log is write-only: the sampled values do not depend on it *)

Definition with_log {A : Type} (pre : list call) (r : res (A * list call)) : res (A * list call) :=
  match r with Ok (x, l) => Ok (x, pre ++ l) | Err e => Err e end.

Section Log.
Variable gen : string -> nat -> nat -> list input -> val.

Lemma sample_trials_log : forall trial f a is sum vs st pre log,
  sample_trials gen trial f a is sum vs st (pre ++ log)
  = with_log pre (sample_trials gen trial f a is sum vs st log).
Proof.
  intros trial f a. induction is as [|i rest IH]; intros sum vs st pre log; cbn.
  - reflexivity.
  - destruct (mapM (dep_input trial st i) (cf_deps f)) as [inputs|e]; [|reflexivity].
    destruct (if cf_cumulative f then add_val sum (gen (cf_name f) a i inputs)
              else Ok (gen (cf_name f) a i inputs)) as [v|e]; [|reflexivity].
    rewrite <- app_assoc. apply IH.
Qed.

Lemma sample_factors_log : forall T trial a fs st pre log,
  sample_factors gen T trial a fs st (pre ++ log)
  = with_log pre (sample_factors gen T trial a fs st log).
Proof.
  intros T trial a. induction fs as [|f tl IH]; intros st pre log; cbn.
  - reflexivity.
  - rewrite sample_trials_log.
    destruct (sample_trials gen trial f a (seq 0 T) (VNum 0) [] (set st (cf_name f) []) log)
      as [[st1 log1]|e]; cbn; [|reflexivity].
    apply IH.
Qed.

Lemma _sample_continuous_log : forall T trial fs a log,
  _sample_continuous gen T trial fs a log = with_log log (_sample_continuous gen T trial fs a []).
Proof.
  intros. unfold _sample_continuous.
  rewrite <- (app_nil_r log) at 1. apply sample_factors_log.
Qed.

End Log.

(** * The stream of attempts *)

(** What one pass of the loop body does with the draws of attempt [a]. *)
Inductive verdict :=
| Accept (out : dict)    (* sampled [out], every ContinuousConstraint holds: returned *)
| Reject                 (* sampled, some ContinuousConstraint fails: resample *)
| Raise (e : err).       (* the sampling or a constraint raised: propagates *)

Definition attempt (gen : string -> nat -> nat -> list input -> val)
           (T : nat) (trial : dict) (fs : list cfactor) (cs : list bconstraint) (a : nat) : verdict :=
  match _sample_continuous gen T trial fs a [] with
  | Err e => Raise e
  | Ok (out, _) =>
    match check_constraints cs out with
    | Err e => Raise e
    | Ok true => Accept out
    | Ok false => Reject
    end
  end.

(** The loop as a function of the stream of verdicts alone: the first attempt
    that is not rejected decides. *)
Fixpoint scan (v : nat -> verdict) (fuel a : nat) : res (dict * nat) :=
  match fuel with
  | O => Err OutOfFuel
  | S fuel' =>
    match v a with
    | Accept out => Ok (out, S a)
    | Raise e => Err e
    | Reject => scan v fuel' (S a)
    end
  end.

Definition drop_log (r : res (dict * nat * list call)) : res (dict * nat) :=
  match r with Ok (out, a', _) => Ok (out, a') | Err e => Err e end.

Section Scan.
Variable v : nat -> verdict.

Lemma scan_first : forall fuel a n out, (n < fuel)%nat ->
  (forall m, (m < n)%nat -> v (a + m) = Reject) -> v (a + n) = Accept out ->
  scan v fuel a = Ok (out, S (a + n)).
Proof.
  induction fuel as [|fuel IH]; intros a n out Hn Hrej Hacc; [lia|]. cbn.
  destruct n as [|n].
  - rewrite Nat.add_0_r in Hacc. rewrite Hacc. now rewrite Nat.add_0_r.
  - pose proof (Hrej O ltac:(lia)) as H0. rewrite Nat.add_0_r in H0. rewrite H0.
    rewrite (IH (S a) n out); [f_equal; f_equal; lia|lia| |].
    + intros m Hm. replace (S a + m)%nat with (a + S m)%nat by lia. apply Hrej. lia.
    + replace (S a + n)%nat with (a + S n)%nat by lia. exact Hacc.
Qed.

Lemma scan_raise : forall fuel a n e, (n < fuel)%nat ->
  (forall m, (m < n)%nat -> v (a + m) = Reject) -> v (a + n) = Raise e ->
  scan v fuel a = Err e.
Proof.
  induction fuel as [|fuel IH]; intros a n e Hn Hrej Hr; [lia|]. cbn.
  destruct n as [|n].
  - rewrite Nat.add_0_r in Hr. now rewrite Hr.
  - pose proof (Hrej O ltac:(lia)) as H0. rewrite Nat.add_0_r in H0. rewrite H0.
    apply (IH (S a) n e); [lia| |].
    + intros m Hm. replace (S a + m)%nat with (a + S m)%nat by lia. apply Hrej. lia.
    + replace (S a + n)%nat with (a + S n)%nat by lia. exact Hr.
Qed.

Lemma scan_all_rejected : forall fuel a,
  (forall m, (m < fuel)%nat -> v (a + m) = Reject) -> scan v fuel a = Err OutOfFuel.
Proof.
  induction fuel as [|fuel IH]; intros a Hrej; cbn; [reflexivity|].
  pose proof (Hrej O ltac:(lia)) as H0. rewrite Nat.add_0_r in H0. rewrite H0.
  apply IH. intros m Hm. replace (S a + m)%nat with (a + S m)%nat by lia. apply Hrej. lia.
Qed.

Lemma scan_ok_inv : forall fuel a out a', scan v fuel a = Ok (out, a') ->
  exists n, (n < fuel)%nat /\ a' = S (a + n) /\ v (a + n) = Accept out /\
            forall m, (m < n)%nat -> v (a + m) = Reject.
Proof.
  induction fuel as [|fuel IH]; intros a out a' H; cbn in H; [discriminate|].
  destruct (v a) as [o| |e] eqn:Ev; [| |discriminate].
  - injection H as <- <-. exists O. rewrite Nat.add_0_r. repeat split; auto; [lia|]. intros m Hm. lia.
  - apply IH in H. destruct H as (n & Hn & -> & Hacc & Hrej).
    exists (S n). repeat split; [lia|f_equal; lia| |].
    + replace (a + S n)%nat with (S a + n)%nat by lia. exact Hacc.
    + intros m Hm. destruct m as [|m]; [now rewrite Nat.add_0_r|].
      replace (a + S m)%nat with (S a + m)%nat by lia. apply Hrej. lia.
Qed.

Lemma scan_err_inv : forall fuel a e, scan v fuel a = Err e ->
  (exists n, (n < fuel)%nat /\ v (a + n) = Raise e /\ forall m, (m < n)%nat -> v (a + m) = Reject)
  \/ (e = OutOfFuel /\ forall m, (m < fuel)%nat -> v (a + m) = Reject).
Proof.
  induction fuel as [|fuel IH]; intros a e H; cbn in H.
  - injection H as <-. right. split; auto. intros m Hm. lia.
  - destruct (v a) as [o| |e0] eqn:Ev; [discriminate| |].
    + apply IH in H. destruct H as [(n & Hn & Hr & Hrej)|(-> & Hrej)].
      * left. exists (S n). repeat split; [lia| |].
        -- replace (a + S n)%nat with (S a + n)%nat by lia. exact Hr.
        -- intros m Hm. destruct m as [|m]; [now rewrite Nat.add_0_r|].
           replace (a + S m)%nat with (S a + m)%nat by lia. apply Hrej. lia.
      * right. split; auto. intros m Hm. destruct m as [|m]; [now rewrite Nat.add_0_r|].
        replace (a + S m)%nat with (S a + m)%nat by lia. apply Hrej. lia.
    + injection H as <-. left. exists O. rewrite Nat.add_0_r. repeat split; auto; [lia|]. intros m Hm. lia.
Qed.

(** Some attempt below the fuel is accepted and nothing raises before it:
    there is a FIRST accepted attempt, nothing but rejections before it. *)
Lemma first_accept : forall n a out,
  v (a + n) = Accept out -> (forall m, (m < n)%nat -> forall e, v (a + m) <> Raise e) ->
  exists n0 out0, (n0 <= n)%nat /\ v (a + n0) = Accept out0 /\ forall m, (m < n0)%nat -> v (a + m) = Reject.
Proof.
  induction n as [|n IH]; intros a out Hacc Hnr.
  - exists O, out. repeat split; auto. intros m Hm. lia.
  - destruct (v a) as [o| |e] eqn:Ev.
    + exists O, o. rewrite Nat.add_0_r. repeat split; auto; [lia|]. intros m Hm. lia.
    + destruct (IH (S a) out) as (n0 & out0 & Hle & Hacc0 & Hrej).
      * replace (S a + n)%nat with (a + S n)%nat by lia. exact Hacc.
      * intros m Hm. replace (S a + m)%nat with (a + S m)%nat by lia. apply Hnr. lia.
      * exists (S n0), out0. repeat split; [lia| |].
        -- replace (a + S n0)%nat with (S a + n0)%nat by lia. exact Hacc0.
        -- intros m Hm. destruct m as [|m]; [now rewrite Nat.add_0_r|].
           replace (a + S m)%nat with (S a + m)%nat by lia. apply Hrej. lia.
    + exfalso. apply (Hnr O ltac:(lia) e). now rewrite Nat.add_0_r.
Qed.

End Scan.

(** * The model's loop is [scan] over the stream of attempts *)

Section Resample.
Variable gen : string -> nat -> nat -> list input -> val.

Theorem resample_scan : forall T trial fs cs fuel a log,
  drop_log (sample_continuous gen T trial fs cs fuel a log) = scan (attempt gen T trial fs cs) fuel a.
Proof.
  intros T trial fs cs. induction fuel as [|fuel IH]; intros a log; cbn; [reflexivity|].
  rewrite _sample_continuous_log. unfold attempt at 1.
  destruct (_sample_continuous gen T trial fs a []) as [[o l]|e]; cbn; [|reflexivity].
  destruct (check_constraints cs o) as [[|]|e]; cbn; auto.
Qed.

Lemma drop_log_ok : forall r out a', drop_log r = Ok (out, a') -> exists log', r = Ok (out, a', log').
Proof.
  intros [[[o a0] l]|e] out a' H; cbn in H; [|discriminate]. injection H as <- <-. now exists l.
Qed.

Lemma drop_log_err : forall r e, drop_log r = Err e <-> r = Err e.
Proof.
  intros [[[o a0] l]|e0] e; cbn; split; intros H; try discriminate; congruence.
Qed.

(** The loop returns the FIRST accepted attempt. *)
Theorem resample_first : forall T trial fs cs fuel a log n out, (n < fuel)%nat ->
  (forall m, (m < n)%nat -> attempt gen T trial fs cs (a + m) = Reject) ->
  attempt gen T trial fs cs (a + n) = Accept out ->
  exists log', sample_continuous gen T trial fs cs fuel a log = Ok (out, S (a + n), log').
Proof.
  intros T trial fs cs fuel a log n out Hn Hrej Hacc.
  apply drop_log_ok. rewrite resample_scan. now apply scan_first.
Qed.

(** ... and conversely whatever it returns is the first accepted attempt. *)
Theorem resample_ok_inv : forall T trial fs cs fuel a log out a' log',
  sample_continuous gen T trial fs cs fuel a log = Ok (out, a', log') ->
  exists n, (n < fuel)%nat /\ a' = S (a + n) /\ attempt gen T trial fs cs (a + n) = Accept out /\
            forall m, (m < n)%nat -> attempt gen T trial fs cs (a + m) = Reject.
Proof.
  intros T trial fs cs fuel a log out a' log' H.
  apply scan_ok_inv with (fuel := fuel). rewrite <- resample_scan with (log := log). now rewrite H.
Qed.

(** An attempt that raises before any accepted one ends the loop with that exception. *)
Theorem resample_raise : forall T trial fs cs fuel a log n e, (n < fuel)%nat ->
  (forall m, (m < n)%nat -> attempt gen T trial fs cs (a + m) = Reject) ->
  attempt gen T trial fs cs (a + n) = Raise e ->
  sample_continuous gen T trial fs cs fuel a log = Err e.
Proof.
  intros T trial fs cs fuel a log n e Hn Hrej Hr.
  apply drop_log_err. rewrite resample_scan. now apply scan_raise with (n := n).
Qed.

(** Liveness relative to the draws. *)
Theorem resample_live : forall T trial fs cs fuel a log,
  (exists n, (n < fuel)%nat /\ (exists out, attempt gen T trial fs cs (a + n) = Accept out) /\
             forall m, (m < n)%nat -> forall e, attempt gen T trial fs cs (a + m) <> Raise e) ->
  exists n0 out log', (n0 < fuel)%nat /\
    attempt gen T trial fs cs (a + n0) = Accept out /\
    (forall m, (m < n0)%nat -> attempt gen T trial fs cs (a + m) = Reject) /\
    sample_continuous gen T trial fs cs fuel a log = Ok (out, S (a + n0), log').
Proof.
  intros T trial fs cs fuel a log (n & Hn & (out & Hacc) & Hnr).
  destruct (first_accept _ n a out Hacc Hnr) as (n0 & out0 & Hle & Hacc0 & Hrej).
  destruct (resample_first T trial fs cs fuel a log n0 out0 ltac:(lia) Hrej Hacc0) as (log' & H).
  exists n0, out0, log'. repeat split; auto. lia.
Qed.

End Resample.

(** * [OutOfFuel] comes from the fuel only: no attempt produces it *)

Definition err_of {A : Type} (r : res A) : option err := match r with Ok _ => None | Err e => Some e end.
Definition nofuel {A : Type} (r : res A) : Prop := err_of r <> Some OutOfFuel.
Ltac nf := unfold nofuel; cbn; congruence.

Lemma mapM_nofuel : forall (A B : Type) (f : A -> res B) l,
  (forall x, nofuel (f x)) -> nofuel (mapM f l).
Proof.
  intros A B f. induction l as [|x tl IH]; intros Hf; cbn; [nf|].
  pose proof (Hf x) as Hx. destruct (f x) as [y|e]; [|exact Hx].
  pose proof (IH Hf) as Ht. destruct (mapM f tl) as [ys|e]; [nf|exact Ht].
Qed.

Lemma py_index_nofuel : forall l i, nofuel (py_index l i).
Proof.
  intros l i. unfold py_index, nofuel.
  destruct ((_ <? 0) || _); [nf|]. destruct (nth_error l _); nf.
Qed.

Lemma dict_at_nofuel : forall d f j, nofuel (dict_at d f j).
Proof.
  intros d f j. unfold dict_at, getitem. destruct (get d f); [apply py_index_nofuel|nf].
Qed.

Lemma window_factor_nofuel : forall w idx d f, nofuel (window_factor w idx d f).
Proof.
  intros w idx d f. unfold window_factor.
  destruct (idx <? w_start w); [nf|].
  destruct ((1 <? w_stride w) && _); [nf|].
  destruct (idx <? w_width w - 1); apply mapM_nofuel; intros k.
  - destruct (idx - k <? 0); [nf|].
    pose proof (dict_at_nofuel d f (idx - k)) as H. destruct (dict_at d f (idx - k)); [nf|exact H].
  - pose proof (dict_at_nofuel d f (idx - k)) as H. destruct (dict_at d f (idx - k)); [nf|exact H].
Qed.

Lemma get_window_val_nofuel : forall w idx d, nofuel (get_window_val w idx d).
Proof.
  intros w idx d. unfold get_window_val.
  pose proof (mapM_nofuel _ _ (window_factor w idx d) (w_factors w) (window_factor_nofuel w idx d)) as H.
  destruct (mapM (window_factor w idx d) (w_factors w)) as [ol|e]; [|exact H].
  destruct (Nat.ltb (List.length ol) 2); [|nf]. destruct ol; nf.
Qed.

Lemma dep_input_nofuel : forall trial st i d, nofuel (dep_input trial st i d).
Proof.
  intros trial st i [z|n|n|w]; cbn.
  - nf.
  - destruct (get trial n) as [l|]; [|nf].
    pose proof (py_index_nofuel l (Z.of_nat i)) as H. destruct (py_index l (Z.of_nat i)); [nf|exact H].
  - pose proof (dict_at_nofuel st n (Z.of_nat i)) as H. destruct (dict_at st n (Z.of_nat i)); [nf|exact H].
  - apply get_window_val_nofuel.
Qed.

Lemma add_val_nofuel : forall a b, nofuel (add_val a b).
Proof. intros [x| |s] [y| |t]; cbn; nf. Qed.

Section NoFuel.
Variable gen : string -> nat -> nat -> list input -> val.

Lemma sample_trials_nofuel : forall trial f a is sum vs st log,
  nofuel (sample_trials gen trial f a is sum vs st log).
Proof.
  intros trial f a. induction is as [|i rest IH]; intros sum vs st log; cbn; [nf|].
  pose proof (mapM_nofuel _ _ (dep_input trial st i) (cf_deps f) (dep_input_nofuel trial st i)) as Hm.
  destruct (mapM (dep_input trial st i) (cf_deps f)) as [inputs|e]; [|exact Hm].
  destruct (cf_cumulative f).
  - pose proof (add_val_nofuel sum (gen (cf_name f) a i inputs)) as Ha.
    destruct (add_val sum (gen (cf_name f) a i inputs)) as [v|e]; [apply IH|exact Ha].
  - apply IH.
Qed.

Lemma sample_factors_nofuel : forall T trial a fs st log,
  nofuel (sample_factors gen T trial a fs st log).
Proof.
  intros T trial a. induction fs as [|f tl IH]; intros st log; cbn; [nf|].
  pose proof (sample_trials_nofuel trial f a (seq 0 T) (VNum 0) [] (set st (cf_name f) []) log) as H.
  destruct (sample_trials gen trial f a (seq 0 T) (VNum 0) [] (set st (cf_name f) []) log) as [[st1 log1]|e];
    [apply IH|exact H].
Qed.

Lemma check_trials_nofuel : forall out c is, nofuel (check_trials out c is).
Proof.
  intros out c. induction is as [|i rest IH]; cbn; [nf|].
  unfold constraint_inputs.
  pose proof (mapM_nofuel _ _ (fun n => dict_at out n (Z.of_nat i)) (cc_factors c)
                (fun n => dict_at_nofuel out n (Z.of_nat i))) as H.
  destruct (mapM (fun n => dict_at out n (Z.of_nat i)) (cc_factors c)) as [inputs|e]; [|exact H].
  destruct (cc_pred c inputs); [exact IH|nf].
Qed.

Lemma check_each_nofuel : forall out cs, nofuel (check_each out cs).
Proof.
  intros out. induction cs as [|c tl IH]; cbn; [nf|].
  destruct (cc_factors c) as [|n0 ns]; [nf|].
  unfold getitem. destruct (get out n0) as [l0|]; [|nf].
  pose proof (check_trials_nofuel out c (seq 0 (List.length l0))) as H.
  destruct (check_trials out c (seq 0 (List.length l0))) as [[|]|e]; [exact IH|nf|exact H].
Qed.

Lemma attempt_nofuel : forall T trial fs cs a, attempt gen T trial fs cs a <> Raise OutOfFuel.
Proof.
  intros T trial fs cs a. unfold attempt, _sample_continuous.
  pose proof (sample_factors_nofuel T trial a fs [] []) as H.
  destruct (sample_factors gen T trial a fs [] []) as [[out l]|e]; [|intros H1; injection H1 as ->; apply H; reflexivity].
  unfold check_constraints.
  pose proof (check_each_nofuel out (continuous_constraints cs)) as Hc.
  destruct (check_each out (continuous_constraints cs)) as [[|]|e]; try discriminate.
  intros H1; injection H1 as ->; apply Hc; reflexivity.
Qed.

(** The model gives up ([Err OutOfFuel]) exactly when every attempt below
    the fuel was rejected: nothing acceptable was ever discarded. *)
Theorem resample_none : forall T trial fs cs fuel a log,
  sample_continuous gen T trial fs cs fuel a log = Err OutOfFuel <->
  forall m, (m < fuel)%nat -> attempt gen T trial fs cs (a + m) = Reject.
Proof.
  intros T trial fs cs fuel a log. split.
  - intros H. apply drop_log_err in H. rewrite resample_scan in H.
    apply scan_err_inv in H. destruct H as [(n & _ & Hr & _)|(_ & Hrej)]; [|exact Hrej].
    exfalso. eapply attempt_nofuel; eauto.
  - intros Hrej. apply drop_log_err. rewrite resample_scan. now apply scan_all_rejected.
Qed.

(** A rejected attempt really violates a constraint: some predicate is false
    on the sampled values of some trial. *)
Lemma check_trials_false : forall out c is, check_trials out c is = Ok false ->
  exists i, In i is /\ cc_pred c (map (fun n => nth i (getd out n) VNaN) (cc_factors c)) = false.
Proof.
  intros out c. induction is as [|i0 rest IH]; intros H; cbn in H; [discriminate|].
  destruct (constraint_inputs out (cc_factors c) i0) as [inputs|] eqn:E; [|discriminate].
  destruct (cc_pred c inputs) eqn:Ep.
  - destruct (IH H) as (i & Hi & Hp). exists i. split; [right; auto|exact Hp].
  - exists i0. split; [left; auto|].
    rewrite <- (constraint_inputs_char out out _ _ _ (ext_refl out) E). exact Ep.
Qed.

Lemma check_each_false : forall out cs, check_each out cs = Ok false ->
  exists c n0 ns l0 i, In c cs /\ cc_factors c = n0 :: ns /\ get out n0 = Some l0 /\ (i < List.length l0)%nat /\
    cc_pred c (map (fun n => nth i (getd out n) VNaN) (cc_factors c)) = false.
Proof.
  intros out. induction cs as [|c tl IH]; intros H; cbn in H; [discriminate|].
  destruct (cc_factors c) as [|n0 ns] eqn:Ef; [discriminate|].
  unfold getitem in H. destruct (get out n0) as [l0|] eqn:Eg; [|discriminate].
  destruct (check_trials out c (seq 0 (List.length l0))) as [[|]|e] eqn:Et; try discriminate.
  - destruct (IH H) as (c' & n' & ns' & l' & i & Hin & Hf & Hg & Hi & Hp).
    exists c', n', ns', l', i. repeat split; auto. right; auto.
  - apply check_trials_false in Et. destruct Et as (i & Hi & Hp). apply in_seq in Hi.
    exists c, n0, ns, l0, i. rewrite Ef in Hp. repeat split; auto; [left; auto|lia|now rewrite Ef].
Qed.

Theorem reject_sound : forall T trial fs cs a, NoDup (map cf_name fs) ->
  attempt gen T trial fs cs a = Reject ->
  exists out log c i, _sample_continuous gen T trial fs a [] = Ok (out, log) /\
    In c (continuous_constraints cs) /\ (i < T)%nat /\
    cc_pred c (map (fun n => nth i (getd out n) VNaN) (cc_factors c)) = false.
Proof.
  intros T trial fs cs a Hnd H. unfold attempt in H.
  destruct (_sample_continuous gen T trial fs a []) as [[out l]|e] eqn:Es; [|discriminate].
  destruct (check_constraints cs out) as [[|]|e] eqn:Ec; try discriminate.
  unfold check_constraints in Ec. apply check_each_false in Ec.
  destruct Ec as (c & n0 & ns & l0 & i & Hin & Hf & Hg & Hi & Hp).
  exists out, l, c, i. repeat split; auto.
  apply _sample_continuous_inv in Es; auto. destruct Es as (Hkeys & Hall & _).
  apply get_Some_in in Hg as Hk. apply Hkeys in Hk. apply in_map_iff in Hk.
  destruct Hk as (f & Hfn & Hfin). destruct (Hall f Hfin) as (vs & Hgv & Hlen).
  rewrite Hfn in Hgv. congruence.
Qed.

End NoFuel.

(** * Designs on which no attempt raises *)

(** The dependents of [f] can be read when [f] is sampled after the factors
    [pre]: discrete ones are columns of the sampled trials, continuous ones
    (directly or inside a non-empty window) are EARLIER factors of the design. *)
Definition dep_available (T : nat) (trial : dict) (pre : list cfactor) (d : dependent) : Prop :=
  match d with
  | DNum _ => True
  | DDisc n => exists l, get trial n = Some l /\ (T <= List.length l)%nat
  | DCont n => In n (map cf_name pre)
  | DWin w => w_factors w <> [] /\ forall g, In g (w_factors w) -> In g (map cf_name pre)
  end.

Definition well_ordered (T : nat) (trial : dict) (fs : list cfactor) : Prop :=
  forall pre f post d, fs = pre ++ f :: post -> In d (cf_deps f) -> dep_available T trial pre d.

(** ContinuousConstraints name at least one factor, all of them continuous factors of the design. *)
Definition constraints_wf (fs : list cfactor) (cs : list bconstraint) : Prop :=
  forall c, In c (continuous_constraints cs) ->
    cc_factors c <> [] /\ forall n, In n (cc_factors c) -> In n (map cf_name fs).

Lemma mapM_exists : forall (A B : Type) (f : A -> res B) l,
  (forall x, In x l -> exists y, f x = Ok y) -> exists ys, mapM f l = Ok ys.
Proof.
  intros A B f. induction l as [|x tl IH]; intros H; cbn; [eexists; reflexivity|].
  destruct (H x (or_introl eq_refl)) as (y & ->).
  destruct IH as (ys & ->); [intros; apply H; right; auto|]. eexists; reflexivity.
Qed.

Section Total.
Variable gen : string -> nat -> nat -> list input -> val.

(** every factor of [pre] has its [T] values in [st] *)
Definition filled (T : nat) (pre : list cfactor) (st : dict) : Prop :=
  forall n, In n (map cf_name pre) -> exists l, get st n = Some l /\ List.length l = T.

Lemma dep_input_total : forall T trial pre st i d, filled T pre st -> (i < T)%nat ->
  dep_available T trial pre d -> exists x, dep_input trial st i d = Ok x.
Proof.
  intros T trial pre st i d Hfill Hi Hav. destruct d as [z|n|n|w]; cbn in *.
  - eexists; reflexivity.
  - destruct Hav as (l & -> & Hl).
    destruct (nth_error l i) as [v|] eqn:E; [|apply nth_error_None in E; lia].
    rewrite (nth_error_py_index l (Z.of_nat i) v); [eexists; reflexivity|lia|now rewrite Nat2Z.id].
  - destruct (Hfill n Hav) as (l & Hg & Hl).
    destruct (nth_error l i) as [v|] eqn:E; [|apply nth_error_None in E; lia].
    rewrite (dict_at_intro st n (Z.of_nat i) v l); [eexists; reflexivity|lia|auto|now rewrite Nat2Z.id].
  - destruct Hav as (Hne & Hin). unfold get_window_val.
    destruct (mapM_exists _ _ (window_factor w (Z.of_nat i) st) (w_factors w)) as (ol & Hol).
    { intros g Hg. destruct (Hfill g (Hin g Hg)) as (l & Hgl & Hl).
      eexists. apply window_factor_total with (l := l); auto; lia. }
    rewrite Hol.
    assert (Hlen : List.length ol = List.length (w_factors w)).
    { clear -Hol. revert ol Hol. induction (w_factors w) as [|g tl IH]; intros ol H; cbn in H.
      - now injection H as <-.
      - destruct (window_factor w (Z.of_nat i) st g); [|discriminate].
        destruct (mapM (window_factor w (Z.of_nat i) st) tl) as [ys|]; [|discriminate].
        injection H as <-. cbn. f_equal. now apply IH. }
    destruct ol as [|x ol']; [destruct (w_factors w); [congruence|discriminate]|].
    destruct (Nat.ltb (List.length (x :: ol')) 2); eexists; reflexivity.
Qed.

Lemma add_val_total : forall s r, (forall t, s <> VStr t) -> (forall t, r <> VStr t) ->
  exists v, add_val s r = Ok v /\ forall t, v <> VStr t.
Proof.
  intros [x| |t0] [y| |t1] Hs Hr; cbn; try (exfalso; eapply Hs; reflexivity); try (exfalso; eapply Hr; reflexivity);
    eexists; (split; [reflexivity|intros t; discriminate]).
Qed.

Lemma sample_trials_total : forall T trial pre f a,
  ~ In (cf_name f) (map cf_name pre) ->
  (forall d, In d (cf_deps f) -> dep_available T trial pre d) ->
  (cf_cumulative f = true -> forall a i inp t, gen (cf_name f) a i inp <> VStr t) ->
  forall is sum vs st log, (forall i, In i is -> (i < T)%nat) -> filled T pre st ->
  (forall t, sum <> VStr t) ->
  exists st' log', sample_trials gen trial f a is sum vs st log = Ok (st', log').
Proof.
  intros T trial pre f a Hnotin Hav Hgen.
  induction is as [|i rest IH]; intros sum vs st log His Hfill Hsum; cbn; [eexists; eexists; reflexivity|].
  destruct (mapM_exists _ _ (dep_input trial st i) (cf_deps f)) as (inputs & ->).
  { intros d Hd. eapply dep_input_total; eauto. apply His. left; auto. }
  assert (Hfill' : forall l, filled T pre (set st (cf_name f) l)).
  { intros l n Hn. rewrite get_set_other; [apply Hfill; auto|]. intros ->. tauto. }
  destruct (cf_cumulative f) eqn:Ec.
  - destruct (add_val_total sum (gen (cf_name f) a i inputs) Hsum (Hgen eq_refl a i inputs)) as (v & -> & Hv).
    apply IH; auto. intros j Hj. apply His. right; auto.
  - apply IH; auto. intros j Hj. apply His. right; auto.
Qed.

Lemma sample_factors_total : forall T trial a fs pre st log,
  NoDup (map cf_name (pre ++ fs)) ->
  (forall pre' f post d, fs = pre' ++ f :: post -> In d (cf_deps f) -> dep_available T trial (pre ++ pre') d) ->
  (forall f, In f fs -> cf_cumulative f = true -> forall a i inp t, gen (cf_name f) a i inp <> VStr t) ->
  filled T pre st ->
  exists st' log', sample_factors gen T trial a fs st log = Ok (st', log').
Proof.
  intros T trial a. induction fs as [|f tl IH]; intros pre st log Hnd Hav Hgen Hfill; cbn;
    [eexists; eexists; reflexivity|].
  assert (Hnotin : ~ In (cf_name f) (map cf_name pre)).
  { rewrite map_app in Hnd. cbn in Hnd. apply NoDup_remove_2 in Hnd. rewrite in_app_iff in Hnd. tauto. }
  assert (Hfill0 : filled T pre (set st (cf_name f) [])).
  { intros n Hn. rewrite get_set_other; [apply Hfill; auto|]. intros ->. tauto. }
  destruct (sample_trials_total T trial pre f a Hnotin) with (is := seq 0 T) (sum := VNum 0)
    (vs := @nil val) (st := set st (cf_name f) []) (log := log) as (st1 & log1 & E1); auto.
  { intros d Hd. specialize (Hav [] f tl d eq_refl Hd). now rewrite app_nil_r in Hav. }
  { intros Hc. apply Hgen; auto. left; auto. }
  { intros i Hi. apply in_seq in Hi. lia. }
  { intros t; discriminate. }
  rewrite E1.
  change 0%nat with (@List.length val []) in E1.
  apply sample_trials_inv in E1; [|apply get_set_same|reflexivity].
  destruct E1 as (new & Hlen & Hg1 & Hoth1 & _). cbn [app] in Hg1.
  apply (IH (pre ++ [f])).
  - now rewrite <- app_assoc.
  - intros pre' g post d Heq Hd. rewrite <- app_assoc. cbn. apply (Hav (f :: pre') g post d); auto.
    cbn. now rewrite Heq.
  - intros g Hg. apply Hgen. right; auto.
  - intros n Hn. rewrite map_app, in_app_iff in Hn. cbn in Hn.
    destruct (string_dec n (cf_name f)) as [->|Hne].
    + exists new. split; auto.
    + rewrite Hoth1 by auto. apply Hfill0. destruct Hn as [Hn|[Hn|[]]]; [auto|congruence].
Qed.

(** On a well-ordered design [_sample_continuous] does not raise (for
    cumulative distributions: as long as the function returns no string). *)
Theorem sample_total : forall T trial fs a log,
  NoDup (map cf_name fs) -> well_ordered T trial fs ->
  (forall f, In f fs -> cf_cumulative f = true -> forall a i inp t, gen (cf_name f) a i inp <> VStr t) ->
  exists out log', _sample_continuous gen T trial fs a log = Ok (out, log').
Proof.
  intros T trial fs a log Hnd Hwo Hgen. unfold _sample_continuous.
  apply (sample_factors_total T trial a fs [] [] log); auto.
  intros n [].
Qed.

Lemma check_trials_total : forall T out c is,
  (forall n, In n (cc_factors c) -> exists l, get out n = Some l /\ List.length l = T) ->
  (forall i, In i is -> (i < T)%nat) -> exists b, check_trials out c is = Ok b.
Proof.
  intros T out c. induction is as [|i rest IH]; intros Hf His; cbn; [eexists; reflexivity|].
  unfold constraint_inputs.
  destruct (mapM_exists _ _ (fun n => dict_at out n (Z.of_nat i)) (cc_factors c)) as (inputs & ->).
  { intros n Hn. destruct (Hf n Hn) as (l & Hg & Hl).
    assert (Hi : (i < T)%nat) by (apply His; left; auto).
    destruct (nth_error l i) as [v|] eqn:E; [|apply nth_error_None in E; lia].
    exists v. apply dict_at_intro with (l := l); auto; [lia|now rewrite Nat2Z.id]. }
  destruct (cc_pred c inputs); [|eexists; reflexivity].
  apply IH; auto. intros j Hj. apply His. right; auto.
Qed.

Lemma check_each_total : forall T out cs,
  (forall c, In c cs -> cc_factors c <> [] /\
     forall n, In n (cc_factors c) -> exists l, get out n = Some l /\ List.length l = T) ->
  exists b, check_each out cs = Ok b.
Proof.
  intros T out. induction cs as [|c tl IH]; intros H; cbn; [eexists; reflexivity|].
  destruct (H c (or_introl eq_refl)) as (Hne & Hf).
  destruct (cc_factors c) as [|n0 ns] eqn:Ef; [congruence|].
  destruct (Hf n0 (or_introl eq_refl)) as (l0 & Hg & Hl). unfold getitem. rewrite Hg.
  destruct (check_trials_total T out c (seq 0 (List.length l0))) as (b & Hb).
  { rewrite Ef. exact Hf. }
  { intros i Hi. apply in_seq in Hi. lia. }
  rewrite Hb. destruct b; [|eexists; reflexivity].
  apply IH. intros c' Hc'. apply H. right; auto.
Qed.

(** On a well-ordered design with well-formed constraints every attempt is
    either accepted or rejected. *)
Theorem attempt_total : forall T trial fs cs a,
  NoDup (map cf_name fs) -> well_ordered T trial fs -> constraints_wf fs cs ->
  (forall f, In f fs -> cf_cumulative f = true -> forall a i inp t, gen (cf_name f) a i inp <> VStr t) ->
  forall e, attempt gen T trial fs cs a <> Raise e.
Proof.
  intros T trial fs cs a Hnd Hwo Hcw Hgen e. unfold attempt.
  destruct (sample_total T trial fs a [] Hnd Hwo Hgen) as (out & l & Es). rewrite Es.
  apply _sample_continuous_inv in Es; auto. destruct Es as (_ & Hall & _).
  destruct (check_each_total T out (continuous_constraints cs)) as (b & Hb).
  { intros c Hc. destruct (Hcw c Hc) as (Hne & Hin). split; auto.
    intros n Hn. apply Hin in Hn. apply in_map_iff in Hn. destruct Hn as (f & <- & Hf). now apply Hall. }
  unfold check_constraints. rewrite Hb. destruct b; discriminate.
Qed.

(** Liveness on such designs: if some attempt below the fuel is acceptable the
    loop returns, and it returns the first acceptable one. *)
Theorem resample_live_wf : forall T trial fs cs fuel a log,
  NoDup (map cf_name fs) -> well_ordered T trial fs -> constraints_wf fs cs ->
  (forall f, In f fs -> cf_cumulative f = true -> forall a i inp t, gen (cf_name f) a i inp <> VStr t) ->
  (exists n out, (n < fuel)%nat /\ attempt gen T trial fs cs (a + n) = Accept out) ->
  exists n0 out log', (n0 < fuel)%nat /\
    attempt gen T trial fs cs (a + n0) = Accept out /\
    (forall m, (m < n0)%nat -> attempt gen T trial fs cs (a + m) = Reject) /\
    sample_continuous gen T trial fs cs fuel a log = Ok (out, S (a + n0), log').
Proof.
  intros T trial fs cs fuel a log Hnd Hwo Hcw Hgen (n & out & Hn & Hacc).
  apply resample_live. exists n. repeat split; eauto.
  intros m _ e. now apply attempt_total.
Qed.

(** The whole of [synthesize_trials]' continuous part returns when, for every
    sampled sequence, every run of [fuel] consecutive attempts holds an
    accepted one with no raising attempt before it. *)
Theorem synth_live : forall T fs cs fuel trialss,
  (forall tr a0, In tr trialss ->
     exists n, (n < fuel)%nat /\ (exists out, attempt gen T tr fs cs (a0 + n) = Accept out) /\
               forall m, (m < n)%nat -> forall e, attempt gen T tr fs cs (a0 + m) <> Raise e) ->
  exists res log, synthesize_post gen T fs cs fuel trialss = Ok (res, log).
Proof.
  intros T fs cs fuel trialss H. unfold synthesize_post.
  destruct fs as [|f0 fs'] eqn:Efs; [eexists; eexists; reflexivity|]. rewrite <- Efs in *. clear Efs f0 fs'.
  generalize (@nil call) as log. generalize O as a.
  induction trialss as [|tr rest IH]; intros a log; cbn; [eexists; eexists; reflexivity|].
  destruct (resample_live gen T tr fs cs fuel a log (H tr a (or_introl eq_refl)))
    as (n0 & out & log' & _ & _ & _ & ->).
  destruct (IH (fun tr' a0 Hin => H tr' a0 (or_intror Hin)) (S (a + n0)) log') as (ms & log'' & ->).
  eexists; eexists; reflexivity.
Qed.

End Total.
