(** Proofs about Out/Continuous.v (property C22, safety part).

    The specification side (written from docs/_source/api/derivations.rst,
    distributions.rst, constraints.rst and the guide, not from the code):
    [skipped], [doc_window], [doc_dep_input], [value_spec].

    Every theorem here is of the form "if the model returns, then ...".
    Liveness of the resample loop relative to the stream of draws is in
    Out/ContinuousLive.v, the exact reading of [__check_dependency] (and the
    designs on which sampling cannot raise) in Out/ContinuousDeps.v. *)
From Coq Require Import ZArith List Bool String Lia ZifyBool.
From SP Require Import Out.Continuous.
Import ListNotations.
Open Scope Z_scope.

(** * Specification *)

(** [d.get(k, [])] *)
Definition getd (d : dict) (k : string) : list val :=
  match get d k with Some l => l | None => [] end.

(** The window is not defined at trial [idx]: before [start], or skipped by
    the stride. *)
Definition skipped (w : cwindow) (idx : Z) : bool :=
  (idx <? w_start w) || ((1 <? w_stride w) && negb ((idx - w_start w) mod (w_stride w) =? 0)).

(** Entry [-k] of a defined window: the value [k] trials before [idx] of the
    same sequence, NaN before the first trial. *)
Definition win_entry (l : list val) (idx k : Z) : val :=
  if idx - k <? 0 then VNaN else nth (Z.to_nat (idx - k)) l VNaN.

(** The documented window of a factor whose values over the sequence are [l]. *)
Definition doc_window (w : cwindow) (idx : Z) (l : list val) : wdict :=
  map (fun k => (- k, if skipped w idx then VNaN else win_entry l idx k)) (py_range (w_width w)).

(** The documented argument for one dependent at trial [i]: discrete factors
    are read from the trial sequence [trial], continuous ones (directly or
    through a window) from the sequence [m] itself. *)
Definition doc_dep_input (trial m : dict) (i : nat) (d : dependent) : input :=
  match d with
  | DNum z => IVal (VNum z)
  | DDisc n => IVal (nth i (getd trial n) VNaN)
  | DCont n => IVal (nth i (getd m n) VNaN)
  | DWin w =>
    match map (fun f => doc_window w (Z.of_nat i) (getd m f)) (w_factors w) with
    | [x] => IWin x
    | xs => IWins xs
    end
  end.

(** The running sum before trial [i] (cumulative mode; reset to 0 per factor
    and per sampling attempt). *)
Definition prev_sum (vs : list val) (i : nat) : val :=
  match i with O => VNum 0 | S j => nth j vs VNaN end.

Section Spec.
Variable gen : string -> nat -> nat -> list input -> val.

Definition value_spec_l (trial m : dict) (a : nat) (f : cfactor) (i : nat) (l : list val) : Prop :=
  let r := gen (cf_name f) a i (map (doc_dep_input trial m i) (cf_deps f)) in
  if cf_cumulative f then add_val (prev_sum l i) r = Ok (nth i l VNaN)
  else nth i l VNaN = r.

(** The value of factor [f] at trial [i] of the sequence [m] is what its
    distribution function returned in attempt [a] for the documented inputs of
    the same sequence (added to the running sum in cumulative mode). *)
Definition value_spec (trial m : dict) (a : nat) (f : cfactor) (i : nat) : Prop :=
  value_spec_l trial m a f i (getd m (cf_name f)).

(** What C22 demands of one returned experiment [m] (sampler output [tr]). *)
Definition experiment_ok (T : nat) (fs : list cfactor) (cs : list bconstraint)
           (tr : dict) (ma : dict * nat) : Prop :=
  let m := fst ma in
  exists att, snd ma = S att /\
    (forall f, In f fs -> exists vs, get m (cf_name f) = Some vs /\ List.length vs = T) /\
    (forall c, In c (continuous_constraints cs) -> forall i, (i < T)%nat ->
       cc_pred c (map (fun n => nth i (getd m n) VNaN) (cc_factors c)) = true) /\
    (forall f, In f fs -> forall i, (i < T)%nat -> value_spec tr m att f i).
End Spec.

(** * Dicts *)

Lemma get_set_same : forall d k v, get (set d k v) k = Some v.
Proof.
  induction d as [|[k' v'] tl IH]; intros k v; cbn.
  - now rewrite String.eqb_refl.
  - destruct (String.eqb k k') eqn:E; cbn; rewrite E; auto.
Qed.

Lemma get_set_other : forall d k v k', k' <> k -> get (set d k v) k' = get d k'.
Proof.
  induction d as [|[k0 v0] tl IH]; intros k v k' Hne; cbn.
  - apply String.eqb_neq in Hne. now rewrite Hne.
  - destruct (String.eqb k k0) eqn:E; cbn.
    + apply String.eqb_eq in E. subst k0.
      apply String.eqb_neq in Hne. now rewrite Hne.
    + destruct (String.eqb k' k0); auto.
Qed.

Lemma get_None_iff : forall d k, get d k = None <-> ~ In k (map fst d).
Proof.
  induction d as [|[k0 v0] tl IH]; intros k; cbn.
  - tauto.
  - destruct (String.eqb k k0) eqn:E.
    + apply String.eqb_eq in E. subst. split; [discriminate | intros H; exfalso; apply H; auto].
    + apply String.eqb_neq in E. rewrite IH. split; intros H.
      * intros [H1|H1]; [congruence | tauto].
      * intros H1. apply H. auto.
Qed.

Lemma get_Some_in : forall d k l, get d k = Some l -> In k (map fst d).
Proof.
  intros d k l H. destruct (in_dec string_dec k (map fst d)) as [Hi|Hn]; auto.
  apply get_None_iff in Hn. congruence.
Qed.

Lemma keys_set_in : forall d k v, get d k <> None -> map fst (set d k v) = map fst d.
Proof.
  induction d as [|[k0 v0] tl IH]; intros k v H; cbn in *.
  - congruence.
  - destruct (String.eqb k k0) eqn:E; cbn; auto. f_equal. auto.
Qed.

Lemma set_absent : forall d k v, get d k = None -> set d k v = d ++ [(k, v)].
Proof.
  induction d as [|[k0 v0] tl IH]; intros k v H; cbn in *; auto.
  destruct (String.eqb k k0) eqn:E; [discriminate|]. f_equal. auto.
Qed.

Lemma keys_set_absent : forall d k v, get d k = None -> map fst (set d k v) = map fst d ++ [k].
Proof. intros. rewrite set_absent by auto. now rewrite map_app. Qed.

(** * Python indexing *)

Lemma py_index_nonneg : forall l j v, 0 <= j ->
  py_index l j = Ok v -> nth_error l (Z.to_nat j) = Some v.
Proof.
  intros l j v Hj. unfold py_index.
  destruct (j <? 0) eqn:E; [lia|].
  destruct ((j <? 0) || (Z.of_nat (List.length l) <=? j)); [discriminate|].
  destruct (nth_error l (Z.to_nat j)); congruence.
Qed.

Lemma nth_error_py_index : forall l j v, 0 <= j ->
  nth_error l (Z.to_nat j) = Some v -> py_index l j = Ok v.
Proof.
  intros l j v Hj H. unfold py_index.
  assert (Hlt : (Z.to_nat j < List.length l)%nat) by (apply nth_error_Some; congruence).
  destruct (j <? 0) eqn:E; [lia|].
  destruct ((j <? 0) || (Z.of_nat (List.length l) <=? j)) eqn:E2; [lia|].
  now rewrite H.
Qed.

Lemma nth_error_nth_nan : forall (l : list val) n v, nth_error l n = Some v -> nth n l VNaN = v.
Proof. intros. now apply nth_error_nth. Qed.

Lemma dict_at_inv : forall d f j v, 0 <= j -> dict_at d f j = Ok v ->
  exists l, get d f = Some l /\ nth_error l (Z.to_nat j) = Some v.
Proof.
  intros d f j v Hj H. unfold dict_at, getitem in H.
  destruct (get d f) as [l|] eqn:E; [|discriminate].
  exists l. split; auto. now apply py_index_nonneg.
Qed.

Lemma dict_at_intro : forall d f j v l, 0 <= j -> get d f = Some l ->
  nth_error l (Z.to_nat j) = Some v -> dict_at d f j = Ok v.
Proof.
  intros. unfold dict_at, getitem. rewrite H0. now apply nth_error_py_index.
Qed.

Lemma dict_at_nth : forall d f j v, 0 <= j -> dict_at d f j = Ok v ->
  nth (Z.to_nat j) (getd d f) VNaN = v.
Proof.
  intros d f j v Hj H. destruct (dict_at_inv _ _ _ _ Hj H) as (l & Hg & Hn).
  unfold getd. rewrite Hg. now apply nth_error_nth_nan.
Qed.

(** * Extension of a dict: successful lookups at non-negative indices persist *)

Definition ext (d d' : dict) : Prop :=
  forall f j v, 0 <= j -> dict_at d f j = Ok v -> dict_at d' f j = Ok v.

Lemma ext_refl : forall d, ext d d.
Proof. intros d f j v _ H. exact H. Qed.

Lemma ext_trans : forall a b c, ext a b -> ext b c -> ext a c.
Proof. intros a b c H1 H2 f j v Hj H. apply H2; auto. Qed.

Lemma ext_set_new : forall d k l, get d k = None -> ext d (set d k l).
Proof.
  intros d k l Hn f j v Hj H.
  destruct (dict_at_inv _ _ _ _ Hj H) as (l0 & Hg & Hnth).
  assert (f <> k) by congruence.
  apply dict_at_intro with (l := l0); auto. now rewrite get_set_other.
Qed.

Lemma ext_set_app : forall d k vs l, get d k = Some vs -> ext d (set d k (vs ++ l)).
Proof.
  intros d k vs l Hs f j v Hj H.
  destruct (dict_at_inv _ _ _ _ Hj H) as (l0 & Hg & Hnth).
  destruct (string_dec f k) as [->|Hne].
  - rewrite Hs in Hg. injection Hg as <-.
    apply dict_at_intro with (l := vs ++ l); auto; [apply get_set_same|].
    rewrite nth_error_app1; auto. apply nth_error_Some. congruence.
  - apply dict_at_intro with (l := l0); auto. now rewrite get_set_other.
Qed.

Lemma ext_nth : forall d m k l j, ext d m -> get d k = Some l -> (j < List.length l)%nat ->
  nth j (getd m k) VNaN = nth j l VNaN.
Proof.
  intros d m k l j He Hg Hj.
  destruct (nth_error l j) as [v|] eqn:E; [|apply nth_error_None in E; lia].
  assert (H : dict_at d k (Z.of_nat j) = Ok v).
  { apply dict_at_intro with (l := l); auto; [lia|]. now rewrite Nat2Z.id. }
  apply He in H; [|lia]. apply dict_at_nth in H; [|lia].
  rewrite Nat2Z.id in H. rewrite H. symmetry. now apply nth_error_nth_nan.
Qed.

(** * mapM *)

Lemma mapM_ok_mono : forall (A B : Type) (f g : A -> res B) l ys,
  (forall x y, In x l -> f x = Ok y -> g x = Ok y) ->
  mapM f l = Ok ys -> mapM g l = Ok ys.
Proof.
  intros A B f g. induction l as [|x tl IH]; intros ys Hfg H; cbn in *; auto.
  destruct (f x) as [y|] eqn:E; [|discriminate].
  rewrite (Hfg x y (or_introl eq_refl) E).
  destruct (mapM f tl) as [ys'|] eqn:E2; [|discriminate].
  rewrite (IH ys'); auto.
Qed.

Lemma mapM_ok_map : forall (A B : Type) (f : A -> res B) (h : A -> B) l ys,
  (forall x y, In x l -> f x = Ok y -> y = h x) ->
  mapM f l = Ok ys -> ys = map h l.
Proof.
  intros A B f h. induction l as [|x tl IH]; intros ys Hfh H; cbn in *.
  - congruence.
  - destruct (f x) as [y|] eqn:E; [|discriminate].
    destruct (mapM f tl) as [ys'|] eqn:E2; [|discriminate].
    injection H as <-. f_equal; auto.
Qed.

Lemma mapM_total : forall (A B : Type) (f : A -> res B) (h : A -> B) l,
  (forall x, In x l -> f x = Ok (h x)) -> mapM f l = Ok (map h l).
Proof.
  intros A B f h. induction l as [|x tl IH]; intros H; cbn; auto.
  rewrite H by (left; auto). rewrite IH; auto. intros; apply H; right; auto.
Qed.

Lemma mapM_ext_in : forall (A B : Type) (f g : A -> res B) l,
  (forall x, In x l -> f x = g x) -> mapM f l = mapM g l.
Proof.
  intros A B f g. induction l as [|x tl IH]; intros H; cbn; auto.
  rewrite H by (left; auto). rewrite IH; auto. intros; apply H; right; auto.
Qed.

(** * Windows *)

Lemma in_py_range : forall n k, In k (py_range n) <-> 0 <= k < n.
Proof.
  intros n k. unfold py_range. rewrite in_map_iff. split.
  - intros (i & <- & Hi). apply in_seq in Hi. lia.
  - intros H. exists (Z.to_nat k). split; [lia|]. apply in_seq. lia.
Qed.

Lemma skipped_true_iff : forall w idx,
  skipped w idx = true <->
  idx < w_start w \/ (1 < w_stride w /\ (idx - w_start w) mod (w_stride w) <> 0).
Proof. intros. unfold skipped. lia. Qed.

Lemma window_factor_skipped : forall w idx d f,
  skipped w idx = true -> window_factor w idx d f = Ok (return_nan w).
Proof.
  intros w idx d f H. unfold skipped in H. unfold window_factor.
  destruct (idx <? w_start w); auto. cbn in H. now rewrite H.
Qed.

Lemma doc_window_skipped : forall w idx l,
  skipped w idx = true -> doc_window w idx l = return_nan w.
Proof. intros w idx l H. unfold doc_window, return_nan. now rewrite H. Qed.

Lemma window_factor_unskipped : forall w idx d f,
  skipped w idx = false ->
  window_factor w idx d f =
  mapM (fun k => if idx - k <? 0 then Ok (- k, VNaN)
                 else match dict_at d f (idx - k) with
                      | Err e => Err e
                      | Ok v => Ok (- k, v)
                      end) (py_range (w_width w)).
Proof.
  intros w idx d f H. unfold skipped in H. unfold window_factor.
  destruct (idx <? w_start w) eqn:E1; [discriminate|]. cbn in H. rewrite H.
  destruct (idx <? w_width w - 1) eqn:E2; auto.
  (* the last branch never meets a negative index *)
  apply mapM_ext_in. intros k Hk. apply in_py_range in Hk.
  destruct (idx - k <? 0) eqn:E3; [lia|]. reflexivity.
Qed.

(** Whenever the window of one factor is returned it is the documented window
    of that factor's current values. *)
Lemma window_factor_char : forall w idx d f x, 0 <= idx ->
  window_factor w idx d f = Ok x -> x = doc_window w idx (getd d f).
Proof.
  intros w idx d f x Hidx H. destruct (skipped w idx) eqn:Es.
  - rewrite window_factor_skipped in H by auto. rewrite doc_window_skipped by auto. congruence.
  - rewrite window_factor_unskipped in H by auto. unfold doc_window. rewrite Es.
    eapply mapM_ok_map; [|exact H]. cbn beta. intros k y Hk Hy. apply in_py_range in Hk.
    unfold win_entry. destruct (idx - k <? 0) eqn:E; [congruence|].
    destruct (dict_at d f (idx - k)) as [v|] eqn:E2; [|discriminate].
    apply dict_at_nth in E2; [|lia]. congruence.
Qed.

Lemma window_factor_mono : forall w idx d d' f x, 0 <= idx -> ext d d' ->
  window_factor w idx d f = Ok x -> window_factor w idx d' f = Ok x.
Proof.
  intros w idx d d' f x Hidx He H. destruct (skipped w idx) eqn:Es.
  - rewrite window_factor_skipped in * by auto. exact H.
  - rewrite window_factor_unskipped in * by auto.
    eapply mapM_ok_mono; [|exact H]. cbn beta. intros k y Hk Hy. apply in_py_range in Hk.
    destruct (idx - k <? 0) eqn:E; [exact Hy|].
    destruct (dict_at d f (idx - k)) as [v|] eqn:E2; [|discriminate].
    assert (Hj : 0 <= idx - k) by lia.
    rewrite (He _ _ _ Hj E2). exact Hy.
Qed.

(** When the factor has a value at trial [idx], the window is returned. *)
Lemma window_factor_total : forall w idx d f l, 0 <= idx ->
  get d f = Some l -> idx < Z.of_nat (List.length l) ->
  window_factor w idx d f = Ok (doc_window w idx l).
Proof.
  intros w idx d f l Hidx Hg Hlt. destruct (skipped w idx) eqn:Es.
  - rewrite window_factor_skipped, doc_window_skipped by auto. reflexivity.
  - rewrite window_factor_unskipped by auto. unfold doc_window. rewrite Es.
    apply mapM_total. intros k Hk. apply in_py_range in Hk.
    unfold win_entry. destruct (idx - k <? 0) eqn:E; auto.
    assert (Hn : (Z.to_nat (idx - k) < List.length l)%nat) by lia.
    destruct (nth_error l (Z.to_nat (idx - k))) as [v|] eqn:E2; [|apply nth_error_None in E2; lia].
    rewrite (dict_at_intro d f (idx - k) v l) by (auto; lia).
    now rewrite (nth_error_nth_nan _ _ _ E2).
Qed.

Lemma doc_window_length : forall w idx l, List.length (doc_window w idx l) = Z.to_nat (w_width w).
Proof. intros. unfold doc_window, py_range. now rewrite !map_length, seq_length. Qed.

Lemma doc_window_nth : forall w idx l k, 0 <= k < w_width w ->
  nth_error (doc_window w idx l) (Z.to_nat k)
  = Some (- k, if skipped w idx then VNaN else win_entry l idx k).
Proof.
  intros w idx l k Hk. unfold doc_window, py_range. rewrite map_map.
  rewrite nth_error_map.
  assert (Hs : nth_error (seq 0 (Z.to_nat (w_width w))) (Z.to_nat k) = Some (Z.to_nat k)).
  { rewrite (List.nth_error_nth' _ O) by (rewrite seq_length; lia). now rewrite seq_nth by lia. }
  rewrite Hs. cbn. now rewrite Z2Nat.id by lia.
Qed.

(** A defined window holds no NaN of its own iff it does not reach before trial 0. *)
Lemma partial_iff : forall w idx, 0 <= idx ->
  (exists k, 0 <= k < w_width w /\ idx - k < 0) <-> idx < w_width w - 1.
Proof.
  intros w idx Hidx. split.
  - intros (k & Hk & Hn). lia.
  - intros H. exists (w_width w - 1). lia.
Qed.

Lemma get_window_val_char : forall w i d x,
  get_window_val w (Z.of_nat i) d = Ok x -> x = doc_dep_input [] d i (DWin w).
Proof.
  intros w i d x H. unfold get_window_val in H. cbn.
  destruct (mapM (window_factor w (Z.of_nat i) d) (w_factors w)) as [outlist|] eqn:E; [|discriminate].
  assert (Ho : outlist = map (fun f => doc_window w (Z.of_nat i) (getd d f)) (w_factors w)).
  { eapply mapM_ok_map; [|exact E]. intros f y _ Hy. eapply window_factor_char; eauto. lia. }
  rewrite <- Ho. destruct outlist as [|a [|b tl]]; cbn in H; congruence.
Qed.

Lemma get_window_val_mono : forall w i d d' x, ext d d' ->
  get_window_val w (Z.of_nat i) d = Ok x -> get_window_val w (Z.of_nat i) d' = Ok x.
Proof.
  intros w i d d' x He H. unfold get_window_val in *.
  destruct (mapM (window_factor w (Z.of_nat i) d) (w_factors w)) as [outlist|] eqn:E; [|discriminate].
  erewrite mapM_ok_mono; [exact H| |exact E].
  intros f y _ Hy. eapply window_factor_mono; eauto. lia.
Qed.

(** * Arguments of the distribution function *)

Section Sampling.
Variable gen : string -> nat -> nat -> list input -> val.

Lemma dep_input_char : forall trial d i dep x,
  dep_input trial d i dep = Ok x -> x = doc_dep_input trial d i dep.
Proof.
  intros trial d i dep x H. destruct dep as [z|n|n|w]; cbn in H.
  - cbn. congruence.
  - cbn. unfold getd. destruct (get trial n) as [l|]; [|discriminate].
    destruct (py_index l (Z.of_nat i)) as [v|] eqn:E; [|discriminate].
    apply py_index_nonneg in E; [|lia]. rewrite Nat2Z.id in E.
    rewrite (nth_error_nth_nan _ _ _ E). congruence.
  - cbn. destruct (dict_at d n (Z.of_nat i)) as [v|] eqn:E; [|discriminate].
    apply dict_at_nth in E; [|lia]. rewrite Nat2Z.id in E. congruence.
  - apply get_window_val_char in H. exact H.
Qed.

Lemma dep_input_mono : forall trial d d' i dep x, ext d d' ->
  dep_input trial d i dep = Ok x -> dep_input trial d' i dep = Ok x.
Proof.
  intros trial d d' i dep x He H. destruct dep as [z|n|n|w]; cbn in *; auto.
  - destruct (dict_at d n (Z.of_nat i)) as [v|] eqn:E; [|discriminate].
    rewrite (He _ _ _ (Nat2Z.is_nonneg i) E). exact H.
  - eapply get_window_val_mono; eauto.
Qed.

Lemma inputs_char : forall trial d m i deps inputs, ext d m ->
  mapM (dep_input trial d i) deps = Ok inputs ->
  inputs = map (doc_dep_input trial m i) deps.
Proof.
  intros trial d m i deps inputs He H.
  eapply mapM_ok_map; [|exact H]. intros dep y _ Hy.
  eapply dep_input_char. eapply dep_input_mono; eauto.
Qed.

(** * The trial loop of one factor *)

Lemma prev_sum_app : forall vs new, vs <> [] \/ True ->
  prev_sum (vs ++ new) (List.length vs) = prev_sum vs (List.length vs).
Proof.
  intros vs new _. unfold prev_sum. destruct (List.length vs) as [|j] eqn:E; auto.
  rewrite app_nth1 by lia. reflexivity.
Qed.

Lemma sample_trials_inv : forall trial f a n vs sum st log st' log',
  sample_trials gen trial f a (seq (List.length vs) n) sum vs st log = Ok (st', log') ->
  get st (cf_name f) = Some vs ->
  (cf_cumulative f = true -> sum = prev_sum vs (List.length vs)) ->
  exists new,
    List.length new = n /\
    get st' (cf_name f) = Some (vs ++ new) /\
    (forall k, k <> cf_name f -> get st' k = get st k) /\
    map fst st' = map fst st /\
    ext st st' /\
    forall m, ext st' m -> forall i, (List.length vs <= i < List.length vs + n)%nat ->
      value_spec_l gen trial m a f i (vs ++ new).
Proof.
  intros trial f a. induction n as [|n IH]; intros vs sum st log st' log' H Hg Hsum; cbn in H.
  - injection H as <- <-. exists []. rewrite app_nil_r.
    repeat split.
    + apply get_set_same.
    + intros k Hk. now apply get_set_other.
    + apply keys_set_in. congruence.
    + pose proof (ext_set_app st (cf_name f) vs [] Hg) as He. now rewrite app_nil_r in He.
    + intros m _ i Hi. lia.
  - destruct (mapM (dep_input trial st (List.length vs)) (cf_deps f)) as [inputs|] eqn:Ein; [|discriminate].
    set (r := gen (cf_name f) a (List.length vs) inputs) in *.
    destruct (if cf_cumulative f then add_val sum r else Ok r) as [v|] eqn:Ev; [|discriminate].
    assert (Hlen : List.length (vs ++ [v]) = S (List.length vs)) by (rewrite app_length; cbn; lia).
    rewrite <- Hlen in H.
    apply IH in H.
    + destruct H as (new & Hn & Hg' & Hoth & Hkeys & Hext & Hspec).
      assert (Hext0 : ext st (set st (cf_name f) (vs ++ [v]))) by now apply ext_set_app.
      exists (v :: new). rewrite <- app_assoc in *. cbn [app] in *.
      repeat split.
      * cbn. lia.
      * exact Hg'.
      * intros k Hk. rewrite Hoth by auto. now apply get_set_other.
      * rewrite Hkeys. apply keys_set_in. congruence.
      * eapply ext_trans; eauto.
      * intros m Hm i Hi.
        destruct (Nat.eq_dec i (List.length vs)) as [->|Hne].
        -- unfold value_spec_l.
           assert (Hin : inputs = map (doc_dep_input trial m (List.length vs)) (cf_deps f)).
           { eapply inputs_char; [|exact Ein]. eapply ext_trans; [exact Hext0|]. eapply ext_trans; eauto. }
           rewrite <- Hin. fold r.
           assert (Hnth : nth (List.length vs) (vs ++ v :: new) VNaN = v).
           { rewrite app_nth2 by lia. now rewrite Nat.sub_diag. }
           rewrite Hnth. destruct (cf_cumulative f) eqn:Ec.
           ++ rewrite prev_sum_app by auto. rewrite <- Hsum by auto. exact Ev.
           ++ congruence.
        -- apply Hspec; auto. rewrite Hlen. lia.
    + rewrite get_set_same. reflexivity.
    + intros Hc. rewrite Hc. rewrite Hlen. cbn. rewrite app_nth2 by lia. now rewrite Nat.sub_diag.
Qed.

(** * The loop over the factors *)

Lemma value_spec_l_agree : forall trial m a f i l l',
  (forall j, (j <= i)%nat -> nth j l VNaN = nth j l' VNaN) ->
  value_spec_l gen trial m a f i l -> value_spec_l gen trial m a f i l'.
Proof.
  intros trial m a f i l l' Hag H. unfold value_spec_l in *.
  rewrite <- (Hag i) by lia.
  assert (Hp : prev_sum l' i = prev_sum l i).
  { unfold prev_sum. destruct i; auto. symmetry. apply Hag. lia. }
  rewrite Hp. exact H.
Qed.

Lemma sample_factors_inv : forall T trial a fs st log st' log',
  sample_factors gen T trial a fs st log = Ok (st', log') ->
  NoDup (map cf_name fs) ->
  (forall f, In f fs -> get st (cf_name f) = None) ->
  ext st st' /\
  (forall k, ~ In k (map cf_name fs) -> get st' k = get st k) /\
  (forall k, In k (map fst st') <-> In k (map fst st) \/ In k (map cf_name fs)) /\
  (forall f, In f fs -> exists vs, get st' (cf_name f) = Some vs /\ List.length vs = T) /\
  (forall m, ext st' m -> forall f, In f fs -> forall i, (i < T)%nat -> value_spec gen trial m a f i).
Proof.
  intros T trial a. induction fs as [|f tl IH]; intros st log st' log' H Hnd Hnone; cbn in H.
  - injection H as <- <-. repeat split; auto using ext_refl; try tauto.
    + intros [?|[]]; auto.
    + intros f [].
    + intros m _ f [].
  - destruct (sample_trials gen trial f a (seq 0 T) (VNum 0) [] (set st (cf_name f) []) log)
      as [[st1 log1]|] eqn:E1; [|discriminate].
    inversion Hnd as [|? ? Hnotin Hnd']; subst.
    assert (Hn0 : get st (cf_name f) = None) by (apply Hnone; left; auto).
    change 0%nat with (@List.length val []) in E1.
    apply sample_trials_inv in E1; [|apply get_set_same|reflexivity].
    destruct E1 as (new & Hlen & Hg1 & Hoth1 & Hkeys1 & Hext1 & Hspec1). cbn [app] in *.
    apply IH in H; auto.
    + destruct H as (Hext & Hkeep & Hkeys & Hall & Hspec).
      assert (Hext0 : ext st (set st (cf_name f) [])) by now apply ext_set_new.
      assert (Hgf : get st' (cf_name f) = Some new) by (rewrite Hkeep by auto; exact Hg1).
      repeat split.
      * eapply ext_trans; [exact Hext0|]. eapply ext_trans; eauto.
      * intros k Hk. cbn in Hk.
        assert (Hk1 : k <> cf_name f) by (intros ->; apply Hk; auto).
        assert (Hk2 : ~ In k (map cf_name tl)) by tauto.
        rewrite Hkeep by auto. rewrite Hoth1 by auto. now apply get_set_other.
      * rewrite Hkeys, Hkeys1, keys_set_absent by auto. rewrite in_app_iff. cbn. tauto.
      * rewrite Hkeys, Hkeys1, keys_set_absent by auto. rewrite in_app_iff. cbn. tauto.
      * intros g [<-|Hg]; [exists new; auto|]. apply Hall; auto.
      * intros m Hm g [<-|Hg] i Hi; [|apply Hspec; auto].
        unfold value_spec. eapply value_spec_l_agree; [|apply (Hspec1 m); [eapply ext_trans; eauto|cbn; lia]].
        intros j Hj. symmetry. eapply ext_nth; eauto. lia.
    + intros g Hg. rewrite Hoth1.
      * rewrite get_set_other; [apply Hnone; right; auto|].
        intros Heq. apply Hnotin. rewrite <- Heq. now apply in_map.
      * intros Heq. apply Hnotin. rewrite <- Heq. now apply in_map.
Qed.

Lemma _sample_continuous_inv : forall T trial fs a log out log',
  _sample_continuous gen T trial fs a log = Ok (out, log') ->
  NoDup (map cf_name fs) ->
  (forall k, In k (map fst out) <-> In k (map cf_name fs)) /\
  (forall f, In f fs -> exists vs, get out (cf_name f) = Some vs /\ List.length vs = T) /\
  (forall m, ext out m -> forall f, In f fs -> forall i, (i < T)%nat -> value_spec gen trial m a f i).
Proof.
  intros T trial fs a log out log' H Hnd. unfold _sample_continuous in H.
  apply sample_factors_inv in H; auto.
  destruct H as (_ & _ & Hkeys & Hall & Hspec). repeat split; auto.
  - intros Hk. apply Hkeys in Hk. cbn in Hk. tauto.
  - intros Hk. apply Hkeys. auto.
Qed.

End Sampling.

(** * Constraints *)

Lemma constraint_inputs_char : forall out m names i inputs, ext out m ->
  constraint_inputs out names i = Ok inputs ->
  inputs = map (fun n => nth i (getd m n) VNaN) names.
Proof.
  intros out m names i inputs He H. unfold constraint_inputs in H.
  eapply mapM_ok_map; [|exact H]. cbn beta. intros n v _ Hv.
  apply He in Hv; [|lia]. apply dict_at_nth in Hv; [|lia]. rewrite Nat2Z.id in Hv. congruence.
Qed.

Lemma check_trials_true : forall out m c is, ext out m ->
  check_trials out c is = Ok true ->
  forall i, In i is -> cc_pred c (map (fun n => nth i (getd m n) VNaN) (cc_factors c)) = true.
Proof.
  intros out m c. induction is as [|i0 rest IH]; intros He H i Hi; [destruct Hi|]. cbn in H.
  destruct (constraint_inputs out (cc_factors c) i0) as [inputs|] eqn:E; [|discriminate].
  destruct (cc_pred c inputs) eqn:Ep; [|discriminate].
  destruct Hi as [<-|Hi]; [|apply IH; auto].
  rewrite <- (constraint_inputs_char _ _ _ _ _ He E). exact Ep.
Qed.

Lemma check_each_true : forall out m cs, ext out m ->
  check_each out cs = Ok true ->
  forall c, In c cs -> exists n0 l0, In n0 (cc_factors c) /\ get out n0 = Some l0 /\
    forall i, (i < List.length l0)%nat ->
      cc_pred c (map (fun n => nth i (getd m n) VNaN) (cc_factors c)) = true.
Proof.
  intros out m. induction cs as [|c0 tl IH]; intros He H c Hc; [destruct Hc|]. cbn in H.
  destruct (cc_factors c0) as [|n0 ns] eqn:Ef; [discriminate|].
  unfold getitem in H. destruct (get out n0) as [l0|] eqn:Eg; [|discriminate].
  destruct (check_trials out c0 (seq 0 (List.length l0))) as [[|]|] eqn:Et; try discriminate.
  destruct Hc as [<-|Hc]; [|apply IH; auto].
  exists n0, l0. rewrite Ef. repeat split; [left; auto|auto|].
  intros i Hi. rewrite <- Ef. eapply check_trials_true; eauto. apply in_seq. lia.
Qed.

(** * The resample loop *)

Section Resample.
Variable gen : string -> nat -> nat -> list input -> val.

Lemma sample_continuous_inv : forall T trial fs cs fuel a log out a' log',
  sample_continuous gen T trial fs cs fuel a log = Ok (out, a', log') ->
  exists att logx, a' = S att /\ (a <= att)%nat /\
    _sample_continuous gen T trial fs att logx = Ok (out, log') /\
    check_constraints cs out = Ok true.
Proof.
  intros T trial fs cs. induction fuel as [|fuel IH]; intros a log out a' log' H; cbn in H; [discriminate|].
  destruct (_sample_continuous gen T trial fs a log) as [[o l]|] eqn:E; [|discriminate].
  destruct (check_constraints cs o) as [[|]|] eqn:Ec; try discriminate.
  - injection H as <- <- <-. exists a, log. repeat split; auto.
  - apply IH in H. destruct H as (att & logx & -> & Hle & Hs & Hc).
    exists att, logx. repeat split; auto. lia.
Qed.

(** One accepted sampling, seen through any dict [m] that extends it. *)
Lemma accepted_ok : forall T trial fs cs fuel a log out a' log' m,
  NoDup (map cf_name fs) ->
  sample_continuous gen T trial fs cs fuel a log = Ok (out, a', log') ->
  ext out m ->
  (forall f, In f fs -> get m (cf_name f) = get out (cf_name f)) ->
  experiment_ok gen T fs cs trial (m, a').
Proof.
  intros T trial fs cs fuel a log out a' log' m Hnd H He Hsame.
  apply sample_continuous_inv in H. destruct H as (att & logx & -> & _ & Hs & Hc).
  apply _sample_continuous_inv in Hs; auto. destruct Hs as (Hkeys & Hall & Hspec).
  exists att. cbn [fst snd]. repeat split.
  - intros f Hf. rewrite Hsame by auto. now apply Hall.
  - intros c Hcin i Hi. unfold check_constraints in Hc.
    destruct (check_each_true _ _ _ He Hc c Hcin) as (n0 & l0 & Hn0 & Hg & Hp).
    apply Hp. apply get_Some_in in Hg as Hin. apply Hkeys in Hin.
    apply in_map_iff in Hin. destruct Hin as (f & Hfn & Hf).
    destruct (Hall f Hf) as (vs & Hgv & Hlen). rewrite Hfn in Hgv. congruence.
  - intros f Hf i Hi. now apply Hspec.
Qed.

(** * The merge into the returned experiment *)

Lemma merge_cons : forall tr k v out, merge tr ((k, v) :: out) = merge (set tr k v) out.
Proof. reflexivity. Qed.

Lemma merge_get_other : forall out tr k, ~ In k (map fst out) -> get (merge tr out) k = get tr k.
Proof.
  induction out as [|[k0 v0] tl IH]; intros tr k Hk; [reflexivity|].
  rewrite merge_cons. cbn in Hk. rewrite IH by tauto. apply get_set_other. intros ->. tauto.
Qed.

Lemma merge_get_out : forall out tr k, NoDup (map fst out) -> In k (map fst out) ->
  get (merge tr out) k = get out k.
Proof.
  induction out as [|[k0 v0] tl IH]; intros tr k Hnd Hk; [destruct Hk|].
  rewrite merge_cons. cbn in Hnd, Hk. inversion Hnd as [|? ? Hnotin Hnd']; subst. cbn [get].
  destruct (String.eqb k k0) eqn:E.
  - apply String.eqb_eq in E. subst k0. rewrite merge_get_other by auto. apply get_set_same.
  - apply String.eqb_neq in E. apply IH; auto. destruct Hk; congruence.
Qed.

Lemma merge_disjoint : forall out tr, NoDup (map fst out) ->
  (forall k, In k (map fst out) -> get tr k = None) -> merge tr out = tr ++ out.
Proof.
  induction out as [|[k0 v0] tl IH]; intros tr Hnd Hdis; [now rewrite app_nil_r|].
  rewrite merge_cons. cbn in Hnd. inversion Hnd as [|? ? Hnotin Hnd']; subst.
  rewrite set_absent by (apply Hdis; left; auto).
  rewrite IH; auto.
  - now rewrite <- app_assoc.
  - intros k Hk. apply get_None_iff. rewrite map_app, in_app_iff. cbn.
    intros [H|[H|[]]].
    + apply get_None_iff in H; auto. apply Hdis. right; auto.
    + congruence.
Qed.

Lemma ext_merge : forall tr out, NoDup (map fst out) -> ext out (merge tr out).
Proof.
  intros tr out Hnd f j v Hj H. destruct (dict_at_inv _ _ _ _ Hj H) as (l & Hg & Hn).
  apply dict_at_intro with (l := l); auto.
  rewrite merge_get_out; auto. eapply get_Some_in; eauto.
Qed.

(** the keys of the sampled dict are the factor names, in order *)
Lemma sample_factors_keys : forall T trial a fs st log st' log',
  sample_factors gen T trial a fs st log = Ok (st', log') ->
  NoDup (map cf_name fs) ->
  (forall f, In f fs -> get st (cf_name f) = None) ->
  map fst st' = map fst st ++ map cf_name fs.
Proof.
  intros T trial a. induction fs as [|f tl IH]; intros st log st' log' H Hnd Hnone; cbn in H.
  - injection H as <- <-. cbn. now rewrite app_nil_r.
  - destruct (sample_trials gen trial f a (seq 0 T) (VNum 0) [] (set st (cf_name f) []) log)
      as [[st1 log1]|] eqn:E1; [|discriminate].
    inversion Hnd as [|? ? Hnotin Hnd']; subst.
    assert (Hn0 : get st (cf_name f) = None) by (apply Hnone; left; auto).
    change 0%nat with (@List.length val []) in E1.
    apply sample_trials_inv in E1; [|apply get_set_same|reflexivity].
    destruct E1 as (new & Hlen & Hg1 & Hoth1 & Hkeys1 & Hext1 & Hspec1).
    apply IH in H; auto.
    + rewrite H, Hkeys1, keys_set_absent by auto. cbn. now rewrite <- app_assoc.
    + intros g Hg.
      assert (Hne : cf_name g <> cf_name f).
      { intros Heq. apply Hnotin. rewrite <- Heq. now apply in_map. }
      rewrite Hoth1 by auto. rewrite get_set_other by auto. apply Hnone. right; auto.
Qed.

Lemma _sample_continuous_keys : forall T trial fs a log out log',
  _sample_continuous gen T trial fs a log = Ok (out, log') ->
  NoDup (map cf_name fs) -> map fst out = map cf_name fs.
Proof.
  intros T trial fs a log out log' H Hnd. unfold _sample_continuous in H.
  apply sample_factors_keys in H; auto.
Qed.

(** * The loop over the experiments *)

Lemma Forall2_imp : forall (A B : Type) (P Q : A -> B -> Prop) l l',
  (forall x y, P x y -> Q x y) -> Forall2 P l l' -> Forall2 Q l l'.
Proof. intros A B P Q l l' Hpq H. induction H; constructor; auto. Qed.

Lemma synth_loop_inv : forall T fs cs fuel trialss a log res log',
  NoDup (map cf_name fs) ->
  synth_loop gen T fs cs fuel a trialss log = Ok (res, log') ->
  Forall2 (fun tr ma =>
             exists out a0 lg lg', sample_continuous gen T tr fs cs fuel a0 lg = Ok (out, snd ma, lg')
                                   /\ fst ma = merge tr out) trialss res.
Proof.
  intros T fs cs fuel. induction trialss as [|tr rest IH]; intros a log res log' Hnd H; cbn in H.
  - injection H as <- <-. constructor.
  - destruct (sample_continuous gen T tr fs cs fuel a log) as [[[out a'] lg']|] eqn:E; [|discriminate].
    destruct (synth_loop gen T fs cs fuel a' rest lg') as [[ms lg'']|] eqn:E2; [|discriminate].
    injection H as <- <-. constructor.
    + exists out, a, log, lg'. cbn. auto.
    + eapply IH; eauto.
Qed.

Lemma sample_continuous_keys : forall T trial fs cs fuel a log out a' log',
  NoDup (map cf_name fs) ->
  sample_continuous gen T trial fs cs fuel a log = Ok (out, a', log') ->
  map fst out = map cf_name fs.
Proof.
  intros T trial fs cs fuel a log out a' log' Hnd H.
  apply sample_continuous_inv in H. destruct H as (att & logx & _ & _ & Hs & _).
  eapply _sample_continuous_keys; eauto.
Qed.

(** ** C22, safety: every returned experiment is as documented *)
Theorem continuous_spec : forall T fs cs fuel trialss res log,
  fs <> [] -> NoDup (map cf_name fs) ->
  synthesize_post gen T fs cs fuel trialss = Ok (res, log) ->
  Forall2 (experiment_ok gen T fs cs) trialss res.
Proof.
  intros T fs cs fuel trialss res log Hne Hnd H. unfold synthesize_post in H.
  destruct fs as [|f0 fs'] eqn:Efs; [congruence|]. rewrite <- Efs in *. clear Efs Hne f0 fs'.
  apply synth_loop_inv in H; auto.
  eapply Forall2_imp; [|exact H]. cbn beta.
  intros tr [m a'] (out & a0 & lg & lg' & Hs & Hm). cbn [fst snd] in *. subst m.
  pose proof (sample_continuous_keys _ _ _ _ _ _ _ _ _ _ Hnd Hs) as Hkeys.
  assert (Hndo : NoDup (map fst out)) by (rewrite Hkeys; exact Hnd).
  eapply accepted_ok; eauto.
  - now apply ext_merge.
  - intros f Hf. apply merge_get_out; auto. rewrite Hkeys. now apply in_map.
Qed.

(** ** C22: the merge changes no discrete column *)
Theorem discrete_untouched : forall T fs cs fuel trialss res log,
  NoDup (map cf_name fs) ->
  synthesize_post gen T fs cs fuel trialss = Ok (res, log) ->
  Forall2 (fun tr ma =>
             (forall k, ~ In k (map cf_name fs) -> get (fst ma) k = get tr k) /\
             ((forall k, In k (map cf_name fs) -> get tr k = None) ->
              exists out, fst ma = tr ++ out /\ map fst out = map cf_name fs)) trialss res.
Proof.
  intros T fs cs fuel trialss res log Hnd H. unfold synthesize_post in H.
  destruct fs as [|f0 fs'] eqn:Efs.
  - injection H as <- <-. clear. induction trialss as [|tr rest IH]; cbn; constructor; auto.
    cbn. split; auto. intros _. exists []. now rewrite app_nil_r.
  - rewrite <- Efs in *. clear Efs f0 fs'.
    apply synth_loop_inv in H; auto.
    eapply Forall2_imp; [|exact H]. cbn beta.
    intros tr [m a'] (out & a0 & lg & lg' & Hs & Hm). cbn [fst snd] in *. subst m.
    pose proof (sample_continuous_keys _ _ _ _ _ _ _ _ _ _ Hnd Hs) as Hkeys.
    split.
    + intros k Hk. apply merge_get_other. now rewrite Hkeys.
    + intros Hdis. exists out. split; auto. apply merge_disjoint.
      * rewrite Hkeys. exact Hnd.
      * intros k Hk. apply Hdis. now rewrite <- Hkeys.
Qed.

End Resample.

(** ** C22: characterisation of [get_window_val] *)

Theorem window_val_spec : forall w idx d f l,
  0 <= idx -> get d f = Some l -> idx < Z.of_nat (List.length l) ->
  (* the window of one factor is the documented window of its values *)
  window_factor w idx d f = Ok (doc_window w idx l) /\
  List.length (doc_window w idx l) = Z.to_nat (w_width w) /\
  (* NaN-filled iff before [start] or skipped by the stride (no value is read) *)
  (skipped w idx = true <->
   idx < w_start w \/ (1 < w_stride w /\ (idx - w_start w) mod (w_stride w) <> 0)) /\
  (skipped w idx = true ->
   doc_window w idx l = return_nan w /\ forall d' f', window_factor w idx d' f' = Ok (return_nan w)) /\
  (* otherwise entry [-k] is the value k trials earlier, NaN before trial 0 ... *)
  (skipped w idx = false -> forall k, 0 <= k < w_width w ->
   nth_error (doc_window w idx l) (Z.to_nat k)
   = Some (- k, if idx - k <? 0 then VNaN else nth (Z.to_nat (idx - k)) l VNaN)) /\
  (* ... which happens iff idx < width - 1 *)
  ((exists k, 0 <= k < w_width w /\ idx - k < 0) <-> idx < w_width w - 1).
Proof.
  intros w idx d f l Hidx Hg Hlt. repeat split.
  - now apply window_factor_total.
  - apply doc_window_length.
  - apply skipped_true_iff.
  - apply skipped_true_iff.
  - now apply doc_window_skipped.
  - intros d' f'. now apply window_factor_skipped.
  - intros Hs k Hk. rewrite doc_window_nth by auto. now rewrite Hs.
  - apply partial_iff; auto.
  - apply partial_iff; auto.
Qed.

(** One dict for a single factor, a list of dicts for several, IndexError for none. *)
Theorem window_val_shape : forall w idx d,
  0 <= idx ->
  (forall f, In f (w_factors w) -> exists l, get d f = Some l /\ idx < Z.of_nat (List.length l)) ->
  get_window_val w idx d =
  match w_factors w with
  | [] => Err IndexError
  | [f] => Ok (IWin (doc_window w idx (getd d f)))
  | fs => Ok (IWins (map (fun f => doc_window w idx (getd d f)) fs))
  end.
Proof.
  intros w idx d Hidx Hall. unfold get_window_val.
  rewrite (mapM_total _ _ (window_factor w idx d) (fun f => doc_window w idx (getd d f))).
  - destruct (w_factors w) as [|f1 [|f2 tl]]; reflexivity.
  - intros f Hf. destruct (Hall f Hf) as (l & Hg & Hlt). unfold getd. rewrite Hg.
    now apply window_factor_total.
Qed.

(** * The dependency check of the constructor

    Two designs that the check of the pinned code got wrong (both replayed on
    the real code and repaired there; the statements about the repaired check
    are in Out/ContinuousDeps.v):
    [later_window_design] - a window over a factor declared later - used to be
    accepted and raised KeyError while sampling; [chain_design] - a factor
    depending on one that is derived from a discrete factor only - used to be
    rejected although sampling it is well defined. *)
Local Open Scope string_scope.

Definition later_window_design : list cfactor :=
  [ {| cf_name := "c1"; cf_deps := [DWin (window_post_init ["c0"] 2 1 None)]; cf_cumulative := false |};
    {| cf_name := "c0"; cf_deps := []; cf_cumulative := false |} ].

Definition chain_design : list cfactor :=
  [ {| cf_name := "c0"; cf_deps := [DDisc "color"]; cf_cumulative := false |};
    {| cf_name := "c1"; cf_deps := [DCont "c0"]; cf_cumulative := false |} ].

(** the first still raises while sampling, but is now rejected by the constructor *)
Lemma later_window_design_rejected :
  NoDup (map cf_name later_window_design) /\ check_dependency later_window_design = false /\
  forall gen a, _sample_continuous gen 2 [] later_window_design a [] = Err KeyError.
Proof.
  split; [|split].
  - repeat constructor; cbn; intuition discriminate.
  - reflexivity.
  - intros gen a. reflexivity.
Qed.

(** the second is now accepted, and sampled *)
Lemma chain_design_accepted :
  NoDup (map cf_name chain_design) /\ check_dependency chain_design = true /\
  exists out log, _sample_continuous (fun _ _ _ _ => VNum 1) 2 [("color", [VStr "r"; VStr "b"])] chain_design O []
                  = Ok (out, log).
Proof.
  split; [|split].
  - repeat constructor; cbn; intuition discriminate.
  - reflexivity.
  - eexists; eexists; reflexivity.
Qed.

Local Close Scope string_scope.

Lemma mem_In : forall k l, mem k l = true <-> In k l.
Proof.
  intros k. induction l as [|x tl IH]; cbn; [split; [discriminate|tauto]|].
  rewrite orb_true_iff, IH, String.eqb_eq. intuition.
Qed.

(** * A concrete design (used by the [Example]s of Properties/C22.v)

    rt: independent; diff: window of width 2 over rt; total: cumulative sum of
    rt; mix: a discrete factor and total.  The ContinuousConstraint rt <= 6
    rejects the first attempt (rt = 7, 8, 9) and accepts the second. *)
Local Open Scope string_scope.

Definition ex_gen (name : string) (a i : nat) (inputs : list input) : val :=
  if String.eqb name "rt" then VNum (Z.of_nat (7 - 3 * a + i))
  else match inputs with
       | [IWin [(_, VNum x); (_, VNum y)]] => VNum (x - y)
       | [IWin _] => VNaN
       | [IVal (VNum x)] => VNum x
       | [IVal (VStr s); IVal (VNum x)] => VNum (x + Z.of_nat (String.length s))
       | _ => VNaN
       end.

Definition ex_fs : list cfactor :=
  [ {| cf_name := "rt"; cf_deps := []; cf_cumulative := false |};
    {| cf_name := "diff"; cf_deps := [DWin (window_post_init ["rt"] 2 1 None)]; cf_cumulative := false |};
    {| cf_name := "total"; cf_deps := [DCont "rt"]; cf_cumulative := true |};
    {| cf_name := "mix"; cf_deps := [DDisc "color"; DCont "total"]; cf_cumulative := false |} ].

Definition ex_cs : list bconstraint :=
  [ BOther;
    BCont {| cc_factors := ["rt"];
             cc_pred := fun vs => match vs with [VNum x] => Z.leb x 6 | _ => false end |} ].

Definition ex_trials : list dict :=
  [ [("color", [VStr "red"; VStr "blue"; VStr "red"])];
    [("color", [VStr "blue"; VStr "red"; VStr "red"])] ].

Definition ex_result : list (dict * nat) :=
  [ ([("color", [VStr "red"; VStr "blue"; VStr "red"]);
      ("rt", [VNum 4; VNum 5; VNum 6]);
      ("diff", [VNaN; VNum 1; VNum 1]);
      ("total", [VNum 4; VNum 9; VNum 15]);
      ("mix", [VNum 7; VNum 13; VNum 18])], 2%nat);
    ([("color", [VStr "blue"; VStr "red"; VStr "red"]);
      ("rt", [VNum 1; VNum 2; VNum 3]);
      ("diff", [VNaN; VNum 1; VNum 1]);
      ("total", [VNum 1; VNum 3; VNum 6]);
      ("mix", [VNum 5; VNum 6; VNum 9])], 3%nat) ].

Lemma ex_names_nodup : NoDup (map cf_name ex_fs).
Proof. repeat constructor; cbn; intuition discriminate. Qed.

Lemma ex_runs : exists log, synthesize_post ex_gen 3 ex_fs ex_cs 5 ex_trials = Ok (ex_result, log).
Proof. eexists. vm_compute. reflexivity. Qed.

Definition ex_window : cwindow := window_post_init ["rt"] 3 2 (Some 1%Z).
Definition ex_dict : dict := [("rt", [VNum 10; VNum 11; VNum 12; VNum 13])].
