(** Model of the output conversions of sweetpea/_internal/main.py
    ([_experiments_to_tuples], [_experiments_to_dicts], [_experiments_to_csv],
    [__filter_hidden], [__filter_hidden_keys], the post-processing of
    [synthesize_trials]) and of the way [block.design] (whose factors are the
    keys of the sampled experiments, hidden ones included) is obtained from the
    user-declared design [block.orig_design] (cross_block.py
    [_desugar_factors_with_weights], block.py [sep_continuous_factors]).

    Executable definitions only; proofs are in Out/ConvertProofs.v.
    An experiment is a Python dict from factor names to equally long lists of
    values, modelled as an association list in insertion order. *)
From Coq Require Import ZArith List Bool String.
Import ListNotations.
Open Scope Z_scope.

(** A level value as it occurs in an experiment: a level name (str) or a
    number (sample of a continuous factor, non-string level name). *)
Inductive value := VStr (s : string) | VNum (z : Z).

Definition value_eqb (a b : value) : bool :=
  match a, b with
  | VStr x, VStr y => String.eqb x y
  | VNum x, VNum y => Z.eqb x y
  | _, _ => false
  end.

(** A factor name / dict key: a [str], or a [HiddenName] object wrapping the
    name of the user factor it was generated for. *)
Inductive fname := Plain (s : string) | Hidden (s : string).

Definition is_hidden (n : fname) : bool :=
  match n with Hidden _ => true | Plain _ => false end.

Definition fname_eqb (a b : fname) : bool :=
  match a, b with
  | Plain x, Plain y => String.eqb x y
  | Hidden x, Hidden y => String.eqb x y
  | _, _ => false
  end.

(** Python exceptions that the modelled functions can raise. *)
Inductive err := KeyError | IndexError | RuntimeError.

Inductive res (A : Type) := Ok (a : A) | Err (e : err).
Arguments Ok {A} a.
Arguments Err {A} e.

(** [[f x for x in l]] where [f] may raise: the first exception wins. *)
Fixpoint mapM {A B : Type} (f : A -> res B) (l : list A) : res (list B) :=
  match l with
  | [] => Ok []
  | x :: tl =>
    match f x with
    | Err e => Err e
    | Ok y => match mapM f tl with Err e => Err e | Ok ys => Ok (y :: ys) end
    end
  end.

Definition dict (A : Type) := list (fname * A).
Definition experiment := dict (list value).

(** [d[k]] *)
Fixpoint lookup {A : Type} (k : fname) (d : dict A) : option A :=
  match d with
  | [] => None
  | (k', v) :: tl => if fname_eqb k k' then Some v else lookup k tl
  end.

Definition getitem {A : Type} (k : fname) (d : dict A) : res A :=
  match lookup k d with Some v => Ok v | None => Err KeyError end.

(** [d[k] = v]: an existing key keeps its position, a new key goes last. *)
Fixpoint dict_set {A : Type} (k : fname) (v : A) (d : dict A) : dict A :=
  match d with
  | [] => [(k, v)]
  | (k', v') :: tl => if fname_eqb k k' then (k', v) :: tl else (k', v') :: dict_set k v tl
  end.

(** [dict(pairs)] *)
Definition dict_of_pairs {A : Type} (ps : list (fname * A)) : dict A :=
  fold_left (fun d kv => dict_set (fst kv) (snd kv) d) ps [].

(* ------------------------------------------------------------------ *)
(** * From the user-declared design to [block.design] *)

(** What matters of a user-declared factor: its name, for a simple factor the
    weights of its levels, for a derived factor the names of the factors in
    its window. *)
Inductive ufactor :=
| USimple (name : string) (weights : list Z)
| UDerived (name : string) (deps : list string)
| UContinuous (name : string).

Definition uname (f : ufactor) : string :=
  match f with USimple n _ => n | UDerived n _ => n | UContinuous n => n end.

Definition mem_str (s : string) (l : list string) : bool := existsb (String.eqb s) l.

(** cross_block.py: a non-derived, non-continuous factor with a level of
    weight > 1 that is in no crossing is desugared. *)
Definition is_weighted (crossings : list (list string)) (f : ufactor) : bool :=
  match f with
  | USimple n ws => existsb (fun w => 1 <? w) ws && forallb (fun c => negb (mem_str n c)) crossings
  | _ => false
  end.

(** The new design: [replacements.get(f, [f])] for every [f] of the design,
    an object being listed once ([if not any(r is other ...)]), with
    [replacements[weighted] = [derived_f (named HiddenName(f.name)), flat_f (named f.name)]]
    and, for a derived factor whose window uses a replaced factor,
    [replacements[derived] = [f', f']] (one rewritten factor of the same name,
    hence one entry).  So only the weighted factors contribute two entries. *)
Definition desugar_design (crossings : list (list string)) (d : list ufactor) : list (fname * ufactor) :=
  flat_map (fun f =>
    if is_weighted crossings f then [(Hidden (uname f), f); (Plain (uname f), f)]
    else [(Plain (uname f), f)]) d.

Definition is_continuous (f : ufactor) : bool :=
  match f with UContinuous _ => true | _ => false end.

(** block.py [sep_continuous_factors]: continuous factors leave the design. *)
Definition block_design (crossings : list (list string)) (d : list ufactor) : list fname :=
  map fst (filter (fun nf => negb (is_continuous (snd nf))) (desugar_design crossings d)).

(** [__filter_hidden] *)
Definition filter_hidden (design : list fname) : list fname :=
  filter (fun n => negb (is_hidden n)) design.

(** [block.orig_design]: the factors the user declared, in declaration order. *)
Definition user_names (d : list ufactor) : list fname := map (fun f => Plain (uname f)) d.

(** [[f.name for f in __filter_hidden(block.orig_design)]]: the keys all three
    conversions use. *)
Definition conv_keys (d : list ufactor) : list fname := filter_hidden (user_names d).

(* ------------------------------------------------------------------ *)
(** * The conversions *)

(** [[experiment[key] for key in keys]] *)
Definition columns (keys : list fname) (e : experiment) : res (list (list value)) :=
  mapM (fun k => getitem k e) keys.

Fixpoint heads (cols : list (list value)) : option (list value) :=
  match cols with
  | [] => Some []
  | [] :: _ => None
  | (x :: _) :: tl => match heads tl with Some h => Some (x :: h) | None => None end
  end.

(** [zip( *cols )]: rows as long as every column has an element; no row at
    all for zero columns.  The recursion is on the first column. *)
Fixpoint zip_star_aux (c0 : list value) (cols : list (list value)) : list (list value) :=
  match c0 with
  | [] => []
  | _ :: c0' =>
    match heads cols with
    | Some h => h :: zip_star_aux c0' (map (@tl value) cols)
    | None => []
    end
  end.

Definition zip_star (cols : list (list value)) : list (list value) :=
  match cols with [] => [] | c :: _ => zip_star_aux c cols end.

(** [_experiments_to_tuples] *)
Definition tuples_of (keys : list fname) (exps : list experiment) : res (list (list (list value))) :=
  mapM (fun e => match columns keys e with Err x => Err x | Ok cols => Ok (zip_star cols) end) exps.

(** [_experiments_to_dicts]: [dict(zip(keys, values))] per row. *)
Definition dicts_of (keys : list fname) (exps : list experiment) : res (list (list (dict value))) :=
  mapM (fun e => match columns keys e with
                 | Err x => Err x
                 | Ok cols => Ok (map (fun values => dict_of_pairs (combine keys values)) (zip_star cols))
                 end) exps.

(** [l[i]] for [0 <= i] *)
Definition index_nat {A : Type} (l : list A) (i : nat) : res A :=
  match nth_error l i with Some v => Ok v | None => Err IndexError end.

(** One CSV file: the header row and the data rows handed to [csv.writer]
    ([dict[column][row_idx]] for [row_idx in range(len(dict[csv_columns[0]]))]). *)
Definition csv_one (cols : list fname) (e : experiment) : res (list fname * list (list value)) :=
  match cols with
  | [] => Err IndexError
  | c0 :: _ =>
    match getitem c0 e with
    | Err x => Err x
    | Ok col0 =>
      match mapM (fun row_idx =>
                    mapM (fun column => match getitem column e with
                                        | Err x => Err x
                                        | Ok col => index_nat col row_idx
                                        end) cols)
                 (seq 0 (List.length col0)) with
      | Err x => Err x
      | Ok rows => Ok (cols, rows)
      end
    end
  end.

(** [_experiments_to_csv]: one file per experiment, in order. *)
Definition csv_of (cols : list fname) (exps : list experiment)
  : res (list (list fname * list (list value))) :=
  mapM (csv_one cols) exps.

(** The public functions. *)
Definition experiments_to_tuples d exps := tuples_of (conv_keys d) exps.
Definition experiments_to_dicts d exps := dicts_of (conv_keys d) exps.
Definition save_experiments_csv d exps := csv_of (conv_keys d) exps.

(* ------------------------------------------------------------------ *)
(** * Post-processing in [synthesize_trials] *)

(** [__filter_hidden_keys] *)
Definition filter_hidden_keys {A : Type} (d : dict A) : dict A :=
  filter (fun kv => negb (is_hidden (fst kv))) d.

(** [trialss.append(__filter_hidden_keys(with_implied))] and then
    [for k in continuous_samples: trials[k] = continuous_samples[k]]. *)
Definition synth_post (with_implied : experiment) (continuous_samples : experiment) : experiment :=
  fold_left (fun d kv => dict_set (fst kv) (snd kv) d) continuous_samples (filter_hidden_keys with_implied).
