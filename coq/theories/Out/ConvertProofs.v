(** Proofs about Out/Convert.v: the three conversions transpose rectangular
    experiments for exactly the user-declared factor names, and no hidden
    (library-introduced) factor name is exposed. *)
From Coq Require Import ZArith List Bool String Lia.
From SP Require Import Out.Convert.
Import ListNotations.
Local Open Scope nat_scope.

(* ------------------------------------------------------------------ *)
(** * Keys *)

Lemma fname_eqb_eq : forall a b, fname_eqb a b = true <-> a = b.
Proof.
  intros [x|x] [y|y]; cbn; try (split; [discriminate | intros H; inversion H]).
  - rewrite String.eqb_eq. split; [intros ->; reflexivity | intros H; inversion H; reflexivity].
  - rewrite String.eqb_eq. split; [intros ->; reflexivity | intros H; inversion H; reflexivity].
Qed.

Lemma fname_eqb_refl : forall a, fname_eqb a a = true.
Proof. intros a. apply fname_eqb_eq. reflexivity. Qed.

Lemma fname_eqb_neq : forall a b, fname_eqb a b = false <-> a <> b.
Proof.
  intros a b. split.
  - intros H E. apply fname_eqb_eq in E. congruence.
  - intros H. destruct (fname_eqb a b) eqn:E; [apply fname_eqb_eq in E; contradiction | reflexivity].
Qed.

(* ------------------------------------------------------------------ *)
(** * Dictionaries *)

Lemma lookup_In : forall {A} k (d : dict A) v, lookup k d = Some v -> In (k, v) d.
Proof.
  induction d as [|[k' v'] tl IH]; cbn; intros v H; [discriminate|].
  destruct (fname_eqb k k') eqn:E.
  - apply fname_eqb_eq in E. inversion H. subst. left. reflexivity.
  - right. apply IH. exact H.
Qed.

Lemma lookup_None_notin : forall {A} k (d : dict A), lookup k d = None -> ~ In k (map fst d).
Proof.
  induction d as [|[k' v'] tl IH]; cbn; intros H; [tauto|].
  destruct (fname_eqb k k') eqn:E; [discriminate|].
  apply fname_eqb_neq in E. intros [H1|H1]; [congruence | apply IH; assumption].
Qed.

Lemma lookup_in_keys : forall {A} k (d : dict A), In k (map fst d) -> lookup k d <> None.
Proof. intros A k d H E. apply lookup_None_notin in E. contradiction. Qed.

Lemma lookup_app : forall {A} k (d1 d2 : dict A),
  lookup k (d1 ++ d2) = match lookup k d1 with Some v => Some v | None => lookup k d2 end.
Proof.
  induction d1 as [|[k' v'] tl IH]; cbn; intros d2; [reflexivity|].
  destruct (fname_eqb k k'); [reflexivity | apply IH].
Qed.

Lemma lookup_dict_set : forall {A} k k' (v : A) d,
  lookup k (dict_set k' v d) = if fname_eqb k k' then Some v else lookup k d.
Proof.
  induction d as [|[k2 v2] tl IH]; cbn.
  - reflexivity.
  - destruct (fname_eqb k' k2) eqn:E2; cbn.
    + apply fname_eqb_eq in E2. subst k2. destruct (fname_eqb k k'); reflexivity.
    + destruct (fname_eqb k k2) eqn:E3.
      * apply fname_eqb_eq in E3. subst k2.
        destruct (fname_eqb k k') eqn:E4; [|reflexivity].
        apply fname_eqb_eq in E4. subst k'. rewrite fname_eqb_refl in E2. discriminate.
      * exact IH.
Qed.

Lemma dict_set_keys : forall {A} k (v : A) d k2,
  In k2 (map fst (dict_set k v d)) -> k2 = k \/ In k2 (map fst d).
Proof.
  induction d as [|[k' v'] tl IH]; cbn; intros k2 H.
  - destruct H as [H|[]]. left. congruence.
  - destruct (fname_eqb k k') eqn:E; cbn in H.
    + right. exact H.
    + destruct H as [H|H]; [right; left; exact H|].
      apply IH in H. destruct H; [left | right; right]; assumption.
Qed.

Lemma dict_set_NoDup : forall {A} k (v : A) d, NoDup (map fst d) -> NoDup (map fst (dict_set k v d)).
Proof.
  induction d as [|[k' v'] tl IH]; cbn; intros H.
  - constructor; [tauto | constructor].
  - destruct (fname_eqb k k') eqn:E; cbn; [exact H|].
    inversion H as [|x l H1 H2]; subst. constructor; [|apply IH; exact H2].
    intros Hin. apply dict_set_keys in Hin. destruct Hin as [Hin|Hin]; [|contradiction].
    subst k'. rewrite fname_eqb_refl in E. discriminate.
Qed.

Definition set_all {A} (ps : list (fname * A)) (d : dict A) : dict A :=
  fold_left (fun d kv => dict_set (fst kv) (snd kv) d) ps d.

Lemma lookup_set_all : forall {A} k (ps : list (fname * A)) d,
  lookup k (set_all ps d) = match lookup k (rev ps) with Some v => Some v | None => lookup k d end.
Proof.
  unfold set_all. induction ps as [|[k' v'] tl IH]; cbn; intros d; [reflexivity|].
  rewrite IH, lookup_app, lookup_dict_set. cbn.
  destruct (lookup k (rev tl)); [reflexivity|]. destruct (fname_eqb k k'); reflexivity.
Qed.

Lemma set_all_keys : forall {A} (ps : list (fname * A)) d k,
  In k (map fst (set_all ps d)) -> In k (map fst ps) \/ In k (map fst d).
Proof.
  unfold set_all. induction ps as [|[k' v'] tl IH]; cbn; intros d k H; [right; exact H|].
  apply IH in H. destruct H as [H|H]; [left; right; exact H|].
  apply dict_set_keys in H. destruct H; [left; left; congruence | right; assumption].
Qed.

Lemma set_all_NoDup : forall {A} (ps : list (fname * A)) d, NoDup (map fst d) -> NoDup (map fst (set_all ps d)).
Proof.
  unfold set_all. induction ps as [|[k' v'] tl IH]; cbn; intros d H; [exact H|].
  apply IH. apply dict_set_NoDup. exact H.
Qed.

(* ------------------------------------------------------------------ *)
(** * [mapM] *)

Lemma mapM_Ok : forall {A B} (f : A -> res B) l ys,
  mapM f l = Ok ys <-> Forall2 (fun x y => f x = Ok y) l ys.
Proof.
  induction l as [|x tl IH]; cbn; intros ys.
  - split; [intros H; inversion H; constructor | intros H; inversion H; reflexivity].
  - split.
    + destruct (f x) eqn:E; [|discriminate]. destruct (mapM f tl) eqn:E2; [|discriminate].
      intros H. inversion H. subst. constructor; [exact E | apply IH; reflexivity].
    + intros H. inversion H as [|x0 y l0 l' H1 H2]; subst. rewrite H1.
      apply IH in H2. rewrite H2. reflexivity.
Qed.

Lemma mapM_total : forall {A B} (f : A -> res B) l,
  (forall x, In x l -> exists y, f x = Ok y) -> exists ys, mapM f l = Ok ys.
Proof.
  induction l as [|x tl IH]; cbn; intros H; [eexists; reflexivity|].
  destruct (H x (or_introl eq_refl)) as [y Hy]. rewrite Hy.
  destruct IH as [ys Hys]; [intros z Hz; apply H; right; exact Hz|]. rewrite Hys. eexists; reflexivity.
Qed.

Lemma Forall2_nth_l : forall {A B} (R : A -> B -> Prop) l l' i x,
  Forall2 R l l' -> nth_error l i = Some x -> exists y, nth_error l' i = Some y /\ R x y.
Proof.
  intros A B R l l' i x H. revert i. induction H as [|a b l l' H1 H2 IH]; intros [|i] Hn; cbn in *; try discriminate.
  - inversion Hn; subst. eexists; split; [reflexivity | exact H1].
  - apply IH. exact Hn.
Qed.

Lemma Forall2_nth_r : forall {A B} (R : A -> B -> Prop) l l' i y,
  Forall2 R l l' -> nth_error l' i = Some y -> exists x, nth_error l i = Some x /\ R x y.
Proof.
  intros A B R l l' i y H. revert i. induction H as [|a b l l' H1 H2 IH]; intros [|i] Hn; cbn in *; try discriminate.
  - inversion Hn; subst. eexists; split; [reflexivity | exact H1].
  - apply IH. exact Hn.
Qed.

Lemma Forall2_length' : forall {A B} (R : A -> B -> Prop) l l', Forall2 R l l' -> List.length l = List.length l'.
Proof. intros A B R l l' H. induction H; cbn; congruence. Qed.

(* ------------------------------------------------------------------ *)
(** * Rectangular experiments and the cell relation *)

(** Every column of the experiment has [n] entries. *)
Definition rectangular (n : nat) (e : experiment) : Prop :=
  Forall (fun kv => List.length (snd kv) = n) e.

(** [v] is [e[k][t]]. *)
Definition cell (e : experiment) (k : fname) (t : nat) (v : value) : Prop :=
  exists col, lookup k e = Some col /\ nth_error col t = Some v.

Lemma cell_fun : forall e k t v v', cell e k t v -> cell e k t v' -> v = v'.
Proof. intros e k t v v' [c [H1 H2]] [c' [H3 H4]]. congruence. Qed.

Lemma rectangular_lookup : forall n e k col, rectangular n e -> lookup k e = Some col -> List.length col = n.
Proof.
  intros n e k col H L. apply lookup_In in L. unfold rectangular in H. rewrite Forall_forall in H.
  apply (H (k, col)). exact L.
Qed.

Lemma columns_spec : forall keys e cols,
  columns keys e = Ok cols -> Forall2 (fun k c => lookup k e = Some c) keys cols.
Proof.
  unfold columns. intros keys e cols H. apply mapM_Ok in H.
  induction H as [|k c l l' H1 H2 IH]; constructor; [|exact IH].
  unfold getitem in H1. destruct (lookup k e); inversion H1. reflexivity.
Qed.

Lemma columns_total : forall keys e,
  (forall k, In k keys -> lookup k e <> None) -> exists cols, columns keys e = Ok cols.
Proof.
  intros keys e H. apply mapM_total. intros k Hk. unfold getitem.
  destruct (lookup k e) eqn:E; [eexists; reflexivity | exfalso; apply (H k Hk E)].
Qed.

(* ------------------------------------------------------------------ *)
(** * [zip( *cols )] *)

Lemma heads_spec : forall m cols,
  Forall (fun c => List.length c = S m) cols ->
  exists h, heads cols = Some h /\ Forall2 (fun c v => nth_error c 0 = Some v) cols h
            /\ Forall (fun c => List.length c = m) (map (@tl value) cols).
Proof.
  induction cols as [|c tl IH]; cbn; intros H.
  - exists []. repeat split; constructor.
  - inversion H as [|x l H1 H2]; subst. destruct c as [|x c']; [discriminate|].
    destruct (IH H2) as [h [E [F G]]]. rewrite E. exists (x :: h). repeat split.
    + constructor; [reflexivity | exact F].
    + constructor; [cbn in H1; cbn; lia | exact G].
Qed.

Lemma zip_star_aux_spec : forall n c0 cols,
  List.length c0 = n -> Forall (fun c => List.length c = n) cols ->
  List.length (zip_star_aux c0 cols) = n /\
  forall t row, nth_error (zip_star_aux c0 cols) t = Some row ->
                Forall2 (fun c v => nth_error c t = Some v) cols row.
Proof.
  induction n as [|n IH]; intros c0 cols L F.
  - destruct c0; [|discriminate]. cbn. split; [reflexivity|]. intros [|t] row H; discriminate.
  - destruct c0 as [|x c0']; [discriminate|]. cbn.
    destruct (heads_spec n cols F) as [h [E [F1 F2]]]. rewrite E.
    destruct (IH c0' (map (@tl value) cols)) as [L2 R2]; [cbn in L; lia | exact F2 |].
    split; [cbn; rewrite L2; reflexivity|].
    intros [|t] row H; cbn in H.
    + inversion H; subst. exact F1.
    + apply R2 in H. clear - H.
      remember (map (@tl value) cols) as tc eqn:Etc. revert cols Etc.
      induction H as [|c v l l' H1 H2 IHH]; intros cols Etc.
      * destruct cols; [constructor | discriminate].
      * destruct cols as [|c1 cols']; [discriminate|]. cbn in Etc. inversion Etc; subst.
        constructor; [destruct c1; [destruct t; discriminate | exact H1] | apply IHH; reflexivity].
Qed.

Lemma zip_star_spec : forall n cols,
  cols <> [] -> Forall (fun c => List.length c = n) cols ->
  List.length (zip_star cols) = n /\
  forall t row, nth_error (zip_star cols) t = Some row ->
                Forall2 (fun c v => nth_error c t = Some v) cols row.
Proof.
  intros n cols NE F. destruct cols as [|c cols']; [contradiction|]. unfold zip_star.
  apply zip_star_aux_spec; [inversion F; assumption | exact F].
Qed.

(** One experiment: the rows of [zip( *[e[k] for k in keys] )]. *)
Definition transposed (keys : list fname) (e : experiment) (n : nat) (rows : list (list value)) : Prop :=
  List.length rows = n /\
  forall t row, nth_error rows t = Some row -> Forall2 (fun k v => cell e k t v) keys row.

Lemma rows_of_columns : forall keys e n cols,
  keys <> [] -> rectangular n e -> columns keys e = Ok cols -> transposed keys e n (zip_star cols).
Proof.
  intros keys e n cols NE R C. apply columns_spec in C.
  assert (F : Forall (fun c => List.length c = n) cols).
  { clear NE. induction C as [|k c l l' H1 H2 IH]; constructor; [|exact IH].
    eapply rectangular_lookup; eassumption. }
  assert (NE' : cols <> []). { intros ->. inversion C. subst. contradiction. }
  destruct (zip_star_spec n cols NE' F) as [L Hr]. split; [exact L|].
  intros t row Ht. apply Hr in Ht. clear - C Ht.
  revert row Ht. induction C as [|k c l l' H1 H2 IH]; intros row Ht; inversion Ht; subst; constructor.
  - exists c. split; assumption.
  - apply IH. assumption.
Qed.

(* ------------------------------------------------------------------ *)
(** * tuples *)

Theorem tuples_transpose : forall keys exps out,
  tuples_of keys exps = Ok out ->
  Forall2 (fun e rows => forall n, keys <> [] -> rectangular n e -> transposed keys e n rows) exps out.
Proof.
  unfold tuples_of. intros keys exps out H. apply mapM_Ok in H.
  induction H as [|e rows l l' H1 H2 IH]; constructor; [|exact IH].
  intros n NE R. destruct (columns keys e) as [cols|] eqn:C; [|discriminate]. inversion H1; subst.
  eapply rows_of_columns; eassumption.
Qed.

Theorem tuples_total : forall keys exps,
  (forall e k, In e exps -> In k keys -> lookup k e <> None) -> exists out, tuples_of keys exps = Ok out.
Proof.
  intros keys exps H. apply mapM_total. intros e He.
  destruct (columns_total keys e) as [cols C]; [intros k Hk; apply (H e k He Hk)|].
  rewrite C. eexists; reflexivity.
Qed.

(* ------------------------------------------------------------------ *)
(** * dicts *)

(** [d] is the dict [{k: e[k][t] for k in keys}]. *)
Definition row_dict (keys : list fname) (e : experiment) (t : nat) (d : dict value) : Prop :=
  (forall k, In k keys -> exists v, lookup k d = Some v /\ cell e k t v) /\
  (forall k, In k (map fst d) -> In k keys) /\ NoDup (map fst d).

Lemma combine_In_Forall2 : forall {A B} (R : A -> B -> Prop) l l' a b,
  Forall2 R l l' -> In (a, b) (combine l l') -> R a b.
Proof.
  intros A B R l l' a b H. induction H as [|x y l l' H1 H2 IH]; cbn; [tauto|].
  intros [E|E]; [inversion E; subst; exact H1 | apply IH; exact E].
Qed.

Lemma combine_fst : forall {A B} (l : list A) (l' : list B), List.length l = List.length l' -> map fst (combine l l') = l.
Proof.
  induction l as [|x tl IH]; intros [|y tl'] H; cbn in *; try discriminate; [reflexivity|].
  f_equal. apply IH. lia.
Qed.

Lemma dict_of_row : forall keys e t row,
  Forall2 (fun k v => cell e k t v) keys row -> row_dict keys e t (dict_of_pairs (combine keys row)).
Proof.
  intros keys e t row F. unfold dict_of_pairs. change (fold_left _ ?ps []) with (set_all ps (@nil (fname * value))).
  assert (Hk : map fst (combine keys row) = keys) by (apply combine_fst; eapply Forall2_length'; exact F).
  repeat split.
  - intros k Hin. rewrite lookup_set_all. cbn.
    destruct (lookup k (rev (combine keys row))) as [v|] eqn:L.
    + exists v. split; [reflexivity|]. apply lookup_In in L. apply in_rev in L.
      eapply (combine_In_Forall2 (fun k v => cell e k t v)); eassumption.
    + exfalso. apply lookup_None_notin in L. apply L. rewrite map_rev, <- in_rev, Hk. exact Hin.
  - intros k Hin. apply set_all_keys in Hin. destruct Hin as [Hin|[]]. rewrite Hk in Hin. exact Hin.
  - apply set_all_NoDup. constructor.
Qed.

Theorem dicts_transpose : forall keys exps out,
  dicts_of keys exps = Ok out ->
  Forall2 (fun e rows => forall n, keys <> [] -> rectangular n e ->
             List.length rows = n /\ forall t d, nth_error rows t = Some d -> row_dict keys e t d) exps out.
Proof.
  unfold dicts_of. intros keys exps out H. apply mapM_Ok in H.
  induction H as [|e rows l l' H1 H2 IH]; constructor; [|exact IH].
  intros n NE R. destruct (columns keys e) as [cols|] eqn:C; [|discriminate]. inversion H1; subst.
  destruct (rows_of_columns keys e n cols NE R C) as [L Hr]. split; [rewrite map_length; exact L|].
  intros t d Hd. rewrite nth_error_map in Hd. destruct (nth_error (zip_star cols) t) as [row|] eqn:E; [|discriminate].
  inversion Hd; subst. apply dict_of_row. apply Hr. exact E.
Qed.

Theorem dicts_total : forall keys exps,
  (forall e k, In e exps -> In k keys -> lookup k e <> None) -> exists out, dicts_of keys exps = Ok out.
Proof.
  intros keys exps H. apply mapM_total. intros e He.
  destruct (columns_total keys e) as [cols C]; [intros k Hk; apply (H e k He Hk)|].
  rewrite C. eexists; reflexivity.
Qed.

(* ------------------------------------------------------------------ *)
(** * CSV *)

Lemma seq_nth_error : forall n s t, t < n -> nth_error (seq s n) t = Some (s + t).
Proof.
  induction n as [|n IH]; intros s t H; [lia|]. destruct t as [|t]; cbn; [f_equal; lia|].
  rewrite IH by lia. f_equal. lia.
Qed.

Theorem csv_one_rows : forall cols e hdr rows n,
  csv_one cols e = Ok (hdr, rows) -> rectangular n e ->
  hdr = cols /\ cols <> [] /\ transposed cols e n rows.
Proof.
  unfold csv_one. intros cols e hdr rows n H R. destruct cols as [|c0 cols']; [discriminate|].
  remember (c0 :: cols') as cols eqn:Ec.
  destruct (getitem c0 e) as [col0|] eqn:G; [|discriminate].
  match type of H with context [mapM ?f ?l] => destruct (mapM f l) as [rs|] eqn:M; [|discriminate] end.
  inversion H; subst hdr rows. split; [reflexivity|]. split; [subst cols; discriminate|].
  apply mapM_Ok in M.
  assert (L0 : List.length col0 = n).
  { unfold getitem in G. destruct (lookup c0 e) eqn:L; inversion G; subst. eapply rectangular_lookup; eassumption. }
  split.
  - apply Forall2_length' in M. rewrite seq_length in M. lia.
  - intros t row Ht. destruct (Forall2_nth_r _ _ _ _ _ M Ht) as [idx [Hi Hrow]].
    assert (t < n).
    { apply Forall2_length' in M. rewrite seq_length in M.
      assert (t < List.length rs) by (apply nth_error_Some; congruence). lia. }
    rewrite seq_nth_error in Hi by lia. inversion Hi; subst idx. cbn in Hrow.
    apply mapM_Ok in Hrow. clear - Hrow.
    induction Hrow as [|k v l l' H1 H2 IH]; constructor; [|exact IH].
    unfold getitem, index_nat in H1. destruct (lookup k e) as [col|] eqn:L; [|discriminate].
    destruct (nth_error col t) eqn:N; inversion H1; subst. exists col. split; assumption.
Qed.

Theorem csv_rows : forall cols exps out,
  csv_of cols exps = Ok out ->
  Forall2 (fun e file => forall n, rectangular n e ->
             fst file = cols /\ transposed cols e n (snd file)) exps out.
Proof.
  unfold csv_of. intros cols exps out H. apply mapM_Ok in H.
  induction H as [|e [hdr rows] l l' H1 H2 IH]; constructor; [|exact IH].
  intros n R. destruct (csv_one_rows _ _ _ _ _ H1 R) as [A [_ B]]. split; assumption.
Qed.

Theorem csv_total : forall cols exps n,
  cols <> [] -> (forall e, In e exps -> rectangular n e) ->
  (forall e k, In e exps -> In k cols -> lookup k e <> None) -> exists out, csv_of cols exps = Ok out.
Proof.
  intros cols exps n NE R H. apply mapM_total. intros e He. unfold csv_one.
  destruct cols as [|c0 cols']; [contradiction|]. remember (c0 :: cols') as cols eqn:Ec.
  assert (H0 : lookup c0 e <> None) by (apply (H e c0 He); subst cols; left; reflexivity).
  unfold getitem at 1. destruct (lookup c0 e) as [col0|] eqn:L0; [|contradiction].
  assert (Ln : List.length col0 = n) by (eapply rectangular_lookup; [apply R; exact He | exact L0]).
  match goal with |- context [mapM ?f ?l] => destruct (mapM_total f l) as [rs M] end.
  - intros idx Hidx. apply in_seq in Hidx. apply mapM_total. intros k Hk. unfold getitem.
    destruct (lookup k e) as [col|] eqn:L; [|exfalso; apply (H e k He Hk L)].
    assert (List.length col = n) by (eapply rectangular_lookup; [apply R; exact He | exact L]).
    unfold index_nat. destruct (nth_error col idx) eqn:N; [eexists; reflexivity|].
    apply nth_error_None in N. lia.
  - rewrite M. eexists; reflexivity.
Qed.

(* ------------------------------------------------------------------ *)
(** * Which keys the conversions use; hidden names *)

Lemma filter_hidden_spec : forall design k, In k (filter_hidden design) <-> In k design /\ is_hidden k = false.
Proof.
  intros design k. unfold filter_hidden. rewrite filter_In. destruct (is_hidden k); cbn; intuition congruence.
Qed.

(** The conversions use exactly the user-declared factor names, in declaration order. *)
Theorem conv_keys_user_declared : forall d, conv_keys d = user_names d.
Proof.
  intros d. unfold conv_keys, filter_hidden, user_names. induction d as [|f tl IH]; cbn; [reflexivity|].
  f_equal. exact IH.
Qed.

Lemma user_names_not_hidden : forall d, Forall (fun k => is_hidden k = false) (user_names d).
Proof. intros d. unfold user_names. apply Forall_forall. intros k H. apply in_map_iff in H. destruct H as [f [<- _]]. reflexivity. Qed.

(** [block.design] names are user-declared names, possibly hidden-wrapped. *)
Lemma block_design_names : forall cr d k, In k (block_design cr d) ->
  exists f, In f d /\ (k = Plain (uname f) \/ k = Hidden (uname f)).
Proof.
  intros cr d k H. unfold block_design in H. apply in_map_iff in H. destruct H as [[k' f] [E H]]. cbn in E. subst k'.
  apply filter_In in H. destruct H as [H _]. unfold desugar_design in H. apply in_flat_map in H.
  destruct H as [g [Hg H]]. exists g. split; [exact Hg|].
  destruct (is_weighted cr g); cbn in H; intuition (try congruence); inversion H0; auto.
Qed.

Lemma filter_hidden_keys_lookup : forall {A} k (d : dict A),
  lookup k (filter_hidden_keys d) = if is_hidden k then None else lookup k d.
Proof.
  unfold filter_hidden_keys. induction d as [|[k' v'] tl IH]; cbn; [destruct (is_hidden k); reflexivity|].
  destruct (is_hidden k') eqn:Hk'; cbn.
  - rewrite IH. destruct (fname_eqb k k') eqn:E; [|reflexivity].
    apply fname_eqb_eq in E. subst. rewrite Hk'. reflexivity.
  - destruct (fname_eqb k k') eqn:E; [|exact IH].
    apply fname_eqb_eq in E. subst. rewrite Hk'. reflexivity.
Qed.

Lemma filter_hidden_keys_plain : forall {A} (d : dict A), Forall (fun kv => is_hidden (fst kv) = false) (filter_hidden_keys d).
Proof.
  intros A d. unfold filter_hidden_keys. apply Forall_forall. intros kv H. apply filter_In in H.
  destruct H as [_ H]. destruct (is_hidden (fst kv)); [discriminate | reflexivity].
Qed.

(** What [synthesize_trials] returns has no hidden key, and for a [str] key it
    is the continuous sample if there is one, else the sampled / implied column. *)
Theorem synth_post_spec : forall with_implied cont,
  Forall (fun kv => is_hidden (fst kv) = false) cont ->
  Forall (fun kv => is_hidden (fst kv) = false) (synth_post with_implied cont) /\
  forall s, lookup (Plain s) (synth_post with_implied cont) =
            match lookup (Plain s) (rev cont) with Some v => Some v | None => lookup (Plain s) with_implied end.
Proof.
  intros wi cont Hc. unfold synth_post. change (fold_left _ ?ps ?d) with (set_all ps d). split.
  - apply Forall_forall. intros [k v] Hin. cbn.
    assert (Hk : In k (map fst (set_all cont (filter_hidden_keys wi)))) by (apply in_map_iff; exists (k, v); auto).
    apply set_all_keys in Hk. destruct Hk as [Hk|Hk]; apply in_map_iff in Hk; destruct Hk as [[k' v'] [E Hin']]; cbn in E; subst k'.
    + rewrite Forall_forall in Hc. apply (Hc (k, v')). exact Hin'.
    + pose proof (filter_hidden_keys_plain wi) as F. rewrite Forall_forall in F. apply (F (k, v')). exact Hin'.
  - intros s. rewrite lookup_set_all, filter_hidden_keys_lookup. reflexivity.
Qed.

(* ------------------------------------------------------------------ *)
(** * The public functions, entry by entry *)

(** [rows] holds, for every trial [t < n] and every position [i], the value
    [exp[name of the i-th user-declared factor][t]]. *)
Definition entries (d : list ufactor) (exp : experiment) (n : nat) (rows : list (list value)) : Prop :=
  List.length rows = n /\
  forall t row, nth_error rows t = Some row ->
    List.length row = List.length d /\
    forall i f, nth_error d i = Some f ->
      exists v, nth_error row i = Some v /\ cell exp (Plain (uname f)) t v.

Lemma transposed_entries : forall d exp n rows,
  transposed (user_names d) exp n rows -> entries d exp n rows.
Proof.
  intros d exp n rows [L H]. split; [exact L|]. intros t row Ht. specialize (H t row Ht). split.
  - apply Forall2_length' in H. unfold user_names in H. rewrite map_length in H. lia.
  - intros i f Hf.
    assert (Hk : nth_error (user_names d) i = Some (Plain (uname f))).
    { unfold user_names. rewrite nth_error_map, Hf. reflexivity. }
    destruct (Forall2_nth_l _ _ _ _ _ H Hk) as [v [Hv Hc]]. exists v. split; assumption.
Qed.

Lemma user_names_nil : forall d, d <> [] -> user_names d <> [].
Proof. intros [|f tl] H; [contradiction | discriminate]. Qed.

Theorem tuples_entry : forall d exps out,
  experiments_to_tuples d exps = Ok out ->
  List.length out = List.length exps /\
  forall e exp n, nth_error exps e = Some exp -> rectangular n exp -> d <> [] ->
    exists rows, nth_error out e = Some rows /\ entries d exp n rows.
Proof.
  unfold experiments_to_tuples. intros d exps out H. rewrite conv_keys_user_declared in H.
  apply tuples_transpose in H. split; [symmetry; eapply Forall2_length'; exact H|].
  intros e exp n He R NE. destruct (Forall2_nth_l _ _ _ _ _ H He) as [rows [Hr Ht]].
  exists rows. split; [exact Hr|]. apply transposed_entries. apply Ht; [apply user_names_nil; exact NE | exact R].
Qed.

(** [dc] is [{name: exp[name][t]}] over exactly the user-declared names. *)
Definition dict_entries (d : list ufactor) (exp : experiment) (t : nat) (dc : dict value) : Prop :=
  (forall f, In f d -> exists v, lookup (Plain (uname f)) dc = Some v /\ cell exp (Plain (uname f)) t v) /\
  (forall k, In k (map fst dc) -> exists f, In f d /\ k = Plain (uname f)) /\
  NoDup (map fst dc).

Theorem dicts_entry : forall d exps out,
  experiments_to_dicts d exps = Ok out ->
  List.length out = List.length exps /\
  forall e exp n, nth_error exps e = Some exp -> rectangular n exp -> d <> [] ->
    exists rows, nth_error out e = Some rows /\ List.length rows = n /\
      forall t dc, nth_error rows t = Some dc -> dict_entries d exp t dc.
Proof.
  unfold experiments_to_dicts. intros d exps out H. rewrite conv_keys_user_declared in H.
  apply dicts_transpose in H. split; [symmetry; eapply Forall2_length'; exact H|].
  intros e exp n He R NE. destruct (Forall2_nth_l _ _ _ _ _ H He) as [rows [Hr Ht]].
  exists rows. split; [exact Hr|]. destruct (Ht n (user_names_nil d NE) R) as [L Hd]. split; [exact L|].
  intros t dc Hdc. destruct (Hd t dc Hdc) as [A [B C]]. repeat split.
  - intros f Hf. apply A. unfold user_names. apply in_map_iff. exists f. auto.
  - intros k Hk. apply B in Hk. unfold user_names in Hk. apply in_map_iff in Hk. destruct Hk as [f [E Hf]]. exists f. auto.
  - exact C.
Qed.

Theorem csv_entry : forall d exps out,
  save_experiments_csv d exps = Ok out ->
  List.length out = List.length exps /\
  forall e exp n, nth_error exps e = Some exp -> rectangular n exp ->
    exists file, nth_error out e = Some file /\ fst file = user_names d /\ entries d exp n (snd file).
Proof.
  unfold save_experiments_csv. intros d exps out H. rewrite conv_keys_user_declared in H.
  apply csv_rows in H. split; [symmetry; eapply Forall2_length'; exact H|].
  intros e exp n He R. destruct (Forall2_nth_l _ _ _ _ _ H He) as [file [Hf Ht]].
  exists file. split; [exact Hf|]. destruct (Ht n R) as [A B]. split; [exact A|].
  apply transposed_entries. exact B.
Qed.

(** The conversions succeed on every well-formed input. *)
Definition well_formed (d : list ufactor) (n : nat) (exps : list experiment) : Prop :=
  forall exp, In exp exps -> rectangular n exp /\ forall f, In f d -> lookup (Plain (uname f)) exp <> None.

Theorem conversions_total : forall d n exps,
  d <> [] -> well_formed d n exps ->
  (exists o, experiments_to_tuples d exps = Ok o) /\ (exists o, experiments_to_dicts d exps = Ok o) /\
  (exists o, save_experiments_csv d exps = Ok o).
Proof.
  intros d n exps NE W. unfold experiments_to_tuples, experiments_to_dicts, save_experiments_csv.
  rewrite conv_keys_user_declared.
  assert (K : forall e k, In e exps -> In k (user_names d) -> lookup k e <> None).
  { intros e k He Hk. unfold user_names in Hk. apply in_map_iff in Hk. destruct Hk as [f [<- Hf]]. apply (W e He). exact Hf. }
  repeat split.
  - apply tuples_total. exact K.
  - apply dicts_total. exact K.
  - apply (csv_total _ _ n); [apply user_names_nil; exact NE | intros e He; apply (W e He) | exact K].
Qed.

(** Hidden names: every key that can be seen from outside is a user-declared
    [str] name, although [block.design] (the keys of the sampled experiment)
    contains a hidden factor for every desugared weighted factor. *)
Theorem hidden_never_exposed :
  (forall d, conv_keys d = user_names d /\ Forall (fun k => is_hidden k = false) (conv_keys d)) /\
  (forall with_implied cont,
     Forall (fun kv => is_hidden (fst kv) = false) cont ->
     Forall (fun kv => is_hidden (fst kv) = false) (synth_post with_implied cont) /\
     forall s, lookup (Plain s) (synth_post with_implied cont) =
               match lookup (Plain s) (rev cont) with Some v => Some v | None => lookup (Plain s) with_implied end) /\
  (forall cr d f, In f d -> is_weighted cr f = true ->
     In (Hidden (uname f)) (block_design cr d) /\ ~ In (Hidden (uname f)) (conv_keys d)).
Proof.
  split; [|split].
  - intros d. rewrite conv_keys_user_declared. split; [reflexivity | apply user_names_not_hidden].
  - exact synth_post_spec.
  - intros cr d f Hf W. split.
    + unfold block_design. apply in_map_iff. exists (Hidden (uname f), f). split; [reflexivity|].
      apply filter_In. split.
      * unfold desugar_design. apply in_flat_map. exists f. split; [exact Hf|]. rewrite W. left. reflexivity.
      * cbn. destruct f; cbn in *; try discriminate. reflexivity.
    + intros Hin. apply filter_hidden_spec in Hin. destruct Hin as [_ Hin]. discriminate.
Qed.
