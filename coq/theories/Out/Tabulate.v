(** Model of [tabulate_experiments] of sweetpea/_internal/main.py: the table
    data it computes for every experiment (rows in [itertools.product] order,
    frequency over the selected trial indices, percentage as the exact rational
    [100 * frequency / len(trials)], 0 for an empty selection), the defaults of [factors] and [trials],
    and the exceptions it can raise.  The text layout of the printed table is
    not modelled (the harness parses it back).

    Executable definitions only; proofs are in Out/TabulateProofs.v. *)
From Coq Require Import ZArith List Bool String.
From SP Require Import Out.Convert.
Import ListNotations.
Open Scope Z_scope.

(** A selected factor: its name and the names of its levels, in order. *)
Definition tfactor := (fname * list value)%type.

(** One printed row: the combination of level names, the frequency and the
    percentage as numerator / denominator. *)
Definition row := (list value * (Z * (Z * Z)))%type.
Definition table := list row.

(** [itertools.product( *levels )]: the last position varies fastest; one
    empty combination for no factors. *)
Fixpoint product {A : Type} (ls : list (list A)) : list (list A) :=
  match ls with
  | [] => [[]]
  | l :: rest => flat_map (fun x => map (cons x) (product rest)) l
  end.

(** Python list indexing [l[i]], negative [i] counting from the end. *)
Definition py_index {A : Type} (l : list A) (i : Z) : res A :=
  let n := Z.of_nat (List.length l) in
  let j := if i <? 0 then i + n else i in
  if (j <? 0) || (n <=? j) then Err IndexError
  else match nth_error l (Z.to_nat j) with Some v => Ok v | None => Err IndexError end.

(** The inner loop
    [for idx, factor in enumerate(tabulation.keys()):
         if e[factor][trial] != element[idx]: valid_condition = False; break]. *)
Fixpoint row_matches (keys : list fname) (element : list value) (e : experiment) (trial : Z) : res bool :=
  match keys with
  | [] => Ok true
  | k :: ks =>
    match getitem k e with
    | Err x => Err x
    | Ok col =>
      match py_index col trial with
      | Err x => Err x
      | Ok v =>
        match element with
        | [] => Err IndexError
        | x :: xs => if value_eqb v x then row_matches ks xs e trial else Ok false
        end
      end
    end
  end.

(** [for trial in trials: ... if valid_condition: frequency += 1] *)
Fixpoint frequency (keys : list fname) (element : list value) (e : experiment) (trials : list Z) : res Z :=
  match trials with
  | [] => Ok 0
  | t :: ts =>
    match row_matches keys element e t with
    | Err x => Err x
    | Ok b =>
      match frequency keys element e ts with
      | Err x => Err x
      | Ok n => Ok ((if b then 1 else 0) + n)
      end
    end
  end.

(** The body of [for element in product( *levels )] for one experiment;
    [proportion = frequency / num_trials if num_trials > 0 else 0]. *)
Definition tabulate_one (factors : list tfactor) (e : experiment) (trials : list Z) : res table :=
  let keys := map fst factors in
  let num_trials := Z.of_nat (List.length trials) in
  mapM (fun element =>
          match frequency keys element e trials with
          | Err x => Err x
          | Ok f => Ok (element, (f, if 0 <? num_trials then (100 * f, num_trials) else (0, 1)))
          end)
       (product (map snd factors)).

(** [exp_trials = list(range(0, len(e[list(e.keys())[0]]))) if trials is None else trials] *)
Definition default_trials (e : experiment) (trials : option (list Z)) : res (list Z) :=
  match trials with
  | Some t => Ok t
  | None =>
    match e with
    | [] => Err IndexError
    | (_, col) :: _ => Ok (map Z.of_nat (seq 0 (List.length col)))
    end
  end.

(** The loop over the experiments; the default of [trials] is computed per
    experiment.  Result: the tables printed, and the exception that ended the
    call, if any. *)
Fixpoint tabulate_loop (factors : list tfactor) (exps : list experiment) (trials : option (list Z))
  : list table * option err :=
  match exps with
  | [] => ([], None)
  | e :: rest =>
    match default_trials e trials with
    | Err x => ([], Some x)
    | Ok tr =>
      match tabulate_one factors e tr with
      | Err x => ([], Some x)
      | Ok tb => let (tbs, st) := tabulate_loop factors rest trials in (tb :: tbs, st)
      end
    end
  end.

(** [tabulate_experiments(block, experiments, factors, trials)]: [crossings] is
    [Some] of the crossings of [block] if a block (with crossings) was given. *)
Definition tabulate_experiments (crossings : option (list (list tfactor)))
           (exps : option (list experiment)) (factors : option (list tfactor))
           (trials : option (list Z)) : list table * option err :=
  let fs := match factors with
            | Some f => Ok f
            | None => match crossings with
                      | Some [c] => Ok c
                      | _ => Err RuntimeError
                      end
            end in
  match fs with
  | Err x => ([], Some x)
  | Ok f =>
    match exps with
    | None => ([], Some RuntimeError)
    | Some es => tabulate_loop f es trials
    end
  end.
