(** Proofs about Out/Tabulate.v against the reference semantics Out/TabulateSpec.v. *)
From Coq Require Import ZArith List Bool String Lia.
From SP Require Import Out.Convert Out.ConvertProofs Out.Tabulate Out.TabulateSpec.
Import ListNotations.
Local Open Scope Z_scope.

Lemma value_eqb_eq : forall a b, value_eqb a b = true <-> a = b.
Proof.
  intros [x|x] [y|y]; cbn; try (split; [discriminate | intros H; inversion H]).
  - rewrite String.eqb_eq. split; [intros ->; reflexivity | intros H; inversion H; reflexivity].
  - rewrite Z.eqb_eq. split; [intros ->; reflexivity | intros H; inversion H; reflexivity].
Qed.

Lemma py_index_pyget : forall {A} (col : list A) t,
  py_index col t = match pyget col t with Some v => Ok v | None => Err IndexError end.
Proof.
  intros A col t. unfold py_index, pyget.
  destruct (t <? 0) eqn:E1.
  - assert (E2 : (0 <=? t) = false) by lia. rewrite E2.
    destruct (0 <=? t + Z.of_nat (List.length col)) eqn:E3.
    + assert (E4 : ((t + Z.of_nat (List.length col) <? 0) || (Z.of_nat (List.length col) <=? t + Z.of_nat (List.length col))) = false) by lia.
      rewrite E4. destruct (nth_error col _); reflexivity.
    + assert (E4 : ((t + Z.of_nat (List.length col) <? 0) || (Z.of_nat (List.length col) <=? t + Z.of_nat (List.length col))) = true) by lia.
      rewrite E4. reflexivity.
  - assert (E2 : (0 <=? t) = true) by lia. rewrite E2.
    destruct ((t <? 0) || (Z.of_nat (List.length col) <=? t)) eqn:E3.
    + destruct (nth_error col (Z.to_nat t)) eqn:N; [|reflexivity].
      assert (Z.to_nat t < List.length col)%nat by (apply nth_error_Some; congruence). lia.
    + destruct (nth_error col (Z.to_nat t)); reflexivity.
Qed.

(* ------------------------------------------------------------------ *)
(** * The inner loops *)

Lemma row_matches_spec : forall e keys t r c,
  sel_row e keys t = Some r -> List.length c = List.length keys ->
  row_matches keys c e t = Ok (if combo_eq_dec r c then true else false).
Proof.
  induction keys as [|k ks IH]; cbn; intros t r c S L.
  - inversion S; subst. destruct c; [|discriminate]. destruct (combo_eq_dec [] []); [reflexivity | contradiction].
  - unfold getitem. destruct (lookup k e) as [col|]; [|discriminate].
    rewrite py_index_pyget. destruct (pyget col t) as [v|]; [|discriminate].
    destruct (sel_row e ks t) as [r'|] eqn:S'; [|discriminate]. inversion S; subst r.
    destruct c as [|x xs]; [discriminate|]. cbn in L.
    destruct (value_eqb v x) eqn:E.
    + apply value_eqb_eq in E. subst x. rewrite (IH t r' xs S') by lia.
      destruct (combo_eq_dec r' xs) as [->|N]; destruct (combo_eq_dec (v :: xs) (v :: xs)) as [|N2]; try reflexivity; try contradiction.
      destruct (combo_eq_dec (v :: r') (v :: xs)) as [E2|]; [inversion E2; contradiction | reflexivity].
    + destruct (combo_eq_dec (v :: r') (x :: xs)) as [E2|]; [|reflexivity].
      inversion E2; subst. assert (value_eqb x x = true) by (apply value_eqb_eq; reflexivity). congruence.
Qed.

Lemma frequency_spec : forall e keys c trials,
  (forall t, In t trials -> sel_row e keys t <> None) -> List.length c = List.length keys ->
  frequency keys c e trials = Ok (count e keys trials c).
Proof.
  intros e keys c trials. unfold count. induction trials as [|t ts IH]; intros V L; [reflexivity|].
  cbn [frequency filter].
  destruct (sel_row e keys t) as [r|] eqn:S; [|exfalso; apply (V t); [left; reflexivity | exact S]].
  rewrite (row_matches_spec e keys t r c S L). rewrite IH; [|intros u Hu; apply V; right; exact Hu | exact L].
  unfold has_combo at 2. rewrite S. destruct (combo_eq_dec r c); cbn [List.length]; f_equal; lia.
Qed.

(* ------------------------------------------------------------------ *)
(** * [product] *)

Lemma In_product : forall {A} (ls : list (list A)) c,
  In c (product ls) <-> Forall2 (fun x l => In x l) c ls.
Proof.
  induction ls as [|l rest IH]; cbn; intros c.
  - split; [intros [<-|[]]; constructor | intros H; inversion H; left; reflexivity].
  - rewrite in_flat_map. split.
    + intros [x [Hx Hc]]. apply in_map_iff in Hc. destruct Hc as [c' [<- Hc']]. constructor; [exact Hx | apply IH; exact Hc'].
    + intros H. inversion H as [|x l0 c' ls' H1 H2]; subst. exists x. split; [exact H1|].
      apply in_map_iff. exists c'. split; [reflexivity | apply IH; exact H2].
Qed.

Lemma product_elem_length : forall {A} (ls : list (list A)) c, In c (product ls) -> List.length c = List.length ls.
Proof. intros A ls c H. apply In_product in H. eapply Forall2_length'. exact H. Qed.

Lemma NoDup_map_cons : forall {A} (x : A) l, NoDup l -> NoDup (map (cons x) l).
Proof.
  intros A x l H. induction H as [|y l H1 H2 IH]; cbn; constructor; [|exact IH].
  intros Hin. apply in_map_iff in Hin. destruct Hin as [z [E Hz]]. inversion E; subst. contradiction.
Qed.

Lemma NoDup_app_intro : forall {A} (l1 l2 : list A),
  NoDup l1 -> NoDup l2 -> (forall x, In x l1 -> ~ In x l2) -> NoDup (l1 ++ l2).
Proof.
  induction l1 as [|a l1 IH]; cbn; intros l2 H1 H2 D; [exact H2|].
  inversion H1; subst. constructor.
  - rewrite in_app_iff. intros [H|H]; [contradiction | apply (D a); [left; reflexivity | exact H]].
  - apply IH; [assumption | assumption | intros x Hx; apply D; right; exact Hx].
Qed.

Lemma NoDup_product : forall {A} (ls : list (list A)), Forall (@NoDup A) ls -> NoDup (product ls).
Proof.
  induction ls as [|l rest IH]; cbn; intros H.
  - constructor; [tauto | constructor].
  - inversion H as [|l0 ls0 Hl Hrest]; subst. specialize (IH Hrest). clear H Hrest.
    induction Hl as [|x l Hx Hl IHl]; cbn; [constructor|].
    apply NoDup_app_intro; [apply NoDup_map_cons; exact IH | exact IHl|].
    intros c Hc Hc2. apply in_map_iff in Hc. destruct Hc as [c' [<- _]].
    apply in_flat_map in Hc2. destruct Hc2 as [y [Hy Hc2]]. apply in_map_iff in Hc2.
    destruct Hc2 as [c2 [E _]]. inversion E; subst. contradiction.
Qed.

(* ------------------------------------------------------------------ *)
(** * One experiment *)

Lemma mapM_map : forall {A B} (f : A -> res B) (g : A -> B) l,
  (forall x, In x l -> f x = Ok (g x)) -> mapM f l = Ok (map g l).
Proof.
  induction l as [|x tl IH]; cbn; intros H; [reflexivity|].
  rewrite (H x (or_introl eq_refl)), IH; [reflexivity | intros y Hy; apply H; right; exact Hy].
Qed.

Theorem tabulate_one_spec : forall factors e trials,
  (forall t, In t trials -> sel_row e (map fst factors) t <> None) ->
  tabulate_one factors e trials = Ok (spec_table factors e trials).
Proof.
  intros factors e trials V. unfold tabulate_one, spec_table. apply mapM_map.
  intros c Hc. rewrite frequency_spec; [reflexivity | exact V|].
  apply product_elem_length in Hc. rewrite !map_length in *. exact Hc.
Qed.

(* ------------------------------------------------------------------ *)
(** * All experiments *)

Lemma default_trials_spec : forall e trials,
  (trials = None -> e <> []) -> default_trials e trials = Ok (eff_trials e trials).
Proof.
  intros e [t|] H; cbn; [reflexivity|]. destruct e as [|[k col] tl]; [exfalso; apply H; reflexivity | reflexivity].
Qed.

Theorem tabulate_loop_spec : forall factors exps trials,
  (forall e, In e exps -> valid (map fst factors) trials e) ->
  tabulate_loop factors exps trials = (map (fun e => spec_table factors e (eff_trials e trials)) exps, None).
Proof.
  induction exps as [|e rest IH]; cbn; intros trials V; [reflexivity|].
  destruct (V e (or_introl eq_refl)) as [V1 V2].
  rewrite default_trials_spec by exact V1. rewrite tabulate_one_spec by exact V2.
  rewrite IH; [reflexivity | intros e' He'; apply V; right; exact He'].
Qed.

Theorem tabulate_counts : forall crossings exps factors trials,
  (forall e, In e exps -> valid (map fst factors) trials e) ->
  tabulate_experiments crossings (Some exps) (Some factors) trials =
  (map (fun e => spec_table factors e (eff_trials e trials)) exps, None).
Proof. intros. cbn. apply tabulate_loop_spec. assumption. Qed.

Theorem tabulate_counts_default_factors : forall c exps trials,
  (forall e, In e exps -> valid (map fst c) trials e) ->
  tabulate_experiments (Some [c]) (Some exps) None trials =
  (map (fun e => spec_table c e (eff_trials e trials)) exps, None).
Proof. intros. cbn. apply tabulate_loop_spec. assumption. Qed.

(* ------------------------------------------------------------------ *)
(** * Rows, percentages, totals of the reference table *)

Theorem spec_table_rows : forall factors e trials,
  map fst (spec_table factors e trials) = product (map snd factors) /\
  forall c, In c (product (map snd factors)) <-> Forall2 (fun x l => In x l) c (map snd factors).
Proof.
  intros. split; [|intros c; apply In_product].
  unfold spec_table. rewrite map_map. cbn. apply map_id.
Qed.

Lemma filter_length_le' : forall {A} (f : A -> bool) l, (List.length (filter f l) <= List.length l)%nat.
Proof. induction l as [|x tl IH]; cbn; [lia|]. destruct (f x); cbn; lia. Qed.

Theorem spec_table_row : forall factors e trials c f num den,
  In (c, (f, (num, den))) (spec_table factors e trials) ->
  let n := Z.of_nat (List.length trials) in
  f = count e (map fst factors) trials c /\ 0 <= f <= n /\
  (0 < n -> num = 100 * f /\ den = n) /\ (n = 0 -> f = 0 /\ num = 0 /\ den = 1).
Proof.
  intros factors e trials c f num den H n. unfold spec_table in H. apply in_map_iff in H.
  destruct H as [c' [E _]]. inversion E; subst c' f. clear E.
  assert (B : 0 <= count e (map fst factors) trials c <= n).
  { unfold count, n. pose proof (filter_length_le' (has_combo e (map fst factors) c) trials). lia. }
  split; [reflexivity|]. split; [exact B|]. fold n in H2. split.
  - intros Hn. assert (E : (0 <? n) = true) by lia. rewrite E in H2. inversion H2. split; reflexivity.
  - intros Hn. assert (E : (0 <? n) = false) by lia. rewrite E in H2. inversion H2. repeat split; lia.
Qed.

Lemma sumZ_map_add : forall {A} (f g : A -> Z) l,
  sumZ (map (fun x => f x + g x) l) = sumZ (map f l) + sumZ (map g l).
Proof. induction l as [|x tl IH]; cbn; [reflexivity|]. unfold sumZ in *. cbn. lia. Qed.

Lemma sumZ_map_ext : forall {A} (f g : A -> Z) l, (forall x, f x = g x) -> sumZ (map f l) = sumZ (map g l).
Proof. intros A f g l H. induction l as [|x tl IH]; cbn; [reflexivity|]. unfold sumZ in *. cbn. rewrite H, IH. reflexivity. Qed.

Lemma sum_indicator : forall (P : list (list value)) r,
  NoDup P -> In r P -> sumZ (map (fun c => if combo_eq_dec r c then 1 else 0) P) = 1.
Proof.
  induction P as [|c P IH]; intros r ND Hin; [contradiction|]. inversion ND as [|x l Hn ND']; subst.
  unfold sumZ in *. cbn. destruct (combo_eq_dec r c) as [->|N].
  - assert (Z0 : fold_right Z.add 0 (map (fun c0 => if combo_eq_dec c c0 then 1 else 0) P) = 0).
    { clear - Hn. induction P as [|d P IH]; cbn; [reflexivity|].
      destruct (combo_eq_dec c d) as [->|]; [exfalso; apply Hn; left; reflexivity|].
      rewrite IH; [reflexivity | intros H; apply Hn; right; exact H]. }
    rewrite Z0. reflexivity.
  - destruct Hin as [->|Hin]; [contradiction|]. rewrite IH by assumption. reflexivity.
Qed.

Lemma sum_counts : forall e keys trials (P : list (list value)),
  NoDup P -> (forall t, In t trials -> exists r, sel_row e keys t = Some r /\ In r P) ->
  sumZ (map (count e keys trials) P) = Z.of_nat (List.length trials).
Proof.
  intros e keys trials P ND. induction trials as [|t ts IH]; intros H.
  - unfold count. cbn. clear. induction P; cbn; [reflexivity|]. unfold sumZ in *. cbn. exact IHP.
  - destruct (H t (or_introl eq_refl)) as [r [S Hr]].
    rewrite (sumZ_map_ext (count e keys (t :: ts)) (fun c => (if combo_eq_dec r c then 1 else 0) + count e keys ts c)).
    + rewrite sumZ_map_add, sum_indicator by assumption. rewrite IH; [cbn [List.length]; lia|].
      intros u Hu. apply H. right. exact Hu.
    + intros c. unfold count. cbn [filter]. unfold has_combo at 1. rewrite S.
      destruct (combo_eq_dec r c); cbn [List.length]; lia.
Qed.

Theorem tabulate_total : forall factors e trials,
  Forall (@NoDup value) (map snd factors) ->
  (forall t, In t trials -> exists r, sel_row e (map fst factors) t = Some r /\
                                      Forall2 (fun x l => In x l) r (map snd factors)) ->
  sumZ (map (fun r => fst (snd r)) (spec_table factors e trials)) = Z.of_nat (List.length trials).
Proof.
  intros factors e trials ND H. unfold spec_table. rewrite map_map. cbn.
  apply sum_counts; [apply NoDup_product; exact ND|].
  intros t Ht. destruct (H t Ht) as [r [S F]]. exists r. split; [exact S | apply In_product; exact F].
Qed.
