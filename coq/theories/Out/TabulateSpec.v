(** Reference semantics for C21, written from the documentation of
    [tabulate_experiments], not from its code: which value a selected trial has
    for a selected factor, when a trial has a given combination of levels, and
    the number of selected trials with that combination. *)
From Coq Require Import ZArith List Bool String.
From SP Require Import Out.Convert Out.Tabulate.
Import ListNotations.
Open Scope Z_scope.

Definition value_eq_dec : forall a b : value, {a = b} + {a <> b}.
Proof. decide equality; [apply string_dec | apply Z.eq_dec]. Defined.

Definition combo_eq_dec : forall a b : list value, {a = b} + {a <> b} := list_eq_dec value_eq_dec.

(** Python's [col[t]]: [t] counts from the end if negative; [None] if out of range. *)
Definition pyget {A : Type} (col : list A) (t : Z) : option A :=
  if 0 <=? t then nth_error col (Z.to_nat t)
  else if 0 <=? t + Z.of_nat (List.length col) then nth_error col (Z.to_nat (t + Z.of_nat (List.length col)))
  else None.

(** The values of trial [t] of experiment [e] for the selected factors
    ([None] if a factor is missing or the index is out of range). *)
Fixpoint sel_row (e : experiment) (keys : list fname) (t : Z) : option (list value) :=
  match keys with
  | [] => Some []
  | k :: ks =>
    match lookup k e with
    | None => None
    | Some col =>
      match pyget col t, sel_row e ks t with
      | Some v, Some r => Some (v :: r)
      | _, _ => None
      end
    end
  end.

(** Trial [t] has the combination [c]. *)
Definition has_combo (e : experiment) (keys : list fname) (c : list value) (t : Z) : bool :=
  match sel_row e keys t with
  | Some r => if combo_eq_dec r c then true else false
  | None => false
  end.

(** The number of selected trial indices (with multiplicity, in any order)
    whose selected-factor values are the combination [c]. *)
Definition count (e : experiment) (keys : list fname) (trials : list Z) (c : list value) : Z :=
  Z.of_nat (List.length (filter (has_combo e keys c) trials)).

(** The trial indices tabulated for experiment [e]: the given ones, by default
    all trials of that experiment. *)
Definition eff_trials (e : experiment) (trials : option (list Z)) : list Z :=
  match trials with
  | Some t => t
  | None => match e with [] => [] | (_, col) :: _ => map Z.of_nat (seq 0 (List.length col)) end
  end.

(** The input is valid for experiment [e]: every selected factor is a column
    of [e] and every selected index is in range (and [e] has a column to take
    the default from). *)
Definition valid (keys : list fname) (trials : option (list Z)) (e : experiment) : Prop :=
  (trials = None -> e <> []) /\
  forall t, In t (eff_trials e trials) -> sel_row e keys t <> None.

(** The table that should be printed for one experiment: one row per
    combination of levels, in lexicographic order of the level positions
    (first factor slowest), with the count and the percentage [100 * count / n]
    as numerator and denominator ([0 / 1] when nothing is selected). *)
Definition spec_table (factors : list tfactor) (e : experiment) (trials : list Z) : table :=
  let n := Z.of_nat (List.length trials) in
  map (fun c => let f := count e (map fst factors) trials c in
                (c, (f, if 0 <? n then (100 * f, n) else (0, 1))))
      (product (map snd factors)).

Definition sumZ (l : list Z) : Z := fold_right Z.add 0 l.
