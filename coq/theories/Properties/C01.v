(** C01 - Formula-based samplers return only valid trial sequences.

    [C01_sound]: for every flat record in the fragment F1 (CodeSem.in_f1:
    act_design any subset of the design, listed in design order; its factors
    simple, WithinTrial, or with a complex window - Transition,
    Window(width, stride, start) with start >= width - 1 - over simple or
    WithinTrial factors of act_design (the variables of such a factor follow
    the grid, one block per trial in which it has a level; its Derivation is
    the complex variant); every factor outside act_design (an implied derived
    factor: no variables, no Derivation constraints) a derived factor of
    simple / WithinTrial act_design factors - or of implied factors listed
    before it that have a level in every trial - with any window (also one
    that is not yet full in the first trials and then reads empty cells),
    exactly one of whose levels accepts every argument tuple; any positive sustain counts
    (Nest / Repeat, with the Sustain constraint) on the simple / WithinTrial
    factors of act_design, a WithinTrial factor sustained no longer than the
    factors it reads (sustain 1 on complex windows and implied factors); any number of
    crossings and chunks (partial last chunk, crossing weights, weighted
    levels), each starting after its preamble, a crossed factor with a
    complex window having stride 1 and its first level no later than the
    first crossing trial; kinds Consistency / Cross / Derivation /
    AtMostKInARow / AtLeastKInARow / ExactlyKInARow / ExactlyK / Exclude (on a
    factor with a complex window: stride 1) / Pin (any factor of act_design,
    any sustain of the geometry, the pinned trials inside the block) /
    Sequential (a factor without a complex window, its preamble a whole
    number of its sustain groups) / LatinSquare (unsustained factors without a
    complex window: the rotation counter of the code is the digit vector of
    the segment number); combinations
    left out of a crossing by Exclude constraints (on a basic level, or on a
    level of a WithinTrial factor of act_design, expanded into the
    combinations of basic levels that make it true) or by a crossed derived
    level no compatible arguments satisfy)
    every model of the formula the samplers hand to the solver
    ([full_cnf] = [combine_cnf_with_requests] of the compiled request) is, on
    the trial variables, the one-hot image of a sequence that is valid for the
    reference semantics [Sem.valid_b (code_sem fb)]; [onehot fb t q] says that
    the rows of the act_design factors are read off the trial variables of t
    (no level in the trials before a complex window is full), and that the
    rows of the implied factors are the ones [SampleGen.decode] adds
    ([add_implied_levels]: the level whose table accepts the decoded levels in
    its window, nothing in the trials where the factor does not apply).
    [C01_request_exact]: for EVERY backend request (no fragment), the final
    formula has a model extending an assignment of the variables below [b_fresh]
    iff that assignment satisfies the clauses and every cardinality request.
    [C01_compile_denotes]: the request itself, read semantically.
    [C01_atleast_window] / [C01_exactly_in_a_row_window] (for every k >= 1 and
    every window length; used inside F1 and valid outside it): the implications that
    AtLeastKInARow / ExactlyKInARow hand to the Tseitin conversion for one
    window hold iff every maximal run of the level in the window has length
    at least k / exactly k. *)
From Coq Require Import ZArith List Bool.
From SP Require Import Base.Sat Base.Bits Design.Flat Design.Sem.
From SP Require Import Logic.Formula.
From SP Require Import Encode.Compile Encode.CodeSem Encode.Generic Encode.F1Kinds Encode.F1Sem
     Encode.CompileProofs Encode.CompileCorollaries Encode.Runs Encode.InARow Encode.PropertyLemmas.

Theorem C01_sound :
  forall (fb : flat) (b : backend) (ok : bool) (n' : Z) (final : cnf) (t : asg),
    in_f1 fb = true -> (0 < T fb)%nat ->
    compile fb = COk b -> full_cnf b = (ok, n', final) ->
    sat t final = true ->
    exists q, onehot fb t q /\ valid_b (code_sem fb) q = true.
Proof. exact c01_sound. Qed.
Print Assumptions C01_sound.

Theorem C01_request_exact :
  forall b : backend,
    (1 <= b_fresh b)%Z ->
    Forall (req_ok (b_fresh b - 1)) (b_requests b) ->
    vars_upto (b_fresh b - 1) (b_clauses b) ->
    exists n' final,
      full_cnf b = (true, n', final) /\ (b_fresh b - 1 <= n')%Z /\ vars_upto n' final /\
      (forall s, (exists t, agree_upto (b_fresh b - 1) s t /\ sat t final = true) <-> br_sem s b) /\
      (forall t1 t2, agree_upto (b_fresh b - 1) t1 t2 ->
         sat t1 final = true -> sat t2 final = true -> agree_upto n' t1 t2).
Proof. exact full_cnf_denotes. Qed.
Print Assumptions C01_request_exact.

Theorem C01_compile_denotes :
  forall fb : flat, in_f1 fb = true -> (0 < T fb)%nat ->
  forall b : backend, compile fb = COk b ->
  exists ext,
    (forall s v, ~ (GZ fb < v <= b_fresh b - 1)%Z -> ext s v = s v) /\
    (forall s t, agree_upto (GZ fb) s t -> forall v, (GZ fb < v <= b_fresh b - 1)%Z -> ext s v = ext t v) /\
    forall s, br_sem s b <->
      (forall v, (GZ fb < v <= b_fresh b - 1)%Z -> s v = ext s v) /\
      exists q, onehot fb s q /\ valid_b (code_sem fb) q = true.
Proof. exact compile_denotes. Qed.
Print Assumptions C01_compile_denotes.

Theorem C01_atleast_window :
  forall (k : nat) (vl : list nat) (s : asg),
    (0 < k)%nat -> Forall (fun v => (0 < v)%nat) vl ->
    (eval s (FAnd (atleast_impls k vl (windows (S k) vl))) = true <->
     Forall (fun n => (k <= n)%nat) (bruns (map (fun v => s (zn v)) vl))).
Proof. exact atleast_impls_spec. Qed.
Print Assumptions C01_atleast_window.

Theorem C01_exactly_in_a_row_window :
  forall (k : nat) (vl : list nat) (s : asg),
    (0 < k)%nat -> Forall (fun v => (0 < v)%nat) vl ->
    (eval s (FAnd (match windows k vl with
                   | nil => map (fun v => FNot (fv v)) vl
                   | sub => ekr_impls k sub
                   end)) = true <->
     Forall (fun n => n = k) (bruns (map (fun v => s (zn v)) vl))).
Proof. exact ekr_impls_spec. Qed.
Print Assumptions C01_exactly_in_a_row_window.

(** the hypotheses are satisfiable: a colour x text crossing with a derived
    congruency factor, AtMostKInARow on the derived level and a Pin *)
Example C01_example :
  in_f1 ex_stroop = true /\ (0 < T ex_stroop)%nat /\
  (exists b, compile ex_stroop = COk b) /\ length (all_valid (code_sem ex_stroop)) = 6%nat.
Proof. exact ex_stroop_facts. Qed.

(** ... and by a design of the widened fragment: crossed derived factor (four
    inconsistent combinations left out), Sequential, AtLeastKInARow, ExactlyKInARow *)
Example C01_example_wide :
  in_f1 ex_wide = true /\ (0 < T ex_wide)%nat /\
  length (trial_combinations_of ex_wide (0 :: 1 :: 2 :: nil)%nat) = 4%nat /\
  length (crossing_combos ex_wide (0 :: 1 :: 2 :: nil)%nat) = 8%nat /\
  (exists b, compile ex_wide = COk b /\ b_fresh b = 139%Z) /\
  length (all_valid (code_sem ex_wide)) = 1%nat.
Proof. exact ex_wide_facts. Qed.

(** ... and by a design with an implied derived factor (not in act_design) *)
Example C01_example_implied :
  in_f1 ex_implied = true /\ (0 < T ex_implied)%nat /\ isact ex_implied 2 = false /\
  (exists b, compile ex_implied = COk b /\ b_fresh b = 66%Z) /\
  length (all_valid (code_sem ex_implied)) = 12%nat /\
  hd nil (all_valid (code_sem ex_implied)) =
    ((Some 1 :: Some 1 :: Some 0 :: Some 0 :: nil) :: (Some 1 :: Some 0 :: Some 1 :: Some 0 :: nil) ::
     (Some 0 :: Some 1 :: Some 1 :: Some 0 :: nil) :: nil)%nat.
Proof. exact ex_implied_facts. Qed.

(** ... and by a design with an implied Transition factor (no level in the first trial) *)
Example C01_example_implied_transition :
  in_f1 ex_implied_transition = true /\ (0 < T ex_implied_transition)%nat /\ isact ex_implied_transition 2 = false /\
  (exists b, compile ex_implied_transition = COk b /\ b_fresh b = 66%Z) /\
  length (all_valid (code_sem ex_implied_transition)) = 12%nat /\
  hd nil (all_valid (code_sem ex_implied_transition)) =
    ((Some 1 :: Some 1 :: Some 0 :: Some 0 :: nil) :: (Some 1 :: Some 0 :: Some 1 :: Some 0 :: nil) ::
     (None :: Some 1 :: Some 1 :: Some 1 :: nil) :: nil)%nat.
Proof. exact ex_implied_transition_facts. Qed.

(** ... and by a design whose crossing contains a Transition (complex window in
    act_design, preamble of one trial, complex Derivation) *)
Example C01_example_transition :
  in_f1 ex_transition = true /\ (0 < T ex_transition)%nat /\
  isact ex_transition 1 = true /\ Design.Layout.is_complex ex_transition 1 = true /\
  Encode.LayoutF1.VN ex_transition = 18%nat /\ Encode.LayoutF1.gvar ex_transition 1 1 0 = 11%nat /\
  Encode.LayoutF1.gvar ex_transition 4 1 1 = 18%nat /\
  (exists b, compile ex_transition = COk b /\ b_fresh b = 102%Z) /\
  length (all_valid (code_sem ex_transition)) = 4%nat /\
  hd nil (all_valid (code_sem ex_transition)) =
    ((Some 0 :: Some 1 :: Some 1 :: Some 0 :: Some 0 :: nil) :: (None :: Some 1 :: Some 0 :: Some 1 :: Some 0 :: nil) :: nil)%nat.
Proof. exact ex_transition_facts. Qed.

(** ... and by a Nest: sustained outer factor, the Sustain constraint *)
Example C01_example_nest :
  in_f1 ex_nest = true /\ (0 < T ex_nest)%nat /\ sustain_of ex_nest 0 = 2%nat /\
  (exists b, compile ex_nest = COk b /\ b_fresh b = 84%Z) /\
  length (all_valid (code_sem ex_nest)) = 8%nat /\
  hd nil (all_valid (code_sem ex_nest)) =
    ((Some 1 :: Some 1 :: Some 0 :: Some 0 :: nil) :: (Some 1 :: Some 0 :: Some 1 :: Some 0 :: nil) :: nil)%nat.
Proof. exact ex_nest_facts. Qed.

(** ... and by a LatinSquare *)
Example C01_example_latin :
  in_f1 ex_latin = true /\ (0 < T ex_latin)%nat /\
  (exists b, compile ex_latin = COk b /\ b_fresh b = 159%Z) /\
  length (all_valid (code_sem ex_latin)) = 36%nat /\
  hd nil (all_valid (code_sem ex_latin)) =
    ((Some 2 :: Some 1 :: Some 0 :: Some 2 :: Some 1 :: Some 0 :: nil) ::
     (Some 0 :: Some 1 :: Some 0 :: Some 1 :: Some 0 :: Some 1 :: nil) :: nil)%nat.
Proof. exact ex_latin_facts. Qed.
