(** C02 - Exhausting IterateSATGen yields exactly the valid sequences.

    [C02_complete]: in the fragment F1 (CodeSem.in_f1, described in Properties/C01.v) every sequence valid for
    [code_sem fb] is the decoding of a model of the formula handed to the
    solver; [C02_once]: of exactly one (two models with the same sequence agree
    on every variable of the formula).
    [C02_iterate_exhausts]: the iterate-and-block loop of
    core/generate/sample_non_uniform.py ([compute_solutions] + the blocking
    clause [update_file] appends), over an abstract solver that is only assumed
    to return models and to answer UNSAT only for unsatisfiable formulas, for
    every formula, support and count: the returned projections are pairwise
    different, each is the projection of a model, their number is min(count, N)
    and when the loop stops early all N were returned.
    [C02_iterate_compiled]: both together on a compiled F1 design, for every
    support (the samplers use 1..variables_per_sample). *)
From Coq Require Import ZArith List Bool.
Import ListNotations.
From SP Require Import Base.Sat Design.Flat Design.Sem.
From SP Require Import Encode.Compile Encode.CodeSem Encode.F1Sem Encode.CompileCorollaries
     Encode.Iterate Encode.IterateProofs Encode.IterateCompile Encode.PropertyLemmas.

Theorem C02_complete :
  forall (fb : flat) (b : backend) (ok : bool) (n' : Z) (final : cnf) (q : tseq),
    in_f1 fb = true -> (0 < T fb)%nat ->
    compile fb = COk b -> full_cnf b = (ok, n', final) ->
    valid_b (code_sem fb) q = true ->
    exists t, sat t final = true /\ onehot fb t q.
Proof. exact c02_complete. Qed.
Print Assumptions C02_complete.

Theorem C02_once :
  forall (fb : flat) (b : backend) (ok : bool) (n' : Z) (final : cnf) (q : tseq) (t1 t2 : asg),
    in_f1 fb = true -> (0 < T fb)%nat ->
    compile fb = COk b -> full_cnf b = (ok, n', final) ->
    sat t1 final = true -> sat t2 final = true -> onehot fb t1 q -> onehot fb t2 q ->
    agree_upto n' t1 t2.
Proof. exact c02_once. Qed.
Print Assumptions C02_once.

Theorem C02_iterate_exhausts :
  forall solve : cnf -> option asg,
    (forall f s, solve f = Some s -> sat s f = true) ->
    (forall f, solve f = None -> forall s, sat s f = false) ->
    forall (count : nat) (f : cnf) (support : nat),
      let r := iterate solve count f support in
      NoDup r /\
      (forall sol, In sol r -> exists s, sat s f = true /\ proj support s = sol) /\
      (length r <= count)%nat /\
      ((length r < count)%nat -> forall s, sat s f = true -> In (proj support s) r) /\
      (forall L, NoDup L ->
         (forall sol, In sol L <-> exists s, sat s f = true /\ proj support s = sol) ->
         length r = Nat.min count (length L)).
Proof. exact iterate_exhausts. Qed.
Print Assumptions C02_iterate_exhausts.

Theorem C02_iterate_compiled :
  forall (solve : cnf -> option asg),
    (forall f s, solve f = Some s -> sat s f = true) ->
    (forall f, solve f = None -> forall s, sat s f = false) ->
    forall (fb : flat) (b : backend) (ok : bool) (n' : Z) (final : cnf) (count support : nat),
      in_f1 fb = true -> (0 < T fb)%nat -> compile fb = COk b -> full_cnf b = (ok, n', final) ->
      let r := iterate solve count final support in
      NoDup r /\
      (forall sol, In sol r ->
         exists t q, sat t final = true /\ proj support t = sol /\ onehot fb t q /\ valid_b (code_sem fb) q = true) /\
      ((length r < count)%nat ->
         forall q, valid_b (code_sem fb) q = true ->
           exists t, sat t final = true /\ onehot fb t q /\ In (proj support t) r).
Proof. exact iterate_compiled. Qed.
Print Assumptions C02_iterate_compiled.

(** a concrete solver and run: brute force over two variables on [[1;2]] *)
Example C02_example : iterate (solve_bf 2) 5 [[1; 2]%Z] 2 = [[1; 2]; [1; -2]; [-1; 2]]%Z.
Proof. exact iterate_bf_or. Qed.
