(** placeholder until the theorems land *)
From SP Require Import Encode.Compile.
