(** C03 - Each trial sequence is exactly one model of the compiled formula.

    [C03_unique_extension]: in the fragment F1 (CodeSem.in_f1, described in Properties/C01.v) two models of the complete
    formula that agree on the trial variables 1..variables_per_sample agree on
    every variable: every auxiliary variable (Cross state variables, Tseitin
    variables, adder / pop-count / comparator variables) is fixed by the levels
    chosen in the trials.
    [C03_vars_contiguous]: the formula mentions no variable above its declared
    count n', and no auxiliary variable is free (flipping one in a model
    falsifies the formula).
    [C03_cardinality_unique]: for EVERY backend request (no fragment) the
    variables the cardinality encoders add above [b_fresh - 1] are determined by
    the variables below. *)
From Coq Require Import ZArith List Bool.
From SP Require Import Base.Sat Base.Bits Design.Flat Design.Sem.
From SP Require Import Encode.Compile Encode.CodeSem Encode.Generic Encode.F1Kinds Encode.F1Sem
     Encode.CompileCorollaries Encode.PropertyLemmas.

Theorem C03_unique_extension :
  forall (fb : flat) (b : backend) (ok : bool) (n' : Z) (final : cnf) (t1 t2 : asg),
    in_f1 fb = true -> (0 < T fb)%nat ->
    compile fb = COk b -> full_cnf b = (ok, n', final) ->
    agree_upto (GZ fb) t1 t2 -> sat t1 final = true -> sat t2 final = true ->
    agree_upto n' t1 t2.
Proof. exact c03_unique_extension. Qed.
Print Assumptions C03_unique_extension.

Theorem C03_vars_contiguous :
  forall (fb : flat) (b : backend) (ok : bool) (n' : Z) (final : cnf),
    in_f1 fb = true -> (0 < T fb)%nat ->
    compile fb = COk b -> full_cnf b = (ok, n', final) ->
    ok = true /\ vars_upto n' final /\
    forall t v, (GZ fb < v <= n')%Z -> sat t final = true -> sat (upd t v (negb (t v))) final = false.
Proof. exact c03_vars_contiguous. Qed.
Print Assumptions C03_vars_contiguous.

Theorem C03_cardinality_unique :
  forall (b : backend) (n' : Z) (final : cnf),
    (1 <= b_fresh b)%Z ->
    Forall (req_ok (b_fresh b - 1)) (b_requests b) ->
    vars_upto (b_fresh b - 1) (b_clauses b) ->
    full_cnf b = (true, n', final) ->
    vars_upto n' final /\
    forall t1 t2, agree_upto (b_fresh b - 1) t1 t2 ->
      sat t1 final = true -> sat t2 final = true -> agree_upto n' t1 t2.
Proof. exact c03_cardinality_unique. Qed.
Print Assumptions C03_cardinality_unique.

(** [GZ fb] is the number of trial variables: the support handed to the samplers *)
Example C03_support : forall fb, in_f1 fb = true -> GZ fb = zn (Design.Layout.variables_per_sample fb).
Proof. exact c03_support. Qed.

Example C03_example :
  in_f1 ex_stroop = true /\ (0 < T ex_stroop)%nat /\ (exists b, compile ex_stroop = COk b).
Proof. destruct ex_stroop_facts as (A & B & C & _). exact (conj A (conj B C)). Qed.
