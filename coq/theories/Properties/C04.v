(** C04 - RandomGen returns only valid trial sequences.

    Model: Random/Enum.v (literal model of
    sweetpea/_internal/sampling_strategy/random.py, compared with the real
    [UCSolutionEnumerator] on every run: layer L8, every candidate key of
    designs with at most 5000 keys).  Reference semantics: Design/Sem.v through
    [FragSem.code_sem] = [Encode/CodeSem.v]'s [code_sem].

    Full statement (every design RandomGen accepts, acceptable error 0):

      forall fb k cand, In k (keys_of fb) -> decode_key fb k = Some cand ->
        accepts fb cand = true -> valid_b (code_sem fb) (tseq_of_run fb cand) = true

    What is proved is the statement for the fragment [Frag.frag1] (boolean
    predicate on the flat record; it contains the earlier fragment [Frag.frag0],
    [Frag0Thms.frag0_frag1]):
      - one crossing of non-derived factors with unit level weights and crossing
        weight 1, no preamble, sustain 1; every other factor a non-derived free
        factor; every factor in [act_design];
      - [Exclude] of levels of these factors: excluded combinations are filtered
        out of the crossing ([fl_sizes] = number of remaining combinations > 0),
        excluded levels out of the free factors' level lists (one level at least
        remains); [fl_exclude] lists exactly the [Exclude] constraints;
      - the user constraints RandomGen enforces by REJECTION: AtMostKInARow,
        AtLeastKInARow, ExactlyK, ExactlyKInARow, Pin (sustain 1), Sequential, on
        levels of the design's factors, with a window geometry the layout model
        understands; soundness is: accepted => every [potential_sample_conforms]
        holds => the constraint clauses of the reference semantics hold
        (Random/Frag1Cons.v, with the C17 lemmas of Check/MismatchProofs.v);
      - any number of trials >= 1 (full rounds plus a leftover round).
    Hence [_partial].  [C04_accept_sound_frag2] extends it to [Frag.frag2] =
    frag1 plus WEIGHTS: weighted levels of the crossed factors and a crossing
    weight > 0 ([fl_sizes] = sum of the combination weights; a round is then a
    permutation of the multiset of combinations, unranked by the memoised
    [compute_jth_prefix_of_permutations_with_copies], proved with the C13
    refinement theorems of Comb/StackProofs.v / SessionProofs.v) and FURTHER
    CROSSINGS (MultiCrossBlock over plain factors, sustain 1, no preamble): the
    first crossing is sampled, every other one is enforced by the rejection step
    ([combinations_mismatched_weights] on each repetition), which is proved to
    decide [Sem.crossing_ok] (Random/CrossReject.v, Random/Frag2Cross.v) and
    IMPLIED FACTORS: derived factors of the design outside [act_design] (nothing
    uses them; RandomGen does not sample them, [Block.add_implied_levels] adds
    their levels to every sample): within-trial factors reading factors of
    [act_design] through a table in which exactly one level accepts every
    argument tuple.  The frag2 theorems speak about [FragSem.cand_seq]: the
    candidate's rows plus the implied rows computed by the reference semantics'
    own [Sem.derive_row]; without implied factors [cand_seq] is [tseq_of_run]
    ([Frag1Thms.frag1_cand_seq]) and DERIVED FACTORS IN THE SAMPLED CROSSING
    (one crossing then): within-trial factors (width 1) of the crossing that
    read plain factors of [act_design], crossed or not.  The crossing instances
    are the level combinations that survive
    [is_excluded_or_inconsistent_combination]; the uncrossed factors a derived
    factor reads are the SOURCE factors, whose level combinations are filtered
    per instance by the derived predicates ([_valid_source_combinations_indices]);
    a key carries, besides the permutation of the instances, one index into the
    admitted source combinations per trial.  Every instance must admit a source
    combination ([Frag.sources_ok], decided on the record).  An [Exclude] of a
    source level is NOT applied when the word is drawn - such candidates are
    rejected ([Frag0Example.ex7_flat]: 96 keys, 24 accepted).  The number of keys
    of a round then has no closed form; it comes from the general counting
    theorem (Random/KeysCount.v).
    SUSTAINED CROSSINGS (Nest): the sampled crossing is the first one with
    sustain count 1, at any position ([Frag.main_idx]); the other crossings may
    have a sustain count > 1 (size = sum of weights x sustain).  Their factors
    are free factors for the sampler; that they keep their level for [sustain]
    trials is enforced by rejection ([Sustain.potential_sample_conforms],
    Random/Frag1Cons.v [f1_sustain] = the sustain clause of [Sem.factor_ok]), the
    crossing itself by [combinations_mismatched_weights] with weight x sustain
    (Random/CrossReject.v).  Guard: the trial count is a multiple of every
    sustain count (otherwise the check indexes past the end of a row) and a
    Sustain constraint is listed whenever a sustain count is not 1.
    DERIVED FACTORS OF [act_design] OUTSIDE THE SAMPLED CROSSING (one crossing
    then): within-trial factors that read drawn factors (plain ones, or derived
    ones of the crossing) through a table in which exactly one level accepts
    every argument tuple.  RandomGen does not draw them: after the rounds are
    combined [fill_in_nonpreamble_uncrossed_derived] computes their rows
    ([select_level_for_sample]: the first accepting level), Random/Frag0Fill.v;
    the candidate of a key is [Frag0Decode.cand_row].  Constraints on them are
    enforced by rejection like all others.
    Missing: derived factors with derived or complex sources, derived factors
    outside the crossing that read other such factors, Exclude on a derived
    level, transition / window factors, LatinSquare, preambles
    / complex windows (where the sampled crossing itself is checked by
    rejection), constraints with a sustained geometry.  Outside the fragment the property is decided per run by the
    search of harness/props/c05.py and the C04 harness (exhausted RandomGen vs.
    oracle). *)
From Coq Require Import ZArith List.
From SP Require Import Design.Flat Design.Sem Random.Enum Random.Frag Random.FragSem Random.Frag2Thms Random.Frag1Thms
  Random.Frag0Thms Random.Frag0Example.

Theorem C04_accept_sound_partial : forall (fb : flat), frag1 fb = true ->
  forall (k : key) (cand : candidate),
  In k (keys_of fb) -> decode_key fb k = Some cand -> accepts fb cand = true ->
  valid_b (code_sem fb) (tseq_of_run fb cand) = true.
Proof. exact f1_accept_sound. Qed.
Print Assumptions C04_accept_sound_partial.

(** the fragment contains the earlier one *)
Theorem C04_frag0_in_frag1 : forall (fb : flat), frag0 fb = true -> frag1 fb = true.
Proof. exact frag0_frag1. Qed.
Print Assumptions C04_frag0_in_frag1.

(** the hypotheses are satisfiable by non-trivial designs: 108 keys, two rounds;
    and, outside frag0, exclusions + AtMostKInARow + Pin: 32 keys of which 12 are accepted *)
Example C04_example : frag0 ex_flat = true /\ length (keys_of ex_flat) = 108 /\ check_sound ex_flat = true.
Proof. split; [exact ex_frag0 | split; [exact ex_keys | apply ex_checks]]. Qed.
Example C04_example_rejection :
  frag1 ex1_flat = true /\ frag0 ex1_flat = false /\ length (keys_of ex1_flat) = 32 /\
  length (accepted_keys ex1_flat) = 12 /\ check_sound ex1_flat = true.
Proof. split; [apply ex1_frag|]. split; [apply ex1_frag|]. split; [apply ex1_keys|]. split; [apply ex1_keys | apply ex1_checks]. Qed.

(** with weights (fragment [Frag.frag2], which contains [frag1]) *)
Theorem C04_accept_sound_frag2 : forall (fb : flat), frag2 fb = true ->
  forall (k : key) (cand : candidate),
  In k (keys_of fb) -> decode_key fb k = Some cand -> accepts fb cand = true ->
  valid_b (code_sem fb) (cand_seq fb cand) = true.
Proof. exact f2_accept_sound. Qed.
Print Assumptions C04_accept_sound_frag2.

Theorem C04_frag1_in_frag2 : forall (fb : flat), frag1 fb = true -> frag2 fb = true.
Proof. exact frag1_frag2. Qed.
Print Assumptions C04_frag1_in_frag2.

(** a weighted level (a: 2, b: 1), AtMostKInARow and a leftover trial: 96 keys, 32 accepted *)
Example C04_example_weighted :
  frag2 ex3_flat = true /\ frag1 ex3_flat = false /\ length (keys_of ex3_flat) = 96 /\
  length (accepted_keys ex3_flat) = 32 /\ check_sound ex3_flat = true.
Proof. split; [exact ex3_frag2|]. split; [exact ex3_frag1|]. split; [exact ex3_nkeys|]. split; [exact ex3_nacc | exact ex3_sound]. Qed.

(** a second crossing enforced by rejection: 162 keys, 36 accepted = 36 valid *)
Example C04_example_multicross :
  frag2 ex4_flat = true /\ frag1 ex4_flat = false /\ length (keys_of ex4_flat) = 162 /\
  length (accepted_keys ex4_flat) = 36 /\ check_sound ex4_flat = true.
Proof. split; [exact ex4_frag2|]. split; [exact ex4_frag1|]. split; [exact ex4_nkeys|]. split; [exact ex4_nacc | exact ex4_sound]. Qed.

(** an implied factor: the whole sequence of a candidate has its row *)
Example C04_example_implied :
  frag2 ex5_flat = true /\ frag1 ex5_flat = false /\ length (keys_of ex5_flat) = 6 /\ check_sound ex5_flat = true /\
  option_map (cand_seq ex5_flat)
    (decode_key ex5_flat {| k_pre := 0%Z; k_rounds := nil; k_left := Some (4%Z, cons 0%Z (cons 0%Z (cons 0%Z nil)), nil) |})
  = Some (cons (cons (Some 0) (cons (Some 1) (cons (Some 0) nil))) (cons (cons (Some 1) (cons (Some 0) (cons (Some 1) nil))) nil)).
Proof. split; [exact ex5_frag2|]. split; [exact ex5_frag1|]. split; [exact ex5_nkeys|]. split; [exact ex5_sound | exact ex5_decode]. Qed.

(** a derived factor in the sampled crossing (Stroop: color x congruent, the word is a source factor):
    96 keys, all accepted; with Exclude(word, green) 24 of the 96 are accepted *)
Example C04_example_derived :
  frag2 ex6_flat = true /\ has_derived ex6_flat = true /\ length (keys_of ex6_flat) = 96 /\
  length (accepted_keys ex6_flat) = 96 /\ check_sound ex6_flat = true /\
  frag2 ex7_flat = true /\ length (keys_of ex7_flat) = 96 /\ length (accepted_keys ex7_flat) = 24 /\ check_sound ex7_flat = true.
Proof.
  split; [exact ex6_frag2|]. split; [exact ex6_derived|]. split; [exact ex6_nkeys|]. split; [exact ex6_nacc|]. split; [exact ex6_sound|].
  split; [exact ex7_frag2|]. split; [exact ex7_nkeys|]. split; [exact ex7_nacc | exact ex7_sound].
Qed.

(** a nested design: crossings [[task]; [color]] with sustain counts [2; 1]; the second one is sampled, Sustain and the
    task crossing are enforced by rejection: 64 keys, 8 accepted = 8 valid *)
Example C04_example_nested :
  frag2 ex8_flat = true /\ main_idx ex8_flat = 1 /\ length (keys_of ex8_flat) = 64 /\
  length (accepted_keys ex8_flat) = 8 /\ check_sound ex8_flat = true.
Proof. split; [exact ex8_frag2|]. split; [exact ex8_main|]. split; [exact ex8_nkeys|]. split; [exact ex8_nacc | exact ex8_sound]. Qed.

(** a derived factor of [act_design] outside the sampled crossing, with a constraint on it: 24 keys, 12 accepted = 12 valid *)
Example C04_example_uncrossed_derived :
  frag2 ex9_flat = true /\ has_derived ex9_flat = true /\ length (keys_of ex9_flat) = 24 /\
  length (accepted_keys ex9_flat) = 12 /\ check_sound ex9_flat = true.
Proof. split; [exact ex9_frag2|]. split; [exact ex9_derived|]. split; [exact ex9_nkeys|]. split; [exact ex9_nacc | exact ex9_sound]. Qed.
