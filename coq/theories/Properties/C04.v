(** C04 - RandomGen returns only valid trial sequences.

    Model: Random/Enum.v (literal model of
    sweetpea/_internal/sampling_strategy/random.py, compared with the real
    [UCSolutionEnumerator] on every run: layer L8, every candidate key of
    designs with at most 5000 keys).  Reference semantics: Design/Sem.v through
    [FragSem.code_sem] = [Encode/CodeSem.v]'s [code_sem].

    Full statement (every design RandomGen accepts, acceptable error 0):

      forall fb k cand, In k (keys_of fb) -> decode_key fb k = Some cand ->
        accepts fb cand = true -> valid_b (code_sem fb) (tseq_of_run fb cand) = true

    What is proved is the statement for the fragment [Frag.frag0] (boolean
    predicate on the flat record): one crossing of non-derived factors with
    unit weights and crossing weight 1, every other factor a non-derived
    independent factor, no constraint that needs rejection, no exclusion, any
    number of trials (full rounds plus a leftover round) - hence [_partial].
    Missing: weighted levels / crossing weights (the unranker is then
    [compute_jth_prefix_of_permutations_with_copies], whose refinement theorems
    of C13 are relative to fuel), crossed within-trial derived factors with
    uncrossed sources, and every design that needs the rejection test, for
    which soundness additionally needs [Check/Mismatch] <-> [Sem] (C17).  Outside
    the fragment the property is decided per run by the search of
    harness/props/c05.py and the C04 harness (exhausted RandomGen vs. oracle). *)
From Coq Require Import List.
From SP Require Import Design.Flat Design.Sem Random.Enum Random.Frag Random.FragSem Random.Frag0Thms
  Random.Frag0Example.

Theorem C04_accept_sound_partial : forall (fb : flat), frag0 fb = true ->
  forall (k : key) (cand : candidate),
  In k (keys_of fb) -> decode_key fb k = Some cand -> accepts fb cand = true ->
  valid_b (code_sem fb) (tseq_of_run fb cand) = true.
Proof. exact f0_accept_sound. Qed.
Print Assumptions C04_accept_sound_partial.

(** the hypotheses are satisfiable by a non-trivial design: 108 keys, two rounds *)
Example C04_example : frag0 ex_flat = true /\ length (keys_of ex_flat) = 108 /\ check_sound ex_flat = true.
Proof. split; [exact ex_frag0 | split; [exact ex_keys | apply ex_checks]]. Qed.
