(** C05 - RandomGen samples uniformly: one candidate per valid sequence.

    RandomGen draws a key uniformly from [keys_of fb] (every component of a key
    is an independent uniform draw from a range, model Random/Enum.v, compared
    with the real [UCSolutionEnumerator] on every run: layer L8), decodes it and
    keeps it iff the rejection test accepts.  Uniformity over the valid
    sequences is therefore: the accepted keys and the valid sequences are in
    bijection.

    Full statements (every design RandomGen accepts):

      cand_inj:        In k1 (keys_of fb) -> In k2 (keys_of fb) -> decode_key fb k1 = Some c1 ->
                       decode_key fb k2 = Some c2 -> tseq_of_run fb c1 = tseq_of_run fb c2 -> k1 = k2
      accept_complete: fl_errors_fail fb = false -> valid_b (code_sem fb) s = true ->
                       exists k cand, In k (keys_of fb) /\ decode_key fb k = Some cand /\
                                      accepts fb cand = true /\ tseq_of_run fb cand = s
      (with C04_accept_sound: accepted candidates are valid)

    What is proved is both statements for the fragment [Frag.frag1] (see
    Properties/C04.v for the fragment and for what is missing) - hence
    [_partial].  [cand_inj] is the product of the C13 bijections
    [C13_perm_prefix_bij] (the order of the crossing combinations in a round) and
    [C13_comb_bij] (the levels of each independent factor in a round); the
    theorems of Comb/PermProofs.v and Comb/RadixProofs.v are used directly, none
    is assumed.  With rejection (user constraints), [accept_complete] says that the
    key of every valid sequence passes the rejection test.  Note that for weighted levels of factors outside every crossing
    the library itself documents a multiplicity > 1 per name-level sequence
    ([designrun.name_multiplicity]); the theorems compare level INDEX sequences
    (the reference semantics [code_sem]), not names.

    [_frag2]: the same with weights ([Frag.frag2], see Properties/C04.v): the
    order of a round is then a word with bounded repetitions, the bijection is
    [C13_prefix_copies_bij] and the model's memoised unranker is tied to it by
    [C13_stack_count_refines] / [C13_stack_unrank_refines] / [C13_count_dispatch_refines]
    and the C13 totality theorems ([C13_count_dispatch_total], [C13_unrank_dispatch_total],
    [C13_stack_unrank_total]): the enumerator and its key list are always
    defined ([C05_enumerates]; [FragSem.enumerates]). *)
From Coq Require Import List.
From SP Require Import Design.Flat Design.Sem Random.Enum Random.Frag Random.FragSem Random.Frag2Thms Random.Frag1Thms
  Random.Frag0Example.

Theorem C05_cand_inj_partial : forall (fb : flat), frag1 fb = true ->
  forall (k1 k2 : key) (c1 c2 : candidate),
  In k1 (keys_of fb) -> In k2 (keys_of fb) ->
  decode_key fb k1 = Some c1 -> decode_key fb k2 = Some c2 ->
  tseq_of_run fb c1 = tseq_of_run fb c2 -> k1 = k2.
Proof. exact f1_cand_inj. Qed.
Print Assumptions C05_cand_inj_partial.

(** the keys themselves are pairwise distinct *)
Theorem C05_keys_nodup_partial : forall (fb : flat), frag1 fb = true -> NoDup (keys_of fb).
Proof. exact f1_keys_nodup. Qed.
Print Assumptions C05_keys_nodup_partial.

Theorem C05_accept_complete_partial : forall (fb : flat), frag1 fb = true ->
  forall (s : tseq), fl_errors_fail fb = false -> valid_b (code_sem fb) s = true ->
  exists (k : key) (cand : candidate),
    In k (keys_of fb) /\ decode_key fb k = Some cand /\ accepts fb cand = true /\ tseq_of_run fb cand = s.
Proof. exact f1_accept_complete. Qed.
Print Assumptions C05_accept_complete_partial.

(** the hypotheses are satisfiable by a non-trivial design: 108 keys, 108 valid sequences *)
Example C05_example :
  frag0 ex_flat = true /\ fl_errors_fail ex_flat = false /\ length (keys_of ex_flat) = 108 /\
  length (all_valid (code_sem ex_flat)) = 108 /\ check_inj ex_flat = true /\ check_complete ex_flat = true.
Proof.
  split; [exact ex_frag0|]. split; [reflexivity|]. split; [exact ex_keys|]. split; [exact ex_valid_count|].
  split; apply ex_checks.
Qed.
Example C05_example_rejection :
  frag1 ex1_flat = true /\ frag0 ex1_flat = false /\ length (accepted_keys ex1_flat) = 12 /\
  length (all_valid (code_sem ex1_flat)) = 12 /\ check_inj ex1_flat = true /\ check_complete ex1_flat = true.
Proof.
  split; [apply ex1_frag|]. split; [apply ex1_frag|]. split; [apply ex1_keys|]. split; [apply ex1_keys|].
  split; apply ex1_checks.
Qed.

(** with weights (fragment [Frag.frag2]) *)
Theorem C05_cand_inj_frag2 : forall (fb : flat), frag2 fb = true ->
  forall (k1 k2 : key) (c1 c2 : candidate),
  In k1 (keys_of fb) -> In k2 (keys_of fb) ->
  decode_key fb k1 = Some c1 -> decode_key fb k2 = Some c2 ->
  cand_seq fb c1 = cand_seq fb c2 -> k1 = k2.
Proof. exact f2_cand_inj. Qed.
Print Assumptions C05_cand_inj_frag2.

Theorem C05_keys_nodup_frag2 : forall (fb : flat), frag2 fb = true -> NoDup (keys_of fb).
Proof. exact f2_keys_nodup. Qed.
Print Assumptions C05_keys_nodup_frag2.

Theorem C05_accept_complete_frag2 : forall (fb : flat), frag2 fb = true ->
  forall (s : tseq), fl_errors_fail fb = false -> valid_b (code_sem fb) s = true ->
  exists (k : key) (cand : candidate),
    In k (keys_of fb) /\ decode_key fb k = Some cand /\ accepts fb cand = true /\ cand_seq fb cand = s.
Proof. exact f2_accept_complete. Qed.
Print Assumptions C05_accept_complete_frag2.

(** the enumerator and the key list of the model are defined on the whole fragment *)
Theorem C05_enumerates : forall (fb : flat), frag2 fb = true -> enumerates fb.
Proof. exact f2_enumerates. Qed.
Print Assumptions C05_enumerates.
Theorem C05_enumerates_unweighted : forall (fb : flat), frag1 fb = true -> enumerates fb.
Proof. exact f1_enumerates. Qed.
Print Assumptions C05_enumerates_unweighted.
Theorem C05_enumerates_decidable : forall (fb : flat), enumerates_b fb = true -> enumerates fb.
Proof. exact enumerates_b_spec. Qed.
Print Assumptions C05_enumerates_decidable.

Example C05_example_weighted :
  frag2 ex3_flat = true /\ frag1 ex3_flat = false /\ enumerates_b ex3_flat = true /\ length (accepted_keys ex3_flat) = 32 /\
  length (all_valid (code_sem ex3_flat)) = 32 /\ check_inj ex3_flat = true /\ check_complete ex3_flat = true.
Proof.
  split; [exact ex3_frag2|]. split; [exact ex3_frag1|]. split; [exact ex3_enum|]. split; [exact ex3_nacc|]. split; [exact ex3_nvalid|].
  split; [exact ex3_inj | exact ex3_complete].
Qed.

Example C05_example_multicross :
  frag2 ex4_flat = true /\ frag1 ex4_flat = false /\ enumerates_b ex4_flat = true /\ length (accepted_keys ex4_flat) = 36 /\
  length (all_valid (code_sem ex4_flat)) = 36 /\ check_inj ex4_flat = true /\ check_complete ex4_flat = true.
Proof.
  split; [exact ex4_frag2|]. split; [exact ex4_frag1|]. split; [exact ex4_enum|]. split; [exact ex4_nacc|]. split; [exact ex4_nvalid|].
  split; [exact ex4_inj | exact ex4_complete].
Qed.

Example C05_example_implied :
  frag2 ex5_flat = true /\ frag1 ex5_flat = false /\ enumerates_b ex5_flat = true /\ length (keys_of ex5_flat) = 6 /\
  length (all_valid (code_sem ex5_flat)) = 6 /\ check_inj ex5_flat = true /\ check_complete ex5_flat = true.
Proof.
  split; [exact ex5_frag2|]. split; [exact ex5_frag1|]. split; [exact ex5_enum|]. split; [exact ex5_nkeys|]. split; [exact ex5_nvalid|].
  split; [exact ex5_inj | exact ex5_complete].
Qed.

(** a derived factor in the sampled crossing: 96 candidates = 96 valid sequences; with an excluded source level 24 of 96 *)
Example C05_example_derived :
  frag2 ex6_flat = true /\ has_derived ex6_flat = true /\ enumerates_b ex6_flat = true /\ length (keys_of ex6_flat) = 96 /\
  length (all_valid (code_sem ex6_flat)) = 96 /\ check_inj ex6_flat = true /\ check_complete ex6_flat = true /\
  length (accepted_keys ex7_flat) = 24 /\ length (all_valid (code_sem ex7_flat)) = 24 /\ check_complete ex7_flat = true.
Proof.
  split; [exact ex6_frag2|]. split; [exact ex6_derived|]. split; [exact ex6_enum|]. split; [exact ex6_nkeys|]. split; [exact ex6_nvalid|].
  split; [exact ex6_inj|]. split; [exact ex6_complete|]. split; [exact ex7_nacc|]. split; [exact ex7_nvalid | exact ex7_complete].
Qed.

(** a nested design (sustained outer crossing): 8 accepted candidates = 8 valid sequences *)
Example C05_example_nested :
  frag2 ex8_flat = true /\ enumerates_b ex8_flat = true /\ length (accepted_keys ex8_flat) = 8 /\
  length (all_valid (code_sem ex8_flat)) = 8 /\ check_inj ex8_flat = true /\ check_complete ex8_flat = true.
Proof.
  split; [exact ex8_frag2|]. split; [exact ex8_enum|]. split; [exact ex8_nacc|]. split; [exact ex8_nvalid|].
  split; [exact ex8_inj | exact ex8_complete].
Qed.

(** a derived factor of [act_design] outside the sampled crossing: 12 accepted candidates = 12 valid sequences *)
Example C05_example_uncrossed_derived :
  frag2 ex9_flat = true /\ enumerates_b ex9_flat = true /\ length (accepted_keys ex9_flat) = 12 /\
  length (all_valid (code_sem ex9_flat)) = 12 /\ check_inj ex9_flat = true /\ check_complete ex9_flat = true.
Proof.
  split; [exact ex9_frag2|]. split; [exact ex9_enum|]. split; [exact ex9_nacc|]. split; [exact ex9_nvalid|].
  split; [exact ex9_inj | exact ex9_complete].
Qed.
