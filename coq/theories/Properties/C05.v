(** placeholder until the theorems land *)
From SP Require Import Random.Enum.
