(** C06 - Exhausting RandomGen yields exactly the valid set; reported count is exact.

    [accepted_exact]: the valid sequences are exactly the candidates of the
    ACCEPTED keys, one key each (with rejection: constraints by
    [__are_constraints_violated]).
    [count_exact]: for designs that need no rejection step ([Frag.rejection_free]:
    only Cross / Consistency / MinimumTrials / Exclude, and one crossing) every key is accepted and
    the number of valid sequences is [possible_keys] = preamble_solution_count *
    solution_count ^ rounds_per_run * leftover_solution_count.  NOTE: the
    property text asks that [metrics['solution_count']] equal the number of
    valid sequences; the code reports [solution_count] (the PER-ROUND count),
    which equals the number of valid sequences only when the sequence is one
    full round with no leftover and no preamble (finding
    `random:solution-count:per-round`, reproduced by the C06 harness).  The
    theorem is about the product the sampler itself uses as [possible_keys].
    [keys_count]: the keys RandomGen can draw ([all_keys] of the model) are
    pairwise distinct and there are exactly [possible_keys] of them - the
    condition under which the sampling loop stops ([len(used_keys) ==
    possible_keys]), which c06.py decides at run time on the real enumerator.

    [loop_exhausts]: the [used_keys] / [possible_keys] loop of
    [RandomGen.__sample] over an ARBITRARY finite list of draws (Random/Loop.v):
    if it stops it returned pairwise distinct accepted keys, exactly
    min(requested, number of accepted keys) of them, and all of them when at
    least that many were requested.  Termination holds with probability 1 only
    (every unused key keeps a positive chance of being drawn) and is out of
    scope: the theorem is about every finite run that stops.

    [exhaust]: both together on the fragment: asking for at least as many
    sequences as there are keys returns every valid sequence exactly once.

    [Frag0Enum.f0_enum_plain fb] is the enumerator of a design of [frag1] in
    closed form (per-round count = q!/(q-n)! * prod |levels|^n, empty memo
    tables).
    Full statements: every design RandomGen accepts; proved for [Frag.frag1]
    (see Properties/C04.v; it contains the earlier [Frag.frag0]) - hence
    [_partial].  [_frag2]: the same with weights ([Frag.frag2], see
    Properties/C04.v): stated for the enumerator [en] the model builds (it always
    builds one, [C05_enumerates]).
    [C06_keys_count] is [keys_count] for EVERY design: whatever enumerator the
    model builds (derived factors, weights, several crossings, preambles, complex
    windows) and whatever key list it lists for it, the keys are pairwise
    distinct and there are [possible_keys] of them, provided the sequence is at
    least as long as the preamble ([rounds_per_run >= 0]; otherwise Python's
    [solution_count ** rounds_per_run] is not an integer).  The counting code
    ([__count_solutions]: closed forms or [sum_combination_products]) and the
    listing code ([generate_random_samples] draws, modelled by [all_keys]) take
    different paths - without weights even different unrankers; they agree by the
    C13 bijections (Random/KeysCount.v).  [C06_loop_exhausts] is unconditional
    (any key type, any acceptance test). *)
From Coq Require Import ZArith List Bool.
From SP Require Import Design.Flat Design.Sem Random.Enum Random.Frag Random.FragSem Random.Loop
  Random.Frag0Enum Random.Frag2Thms Random.Frag1Thms Random.Frag0Thms Random.Frag0Loop Random.Frag0Example Random.KeysCount.

Theorem C06_accepted_exact_partial : forall (fb : flat), frag1 fb = true -> fl_errors_fail fb = false ->
  NoDup (map (cand_tseq fb) (accepted_keys fb)) /\
  (forall s, In s (map (cand_tseq fb) (accepted_keys fb)) <-> valid_b (code_sem fb) s = true).
Proof. exact f1_accepted_exact. Qed.
Print Assumptions C06_accepted_exact_partial.

Theorem C06_count_exact_partial : forall (fb : flat), frag1 fb = true ->
  fl_errors_fail fb = false -> rejection_free fb = true ->
  make_enumerator fb = ROk (f0_enum_plain fb) /\
  NoDup (map (cand_tseq fb) (keys_of fb)) /\
  (forall s, In s (map (cand_tseq fb) (keys_of fb)) <-> valid_b (code_sem fb) s = true) /\
  Z.of_nat (length (map (cand_tseq fb) (keys_of fb))) = possible_keys fb (f0_enum_plain fb).
Proof. exact f1_count_exact. Qed.
Print Assumptions C06_count_exact_partial.

(** the earlier statement (fragment frag0, where nothing is ever rejected) is an instance *)
Theorem C06_count_exact_frag0 : forall (fb : flat), frag0 fb = true -> fl_errors_fail fb = false ->
  make_enumerator fb = ROk (f0_enum_plain fb) /\
  NoDup (map (cand_tseq fb) (keys_of fb)) /\
  (forall s, In s (map (cand_tseq fb) (keys_of fb)) <-> valid_b (code_sem fb) s = true) /\
  Z.of_nat (length (map (cand_tseq fb) (keys_of fb))) = possible_keys fb (f0_enum_plain fb).
Proof. exact f0_count_exact. Qed.
Print Assumptions C06_count_exact_frag0.

Theorem C06_keys_count_partial : forall (fb : flat), frag1 fb = true -> fl_errors_fail fb = false ->
  make_enumerator fb = ROk (f0_enum_plain fb) /\ Z.of_nat (length (keys_of fb)) = possible_keys fb (f0_enum_plain fb).
Proof. exact f1_keys_count. Qed.
Print Assumptions C06_keys_count_partial.

Theorem C06_keys_distinct_partial : forall (fb : flat), frag1 fb = true -> NoDup (keys_of fb).
Proof. exact f1_keys_nodup. Qed.
Print Assumptions C06_keys_distinct_partial.

Theorem C06_loop_exhausts : forall (K : Type) (eqb : K -> K -> bool),
  (forall a b, eqb a b = true <-> a = b) ->
  forall (accepted : K -> bool) (possible requested : nat) (keys : list K),
  NoDup keys -> length keys = possible ->
  forall (draws res : list K),
  (forall k, In k draws -> In k keys) ->
  sample_loop K eqb accepted possible requested draws nil nil = Some res ->
  NoDup res /\
  (forall k, In k res -> In k keys /\ accepted k = true) /\
  length res = Nat.min requested (accepted_count K accepted keys) /\
  (accepted_count K accepted keys <= requested -> forall k, In k keys -> accepted k = true -> In k res).
Proof. exact loop_exhausts. Qed.
Print Assumptions C06_loop_exhausts.

Theorem C06_exhaust_partial : forall (fb : flat), frag1 fb = true -> fl_errors_fail fb = false ->
  forall (requested : nat) (draws res : list key),
  (forall k, In k draws -> In k (keys_of fb)) ->
  sample_loop key key_eqb (key_accepted fb) (length (keys_of fb)) requested draws nil nil = Some res ->
  length (keys_of fb) <= requested ->
  NoDup (map (cand_tseq fb) res) /\
  (forall s, In s (map (cand_tseq fb) res) <-> valid_b (code_sem fb) s = true).
Proof. exact f1_loop_exhausts. Qed.
Print Assumptions C06_exhaust_partial.

(** non-trivial instances: the example design has 18 per round x 6 leftover = 108
    keys = 108 valid sequences; a run of the loop that redraws a used key *)
Example C06_example :
  frag0 ex_flat = true /\ check_count ex_flat = true /\
  solution_count ex_flat = ROk 18%Z /\ leftover_solution_count ex_flat = ROk 6%Z /\
  length (all_valid (code_sem ex_flat)) = 108.
Proof.
  split; [exact ex_frag0|]. split; [apply ex_checks|]. split; [apply ex_counts|]. split; [apply ex_counts | exact ex_valid_count].
Qed.
Example C06_loop_example :
  sample_loop nat Nat.eqb (fun k => negb (Nat.eqb k 2)) 3 5 (cons 1 (cons 1 (cons 2 (cons 0 nil)))) nil nil
  = Some (cons 1 (cons 0 nil)).
Proof. reflexivity. Qed.
Example C06_example_rejection :
  frag1 ex1_flat = true /\ rejection_free ex1_flat = false /\ length (keys_of ex1_flat) = 32 /\
  length (accepted_keys ex1_flat) = 12 /\ length (all_valid (code_sem ex1_flat)) = 12 /\
  check_accepted_count ex1_flat = true.
Proof.
  split; [apply ex1_frag|]. split; [apply ex1_frag|]. split; [apply ex1_keys|]. split; [apply ex1_keys|].
  split; [apply ex1_keys | apply ex1_checks].
Qed.

(** with weights (fragment [Frag.frag2]) *)
Theorem C06_accepted_exact_frag2 : forall (fb : flat), frag2 fb = true -> fl_errors_fail fb = false ->
  NoDup (map (cand_fseq fb) (accepted_keys fb)) /\
  (forall s, In s (map (cand_fseq fb) (accepted_keys fb)) <-> valid_b (code_sem fb) s = true).
Proof. exact f2_accepted_exact. Qed.
Print Assumptions C06_accepted_exact_frag2.

Theorem C06_keys_count_frag2 : forall (fb : flat), frag2 fb = true -> forall (en : enumerator),
  make_enumerator fb = ROk en -> fl_errors_fail fb = false ->
  NoDup (keys_of fb) /\ Z.of_nat (length (keys_of fb)) = possible_keys fb en.
Proof. exact f2_keys_count. Qed.
Print Assumptions C06_keys_count_frag2.

Theorem C06_count_exact_frag2 : forall (fb : flat), frag2 fb = true -> forall (en : enumerator),
  make_enumerator fb = ROk en ->
  fl_errors_fail fb = false -> rejection_free fb = true ->
  NoDup (map (cand_fseq fb) (keys_of fb)) /\
  (forall s, In s (map (cand_fseq fb) (keys_of fb)) <-> valid_b (code_sem fb) s = true) /\
  Z.of_nat (length (map (cand_fseq fb) (keys_of fb))) = possible_keys fb en.
Proof. exact f2_count_exact. Qed.
Print Assumptions C06_count_exact_frag2.

Theorem C06_exhaust_frag2 : forall (fb : flat), frag2 fb = true -> fl_errors_fail fb = false ->
  forall (requested : nat) (draws res : list key),
  (forall k, In k draws -> In k (keys_of fb)) ->
  sample_loop key key_eqb (key_accepted fb) (length (keys_of fb)) requested draws nil nil = Some res ->
  length (keys_of fb) <= requested ->
  NoDup (map (cand_fseq fb) res) /\
  (forall s, In s (map (cand_fseq fb) res) <-> valid_b (code_sem fb) s = true).
Proof. exact f2_loop_exhausts. Qed.
Print Assumptions C06_exhaust_frag2.

Example C06_example_weighted :
  frag2 ex3_flat = true /\ frag1 ex3_flat = false /\ enumerates_b ex3_flat = true /\ length (keys_of ex3_flat) = 96 /\
  length (accepted_keys ex3_flat) = 32 /\ length (all_valid (code_sem ex3_flat)) = 32 /\
  check_accepted_count ex3_flat = true.
Proof.
  split; [exact ex3_frag2|]. split; [exact ex3_frag1|]. split; [exact ex3_enum|]. split; [exact ex3_nkeys|]. split; [exact ex3_nacc|].
  split; [exact ex3_nvalid | exact ex3_acount].
Qed.

(** the termination condition of the sampling loop, for every design the model accepts *)
Theorem C06_keys_count : forall (fb : flat) (en : enumerator) (ks : list key),
  make_enumerator fb = ROk en -> all_keys fb en = ROk ks -> (0 <= rounds_per_run fb en)%Z ->
  NoDup ks /\ Z.of_nat (length ks) = possible_keys fb en.
Proof. exact keys_count_general. Qed.
Print Assumptions C06_keys_count.

Example C06_example_multicross :
  frag2 ex4_flat = true /\ rejection_free ex4_flat = false /\ length (keys_of ex4_flat) = 162 /\
  length (accepted_keys ex4_flat) = 36 /\ length (all_valid (code_sem ex4_flat)) = 36 /\
  check_accepted_count ex4_flat = true.
Proof.
  split; [exact ex4_frag2|]. split; [reflexivity|]. split; [exact ex4_nkeys|]. split; [exact ex4_nacc|].
  split; [exact ex4_nvalid | exact ex4_acount].
Qed.

(** a derived factor in the sampled crossing: nothing is rejected, 96 keys = [possible_keys] = 96 valid sequences;
    with an excluded level of the source factor 24 of the 96 keys are accepted *)
Example C06_example_derived :
  frag2 ex6_flat = true /\ has_derived ex6_flat = true /\ rejection_free ex6_flat = true /\
  length (keys_of ex6_flat) = 96 /\ length (all_valid (code_sem ex6_flat)) = 96 /\ check_count ex6_flat = true /\
  frag2 ex7_flat = true /\ rejection_free ex7_flat = false /\ length (accepted_keys ex7_flat) = 24 /\
  length (all_valid (code_sem ex7_flat)) = 24 /\ check_accepted_count ex7_flat = true.
Proof.
  split; [exact ex6_frag2|]. split; [exact ex6_derived|]. split; [exact ex6_rejection_free|]. split; [exact ex6_nkeys|].
  split; [exact ex6_nvalid|]. split; [exact ex6_count|]. split; [exact ex7_frag2|]. split; [exact ex7_rejection_free|].
  split; [exact ex7_nacc|]. split; [exact ex7_nvalid | exact ex7_acount].
Qed.

(** a nested design: 64 keys, 8 accepted = 8 valid sequences *)
Example C06_example_nested :
  frag2 ex8_flat = true /\ rejection_free ex8_flat = false /\ length (keys_of ex8_flat) = 64 /\
  length (accepted_keys ex8_flat) = 8 /\ length (all_valid (code_sem ex8_flat)) = 8 /\ check_accepted_count ex8_flat = true.
Proof.
  split; [exact ex8_frag2|]. split; [reflexivity|]. split; [exact ex8_nkeys|]. split; [exact ex8_nacc|].
  split; [exact ex8_nvalid | exact ex8_acount].
Qed.

(** a derived factor of [act_design] outside the sampled crossing: 24 keys, 12 accepted = 12 valid sequences *)
Example C06_example_uncrossed_derived :
  frag2 ex9_flat = true /\ length (keys_of ex9_flat) = 24 /\ length (accepted_keys ex9_flat) = 12 /\
  length (all_valid (code_sem ex9_flat)) = 12 /\ check_accepted_count ex9_flat = true.
Proof.
  split; [exact ex9_frag2|]. split; [exact ex9_nkeys|]. split; [exact ex9_nacc|]. split; [exact ex9_nvalid | exact ex9_acount].
Qed.
