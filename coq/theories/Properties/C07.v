(** C07 - SAT-based and combinatoric samplers agree on the solution space.

    Full statement (kept for reference; NOT proved in this generality):
      for every design that both IterateSATGen and RandomGen accept, the set of
      sequences IterateSATGen can return equals the set RandomGen can return,
      i.e. for every flat record fb with [fl_errors_fail fb = false] on which
      both [compile fb] and [sample_keys fb] succeed, and every sequence q:
        (exists t, sat t final = true /\ t decodes to q)  <->
        (exists k cand, In k (keys_of fb) /\ decode_key fb k = Some cand /\
                        accepts fb cand = true /\ tseq_of_run fb cand = q).

    [C07_sat_eq_random_partial]: that equivalence on the intersection of the
    two proved fragments, [in_f1 fb = true] (Encode/CodeSem.v) and
    [frag1 fb = true] (Random/Frag.v, see Properties/C04.v; it contains the earlier
    [frag0]): one crossing of non-derived factors with unit weights, further
    non-derived factors, exclusions, the user constraints both fragments admit
    (AtMostKInARow, ExactlyK, Exclude, Pin), any number of trials.  Stated directly between the two models: the left side is the
    model of the SAT pipeline (models of [full_cnf] of the compiled request,
    read on the trial variables by [onehot]), the right side the model of
    RandomGen (keys, decoded candidates, acceptance).  Both sides equal
    [{q | valid_b (code_sem fb) q = true}] (C01_sound / C02_complete and
    f1_accept_sound / f1_accept_complete).  [C07_sat_eq_random_frag2]: the same
    with weighted crossed levels, crossing weights, further crossings,
    implied factors, within-trial derived factors of [act_design] (in the
    sampled crossing or filled in after the draw) and sustained further
    crossings ([frag2]; the right side then reads [cand_seq], the candidate with the
    implied rows added).
    Missing for the full statement:
    transition / window factors and preambles on the
    RandomGen side (outside frag2), complex windows / Nest / Sequential / LatinSquare on the
    SAT side (outside F1); there C07 is decided by the differential search. *)
From Coq Require Import ZArith List Bool.
From SP Require Import Base.Sat Design.Flat Design.Sem.
From SP Require Import Encode.Compile Encode.CodeSem Encode.LayoutF1 Encode.F1Sem Encode.SatRandom.
From SP Require Import Random.Enum Random.Frag Random.FragSem Random.SatRandom1 Random.SatRandom2 Random.Frag0Example.

Theorem C07_sat_eq_random_partial :
  forall (fb : flat) (b : backend) (ok : bool) (n' : Z) (final : cnf),
    in_f1 fb = true -> frag1 fb = true -> (0 < T fb)%nat -> fl_errors_fail fb = false ->
    compile fb = COk b -> full_cnf b = (ok, n', final) ->
    forall q : tseq,
      (exists t, sat t final = true /\ onehot fb t q) <->
      (exists k cand, In k (keys_of fb) /\ decode_key fb k = Some cand /\ accepts fb cand = true /\
                      tseq_of_run fb cand = q).
Proof. exact sat_eq_random1. Qed.
Print Assumptions C07_sat_eq_random_partial.

(** the two fragment predicates are jointly satisfiable: a 2 x 3 crossing on 6
    trials (720 keys on the RandomGen side, and the record compiles) *)
Example C07_example :
  in_f1 ex_fb = true /\ frag0 ex_fb = true /\ (0 < T ex_fb)%nat /\ fl_errors_fail ex_fb = false /\
  (exists b, compile ex_fb = COk b) /\ length (keys_of ex_fb) = 720%nat.
Proof. exact sat_eq_random_example. Qed.
(** jointly satisfiable outside frag0: exclusions, AtMostKInARow, Pin and a leftover round *)
Example C07_example_rejection :
  in_f1 ex1_flat = true /\ frag1 ex1_flat = true /\ frag0 ex1_flat = false /\ (0 < T ex1_flat)%nat /\
  fl_errors_fail ex1_flat = false /\ (exists b, compile ex1_flat = COk b) /\
  length (keys_of ex1_flat) = 32%nat /\ length (accepted_keys ex1_flat) = 12%nat.
Proof. exact sat_eq_random1_example. Qed.

(** with weights (fragment [Frag.frag2]) *)
Theorem C07_sat_eq_random_frag2 :
  forall (fb : flat) (b : backend) (ok : bool) (n' : Z) (final : cnf),
    in_f1 fb = true -> frag2 fb = true -> (0 < T fb)%nat -> fl_errors_fail fb = false ->
    compile fb = COk b -> full_cnf b = (ok, n', final) ->
    forall q : tseq,
      (exists t, sat t final = true /\ onehot fb t q) <->
      (exists k cand, In k (keys_of fb) /\ decode_key fb k = Some cand /\ accepts fb cand = true /\
                      cand_seq fb cand = q).
Proof. exact sat_eq_random2. Qed.
Print Assumptions C07_sat_eq_random_frag2.

Example C07_example_weighted :
  in_f1 ex3_flat = true /\ frag2 ex3_flat = true /\ frag1 ex3_flat = false /\ (0 < T ex3_flat)%nat /\
  fl_errors_fail ex3_flat = false /\ (exists b, compile ex3_flat = COk b) /\
  length (keys_of ex3_flat) = 96%nat /\ length (accepted_keys ex3_flat) = 32%nat.
Proof. exact sat_eq_random2_example. Qed.
