(** C08 - Synthesis never fails internally on an accepted design.

    What is proved about the models of the formula-based pipeline
    (Encode/Compile.v = [Block.build_backend_request] and every
    [Constraint.apply]; Core/Card.v = [combine_cnf_with_requests];
    Sample/Decode.v = [Gen.decode]); the correspondence run ties the error
    constructors of the model to the exception classes of the real code.
    [C08_compile_total_f1]: on the fragment F1 (CodeSem.in_f1) with at least
    one trial the compilation returns no error constructor.  The hypothesis
    [0 < T fb] is needed: with no trial [Cross.apply] indexes
    [crossing_combinations[0]] of an empty list (IndexError in the code,
    [CErr CIndexError] in the model); real blocks always have a trial.
    [C08_full_cnf_total]: the cardinality stage succeeds (ok = true) on every
    request list whose variable lists are non-empty, with non-negative k and
    variables below [b_fresh]; [C08_full_cnf_empty_list_refuted]: an EMPTY
    variable list makes it fail - the real code raises
    ValueError('cannot take pop count of empty list') (reachable only through
    [ExactlyK] on an empty window; excluded from F1 by [constraint_f1]).
    [C08_inarow_short_window_total]: AtLeastKInARow / ExactlyKInARow succeed
    for every k and every window length, in particular windows shorter than k
    (the branches added by /repo 0e49512; before, IndexError).
    [C08_decode_total]: [Gen.decode] of a one-hot assignment returns a dict.
    Outside F1 (complex windows, Nest, LatinSquare, Sequential, RandomGen) C08
    is decided by the correspondence of error classes and the search only. *)
From Coq Require Import ZArith List Bool.
From SP Require Import Base.Sat Base.Bits Design.Flat Design.Layout.
From SP Require Import Encode.Compile Encode.CodeSem Encode.Generic Encode.CompileCorollaries Encode.Totality.
From SP Require Core.Card Sample.Decode Sample.DecodeProofs Design.LayoutWf Sample.DecodeWf.
From SP Require Random.Enum Random.Frag Random.Frag2Thms Random.KeysCount.

Theorem C08_compile_total_f1 :
  forall fb : flat, in_f1 fb = true -> (0 < T fb)%nat -> exists b, compile fb = COk b.
Proof. exact compile_total_f1. Qed.
Print Assumptions C08_compile_total_f1.

Theorem C08_full_cnf_total :
  forall b : backend,
    (1 <= b_fresh b)%Z -> Forall (req_ok (b_fresh b - 1)) (b_requests b) ->
    exists n' final, full_cnf b = (true, n', final).
Proof. exact full_cnf_total. Qed.
Print Assumptions C08_full_cnf_total.

Theorem C08_full_cnf_empty_list_refuted :
  exists b, In (Card.EQ, 1%Z, nil) (b_requests b) /\ fst (fst (full_cnf b)) = false.
Proof. exact full_cnf_empty_list. Qed.
Print Assumptions C08_full_cnf_empty_list_refuted.

(** /repo 4d027cb: [ExactlyK] on a window in which the factor has no level adds And([1, -1]) (k <> 0) or nothing
    (k = 0) instead of an EQ request on no variable: no request of its contribution has an empty variable list,
    for every record (inside F1 or not), so the compilation no longer reaches the error above through [ExactlyK] *)
Theorem C08_exactlyk_empty_list_total :
  forall (fb : flat) (k f l : nat) (wb : option geometry) (fresh : Z) (ct : contrib),
    apply_exactlyk fb k f l wb fresh = COk ct ->
    Forall (fun q : req => snd q <> nil) (ct_requests ct).
Proof. exact exactlyk_empty_list_total. Qed.
Print Assumptions C08_exactlyk_empty_list_total.

Theorem C08_inarow_short_window_total :
  forall (fb : flat) (k f l : nat) (wb : option geometry) (fresh : Z) (vls : list (list nat)),
    var_lists fb f l wb = COk vls ->
    (exists ct, apply_atleast fb k f l wb fresh = COk ct) /\
    (exists ct, apply_exactlykinarow fb k f l wb fresh = COk ct).
Proof. exact inarow_short_window_total. Qed.
Print Assumptions C08_inarow_short_window_total.

Theorem C08_decode_total :
  forall fb : flat,
    LayoutWf.wf_layout fb = true -> DecodeWf.act_keys_distinct fb = true -> (1 <= fl_trials fb)%nat ->
    forall s : nat -> nat -> nat,
      (forall f t, DecodeProofs.cell fb f t -> (s f t < nlevels fb f)%nat) ->
      forall sol : list Z, NoDup sol ->
        (forall v, (1 <= v <= variables_per_sample fb)%nat ->
                   (In (Z.of_nat v) sol <->
                    exists f t, DecodeProofs.cell fb f t /\ encode_variable fb f (s f t) t = Some v)) ->
        exists d, Decode.decode fb sol = Decode.DOk d.
Proof. exact decode_total. Qed.
Print Assumptions C08_decode_total.

(** the hypotheses are satisfiable: the colour x text design with a derived
    factor compiles; k = 5 on its 4-trial window succeeds for both encoders *)
Example C08_example :
  in_f1 ex_stroop = true /\ (0 < T ex_stroop)%nat /\ (exists b, compile ex_stroop = COk b).
Proof. exact c08_example. Qed.
Example C08_short_window_example :
  exists c1 c2, apply_atleast ex_stroop 5 0 0 None 100%Z = COk c1 /\
                apply_exactlykinarow ex_stroop 5 0 0 None 100%Z = COk c2.
Proof. exact inarow_short_example. Qed.

(** RandomGen, every design: once the partition of the design ([enum_base_of]) and the filter of the source
    combinations ([valid_sources]; the known KeyError of the derived-source chain arises there) have succeeded and the
    crossing is not empty, the rest of [UCSolutionEnumerator.__init__] (both [__count_solutions] calls) and the listing
    of all keys return: no exception constructor and no fuel exhaustion (C13 totality). *)
Theorem C08_random_enumerator_total : forall (fb : flat) (eb : Random.Enum.enum_base) (vs : list (list nat)),
  Random.Enum.enum_base_of fb = Random.Enum.ROk eb -> Random.Enum.valid_sources fb eb = Random.Enum.ROk vs ->
  Random.Enum.eb_csize eb <> 0%Z ->
  exists (en : Random.Enum.enumerator) (ks : list Random.Enum.key),
    Random.Enum.make_enumerator fb = Random.Enum.ROk en /\ Random.Enum.all_keys fb en = Random.Enum.ROk ks /\
    Random.Enum.en_base en = eb /\ Random.Enum.en_valid en = vs.
Proof. exact Random.KeysCount.enumerator_total. Qed.
Print Assumptions C08_random_enumerator_total.

(** RandomGen: on the fragment [Frag.frag2] (Properties/C04.v) the model of
    [UCSolutionEnumerator] / [RandomGen.__sample] (Random/Enum.v) returns no error
    value: the enumerator is built, the key list is listed, every key is decoded
    to a candidate and the rejection test returns a verdict on it (no exception
    constructor, in particular no fuel exhaustion of the memoised counter:
    C13 totality). *)
Theorem C08_random_total_frag2 : forall (fb : flat), Random.Frag.frag2 fb = true ->
  exists (en : Random.Enum.enumerator) (ks : list Random.Enum.key),
    Random.Enum.make_enumerator fb = Random.Enum.ROk en /\ Random.Enum.all_keys fb en = Random.Enum.ROk ks /\
    forall k, In k ks ->
      exists (r : Random.Enum.run) (v : bool),
        Random.Enum.decode_with fb en k = Random.Enum.ROk r /\
        Random.Enum.are_constraints_violated fb en r = Random.Enum.ROk v.
Proof. exact Random.Frag2Thms.f2_total. Qed.
Print Assumptions C08_random_total_frag2.
