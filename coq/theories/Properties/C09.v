(** C09 - Without-replacement samplers return distinct sequences, as many as exist.

    The iterate-and-block loop of IterateSATGen / IterateGen
    ([core/generate/sample_non_uniform.py]: [compute_solutions], [update_file])
    is modelled by [Sample.Iterate.iterate] over an ABSTRACT solver: the two
    hypotheses below are the trusted behaviour of CryptoMiniSat (a returned
    assignment satisfies the clauses; "no solution" only for an unsatisfiable
    formula).  For every formula, support size and requested count:
    the returned sequences (solutions cut to the support) are pairwise
    different, never more than requested, each the projection of a model, and if
    fewer than requested were returned then EVERY model's projection was
    returned - i.e. min(requested, N) of the N distinct projections.
    The text-level step (the appended DIMACS line parses to exactly the blocking
    clause) is C27_update_file_blocks; that projections of models of the compiled
    formula are exactly the valid sequences is C01-C03; RandomGen's
    without-replacement loop is C06_loop_exhausts.  What is NOT covered by a
    theorem here: the statement that two different object-level solutions print
    identically only for copies of a weighted level of an uncrossed factor - it is
    decided per run by the harness (multiplicities against the oracle). *)
From Coq Require Import ZArith List Bool.
From SP Require Import Base.Sat Text.Dimacs Text.SolverIOProofs Sample.Iterate Sample.IterateProofs.
Import ListNotations.
Open Scope Z_scope.

Theorem C09_returned_distinct :
  forall (solve : cnf -> option asg) (support : Z),
    (forall f p, solve f = Some p -> sat p f = true) ->
    forall count f, NoDup (returned solve support count f).
Proof. exact returned_nodup. Qed.
Print Assumptions C09_returned_distinct.

Theorem C09_returned_min_requested_available :
  forall (solve : cnf -> option asg) (support : Z),
    (forall f p, solve f = Some p -> sat p f = true) ->
    (forall f, solve f = None -> forall s, sat s f = false) ->
    forall count f,
      (length (returned solve support count f) <= count)%nat /\
      (forall l, In l (returned solve support count f) -> exists p, sat p f = true /\ l = sol_of p support) /\
      ((length (returned solve support count f) < count)%nat ->
       forall s, sat s f = true -> In (sol_of s support) (returned solve support count f)).
Proof. exact returned_exact. Qed.
Print Assumptions C09_returned_min_requested_available.

Theorem C09_iterate_spec :
  forall (solve : cnf -> option asg) (support : Z),
    (forall f p, solve f = Some p -> sat p f = true) ->
    (forall f, solve f = None -> forall s, sat s f = false) ->
    forall count f,
      (length (returned solve support count f) <= count)%nat /\
      Forall (fun p => sat p f = true) (iterate solve support count f) /\
      ForallOrdPairs (fun p q => ~ agree_upto support q p) (iterate solve support count f) /\
      ((length (returned solve support count f) < count)%nat ->
       forall s, sat s f = true -> exists p, In p (iterate solve support count f) /\ agree_upto support s p).
Proof. exact iterate_spec. Qed.
Print Assumptions C09_iterate_spec.

(** The loop is executable: with a (here: table-driven, unverified) solver stub
    for the formula (1 or 2) over support 2 it returns the three projected
    models and stops at the fourth call. *)
Definition stub (f : cnf) : option asg :=
  match length f with
  | 1%nat => Some (fun v => v =? 1)
  | 2%nat => Some (fun v => v =? 2)
  | 3%nat => Some (fun v => (v =? 1) || (v =? 2))
  | _ => None
  end.
Example C09_loop_runs : returned stub 2 5 [[1; 2]] = [[1; -2]; [-1; 2]; [1; 2]].
Proof. reflexivity. Qed.
