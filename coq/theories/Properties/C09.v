(** C09 - Without-replacement samplers return distinct sequences, as many as exist.

    The iterate-and-block loop of IterateSATGen / IterateGen
    ([core/generate/sample_non_uniform.py]: [compute_solutions], [update_file])
    is modelled by [Sample.Iterate.iterate] over an ABSTRACT solver: the two
    hypotheses below are the trusted behaviour of CryptoMiniSat (a returned
    assignment satisfies the clauses; "no solution" only for an unsatisfiable
    formula).  For every formula, support size and requested count:
    the returned sequences (solutions cut to the support) are pairwise
    different, never more than requested, each the projection of a model, and if
    fewer than requested were returned then EVERY model's projection was
    returned - i.e. min(requested, N) of the N distinct projections.
    The text-level step (the appended DIMACS line parses to exactly the blocking
    clause) is C27_update_file_blocks; that projections of models of the compiled
    formula are exactly the valid sequences is C01-C03; RandomGen's
    without-replacement loop is C06_loop_exhausts.

    The multiplicity clause - a name-level sequence appears more than once only as
    often as the weights of an uncrossed factor's levels allow - is a theorem about
    the reference semantics (second half of this file, Sample/NameMultiplicity.v on
    top of Front/DesugarSem.v / C23): the object level of a design with a weighted
    free factor [f] is the desugared form [widen f (list_sum ws) S], the sequence
    the user sees is the image under [proj_seq f ws], and in ANY duplicate-free
    list of valid object-level sequences (what C09_returned_distinct gives for the
    loop) a name-level sequence [s] is the image of at most
    (product of the weights of the levels in row [f] of [s]) elements, of none if
    [s] is not valid for [S], and of exactly that many when the list is exhaustive
    (the case "fewer than requested" of C09_returned_min_requested_available);
    with several weighted free factors the products multiply.  What remains decided
    per run by the harness (multiplicities against the oracle): that the real
    pipeline's object level IS this desugared form (c23.py compares [widen] / [orig]
    with the twin program; C01-C03 tie solutions to valid sequences) and the
    multiplicities the real samplers show. *)
From Coq Require Import ZArith List Bool.
From SP Require Import Base.Sat Text.Dimacs Text.SolverIOProofs Sample.Iterate Sample.IterateProofs.
From SP Require Design.Sem Front.DesugarSem Sample.NameMultiplicity.
Import ListNotations.
Open Scope Z_scope.

Theorem C09_returned_distinct :
  forall (solve : cnf -> option asg) (support : Z),
    (forall f p, solve f = Some p -> sat p f = true) ->
    forall count f, NoDup (returned solve support count f).
Proof. exact returned_nodup. Qed.
Print Assumptions C09_returned_distinct.

Theorem C09_returned_min_requested_available :
  forall (solve : cnf -> option asg) (support : Z),
    (forall f p, solve f = Some p -> sat p f = true) ->
    (forall f, solve f = None -> forall s, sat s f = false) ->
    forall count f,
      (length (returned solve support count f) <= count)%nat /\
      (forall l, In l (returned solve support count f) -> exists p, sat p f = true /\ l = sol_of p support) /\
      ((length (returned solve support count f) < count)%nat ->
       forall s, sat s f = true -> In (sol_of s support) (returned solve support count f)).
Proof. exact returned_exact. Qed.
Print Assumptions C09_returned_min_requested_available.

Theorem C09_iterate_spec :
  forall (solve : cnf -> option asg) (support : Z),
    (forall f p, solve f = Some p -> sat p f = true) ->
    (forall f, solve f = None -> forall s, sat s f = false) ->
    forall count f,
      (length (returned solve support count f) <= count)%nat /\
      Forall (fun p => sat p f = true) (iterate solve support count f) /\
      ForallOrdPairs (fun p q => ~ agree_upto support q p) (iterate solve support count f) /\
      ((length (returned solve support count f) < count)%nat ->
       forall s, sat s f = true -> exists p, In p (iterate solve support count f) /\ agree_upto support s p).
Proof. exact iterate_spec. Qed.
Print Assumptions C09_iterate_spec.

(** The loop is executable: with a (here: table-driven, unverified) solver stub
    for the formula (1 or 2) over support 2 it returns the three projected
    models and stops at the fourth call. *)
Definition stub (f : cnf) : option asg :=
  match length f with
  | 1%nat => Some (fun v => v =? 1)
  | 2%nat => Some (fun v => v =? 2)
  | 3%nat => Some (fun v => (v =? 1) || (v =? 2))
  | _ => None
  end.
Example C09_loop_runs : returned stub 2 5 [[1; 2]] = [[1; -2]; [-1; 2]; [1; 2]].
Proof. reflexivity. Qed.

(** * Name-level multiplicity (reference semantics) *)
Section NameLevel.
Import Design.Sem Front.DesugarSem Sample.NameMultiplicity.
Local Open Scope nat_scope.

(** Counting.  A duplicate-free list [l] of elements satisfying [P] is no longer than a
    duplicate-free enumeration [fib] of [P] - and as long if it holds every element of [P] ... *)
Theorem C09_nodup_count_bound :
  forall (A : Type) (P : A -> bool) (l fib : list A),
    NoDup l -> (forall x, In x l -> P x = true) ->
    NoDup fib -> (forall x, P x = true <-> In x fib) ->
    length l <= length fib /\
    ((forall x, P x = true -> In x l) -> length l = length fib).
Proof. exact (@nodup_count_bound). Qed.
Print Assumptions C09_nodup_count_bound.

(** ... and image by image: for every [y], [l] has at most as many elements with [g x = y]
    as the whole enumeration. *)
Theorem C09_nodup_fibre_count_bound :
  forall (A B : Type) (P : A -> bool) (g : A -> B) (eqb : B -> B -> bool) (l fib : list A),
    (forall a b, eqb a b = true <-> a = b) ->
    NoDup l -> (forall x, In x l -> P x = true) ->
    NoDup fib -> (forall x, P x = true <-> In x fib) ->
    forall y,
      length (filter (fun x => eqb (g x) y) l) <= length (filter (fun x => eqb (g x) y) fib) /\
      ((forall x, P x = true -> In x l) ->
       length (filter (fun x => eqb (g x) y) l) = length (filter (fun x => eqb (g x) y) fib)).
Proof. exact (@nodup_fibre_count_bound). Qed.
Print Assumptions C09_nodup_fibre_count_bound.

(** [tseq_eqb] decides equality of sequences; [row_levels row] are the levels of a row, and
    the row of a non-derived factor in a valid sequence is [map Some] of them. *)
Theorem C09_tseq_eqb_eq : forall a b : tseq, tseq_eqb a b = true <-> a = b.
Proof. exact tseq_eqb_eq. Qed.
Print Assumptions C09_tseq_eqb_eq.

Theorem C09_valid_row :
  forall S s f fd,
    valid_b S s = true -> nth_error (s_factors S) f = Some fd -> f_derived fd = None ->
    f < length s /\ nth f s [] = map Some (row_levels (nth f s [])) /\
    (forall x, In x (row_levels (nth f s [])) -> x < f_nlevels fd).
Proof. exact valid_row. Qed.
Print Assumptions C09_valid_row.

(** One weighted free factor [f] with weights [ws] (hypotheses of C23_desugared_fibre).
    [sols]: any duplicate-free list of valid sequences of the desugared form.  The number of
    its elements reported as the name-level sequence [s] is at most the product of the weights
    of the levels in row [f] of [s] if [s] is valid for [S], and 0 otherwise; with equality
    if [sols] holds every valid sequence of the desugared form. *)
Theorem C09_name_multiplicity :
  forall S f ws fd,
    free_b S f = true -> nth_error (s_factors S) f = Some fd -> length ws = f_nlevels fd ->
    forall sols : list tseq,
      NoDup sols -> (forall x, In x sols -> valid_b (widen f (list_sum ws) S) x = true) ->
      forall s,
        length (filter (fun x => tseq_eqb (proj_seq f ws x) s) sols)
        <= (if valid_b S s then fold_right (fun l acc => nth l ws 0 * acc) 1 (row_levels (nth f s [])) else 0) /\
        ((forall x, valid_b (widen f (list_sum ws) S) x = true -> In x sols) ->
         length (filter (fun x => tseq_eqb (proj_seq f ws x) s) sols)
         = (if valid_b S s then fold_right (fun l acc => nth l ws 0 * acc) 1 (row_levels (nth f s [])) else 0)).
Proof. exact name_multiplicity. Qed.
Print Assumptions C09_name_multiplicity.

(** Several weighted free factors [fs = [(f1, ws1); ...]] (distinct, each free in [S], one
    weight per level: [weighted_free]); [widen_all] widens them one after the other, [proj_all]
    replaces the copies in each of their rows, [mult_all fs s] is the product over the factors
    of the products of the weights in their rows of [s]. *)
Theorem C09_name_multiplicity_all :
  forall fs S,
    weighted_free S fs ->
    forall sols : list tseq,
      NoDup sols -> (forall x, In x sols -> valid_b (widen_all fs S) x = true) ->
      forall s,
        length (filter (fun x => tseq_eqb (proj_all fs x) s) sols) <= (if valid_b S s then mult_all fs s else 0) /\
        ((forall x, valid_b (widen_all fs S) x = true -> In x sols) ->
         length (filter (fun x => tseq_eqb (proj_all fs x) s) sols) = (if valid_b S s then mult_all fs s else 0)).
Proof. exact name_multiplicity_all. Qed.
Print Assumptions C09_name_multiplicity_all.

(** The example of C23_example_sem (W = [w0 x 2, w1] outside the crossing [B], 2 trials): the 18
    valid sequences of the desugared form are enumerated without duplicates; the theorem applies
    to them; the 8 valid name-level sequences are reported 4, 4, 2, 2, 2, 2, 1, 1 times, which
    are exactly their multiplicities (sum 18); an invalid sequence has multiplicity 0. *)
Example C09_example_name_multiplicity :
  let W := widen 0 (list_sum [2; 1]) ex_orig_sem in
  free_b ex_orig_sem 0 = true /\
  NoDup (all_valid W) /\ (forall x, In x (all_valid W) -> valid_b W x = true) /\ length (all_valid W) = 18 /\
  (forall s, count_over 0 [2; 1] s (all_valid W) <= name_mult ex_orig_sem 0 [2; 1] s) /\
  map (fun s => count_over 0 [2; 1] s (all_valid W)) (all_valid ex_orig_sem) = [4; 4; 2; 2; 2; 2; 1; 1] /\
  map (name_mult ex_orig_sem 0 [2; 1]) (all_valid ex_orig_sem) = [4; 4; 2; 2; 2; 2; 1; 1] /\
  name_mult ex_orig_sem 0 [2; 1] [[Some 0; Some 0]; [Some 0; Some 0]] = 0.
Proof. exact ex_name_multiplicity. Qed.

(** Two weighted free factors V = [v0 x 2, v1], W = [w0, w1 x 2] outside the crossing [B]:
    32 valid name-level sequences, 162 in the desugared form, multiplicities from 1 to 4 x 4. *)
Example C09_example_two_weighted :
  let W := widen_all ex_two_weights ex_two_weighted_sem in
  weighted_free ex_two_weighted_sem ex_two_weights /\
  NoDup (all_valid W) /\ (forall x, In x (all_valid W) -> valid_b W x = true) /\
  length (all_valid ex_two_weighted_sem) = 32 /\ length (all_valid W) = 162 /\
  (forall s, count_over_all ex_two_weights s (all_valid W) <= name_mult_all ex_two_weighted_sem ex_two_weights s) /\
  (let sols := all_valid W in map (fun s => count_over_all ex_two_weights s sols) (all_valid ex_two_weighted_sem))
  = map (name_mult_all ex_two_weighted_sem ex_two_weights) (all_valid ex_two_weighted_sem) /\
  map (name_mult_all ex_two_weighted_sem ex_two_weights) (all_valid ex_two_weighted_sem)
  = [4; 4; 8; 8; 8; 8; 16; 16; 2; 2; 4; 4; 4; 4; 8; 8; 2; 2; 4; 4; 4; 4; 8; 8; 1; 1; 2; 2; 2; 2; 4; 4].
Proof. exact ex_name_multiplicity_two. Qed.
End NameLevel.
