(** placeholder until the theorems land *)
From SP Require Import Core.Card.
