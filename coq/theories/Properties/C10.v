(** C10 - Cardinality constraints are encoded exactly.

    [request kd k vs] (kd = EQ / LT / GT: exactly / fewer than / more than [k]
    of the literals [vs] are true), run on a fresh clause store whose variables
    1..n are already allocated, succeeds and produces clauses over 1..n' that
    - can be satisfied by an extension of an assignment [s] of 1..n exactly
      when the number of true literals of [vs] under [s] stands in the
      relation [rel kd] to [k], and
    - determine the auxiliary variables n+1..n' uniquely.
    [vs] may be any non-empty list of literals of variables 1..n ([count] is
    positional); a list of distinct positive variables is the special case of
    the informal statement. *)
From Coq Require Import ZArith List Bool Lia.
From SP Require Import Base.Sat Base.Bits Core.CnfModel Core.Card Core.CardProofs.
Import ListNotations.
Open Scope Z_scope.

Theorem C10_exact : forall kd k vs n,
  0 <= n -> 0 <= k -> vs <> [] -> Forall (inr n) vs ->
  exists n' clauses,
    request kd k vs {| next := n; cls := [] |}
    = (true, {| next := n'; cls := clauses |}) /\
    n <= n' /\ vars_upto n' clauses /\
    (forall s, (exists t, agree_upto n s t /\ sat t clauses = true)
               <-> match kd with
                   | EQ => count s vs = k
                   | LT => count s vs < k
                   | GT => count s vs > k
                   end) /\
    (forall t1 t2, agree_upto n t1 t2 ->
       sat t1 clauses = true -> sat t2 clauses = true -> agree_upto n' t1 t2).
Proof. exact request_correct. Qed.
Print Assumptions C10_exact.

(** The hypotheses are satisfiable, e.g. "fewer than 2 of x1, -x2, x3, x3". *)
Example C10_instance :
  0 <= 3 /\ 0 <= 2 /\ [1; -2; 3; 3] <> [] /\ Forall (inr 3) [1; -2; 3; 3] /\
  fst (fst (run_request 3 LT 2 [1; -2; 3; 3])) = true /\
  snd (fst (run_request 3 LT 2 [1; -2; 3; 3])) = 40.
Proof.
  split; [lia|]. split; [lia|]. split; [discriminate|].
  split; [repeat constructor; unfold inr; lia|]. vm_compute. split; reflexivity.
Qed.
