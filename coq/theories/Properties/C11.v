(** C11 - Formula-to-CNF conversions preserve meaning.

    Models: Logic/Formula.v ([fm], [nf], [eval], [neval], [cnf_to_json]),
    Logic/Tseitin.v, Logic/Naive.v, Logic/Switching.v (tied to
    sweetpea/_internal/logic.py by harness/props/c11.py on every run).
    Proofs: Logic/TseitinProofs.v, Logic/NaiveProofs.v, Logic/SwitchingProofs.v.

    Leaves are DIMACS literals ([eval s (FVar z) = lit_true s z]).  The calling
    convention of the converters ([next_variable] is a positive variable above
    every variable of the formula) appears as the hypotheses [1 <= nv] and
    [Z.abs z < nv] for every leaf [z]; the harness also probes outside it. *)
From Coq Require Import ZArith List Bool.
From SP Require Import Base.Sat Logic.Formula Logic.Tseitin Logic.Naive Logic.Switching.
From SP Require Import Logic.TseitinProofs Logic.NaiveProofs Logic.SwitchingProofs.
Import ListNotations.
Open Scope Z_scope.

(** ** Tseitin: the clauses are a definitional extension over the reported
    fresh range plus one unit clause asserting the formula.  [defs] are all
    clauses but the last; [Defines (nv-1) (nv'-1) defs ext] says that every
    assignment [s] of the variables below [nv] has exactly one extension
    ([ext s]) to the variables below [nv'] satisfying [defs]; under that
    extension the whole clause list holds iff the formula holds under [s].
    Shared subformulas (cache hits) are covered: the proof's invariant is that
    the cache lists the gates in allocation order, each key's arguments being
    smaller than its variable, and the emitted clauses are exactly those gates. *)
Theorem C11_tseitin : forall f nv cs nv',
  1 <= nv -> (forall z, In z (leaves f) -> z <> 0 /\ Z.abs z < nv) ->
  tseitin f nv = (cs, nv') ->
  exists defs r ext,
    cs = defs ++ [[r]] /\ nv <= nv' /\
    Defines (nv - 1) (nv' - 1) defs ext /\
    (forall s, sat (ext s) cs = eval s f) /\
    (forall c l, In c cs -> In l c ->
       (In l (leaves f) \/ In (- l) (leaves f)) \/ nv <= Z.abs l < nv').
Proof. exact tseitin_correct. Qed.
Print Assumptions C11_tseitin.

(** The same in terms of solutions: restricted to the original variables the
    solutions of the clauses are exactly the models of the formula, and a
    solution is determined by its restriction (each new variable is uniquely
    determined). *)
Theorem C11_tseitin_models : forall f nv cs nv',
  1 <= nv -> (forall z, In z (leaves f) -> z <> 0 /\ Z.abs z < nv) ->
  tseitin f nv = (cs, nv') ->
  (forall s, (exists t, agree_upto (nv - 1) s t /\ sat t cs = true) <-> eval s f = true) /\
  (forall t t', agree_upto (nv - 1) t t' -> sat t cs = true -> sat t' cs = true ->
                agree_upto (nv' - 1) t t') /\
  vars_upto (nv' - 1) cs.
Proof. exact tseitin_models. Qed.
Print Assumptions C11_tseitin_models.

(** [tseitin] is the [cnf_to_json] image of the tree [to_cnf_tseitin] returns
    ([tseitin_tree]), with the same fresh counter, and that tree is an [And] of
    [Or]s of (negated) variables followed by the representative. *)
Theorem C11_tseitin_tree : forall f nv,
  cnf_to_json [fst (tseitin_tree f nv)] = Ok (fst (tseitin f nv)) /\
  snd (tseitin_tree f nv) = snd (tseitin f nv) /\
  exists cls r, fst (tseitin_tree f nv) = NAnd (map (fun c => NOr (map slit_nf c)) cls ++ [NVar r]).
Proof. exact tseitin_json. Qed.
Print Assumptions C11_tseitin_tree.

Example C11_tseitin_example :
  (forall z, In z (leaves ex_fm) -> z <> 0 /\ Z.abs z < 4) /\
  tseitin ex_fm 4 =
    ([[-1; 2; 4]; [1; -4]; [-2; -4]; [3; 5]; [-3; -5]; [6]; [4; 5; 6; -7]; [-4; 7]; [-5; 7]; [-6; 7];
      [4; 7; 8]; [-4; -7; 8]; [4; -7; -8]; [-4; 7; -8]; [8]], 9).
Proof. exact ex_tseitin. Qed.

(** ** Naive conversion.  Full statement (false of the model, because false of
    the code: see [C11_naive_total_refuted]):

      forall f nv, exists g, to_cnf_naive f nv = Ok (g, nv) /\
        (forall s, neval s g = eval s f) /\ incl (nleaves g) (leaves f) /\ is_cnf g = true.

    What holds: whenever the conversion returns, the result is equivalent to
    the input under every assignment, mentions only leaves of the input, leaves
    the fresh counter unchanged and is an [And] of literals / [Or]s of literals. *)
Theorem C11_naive : forall f nv g nv',
  to_cnf_naive f nv = Ok (g, nv') ->
  nv' = nv /\
  (forall s, neval s g = eval s f) /\
  incl (nleaves g) (leaves f) /\
  is_cnf g = true.
Proof. exact naive_correct. Qed.
Print Assumptions C11_naive.

(** [__apply_demorgan] sorts [map Not input_list] by [__order_clauses] before
    pushing the negations down; the key of [Not(c)] is [c] itself when [c] is
    compound, and Python cannot order a namedtuple against an int:
    [to_cnf_naive(Not(If(1, 2)), 3)] raises TypeError. *)
Theorem C11_naive_total_refuted : exists f nv, to_cnf_naive f nv = Err ETypeError.
Proof. exact naive_not_total. Qed.
Print Assumptions C11_naive_total_refuted.

Example C11_naive_example :
  to_cnf_naive (FIff (FVar 1) (FAnd [FVar 2; FVar (-3)])) 4 =
    Ok (NAnd [NOr [NNot (NVar (-3)); NVar 1; NNot (NVar 2)]; NOr [NVar (-3); NNot (NVar 1)];
              NOr [NNot (NVar 1); NVar 2]], 4).
Proof. exact ex_naive. Qed.

(** ** Switching conversion: partial correctness, relative to the fuel of
    [dist_sw] (the Python function recurses on formulas it rebuilds) and to the
    exceptions of the code ([C11_switching_total_refuted]).  Whenever it
    returns: the result is in CNF shape, its variables are leaves of the input
    or lie in the reported fresh range [nv, nv'), and an assignment [s]
    satisfies the input iff it can be changed on [nv, nv') into an assignment
    satisfying the result (same models projected to the original variables). *)
Theorem C11_switching : forall f nv g nv',
  1 <= nv -> (forall z, In z (leaves f) -> Z.abs z < nv) ->
  to_cnf_switching f nv = Ok (g, nv') ->
  nv <= nv' /\
  is_cnf g = true /\
  (forall z, In z (nleaves g) -> In z (leaves f) \/ nv <= z < nv') /\
  (forall s, (exists t, (forall v, ~ (nv <= v < nv') -> t v = s v) /\ neval t g = true) <-> eval s f = true).
Proof. exact switching_correct. Qed.
Print Assumptions C11_switching.

(** TypeError as for the naive conversion ([Not(If(1, 2))]); IndexError on an
    empty disjunction ([to_cnf_switching(Or([]), 1)]: [clauses[0]] of an empty list). *)
Theorem C11_switching_total_refuted :
  (exists f nv, to_cnf_switching f nv = Err ETypeError) /\
  (exists f nv, to_cnf_switching f nv = Err EIndexError).
Proof. exact switching_not_total. Qed.
Print Assumptions C11_switching_total_refuted.

Example C11_switching_example :
  (forall z, In z (leaves (FOr [FAnd [FVar 1; FVar 2]; FAnd [FVar 3; FVar (-4)]; FIf (FVar 1) (FVar 3)])) -> Z.abs z < 5) /\
  to_cnf_switching (FOr [FAnd [FVar 1; FVar 2]; FAnd [FVar 3; FVar (-4)]; FIf (FVar 1) (FVar 3)]) 5 =
    Ok (NAnd [NOr [NVar 1; NNot (NVar 1); NVar 3; NNot (NVar 5)];
              NOr [NNot (NVar 1); NVar 2; NVar 3; NNot (NVar 5)];
              NOr [NVar (-4); NNot (NVar 1); NVar 3; NVar 5];
              NOr [NNot (NVar 1); NVar 3; NVar 3; NVar 5]], 6).
Proof. exact ex_switching. Qed.
