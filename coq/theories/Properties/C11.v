(** C11 - Formula-to-CNF conversions preserve meaning.

    Models: Logic/Formula.v ([fm], [nf], [eval], [neval], [cnf_to_json]),
    Logic/Tseitin.v, Logic/Naive.v, Logic/Switching.v (tied to
    sweetpea/_internal/logic.py by harness/props/c11.py on every run).
    Proofs: Logic/TseitinProofs.v, Logic/NaiveProofs.v, Logic/SwitchingProofs.v.

    Leaves are DIMACS literals ([eval s (FVar z) = lit_true s z]).  The calling
    convention of the converters ([next_variable] is a positive variable above
    every variable of the formula) appears as the hypotheses [1 <= nv] and
    [Z.abs z < nv] for every leaf [z]; the harness also probes outside it.

    History.  Earlier versions of this file contained [C11_naive_total_refuted]
    and [C11_switching_total_refuted]: [to_cnf_naive] / [to_cnf_switching]
    raised TypeError on a negated compound formula ([Not(If(1, 2))],
    [Not(Or([1, And([2, 3])]))]: [__order_clauses] returned the compound formula
    under a [Not] as the sort key and [list.sort] compared it with an int) and
    [to_cnf_switching(Or([]), nv)] raised IndexError ([clauses[0]] of an empty
    list).  The witnesses were replayed on the real code and the code was
    repaired: commit 94d9e8e ([__order_clauses]: key [0] for a [Not] over a
    compound formula) and commit 9837dd8 ([__distribute_ors_switching]: an
    empty disjunction is returned unchanged).  The models follow both repairs
    and the refutations are replaced by the totality theorems
    [C11_naive_total] and [C11_switching_total]: no precondition is left, the
    conversions return on every formula and every counter. *)
From Coq Require Import ZArith List Bool Permutation.
From SP Require Import Base.Sat Logic.Formula Logic.Tseitin Logic.Naive Logic.Switching.
From SP Require Import Logic.TseitinProofs Logic.NaiveProofs Logic.SwitchingProofs.
Import ListNotations.
Open Scope Z_scope.

(** ** Tseitin: the clauses are a definitional extension over the reported
    fresh range plus one unit clause asserting the formula.  [defs] are all
    clauses but the last; [Defines (nv-1) (nv'-1) defs ext] says that every
    assignment [s] of the variables below [nv] has exactly one extension
    ([ext s]) to the variables below [nv'] satisfying [defs]; under that
    extension the whole clause list holds iff the formula holds under [s].
    Shared subformulas (cache hits) are covered: the proof's invariant is that
    the cache lists the gates in allocation order, each key's arguments being
    smaller than its variable, and the emitted clauses are exactly those gates. *)
Theorem C11_tseitin : forall f nv cs nv',
  1 <= nv -> (forall z, In z (leaves f) -> z <> 0 /\ Z.abs z < nv) ->
  tseitin f nv = (cs, nv') ->
  exists defs r ext,
    cs = defs ++ [[r]] /\ nv <= nv' /\
    Defines (nv - 1) (nv' - 1) defs ext /\
    (forall s, sat (ext s) cs = eval s f) /\
    (forall c l, In c cs -> In l c ->
       (In l (leaves f) \/ In (- l) (leaves f)) \/ nv <= Z.abs l < nv').
Proof. exact tseitin_correct. Qed.
Print Assumptions C11_tseitin.

(** The same in terms of solutions: restricted to the original variables the
    solutions of the clauses are exactly the models of the formula, and a
    solution is determined by its restriction (each new variable is uniquely
    determined). *)
Theorem C11_tseitin_models : forall f nv cs nv',
  1 <= nv -> (forall z, In z (leaves f) -> z <> 0 /\ Z.abs z < nv) ->
  tseitin f nv = (cs, nv') ->
  (forall s, (exists t, agree_upto (nv - 1) s t /\ sat t cs = true) <-> eval s f = true) /\
  (forall t t', agree_upto (nv - 1) t t' -> sat t cs = true -> sat t' cs = true ->
                agree_upto (nv' - 1) t t') /\
  vars_upto (nv' - 1) cs.
Proof. exact tseitin_models. Qed.
Print Assumptions C11_tseitin_models.

(** [tseitin] is the [cnf_to_json] image of the tree [to_cnf_tseitin] returns
    ([tseitin_tree]), with the same fresh counter, and that tree is an [And] of
    [Or]s of (negated) variables followed by the representative. *)
Theorem C11_tseitin_tree : forall f nv,
  cnf_to_json [fst (tseitin_tree f nv)] = Ok (fst (tseitin f nv)) /\
  snd (tseitin_tree f nv) = snd (tseitin f nv) /\
  exists cls r, fst (tseitin_tree f nv) = NAnd (map (fun c => NOr (map slit_nf c)) cls ++ [NVar r]).
Proof. exact tseitin_json. Qed.
Print Assumptions C11_tseitin_tree.

Example C11_tseitin_example :
  (forall z, In z (leaves ex_fm) -> z <> 0 /\ Z.abs z < 4) /\
  tseitin ex_fm 4 =
    ([[-1; 2; 4]; [1; -4]; [-2; -4]; [3; 5]; [-3; -5]; [6]; [4; 5; 6; -7]; [-4; 7]; [-5; 7]; [-6; 7];
      [4; 7; 8]; [-4; -7; 8]; [4; -7; -8]; [-4; 7; -8]; [8]], 9).
Proof. exact ex_tseitin. Qed.

(** ** Naive conversion.  Whenever the conversion returns, the result is
    equivalent to the input under every assignment, mentions only leaves of
    the input, leaves the fresh counter unchanged and is an [And] of literals /
    [Or]s of literals. *)
Theorem C11_naive : forall f nv g nv',
  to_cnf_naive f nv = Ok (g, nv') ->
  nv' = nv /\
  (forall s, neval s g = eval s f) /\
  incl (nleaves g) (leaves f) /\
  is_cnf g = true.
Proof. exact naive_correct. Qed.
Print Assumptions C11_naive.

(** Totality (full statement): on every formula over If/Iff/And/Or/Not and
    integer leaves and for every counter the conversion returns, and the result
    is a CNF equivalent to the input.  No guard is needed: every sort key of
    [__order_clauses] is an int (so the comparisons of [list.sort] cannot
    raise), the binary insertion stays inside the sorted prefix, and the fuel
    of the model's [demorgan] covers the recursion of [__apply_demorgan]. *)
Theorem C11_naive_total : forall f nv,
  exists g, to_cnf_naive f nv = Ok (g, nv) /\
    (forall s, neval s g = eval s f) /\
    incl (nleaves g) (leaves f) /\
    is_cnf g = true.
Proof. exact naive_total. Qed.
Print Assumptions C11_naive_total.

(** The sort itself never fails: [list.sort(key=__order_clauses)] returns a
    permutation of any list of formulas (negated compound members included). *)
Theorem C11_sort_total : forall l, exists r, pysort l = Ok r /\ Permutation l r.
Proof. exact pysort_total_perm. Qed.
Print Assumptions C11_sort_total.

(** The former refutation witnesses now convert. *)
Example C11_naive_repaired_example :
  to_cnf_naive (FNot (FIf (FVar 1) (FVar 2))) 3 = Ok (NAnd [NVar 1; NNot (NVar 2)], 3) /\
  to_cnf_naive (FNot (FOr [FVar 1; FAnd [FVar 2; FVar 3]])) 4 =
    Ok (NAnd [NOr [NNot (NVar 2); NNot (NVar 3)]; NNot (NVar 1)], 4).
Proof. exact ex_naive_repaired. Qed.

Example C11_naive_example :
  to_cnf_naive (FIff (FVar 1) (FAnd [FVar 2; FVar (-3)])) 4 =
    Ok (NAnd [NOr [NNot (NVar (-3)); NVar 1; NNot (NVar 2)]; NOr [NVar (-3); NNot (NVar 1)];
              NOr [NNot (NVar 1); NVar 2]], 4).
Proof. exact ex_naive. Qed.

(** ** Switching conversion.  Whenever it returns: the result is in CNF shape,
    its variables are leaves of the input or lie in the reported fresh range
    [nv, nv'), and an assignment [s] satisfies the input iff it can be changed
    on [nv, nv') into an assignment satisfying the result (same models
    projected to the original variables). *)
Theorem C11_switching : forall f nv g nv',
  1 <= nv -> (forall z, In z (leaves f) -> Z.abs z < nv) ->
  to_cnf_switching f nv = Ok (g, nv') ->
  nv <= nv' /\
  is_cnf g = true /\
  (forall z, In z (nleaves g) -> In z (leaves f) \/ nv <= z < nv') /\
  (forall s, (exists t, (forall v, ~ (nv <= v < nv') -> t v = s v) /\ neval t g = true) <-> eval s f = true).
Proof. exact switching_correct. Qed.
Print Assumptions C11_switching.

(** Totality: on every formula and for every counter (inside the calling
    convention or not) the conversion returns a formula in CNF shape - none of
    the model's error outcomes (TypeError of the sort, IndexError on an empty
    clause list, the [assert] on a negated compound formula, fuel) is
    reachable: [__apply_demorgan] leaves negations on leaves only, and the
    recursion of [__distribute_ors_switching] on the formulas it rebuilds has
    depth at most [size + 3] (each step merges the first two clauses of a
    disjunction; re-distributing an already distributed member costs a
    constant), which the model's fuel [8 * size + 32] covers.  Under the
    calling convention the result is equisatisfiable with the input in the
    strong sense of [C11_switching]. *)
Theorem C11_switching_total : forall f nv,
  exists g nv', to_cnf_switching f nv = Ok (g, nv') /\
    is_cnf g = true /\
    (1 <= nv -> (forall z, In z (leaves f) -> Z.abs z < nv) ->
     nv <= nv' /\
     (forall z, In z (nleaves g) -> In z (leaves f) \/ nv <= z < nv') /\
     (forall s, (exists t, (forall v, ~ (nv <= v < nv') -> t v = s v) /\ neval t g = true) <-> eval s f = true)).
Proof. exact switching_total. Qed.
Print Assumptions C11_switching_total.

(** The former refutation witnesses now convert (an empty disjunction is
    false: the CNF consisting of the empty clause). *)
Example C11_switching_repaired_example :
  to_cnf_switching (FNot (FIf (FVar 1) (FVar 2))) 3 = Ok (NAnd [NVar 1; NNot (NVar 2)], 3) /\
  to_cnf_switching (FOr []) 1 = Ok (NAnd [NOr []], 1).
Proof. exact ex_switching_repaired. Qed.

Example C11_switching_example :
  (forall z, In z (leaves (FOr [FAnd [FVar 1; FVar 2]; FAnd [FVar 3; FVar (-4)]; FIf (FVar 1) (FVar 3)])) -> Z.abs z < 5) /\
  to_cnf_switching (FOr [FAnd [FVar 1; FVar 2]; FAnd [FVar 3; FVar (-4)]; FIf (FVar 1) (FVar 3)]) 5 =
    Ok (NAnd [NOr [NVar 1; NNot (NVar 1); NVar 3; NNot (NVar 5)];
              NOr [NNot (NVar 1); NVar 2; NVar 3; NNot (NVar 5)];
              NOr [NVar (-4); NNot (NVar 1); NVar 3; NVar 5];
              NOr [NNot (NVar 1); NVar 3; NVar 3; NVar 5]], 6).
Proof. exact ex_switching. Qed.
