(** C12 - Adder and population-count circuits compute sums.

    Each builder, run from [{| next := n; cls := cs |}] on literals of
    variables 1..n, appends a block [new] with [Defines n n' new ext] (every
    assignment of 1..n has exactly one extension to 1..n' satisfying [new],
    namely [ext s]) and every assignment satisfying [new] gives the output
    variables the stated values. *)
From Coq Require Import ZArith List Bool Lia.
From SP Require Import Base.Sat Base.Bits Core.CnfModel Core.CnfProofs Core.PopCountProofs.
Import ListNotations.
Open Scope Z_scope.

Theorem C12_half_adder : forall n a b,
  0 <= n -> inr n a -> inr n b ->
  exists new ext,
    (forall cs, half_adder a b {| next := n; cls := cs |}
                = ((n + 1, n + 2), {| next := n + 2; cls := cs ++ new |})) /\
    Defines n (n + 2) new ext /\
    forall s, sat s new = true ->
      s (n + 1) = lit_true s a && lit_true s b /\
      s (n + 2) = xorb (lit_true s a) (lit_true s b).
Proof. exact half_adder_correct. Qed.
Print Assumptions C12_half_adder.

Theorem C12_full_adder : forall n a b cin,
  0 <= n -> inr n a -> inr n b -> oinr n cin ->
  exists new ext,
    (forall cs, full_adder a b cin {| next := n; cls := cs |}
                = ((n + 1, n + 2), {| next := n + 2; cls := cs ++ new |})) /\
    Defines n (n + 2) new ext /\
    forall s, sat s new = true ->
      s (n + 1) = maj3 (lit_true s a) (lit_true s b) (olit s cin) /\
      s (n + 2) = xorb (xorb (lit_true s a) (lit_true s b)) (olit s cin).
Proof. exact full_adder_correct. Qed.
Print Assumptions C12_full_adder.

Theorem C12_saturate_adder : forall n a b cin,
  0 <= n -> inr n a -> inr n b -> oinr n cin ->
  exists new ext,
    (forall cs, saturate_adder a b cin {| next := n; cls := cs |}
                = (n + 1, {| next := n + 1; cls := cs ++ new |})) /\
    Defines n (n + 1) new ext /\
    forall s, sat s new = true ->
      s (n + 1) = lit_true s a || lit_true s b || olit s cin.
Proof. exact saturate_adder_correct. Qed.
Print Assumptions C12_saturate_adder.

(** Operands MSB first, of equal width; the sums come back LSB first. *)
Theorem C12_ripple_carry : forall n xs ys,
  0 <= n -> length xs = length ys -> Forall (inr n) xs -> Forall (inr n) ys ->
  exists carry sums n' new ext,
    (forall cs, ripple_carry xs ys {| next := n; cls := cs |}
                = ((carry, sums), {| next := n'; cls := cs ++ new |})) /\
    Defines n n' new ext /\
    n' = n + 2 * Z.of_nat (length xs) /\
    length sums = length xs /\
    Forall (fresh_in n n') sums /\
    match xs with
    | [] => carry = None
    | _ => exists c, carry = Some c /\ fresh_in n n' c
    end /\
    forall s, sat s new = true ->
      lsbv (lits s sums) + 2 ^ Z.of_nat (length xs) * Z.b2z (olit s carry)
      = msbv (lits s xs) + msbv (lits s ys).
Proof. exact ripple_carry_correct. Qed.
Print Assumptions C12_ripple_carry.

(** Saturating ripple adder on MSB-first operands of equal width
    [0 < w <= sat_at].  For [w < sat_at] the result has [w+1] bits and is the
    exact sum; for [w = sat_at] it has [w] bits: the low [w-1] bits are the sum
    of the low parts modulo [2^(w-1)], the top bit is the disjunction of the
    two top bits and the carry out of the low parts. *)
Theorem C12_ripple_saturate : forall n xs ys sa,
  0 <= n -> length xs = length ys -> (0 < length xs <= sa)%nat ->
  Forall (inr n) xs -> Forall (inr n) ys ->
  exists out n' new ext,
    (forall cs, ripple_saturate xs ys sa {| next := n; cls := cs |}
                = (Some out, {| next := n'; cls := cs ++ new |})) /\
    Defines n n' new ext /\
    Forall (fresh_in n n') out /\
    if (length xs <? sa)%nat then
      length out = S (length xs) /\
      forall s, sat s new = true ->
        msbv (lits s out) = msbv (lits s xs) + msbv (lits s ys)
    else
      length out = length xs /\
      forall s, sat s new = true ->
        let low := msbv (lits s (tl xs)) + msbv (lits s (tl ys)) in
        let M := 2 ^ (Z.of_nat (length xs) - 1) in
        msbv (lits s (tl out)) = low mod M /\
        lit_true s (hd 0 out)
        = lit_true s (hd 0 xs) || lit_true s (hd 0 ys) || (M <=? low).
Proof. exact ripple_saturate_correct. Qed.
Print Assumptions C12_ripple_saturate.

(** Population count of a non-empty list of literals (duplicates and negative
    literals allowed; [count] is positional).  With [p = clog2 (length vs)]
    (= ceil(log2 |vs|), the model's [log2_up_nat |vs| |vs| 0]) the result,
    MSB first, has width [wd sa p] (= p+1 for sa = 0, min(p+1, sa) otherwise)
    and value [satv sa N]: exactly [N] when the width is below [sa] (or
    sa = 0); at width [sa] the low [sa-1] bits are [N mod 2^(sa-1)] and the top
    bit says whether [N >= 2^(sa-1)]. *)
Theorem C12_pop_count : forall n vs sa,
  0 <= n -> vs <> [] -> Forall (inr n) vs ->
  exists out n' new ext,
    (forall cs, pop_count vs sa {| next := n; cls := cs |}
                = (Some out, {| next := n'; cls := cs ++ new |})) /\
    Defines n n' new ext /\
    let p := clog2 (length vs) in
    (length vs <= 2 ^ p /\ (p = 0 \/ 2 ^ (p - 1) < length vs))%nat /\
    length out = wd sa p /\ Forall (inr n') out /\
    forall s, sat s new = true ->
      let N := count s vs in
      msbv (lits s out) = satv sa N /\
      ((sa = 0 \/ length out < sa)%nat -> msbv (lits s out) = N) /\
      (length out = sa ->
         msbv (lits s (tl out)) = N mod 2 ^ (Z.of_nat sa - 1) /\
         lit_true s (hd 0 out) = (2 ^ (Z.of_nat sa - 1) <=? N)).
Proof. exact pop_count_correct. Qed.
Print Assumptions C12_pop_count.

(** The hypotheses are satisfiable: a 3-bit addition of mixed-sign literals
    over 6 variables. *)
Example C12_ripple_carry_instance :
  0 <= 6 /\ length [1; -2; 3] = length [-4; 5; 6] /\
  Forall (inr 6) [1; -2; 3] /\ Forall (inr 6) [-4; 5; 6] /\
  fst (ripple_carry [1; -2; 3] [-4; 5; 6] {| next := 6; cls := [] |})
  = (Some 11, [8; 10; 12]).
Proof.
  split; [lia|]. split; [reflexivity|].
  split; [repeat constructor; unfold inr; lia|].
  split; [repeat constructor; unfold inr; lia|]. vm_compute. reflexivity.
Qed.

Example C12_gate_instance :
  0 <= 3 /\ inr 3 1 /\ inr 3 (-2) /\ oinr 3 (Some 3) /\
  fst (full_adder 1 (-2) (Some 3) {| next := 3; cls := [] |}) = (4, 5).
Proof.
  split; [lia|]. split; [unfold inr; lia|]. split; [unfold inr; lia|].
  split; [cbn; unfold inr; lia|]. reflexivity.
Qed.

Example C12_pop_count_instance :
  0 <= 5 /\ [1; -2; 3; 3; 5] <> [] /\ Forall (inr 5) [1; -2; 3; 3; 5] /\
  fst (pop_count [1; -2; 3; 3; 5] 3 {| next := 5; cls := [] |}) = Some [29; 28; 26] /\
  fst (ripple_saturate [1; 2] [-3; 4] 2 {| next := 4; cls := [] |}) = Some [7; 6].
Proof.
  split; [lia|]. split; [discriminate|].
  split; [repeat constructor; unfold inr; lia|]. vm_compute. split; reflexivity.
Qed.
