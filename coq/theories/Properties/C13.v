(** C13 - Combinatorial unranking functions are bijections with correct counts.

    Each statement is a rank / unrank inverse pair with range, for ALL
    parameters: [unrank] maps every index [0 <= j < N] to an arrangement of
    the kind whose rank is [j], and every arrangement of the kind has its rank
    in [0, N) and is what [unrank] returns there.  Hence [unrank] is a
    bijection from [0, N) onto the arrangements, and [N] -- the value of the
    matching counting function -- is their number.

    Model: Comb/CombModel.v (literal model of sweetpea/_internal/combinatorics.py,
    compared with the real code on every run).  Reference notions:
    Comb/CombSpec.v.  The last groups concern the explicit-stack / memo
    implementation [k_prefixes_of_permutations_with_copies]: the bijection is
    proved for the clean recursion [cnt] / [prefix_unrank], and the stack
    machine, the memoised recursive counter, the two dispatchers the sampler
    calls and any session of calls on one shared memo table are proved to
    compute exactly those, for every valid memo table: the [_refines]
    statements say so whenever the fuelled model function returns [Ok], and
    the [_total] statements (Comb/TotalProofs.v) show that it always does --
    the fuel the model gives its [while] loops ([k_fuel] for the stack
    machine, [q + 2] for the memoised recursion) is never exhausted and no
    other error value can come out, so the results are the clean ones
    outright.  The step bound behind [k_fuel] is amortised over the memo
    table: each key [(start_i, need_n)] is expanded at most once off the path
    to the wanted index, at a cost of at most [2 first_n + 4] steps. *)
From Coq Require Import ZArith List Bool Lia.
From SP Require Import Comb.CombModel Comb.CombSpec Comb.BinomFacts Comb.RadixProofs
  Comb.CnsProofs Comb.PermProofs Comb.MultiProofs Comb.PrefixProofs Comb.CountProofs
  Comb.DispatchProofs Comb.StackProofs Comb.SessionProofs Comb.TotalProofs.
Import ListNotations.
Open Scope Z_scope.

(** ** mixed radix: [extract_components] *)
Theorem C13_radix_bij : forall sizes, Forall (fun s => 0 < s) sizes ->
  (forall n, 0 <= n < prodZ sizes ->
     exists ds, extract_components sizes n = Ok ds /\ digits_ok sizes ds /\ radix_rank sizes ds = n) /\
  (forall ds, digits_ok sizes ds ->
     0 <= radix_rank sizes ds < prodZ sizes /\ extract_components sizes (radix_rank sizes ds) = Ok ds).
Proof. exact RadixProofs.radix_bij. Qed.
Print Assumptions C13_radix_bij.
Example C13_radix_example :
  Forall (fun s => 0 < s) [3; 4; 2] /\ prodZ [3; 4; 2] = 24 /\
  extract_components [3; 4; 2] 23 = Ok [2; 3; 1] /\ radix_rank [3; 4; 2] [2; 3; 1] = 23.
Proof. repeat split; repeat constructor. Qed.

(** ** l-digit base-n numbers: [compute_jth_combination], count n^l *)
Theorem C13_comb_bij : forall (l : nat) (n : Z), 0 < n ->
  (forall j, 0 <= j < n ^ Z.of_nat l ->
     exists ds, compute_jth_combination (Z.of_nat l) n j = Ok ds /\ length ds = l /\
                Forall (fun d => 0 <= d < n) ds /\ comb_rank n ds = j) /\
  (forall ds, length ds = l -> Forall (fun d => 0 <= d < n) ds ->
     0 <= comb_rank n ds < n ^ Z.of_nat l /\
     compute_jth_combination (Z.of_nat l) n (comb_rank n ds) = Ok ds).
Proof. exact RadixProofs.comb_bij. Qed.
Print Assumptions C13_comb_bij.
Example C13_comb_example :
  compute_jth_combination 3 2 5 = Ok [1; 0; 1] /\ comb_rank 2 [1; 0; 1] = 5.
Proof. split; reflexivity. Qed.

(** ** [n_choose_m] is the Pascal binomial coefficient *)
Theorem C13_choose_eq_binom : forall n m : nat,
  n_choose_m (Z.of_nat n) (Z.of_nat m) = Ok (binom n m).
Proof. exact CnsProofs.choose_eq_binom. Qed.
Print Assumptions C13_choose_eq_binom.
Theorem C13_ncm_eq_binom : forall n m : nat,
  n_choose_m_given_m_factorial (Z.of_nat n) (Z.of_nat m) (fact_nat m) = Ok (binom n m).
Proof. exact CnsProofs.ncm_eq_binom. Qed.
Print Assumptions C13_ncm_eq_binom.

(** ** combinations without replacement: combinatorial number system onto the
    strictly decreasing m-lists below n, count C(n,m) *)
Theorem C13_cns_bij : forall n m : nat,
  (forall j, 0 <= j < binom n m ->
     exists cs, compute_jth_combination_without_replacement (Z.of_nat n) (Z.of_nat m) j = Ok cs /\
                length cs = m /\ desc_below (Z.of_nat n) cs /\ cns_rank cs = j) /\
  (forall cs, length cs = m -> desc_below (Z.of_nat n) cs ->
     0 <= cns_rank cs < binom n m /\
     compute_jth_combination_without_replacement (Z.of_nat n) (Z.of_nat m) (cns_rank cs) = Ok cs).
Proof. exact CnsProofs.cns_bij. Qed.
Print Assumptions C13_cns_bij.
Example C13_cns_example :
  binom 5 3 = 10 /\ compute_jth_combination_without_replacement 5 3 9 = Ok [4; 3; 2] /\
  desc_below 5 [4; 3; 2] /\ cns_rank [4; 3; 2] = 9.
Proof. repeat split; cbn; lia. Qed.

(** ** permutation prefixes: onto the injective m-lists over [0,n), count n!/(n-m)! *)
Theorem C13_perm_prefix_count : forall n m : nat, (m <= n)%nat ->
  ffact (Z.of_nat n) m * fact_nat (n - m) = fact_nat n.
Proof. exact PermProofs.ffact_fact. Qed.
Print Assumptions C13_perm_prefix_count.
Theorem C13_perm_prefix_bij : forall n m : nat, (m <= n)%nat ->
  (forall j, 0 <= j < ffact (Z.of_nat n) m ->
     exists p, compute_jth_permutation_prefix (Z.of_nat n) (Z.of_nat m) j = Ok p /\
               length p = m /\ injective_below (Z.of_nat n) p /\ perm_rank (Z.of_nat n) p = j) /\
  (forall p, length p = m -> injective_below (Z.of_nat n) p ->
     0 <= perm_rank (Z.of_nat n) p < ffact (Z.of_nat n) m /\
     compute_jth_permutation_prefix (Z.of_nat n) (Z.of_nat m) (perm_rank (Z.of_nat n) p) = Ok p).
Proof. exact PermProofs.perm_prefix_bij. Qed.
Print Assumptions C13_perm_prefix_bij.
Example C13_perm_prefix_example :
  ffact 4 2 = 12 /\ compute_jth_permutation_prefix 4 2 11 = Ok [3; 2] /\ perm_rank 4 [3; 2] = 11.
Proof. repeat split. Qed.

(** ** permutations of a multiset: [_construct_permutation_with_copies] with
    [count_remaining_permutations], count = multinomial coefficient *)
Theorem C13_multiperm_count : forall cs, Forall (fun c => 0 <= c) cs ->
  count_remaining_permutations cs = Ok (multinomial cs).
Proof. exact MultiProofs.crp_eq_multinomial. Qed.
Print Assumptions C13_multiperm_count.
Theorem C13_multiperm_bij : forall cs, Forall (fun c => 0 <= c) cs ->
  (forall idx, 0 <= idx < multinomial cs ->
     exists w, construct_with_copies idx (Z.of_nat (length cs)) (zsum cs) cs = Ok w /\
               arrangement_of cs w /\ multi_rank cs w = idx) /\
  (forall w, arrangement_of cs w ->
     0 <= multi_rank cs w < multinomial cs /\
     construct_with_copies (multi_rank cs w) (Z.of_nat (length cs)) (zsum cs) cs = Ok w).
Proof. exact MultiProofs.multiperm_bij. Qed.
Print Assumptions C13_multiperm_bij.
Example C13_multiperm_example :
  multinomial [2; 1; 2] = 30 /\ construct_with_copies 29 3 5 [2; 1; 2] = Ok [2; 2; 1; 0; 0] /\
  multi_rank [2; 1; 2] [2; 2; 1; 0; 0] = 29.
Proof. repeat split. Qed.

(** ** prefixes of permutations with bounded repetitions (uniform or per
    element): onto the words of length first_n with symbol i used at most
    cs_i times, count [cnt cs first_n] *)
Theorem C13_prefix_copies_bij : forall cs first_n, Forall (fun c => 0 <= c) cs -> 0 <= first_n ->
  (forall idx, 0 <= idx < cnt cs first_n ->
     exists w, prefix_unrank cs first_n idx = Some w /\ bounded_word cs first_n w /\ prefix_rank cs w = idx) /\
  (forall w, bounded_word cs first_n w ->
     0 <= prefix_rank cs w < cnt cs first_n /\ prefix_unrank cs first_n (prefix_rank cs w) = Some w).
Proof. exact (PrefixProofs.prefix_copies_bij_from_multi MultiProofs.multiperm_bij). Qed.
Print Assumptions C13_prefix_copies_bij.
Example C13_prefix_copies_example :
  cnt [2; 2; 2] 4 = 54 /\ prefix_unrank [2; 2; 2] 4 7 = Some [0; 2; 1; 2] /\
  prefix_rank [2; 2; 2] [0; 2; 1; 2] = 7.
Proof. repeat split. Qed.

(** ** the public wrappers of the multiset unranker and the closed-form count *)
Theorem C13_cpwvc_is_multiperm : forall idx cs,
  construct_permutation_with_varying_copies idx (Z.of_nat (length cs)) cs =
  construct_with_copies idx (Z.of_nat (length cs)) (zsum cs) cs.
Proof. exact CountProofs.cpwvc_eq. Qed.
Print Assumptions C13_cpwvc_is_multiperm.
Theorem C13_cpwc_is_multiperm : forall idx (q : nat) m,
  construct_permutation_with_copies idx (Z.of_nat q) m =
  construct_with_copies idx (Z.of_nat (length (repeat m q))) (zsum (repeat m q)) (repeat m q).
Proof. exact CountProofs.cpwc_eq. Qed.
Print Assumptions C13_cpwc_is_multiperm.
Theorem C13_count_copies_full : forall (q : nat) m, 0 <= m ->
  count_permutations_with_copies (Z.of_nat q) m (Z.of_nat q * m) =
  Ok (KCount (multinomial (repeat m q))).
Proof. exact CountProofs.count_pwc_full. Qed.
Print Assumptions C13_count_copies_full.

(** ** the explicit-stack / memo machine and the memoised recursion compute
    the clean recursion (any valid memo table in, a valid one out) *)
Theorem C13_stack_count_refines : forall q mc first_n memo v memo',
  params_ok q mc -> 0 <= first_n -> memo_valid q mc memo ->
  k_prefixes_of_permutations_with_copies q mc first_n (-1) memo = Ok (v, memo') ->
  v = KCount (cnt (cs_of q mc) first_n) /\ memo_valid q mc memo'.
Proof. exact StackProofs.k_prefixes_count_refines. Qed.
Print Assumptions C13_stack_count_refines.
Theorem C13_stack_unrank_refines : forall q mc first_n memo j v memo',
  params_ok q mc -> 0 <= first_n -> memo_valid q mc memo ->
  0 <= j < cnt (cs_of q mc) first_n ->
  k_prefixes_of_permutations_with_copies q mc first_n j memo = Ok (v, memo') ->
  (exists w, v = KPerm w /\ prefix_unrank (cs_of q mc) first_n j = Some w) /\ memo_valid q mc memo'.
Proof. exact StackProofs.k_prefixes_unrank_refines. Qed.
Print Assumptions C13_stack_unrank_refines.
Theorem C13_recur_count_refines : forall q m first_n memo v memo',
  0 <= q -> 0 <= m -> 0 <= first_n -> memo_valid q (Uniform m) memo ->
  recur_count_prefixes_of_permutations_with_copies q m first_n memo = Ok (v, memo') ->
  v = cnt (repeat m (Z.to_nat q)) first_n /\ memo_valid q (Uniform m) memo'.
Proof. exact StackProofs.recur_count_prefixes_refines. Qed.
Print Assumptions C13_recur_count_refines.
Example C13_stack_example :
  params_ok 3 (Counters [2; 1; 2]) /\ memo_valid 3 (Counters [2; 1; 2]) [] /\
  k_prefixes_of_permutations_with_copies 3 (Uniform 2) 4 7 [] = Ok (KPerm [0; 2; 1; 2], [((1, 4), 6); ((2, 2), 1)]).
Proof. split; [|split]; [apply StackProofs.params_ok_example | apply StackProofs.memo_valid_nil | vm_compute; reflexivity]. Qed.

(** ** the uniform branch [first_n <= m]: base-q digits range over exactly the bounded words *)
Theorem C13_uniform_small_words : forall (q : nat) (m first_n : Z) (w : list Z), first_n <= m ->
  (bounded_word (repeat m q) first_n w <->
   Z.of_nat (length w) = first_n /\ Forall (fun d => 0 <= d < Z.of_nat q) w).
Proof. exact DispatchProofs.uniform_small_words. Qed.
Print Assumptions C13_uniform_small_words.
Theorem C13_cnt_uniform_small : forall (q : nat) (m need : Z), 0 <= need <= m ->
  cnt (repeat m q) need = Z.of_nat q ^ need.
Proof. exact SessionProofs.cnt_uniform_small. Qed.
Print Assumptions C13_cnt_uniform_small.

(** ** the two dispatchers called by the sampler, and sessions on one shared memo *)
Theorem C13_count_dispatch_refines : forall q mc first_n memo v memo',
  params_ok q mc -> 0 <= first_n -> memo_valid q mc memo ->
  count_prefixes_of_permutations_with_copies q mc first_n memo = Ok (v, memo') ->
  v = KCount (cnt (cs_of q mc) first_n) /\ memo_valid q mc memo'.
Proof. exact SessionProofs.count_dispatch_refines. Qed.
Print Assumptions C13_count_dispatch_refines.
Theorem C13_unrank_dispatch_refines : forall q mc first_n memo j v memo',
  params_ok q mc -> 0 <= first_n -> memo_valid q mc memo ->
  0 <= j < cnt (cs_of q mc) first_n ->
  compute_jth_prefix_of_permutations_with_copies q mc first_n j memo = Ok (v, memo') ->
  (exists w, v = KPerm w /\ bounded_word (cs_of q mc) first_n w /\ dispatch_rank q mc first_n w = j) /\
  memo_valid q mc memo'.
Proof. exact SessionProofs.unrank_dispatch_refines. Qed.
Print Assumptions C13_unrank_dispatch_refines.
Theorem C13_session_refines : forall q mc ops memo, params_ok q mc ->
  Forall (op_in_range q mc) ops -> memo_valid q mc memo ->
  Forall2 (op_result_ok q mc) ops (fst (memo_session q mc ops memo)) /\
  memo_valid q mc (snd (memo_session q mc ops memo)).
Proof. exact SessionProofs.session_refines. Qed.
Print Assumptions C13_session_refines.

(** ** totality: the fuel of the model is always sufficient, so the stack
    machine, the memoised recursion, the dispatchers and every call of a
    session return [Ok] with the clean value (same hypotheses as the
    [_refines] statements above) *)
Theorem C13_stack_count_total : forall q mc first_n memo,
  params_ok q mc -> 0 <= first_n -> memo_valid q mc memo ->
  exists memo', k_prefixes_of_permutations_with_copies q mc first_n (-1) memo =
                  Ok (KCount (cnt (cs_of q mc) first_n), memo') /\ memo_valid q mc memo'.
Proof. exact TotalProofs.k_prefixes_count_total. Qed.
Print Assumptions C13_stack_count_total.
Theorem C13_stack_unrank_total : forall q mc first_n memo j,
  params_ok q mc -> 0 <= first_n -> memo_valid q mc memo -> 0 <= j < cnt (cs_of q mc) first_n ->
  exists w memo', k_prefixes_of_permutations_with_copies q mc first_n j memo = Ok (KPerm w, memo') /\
                  prefix_unrank (cs_of q mc) first_n j = Some w /\ memo_valid q mc memo'.
Proof. exact TotalProofs.k_prefixes_unrank_total. Qed.
Print Assumptions C13_stack_unrank_total.
Theorem C13_recur_count_total : forall q m first_n memo,
  0 <= q -> 0 <= m -> 0 <= first_n -> memo_valid q (Uniform m) memo ->
  exists memo', recur_count_prefixes_of_permutations_with_copies q m first_n memo =
                  Ok (cnt (repeat m (Z.to_nat q)) first_n, memo') /\ memo_valid q (Uniform m) memo'.
Proof. exact TotalProofs.recur_count_prefixes_total. Qed.
Print Assumptions C13_recur_count_total.
Theorem C13_count_dispatch_total : forall q mc first_n memo,
  params_ok q mc -> 0 <= first_n -> memo_valid q mc memo ->
  exists memo', count_prefixes_of_permutations_with_copies q mc first_n memo =
                  Ok (KCount (cnt (cs_of q mc) first_n), memo') /\ memo_valid q mc memo'.
Proof. exact TotalProofs.count_dispatch_total. Qed.
Print Assumptions C13_count_dispatch_total.
Theorem C13_unrank_dispatch_total : forall q mc first_n memo j,
  params_ok q mc -> 0 <= first_n -> memo_valid q mc memo -> 0 <= j < cnt (cs_of q mc) first_n ->
  exists w memo', compute_jth_prefix_of_permutations_with_copies q mc first_n j memo = Ok (KPerm w, memo') /\
                  bounded_word (cs_of q mc) first_n w /\ dispatch_rank q mc first_n w = j /\
                  memo_valid q mc memo'.
Proof. exact TotalProofs.unrank_dispatch_total. Qed.
Print Assumptions C13_unrank_dispatch_total.
Theorem C13_session_total : forall q mc ops memo, params_ok q mc ->
  Forall (op_in_range q mc) ops -> memo_valid q mc memo ->
  Forall2 (op_result_total q mc) ops (fst (memo_session q mc ops memo)) /\
  memo_valid q mc (snd (memo_session q mc ops memo)).
Proof. exact TotalProofs.session_total. Qed.
Print Assumptions C13_session_total.
Example C13_total_example :
  k_fuel 3 4 = 736%nat /\
  (exists r, krun 60 3 (Uniform 2) 4 [DoCount 0 4 [] 1] 0 (-1) [] = Ok r) /\
  krun 40 3 (Uniform 2) 4 [DoCount 0 4 [] 1] 0 (-1) [] = Err OutOfFuel.
Proof. exact TotalProofs.k_fuel_example. Qed.
