(** placeholder until the theorems land *)
From SP Require Import Comb.CombModel.
