(** C14 - Trial/factor/level variables are allocated and decoded consistently.

    The theorems are about the executable model of the variable layout
    (Design/Layout.v: [encode_variable] = Block._encode_variable,
    [decode_variable] = Block.decode_variable, [variables_per_sample]) on the flat
    record of a block (Design/Flat.v); harness/props/c14.py checks on every run
    that the real block computes literally the same numbers on generated designs,
    that the flat record of every accepted design satisfies [wf_layout], and
    decides the property itself on the real code.

    [applicable fb f l t]: f is a factor of act_design, l one of its levels, t a
    trial (1-based) of the sequence to which f applies - i.e. (t, f, l) is a choice
    the solver makes.  [wf_layout fb] (Design/LayoutWf.v, executable): factors
    without complex window apply to every trial, and act_design lists no factor twice.
    [decode] (Sample/Decode.v) is the model of Gen.decode; [act_keys_distinct fb]
    (Sample/DecodeWf.v, executable): the dict keys (names) of the factors of
    act_design are pairwise distinct - the hypothesis forced by the name-keyed dict;
    the pinned constructors did not enforce it (finding "decode:duplicate-name",
    repaired in /repo commit ba3bcfe: equal names are now rejected in the whole design). *)
From Coq Require Import ZArith List Arith String.
From SP Require Import Design.Flat Design.Layout Design.LayoutWf Design.LayoutProofs Design.LayoutExamples.
From SP Require Import Sample.Decode Sample.DecodeWf Sample.DecodeProofs.
From SP Require Import Front.CreateFlat Front.CreateWf Front.CreateWfDecode.
Import ListNotations.

(** Distinct choices never share a variable. *)
Theorem C14_encode_inj :
  forall fb : flat, wf_layout fb = true ->
  forall f l t f' l' t',
    applicable fb f l t -> applicable fb f' l' t' ->
    encode_variable fb f l t = encode_variable fb f' l' t' ->
    f = f' /\ l = l' /\ t = t'.
Proof. exact encode_inj. Qed.
Print Assumptions C14_encode_inj.

(** Every choice has a variable, and it lies in 1..variables_per_sample ... *)
Theorem C14_encode_range :
  forall fb : flat, wf_layout fb = true ->
  forall f l t,
    applicable fb f l t ->
    exists v, encode_variable fb f l t = Some v /\ 1 <= v <= variables_per_sample fb.
Proof. exact encode_range. Qed.
Print Assumptions C14_encode_range.

(** ... and every variable in 1..variables_per_sample stands for a choice. *)
Theorem C14_encode_onto :
  forall fb : flat, wf_layout fb = true ->
  forall v,
    1 <= v <= variables_per_sample fb ->
    exists f l t, applicable fb f l t /\ encode_variable fb f l t = Some v.
Proof. exact encode_onto. Qed.
Print Assumptions C14_encode_onto.

(** [decode_variable] recovers factor and level of an encoded choice. *)
Theorem C14_decode_encode :
  forall fb : flat, wf_layout fb = true ->
  forall f l t v,
    applicable fb f l t -> encode_variable fb f l t = Some v ->
    decode_variable fb v = Some (f, l).
Proof. exact decode_encode. Qed.
Print Assumptions C14_decode_encode.

(** The first auxiliary variable, [fresh = 1 + variables_per_sample()] in
    build_backend_request, is above every encoded choice. *)
Theorem C14_fresh_above :
  forall fb : flat, wf_layout fb = true ->
  forall f l t v,
    applicable fb f l t -> encode_variable fb f l t = Some v ->
    v < variables_per_sample fb + 1.
Proof. exact fresh_above. Qed.
Print Assumptions C14_fresh_above.

(** Decoding.  Let [s f t] be a level choice (one level per applicable (trial,
    factor)) and [sol] an assignment without repeated literals in which, among the
    variables 1..variables_per_sample, exactly the variables of the chosen levels
    occur positively (negative literals and auxiliary variables are unconstrained).
    Then [decode] succeeds and the resulting dict has, for every factor f of
    act_design, under f's key the list over all trials t0 = 0..T-1 of the chosen
    level's name where f applies and '' where it does not; and it has no other keys. *)
Theorem C14_decode_onehot :
  forall fb : flat,
    wf_layout fb = true -> act_keys_distinct fb = true -> 1 <= fl_trials fb ->
    forall s : nat -> nat -> nat,
      (forall f t, In f (fl_act fb) /\ 1 <= t <= fl_trials fb /\ applies_at fb f t = true ->
                   s f t < nlevels fb f) ->
      forall sol : list Z,
        NoDup sol ->
        (forall v, 1 <= v <= variables_per_sample fb ->
                   (In (Z.of_nat v) sol <->
                    exists f t, (In f (fl_act fb) /\ 1 <= t <= fl_trials fb /\ applies_at fb f t = true) /\
                                encode_variable fb f (s f t) t = Some v)) ->
        exists d,
          decode fb sol = DOk d /\
          (forall f, In f (fl_act fb) ->
                     lookup (key_of fb f) d
                     = Some (map (fun t0 => if applies_at fb f (S t0)
                                            then level_name fb f (s f (S t0)) else EmptyString)
                                 (seq 0 (fl_trials fb)))) /\
          (forall k ys, In (k, ys) d -> exists f, In f (fl_act fb) /\ k = key_of fb f).
Proof. exact decode_onehot. Qed.
Print Assumptions C14_decode_onehot.

(** The guard [wf_layout] is not only checked on the flat record of every real block: it holds of every
    record [fb] that the model of the constructor ([create_flat], Front/CreateFlat.v: [_create] with
    [Block.__init__], compared field by field with the real block on every run) builds from arguments [ci]
    satisfying the executable condition [input_ok] (Front/CreateWf.v: window strides >= 1, a derived factor not
    flagged [has_complex_window] has stride 1 and start 0, one exclusion count below the crossing size and one
    positive sustain count per non-empty crossing, crossed factors of stride 1, crossings sharing a factor
    have equal sustain counts).  So on such a record distinct choices have distinct variables, the variables
    of the choices are exactly 1..variables_per_sample, and [decode_variable] inverts the encoding - with no
    well-formedness hypothesis left. *)
Theorem C14_layout_of_created :
  forall (ci : create_input) (fb : flat),
    input_ok ci = true -> create_flat ci = FOk fb ->
    (forall f l t f' l' t',
       applicable fb f l t -> applicable fb f' l' t' ->
       encode_variable fb f l t = encode_variable fb f' l' t' -> f = f' /\ l = l' /\ t = t') /\
    (forall f l t, applicable fb f l t ->
       exists v, encode_variable fb f l t = Some v /\ 1 <= v <= variables_per_sample fb) /\
    (forall v, 1 <= v <= variables_per_sample fb ->
       exists f l t, applicable fb f l t /\ encode_variable fb f l t = Some v) /\
    (forall f l t v, applicable fb f l t -> encode_variable fb f l t = Some v ->
       decode_variable fb v = Some (f, l) /\ v < variables_per_sample fb + 1).
Proof. exact layout_of_created. Qed.
Print Assumptions C14_layout_of_created.

(** Decoding on a created record: all three hypotheses of [C14_decode_onehot] about [fb] are discharged
    ([act_keys_distinct] from [design_keys_distinct ci], Front/CreateWfDecode.v: the dict keys of the factors
    of the design handed to the constructor are pairwise distinct; a created record has at least one trial). *)
Theorem C14_decode_of_created :
  forall (ci : create_input) (fb : flat),
    input_ok ci = true -> design_keys_distinct ci = true -> create_flat ci = FOk fb ->
    forall s : nat -> nat -> nat,
      (forall f t, In f (fl_act fb) /\ 1 <= t <= fl_trials fb /\ applies_at fb f t = true ->
                   s f t < nlevels fb f) ->
      forall sol : list Z,
        NoDup sol ->
        (forall v, 1 <= v <= variables_per_sample fb ->
                   (In (Z.of_nat v) sol <->
                    exists f t, (In f (fl_act fb) /\ 1 <= t <= fl_trials fb /\ applies_at fb f t = true) /\
                                encode_variable fb f (s f t) t = Some v)) ->
        exists d,
          decode fb sol = DOk d /\
          (forall f, In f (fl_act fb) ->
                     lookup (key_of fb f) d
                     = Some (map (fun t0 => if applies_at fb f (S t0)
                                            then level_name fb f (s f (S t0)) else EmptyString)
                                 (seq 0 (fl_trials fb)))) /\
          (forall k ys, In (k, ys) d -> exists f, In f (fl_act fb) /\ k = key_of fb f).
Proof. exact decode_of_created. Qed.
Print Assumptions C14_decode_of_created.

(** [input_ok] is met by the arguments of
    MultiCrossBlock([o, i, t], [[o, t], [i]], [MinimumTrials(7), AtMostKInARow(1, i)], mode=WEIGHT, alignment=PARALLEL_START)
    (t a transition factor on o) and [create_flat] builds the 7-trial record of the real block from them *)
Example C14_example_created :
  input_ok ex_ok_input = true /\ design_keys_distinct ex_ok_input = true /\
  exists fb, create_flat ex_ok_input = FOk fb /\ fl_act fb = [0; 1; 2] /\ fl_trials fb = 7 /\
             variables_per_sample fb = 7 * 4 + 6 * 2 /\ encode_variable fb 2 1 3 = Some 32.
Proof. split; [vm_compute; reflexivity|]. split; [reflexivity|]. eexists. split; [vm_compute; reflexivity|]. repeat split. Qed.

(** The hypotheses are met by the flat record of
    Repeat(CrossBlock([f, t], [f], [AtMostKInARow(1, (t, "same"))]), [MinimumTrials(5)])
    (f with two levels, t a transition factor on f: 10 grid variables, 8 for t). *)
Example C14_example_wf : wf_layout ex_repeat = true.
Proof. reflexivity. Qed.

Example C14_example_choice :
  applicable ex_repeat 1 0 3 /\ encode_variable ex_repeat 1 0 3 = Some 13 /\
  decode_variable ex_repeat 13 = Some (1, 0) /\ variables_per_sample ex_repeat = 18.
Proof.
  split; [|split; [|split]]; try reflexivity.
  unfold applicable. cbn. repeat split; auto with arith.
Qed.

(** the transition factor does not apply to the first trial: no choice, no variable *)
Example C14_example_not_applicable : applies_at ex_repeat 1 1 = false.
Proof. reflexivity. Qed.

(** decoding the assignment that picks level 0 everywhere (t is not applicable at trial 1) *)
Example C14_example_decode :
  act_keys_distinct ex_repeat = true /\
  decode ex_repeat [1; -2; 3; -4; 5; 7; 9; 11; -12; 13; 15; 17; 19; 23]%Z
  = DOk [(KName "f", ["a"; "a"; "a"; "a"; "a"]); (KName "t", [""; "same"; "same"; "same"; "same"])]%string.
Proof. split; reflexivity. Qed.
