(** C15 - Derived factors must be total, unambiguous functions of their window.

    Model: Design/Derive.v (literal model of DerivationProcessor.generate_derivations,
    get_dependent_cross_product with BeforeStart, the ElseLevel complement,
    _trial_arguments / select_level_for_sample; compared with the real code on
    every run by harness/props/c15.py).  [domain d] is the cross product the
    code iterates over, [accepts d l t] the predicate of level [l] on tuple [t]
    (a table, or for an ElseLevel the complement computed from the other
    levels), [gen_factor d cx] the outcome for one factor: [DOverlap] (the
    ValueError raised while the block is built), or [DOk errs derivs] with the
    errors / warnings added to [block.errors]; [DBadIndex] stands for an
    exception of [first_variable_for_level] (a dependency that is not in
    act_design) and never occurs for [check_factor].  All statements hold for
    every number of dependencies, levels, window width, stride and start.
    Proofs: Design/DeriveProofs.v. *)
From Coq Require Import List Bool Arith.
From SP Require Import Design.Flat Design.Layout Design.Derive Design.DeriveProofs.
Import ListNotations.

(** the block is rejected (ValueError) iff two levels accept a common tuple of the cross product *)
Theorem C15_overlap_rejected : forall d cx, gen_factor d cx <> DBadIndex ->
  ((exists l1 l2 t, gen_factor d cx = DOverlap l1 l2 t) <->
   (exists l1 l2 t, l1 <> l2 /\ In t (domain d) /\ accepts d l1 t = true /\ accepts d l2 t = true)).
Proof. exact DeriveProofs.overlap_rejected. Qed.
Print Assumptions C15_overlap_rejected.

(** the reported pair of levels and assignment is a genuine overlap *)
Theorem C15_overlap_witness : forall d cx l1 l2 t, gen_factor d cx = DOverlap l1 l2 t ->
  l1 < l2 /\ In t (domain d) /\ accepts d l1 t = true /\ accepts d l2 t = true.
Proof. exact DeriveProofs.overlap_witness. Qed.
Print Assumptions C15_overlap_witness.

Theorem C15_check_factor_total : forall d crossed rcc, check_factor d crossed rcc <> DBadIndex.
Proof. exact DeriveProofs.check_factor_not_bad. Qed.
Print Assumptions C15_check_factor_total.

Example C15_overlap_example :
  let d := {| df_deps := [{| dp_nlevels := 2; dp_ready := 0 |}]; df_width := 1; df_stride := 1; df_start := 0;
              df_levels := [DTable [[CLevel 0]; [CLevel 1]]; DTable [[CLevel 0]]] |} in
  check_factor d false true = DOverlap 0 1 [CLevel 0] /\ In [CLevel 0] (domain d) /\
  accepts d 0 [CLevel 0] = true /\ accepts d 1 [CLevel 0] = true.
Proof. cbn. repeat split; auto. Qed.

(** an error "No level ... matches" is reported exactly for the tuples no level accepts;
    it is never a warning, so show_errors fails and synthesis returns no sequences *)
Theorem C15_uncovered_reported : forall d cx errs ders, gen_factor d cx = DOk errs ders ->
  forall t, In (Uncovered t) errs <-> (In t (domain d) /\ forall l, accepts d l t = false).
Proof. exact DeriveProofs.uncovered_reported. Qed.
Print Assumptions C15_uncovered_reported.

Theorem C15_uncovered_fails : forall d cx errs ders t, gen_factor d cx = DOk errs ders ->
  In t (domain d) -> (forall l, accepts d l t = false) -> outcome_fails (gen_factor d cx) = true.
Proof. exact DeriveProofs.uncovered_fails. Qed.
Print Assumptions C15_uncovered_fails.

Example C15_uncovered_example :
  let d := {| df_deps := [{| dp_nlevels := 2; dp_ready := 0 |}]; df_width := 2; df_stride := 1; df_start := 0;
              df_levels := [DTable [[CLevel 0; CLevel 0]; [CLevel 1; CLevel 1]]; DTable [[CLevel 0; CLevel 1]; [CLevel 1; CLevel 0]]] |} in
  check_factor d true true = DOk [Uncovered [CBefore; CLevel 0]; Uncovered [CBefore; CLevel 1]] [] /\
  outcome_fails (check_factor d true true) = true.
Proof. cbn. split; reflexivity. Qed.

(** a level whose predicate matches nothing is reported (a warning unless the factor is crossed
    and a complete crossing is required) *)
Theorem C15_nomatch_reported : forall d cx errs ders, gen_factor d cx = DOk errs ders ->
  forall l c r, In (NoMatchLevel l c r) errs <->
    (l < length (df_levels d) /\ c = cx_crossed cx /\ r = cx_rcc cx /\
     forall t, In t (domain d) -> accepts d l t = false).
Proof. exact DeriveProofs.nomatch_reported. Qed.
Print Assumptions C15_nomatch_reported.

(** no non-warning error: every tuple of the cross product is accepted by exactly one level,
    and that is the level select_level_for_sample picks *)
Theorem C15_derive_ok_unique : forall d cx errs ders,
  gen_factor d cx = DOk errs ders -> forallb is_warning errs = true ->
  forall t, In t (domain d) ->
  exists l, accepts d l t = true /\ (forall l', accepts d l' t = true -> l' = l) /\ select_level d t = Some l.
Proof. exact DeriveProofs.derive_ok_unique. Qed.
Print Assumptions C15_derive_ok_unique.

Example C15_ok_example :
  let d := {| df_deps := [{| dp_nlevels := 2; dp_ready := 0 |}]; df_width := 2; df_stride := 1; df_start := 1;
              df_levels := [DTable [[CLevel 0; CLevel 0]; [CLevel 1; CLevel 1]]; DElse] |} in
  check_factor d true true = DOk [] [] /\ select_level d [CLevel 0; CLevel 1] = Some 1 /\
  select_level d [CLevel 1; CLevel 1] = Some 0.
Proof. cbn. repeat split. Qed.

(** the window of every trial the factor applies to is a tuple of the cross product (dependencies
    defined from the first trial on, any sustain count), hence the trial receives exactly one level *)
Theorem C15_window_in_domain : forall d cols n su g,
  1 <= su ->
  Forall (fun dp => dp_ready dp = 0) (df_deps d) ->
  Forall2 (col_ok n) (df_deps d) cols ->
  df_start d <= g -> g * su < n ->
  exists t, window_args cols (df_width d) (g * su) su = Some t /\ In t (domain d).
Proof. exact DeriveProofs.window_in_domain. Qed.
Print Assumptions C15_window_in_domain.

Theorem C15_trial_unique : forall d cx errs ders cols n su g,
  gen_factor d cx = DOk errs ders -> forallb is_warning errs = true ->
  1 <= su -> Forall (fun dp => dp_ready dp = 0) (df_deps d) ->
  Forall2 (col_ok n) (df_deps d) cols ->
  applies_group d g = true -> g * su < n ->
  exists t l, window_args cols (df_width d) (g * su) su = Some t /\
              select_level_for_sample d cols (g * su) su = SelLevel l /\
              accepts d l t = true /\ forall l', accepts d l' t = true -> l' = l.
Proof. exact DeriveProofs.trial_unique. Qed.
Print Assumptions C15_trial_unique.

Example C15_trial_example :
  let d := {| df_deps := [{| dp_nlevels := 2; dp_ready := 0 |}]; df_width := 2; df_stride := 1; df_start := 1;
              df_levels := [DTable [[CLevel 0; CLevel 0]; [CLevel 1; CLevel 1]]; DElse] |} in
  let cols := [[CLevel 0; CLevel 1; CLevel 1]] in
  Forall2 (col_ok 3) (df_deps d) cols /\ applies_group d 0 = false /\ applies_group d 2 = true /\
  select_level_for_sample d cols 1 1 = SelLevel 1 /\ select_level_for_sample d cols 2 1 = SelLevel 0.
Proof.
  cbn. split; [|repeat split].
  constructor; [|constructor]. split; [reflexivity|].
  repeat (constructor; [eexists; split; [reflexivity | cbn; auto]|]). constructor.
Qed.

(** ElseLevel: accepts exactly the tuples no DerivedLevel of the factor accepts; with an
    ElseLevel no tuple is uncovered *)
Theorem C15_else_complement : forall d l, nth_error (df_levels d) l = Some DElse ->
  forall t, accepts d l t = true <->
            (forall l' tab, nth_error (df_levels d) l' = Some (DTable tab) -> accepts d l' t = false).
Proof. exact DeriveProofs.else_complement. Qed.
Print Assumptions C15_else_complement.

Theorem C15_else_never_uncovered : forall d cx l errs ders, nth_error (df_levels d) l = Some DElse ->
  gen_factor d cx = DOk errs ders -> forall t, ~ In (Uncovered t) errs.
Proof. exact DeriveProofs.else_never_uncovered. Qed.
Print Assumptions C15_else_never_uncovered.

(** the same on the flat record of a whole block (every derived factor of the design) *)
Theorem C15_block_overlap_sound : forall fb f l1 l2 t, generate_derivations fb = GOverlap f l1 l2 t ->
  exists d, dfac_of_flat fb f = Some d /\ l1 < l2 /\ In t (domain d) /\ accepts d l1 t = true /\ accepts d l2 t = true.
Proof. exact DeriveProofs.block_overlap_sound. Qed.
Print Assumptions C15_block_overlap_sound.

Theorem C15_block_ok_unique : forall fb errs ders, generate_derivations fb = GOk errs ders ->
  forallb (fun p => is_warning (snd p)) errs = true ->
  forall f d, dfac_of_flat fb f = Some d -> forall t, In t (domain d) ->
  exists l, accepts d l t = true /\ (forall l', accepts d l' t = true -> l' = l) /\ select_level d t = Some l.
Proof. exact DeriveProofs.block_ok_unique. Qed.
Print Assumptions C15_block_ok_unique.
