(** placeholder while the harness is developed; replaced by the theorems *)
From SP Require Import Design.Flat Design.Derive.
