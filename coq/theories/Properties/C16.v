(** C16 - Trial count follows the documented rules; every sequence has that length.

    The theorems are about the executable model of the trial-count arithmetic
    (Front/Trials.v: [trials_required] = MultiCrossBlockRepeat.__trials_required_for_crossing,
    [trials_for_crossings] = _trials_per_sample_for_crossing, [model_min_trials] =
    the MinimumTrials fold and rounding of Block.__init__, [model_trials] =
    trials_per_sample(), [model_preambles] = preamble_sizes) on the flat record
    of a block (Design/Flat.v).  harness/props/c16.py checks on every run that
    the real block computes literally the same numbers on generated designs of
    every shape, that the reported count equals the documented arithmetic
    (docsem.py), and that every sequence returned by every strategy has that
    many entries for every factor.

    Notation (Front/TrialsWf.v, Front/TrialsProofs.v):
      [fstart fb f]   window start of f (0 for a non-derived factor)
      [stride1 fb f]  f's window stride is 1 (the constructors reject other crossed factors)
      [sustain fb f]  f's sustain count (Nest: inner length for outer factors)
      [csustain fb c] crossing_sustain_count(c);  [cstart fb c] = max of [fstart] over c
      [crossing_need fb c S] = cstart * csustain + S
      [wf_trials fb]  one positive crossing size per crossing; every crossing non-empty,
                      its factors of stride 1 and of the crossing's positive sustain count
      [doc_need_own fb]  = max(1, max over crossings of crossing_need(c, size_c))
      [doc_need_post fb] = max(1, max over crossings of crossing_need(c, max size)). *)
From Coq Require Import ZArith List Bool Arith.
From SP Require Import Design.Flat Design.Layout Front.Trials Front.TrialsWf Front.TrialsProofs Front.TrialsExamples.
From SP Require Import Front.CreateFlat Front.CreateWf.
Import ListNotations.

(** The [while] loop: a factor of stride 1, window start [s] and sustain count [su]
    needs [s*su + size] trials for a crossing of [size] > 0 trials ... *)
Theorem C16_trials_required_closed :
  forall (fb : flat) (f size : nat),
    stride1 fb f -> 0 < sustain fb f -> 0 < size ->
    trials_required fb f size = Some (fstart fb f * sustain fb f + size).
Proof. exact trials_required_closed. Qed.
Print Assumptions C16_trials_required_closed.

(** ... and a non-derived factor exactly [size] (also for [size] = 0). *)
Theorem C16_trials_required_simple :
  forall (fb : flat) (f size : nat),
    not_derived fb f -> 0 < sustain fb f -> trials_required fb f size = Some size.
Proof. exact trials_required_simple. Qed.
Print Assumptions C16_trials_required_simple.

(** PARALLEL_START / EQUAL_PREAMBLE: the trial count is the rounded MinimumTrials or
    the largest need of a crossing (preamble groups * sustain + crossing size), at least 1. *)
Theorem C16_trials_formula :
  forall (fb : flat) (m : Z),
    wf_trials fb -> fl_alignment fb <> PostPreamble -> model_min_trials fb = Some m ->
    model_trials fb = Some (Z.max m (Z.of_nat (doc_need_own fb))).
Proof. exact model_trials_own. Qed.
Print Assumptions C16_trials_formula.

(** POST_PREAMBLE: every crossing is measured with the largest crossing size. *)
Theorem C16_trials_formula_post :
  forall (fb : flat) (m : Z),
    wf_trials fb -> fl_alignment fb = PostPreamble -> fl_crossings fb <> [] -> model_min_trials fb = Some m ->
    model_trials fb = Some (Z.max m (Z.of_nat (doc_need_post fb))).
Proof. exact model_trials_post. Qed.
Print Assumptions C16_trials_formula_post.

(** preamble_sizes: window start of the latest-starting crossed factor, in trials *)
Theorem C16_preambles :
  forall fb : flat,
    wf_trials fb ->
    model_preambles fb
    = Some (map (fun c => cstart fb c * csustain fb c) (map fst (combine (fl_crossings fb) (fl_sizes fb)))).
Proof. exact model_preambles_closed. Qed.
Print Assumptions C16_preambles.

(** The trial count is at least every positive MinimumTrials, at least the rounded
    minimum (which is at least the unrounded one), at least what the crossings need, and at least 1. *)
Theorem C16_trials_ge_min :
  forall (fb : flat) (T : Z),
    model_trials fb = Some T ->
    (forall n, In (FMinimumTrials n) (fl_constraints fb) -> (0 < n)%Z -> (n <= T)%Z) /\
    (exists m, model_min_trials fb = Some m /\ (min_trials_raw fb <= m)%Z /\ (m <= T)%Z) /\
    (exists t, trials_for_crossings fb = Some t /\ (Z.of_nat t <= T)%Z /\ (1 <= T)%Z).
Proof. exact model_trials_ge_min. Qed.
Print Assumptions C16_trials_ge_min.

(** [wf_trials] is decided by the executable check [wf_trials_b] that the harness
    runs on the flat record of every accepted design. *)
Theorem C16_wf_check_sound : forall fb : flat, wf_trials_b fb = true -> wf_trials fb.
Proof. exact wf_trials_b_sound. Qed.
Print Assumptions C16_wf_check_sound.

(** [wf_trials] is not only checked on the flat record of every real block: it holds of every record [fb] that
    the model of the constructor ([create_flat], Front/CreateFlat.v: [_create] with [Block.__init__], compared
    field by field with the real block on every run) builds from arguments [ci] satisfying the executable
    condition [input_ok] (Front/CreateWf.v: one exclusion count below the crossing size and one positive sustain
    count per non-empty crossing, crossed factors of stride 1, crossings sharing a factor have equal sustain
    counts, ...).  On such a record the trial count and the preamble sizes follow the documented formulas with
    no well-formedness hypothesis left. *)
Theorem C16_trials_of_created :
  forall (ci : create_input) (fb : flat),
    input_ok ci = true -> create_flat ci = FOk fb ->
    (forall m, fl_alignment fb <> PostPreamble -> model_min_trials fb = Some m ->
       model_trials fb = Some (Z.max m (Z.of_nat (doc_need_own fb)))) /\
    (forall m, fl_alignment fb = PostPreamble -> fl_crossings fb <> [] -> model_min_trials fb = Some m ->
       model_trials fb = Some (Z.max m (Z.of_nat (doc_need_post fb)))) /\
    model_preambles fb
    = Some (map (fun c => cstart fb c * csustain fb c) (map fst (combine (fl_crossings fb) (fl_sizes fb)))).
Proof. exact trials_of_created. Qed.
Print Assumptions C16_trials_of_created.

(** ... and the fields the constructor stores are those numbers: [preamble_sizes] is, per crossing, the latest
    window start among its factors in trials; [trials_per_sample()] is the larger of the rounded MinimumTrials
    ([min_trials]) and the largest need of a crossing. *)
Theorem C16_created_trial_count :
  forall (ci : create_input) (fb : flat),
    input_ok ci = true -> create_flat ci = FOk fb ->
    fl_preambles fb = map (fun c => cstart fb c * csustain fb c) (fl_crossings fb) /\
    (fl_alignment fb <> PostPreamble -> fl_trials fb = Nat.max (fl_min_trials fb) (doc_need_own fb)) /\
    (fl_alignment fb = PostPreamble -> fl_crossings fb <> [] -> fl_trials fb = Nat.max (fl_min_trials fb) (doc_need_post fb)).
Proof. exact created_fields. Qed.
Print Assumptions C16_created_trial_count.

(** the guard itself, for a created record *)
Theorem C16_wf_of_created :
  forall (ci : create_input) (fb : flat),
    input_ok ci = true -> create_flat ci = FOk fb -> wf_trials_b fb = true /\ wf_trials fb.
Proof. exact create_flat_wf_trials_both. Qed.
Print Assumptions C16_wf_of_created.

(** The condition that crossings sharing a factor have equal sustain counts is not enforced by the constructors:
      Merge([Nest(MultiCrossBlock([g, t], [[g, t]], [], alignment=PARALLEL_START), CrossBlock([h], [h], [])),
             MultiCrossBlock([g, t, k], [[t, k]], [], alignment=PARALLEL_START)])
    (t a transition factor on g) is accepted, t keeps the sustain count 1 of the last crossing it occurs in, the
    guard fails and the formula (10 trials, the count of the Nest alone) is not the trial count (9). *)
Example C16_shared_factor_two_sustain_counts_refuted :
  exists ci fb, create_flat ci = FOk fb /\ wf_trials_b fb = false /\ fl_alignment fb <> PostPreamble /\
    fl_trials fb = 9 /\ fl_preambles fb = [1; 0; 1] /\ doc_need_own fb = 10 /\ model_trials fb = Some 9%Z.
Proof. exact create_flat_trials_formula_inconsistent_sustain_refuted. Qed.

(** [input_ok] is met by the arguments of
    MultiCrossBlock([o, i, t], [[o, t], [i]], [MinimumTrials(7), AtMostKInARow(1, i)], mode=WEIGHT, alignment=PARALLEL_START)
    (t a transition factor on o): need 1*1 + 4 = 5, MinimumTrials 7, weights 2 and 4 *)
Example C16_example_created :
  input_ok ex_ok_input = true /\
  exists fb, create_flat ex_ok_input = FOk fb /\ fl_trials fb = 7 /\ doc_need_own fb = 5 /\
             fl_preambles fb = [1; 0] /\ fl_weights fb = [2; 4] /\ model_trials fb = Some 7%Z.
Proof. split; [vm_compute; reflexivity|]. eexists. split; [vm_compute; reflexivity|]. repeat split. Qed.

(** The hypotheses are met by the flat record of
    Nest(MultiCrossBlock([o, t], [[o, t]], [], alignment=PARALLEL_START), CrossBlock([i], [i], []), [MinimumTrials(11)])
    (t a transition factor on o): need 1*2 + 8 = 10, MinimumTrials 11 rounded to 12. *)
Example C16_example_wf : wf_trials ex_nest /\ fl_alignment ex_nest <> PostPreamble.
Proof. split; [exact ex_nest_wf | discriminate]. Qed.

Example C16_example_numbers :
  trials_required ex_nest 2 8 = Some 10 /\ trials_required ex_nest 1 2 = Some 2 /\
  doc_need_own ex_nest = 10 /\ model_min_trials ex_nest = Some 12%Z /\ model_trials ex_nest = Some 12%Z /\
  model_preambles ex_nest = Some [2; 0].
Proof. repeat split; reflexivity. Qed.

Example C16_example_post :
  wf_trials ex_nest_post /\ fl_crossings ex_nest_post <> [] /\
  doc_need_post ex_nest_post = 10 /\ model_trials ex_nest_post = Some 12%Z.
Proof. split; [exact ex_nest_post_wf | split; [discriminate | split; reflexivity]]. Qed.
