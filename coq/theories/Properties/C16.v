(** C16 - Trial count follows the documented rules; every sequence has that length.

    The theorems are about the executable model of the trial-count arithmetic
    (Front/Trials.v: [trials_required] = MultiCrossBlockRepeat.__trials_required_for_crossing,
    [trials_for_crossings] = _trials_per_sample_for_crossing, [model_min_trials] =
    the MinimumTrials fold and rounding of Block.__init__, [model_trials] =
    trials_per_sample(), [model_preambles] = preamble_sizes) on the flat record
    of a block (Design/Flat.v).  harness/props/c16.py checks on every run that
    the real block computes literally the same numbers on generated designs of
    every shape, that the reported count equals the documented arithmetic
    (docsem.py), and that every sequence returned by every strategy has that
    many entries for every factor.

    Notation (Front/TrialsWf.v, Front/TrialsProofs.v):
      [fstart fb f]   window start of f (0 for a non-derived factor)
      [stride1 fb f]  f's window stride is 1 (the constructors reject other crossed factors)
      [sustain fb f]  f's sustain count (Nest: inner length for outer factors)
      [csustain fb c] crossing_sustain_count(c);  [cstart fb c] = max of [fstart] over c
      [crossing_need fb c S] = cstart * csustain + S
      [wf_trials fb]  one positive crossing size per crossing; every crossing non-empty,
                      its factors of stride 1 and of the crossing's positive sustain count
      [doc_need_own fb]  = max(1, max over crossings of crossing_need(c, size_c))
      [doc_need_post fb] = max(1, max over crossings of crossing_need(c, max size)). *)
From Coq Require Import ZArith List Bool Arith.
From SP Require Import Design.Flat Design.Layout Front.Trials Front.TrialsWf Front.TrialsProofs Front.TrialsExamples.
Import ListNotations.

(** The [while] loop: a factor of stride 1, window start [s] and sustain count [su]
    needs [s*su + size] trials for a crossing of [size] > 0 trials ... *)
Theorem C16_trials_required_closed :
  forall (fb : flat) (f size : nat),
    stride1 fb f -> 0 < sustain fb f -> 0 < size ->
    trials_required fb f size = Some (fstart fb f * sustain fb f + size).
Proof. exact trials_required_closed. Qed.
Print Assumptions C16_trials_required_closed.

(** ... and a non-derived factor exactly [size] (also for [size] = 0). *)
Theorem C16_trials_required_simple :
  forall (fb : flat) (f size : nat),
    not_derived fb f -> 0 < sustain fb f -> trials_required fb f size = Some size.
Proof. exact trials_required_simple. Qed.
Print Assumptions C16_trials_required_simple.

(** PARALLEL_START / EQUAL_PREAMBLE: the trial count is the rounded MinimumTrials or
    the largest need of a crossing (preamble groups * sustain + crossing size), at least 1. *)
Theorem C16_trials_formula :
  forall (fb : flat) (m : Z),
    wf_trials fb -> fl_alignment fb <> PostPreamble -> model_min_trials fb = Some m ->
    model_trials fb = Some (Z.max m (Z.of_nat (doc_need_own fb))).
Proof. exact model_trials_own. Qed.
Print Assumptions C16_trials_formula.

(** POST_PREAMBLE: every crossing is measured with the largest crossing size. *)
Theorem C16_trials_formula_post :
  forall (fb : flat) (m : Z),
    wf_trials fb -> fl_alignment fb = PostPreamble -> fl_crossings fb <> [] -> model_min_trials fb = Some m ->
    model_trials fb = Some (Z.max m (Z.of_nat (doc_need_post fb))).
Proof. exact model_trials_post. Qed.
Print Assumptions C16_trials_formula_post.

(** preamble_sizes: window start of the latest-starting crossed factor, in trials *)
Theorem C16_preambles :
  forall fb : flat,
    wf_trials fb ->
    model_preambles fb
    = Some (map (fun c => cstart fb c * csustain fb c) (map fst (combine (fl_crossings fb) (fl_sizes fb)))).
Proof. exact model_preambles_closed. Qed.
Print Assumptions C16_preambles.

(** The trial count is at least every positive MinimumTrials, at least the rounded
    minimum (which is at least the unrounded one), at least what the crossings need, and at least 1. *)
Theorem C16_trials_ge_min :
  forall (fb : flat) (T : Z),
    model_trials fb = Some T ->
    (forall n, In (FMinimumTrials n) (fl_constraints fb) -> (0 < n)%Z -> (n <= T)%Z) /\
    (exists m, model_min_trials fb = Some m /\ (min_trials_raw fb <= m)%Z /\ (m <= T)%Z) /\
    (exists t, trials_for_crossings fb = Some t /\ (Z.of_nat t <= T)%Z /\ (1 <= T)%Z).
Proof. exact model_trials_ge_min. Qed.
Print Assumptions C16_trials_ge_min.

(** [wf_trials] is decided by the executable check [wf_trials_b] that the harness
    runs on the flat record of every accepted design. *)
Theorem C16_wf_check_sound : forall fb : flat, wf_trials_b fb = true -> wf_trials fb.
Proof. exact wf_trials_b_sound. Qed.
Print Assumptions C16_wf_check_sound.

(** The hypotheses are met by the flat record of
    Nest(MultiCrossBlock([o, t], [[o, t]], [], alignment=PARALLEL_START), CrossBlock([i], [i], []), [MinimumTrials(11)])
    (t a transition factor on o): need 1*2 + 8 = 10, MinimumTrials 11 rounded to 12. *)
Example C16_example_wf : wf_trials ex_nest /\ fl_alignment ex_nest <> PostPreamble.
Proof. split; [exact ex_nest_wf | discriminate]. Qed.

Example C16_example_numbers :
  trials_required ex_nest 2 8 = Some 10 /\ trials_required ex_nest 1 2 = Some 2 /\
  doc_need_own ex_nest = 10 /\ model_min_trials ex_nest = Some 12%Z /\ model_trials ex_nest = Some 12%Z /\
  model_preambles ex_nest = Some [2; 0].
Proof. repeat split; reflexivity. Qed.

Example C16_example_post :
  wf_trials ex_nest_post /\ fl_crossings ex_nest_post <> [] /\
  doc_need_post ex_nest_post = 10 /\ model_trials ex_nest_post = Some 12%Z.
Proof. split; [exact ex_nest_post_wf | split; [discriminate | split; reflexivity]]. Qed.
