(** C17 - The mismatch checker accepts exactly the valid sequences.

    Model: Check/Mismatch.v ([mismatch fb s], the model of
    [sample_mismatch_experiment] on the flat record of a block).  Reference:
    Design/Sem.v.  Each [potential_sample_conforms] of the model is shown to
    compute the corresponding clause of [Sem.constraint_ok] / [Sem.crossing_ok]
    on the same row and the same windows, for rows, windows, k, level numbers
    and trial counts of any size; [Factor.test_trial] / [_trial_arguments] are
    shown to compute the factor-correctness clause of [Sem.factor_ok] (each
    derived cell is a level whose table accepts the window cells, for windows
    of any width, stride and start).  [C17_mismatch_iff_valid_excluded] assembles
    them for the fragment [efrag] of flat records (boolean predicate; designs
    WITH WithinTrial / Transition / Window factors and Exclude constraints on
    crossed levels), [C17_mismatch_iff_valid_derived] for its sub-fragment
    [dfrag] without exclusions of crossed levels, [C17_mismatch_iff_valid]
    for the sub-fragment [nfrag] without derived factors, and
    [C17_mismatch_iff_valid_partial] for any design given the correspondence of
    each component.

    Full statement (not proved in general; kept for reference):
      forall fb s, accepted fb -> in_domain fb s ->
        (no_mismatch fb s = true <-> Sem.valid_b (code_sem fb) (tseq_of s) = true)
    Missing outside [efrag]: derived factors that read a factor absent in some
    trial (a Transition of a Transition: the real predicate is then called on
    [''], outside the flat tables), LatinSquare, ExactlyKMultipleInARow (no
    documented meaning), and crossings whose size is not the total weight of
    the combinations free of excluded levels - combinations made impossible by
    a derivation, or excluded through a derived level that is not itself
    crossed (there the crossing clause alone is refuted,
    [C17_crossing_clause_refuted], and the equivalence would go through the
    derived-factor checks; for Exclude of crossed levels it goes through the
    Exclude check and is proved, [C17_crossing_excluded]).  On the current /repo the
    full statement is moreover false for designs with a weight-desugared hidden
    factor (KeyError: the user-visible sample has no key for the hidden factor)
    - see the search of harness/props/c17.py. *)
From Coq Require Import ZArith List Bool Arith Lia.
From SP Require Import Design.Flat Design.Layout Check.Mismatch Check.MismatchProofs Check.CrossingProofs Check.FragmentProofs Check.NestProofs Check.DerivedFrag Check.DerivedProofs Check.ExcludedProofs.
From SP Require Design.Sem.
Import ListNotations.

(** [check_sequence]'s run counting is the reference [runs], for every list and level. *)
Theorem C17_counts_runs : forall l cells, counts l cells = Sem.runs l cells.
Proof. exact counts_runs. Qed.
Print Assumptions C17_counts_runs.

(** AtMostKInARow / AtLeastKInARow / ExactlyK / ExactlyKInARow over the windows of
    [map_block_trial_ranges]: the model returns the value of the reference clause
    (no error: every window ends within the trials since /repo 2f184ec). *)
Theorem C17_kinarow : forall fb s kind k f l wb row ranges ck S (s' : Sem.tseq) f',
  row_of s f = Ok row ->
  length row = fl_trials fb ->
  map_block_trial_ranges fb wb = Some ranges ->
  sem_kind kind k = Some ck ->
  nth f' s' ([] : list Sem.cell) = row ->
  kinarow_conforms fb s kind k f l wb
  = Ok (Sem.constraint_ok S s' {| Sem.k_kind := ck; Sem.k_factor := f'; Sem.k_level := l; Sem.k_windows := ranges |}).
Proof. exact kinarow_conforms_sem. Qed.
Print Assumptions C17_kinarow.

Theorem C17_exclude : forall s f l row S (s' : Sem.tseq) f' ws,
  row_of s f = Ok row -> nth f' s' ([] : list Sem.cell) = row ->
  exclude_conforms s f l
  = Ok (Sem.constraint_ok S s' {| Sem.k_kind := Sem.KExclude; Sem.k_factor := f'; Sem.k_level := l; Sem.k_windows := ws |}).
Proof. exact exclude_conforms_sem. Qed.
Print Assumptions C17_exclude.

(** Pin through [get_trial_numbers]: at least one window has the index in range and
    every pinned trial holds the level. *)
Theorem C17_pin : forall fb s i f l wb row ranges su tn S (s' : Sem.tseq) f',
  row_of s f = Ok row ->
  map_block_trial_ranges fb wb = Some ranges ->
  geometry_sustain fb wb f = su -> 1 <= su ->
  get_trial_numbers fb f i wb = Some tn ->
  (forall t, In t tn -> t < length row) ->
  nth f' s' ([] : list Sem.cell) = row ->
  pin_conforms fb s i f l wb
  = Ok (Sem.constraint_ok S s' {| Sem.k_kind := Sem.KPin i su; Sem.k_factor := f'; Sem.k_level := l; Sem.k_windows := ranges |}).
Proof. exact pin_conforms_sem. Qed.
Print Assumptions C17_pin.

(** Sequential (as of /repo 6ff33e3, level index [((i - preamble) // sustain) % n]):
    the check of the group starts is the reference clause on rows that are
    constant on sustain groups (clause V4, checked by Sustain). *)
Theorem C17_sequential : forall fb s f row first su n S (s' : Sem.tseq) f' fd l0 ws,
  row_of s f = Ok row ->
  length row = fl_trials fb ->
  factor_preamble fb f = Ok first ->
  su_of fb f = su -> 1 <= su ->
  nlev fb f = n -> 1 <= n ->
  (forall t, first <= t < fl_trials fb -> nth t row None = nth (first + ((t - first) / su) * su) row None) ->
  nth f' s' ([] : list Sem.cell) = row ->
  Sem.s_trials S = fl_trials fb ->
  nth_error (Sem.s_factors S) f' = Some fd -> Sem.f_nlevels fd = n ->
  sequential_conforms fb s f
  = Ok (Sem.constraint_ok S s' {| Sem.k_kind := Sem.KSequential first su; Sem.k_factor := f'; Sem.k_level := l0; Sem.k_windows := ws |}).
Proof. exact sequential_conforms_sem. Qed.
Print Assumptions C17_sequential.

(** [combinations_mismatched_weights] = 0 on one chunk iff every allowed combination
    occurs exactly (full chunk) / at most (trailing partial chunk) its multiplicity -
    UNDER the hypothesis that every combination occurring in the chunk is an
    allowed one: the real function only iterates over occurring combinations. *)
Theorem C17_chunk : forall fb s fs (s' : Sem.tseq) fs' a b weight or_less mult,
  rows_agree s s' fs fs' ->
  (forall f', In f' fs' -> b <= length (nth f' s' ([] : list Sem.cell))) ->
  NoDup (map fst mult) ->
  (forall cm, In cm mult -> snd cm = combo_weight fb fs (map Some (fst cm)) * weight) ->
  forallb (fun t => existsb (fun cm => Sem.combo_eqb (fst cm) (Sem.combo_at s' fs' t)) mult) (seq a (b - a)) = true ->
  (or_less = false -> list_sum (map snd mult) = b - a) ->
  exists n, mismatched_weights fb s fs a b weight or_less = Ok n /\
            (n = 0 <-> forallb (fun cm => let c := Sem.count_combo s' fs' (fst cm) a b in
                                          if or_less then c <=? snd cm else c =? snd cm) mult = true).
Proof. exact mismatched_weights_sem. Qed.
Print Assumptions C17_chunk.

(** The chunk loop of [sample_mismatch_crossing] against [Sem.chunks_ok] (clause V5). *)
Theorem C17_crossing : forall fb s fs (s' : Sem.tseq) fs' size weight mult S first,
  rows_agree s s' fs fs' ->
  (forall f', In f' fs' -> fl_trials fb <= length (nth f' s' ([] : list Sem.cell))) ->
  NoDup (map fst mult) ->
  (forall cm, In cm mult -> snd cm = combo_weight fb fs (map Some (fst cm)) * weight) ->
  (forall t, first <= t < fl_trials fb ->
             existsb (fun cm => Sem.combo_eqb (fst cm) (Sem.combo_at s' fs' t)) mult = true) ->
  list_sum (map snd mult) = size -> 1 <= size ->
  Sem.s_trials S = fl_trials fb ->
  forall fuel start, first <= start -> fl_trials fb - start < fuel ->
  exists n, chunk_loop fb fuel s fs size weight start = Ok n /\
            (n = 0 <-> Sem.chunks_ok fuel S s'
                         {| Sem.c_factors := fs'; Sem.c_first := first; Sem.c_chunk := size; Sem.c_mult := mult |}
                         start = true).
Proof. exact chunk_loop_sem. Qed.
Print Assumptions C17_crossing.

(** Without that hypothesis the crossing clause alone is false of the model (and of
    the code: CrossBlock([f(a,b,c), g], [f], [Exclude(f,c)], False), f = [a, c] gives
    sample_mismatch_crossing = []): a required combination occurring zero times in
    a full chunk is not counted when an excluded one takes its place.  The whole
    checker still flags the witness, through Exclude. *)
Theorem C17_crossing_clause_refuted :
  exists fb s (s' : Sem.tseq) S c,
    mismatch_crossings fb s = Ok [] /\ Sem.crossing_ok S s' c = false /\
    mismatch fb s = VLists [] [2] [].
Proof. exact crossing_clause_refuted. Qed.
Print Assumptions C17_crossing_clause_refuted.

(** The whole checker on the fragment [nfrag] (boolean predicate on the flat
    record): no hidden / derived factors; any sustain counts dividing the trial
    count (Nest), with the Sustain constraint present; constraints among
    AtMost/AtLeast/ExactlyKInARow, ExactlyK, Pin, Sequential, Exclude (on
    uncrossed factors), MinimumTrials; any number of weighted crossings whose
    chunk geometry is consistent.  Candidates: one level per trial for every
    factor ([wf_rowsb]).  [code_sem_n fb] reads the flat record the way the
    checker consumes it.  Unbounded numbers of factors, levels, trials, windows. *)
Theorem C17_mismatch_iff_valid : forall fb rows,
  nfrag fb = true -> wf_rowsb fb rows = true ->
  (no_mismatch fb (cand_of_rows rows) = true <-> Sem.valid_b (code_sem_n fb) rows = true).
Proof. exact nfrag_mismatch_iff_valid_b. Qed.
Print Assumptions C17_mismatch_iff_valid.

(** The same for the sustain-free fragment [frag] against [code_sem] (componentwise:
    each phase of the checker is one part of [valid_b]). *)
Theorem C17_mismatch_iff_valid_plain : forall fb rows,
  frag fb = true -> wf_rowsb fb rows = true ->
  (no_mismatch fb (cand_of_rows rows) = true <-> Sem.valid_b (code_sem fb) rows = true).
Proof. exact frag_mismatch_iff_valid_b. Qed.
Print Assumptions C17_mismatch_iff_valid_plain.

(** [Sustain.potential_sample_conforms] is clause V4 (cells equal within a sustain
    group) on well-formed rows. *)
Theorem C17_sustain : forall fb rows, nfrag fb = true -> wf_rows fb rows ->
  exists b, sustain_conforms fb (cand_of_rows rows) = Ok b /\ (b = true <-> V4 fb rows).
Proof. exact sustain_conforms_V4. Qed.
Print Assumptions C17_sustain.

(** Any design and candidate: if each of the three phases of the model computes
    the corresponding part of [Sem.valid_b], so does the verdict. *)
Theorem C17_mismatch_iff_valid_partial : forall fb s S (s' : Sem.tseq) fsl bs xs,
  (forall p, In p s -> length (snd p) = fl_trials fb) ->
  conversion_ok fb s = true ->
  length s' = length (Sem.s_factors S) ->
  mismatch_factors fb s = Ok fsl ->
  (fsl = [] <-> forallb (fun p => Sem.factor_ok S s' (fst p) (snd p)) (Sem.index_list (Sem.s_factors S)) = true) ->
  map_res (constraint_conforms fb s) (fl_constraints fb) = Ok bs ->
  (forallb (fun b => b) bs = true <-> forallb (Sem.constraint_ok S s') (Sem.s_constraints S) = true) ->
  mismatch_crossings fb s = Ok xs ->
  (xs = [] <-> forallb (Sem.crossing_ok S s') (Sem.s_crossings S) = true) ->
  (no_mismatch fb s = true <-> Sem.valid_b S s' = true).
Proof. exact mismatch_assembly. Qed.
Print Assumptions C17_mismatch_iff_valid_partial.

(** The hypotheses are satisfiable by a non-trivial object: a weighted 2 x 2
    crossing over 6 trials (multiplicities 2,1,2,1) with an uncrossed 3-level
    factor and AtMostKInARow over two 3-trial windows, ExactlyK, Pin(-1), Exclude,
    AtLeastKInARow, ExactlyKInARow and Sequential. *)
Example C17_example_fragment : frag ex_fb = true /\ nfrag ex_fb = true.
Proof. vm_compute. auto. Qed.
Example C17_example_valid :
  wf_rowsb ex_fb ex_rows_valid = true /\ mismatch ex_fb (cand_of_rows ex_rows_valid) = VLists [] [] [] /\ Sem.valid_b (code_sem ex_fb) ex_rows_valid = true.
Proof. vm_compute. auto. Qed.
Example C17_example_invalid :
  wf_rowsb ex_fb ex_rows_invalid = true /\ mismatch ex_fb (cand_of_rows ex_rows_invalid) = VLists [] [2] [] /\ Sem.valid_b (code_sem ex_fb) ex_rows_invalid = false.
Proof. vm_compute. auto. Qed.

(** The design of the known finding, Nest(CrossBlock([s],[s],[Sequential(s)]),
    CrossBlock([A],[A],[])) as the constructors flatten it (|s| = 3 sustained over
    2 trials, 6 trials), is in the fragment: its valid output s = 0 0 1 1 2 2 is
    accepted (it was flagged before /repo 6ff33e3), the by-trial order 0 0 2 2 1 1
    and an unsustained row are flagged. *)
Example C17_example_nest :
  nfrag nest_fb = true /\
  wf_rowsb nest_fb nest_rows_valid = true /\
  mismatch nest_fb (cand_of_rows nest_rows_valid) = VLists [] [] [] /\
  Sem.valid_b (code_sem_n nest_fb) nest_rows_valid = true /\
  mismatch nest_fb (cand_of_rows nest_rows_by_trial) = VLists [] [2] [] /\
  Sem.valid_b (code_sem_n nest_fb) nest_rows_by_trial = false /\
  mismatch nest_fb (cand_of_rows nest_rows_unsustained) = VLists [] [3] [0] /\
  Sem.valid_b (code_sem_n nest_fb) nest_rows_unsustained = false.
Proof. vm_compute. repeat split. Qed.

(** * Designs with derived factors (fragment [dfrag], Check/DerivedFrag.v)

    [Factor.test_trial] at the first trial of a trial group: the model returns the
    value of the reference clause "the cell is a level whose table accepts the
    window cells" ([gs_cell]: [Sem.accepts] on [Sem.window_args]; no error: the
    predicate is only called on argument tuples of [get_dependent_cross_product]).
    Any window width / stride / start, any sustain count; arguments before the
    first trial are [BeforeStart] on both sides.  [dbase] is the part of [dfrag]
    (and of [efrag]) about factors and sustain counts. *)
Theorem C17_derived_cell : forall fb rows f fd q,
  dbase fb = true -> wf_rows_d fb rows -> nth_error (fl_design fb) f = Some fd ->
  q * su_of fb f < fl_trials fb ->
  test_trial fb (cand_of_rows rows) f fd (q * su_of fb f) (su_of fb f)
  = Ok (gs_cell fb rows f fd (q * su_of fb f)).
Proof. exact test_trial_d. Qed.
Print Assumptions C17_derived_cell.

(** [sample_mismatch_factors] flags exactly the factors with a group start whose cell its table rejects. *)
Theorem C17_factors_derived : forall fb rows, dbase fb = true -> wf_rows_d fb rows ->
  mismatch_factors fb (cand_of_rows rows)
  = Ok (flagged (map (fun p => gs_ok fb rows (fst p) (snd p)) (combine (seq 0 (length (fl_design fb))) (fl_design fb)))).
Proof. exact mismatch_factors_d. Qed.
Print Assumptions C17_factors_derived.

(** The factor clause of the reference semantics (applicability V2, derived levels V3, sustain V4) on a
    candidate of the domain is: cells constant on trial groups, and every group start accepted. *)
Theorem C17_factor_clause : forall fb rows f fd,
  dbase fb = true -> wf_rows_d fb rows -> nth_error (fl_design fb) f = Some fd ->
  (Sem.factor_ok (code_sem_d fb) rows f (dfactor_of fb (f, fd)) = true
   <-> V4f fb rows f /\ gs_ok fb rows f fd = true).
Proof. exact factor_ok_d. Qed.
Print Assumptions C17_factor_clause.

(** [Sustain.potential_sample_conforms] with factors that do not apply in every trial. *)
Theorem C17_sustain_derived : forall fb rows, dbase fb = true -> wf_rows_d fb rows ->
  exists b, sustain_conforms fb (cand_of_rows rows) = Ok b /\ (b = true <-> V4 fb rows).
Proof. exact sustain_conforms_V4_d. Qed.
Print Assumptions C17_sustain_derived.

(** The whole checker on the fragment [dfrag]: [nfrag] plus derived factors of any
    window shape (WithinTrial, Transition, Window(width, stride, start)) over factors
    that have a level in every trial, crossed or not (a crossing starts at its
    preamble; every crossed factor has a level from there on), with the generated
    Derivation constraints.  Candidates ([wf_rowsb_d]): one level per trial where the
    factor applies, '' (None) exactly where it does not.  [code_sem_d fb] carries the
    windows and acceptance tables of the flat record. *)
Theorem C17_mismatch_iff_valid_derived : forall fb rows,
  dfrag fb = true -> wf_rowsb_d fb rows = true ->
  (no_mismatch fb (cand_of_rows rows) = true <-> Sem.valid_b (code_sem_d fb) rows = true).
Proof. exact dfrag_mismatch_iff_valid_b. Qed.
Print Assumptions C17_mismatch_iff_valid_derived.

(** ... in particular with within-trial derived factors only (width 1, stride 1, start 0). *)
Theorem C17_mismatch_iff_valid_within : forall fb rows,
  dfrag_w fb = true -> wf_rowsb_d fb rows = true ->
  (no_mismatch fb (cand_of_rows rows) = true <-> Sem.valid_b (code_sem_d fb) rows = true).
Proof. exact dfrag_w_mismatch_iff_valid_b. Qed.
Print Assumptions C17_mismatch_iff_valid_within.

(** [dfrag] contains [nfrag], where the reference design and the candidate domain are the old ones. *)
Theorem C17_nfrag_dfrag : forall fb, nfrag fb = true -> dfrag fb = true.
Proof. exact nfrag_dfrag. Qed.
Print Assumptions C17_nfrag_dfrag.
Theorem C17_nfrag_code_sem_d : forall fb, nfrag fb = true -> code_sem_d fb = code_sem_n fb.
Proof. exact nfrag_code_sem_d. Qed.
Print Assumptions C17_nfrag_code_sem_d.
Theorem C17_nfrag_wf_rowsb_d : forall fb rows, nfrag fb = true -> wf_rowsb_d fb rows = wf_rowsb fb rows.
Proof. exact nfrag_wf_rowsb_d. Qed.
Print Assumptions C17_nfrag_wf_rowsb_d.

(** The hypotheses are satisfiable beyond [nfrag]: the flat record of the real block
    CrossBlock([color, word, cong, tr], [color, tr], [AtMostKInARow(2, (cong, con))]) with
    cong = WithinTrial(color = word) and tr = Transition(color[-1] = color[0]) (5 trials, tr is ''
    in trial 0, the crossing starts at trial 1): a valid sequence is accepted; a within-trial cell
    and a transition cell their tables reject are flagged as factors; an unbalanced crossing with
    every derived cell right is flagged as crossing. *)
Example C17_example_derived_fragment : nfrag exd_fb = false /\ dfrag exd_fb = true /\ dfrag_w exd_fb = false.
Proof. vm_compute. auto. Qed.
Example C17_example_derived :
  wf_rowsb_d exd_fb exd_rows_valid = true /\
  mismatch exd_fb (cand_of_rows exd_rows_valid) = VLists [] [] [] /\
  Sem.valid_b (code_sem_d exd_fb) exd_rows_valid = true /\
  wf_rowsb_d exd_fb exd_rows_bad_within = true /\
  mismatch exd_fb (cand_of_rows exd_rows_bad_within) = VLists [2] [] [] /\
  Sem.valid_b (code_sem_d exd_fb) exd_rows_bad_within = false /\
  wf_rowsb_d exd_fb exd_rows_bad_transition = true /\
  mismatch exd_fb (cand_of_rows exd_rows_bad_transition) = VLists [3] [] [] /\
  Sem.valid_b (code_sem_d exd_fb) exd_rows_bad_transition = false /\
  wf_rowsb_d exd_fb exd_rows_bad_crossing = true /\
  mismatch exd_fb (cand_of_rows exd_rows_bad_crossing) = VLists [] [] [0] /\
  Sem.valid_b (code_sem_d exd_fb) exd_rows_bad_crossing = false.
Proof. vm_compute. repeat split. Qed.

(** * Exclusions of crossed levels (fragment [efrag], Check/DerivedFrag.v)

    One crossing whose admitted combinations are those free of excluded levels: the
    chunk loop never raises, and ONCE NO EXCLUDED LEVEL OCCURS IN A ROW (what the
    Exclude checks decide on both sides) it flags the crossing iff the reference
    clause fails (every admitted combination with its multiplicity per full chunk, at
    most that in the trailing partial chunk, no other combination). *)
Theorem C17_crossing_excluded : forall fb rows p S, no_hidden fb -> xfrag_x fb p = true -> wf_rows_d fb rows ->
  Sem.s_trials S = fl_trials fb ->
  exists xs, crossing_mismatch fb (cand_of_rows rows) (fst p) (snd p) = Ok xs /\
             (NoExcl fb rows -> (xs = [] <-> Sem.crossing_ok S rows (crossing_sem_x fb p) = true)).
Proof. exact frag_crossing_x. Qed.
Print Assumptions C17_crossing_excluded.

(** The whole checker on the fragment [efrag]: [dfrag] plus Exclude constraints on levels
    of crossed factors (basic or derived), the crossing size of the record being the total
    weight of the remaining combinations.  [code_sem_x fb] lists exactly these as the
    admitted combinations of each crossing. *)
Theorem C17_mismatch_iff_valid_excluded : forall fb rows,
  efrag fb = true -> wf_rowsb_d fb rows = true ->
  (no_mismatch fb (cand_of_rows rows) = true <-> Sem.valid_b (code_sem_x fb) rows = true).
Proof. exact efrag_mismatch_iff_valid_b. Qed.
Print Assumptions C17_mismatch_iff_valid_excluded.

(** [efrag] contains [dfrag], where the reference design is the old one. *)
Theorem C17_dfrag_efrag : forall fb, dfrag fb = true -> efrag fb = true.
Proof. exact dfrag_efrag. Qed.
Print Assumptions C17_dfrag_efrag.
Theorem C17_dfrag_code_sem_x : forall fb, dfrag fb = true -> code_sem_x fb = code_sem_d fb.
Proof. exact dfrag_code_sem_x. Qed.
Print Assumptions C17_dfrag_code_sem_x.

(** The hypotheses are satisfiable beyond [dfrag]: the flat record of the real block
    CrossBlock([f(a, b:2, c), g(x, y)], [f, g], [Exclude(f, c)], require_complete_crossing=False)
    (6 trials): a valid sequence is accepted; with the excluded (c, y) in the place of (a, y) the
    crossing check is silent and the Exclude check flags; an unbalanced crossing is flagged. *)
Example C17_example_excluded_fragment : dfrag exx_fb = false /\ efrag exx_fb = true.
Proof. vm_compute. auto. Qed.
Example C17_example_excluded :
  wf_rowsb_d exx_fb exx_rows_valid = true /\
  mismatch exx_fb (cand_of_rows exx_rows_valid) = VLists [] [] [] /\
  Sem.valid_b (code_sem_x exx_fb) exx_rows_valid = true /\
  wf_rowsb_d exx_fb exx_rows_excluded = true /\
  mismatch exx_fb (cand_of_rows exx_rows_excluded) = VLists [] [2] [] /\
  Sem.valid_b (code_sem_x exx_fb) exx_rows_excluded = false /\
  wf_rowsb_d exx_fb exx_rows_unbalanced = true /\
  mismatch exx_fb (cand_of_rows exx_rows_unbalanced) = VLists [] [] [0] /\
  Sem.valid_b (code_sem_x exx_fb) exx_rows_unbalanced = false.
Proof. vm_compute. repeat split. Qed.
