(** C18 - Reusing factor and constraint objects across blocks does not change meaning.

    Model: Hist/Reuse.v - a store of constraint objects with the mutable fields the
    code has ([within_block : option geometry], [k], [trials],
    [max_trials_required]) and [build : state -> desc -> state * option summary]:
    what constructing a CrossBlock / MultiCrossBlock ([DLeaf]), [Repeat], [Merge],
    [Nest] writes into the shared objects ([init_within_block] = set-if-None for the
    new block's constraints and [orig_constraints]; [copy.copy] +
    [sustain_within_block] for the outer constraints of [Nest];
    [max_trials_required] in [Block.__validate]) and which geometry, [k] and
    [trials] every constraint of the new block ends up using (the summary).
    [run] builds a list of constructions in order on one store;
    [mask keep ds] builds only the blocks of [keep] (the twin of a block from fresh
    objects is [mask (keep_of ds i) ds], its dependency closure);
    [shared_summary] / [fresh_summary] are the summaries of block [i] in the two runs.

    Full statement (FALSE for the model of the current code, see [C18_reuse_refuted]):

      C18_build_history_independent :
        forall user ds i, wf (length user) ds = true -> closed (keep_of ds i) ds = true ->
          shared_summary user ds i = fresh_summary user ds i.

    It would follow from the invariant "a build leaves the caller's store
    unchanged", which the set-if-None write of [init_within_block] on the user's own
    objects violates: the object keeps the geometry of the first block it met. *)
From Coq Require Import ZArith List Bool Arith.
From SP Require Import Hist.Reuse Hist.ReuseProofs.
Import ListNotations.
Open Scope Z_scope.

(** The witness: c = AtMostKInARow(1, (f, "a")); CrossBlock([f], [f], [c]) (2 trials), then
    CrossBlock([f, g], [f, g], [c]) (4 trials).  In the shared build the second block uses the
    2-trial geometry, its fresh twin the 4-trial one. *)
Theorem C18_reuse_refuted :
  exists (user : list cobj) (ds : list desc) (i : nat),
    wf (List.length user) ds = true /\ closed (keep_of ds i) ds = true /\
    shared_summary user ds i = Some [(KAtMost, Some wit_g2, 1, 0)] /\
    fresh_summary user ds i = Some [(KAtMost, Some wit_g4, 1, 0)] /\
    shared_summary user ds i <> fresh_summary user ds i.
Proof. exact reuse_refuted. Qed.
Print Assumptions C18_reuse_refuted.

(** The guarded statement: if every constraint object that has a [within_block] is handed
    (directly, in a constructor's constraint list) only to constructions of one and the same
    geometry [gc c] - constraints without [within_block] (Exclude, Sequential, LatinSquare,
    MinimumTrials, ContinuousConstraint) are not restricted - then for every sequence of
    constructions, in any order, and every dependency-closed set [keep] of blocks, each kept block
    gets exactly the summary it gets when only the kept blocks are built. *)
Theorem C18_build_history_independent_guarded :
  forall (user : list cobj) (gc : nat -> geom) (ds : list desc) (keep : nat -> bool) (i : nat),
    wf (List.length user) ds = true ->
    (forall d, In d ds -> forall c, In c (d_cs d) ->
       has_within (c_kind (nth c user default_obj)) = true -> d_geom d = gc c) ->
    closed keep ds = true -> keep i = true ->
    nth_error (snd (run (init_state user) ds)) i = nth_error (snd (run (init_state user) (mask keep ds))) i.
Proof. exact history_independent_guarded. Qed.
Print Assumptions C18_build_history_independent_guarded.

(** ... in the form the check uses: shared build = fresh twin. *)
Theorem C18_shared_equals_fresh_guarded :
  forall (user : list cobj) (gc : nat -> geom) (ds : list desc) (i : nat),
    wf (List.length user) ds = true -> consistent user gc ds -> closed (keep_of ds i) ds = true ->
    shared_summary user ds i = fresh_summary user ds i.
Proof. exact shared_eq_fresh_guarded. Qed.
Print Assumptions C18_shared_equals_fresh_guarded.

(** Constraint objects without [within_block] can be shared freely. *)
Theorem C18_shared_equals_fresh_without_within_block :
  forall (user : list cobj) (ds : list desc) (i : nat),
    wf (List.length user) ds = true -> Forall (fun o => has_within (c_kind o) = false) user ->
    closed (keep_of ds i) ds = true ->
    shared_summary user ds i = fresh_summary user ds i.
Proof. exact shared_eq_fresh_no_within. Qed.
Print Assumptions C18_shared_equals_fresh_without_within_block.

(** The single-run invariant behind it: whatever is built, the user's objects keep their kind,
    [k] and [trials], and their [within_block] is unset or their one geometry; every
    [orig_constraints] list holds existing objects whose geometry is set. *)
Theorem C18_build_preserves_store_invariant :
  forall (user : list cobj) (gc : nat -> geom) (s : state) (d : desc),
    good user gc s -> desc_ok user gc d -> good user gc (fst (build s d)).
Proof. exact build_good. Qed.
Print Assumptions C18_build_preserves_store_invariant.

(** The hypotheses are satisfiable by a non-trivial program: one AtMostKInARow object in two
    blocks of the same geometry, one of which is repeated, an ExactlyK object on the outer block
    of a Nest (copied and sustained: geometry and [k] doubled), a MinimumTrials object. *)
Example C18_guarded_example :
  wf (List.length ex_user) ex_prog = true /\ consistent ex_user (fun _ => wit_g2) ex_prog /\
  closed (keep_of ex_prog 3) ex_prog = true /\
  shared_summary ex_user ex_prog 3 =
    Some [(KAtMost, Some (gsustain wit_g2 2), 1, 0); (KExactlyK, Some (gsustain wit_g2 2), 2, 0); (KAtMost, Some wit_g2, 1, 0)].
Proof. exact ex_guarded. Qed.
