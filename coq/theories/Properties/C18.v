(** C18 - Reusing factor and constraint objects across blocks does not change meaning.

    Model: Hist/Reuse.v - a store of constraint objects with the mutable fields the
    code has ([within_block : option geometry], [k], [trials],
    [max_trials_required]) and [build : state -> desc -> state * option summary]:
    what constructing a CrossBlock / MultiCrossBlock ([DLeaf]), [Repeat], [Merge],
    [Nest] does to the store: [_create] first makes private shallow copies of the
    constraint objects it is given ([copy.copy], new store entries), which become the
    block's [orig_constraints]; [max_trials_required] ([Block.__validate]) and
    [init_within_block] (set-if-None) are written on the copies; [Repeat] / [Merge]
    hand the inner blocks' initialised copies on, [Nest] copies the outer block's and
    applies [sustain_within_block].  The summary of a block is the kind, geometry, [k]
    and [trials] every constraint of the new block ends up using.
    [run] builds a list of constructions in order on one store;
    [mask keep ds] builds only the blocks of [keep] (the twin of a block from fresh
    objects is [mask (keep_of ds i) ds], its dependency closure);
    [shared_summary] / [fresh_summary] are the summaries of block [i] in the two runs.

    History.  For the code before /repo commit 88b3d0f the model had no copies in
    [_create] and the headline statement was FALSE of it: [C18_reuse_refuted] exhibited
    c = AtMostKInARow(1, (f, "a")) used in CrossBlock([f],[f],[c]) (2 trials) and then
    in CrossBlock([f,g],[f,g],[c]) (4 trials): the second block kept the 2-trial
    geometry.  Replayed on the real code the witness gave 16 sequences instead of 12
    (f = b,a,a,b accepted) and a mismatch verdict that differed from the fresh twin's;
    the defect was repaired in 88b3d0f (private copies), the model follows the repaired
    code, the correspondence run compares it with the real constructors on every run,
    and the statement is now proved without any condition on sharing. *)
From Coq Require Import ZArith List Bool Arith.
From SP Require Import Hist.Reuse Hist.ReuseProofs.
Import ListNotations.
Open Scope Z_scope.

(** For every sequence of constructions, in any order, and every dependency-closed set [keep] of
    blocks, each kept block gets exactly the summary it gets when only the kept blocks are built
    from fresh objects - however factor and constraint objects are shared. *)
Theorem C18_build_history_independent :
  forall (user : list cobj) (ds : list desc) (keep : nat -> bool) (i : nat),
    wf (List.length user) ds = true -> closed keep ds = true -> keep i = true ->
    nth_error (snd (run (init_state user) ds)) i = nth_error (snd (run (init_state user) (mask keep ds))) i.
Proof. exact history_independent. Qed.
Print Assumptions C18_build_history_independent.

(** ... in the form the check uses: shared build = fresh twin. *)
Theorem C18_shared_equals_fresh :
  forall (user : list cobj) (ds : list desc) (i : nat),
    wf (List.length user) ds = true -> closed (keep_of ds i) ds = true ->
    shared_summary user ds i = fresh_summary user ds i.
Proof. exact shared_eq_fresh. Qed.
Print Assumptions C18_shared_equals_fresh.

(** The invariant behind it: a construction never writes an object that existed before it (the
    store only grows) ... *)
Theorem C18_build_never_writes_store :
  forall (user : list cobj) (s : state) (d : desc) (id : nat),
    good user s -> desc_ok user d -> (id < next s)%nat -> objs (fst (build s d)) id = objs s id.
Proof. exact build_never_writes. Qed.
Print Assumptions C18_build_never_writes_store.

Theorem C18_build_preserves_store_invariant :
  forall (user : list cobj) (s : state) (d : desc),
    good user s -> desc_ok user d -> good user (fst (build s d)).
Proof. exact build_good. Qed.
Print Assumptions C18_build_preserves_store_invariant.

(** ... so after any sequence of constructions the user's objects are as the user created them. *)
Theorem C18_user_objects_never_written :
  forall (user : list cobj) (ds : list desc) (c : nat),
    wf (List.length user) ds = true -> (c < List.length user)%nat ->
    objs (fst (run (init_state user) ds)) c = fresh (nth c user default_obj).
Proof. exact user_objects_never_written. Qed.
Print Assumptions C18_user_objects_never_written.

(** The statement that was provable before the repair (every constraint object with a
    [within_block] handed only to constructions of one geometry) is a special case. *)
Theorem C18_build_history_independent_guarded :
  forall (user : list cobj) (gc : nat -> geom) (ds : list desc) (keep : nat -> bool) (i : nat),
    wf (List.length user) ds = true -> consistent user gc ds -> closed keep ds = true -> keep i = true ->
    nth_error (snd (run (init_state user) ds)) i = nth_error (snd (run (init_state user) (mask keep ds))) i.
Proof. exact history_independent_guarded. Qed.
Print Assumptions C18_build_history_independent_guarded.

(** The old witness ([C18_reuse_refuted] before the repair) is now history independent: the
    4-trial block uses the 4-trial geometry in the shared build as in its fresh twin, and the
    user's object (store entry 0) is untouched; entries 1 and 2 are the two blocks' copies. *)
Theorem C18_old_witness_history_independent :
  wf (List.length wit_user) wit_prog = true /\ closed (keep_of wit_prog 1) wit_prog = true /\
  shared_summary wit_user wit_prog 0 = Some [(KAtMost, Some wit_g2, 1, 0)] /\
  shared_summary wit_user wit_prog 1 = Some [(KAtMost, Some wit_g4, 1, 0)] /\
  fresh_summary wit_user wit_prog 1 = Some [(KAtMost, Some wit_g4, 1, 0)] /\
  store_list (fst (run (init_state wit_user) wit_prog)) =
    [ {| c_kind := KAtMost; c_within := None; c_k := 1; c_trials := 0; c_mtr := None |};
      {| c_kind := KAtMost; c_within := Some wit_g2; c_k := 1; c_trials := 0; c_mtr := None |};
      {| c_kind := KAtMost; c_within := Some wit_g4; c_k := 1; c_trials := 0; c_mtr := None |} ].
Proof. exact old_witness_independent. Qed.
Print Assumptions C18_old_witness_history_independent.

(** A program with heavy sharing: one AtMostKInARow object in a 2-trial block, in a 4-trial block
    and in the constraint list of a Repeat of the first; an ExactlyK object in both blocks, hence
    (copied and sustained: geometry and [k] doubled) on the outer side of a Nest and, with its own
    geometry, on the inner side; a MinimumTrials object. *)
Example C18_sharing_example :
  wf (List.length ex_user) ex_prog = true /\ closed (keep_of ex_prog 3) ex_prog = true /\
  closed (keep_of ex_prog 2) ex_prog = true /\
  shared_summary ex_user ex_prog 1 = Some [(KAtMost, Some wit_g4, 1, 0); (KExactlyK, Some wit_g4, 1, 0)] /\
  shared_summary ex_user ex_prog 2 =
    Some [(KAtMost, Some wit_g2, 1, 0); (KExactlyK, Some wit_g2, 1, 0); (KMinTrials, None, 0, 4); (KAtMost, Some wit_g4, 1, 0)] /\
  shared_summary ex_user ex_prog 3 =
    Some [(KAtMost, Some (gsustain wit_g2 2), 1, 0); (KExactlyK, Some (gsustain wit_g2 2), 2, 0);
          (KAtMost, Some wit_g4, 1, 0); (KExactlyK, Some wit_g4, 1, 0)] /\
  fresh_summary ex_user ex_prog 3 = shared_summary ex_user ex_prog 3.
Proof. vm_compute. repeat split; reflexivity. Qed.
