(** C19 - A block stays usable and unchanged across library calls.

    Model: Hist/BlockState.v - the attributes of a constructed block the seven
    public calls can reach ([design], [orig_design], [continuous_factors],
    [crossings], the constraint list, [min_trials], the caches
    [_trials_per_sample], [_variables_per_trial], [_simple_tuples],
    [_cached_previous_count], [continuous_factor_samples], and [errors]) and
    [step : bstate -> op -> bstate * out] for [synthesize_trials] with every
    strategy class, [print_experiments], [tabulate_experiments],
    [save_experiments_csv], [experiments_to_tuples], [experiments_to_dicts],
    [sample_mismatch_experiment].  The model is parametric in [tps_fn] (the trial
    count as a function of the design) and [excl_fn] (the messages
    [__count_exclusions] computes); the facts of a run that do not depend on the
    block (how many experiments the solver returned, which idempotent caches the
    strategy happened to touch, which variable numbers it requested) are
    parameters of the operations, so every statement holds for all of them.

    [Inv s0 s] = "design, orig_design, continuous factors, crossings, constraint
    list, min_trials and errors of [s] are those of [s0]; every cache of [s] is
    empty or equals the pure function it memoises; the messages of
    [__count_exclusions] are already in [errors] (the block was constructed)".

    What the theorems do not cover (left to the search of harness/props/c19.py,
    which runs the real calls): that the solver behind a strategy finds a
    solution, and that the returned sequences are valid (C01-C09). *)
From Coq Require Import ZArith List Bool String.
From SP Require Import Hist.BlockState Hist.BlockStateProofs.
Import ListNotations.
Open Scope Z_scope.

(** Any sequence of library calls preserves the invariant. *)
Theorem C19_ops_preserve_meaning :
  forall (tps_fn : list fdesc -> list (list string) -> Z -> Z)
         (excl_fn : list fdesc -> list (list string) -> list Z -> list string)
         (s0 : bstate) (ops : list op),
    Inv tps_fn excl_fn s0 s0 -> Inv tps_fn excl_fn s0 (run tps_fn excl_fn ops s0).
Proof. exact ops_preserve_meaning. Qed.
Print Assumptions C19_ops_preserve_meaning.

(** ... from every state satisfying it (one step at a time). *)
Theorem C19_step_preserves_invariant :
  forall tps_fn excl_fn (s0 s : bstate) (o : op),
    Inv tps_fn excl_fn s0 s -> Inv tps_fn excl_fn s0 (fst (step tps_fn excl_fn s o)).
Proof. exact step_inv. Qed.
Print Assumptions C19_step_preserves_invariant.

(** Hence a later synthesis that returns has exactly the number of experiments the
    sampler produced and the column set of the initial design (visible design
    factors, then the continuous factors), whatever calls were made before and
    whatever caches they filled; it is refused by [show_errors] exactly when the
    same call on the untouched block is. *)
Theorem C19_later_synthesis_same_output :
  forall tps_fn excl_fn (s0 s : bstate) st k tv ts reqs tv' ts' reqs',
    Inv tps_fn excl_fn s0 s0 -> Inv tps_fn excl_fn s0 s ->
    snd (synth tps_fn excl_fn s st false k tv ts reqs) = snd (synth tps_fn excl_fn s0 st false k tv' ts' reqs').
Proof. exact later_synthesis_same_output. Qed.
Print Assumptions C19_later_synthesis_same_output.

Theorem C19_later_synthesis_same_columns :
  forall tps_fn excl_fn (s0 : bstate) (ops : list op) st k tv ts reqs n cols,
    Inv tps_fn excl_fn s0 s0 ->
    snd (synth tps_fn excl_fn (run tps_fn excl_fn ops s0) st false k tv ts reqs) = OCols n cols ->
    n = k /\ cols = columns s0.
Proof. exact later_synthesis_same_columns. Qed.
Print Assumptions C19_later_synthesis_same_columns.

(** The conversions and the tabulation write the same columns after any history. *)
Theorem C19_later_conversion_same_keys :
  forall tps_fn excl_fn (s0 : bstate) (ops : list op) (o : op),
    Inv tps_fn excl_fn s0 s0 ->
    (o = Print \/ o = SaveCsv \/ o = ToTuples \/ o = ToDicts \/ o = Tabulate) ->
    snd (step tps_fn excl_fn (run tps_fn excl_fn ops s0) o) = snd (step tps_fn excl_fn s0 o).
Proof. exact later_conversion_same_keys. Qed.
Print Assumptions C19_later_conversion_same_keys.

(** The variable numbering of every later encoding: [_get_previous_trials_variable_count]
    answers the pure count, whatever earlier calls left in its cache. *)
Theorem C19_later_previous_count_exact :
  forall tps_fn excl_fn (s0 : bstate) (ops : list op) f t fd c' n,
    Inv tps_fn excl_fn s0 s0 -> 1 <= t ->
    find_factor (st_design s0) f = Some fd ->
    prev_request (st_design (run tps_fn excl_fn ops s0)) (st_prev (run tps_fn excl_fn ops s0)) f t = Some (c', n) ->
    n = prev_pure fd t.
Proof. exact later_previous_count_exact. Qed.
Print Assumptions C19_later_previous_count_exact.

(** A reachable non-trivial state: a block with two crossed factors, a transition
    factor and a continuous factor; after a formula-based synthesis, a print, a
    RandomGen synthesis, a mismatch check and a tabulation the caches are filled
    (nine entries of [_cached_previous_count], [_variables_per_trial],
    [continuous_factor_samples]) and a further synthesis returns the four columns. *)
Example C19_reachable_state :
  Inv ex_tps ex_excl ex_state ex_state /\
  st_prev (run ex_tps ex_excl ex_ops ex_state) =
    [(("f", 2), 1); (("g", 2), 1); (("f", 3), 2); (("f", 4), 3); (("t", 2), 0); (("t", 3), 1); (("t", 4), 2);
     (("g", 3), 2); (("g", 4), 3)]%string /\
  st_vpt (run ex_tps ex_excl ex_ops ex_state) = Some 4 /\
  st_cfs (run ex_tps ex_excl ex_ops ex_state) = [(0, ["rt"%string]); (1, ["rt"%string])] /\
  snd (step ex_tps ex_excl (run ex_tps ex_excl ex_ops ex_state) (Synth SSat false 3 false false [])) =
    OCols 3 ["f"; "g"; "t"; "rt"]%string.
Proof. split; [exact ex_inv | vm_compute; repeat split]. Qed.
