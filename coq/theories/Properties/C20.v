(** C20 - Output conversions preserve trials and hide internal factors.

    Model: Out/Convert.v (tied to /repo by harness/props/c20.py on every run).
    [d] is the design as the user declared it (block.orig_design), [exps] the
    experiments, each a dict from factor names to columns.  For rectangular
    experiments, entry [e][t][i] of every conversion is
    experiments[e][name of the i-th user-declared factor][t]; nothing else
    appears; conversions of well-formed inputs do not raise; no hidden name is
    exposed by the conversions or by the post-processing of synthesize_trials. *)
From Coq Require Import ZArith List Bool String.
From SP Require Import Out.Convert Out.ConvertProofs.
Import ListNotations.
Local Open Scope nat_scope.

Theorem C20_tuples_transpose : forall d exps out,
  experiments_to_tuples d exps = Ok out ->
  List.length out = List.length exps /\
  forall e exp n, nth_error exps e = Some exp -> rectangular n exp -> d <> [] ->
    exists rows, nth_error out e = Some rows /\
      List.length rows = n /\
      forall t row, nth_error rows t = Some row ->
        List.length row = List.length d /\
        forall i f, nth_error d i = Some f ->
          exists v, nth_error row i = Some v /\
            exists col, lookup (Plain (uname f)) exp = Some col /\ nth_error col t = Some v.
Proof. exact tuples_entry. Qed.
Print Assumptions C20_tuples_transpose.

Theorem C20_dicts_transpose : forall d exps out,
  experiments_to_dicts d exps = Ok out ->
  List.length out = List.length exps /\
  forall e exp n, nth_error exps e = Some exp -> rectangular n exp -> d <> [] ->
    exists rows, nth_error out e = Some rows /\ List.length rows = n /\
      forall t dc, nth_error rows t = Some dc ->
        (forall f, In f d -> exists v, lookup (Plain (uname f)) dc = Some v /\
            exists col, lookup (Plain (uname f)) exp = Some col /\ nth_error col t = Some v) /\
        (forall k, In k (map fst dc) -> exists f, In f d /\ k = Plain (uname f)) /\
        NoDup (map fst dc).
Proof. exact dicts_entry. Qed.
Print Assumptions C20_dicts_transpose.

Theorem C20_csv_rows : forall d exps out,
  save_experiments_csv d exps = Ok out ->
  List.length out = List.length exps /\
  forall e exp n, nth_error exps e = Some exp -> rectangular n exp ->
    exists file, nth_error out e = Some file /\
      fst file = map (fun f => Plain (uname f)) d /\
      List.length (snd file) = n /\
      forall t row, nth_error (snd file) t = Some row ->
        List.length row = List.length d /\
        forall i f, nth_error d i = Some f ->
          exists v, nth_error row i = Some v /\
            exists col, lookup (Plain (uname f)) exp = Some col /\ nth_error col t = Some v.
Proof. exact csv_entry. Qed.
Print Assumptions C20_csv_rows.

(** Well-formed input (rectangular, every declared factor present): no exception. *)
Theorem C20_conversions_total : forall d n exps,
  d <> [] ->
  (forall exp, In exp exps ->
     Forall (fun kv => List.length (snd kv) = n) exp /\
     forall f, In f d -> lookup (Plain (uname f)) exp <> None) ->
  (exists o, experiments_to_tuples d exps = Ok o) /\ (exists o, experiments_to_dicts d exps = Ok o) /\
  (exists o, save_experiments_csv d exps = Ok o).
Proof. exact conversions_total. Qed.
Print Assumptions C20_conversions_total.

(** (1) the conversions' keys are the user-declared names, none hidden;
    (2) what synthesize_trials returns has no hidden key and keeps every [str]
        column (a continuous sample replacing / extending it);
    (3) although block.design does hold a hidden factor for every weighted
        factor outside the crossings, it is not among the conversions' keys. *)
Theorem C20_hidden_never_exposed :
  (forall d, conv_keys d = map (fun f => Plain (uname f)) d /\
             Forall (fun k => is_hidden k = false) (conv_keys d)) /\
  (forall with_implied cont,
     Forall (fun kv => is_hidden (fst kv) = false) cont ->
     Forall (fun kv => is_hidden (fst kv) = false) (synth_post with_implied cont) /\
     forall s, lookup (Plain s) (synth_post with_implied cont) =
               match lookup (Plain s) (rev cont) with Some v => Some v | None => lookup (Plain s) with_implied end) /\
  (forall cr d f, In f d -> is_weighted cr f = true ->
     In (Hidden (uname f)) (block_design cr d) /\ ~ In (Hidden (uname f)) (conv_keys d)).
Proof. exact hidden_never_exposed. Qed.
Print Assumptions C20_hidden_never_exposed.

(** The hypotheses are satisfiable by a non-trivial object: a design with a
    weighted factor outside the crossing (hidden twin in block.design), a derived
    and a continuous factor, and a rectangular experiment over it. *)
Open Scope string_scope.
Definition ex_design : list ufactor :=
  [USimple "color" [1; 1]%Z; USimple "word" [2; 1]%Z; UDerived "con" ["word"]; UContinuous "rt"].
Definition ex_exp : experiment :=
  [(Plain "color", [VStr "red"; VStr "blue"]); (Plain "word", [VStr "x"; VStr "y"]);
   (Plain "con", [VStr "isx"; VStr "noty"]); (Plain "rt", [VNum 7; VNum 9])].

Example C20_example_block_design :
  block_design [["color"]] ex_design = [Plain "color"; Hidden "word"; Plain "word"; Plain "con"].
Proof. vm_compute. reflexivity. Qed.

Example C20_example_rectangular : Forall (fun kv => List.length (snd kv) = 2) ex_exp.
Proof. repeat constructor. Qed.

Example C20_example_tuples :
  experiments_to_tuples ex_design [ex_exp] =
  Ok [[[VStr "red"; VStr "x"; VStr "isx"; VNum 7]; [VStr "blue"; VStr "y"; VStr "noty"; VNum 9]]].
Proof. vm_compute. reflexivity. Qed.

Example C20_example_synth_post :
  synth_post [(Plain "color", [VStr "red"]); (Hidden "word", [VStr "x"]); (Plain "word", [VStr "x"])]
             [(Plain "rt", [VNum 7])] =
  [(Plain "color", [VStr "red"]); (Plain "word", [VStr "x"]); (Plain "rt", [VNum 7])].
Proof. vm_compute. reflexivity. Qed.
