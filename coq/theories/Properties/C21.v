(** C21 - Tabulation counts are exact.

    Model: Out/Tabulate.v (tied to /repo by harness/props/c21.py on every run).
    Reference semantics: Out/TabulateSpec.v -
      [sel_row e keys t]   the values of trial [t] (Python index, negative from
                           the end) of experiment [e] for the selected factors,
      [count e keys trials c] = number of positions of [trials] whose trial has
                           exactly the combination [c]
                           ( = length (filter (has_combo e keys c) trials) ),
      [eff_trials e trials] the given indices, by default all trials of [e],
      [valid keys trials e] every selected factor is a column of [e] and every
                           selected index is in range,
      [spec_table]         one row (combination, count, 100*count / n) per
                           combination of levels in lexicographic order. *)
From Coq Require Import ZArith List Bool String.
From SP Require Import Out.Convert Out.Tabulate Out.TabulateSpec Out.TabulateProofs.
Import ListNotations.
Local Open Scope Z_scope.

(** On every valid input the call ends without exception and prints, for every
    experiment, exactly the reference table - for any number of experiments of
    any (different) lengths, any selection of factors and any list of trial
    indices (repeats, any order, negative, empty). *)
Theorem C21_tabulate_counts : forall crossings exps factors trials,
  (forall e, In e exps -> valid (map fst factors) trials e) ->
  tabulate_experiments crossings (Some exps) (Some factors) trials =
  (map (fun e => spec_table factors e (eff_trials e trials)) exps, None).
Proof. exact tabulate_counts. Qed.
Print Assumptions C21_tabulate_counts.

(** The same when [factors] is omitted and the block has the single crossing [c]. *)
Theorem C21_tabulate_counts_default_factors : forall c exps trials,
  (forall e, In e exps -> valid (map fst c) trials e) ->
  tabulate_experiments (Some [c]) (Some exps) None trials =
  (map (fun e => spec_table c e (eff_trials e trials)) exps, None).
Proof. exact tabulate_counts_default_factors. Qed.
Print Assumptions C21_tabulate_counts_default_factors.

(** The rows of a table are exactly the combinations of levels of the selected
    factors ... *)
Theorem C21_tabulate_rows : forall factors e trials,
  map fst (spec_table factors e trials) = product (map snd factors) /\
  forall c, In c (product (map snd factors)) <-> Forall2 (fun x l => In x l) c (map snd factors).
Proof. exact spec_table_rows. Qed.
Print Assumptions C21_tabulate_rows.

(** ... each with the number of selected trials having that combination, and the
    percentage 100 * f / n as an exact rational (0 / 1 for an empty selection). *)
Theorem C21_percentage : forall factors e trials c f num den,
  In (c, (f, (num, den))) (spec_table factors e trials) ->
  let n := Z.of_nat (List.length trials) in
  f = Z.of_nat (List.length (filter (has_combo e (map fst factors) c) trials)) /\ 0 <= f <= n /\
  (0 < n -> num = 100 * f /\ den = n) /\ (n = 0 -> f = 0 /\ num = 0 /\ den = 1).
Proof. exact spec_table_row. Qed.
Print Assumptions C21_percentage.

(** The frequencies of a table sum to the number of selected trials when the
    level names of each factor are distinct and every selected value is a
    level of its factor. *)
Theorem C21_tabulate_total : forall factors e trials,
  Forall (@NoDup value) (map snd factors) ->
  (forall t, In t trials -> exists r, sel_row e (map fst factors) t = Some r /\
                                      Forall2 (fun x l => In x l) r (map snd factors)) ->
  sumZ (map (fun r => fst (snd r)) (spec_table factors e trials)) = Z.of_nat (List.length trials).
Proof. exact tabulate_total. Qed.
Print Assumptions C21_tabulate_total.

(** The hypotheses are satisfiable by non-trivial objects: two experiments of
    different lengths, a selection of two of three columns, indices with a
    repeat, out of order and negative. *)
Open Scope string_scope.
Definition ex_factors : list tfactor :=
  [(Plain "color", [VStr "red"; VStr "blue"]); (Plain "word", [VStr "x"; VStr "y"])].
Definition ex_e1 : experiment :=
  [(Plain "color", [VStr "red"; VStr "blue"; VStr "red"]); (Plain "rt", [VNum 3; VNum 4; VNum 5]);
   (Plain "word", [VStr "x"; VStr "x"; VStr "y"])].
Definition ex_e2 : experiment :=
  [(Plain "word", [VStr "y"; VStr "y"; VStr "x"; VStr "y"]);
   (Plain "color", [VStr "blue"; VStr "blue"; VStr "red"; VStr "red"])].

Example C21_example_valid : forall e, In e [ex_e1; ex_e2] -> valid (map fst ex_factors) (Some [2; 0; 0; -1]) e.
Proof.
  intros e [<-|[<-|[]]]; (split; [discriminate|]); cbn;
    intros t [<-|[<-|[<-|[<-|[]]]]]; vm_compute; discriminate.
Qed.

Example C21_example_tables :
  tabulate_experiments None (Some [ex_e1; ex_e2]) (Some ex_factors) (Some [2; 0; 0; -1]) =
  ([[([VStr "red"; VStr "x"], (2, (200, 4))); ([VStr "red"; VStr "y"], (2, (200, 4)));
     ([VStr "blue"; VStr "x"], (0, (0, 4))); ([VStr "blue"; VStr "y"], (0, (0, 4)))];
    [([VStr "red"; VStr "x"], (1, (100, 4))); ([VStr "red"; VStr "y"], (1, (100, 4)));
     ([VStr "blue"; VStr "x"], (0, (0, 4))); ([VStr "blue"; VStr "y"], (2, (200, 4)))]], None).
Proof. vm_compute. reflexivity. Qed.

Example C21_example_default_trials_per_experiment :
  map (fun t => List.length t) (fst (tabulate_experiments None (Some [ex_e1; ex_e2]) (Some ex_factors) None)) = [4%nat; 4%nat] /\
  map (fun e => eff_trials e None) [ex_e1; ex_e2] = [[0; 1; 2]; [0; 1; 2; 3]].
Proof. vm_compute. split; reflexivity. Qed.

Example C21_example_total_hypotheses :
  Forall (@NoDup value) (map snd ex_factors) /\
  forall t, In t [2; 0; 0; -1] -> exists r, sel_row ex_e1 (map fst ex_factors) t = Some r /\
                                         Forall2 (fun x l => In x l) r (map snd ex_factors).
Proof.
  split.
  - repeat constructor; cbn; intuition discriminate.
  - intros t [<-|[<-|[<-|[<-|[]]]]]; eexists; (split; [vm_compute; reflexivity|]);
      repeat (apply Forall2_cons || apply Forall2_nil); cbn; auto.
Qed.
