(** C22 - Continuous factors respect their constraints, inputs and windows.

    Model: Out/Continuous.v ([_sample_continuous], [get_window_val],
    [check_constraints], the resample loop [sample_continuous] with explicit
    fuel, the merge of [synthesize_trials]: [synthesize_post]).  The user's
    distribution functions are an arbitrary parameter
    [gen name attempt trial inputs] (the stream of draws, indexed by the attempt
    number); predicates of ContinuousConstraints are arbitrary functions.
    Specification side (written from the documentation):
    Out/ContinuousProofs.v [skipped], [doc_window], [doc_dep_input],
    [value_spec], [experiment_ok]; Out/ContinuousLive.v [attempt] (what one pass
    of the loop body does with the draws of one attempt: [Accept out] /
    [Reject] / [Raise e]), [scan], [well_ordered], [constraints_wf];
    Out/Continuous.v [needed] (the continuous factors a dependent reads).

    SAFETY ([C22_continuous_spec], [C22_window_val_*], [C22_discrete_untouched]):
    "if [synthesize_post] returns [Ok], then ...".

    LIVENESS RELATIVE TO THE DRAWS ([C22_resample_*], [C22_synthesize_live]).
    The Python loop of [Block.sample_continuous] is UNBOUNDED: it has a counter
    and [max_attempts = 10000000], but past that it only prints "exceeds max
    attempts" (the [raise RuntimeError] is commented out) and keeps sampling; it
    never raises and never gives up by itself.  So the model's [fuel] is not a
    feature of the code but the bound of whoever runs it (the harness); the
    model's [Err OutOfFuel] stands for "still looping after [fuel] attempts", and
    a genuinely unbounded run is a runtime behaviour the model cannot exhibit.
    What is proved, for every design and every stream of draws:
      - the loop is a function of the stream of verdicts alone ([C22_resample_scan]);
      - if some attempt below the fuel is accepted and no attempt before it
        raises, the loop returns [Ok] - it does not exhaust the fuel - and what it
        returns is the FIRST accepted attempt ([C22_resample_live],
        [C22_resample_first], converse [C22_resample_returns_first]);
      - it gives up iff every attempt below the fuel was rejected
        ([C22_resample_none]), and a rejected attempt really violates a
        constraint at a trial ([C22_reject_sound]);
      - an attempt that raises before any accepted one ends the loop with that
        exception ([C22_resample_raise]); on well-ordered designs with well-formed
        constraints no attempt raises ([C22_attempt_total], [C22_resample_live_wf]).
    Whether an acceptable attempt exists at all depends on the distribution and
    the constraints (it is a property of the stream, the hypothesis of the
    theorems): with an unsatisfiable constraint the Python loop runs forever.

    THE DEPENDENCY CHECK [__check_dependency] of the constructor.  An earlier
    version of this file refuted two statements about the check of the pinned
    code: [C22_dependency_check_sound_refuted] (c1 = f(ContinuousFactorWindow([c0], 2))
    declared before c0, or without c0: accepted, KeyError while sampling) and
    [C22_dependency_check_complete_refuted] (c0 = f(color), c1 = g(c0): rejected
    although every dependent is an earlier factor of the design, which the
    documentation allows).  Both witnesses were REPLAYED ON THE REAL CODE,
    reproduced there, and the code was REPAIRED: commits 91e3c5c "fix: a continuous
    factor that depends only on discrete factors could not be a dependency of a
    later one" and 97de4ab "fix: continuous factors read through a window were not
    checked to be in the design".  The model follows the repaired check, and the
    two statements are now theorems: [C22_dependency_check_sound] (an accepted
    design never raises while sampling and yields T values per factor),
    [C22_dependency_check_complete] (every design whose continuous dependents,
    direct or through windows, are earlier continuous factors of the design is
    accepted), together [C22_dependency_check_exact]; the two witnesses are the
    [Example C22_example_witnesses_repaired].  One degenerate input is still
    accepted and raises: a window over an empty list of factors
    ([C22_dependency_check_empty_window_refuted]; replayed: IndexError). *)
From Coq Require Import ZArith List Bool String.
From SP Require Import Out.Continuous Out.ContinuousProofs Out.ContinuousLive Out.ContinuousDeps.
Import ListNotations.
Open Scope Z_scope.

(** For any distribution functions, any predicates, any number of factors,
    trials, experiments and attempts: every returned experiment [m] (paired
    with the discrete sample [tr] it was merged into) has, for the accepted
    attempt [att], exactly [T] values per continuous factor, satisfies every
    ContinuousConstraint predicate at every trial, and each value is the
    distribution function applied to the documented inputs of the same trial of
    the same returned sequence ([doc_dep_input]: the discrete level / the
    continuous value of that trial / the documented window [doc_window] of [m]);
    in cumulative mode the function result is added to the previous value of
    the same sequence (0 before the first trial). *)
Theorem C22_continuous_spec :
  forall (gen : string -> nat -> nat -> list input -> val)
         (T : nat) (fs : list cfactor) (cs : list bconstraint) (fuel : nat)
         (trialss : list dict) (res : list (dict * nat)) (log : list call),
  fs <> [] -> NoDup (map cf_name fs) ->
  synthesize_post gen T fs cs fuel trialss = Ok (res, log) ->
  Forall2
    (fun (tr : dict) (ma : dict * nat) =>
       let m := fst ma in
       exists att, snd ma = S att /\
         (forall f, In f fs -> exists vs, get m (cf_name f) = Some vs /\ List.length vs = T) /\
         (forall c, In c (continuous_constraints cs) -> forall i, (i < T)%nat ->
            cc_pred c (map (fun n => nth i (getd m n) VNaN) (cc_factors c)) = true) /\
         (forall f, In f fs -> forall i, (i < T)%nat ->
            let vs := getd m (cf_name f) in
            let r := gen (cf_name f) att i (map (doc_dep_input tr m i) (cf_deps f)) in
            if cf_cumulative f then add_val (prev_sum vs i) r = Ok (nth i vs VNaN)
            else nth i vs VNaN = r))
    trialss res.
Proof. exact continuous_spec. Qed.
Print Assumptions C22_continuous_spec.

(** [get_window_val] per index, for one factor whose values so far are [l]:
    the result is [doc_window]; it is NaN-filled iff [idx < start] or the
    stride skips [idx] (and then nothing is read); otherwise entry [-k] is the
    value [k] trials earlier in the same sequence, NaN exactly for the positions
    before trial 0, which exist iff [idx < width - 1]; else it is the [width]
    preceding values. *)
Theorem C22_window_val_spec : forall w idx d f l,
  0 <= idx -> get d f = Some l -> idx < Z.of_nat (List.length l) ->
  window_factor w idx d f = Ok (doc_window w idx l) /\
  List.length (doc_window w idx l) = Z.to_nat (w_width w) /\
  (skipped w idx = true <->
   idx < w_start w \/ (1 < w_stride w /\ (idx - w_start w) mod (w_stride w) <> 0)) /\
  (skipped w idx = true ->
   doc_window w idx l = return_nan w /\ forall d' f', window_factor w idx d' f' = Ok (return_nan w)) /\
  (skipped w idx = false -> forall k, 0 <= k < w_width w ->
   nth_error (doc_window w idx l) (Z.to_nat k)
   = Some (- k, if idx - k <? 0 then VNaN else nth (Z.to_nat (idx - k)) l VNaN)) /\
  ((exists k, 0 <= k < w_width w /\ idx - k < 0) <-> idx < w_width w - 1).
Proof. exact window_val_spec. Qed.
Print Assumptions C22_window_val_spec.

(** One dict for a window over a single factor, the list of dicts for several,
    IndexError for a window without factors. *)
Theorem C22_window_val_shape : forall w idx d,
  0 <= idx ->
  (forall f, In f (w_factors w) -> exists l, get d f = Some l /\ idx < Z.of_nat (List.length l)) ->
  get_window_val w idx d =
  match w_factors w with
  | [] => Err IndexError
  | [f] => Ok (IWin (doc_window w idx (getd d f)))
  | fs => Ok (IWins (map (fun f => doc_window w idx (getd d f)) fs))
  end.
Proof. exact window_val_shape. Qed.
Print Assumptions C22_window_val_shape.

(** The merge changes no discrete column: every key that is not the name of a
    continuous factor has the column the sampler produced; if no continuous
    factor is named like a key of the sample, the returned dict is literally
    the sample followed by the continuous columns in design order. *)
Theorem C22_discrete_untouched :
  forall (gen : string -> nat -> nat -> list input -> val)
         (T : nat) (fs : list cfactor) (cs : list bconstraint) (fuel : nat)
         (trialss : list dict) (res : list (dict * nat)) (log : list call),
  NoDup (map cf_name fs) ->
  synthesize_post gen T fs cs fuel trialss = Ok (res, log) ->
  Forall2
    (fun (tr : dict) (ma : dict * nat) =>
       (forall k, ~ In k (map cf_name fs) -> get (fst ma) k = get tr k) /\
       ((forall k, In k (map cf_name fs) -> get tr k = None) ->
        exists out, fst ma = tr ++ out /\ map fst out = map cf_name fs))
    trialss res.
Proof. exact discrete_untouched. Qed.
Print Assumptions C22_discrete_untouched.

(** * The resample loop: liveness relative to the stream of draws *)

(** The loop is a function of the stream of verdicts [fun a => attempt ... a]
    alone: [scan] returns the first attempt that is not rejected. *)
Theorem C22_resample_scan :
  forall (gen : string -> nat -> nat -> list input -> val)
         (T : nat) (trial : dict) (fs : list cfactor) (cs : list bconstraint) (fuel a : nat) (log : list call),
  (match sample_continuous gen T trial fs cs fuel a log with
   | Ok (out, a', _) => Ok (out, a')
   | Err e => Err e
   end) = scan (attempt gen T trial fs cs) fuel a.
Proof. exact resample_scan. Qed.
Print Assumptions C22_resample_scan.

(** Liveness: for every design and draw stream, if some attempt [a + n] with
    [n < fuel] yields values satisfying every constraint and no earlier attempt
    raises, the loop returns [Ok] (it does not exhaust the fuel), and it returns
    the first accepted attempt [a + n0]: everything before it was rejected. *)
Theorem C22_resample_live :
  forall (gen : string -> nat -> nat -> list input -> val)
         (T : nat) (trial : dict) (fs : list cfactor) (cs : list bconstraint) (fuel a : nat) (log : list call),
  (exists n, (n < fuel)%nat /\ (exists out, attempt gen T trial fs cs (a + n) = Accept out) /\
             forall m, (m < n)%nat -> forall e, attempt gen T trial fs cs (a + m) <> Raise e) ->
  exists n0 out log', (n0 < fuel)%nat /\
    attempt gen T trial fs cs (a + n0) = Accept out /\
    (forall m, (m < n0)%nat -> attempt gen T trial fs cs (a + m) = Reject) /\
    sample_continuous gen T trial fs cs fuel a log = Ok (out, S (a + n0), log').
Proof. exact resample_live. Qed.
Print Assumptions C22_resample_live.

(** The first accepted attempt is what the loop returns (so the result is a
    deterministic function of the stream) ... *)
Theorem C22_resample_first :
  forall (gen : string -> nat -> nat -> list input -> val)
         (T : nat) (trial : dict) (fs : list cfactor) (cs : list bconstraint) (fuel a : nat) (log : list call)
         (n : nat) (out : dict),
  (n < fuel)%nat ->
  (forall m, (m < n)%nat -> attempt gen T trial fs cs (a + m) = Reject) ->
  attempt gen T trial fs cs (a + n) = Accept out ->
  exists log', sample_continuous gen T trial fs cs fuel a log = Ok (out, S (a + n), log').
Proof. exact resample_first. Qed.
Print Assumptions C22_resample_first.

(** ... and whatever the loop returns is the first accepted attempt. *)
Theorem C22_resample_returns_first :
  forall (gen : string -> nat -> nat -> list input -> val)
         (T : nat) (trial : dict) (fs : list cfactor) (cs : list bconstraint) (fuel a : nat) (log : list call)
         (out : dict) (a' : nat) (log' : list call),
  sample_continuous gen T trial fs cs fuel a log = Ok (out, a', log') ->
  exists n, (n < fuel)%nat /\ a' = S (a + n) /\ attempt gen T trial fs cs (a + n) = Accept out /\
            forall m, (m < n)%nat -> attempt gen T trial fs cs (a + m) = Reject.
Proof. exact resample_ok_inv. Qed.
Print Assumptions C22_resample_returns_first.

(** The model gives up iff every attempt below the fuel was rejected: if it
    returns "none" no attempt below the fuel was acceptable (nor raised). *)
Theorem C22_resample_none :
  forall (gen : string -> nat -> nat -> list input -> val)
         (T : nat) (trial : dict) (fs : list cfactor) (cs : list bconstraint) (fuel a : nat) (log : list call),
  sample_continuous gen T trial fs cs fuel a log = Err OutOfFuel <->
  forall m, (m < fuel)%nat -> attempt gen T trial fs cs (a + m) = Reject.
Proof. exact resample_none. Qed.
Print Assumptions C22_resample_none.

(** A rejected attempt violates a ContinuousConstraint at some trial of the
    values it sampled: the loop discards nothing acceptable. *)
Theorem C22_reject_sound :
  forall (gen : string -> nat -> nat -> list input -> val)
         (T : nat) (trial : dict) (fs : list cfactor) (cs : list bconstraint) (a : nat),
  NoDup (map cf_name fs) ->
  attempt gen T trial fs cs a = Reject ->
  exists out log c i, _sample_continuous gen T trial fs a [] = Ok (out, log) /\
    In c (continuous_constraints cs) /\ (i < T)%nat /\
    cc_pred c (map (fun n => nth i (getd out n) VNaN) (cc_factors c)) = false.
Proof. exact reject_sound. Qed.
Print Assumptions C22_reject_sound.

(** An attempt that raises before any accepted one ends the loop with that
    exception (as in Python, where it propagates out of [sample_continuous]). *)
Theorem C22_resample_raise :
  forall (gen : string -> nat -> nat -> list input -> val)
         (T : nat) (trial : dict) (fs : list cfactor) (cs : list bconstraint) (fuel a : nat) (log : list call)
         (n : nat) (e : err),
  (n < fuel)%nat ->
  (forall m, (m < n)%nat -> attempt gen T trial fs cs (a + m) = Reject) ->
  attempt gen T trial fs cs (a + n) = Raise e ->
  sample_continuous gen T trial fs cs fuel a log = Err e.
Proof. exact resample_raise. Qed.
Print Assumptions C22_resample_raise.

(** On a well-ordered design (discrete dependents are columns of the sample,
    continuous dependents and the factors of non-empty windows are earlier
    factors) with well-formed constraints (non-empty, over continuous factors of
    the design) no attempt raises - in cumulative mode as long as the function
    returns no string. *)
Theorem C22_attempt_total :
  forall (gen : string -> nat -> nat -> list input -> val)
         (T : nat) (trial : dict) (fs : list cfactor) (cs : list bconstraint) (a : nat),
  NoDup (map cf_name fs) -> well_ordered T trial fs -> constraints_wf fs cs ->
  (forall f, In f fs -> cf_cumulative f = true -> forall a i inp t, gen (cf_name f) a i inp <> VStr t) ->
  forall e, attempt gen T trial fs cs a <> Raise e.
Proof. exact attempt_total. Qed.
Print Assumptions C22_attempt_total.

(** ... hence on such designs: some acceptable attempt below the fuel ->
    the loop returns the first acceptable attempt. *)
Theorem C22_resample_live_wf :
  forall (gen : string -> nat -> nat -> list input -> val)
         (T : nat) (trial : dict) (fs : list cfactor) (cs : list bconstraint) (fuel a : nat) (log : list call),
  NoDup (map cf_name fs) -> well_ordered T trial fs -> constraints_wf fs cs ->
  (forall f, In f fs -> cf_cumulative f = true -> forall a i inp t, gen (cf_name f) a i inp <> VStr t) ->
  (exists n out, (n < fuel)%nat /\ attempt gen T trial fs cs (a + n) = Accept out) ->
  exists n0 out log', (n0 < fuel)%nat /\
    attempt gen T trial fs cs (a + n0) = Accept out /\
    (forall m, (m < n0)%nat -> attempt gen T trial fs cs (a + m) = Reject) /\
    sample_continuous gen T trial fs cs fuel a log = Ok (out, S (a + n0), log').
Proof. exact resample_live_wf. Qed.
Print Assumptions C22_resample_live_wf.

(** The continuous part of [synthesize_trials] returns when, for every sampled
    sequence, every run of [fuel] consecutive attempts holds an accepted one with
    no raising attempt before it. *)
Theorem C22_synthesize_live :
  forall (gen : string -> nat -> nat -> list input -> val)
         (T : nat) (fs : list cfactor) (cs : list bconstraint) (fuel : nat) (trialss : list dict),
  (forall tr a0, In tr trialss ->
     exists n, (n < fuel)%nat /\ (exists out, attempt gen T tr fs cs (a0 + n) = Accept out) /\
               forall m, (m < n)%nat -> forall e, attempt gen T tr fs cs (a0 + m) <> Raise e) ->
  exists res log, synthesize_post gen T fs cs fuel trialss = Ok (res, log).
Proof. exact synth_live. Qed.
Print Assumptions C22_synthesize_live.

(** * The dependency check of the constructor *)

(** EXACTLY what [__check_dependency] accepts: every continuous factor [n] a
    factor needs - a direct ContinuousFactor dependent, or a factor of one of its
    windows ([needed]) - is an earlier continuous factor of the design. *)
Theorem C22_dependency_check_exact : forall fs,
  check_dependency fs = true <->
  forall pre f post d n, fs = pre ++ f :: post -> In d (cf_deps f) -> In n (needed d) ->
    In n (map cf_name pre).
Proof. exact dependency_check_exact. Qed.
Print Assumptions C22_dependency_check_exact.

(** Corollary (statement unchanged from the pinned code's check): a direct
    continuous dependent of an accepted design is an earlier factor of the design. *)
Theorem C22_dependency_check_direct : forall fs pre f post n,
  check_dependency fs = true -> fs = pre ++ f :: post -> In (DCont n) (cf_deps f) ->
  In n (map cf_name pre) \/ n = cf_name f.
Proof. exact dependency_check_partial. Qed.
Print Assumptions C22_dependency_check_direct.

(** SOUND (formerly [..._sound_refuted]): an accepted design never raises while
    sampling and yields [T] values per factor.  Each remaining hypothesis is
    necessary: distinct names; no window over an empty list of factors (see
    [C22_dependency_check_empty_window_refuted]); the discrete dependents are
    columns of the sampled trials (the block's design, not this check); in
    cumulative mode the function returns no string. *)
Theorem C22_dependency_check_sound :
  forall (gen : string -> nat -> nat -> list input -> val)
         (T : nat) (trial : dict) (fs : list cfactor) (a : nat) (log : list call),
  NoDup (map cf_name fs) -> check_dependency fs = true ->
  (forall f w, In f fs -> In (DWin w) (cf_deps f) -> w_factors w <> []) ->
  (forall f n, In f fs -> In (DDisc n) (cf_deps f) -> exists l, get trial n = Some l /\ (T <= List.length l)%nat) ->
  (forall f, In f fs -> cf_cumulative f = true -> forall a i inp t, gen (cf_name f) a i inp <> VStr t) ->
  exists out log', _sample_continuous gen T trial fs a log = Ok (out, log') /\
    forall f, In f fs -> exists vs, get out (cf_name f) = Some vs /\ List.length vs = T.
Proof. exact dependency_check_sound. Qed.
Print Assumptions C22_dependency_check_sound.

(** ... and with well-formed constraints no attempt of the resample loop raises
    on an accepted design (so [C22_resample_live] applies with its "no earlier
    attempt raises" hypothesis discharged). *)
Theorem C22_accepted_attempt_total :
  forall (gen : string -> nat -> nat -> list input -> val)
         (T : nat) (trial : dict) (fs : list cfactor) (cs : list bconstraint) (a : nat),
  NoDup (map cf_name fs) -> check_dependency fs = true ->
  (forall f w, In f fs -> In (DWin w) (cf_deps f) -> w_factors w <> []) ->
  (forall f n, In f fs -> In (DDisc n) (cf_deps f) -> exists l, get trial n = Some l /\ (T <= List.length l)%nat) ->
  (forall f, In f fs -> cf_cumulative f = true -> forall a i inp t, gen (cf_name f) a i inp <> VStr t) ->
  constraints_wf fs cs ->
  forall e, attempt gen T trial fs cs a <> Raise e.
Proof. exact accepted_attempt_total. Qed.
Print Assumptions C22_accepted_attempt_total.

(** COMPLETE (formerly [..._complete_refuted]): every design whose continuous
    dependents, direct or through windows, are earlier continuous factors of the
    design is accepted. *)
Theorem C22_dependency_check_complete : forall fs,
  (forall pre f post n, fs = pre ++ f :: post -> In (DCont n) (cf_deps f) -> In n (map cf_name pre)) ->
  (forall pre f post w g, fs = pre ++ f :: post -> In (DWin w) (cf_deps f) -> In g (w_factors w) ->
     In g (map cf_name pre)) ->
  check_dependency fs = true.
Proof. exact dependency_check_complete. Qed.
Print Assumptions C22_dependency_check_complete.

(** Statement that is still FALSE: "an accepted design never raises while
    sampling" without the hypothesis on windows.  Witness:
    c0 = f(ContinuousFactorWindow([], 2)): accepted, [get_window_val] raises
    IndexError ([outlist[0]]).  Replayed on the code: the CrossBlock is
    constructed, synthesize_trials raises IndexError('list index out of range'). *)
Theorem C22_dependency_check_empty_window_refuted :
  exists fs T trial, NoDup (map cf_name fs) /\ check_dependency fs = true /\
    forall gen a, _sample_continuous gen T trial fs a [] = Err IndexError.
Proof. exact dependency_check_empty_window_refuted. Qed.
Print Assumptions C22_dependency_check_empty_window_refuted.

(** The two former refutation witnesses under the repaired check: the window
    over a later factor is rejected by the constructor (sampling it would still
    raise KeyError); the chain c0 = f(color), c1 = g(c0) is accepted and sampled. *)
Example C22_example_witnesses_repaired :
  (NoDup (map cf_name later_window_design) /\ check_dependency later_window_design = false /\
   forall gen a, _sample_continuous gen 2 [] later_window_design a [] = Err KeyError) /\
  (NoDup (map cf_name chain_design) /\ check_dependency chain_design = true /\
   exists out log, _sample_continuous (fun _ _ _ _ => VNum 1) 2 [("color"%string, [VStr "r"; VStr "b"])]
                                      chain_design O [] = Ok (out, log)).
Proof. split; [exact later_window_design_rejected|exact chain_design_accepted]. Qed.

(** The hypotheses are satisfiable by a non-trivial object: four continuous
    factors (independent; window of width 2; cumulative; discrete + continuous
    dependents), a ContinuousConstraint that rejects the first attempt, two
    experiments of three trials. *)
Example C22_example_runs :
  ex_fs <> [] /\ NoDup (map cf_name ex_fs) /\
  exists log, synthesize_post ex_gen 3 ex_fs ex_cs 5 ex_trials = Ok (ex_result, log).
Proof. split; [discriminate|]. split; [exact ex_names_nodup|exact ex_runs]. Qed.

(** The hypotheses of the liveness / totality / dependency theorems hold of the
    same design: it is well ordered, its constraint is well formed, its functions
    return no string, the dependency check accepts it; on the first sampled
    sequence attempt 0 is rejected and attempt 1 accepted - so with fuel 5 the
    loop returns attempt 1. *)
Example C22_example_live :
  (forall tr, In tr ex_trials -> well_ordered 3 tr ex_fs) /\ constraints_wf ex_fs ex_cs /\
  (forall name a i inp t, ex_gen name a i inp <> VStr t) /\
  check_dependency ex_fs = true /\
  attempt ex_gen 3 (hd [] ex_trials) ex_fs ex_cs 0 = Reject /\
  exists out, attempt ex_gen 3 (hd [] ex_trials) ex_fs ex_cs 1 = Accept out.
Proof.
  split; [exact ex_well_ordered|]. split; [exact ex_constraints_wf|]. split; [exact ex_gen_nostr|].
  split; [exact ex_check_dependency|].
  split; [exact (proj1 ex_attempts)|]. eexists. exact (proj2 ex_attempts).
Qed.

Example C22_example_window :
  (* width 3, stride 2, start 1 over rt = 10, 11, 12, 13 *)
  map (fun idx => get_window_val ex_window idx ex_dict) [0; 1; 2; 3]
  = [ Ok (IWin [(0, VNaN); (-1, VNaN); (-2, VNaN)]);          (* before start *)
      Ok (IWin [(0, VNum 11); (-1, VNum 10); (-2, VNaN)]);    (* reaches before trial 0 *)
      Ok (IWin [(0, VNaN); (-1, VNaN); (-2, VNaN)]);          (* skipped by the stride *)
      Ok (IWin [(0, VNum 13); (-1, VNum 12); (-2, VNum 11)]) ].
Proof. reflexivity. Qed.
