(** C22 - Continuous factors respect their constraints, inputs and windows.

    Model: Out/Continuous.v ([_sample_continuous], [get_window_val],
    [check_constraints], the resample loop [sample_continuous] with explicit
    fuel, the merge of [synthesize_trials]: [synthesize_post]).  The user's
    distribution functions are an arbitrary parameter
    [gen name attempt trial inputs]; predicates of ContinuousConstraints are
    arbitrary functions.  Specification side (Out/ContinuousProofs.v, written
    from the documentation): [skipped], [doc_window], [doc_dep_input],
    [value_spec], [experiment_ok].

    SCOPE: safety only.  Whether the resample loop ever returns (liveness)
    depends on the distribution and is OUT OF SCOPE (partial): the Python loop
    is unbounded, the model takes fuel, and every statement below has the form
    "if [synthesize_post] returns [Ok], then ...".

    Also here: what [__check_dependency] guarantees ([C22_dependency_check_partial])
    and the two statements about it that are false of the model (and of the
    code): [..._sound_refuted], [..._complete_refuted]. *)
From Coq Require Import ZArith List Bool String.
From SP Require Import Out.Continuous Out.ContinuousProofs.
Import ListNotations.
Open Scope Z_scope.

(** For any distribution functions, any predicates, any number of factors,
    trials, experiments and attempts: every returned experiment [m] (paired
    with the discrete sample [tr] it was merged into) has, for the accepted
    attempt [att], exactly [T] values per continuous factor, satisfies every
    ContinuousConstraint predicate at every trial, and each value is the
    distribution function applied to the documented inputs of the same trial of
    the same returned sequence ([doc_dep_input]: the discrete level / the
    continuous value of that trial / the documented window [doc_window] of [m]);
    in cumulative mode the function result is added to the previous value of
    the same sequence (0 before the first trial). *)
Theorem C22_continuous_spec :
  forall (gen : string -> nat -> nat -> list input -> val)
         (T : nat) (fs : list cfactor) (cs : list bconstraint) (fuel : nat)
         (trialss : list dict) (res : list (dict * nat)) (log : list call),
  fs <> [] -> NoDup (map cf_name fs) ->
  synthesize_post gen T fs cs fuel trialss = Ok (res, log) ->
  Forall2
    (fun (tr : dict) (ma : dict * nat) =>
       let m := fst ma in
       exists att, snd ma = S att /\
         (forall f, In f fs -> exists vs, get m (cf_name f) = Some vs /\ List.length vs = T) /\
         (forall c, In c (continuous_constraints cs) -> forall i, (i < T)%nat ->
            cc_pred c (map (fun n => nth i (getd m n) VNaN) (cc_factors c)) = true) /\
         (forall f, In f fs -> forall i, (i < T)%nat ->
            let vs := getd m (cf_name f) in
            let r := gen (cf_name f) att i (map (doc_dep_input tr m i) (cf_deps f)) in
            if cf_cumulative f then add_val (prev_sum vs i) r = Ok (nth i vs VNaN)
            else nth i vs VNaN = r))
    trialss res.
Proof. exact continuous_spec. Qed.
Print Assumptions C22_continuous_spec.

(** [get_window_val] per index, for one factor whose values so far are [l]:
    the result is [doc_window]; it is NaN-filled iff [idx < start] or the
    stride skips [idx] (and then nothing is read); otherwise entry [-k] is the
    value [k] trials earlier in the same sequence, NaN exactly for the positions
    before trial 0, which exist iff [idx < width - 1]; else it is the [width]
    preceding values. *)
Theorem C22_window_val_spec : forall w idx d f l,
  0 <= idx -> get d f = Some l -> idx < Z.of_nat (List.length l) ->
  window_factor w idx d f = Ok (doc_window w idx l) /\
  List.length (doc_window w idx l) = Z.to_nat (w_width w) /\
  (skipped w idx = true <->
   idx < w_start w \/ (1 < w_stride w /\ (idx - w_start w) mod (w_stride w) <> 0)) /\
  (skipped w idx = true ->
   doc_window w idx l = return_nan w /\ forall d' f', window_factor w idx d' f' = Ok (return_nan w)) /\
  (skipped w idx = false -> forall k, 0 <= k < w_width w ->
   nth_error (doc_window w idx l) (Z.to_nat k)
   = Some (- k, if idx - k <? 0 then VNaN else nth (Z.to_nat (idx - k)) l VNaN)) /\
  ((exists k, 0 <= k < w_width w /\ idx - k < 0) <-> idx < w_width w - 1).
Proof. exact window_val_spec. Qed.
Print Assumptions C22_window_val_spec.

(** One dict for a window over a single factor, the list of dicts for several,
    IndexError for a window without factors. *)
Theorem C22_window_val_shape : forall w idx d,
  0 <= idx ->
  (forall f, In f (w_factors w) -> exists l, get d f = Some l /\ idx < Z.of_nat (List.length l)) ->
  get_window_val w idx d =
  match w_factors w with
  | [] => Err IndexError
  | [f] => Ok (IWin (doc_window w idx (getd d f)))
  | fs => Ok (IWins (map (fun f => doc_window w idx (getd d f)) fs))
  end.
Proof. exact window_val_shape. Qed.
Print Assumptions C22_window_val_shape.

(** The merge changes no discrete column: every key that is not the name of a
    continuous factor has the column the sampler produced; if no continuous
    factor is named like a key of the sample, the returned dict is literally
    the sample followed by the continuous columns in design order. *)
Theorem C22_discrete_untouched :
  forall (gen : string -> nat -> nat -> list input -> val)
         (T : nat) (fs : list cfactor) (cs : list bconstraint) (fuel : nat)
         (trialss : list dict) (res : list (dict * nat)) (log : list call),
  NoDup (map cf_name fs) ->
  synthesize_post gen T fs cs fuel trialss = Ok (res, log) ->
  Forall2
    (fun (tr : dict) (ma : dict * nat) =>
       (forall k, ~ In k (map cf_name fs) -> get (fst ma) k = get tr k) /\
       ((forall k, In k (map cf_name fs) -> get tr k = None) ->
        exists out, fst ma = tr ++ out /\ map fst out = map cf_name fs))
    trialss res.
Proof. exact discrete_untouched. Qed.
Print Assumptions C22_discrete_untouched.

(** What the constructor's [__check_dependency] guarantees: a direct
    continuous dependent of an accepted design is an earlier factor of the
    design (or the factor itself after another continuous dependent, which
    Python cannot construct). *)
Theorem C22_dependency_check_partial : forall fs pre f post n,
  check_dependency fs = true -> fs = pre ++ f :: post -> In (DCont n) (cf_deps f) ->
  In n (map cf_name pre) \/ n = cf_name f.
Proof. exact dependency_check_partial. Qed.
Print Assumptions C22_dependency_check_partial.

(** Full statement that is FALSE: "an accepted design never raises while
    sampling".  Witness: c1 = f(ContinuousFactorWindow([c0], 2)) declared
    before c0 (or without c0): accepted, [_sample_continuous] raises KeyError. *)
Theorem C22_dependency_check_sound_refuted :
  exists fs T trial, NoDup (map cf_name fs) /\ check_dependency fs = true /\
    forall gen a, _sample_continuous gen T trial fs a [] = Err KeyError.
Proof. exact dependency_check_sound_refuted. Qed.
Print Assumptions C22_dependency_check_sound_refuted.

(** Full statement that is FALSE: "a design whose dependents are all earlier
    factors of the design is accepted".  Witness: c0 = f(color), c1 = g(c0):
    rejected although sampling it is well defined. *)
Theorem C22_dependency_check_complete_refuted :
  exists fs T trial gen, NoDup (map cf_name fs) /\ check_dependency fs = false /\
    exists out log, _sample_continuous gen T trial fs O [] = Ok (out, log).
Proof. exact dependency_check_complete_refuted. Qed.
Print Assumptions C22_dependency_check_complete_refuted.

(** The hypotheses are satisfiable by a non-trivial object: four continuous
    factors (independent; window of width 2; cumulative; discrete + continuous
    dependents), a ContinuousConstraint that rejects the first attempt, two
    experiments of three trials. *)
Example C22_example_runs :
  ex_fs <> [] /\ NoDup (map cf_name ex_fs) /\
  exists log, synthesize_post ex_gen 3 ex_fs ex_cs 5 ex_trials = Ok (ex_result, log).
Proof. split; [discriminate|]. split; [exact ex_names_nodup|exact ex_runs]. Qed.

Example C22_example_window :
  (* width 3, stride 2, start 1 over rt = 10, 11, 12, 13 *)
  map (fun idx => get_window_val ex_window idx ex_dict) [0; 1; 2; 3]
  = [ Ok (IWin [(0, VNaN); (-1, VNaN); (-2, VNaN)]);          (* before start *)
      Ok (IWin [(0, VNum 11); (-1, VNum 10); (-2, VNaN)]);    (* reaches before trial 0 *)
      Ok (IWin [(0, VNaN); (-1, VNaN); (-2, VNaN)]);          (* skipped by the stride *)
      Ok (IWin [(0, VNum 13); (-1, VNum 12); (-2, VNum 11)]) ].
Proof. reflexivity. Qed.
