(** C23 - Weighted levels behave as documented.

    The theorems are about Front/Desugar.v, the model of the weight desugaring
    ([_desugar_factors_with_weights], [desugar_weights], [desugar_for_weights]) and of
    the crossing-weight arithmetic ([combination_weight],
    [crossing_size_without_exclusions]).  harness/props/c23.py checks on every run that
    the real code produces literally the design / crossings / weights the model
    produces, and decides the property itself on exhausted solution sets (crossed
    weights against the reference oracle; uncrossed weights against the twin program
    with separately named copies).

    [combo_weights design c]    weight of every combination of crossing [c] (itertools.product order)
    [crossing_size_wo design c] crossing_size_without_exclusions(c)
    [flat_factor f] / [hidden_factor f p]  the two replacements of a desugared factor:
        the non-derived one with [weight] same-named levels per level, and the derived one
        (HiddenName) whose level [n] has the predicate [lambda x: x == n] over the flat factor
    [hidden_accepts n x]        that predicate. *)
From Coq Require Import List Bool Arith String.
From SP Require Import Design.Sem Front.Desugar Front.DesugarProofs Front.NestSem Front.DesugarSem.
Import ListNotations.

(** Crossing size and per-combination multiplicity: a combination's weight is the
    product of its level weights - so a level of weight [w] makes every combination
    containing it count [w] times what it would with weight 1 - and the crossing size
    is the sum of the combination weights. *)
Theorem C23_weight_multiplicity :
  (forall w ws, combination_weight (w :: ws) = w * combination_weight ws) /\
  combination_weight [] = 1 /\
  (forall ws1 w ws2, combination_weight (ws1 ++ w :: ws2) = w * combination_weight (ws1 ++ 1 :: ws2)) /\
  (forall design c, (forall i, In i c -> nth_error design i <> None) ->
     sum_list (combo_weights design c) = crossing_size_wo design c).
Proof. exact weight_multiplicity. Qed.
Print Assumptions C23_weight_multiplicity.

(** Desugaring: the hidden derived factor has exactly the original level names, and every
    level of the flat factor is reported under exactly one of them, the name it copies. *)
Theorem C23_desugar_names :
  forall f p,
    (map fst (wf_levels (hidden_factor f p)) = map fst (wf_levels f)) /\
    (forall l, In l (flat_levels f) ->
       In (fst l) (map fst (wf_levels (hidden_factor f p))) /\
       forall h, In h (map fst (wf_levels (hidden_factor f p))) -> (hidden_accepts h (fst l) = true <-> h = fst l)).
Proof. exact desugar_names. Qed.
Print Assumptions C23_desugar_names.

(** ... and the original level [n] of weight [w] is reported for exactly [w] levels of the
    flat factor: weight w = w separately chosen copies reported under the original name. *)
Theorem C23_desugar_multiplicity :
  forall f n w,
    NoDup (map fst (wf_levels f)) -> In (n, w) (wf_levels f) ->
    List.length (filter (fun l => hidden_accepts n (fst l)) (flat_levels f)) = w.
Proof. exact desugar_multiplicity. Qed.
Print Assumptions C23_desugar_multiplicity.

(** The same in terms of the reference semantics (Design/Sem.v; definitions in Front/DesugarSem.v).
    [S] is the normal form of the design with its weighted factor [f] ([length ws] levels of
    weights [ws]); its desugared normal form is [widen f (list_sum ws) S] - one level per copy -
    and [proj_seq f ws] replaces every copy in row [f] by its original level [orig ws c]
    (c23.py compares [widen] / [orig] with the documented normal form of the twin program with
    separately named copies on every run).  Guard [free_b S f] (boolean): [f] is non-derived with
    sustain count 1, in no crossing, named by no constraint, read by no derived factor, and [S]
    has no LatinSquare constraint. *)

(** every original level [l] has exactly [weight l] copies *)
Theorem C23_copies_of_level :
  forall ws l, List.length (filter (fun c => Nat.eqb (orig ws c) l) (seq 0 (list_sum ws))) = nth l ws 0.
Proof. exact copies_of_level. Qed.
Print Assumptions C23_copies_of_level.

(** a sequence of the desugared form is valid iff its image under the copy -> original map is
    valid for the original form and its copies exist: the map sends valid sequences to valid
    sequences, and every in-range pre-image of a valid sequence is valid *)
Theorem C23_desugared_valid :
  forall S f ws s fd,
    free_b S f = true -> nth_error (s_factors S) f = Some fd -> List.length ws = f_nlevels fd ->
    (valid_b (widen f (list_sum ws) S) s = true <->
     valid_b S (proj_seq f ws s) = true /\ in_range (list_sum ws) (nth f s [])).
Proof. exact desugared_valid. Qed.
Print Assumptions C23_desugared_valid.

(** the fibre over a valid sequence [s] whose row for [f] is [r]: among the rows [w] of copies,
    exactly those with [map (orig ws) w = r] give a valid sequence of the desugared form lying over [s] ... *)
Theorem C23_desugared_fibre :
  forall S f ws s fd r w,
    free_b S f = true -> nth_error (s_factors S) f = Some fd -> List.length ws = f_nlevels fd ->
    valid_b S s = true -> f < List.length s -> nth f s [] = map Some r ->
    In w (all_words (list_sum ws) (List.length r)) ->
    (proj_seq f ws (with_row f w s) = s /\ valid_b (widen f (list_sum ws) S) (with_row f w s) = true
     <-> row_matches ws r w = true).
Proof. exact desugared_fibre. Qed.
Print Assumptions C23_desugared_fibre.

(** ... and there are exactly (product of the weights of the chosen levels) of them: the
    multiplicity a without-replacement sampler shows for the name-level sequence *)
Theorem C23_row_fibre :
  forall ws r,
    List.length (filter (row_matches ws r) (all_words (list_sum ws) (List.length r)))
    = fold_right (fun l acc => nth l ws 0 * acc) 1 r.
Proof. exact row_fibre. Qed.
Print Assumptions C23_row_fibre.

(** The guard is met by W = [w0 x 2, w1] outside the crossing [B] (2 trials): 8 valid sequences,
    18 in the desugared form; w0,w0 has 4 pre-images, w0,w1 has 2, w1,w1 has 1. *)
Example C23_example_sem :
  free_b ex_orig_sem 0 = true /\
  List.length (all_valid ex_orig_sem) = 8 /\ List.length (all_valid (widen 0 (list_sum [2; 1]) ex_orig_sem)) = 18 /\
  map (orig [2; 1]) [0; 1; 2] = [0; 0; 1] /\
  List.length (filter (row_matches [2; 1] [0; 0]) (all_words 3 2)) = 4 /\
  List.length (filter (row_matches [2; 1] [0; 1]) (all_words 3 2)) = 2 /\
  List.length (filter (row_matches [2; 1] [1; 1]) (all_words 3 2)) = 1.
Proof. exact ex_free. Qed.

(** Which factors are desugared: none if no weighted non-derived factor lies outside every
    crossing; and never a factor that is in some crossing. *)
Theorem C23_desugar_noop :
  forall design crossings,
    weighted_positions design crossings = [] -> desugar design crossings = (design, crossings).
Proof. exact desugar_noop. Qed.
Print Assumptions C23_desugar_noop.

Theorem C23_in_a_crossing_not_desugared :
  forall crossings i f c, In c crossings -> In i c -> is_weighted crossings i f = false.
Proof. exact in_a_crossing_not_weighted. Qed.
Print Assumptions C23_in_a_crossing_not_desugared.

(** The full statement of the property - "a weighted non-derived factor that is not in
    every crossing is desugared" - is false of the model, hence of the code
    (c23.py finding weights:some-not-all-crossings): *)
Theorem C23_not_in_every_crossing_refuted :
  exists design crossings i f,
    nth_error design i = Some f /\ wf_derived f = false /\ existsb (fun l => Nat.ltb 1 (snd l)) (wf_levels f) = true /\
    (exists c, In c crossings /\ ~ In i c) /\
    desugar design crossings = (design, crossings).
Proof. exact not_in_every_crossing_refuted. Qed.
Print Assumptions C23_not_in_every_crossing_refuted.

(** A derived factor that the desugaring re-creates (because it reads a desugared factor)
    keeps its name, levels and weights - so a crossed derived factor keeps its crossing
    weights - and every other factor is kept as it is.  (Before /repo commit f3dc07b the
    weights were dropped: c23.py finding weights:derived-weight-dropped.) *)
Theorem C23_desugar_keeps_levels :
  forall design crossings f,
    wf_name (rewrite_derived design crossings f) = wf_name f /\
    wf_levels (rewrite_derived design crossings f) = wf_levels f /\
    wf_name (shift_deps design crossings f) = wf_name f /\
    wf_levels (shift_deps design crossings f) = wf_levels f.
Proof. exact desugar_keeps_levels. Qed.
Print Assumptions C23_desugar_keeps_levels.

Example C23_example_derived_weights :
  exists f', nth_error (fst (desugar [ex_A; ex_D] [[1]])) (new_pos [ex_A; ex_D] [[1]] 1) = Some f' /\
             wf_name f' = "D"%string /\ wf_levels f' = [("p"%string, 2); ("q"%string, 1)] /\ wf_deps f' = [0] /\
             snd (desugar [ex_A; ex_D] [[1]]) = [[2]].
Proof. exact ex_derived_weights_kept. Qed.

(** The hypotheses are met: A = [a0 x 2, a1] outside the crossing [B]. *)
Example C23_example :
  desugar [ex_A; ex_B] [[1]] = ([hidden_factor ex_A 1; flat_factor ex_A; ex_B], [[2]]) /\
  wf_levels (flat_factor ex_A) = [("a0"%string, 1); ("a0"%string, 1); ("a1"%string, 1)] /\
  NoDup (map fst (wf_levels ex_A)) /\
  combo_weights [ex_A; ex_B] [0; 1] = [2; 2; 2; 1; 1; 1] /\ crossing_size_wo [ex_A; ex_B] [0; 1] = 9.
Proof.
  destruct ex_desugar as [H1 [H2 H3]]. repeat split; try assumption; reflexivity.
Qed.
