(** C24 - Documented block-combinator equivalences hold.

    The theorems are about Front/Create.v, the model of what the constructors
    CrossBlock / MultiCrossBlock / Repeat / Merge / Nest hand to
    MultiCrossBlockRepeat._create as a function of the attributes they read from
    their argument blocks ([binfo]).  [_create] reads nothing else, so equal
    arguments give equal blocks.  A constraint handed to [_create] either carries no
    [within_block] geometry yet (a user's object; [_create] initialises its private copy with
    the new block's geometry, the object itself stays as it is) or carries the geometry of the
    block it comes from ([orig_constraints] of an argument block): for Repeat(b, []) = b and
    Merge([b]) = b the arguments of the two sides differ in exactly that respect
    (C24_repeat_nil_created, C24_merge_singleton_created) while the resulting blocks agree
    (C24_repeat_nil_flat, C24_merge_singleton_flat).  harness/props/c24.py checks on every run that
    the real constructors pass literally what the model says, that the two sides
    of each documented equivalence pass equal arguments wherever the side
    conditions below hold on the real blocks, and that the exhausted solution
    sets of both sides are equal.

    Side conditions and what "equal" means:
      [not_desugared b]      b.design = b.orig_design and b.crossings = b.orig_crossings
                             (no weighted non-derived factor outside every crossing of b);
                             Repeat passes orig_design, Merge passes design
      [aligned b]            b has one sustain count and one weight per crossing (Merge and
                             Nest pass crossing_sustain_counts[:len(crossings)], Repeat all of them;
                             they differ when [_create] dropped an empty crossing of b)
      [same_but_constraints] every field of the arguments except the constraint
                             list, which is equal up to order (Repeat: block's
                             constraints first; Merge: its own first)
      [norm_crossings]       the crossings after [_create] dropped empty ones
      [is_cross_leaf design rcc c b]
                             b is what CrossBlock(design, c, [], rcc) is after
                             [_create] when no weight desugaring happens
    Where a side condition fails the equivalence fails on the real code too
    (c24.py findings): see the [_alignment] theorems. *)
From Coq Require Import ZArith List Bool Arith Permutation.
From SP Require Import Design.Flat Design.Sem Front.Trials Front.TrialsProofs Front.Create Front.CreateProofs Front.CreateSem
  Front.CreateFlat Front.CreateFlatProofs.
Import ListNotations.

(** CrossBlock(design, crossing, cs, rcc) = MultiCrossBlock(design, [crossing], cs, rcc, WEIGHT): identical arguments. *)
Theorem C24_cross_eq_multicross_weight :
  forall design crossing cs rcc,
    create_of (BCross design crossing cs rcc) = create_of (BMulti design [crossing] cs rcc MWeight EqualPreamble).
Proof. exact cross_eq_multicross_weight. Qed.
Print Assumptions C24_cross_eq_multicross_weight.

(** Repeat(block, cs) = Merge([block], cs, REPEAT, EQUAL_PREAMBLE), for a block aligned
    EQUAL_PREAMBLE and built without weight desugaring: same arguments, constraints permuted. *)
Theorem C24_repeat_eq_merge :
  forall b cs,
    bi_multicross b = true -> bi_alignment b = EqualPreamble -> not_desugared b -> aligned b -> NoDup (bi_design b) ->
    exists r m,
      create_of (BRepeat b cs) = COk r /\
      create_of (BMerge [b] cs MRepeat (Some EqualPreamble)) = COk m /\
      same_but_constraints r m /\
      Permutation (ca_constraints r) (ca_constraints m).
Proof. exact repeat_eq_merge. Qed.
Print Assumptions C24_repeat_eq_merge.

(** ... and for a block with any other alignment Repeat builds while the documented Merge call is rejected. *)
Theorem C24_repeat_merge_alignment :
  forall b cs,
    bi_multicross b = true -> bi_alignment b <> EqualPreamble ->
    (exists r, create_of (BRepeat b cs) = COk r /\ ca_alignment r = EqualPreamble) /\
    create_of (BMerge [b] cs MRepeat (Some EqualPreamble)) = CErr EMergeAlignment.
Proof. exact repeat_merge_alignment. Qed.
Print Assumptions C24_repeat_merge_alignment.

(** MultiCrossBlock(design, crossings, cs, rcc, mode, EQUAL_PREAMBLE) =
    Merge([CrossBlock(design, c, [], rcc) for c in crossings], cs, mode, EQUAL_PREAMBLE):
    same arguments once [_create] has dropped empty crossings: the sustain counts and weights are
    all 1 on both sides, one per crossing (MultiCrossBlock) resp. per non-empty crossing (Merge),
    and [_create] only pairs them with the non-empty crossings. *)
Theorem C24_multicross_eq_merge :
  forall design crossings cs rcc mode leaves,
    NoDup design -> crossings <> [] ->
    Forall2 (is_cross_leaf design rcc) crossings leaves ->
    exists m,
      create_of (BMerge leaves cs mode (Some EqualPreamble)) = COk m /\
      let a := create_multi design crossings cs rcc mode EqualPreamble in
      ca_design m = ca_design a /\
      ca_crossings m = norm_crossings a /\ norm_crossings m = norm_crossings a /\
      ca_sustains m = ones (norm_crossings a) /\ ca_sustains a = ones (ca_crossings a) /\
      ca_weights m = onesZ (norm_crossings a) /\ ca_weights a = onesZ (ca_crossings a) /\
      ca_constraints m = ca_constraints a /\ ca_rcc m = ca_rcc a /\
      ca_mode m = ca_mode a /\ ca_alignment m = ca_alignment a.
Proof. exact multicross_eq_merge. Qed.
Print Assumptions C24_multicross_eq_merge.

(** ... and for PARALLEL_START / POST_PREAMBLE the documented Merge call is rejected
    (a CrossBlock is always aligned EQUAL_PREAMBLE). *)
Theorem C24_multicross_merge_alignment :
  forall design crossings cs rcc mode al leaves,
    crossings <> [] -> al <> EqualPreamble ->
    Forall2 (is_cross_leaf design rcc) crossings leaves ->
    create_of (BMerge leaves cs mode (Some al)) = CErr EMergeAlignment.
Proof. exact multicross_merge_alignment. Qed.
Print Assumptions C24_multicross_merge_alignment.

(** the weight a CrossBlock leaf ends up with: 1 (one crossing, no MinimumTrials, T = preamble + size) *)
Theorem C24_cross_leaf_weight :
  forall fb c S su p T,
    fl_crossings fb = [c] -> fl_sizes fb = [S] -> fl_sustains fb = [su] -> fl_preambles fb = [p] ->
    0 < S -> su = 1 -> T = Z.of_nat (p + S) ->
    model_weights fb MWeight T [1%Z] = WOk [1%Z].
Proof. exact single_crossing_weight_one. Qed.
Print Assumptions C24_cross_leaf_weight.

(** Repeat(block, []): the block's own (original) design, crossings, sustain counts, final
    weights and constraints ([ocs]: its [orig_constraints], see C24_repeat_nil_created), in REPEAT
    mode (which keeps the weights) and EQUAL_PREAMBLE. *)
Theorem C24_repeat_nil :
  forall a ocs T P ws,
    exists r, create_of (BRepeat (binfo_of_create true a ocs T P ws) []) = COk r /\
      ca_design r = ca_design a /\ ca_crossings r = norm_crossings a /\ norm_crossings r = norm_crossings a /\
      ca_sustains r = ca_sustains a /\ ca_rcc r = ca_rcc a /\ map snd (ca_constraints r) = ocs /\
      ca_weights r = ws /\ ca_mode r = MRepeat /\ ca_alignment r = EqualPreamble.
Proof. exact repeat_nil_of_create. Qed.
Print Assumptions C24_repeat_nil.

(** Merge([block]): the block's design, crossings, sustain counts and final weights (those of
    its crossings), constraints and alignment. *)
Theorem C24_merge_singleton :
  forall a ocs T P ws mode,
    NoDup (ca_design a) ->
    exists m, create_of (BMerge [binfo_of_create true a ocs T P ws] [] mode None) = COk m /\
      ca_design m = ca_design a /\ ca_crossings m = norm_crossings a /\
      ca_sustains m = firstn (length (norm_crossings a)) (ca_sustains a) /\ ca_rcc m = ca_rcc a /\
      map snd (ca_constraints m) = ocs /\
      ca_weights m = firstn (length (norm_crossings a)) ws /\ ca_mode m = mode /\ ca_alignment m = ca_alignment a.
Proof. exact merge_singleton_of_create. Qed.
Print Assumptions C24_merge_singleton.

(** Which constraints those are.  [_create] works on private copies of the constraint objects it is
    handed (/repo commit 88b3d0f: the objects themselves are never changed, a user's object keeps
    [within_block] = None for ever) and records the new block's geometry [g] = [get_geometry(0)] in
    every copy that carries none yet ([init_within_block]; [created_constraints g a] = the block's
    [orig_constraints]).  So the constraints that Repeat(block, []) / Merge([block]) hand on are the
    ones the block was handed itself, except that an entry without geometry now carries the block's;
    an entry that carried a geometry (even a different one) is handed on unchanged.  The blocks built
    from them have the same [orig_constraints] as the block, whatever their own geometry [g'] is.
    c24.py: layer L1-created ([created_constraints] vs the real [orig_constraints] of every block) and
    L1-equiv-repeat-nil / -merge-single (the recorded arguments of the two sides, constraints related
    by [init_within_block] with the real block's geometry). *)
Theorem C24_init_within_block :
  forall g c,
    c_id (init_within_block g c) = c_id c /\ c_kind (init_within_block g c) = c_kind c /\
    c_param (init_within_block g c) = c_param c /\
    c_wb (init_within_block g c) =
      match c_wb c with
      | Some h => Some h
      | None => if has_within_block (c_kind c) then Some g else None
      end.
Proof. exact init_within_block_spec. Qed.
Print Assumptions C24_init_within_block.

Theorem C24_repeat_nil_created :
  forall a g T P ws,
    exists r, create_of (BRepeat (block_of_create true a g T P ws) []) = COk r /\
      ca_design r = ca_design a /\ ca_crossings r = norm_crossings a /\ norm_crossings r = norm_crossings a /\
      ca_sustains r = ca_sustains a /\ ca_rcc r = ca_rcc a /\
      map snd (ca_constraints r) = map (init_within_block g) (map snd (ca_constraints a)) /\
      ca_weights r = ws /\ ca_mode r = MRepeat /\ ca_alignment r = EqualPreamble /\
      forall g', created_constraints g' r = created_constraints g a.
Proof. exact repeat_nil_of_created. Qed.
Print Assumptions C24_repeat_nil_created.

Theorem C24_merge_singleton_created :
  forall a g T P ws mode,
    NoDup (ca_design a) ->
    exists m, create_of (BMerge [block_of_create true a g T P ws] [] mode None) = COk m /\
      ca_design m = ca_design a /\ ca_crossings m = norm_crossings a /\
      ca_sustains m = firstn (length (norm_crossings a)) (ca_sustains a) /\ ca_rcc m = ca_rcc a /\
      map snd (ca_constraints m) = map (init_within_block g) (map snd (ca_constraints a)) /\
      ca_weights m = firstn (length (norm_crossings a)) ws /\ ca_mode m = mode /\ ca_alignment m = ca_alignment a /\
      forall g', created_constraints g' m = created_constraints g a.
Proof. exact merge_singleton_of_created. Qed.
Print Assumptions C24_merge_singleton_created.

(** a user's Pin(-1) and MinimumTrials(3) given to a CrossBlock of 4 trials: the block is handed the
    objects without geometry; Repeat(block, []) hands on the block's copies, the Pin with the
    geometry of the 4 trials *)
Example C24_example_pin_repeat :
  ca_constraints (create_cross [0; 1] [0; 1] [ex_pin; ex_mint] true) = [(OOwn, ex_pin); (OOwn, ex_mint)] /\
  exists r, create_of (BRepeat ex_pin_block []) = COk r /\
    ca_constraints r = [(OBlock 0, {| c_id := 0; c_kind := KPin; c_param := (-1)%Z; c_wb := Some ex_geometry |});
                        (OBlock 0, ex_mint)].
Proof. exact ex_pin_repeat. Qed.

(** What C24_repeat_nil / C24_merge_singleton leave open is closed by the trial arithmetic:
    REPEAT mode keeps the weights it is given, and trial count, preambles and
    min_trials do not depend on which of PARALLEL_START / EQUAL_PREAMBLE is recorded.
    (For a POST_PREAMBLE block Repeat(block, []) is a different block: c24.py finding
    equiv:repeat-nil:solutions-differ.) *)
Theorem C24_repeat_keeps_weights :
  forall fb T ws, model_weights fb MRepeat T ws = WOk ws.
Proof. exact model_weights_repeat. Qed.
Print Assumptions C24_repeat_keeps_weights.

Theorem C24_alignment_irrelevant :
  forall fb a,
    fl_alignment fb <> PostPreamble -> a <> PostPreamble ->
    model_trials (set_alignment fb a) = model_trials fb /\
    model_preambles (set_alignment fb a) = model_preambles fb /\
    model_min_trials (set_alignment fb a) = model_min_trials fb.
Proof. exact model_trials_alignment. Qed.
Print Assumptions C24_alignment_irrelevant.

(** "The same valid sequences".  There is no Coq model of [_create] itself (arguments -> flat
    record); [denote a] stands for the reference-semantics normal form (Design/Sem.v) of the
    block [_create] builds from the arguments [a] (Encode/CodeSem.v's [code_sem] of its flat
    record).  That [_create] is a function of its arguments is the fact that [denote] is a
    function; the explicit hypothesis [denote_respects] says what else is used: the valid set
    depends on the arguments only through [args_equiv] - design, non-empty crossings with
    their sustain counts and weights, rcc, mode, alignment, and the constraints as a set. *)
Theorem C24_cross_multi_valid :
  forall (denote : create_args -> sem) design crossing cs rcc a b s,
    create_of (BCross design crossing cs rcc) = COk a ->
    create_of (BMulti design [crossing] cs rcc MWeight EqualPreamble) = COk b ->
    valid_b (denote a) s = valid_b (denote b) s.
Proof. exact cross_multi_valid. Qed.
Print Assumptions C24_cross_multi_valid.

Theorem C24_repeat_merge_valid :
  forall (denote : create_args -> sem),
    (forall a b, args_equiv a b -> forall s, valid_b (denote a) s = valid_b (denote b) s) ->
    forall b cs r m s,
      bi_multicross b = true -> bi_alignment b = EqualPreamble -> not_desugared b -> aligned b -> NoDup (bi_design b) ->
      create_of (BRepeat b cs) = COk r -> create_of (BMerge [b] cs MRepeat (Some EqualPreamble)) = COk m ->
      valid_b (denote r) s = valid_b (denote m) s.
Proof. exact repeat_merge_valid. Qed.
Print Assumptions C24_repeat_merge_valid.

Theorem C24_multi_merge_valid :
  forall (denote : create_args -> sem),
    (forall a b, args_equiv a b -> forall s, valid_b (denote a) s = valid_b (denote b) s) ->
    forall design crossings cs rcc mode leaves m s,
      NoDup design -> crossings <> [] ->
      Forall2 (is_cross_leaf design rcc) crossings leaves ->
      create_of (BMerge leaves cs mode (Some EqualPreamble)) = COk m ->
      valid_b (denote (create_multi design crossings cs rcc mode EqualPreamble)) s = valid_b (denote m) s.
Proof. exact multi_merge_valid. Qed.
Print Assumptions C24_multi_merge_valid.

(** the "constraints as a set" part of [denote_respects] is a theorem of the reference semantics *)
Theorem C24_valid_perm_constraints :
  forall S S' s,
    s_trials S = s_trials S' -> s_factors S = s_factors S' -> s_crossings S = s_crossings S' ->
    Permutation (s_constraints S) (s_constraints S') ->
    valid_b S s = valid_b S' s.
Proof. exact valid_perm_constraints. Qed.
Print Assumptions C24_valid_perm_constraints.

(** [denote_respects] is satisfiable by a [denote] that reads the design and every constraint *)
Example C24_example_denote :
  forall a b, args_equiv a b -> forall s, valid_b (ex_denote a) s = valid_b (ex_denote b) s.
Proof. exact ex_denote_respects. Qed.

(** [_create] itself.  Front/CreateFlat.v [create_flat] is a model of [_create] + [Block.__init__]
    as a whole: from the arguments (design as factor descriptions, crossings, counts, weights,
    constraints, rcc, mode, alignment) to the flat record of the block; c16.py compares it field by
    field with the real block on every block of every generated program (layer L1-createflat).
    Inputs it takes from the real block instead of modelling them (they call user predicates): the
    exclusion count of every crossing, the generated Derivation constraints, excluded_derived, the
    error flag; designs that need weight desugaring are outside ([FUnsupported]).
    [input_equiv]: same design, same non-empty crossings with the same counts and weights (further
    counts all 1), constraints a permutation of each other with positive MinimumTrials, the rest equal.
    [flat_equiv]: the same record up to the counts / weights beyond the crossings and the order of
    the constraint and exclusion lists. *)
Theorem C24_create_flat_respects :
  forall a b, input_equiv a b -> fres_equiv (create_flat a) (create_flat b).
Proof. exact create_flat_respects. Qed.
Print Assumptions C24_create_flat_respects.

(** Repeat vs Merge: the block's constraints followed by [own], or [own] followed by the block's *)
Theorem C24_flat_repeat_merge :
  forall ci cb own,
    Forall (fun n => n = 1) (skipn (length (st_crossings ci)) (ci_sustains ci)) ->
    min_trials_positive (cb ++ own) ->
    fres_equiv (create_flat (with_constraints ci (cb ++ own))) (create_flat (with_constraints ci (own ++ cb))).
Proof. exact flat_repeat_merge. Qed.
Print Assumptions C24_flat_repeat_merge.

(** MultiCrossBlock vs Merge of CrossBlocks: all crossings with a count / weight 1 each, or only the
    non-empty ones with theirs *)
Theorem C24_flat_multi_merge :
  forall ci,
    ci_sustains ci = map (fun _ => 1) (ci_crossings ci) -> ci_weights ci = map (fun _ => 1) (ci_crossings ci) ->
    min_trials_positive (ci_constraints ci) ->
    fres_equiv (create_flat ci) (create_flat (drop_empty ci)).
Proof. exact flat_multi_merge. Qed.
Print Assumptions C24_flat_multi_merge.

(** "The same valid sequences", without a hypothesis about [_create]: [sem_of] is the reading of a
    flat record as a normal form (Encode/CodeSem.v [code_sem], checked against the real samplers on
    every run); what remains assumed is that this reading respects [flat_equiv]. *)
Theorem C24_repeat_merge_valid_flat :
  forall (sem_of : flat -> sem),
    (forall x y, flat_equiv x y -> forall s, valid_b (sem_of x) s = valid_b (sem_of y) s) ->
    forall ci cb own x y s,
      Forall (fun n => n = 1) (skipn (length (st_crossings ci)) (ci_sustains ci)) ->
      min_trials_positive (cb ++ own) ->
      create_flat (with_constraints ci (cb ++ own)) = FOk x -> create_flat (with_constraints ci (own ++ cb)) = FOk y ->
      valid_b (sem_of x) s = valid_b (sem_of y) s.
Proof. exact repeat_merge_valid_flat. Qed.
Print Assumptions C24_repeat_merge_valid_flat.

Theorem C24_multi_merge_valid_flat :
  forall (sem_of : flat -> sem),
    (forall x y, flat_equiv x y -> forall s, valid_b (sem_of x) s = valid_b (sem_of y) s) ->
    forall ci x y s,
      ci_sustains ci = map (fun _ => 1) (ci_crossings ci) -> ci_weights ci = map (fun _ => 1) (ci_crossings ci) ->
      min_trials_positive (ci_constraints ci) ->
      create_flat ci = FOk x -> create_flat (drop_empty ci) = FOk y ->
      valid_b (sem_of x) s = valid_b (sem_of y) s.
Proof. exact multi_merge_valid_flat. Qed.
Print Assumptions C24_multi_merge_valid_flat.

(** Repeat(block, []) and Merge([block]) at the level of the flat record.  [again ci fb al]: the
    arguments a constructor passes on for the block [fb] built from [ci] - its filtered crossings, all
    its sustain counts, its final weights in REPEAT mode, its constraints with their [within_block]
    initialised, alignment [al]; [merge_again]: the same with the counts and weights of the actual
    crossings only and the block's own alignment.  Side conditions: constraints about single levels
    (a run-length constraint on a whole factor is deep-copied with a geometry that has lost its
    factor keys: Front/CreateFlat.v [forget_keys]), the block not aligned POST_PREAMBLE (c24.py
    finding equiv:repeat-nil:solutions-differ), equal preamble sizes for Repeat (else it raises, as
    documented). *)
Theorem C24_repeat_nil_flat :
  forall ci fb,
    create_flat ci = FOk fb -> all_level_constraints (ci_constraints ci) ->
    ci_alignment ci <> PostPreamble -> all_eq (fl_preambles fb) = true ->
    create_flat (again ci fb EqualPreamble) = FOk (with_alignment fb EqualPreamble).
Proof. exact repeat_nil_flat. Qed.
Print Assumptions C24_repeat_nil_flat.

Theorem C24_merge_singleton_flat :
  forall ci fb,
    create_flat ci = FOk fb -> all_level_constraints (ci_constraints ci) -> min_trials_positive (ci_constraints ci) ->
    ci_alignment ci <> PostPreamble ->
    Forall (fun n => n = 1) (skipn (length (st_crossings ci)) (ci_sustains ci)) ->
    exists fb', create_flat (merge_again ci fb) = FOk fb' /\ flat_equiv fb fb'.
Proof. exact merge_singleton_flat. Qed.
Print Assumptions C24_merge_singleton_flat.

Example C24_example_again :
  exists fb, create_flat ex_block_input = FOk fb /\ fl_trials fb = 3 /\ fl_alignment fb = ParallelStart /\
    all_level_constraints (ci_constraints ex_block_input) /\ all_eq (fl_preambles fb) = true /\
    create_flat (again ex_block_input fb EqualPreamble) = FOk (with_alignment fb EqualPreamble) /\
    create_flat (merge_again ex_block_input fb) = FOk fb.
Proof. exact ex_block_again. Qed.

(** equivalent arguments are accepted or rejected alike *)
Theorem C24_respects_outcome :
  forall a b, input_equiv a b -> forall e, create_flat a = FErr e <-> create_flat b = FErr e.
Proof. exact respects_outcome. Qed.
Print Assumptions C24_respects_outcome.

(** The hypotheses are met by a block with an empty crossing, MinimumTrials(3) and AtMostKInARow(1, A). *)
Example C24_example_create_flat :
  exists fb, create_flat ex_input = FOk fb /\ fl_trials fb = 3 /\ fl_crossings fb = [[0]; [1]] /\ fl_sustains fb = [1; 1; 1] /\
    fl_constraints fb = [FCross; FConsistency; FMinimumTrials 3;
                         FAtMost 1 0 0 (Some {| g_trials := 3; g_preamble := 0; g_sustain := [(0, 1); (1, 1)] |});
                         FAtMost 1 0 1 (Some {| g_trials := 3; g_preamble := 0; g_sustain := [(0, 1); (1, 1)] |})] /\
  exists fb', create_flat (drop_empty ex_input) = FOk fb' /\ fl_sustains fb' = [1; 1] /\ flat_equiv fb fb'.
Proof. exact ex_input_flat. Qed.

(** The hypotheses are met: design [0;1], crossings [[0];[1]], the two CrossBlock leaves. *)
Example C24_example_multicross :
  NoDup [0; 1] /\ Forall2 (is_cross_leaf [0; 1] true) [[0]; [1]] [ex_leaf0; ex_leaf1] /\
  create_of (BMerge [ex_leaf0; ex_leaf1] [] MRepeat (Some EqualPreamble))
  = COk (create_multi [0; 1] [[0]; [1]] [] true MRepeat EqualPreamble) /\
  create_of (BMerge [ex_leaf0; ex_leaf1] [] MRepeat (Some ParallelStart)) = CErr EMergeAlignment.
Proof. split; [exact ex_nodup | split; [exact ex_leaves | split; reflexivity]]. Qed.

Example C24_example_repeat :
  bi_multicross (ex_multi_block EqualPreamble) = true /\ not_desugared (ex_multi_block EqualPreamble) /\
  aligned (ex_multi_block EqualPreamble) /\ NoDup (bi_design (ex_multi_block EqualPreamble)) /\
  create_of (BRepeat (ex_multi_block ParallelStart) []) =
  COk (create_multi [0; 1] [[0]; [1]] [] true MRepeat EqualPreamble) /\
  create_of (BMerge [ex_multi_block ParallelStart] [] MRepeat (Some EqualPreamble)) = CErr EMergeAlignment.
Proof. split; [reflexivity | split; [split; reflexivity | split; [split; reflexivity | split; [exact ex_nodup | split; reflexivity]]]]. Qed.
